------------------------------- MODULE KDFBcryptKat -------------------------------
(* Known answers of bcrypt (module KDF), part 1 of 3: each needs 33 (cost 4) or 65 (cost 5) EksBlowfish key expansions of 521 Blowfish
   encryptions - minutes of TLC time - so they are kept out of module KDF, and in three modules so that they run side by side.
   Values: "U*U*U" at cost 5 is a published vector of Openwall's crypt_blowfish (wrapper.c), reproduced at authoring time by libxcrypt's
   crypt(3), which also produced the others (empty password; a single 8-bit character - the historical sign-extension bug; 72 bytes - no
   terminating NUL is appended; 71 8-bit bytes including 0xFF).  crypt(3) was called under the prefix $2b$ (the plain OpenBSD algorithm)
   and the result relabelled $2a$; the two prefixes were compared on all vectors without 0xFF ($2a$ in crypt_blowfish deliberately
   alters the hash of passwords hit by the sign-extension collision, which is not part of the algorithm). *)
EXTENDS Integers, Sequences
K == INSTANCE KDF
ASSUME K!Bcrypt(<<85,42,85,42,85>>, 5, <<101,150,89,101,150,89,101,150,89,101,150,89,101,150,89,101>>) = <<36,50,97,36,48,53,36,88,88,88,88,88,88,88,88,88,88,88,88,88,88,88,88,88,88,88,88,88,79,65,99,88,120,109,57,107,106,80,71,69,77,115,76,122,110,111,75,113,109,113,119,55,116,99,56,87,67,120,52,97>>
=============================================================================
