CONSTANTS MaxOps = 2
FLen = 3
SPECIFICATION Spec
INVARIANT ReplayAccepted
INVARIANT SpliceAllIsGenuine
INVARIANT NoForeignByteInGenuine
INVARIANT Emit
CHECK_DEADLOCK FALSE
