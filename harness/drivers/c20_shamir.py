"""C20 recorder: drives the real Crypto.Protocol.SecretSharing._Element (*, +, inverse, **) on boundary and seeded random
elements, and Shamir.split / Shamir.combine with the module's random source (SecretSharing.rng) replaced, in this process
only, by a tape that logs every request.  Elements are 16-byte strings (arrays of 0..255).  Computes no verdicts."""
import itertools
import json
import os
import sys

sys.path.insert(0, os.path.dirname(os.path.abspath(__file__)))
from _util import exc_class, rng  # noqa: E402

from Crypto.Protocol import SecretSharing
from Crypto.Protocol.SecretSharing import Shamir, _Element

Z16 = [0] * 16
M128 = (1 << 128) - 1


def enc(v):
    return list(v.to_bytes(16, "big"))


def boundary():
    top = 1 << 127
    return [0, 1, 2, 3, 0x87, 0x80, 0x87 << 1, top, top | 1, top | 0x87, M128, M128 ^ 0x87, M128 ^ 1, 1 << 64, (1 << 64) - 1,
            1 << 121, 1 << 120, 0x87 << 120, (1 << 127) | (1 << 126), int("55" * 16, 16), int("aa" * 16, 16)]


def ev(op, a=0, b=0, c=0, e=0):
    """one operation on the real class; every field always present (zero when unused)"""
    rec = dict(op=op, a=enc(a), b=enc(b), c=enc(c), e=e, r=Z16, r2=Z16, exc="none")
    try:
        A, B, C = _Element(bytes(enc(a))), _Element(bytes(enc(b))), _Element(bytes(enc(c)))
        if op == "mul":
            rec["r"] = list((A * B).encode())
        elif op == "add":
            rec["r"] = list((A + B).encode())
        elif op == "inv":
            rec["r"] = list(A.inverse().encode())
        elif op == "pow":
            rec["r"] = list((A ** e).encode())
        elif op == "comm":
            rec["r"] = list((A * B).encode())
            rec["r2"] = list((B * A).encode())
        elif op == "assoc":
            rec["r"] = list(((A * B) * C).encode())
            rec["r2"] = list((A * (B * C)).encode())
        elif op == "distr":
            rec["r"] = list((A * (B + C)).encode())
            rec["r2"] = list((A * B + A * C).encode())
        elif op == "mulinv":             # a * inverse(a)
            rec["r"] = list((A * A.inverse()).encode())
        elif op == "int":                # the integer constructor and encode(): _Element(int(a)).encode()
            rec["r"] = list(_Element(a).encode())
        else:
            raise RuntimeError(op)
    except Exception as x:               # noqa: BLE001 - the class is what is recorded
        rec["exc"] = exc_class(x)
    return rec


def elem_traces(job, tid0):
    r = rng("c20-elem")
    B = boundary()
    evs = []
    for a in B:
        for b in B:
            evs.append(ev("mul", a, b))
    for a in B:
        evs.append(ev("inv", a))
        evs.append(ev("mulinv", a))
        evs.append(ev("int", a))
        evs.append(ev("add", a, r.choice(B)))
        for e in (1, 2, 3):
            evs.append(ev("pow", a, e=e))
    rnd = lambda: r.getrandbits(128)     # noqa: E731
    def sparse():
        v = 0
        for _ in range(r.randrange(1, 4)):
            v |= 1 << r.randrange(128)
        return v
    for _ in range(job["n_mul"]):
        evs.append(ev("mul", rnd(), r.choice([rnd(), rnd(), sparse(), r.choice(B)])))
    for _ in range(job["n_inv"]):
        a = r.choice([rnd(), rnd(), sparse(), r.getrandbits(r.randrange(1, 128))])
        evs.append(ev("inv", a))
    for _ in range(job["n_pow"]):
        evs.append(ev("pow", r.choice([rnd(), sparse(), r.choice(B)]), e=r.choice([1, 2, 3, 4, 5, 6, 7, 9, 16, 17])))
    for _ in range(job["n_law"]):
        pick = lambda: r.choice([rnd(), rnd(), sparse(), r.choice(B)])     # noqa: E731
        evs.append(ev("comm", pick(), pick()))
        evs.append(ev("assoc", pick(), pick(), pick()))
        evs.append(ev("distr", pick(), pick(), pick()))
        evs.append(ev("add", pick(), pick()))
    r.shuffle(evs)
    per = job.get("per_trace", 24)
    traces = []
    for i in range(0, len(evs), per):
        traces.append(dict(tid=tid0 + len(traces) + 1, family="elem", events=evs[i:i + per]))
    return traces


class Tape:
    """stands in for Crypto.Random.get_random_bytes inside SecretSharing: serves the given chunks, logs every request"""

    def __init__(self, chunks):
        self.stream = b"".join(chunks)            # a byte stream: the request sizes are the implementation's business
        self.pos = 0
        self.requests = []

    def __call__(self, n):
        self.requests.append(n)
        out = self.stream[self.pos:self.pos + n]
        self.pos += n
        if len(out) < n:                          # beyond the tape: seeded filler (the judge sees that more was drawn than the tape holds)
            out += bytes((37 * (self.pos + i) + 11) % 256 for i in range(n - len(out)))
        return out


def split_with_tape(k, n, secret, ssss, chunks):
    tape = Tape(chunks)
    saved = SecretSharing.rng
    SecretSharing.rng = tape
    try:
        shares = Shamir.split(k, n, secret, ssss)
        exc = "none"
    except Exception as x:      # noqa: BLE001
        shares, exc = [], exc_class(x)
    finally:
        SecretSharing.rng = saved
    return shares, exc, tape


def combine_event(shares, ord_, ssss, lag, altpos=0, altval=None):
    given = [shares[i - 1] for i in ord_]
    if altpos:
        given[altpos - 1] = (given[altpos - 1][0], bytes(altval))
    rec = dict(op="combine", ord=list(ord_), altpos=altpos, altval=list(altval) if altval else Z16, out=Z16, exc="none", lag=bool(lag))
    try:
        rec["out"] = list(Shamir.combine(given, ssss))
    except Exception as x:      # noqa: BLE001
        rec["exc"] = exc_class(x)
    return rec


def shamir_trace(tid, k, n, ssss, secret, chunks, r, orders, lag_every, ndup):
    shares, exc, tape = split_with_tape(k, n, secret, ssss, chunks)
    ok_shape = exc == "none" and all(isinstance(s, tuple) and len(s) == 2 and isinstance(s[0], int) and len(s[1]) == 16 for s in shares)
    sp = dict(op="split", k=k, n=n, ssss=bool(ssss), secret=list(secret), tape=[list(c) for c in chunks],
              draws=list(tape.requests), drawn=sum(tape.requests), shares=[[s[0], list(s[1])] for s in shares] if ok_shape else [],
              exc=exc if (exc != "none" or ok_shape) else "malformed")
    events = [sp]
    if ok_shape and len(shares) == n:
        for j, o in enumerate(orders):
            events.append(combine_event(shares, o, ssss, lag=(j % lag_every == 0)))
        # duplicate indexes: the same share twice, and the same index with a different value; at every pair of positions sampled
        for _ in range(ndup):
            o = list(r.choice(orders))
            i, j = r.sample(range(k), 2)
            o[j] = o[i]
            if r.random() < 0.5:
                events.append(combine_event(shares, o, ssss, lag=False))
            else:
                events.append(combine_event(shares, o, ssss, lag=False, altpos=j + 1, altval=bytes(r.getrandbits(8) for _ in range(16))))
    return dict(tid=tid, family="shamir", events=events)


def secrets_and_tapes(r, k):
    rb16 = lambda: bytes(r.getrandbits(8) for _ in range(16))     # noqa: E731
    sec = r.choice([bytes(16), b"\xff" * 16, b"\x80" + bytes(15), bytes(15) + b"\x01", rb16(), rb16(), rb16(), rb16()])
    style = r.choice(["rand", "rand", "rand", "zero", "ones", "mixed"])
    if style == "rand":
        chunks = [rb16() for _ in range(k - 1)]
    elif style == "zero":
        chunks = [bytes(16) for _ in range(k - 1)]
    elif style == "ones":
        chunks = [b"\xff" * 16 for _ in range(k - 1)]
    else:
        chunks = [r.choice([bytes(16), b"\xff" * 16, b"\x80" + bytes(15), rb16()]) for _ in range(k - 1)]
    return sec, chunks


def shamir_traces(job, tid0):
    r = rng("c20-shamir")
    traces = []
    tid = tid0
    # every (k, n) with 2 <= k <= n <= 5, both variants: every k-subset in every order
    for rep in range(job["reps"]):
        for n in range(2, 6):
            for k in range(2, n + 1):
                for ssss in (False, True):
                    orders = list(itertools.permutations(range(1, n + 1), k))
                    cap = job["max_orders"]
                    if len(orders) > cap and not (rep == 0 and job.get("full_first", True)):
                        r.shuffle(orders)
                        orders = orders[:cap]
                    sec, chunks = secrets_and_tapes(r, k)
                    if rep == 0 and k == 2 and n == 2:
                        sec, chunks = (bytes(16), [bytes(16)]) if not ssss else (b"\xff" * 16, [b"\xff" * 16])
                    tid += 1
                    traces.append(shamir_trace(tid, k, n, ssss, sec, chunks, r, orders, job["lag_every"], job["ndup"]))
    # larger share counts: sampled subsets and orders, large indexes included
    for (k, n) in job.get("large", []):
        for ssss in (False, True):
            orders = []
            for _ in range(job["large_orders"]):
                o = r.sample(range(1, n + 1), k)
                if r.random() < 0.5:
                    o[r.randrange(k)] = n
                    if len(set(o)) < k:
                        continue
                orders.append(tuple(o))
            sec, chunks = secrets_and_tapes(r, k)
            tid += 1
            traces.append(shamir_trace(tid, k, n, ssss, sec, chunks, r, orders, job["lag_every"], 2))
    return traces


def observations():
    """behaviour outside the property's statement, recorded for the report only"""
    a = _Element(5)
    out = {}
    try:
        out["pow0_equals_one"] = (a ** 0) == _Element(1)
        out["pow0_equals_self"] = (a ** 0) == a
    except Exception as x:      # noqa: BLE001
        out["pow0_exception"] = exc_class(x)
    out["rng_attribute_present"] = hasattr(SecretSharing, "rng")
    return out


def main():
    job = json.load(sys.stdin)
    traces = elem_traces(job["elem"], 0)
    traces += shamir_traces(job["shamir"], 100000)
    json.dump(dict(traces=traces, observations=observations()), sys.stdout)


if __name__ == "__main__":
    main()
