------------------------------- MODULE SamplerTrace -------------------------------
(* Code -> spec, C18: recorded calls of the real random-integer functions on known entropy tapes, judged by the sampler
   machine of obj/Sampler run on the same tape (BW = 8).  One trace = one function with its arguments (and integer back-end),
   runs = the tapes fed to it with the result and the number of bytes the implementation drew.  Clauses:
     "value differs from the rejection sampler"      the result is not the machine's result for this tape
     "bytes drawn differ"                            the implementation consumed another number of bytes than the machine
     "result out of range"                           the result is outside the documented range (judged without the machine)
     "not a deterministic function of the tape"      a second execution on the same tape gave another result / consumption
   Families: "small" (arguments and results are TLC integers; the instance operators are those model-checked in mc/SamplerMC),
   "perm" (shuffle, sample), "big" (cryptographic sizes: bounds and results are base-2^12 limb lists, arithmetic by data/BigNat;
   direct calls on the three back-ends, ECC.generate, DSS nonces, blinding factors and point-multiplication seeds drawn from the
   replaced default sources, Edwards/Montgomery seeds; lo, hi are the arguments of the sampler call, dlo, dhi the bounds documented
   by the consumer of the value - e.g. DsaKey._sign documents 2 <= k <= q-1 - against which the range clause is judged), "det" (values found by a search that also consumes entropy - primes,
   RSA moduli: PrimeSearchOpen - only size, determinism and consumption are judged). *)
EXTENDS Sampler, BigNat, Json, IOUtils
Traces == JsonDeserialize(IOEnv.TRACE_FILE)
VARIABLES t, l, bad
Ok == <<0, "ok">>
IsBytes(x) == \A j \in 1..Len(x) : x[j] \in 0..255
Det(run, same) == IF run.twice /\ (run.exc2 # run.exc \/ ~same \/ run.drawn2 # run.drawn) THEN "not a deterministic function of the tape" ELSE "ok"
-----------------------------------------------------------------------------
SmallVerdict(tr, run) ==
   LET i == SmpI(tr.api, tr.p1, tr.p2, tr.p3)
       r == SmpRun(SmpSpOf(i), run.tape)
       rng == SmpRng(i)
       InR(v) == v >= rng.lo /\ ((v - rng.lo) % rng.step) = 0 /\ ((v - rng.lo) \div rng.step) < rng.size
   IN IF ~IsBytes(run.tape) THEN "harness: tape is not a byte string"
      ELSE IF run.exc = "starved" THEN (IF r.st = "starved" THEN Det(run, TRUE) ELSE "bytes drawn differ")     \* asked for more than the machine
      ELSE IF run.exc # "none" THEN "sampler raised " \o run.exc
      ELSE IF ~InR(run.val) THEN "result out of range"
      ELSE IF r.st # "done" THEN "value differs from the rejection sampler"                                 \* accepted where the machine rejects
      ELSE IF run.val # SmpRes(i, SmpVal(r.cb)) THEN "value differs from the rejection sampler"
      ELSE IF run.drawn # r.drawn THEN "bytes drawn differ"
      ELSE Det(run, run.val2 = run.val)
PermVerdict(tr, run) ==
   LET r == IF tr.api = "shuffle" THEN SmpShuffle(tr.n, run.tape) ELSE SmpSample(tr.n, tr.k, run.tape)
       vals == {run.out[j] : j \in 1..Len(run.out)}
       \* the population: the model selects POSITIONS (SmpSample / SmpShuffle work on 0..n-1); the result carries the elements at those
       \* positions.  With repeated elements in the population, selection by value instead of by position is visible.
       popset == {tr.pop[j] : j \in 1..Len(tr.pop)}
       distinct == Cardinality(popset) = Len(tr.pop)
       expected == [j \in 1..Len(r.out) |-> tr.pop[r.out[j] + 1]]
       wellformed == IF tr.api = "shuffle" THEN Len(run.out) = tr.n /\ vals = popset
                     ELSE Len(run.out) = tr.k /\ (distinct => Cardinality(vals) = tr.k) /\ vals \subseteq popset
   IN IF ~IsBytes(run.tape) THEN "harness: tape is not a byte string"
      ELSE IF run.exc = "starved" THEN (IF r.st = "starved" THEN Det(run, TRUE) ELSE "bytes drawn differ")
      ELSE IF run.exc # "none" THEN "sampler raised " \o run.exc
      ELSE IF ~wellformed THEN "result out of range"
      ELSE IF Len(tr.pop) # tr.n THEN "harness: population length"
      ELSE IF r.st # "done" \/ run.out # expected THEN "value differs from the rejection sampler"
      ELSE IF run.drawn # r.drawn THEN "bytes drawn differ"
      ELSE Det(run, run.out2 = run.out)
-----------------------------------------------------------------------------
PadLeft(bs, n) == [j \in 1..n |-> IF j <= n - Len(bs) THEN 0 ELSE bs[j - (n - Len(bs))]]
IsRangeApi(a) == a \in {"random_range", "random_range_excl", "randrange", "randint", "getRandomRange"}
\* the sampler of a call with big arguments: lo, hi = the inclusive documented bounds (limbs), n = the bit-size argument
BigSp(tr) ==
   LET nm == BnSub(tr.hi, tr.lo) IN                                    \* norm_maximum
   CASE tr.api \in {"random_range", "random_range_excl"} ->
           LET bits == IF Len(nm) = 0 THEN 1 ELSE BnBitLen(nm) IN SmpRangeOfBound(PadLeft(BnToBytesBE(nm), SmpNBytes(bits)), bits)
     [] tr.api = "random_max" -> SmpIntegerRandom(tr.n, FALSE)
     [] tr.api = "random_exact" -> SmpIntegerRandom(tr.n, TRUE)
     [] tr.api = "getrandbits" -> SmpGetrandbits(tr.n)
     [] tr.api \in {"randrange", "randint"} ->
           LET nc == BnAdd(nm, <<1>>)  bits == BnBitLen(nc)
           IN [shape |-> "all_mask", bits |-> bits, exact |-> FALSE, cmp |-> "lt", bound |-> PadLeft(BnToBytesBE(nc), SmpNBytes(bits))]
     [] tr.api = "getRandomInteger" -> SmpGetRandomInteger(tr.n)
     [] tr.api = "getRandomNBitInteger" -> SmpGetRandomInteger(tr.n - 1)
     [] tr.api = "getRandomRange" ->
           LET bits == BnBitLen(nm)
           IN [shape |-> "low_shift", bits |-> bits, exact |-> FALSE, cmp |-> "le", bound |-> PadLeft(BnToBytesBE(nm), SmpNBytes(bits))]
BigRes(tr, cb) == LET c == BnOfBytesBE(cb) IN
   IF IsRangeApi(tr.api) THEN BnAdd(c, tr.lo)
   ELSE IF tr.api = "getRandomNBitInteger" THEN BnAdd(c, BnPow2(tr.n - 1))
   ELSE c
BigInRange(tr, v) ==
   IF IsRangeApi(tr.api) THEN BnLe(tr.dlo, v) /\ BnLe(v, tr.dhi)         \* the bounds documented by the consumer of the value
   ELSE IF tr.api \in {"random_exact", "getRandomNBitInteger"} THEN BnBitLen(v) = tr.n
   ELSE BnBitLen(v) <= tr.n
BigVerdict(tr, run) ==
   IF ~IsBytes(run.tape) THEN "harness: tape is not a byte string"
   ELSE IF tr.api = "seed" THEN
        (IF run.exc # "none" THEN "key generation raised " \o run.exc
         ELSE IF run.val # SubSeq(run.tape, 1, tr.n) THEN "value differs from the rejection sampler"        \* the seed is the first n tape bytes
         ELSE IF run.drawn # tr.n THEN "bytes drawn differ"
         ELSE Det(run, run.val2 = run.val))
   ELSE IF ~(BnIsNat(tr.lo) /\ BnIsNat(tr.hi) /\ BnIsNat(tr.dlo) /\ BnIsNat(tr.dhi) /\ BnIsNat(run.val) /\ BnIsNat(run.val2) /\ BnLe(tr.lo, tr.hi)) THEN "harness: malformed big number"
   ELSE LET r == SmpRun(BigSp(tr), run.tape) IN
        IF run.exc = "starved" THEN (IF r.st = "starved" THEN Det(run, TRUE) ELSE "bytes drawn differ")
        ELSE IF run.exc # "none" THEN "sampler raised " \o run.exc
        ELSE IF run.neg \/ ~BigInRange(tr, run.val) THEN "result out of range"
        ELSE IF r.st # "done" THEN "value differs from the rejection sampler"
        ELSE IF run.val # BigRes(tr, r.cb) THEN "value differs from the rejection sampler"
        ELSE IF run.drawn # r.drawn THEN "bytes drawn differ"
        ELSE Det(run, run.val2 = run.val /\ run.aux2 = run.aux)
\* PrimeSearchOpen: which candidate survives depends on primality tests that draw entropy themselves; not modelled
DetVerdict(tr, run) ==
   IF ~(BnIsNat(run.val) /\ BnIsNat(run.val2)) THEN "harness: malformed big number"
   ELSE IF run.exc # "none" THEN "generation raised " \o run.exc
   ELSE IF BnBitLen(run.val) # tr.n \/ ~BnIsOdd(run.val) THEN "result out of range"
   ELSE IF run.exc2 # run.exc \/ run.val2 # run.val \/ run.drawn2 # run.drawn THEN "not a deterministic function of the tape"
   ELSE "ok"
\* randrange / randint outside the ordinary domain (descending steps, step 0, empty ranges): the documentation is range(start, stop, step);
\* the library refuses descending steps altogether.  Either a refusal (ValueError), or - if a value is returned - an element of
\* Python's range(start, stop, step); an empty range can only be refused.
EdgeCount(a, b, st) == IF st > 0 THEN (IF b > a THEN ((b - a) + (st - 1)) \div st ELSE 0)
                       ELSE IF st < 0 THEN (IF a > b THEN ((a - b) + ((0 - st) - 1)) \div (0 - st) ELSE 0) ELSE 0
EdgeVerdict(tr, run) ==
   LET n == EdgeCount(tr.p1, tr.p2, tr.p3) IN
   IF run.exc = "ValueError" THEN "ok"
   ELSE IF run.exc # "none" THEN "sampler raised " \o run.exc
   ELSE IF n = 0 THEN "returned a value for an empty range"
   ELSE IF ~\E j \in 0..(n - 1) : run.val = tr.p1 + (j * tr.p3) THEN "result out of range"
   ELSE "ok"
RunVerdict(tr, run) == CASE tr.family = "small" -> SmallVerdict(tr, run)
                         [] tr.family = "edge" -> EdgeVerdict(tr, run)
                         [] tr.family = "perm" -> PermVerdict(tr, run)
                         [] tr.family = "big" -> BigVerdict(tr, run)
                         [] tr.family = "det" -> DetVerdict(tr, run)
                         [] OTHER -> "harness: unknown family"
TInit == t = 1 /\ l = 1 /\ bad = Ok
TNext == /\ t <= Len(Traces)
         /\ LET tr == Traces[t] IN
            IF l > Len(tr.runs) THEN
               /\ PrintT(<<"VERDICT", tr.tid, bad[1], bad[2]>>)
               /\ t' = t + 1 /\ l' = 1 /\ bad' = Ok
            ELSE LET v == RunVerdict(tr, tr.runs[l])
                 IN /\ bad' = IF bad = Ok /\ v # "ok" THEN <<l, v>> ELSE bad
                    /\ l' = l + 1 /\ t' = t
=============================================================================
