------------------------------- MODULE HpkeData -------------------------------
(* RFC 9180 transcribed: LabeledExtract / LabeledExpand, DHKEM ExtractAndExpand, KeySchedule (all four modes), ComputeNonce,
   Seal/Open for all five KEMs the library offers with the KDF the library pairs with each (RFC 9180 section 7.1/7.2):
   DHKEM(P-256) 0x0010 and DHKEM(X25519) 0x0020 with HKDF-SHA256 (KDF 0x0001), DHKEM(P-384) 0x0011 with HKDF-SHA384 (0x0002),
   DHKEM(P-521) 0x0012 and DHKEM(X448) 0x0021 with HKDF-SHA512 (0x0003); AEAD 1 = AES-128-GCM, 2 = AES-256-GCM,
   3 = ChaCha20-Poly1305.  The DH output itself is taken from the trace (its correctness is C06's subject). *)
EXTENDS HashAlgs
G == INSTANCE AesAead
CP == INSTANCE ChaChaPoly
HPKEv1 == <<72, 80, 75, 69, 45, 118, 49>>                       \* "HPKE-v1"
I2(n) == <<n \div 256, n % 256>>
\* the hash, KDF identifier and secret length that go with a KEM
KemHash(kem) == CASE kem \in {16, 32} -> "SHA256" [] kem = 17 -> "SHA384" [] kem \in {18, 33} -> "SHA512"
KemKdf(kem) == CASE kem \in {16, 32} -> 1 [] kem = 17 -> 2 [] kem \in {18, 33} -> 3
Nh(h) == CASE h = "SHA256" -> 32 [] h = "SHA384" -> 48 [] h = "SHA512" -> 64
Nsecret(kem) == CASE kem \in {16, 32} -> 32 [] kem = 17 -> 48 [] kem \in {18, 33} -> 64
HkdfExtract(h, salt, ikm) == Hmac(h, IF Len(salt) = 0 THEN Rep(0, Nh(h)) ELSE salt, ikm)
RECURSIVE HkdfT(_,_,_,_,_,_)
HkdfT(h, prk, info, prev, n, need) == IF need <= 0 THEN <<>> ELSE LET t == Hmac(h, prk, prev \o info \o <<n>>) IN t \o HkdfT(h, prk, info, t, n + 1, need - Nh(h))
HkdfExpand(h, prk, info, L) == SubSeq(HkdfT(h, prk, info, <<>>, 1, L), 1, L)
LabeledExtract(h, salt, label, ikm, suite) == HkdfExtract(h, salt, HPKEv1 \o suite \o label \o ikm)
LabeledExpand(h, prk, label, info, L, suite) == HkdfExpand(h, prk, I2(L) \o HPKEv1 \o suite \o label \o info, L)
KemSuite(kem) == <<75, 69, 77>> \o I2(kem)                      \* "KEM" || I2OSP(kem_id, 2)
HpkeSuite(kem, kdf, aead) == <<72, 80, 75, 69>> \o I2(kem) \o I2(kdf) \o I2(aead)
L_eae == <<101, 97, 101, 95, 112, 114, 107>>                    \* "eae_prk"
L_ss == <<115,104,97,114,101,100,95,115,101,99,114,101,116>>    \* "shared_secret"
L_pskid == <<112,115,107,95,105,100,95,104,97,115,104>>         \* "psk_id_hash"
L_info == <<105,110,102,111,95,104,97,115,104>>                 \* "info_hash"
L_secret == <<115,101,99,114,101,116>>                          \* "secret"
L_key == <<107,101,121>>                                        \* "key"
L_nonce == <<98,97,115,101,95,110,111,110,99,101>>              \* "base_nonce"
L_exp == <<101,120,112>>                                        \* "exp"
SharedSecret(dh, kemctx, kem) == LET h == KemHash(kem) IN
   LabeledExpand(h, LabeledExtract(h, <<>>, L_eae, dh, KemSuite(kem)), L_ss, kemctx, Nsecret(kem), KemSuite(kem))
Nk(aead) == IF aead = 1 THEN 16 ELSE 32
HpkeKeySchedule(mode, ss, info, psk, pskid, kem, aead) == LET h == KemHash(kem)  suite == HpkeSuite(kem, KemKdf(kem), aead)
       ctx == <<mode>> \o LabeledExtract(h, <<>>, L_pskid, pskid, suite) \o LabeledExtract(h, <<>>, L_info, info, suite)
       secret == LabeledExtract(h, ss, L_secret, psk, suite)
   IN [key |-> LabeledExpand(h, secret, L_key, ctx, Nk(aead), suite), nonce |-> LabeledExpand(h, secret, L_nonce, ctx, 12, suite),
       exp |-> LabeledExpand(h, secret, L_exp, ctx, Nh(h), suite)]
\* ComputeNonce: base_nonce xor I2OSP(seq, 12); seq given as 12 big-endian bytes
SeqNonce(base, seq12) == [j \in 1..12 |-> base[j] ^^ seq12[j]]
SealAt(ks, aead, seq12, aad, pt) == LET n == SeqNonce(ks.nonce, seq12) IN
   IF aead = 3 THEN LET r == CP!AeadEncrypt(ks.key, n, aad, pt) IN r[1] \o r[2]
   ELSE LET r == G!GcmEncrypt(ks.key, n, aad, pt, 16) IN r[1] \o r[2]
\* <<"ok", pt>> or <<"reject", <<>>>>
OpenAt(ks, aead, seq12, aad, ct) == IF Len(ct) < 16 THEN <<"reject", <<>>>> ELSE
   LET n == SeqNonce(ks.nonce, seq12)  body == SubSeq(ct, 1, Len(ct) - 16)  tag == SubSeq(ct, Len(ct) - 15, Len(ct)) IN
   IF aead = 3 THEN CP!ChaChaOpen(ks.key, n, aad, body, tag) ELSE G!GcmOpen(ks.key, n, aad, body, tag, 16)
\* RFC 9180 A.1.1: DHKEM(X25519, HKDF-SHA256), HKDF-SHA256, AES-128-GCM, base mode
A11ss == <<254,14,24,201,240,36,206,67,121,154,227,147,199,232,254,143,206,157,33,136,117,232,34,123,1,135,192,78,125,46,161,252>>
A11ks == HpkeKeySchedule(0, A11ss, <<79,100,101,32,111,110,32,97,32,71,114,101,99,105,97,110,32,85,114,110>>, <<>>, <<>>, 32, 1)
ASSUME A11ks.key = <<69,49,104,93,65,214,95,3,220,72,246,184,48,44,5,176>>
ASSUME A11ks.nonce = <<86,216,144,229,172,202,175,1,28,255,75,125>>
ASSUME SealAt(A11ks, 1, <<0,0,0,0,0,0,0,0,0,0,0,0>>, <<67,111,117,110,116,45,48>>, <<66,101,97,117,116,121,32,105,115,32,116,114,117,116,104,44,32,116,114,117,116,104,32,98,101,97,117,116,121>>) = <<249,56,85,139,93,114,241,162,56,16,180,190,42,180,248,67,49,172,192,47,201,123,171,197,58,82,174,130,24,163,85,169,109,135,112,172,131,208,123,234,135,225,60,81,42>>
\* key schedule and KEM shared secret for the SHA-384 and SHA-512 suites: values produced at authoring time with an independent
\* transcription of RFC 9180 over Python's hmac/hashlib (not with pycryptodome)
ASSUME LET ks == HpkeKeySchedule(1, <<1,2,3,4,5,6,7,8,9,10,11,12,13,14,15,16,17,18,19,20,21,22,23,24,25,26,27,28,29,30,31,32,33,34,35,36,37,38,39,40,41,42,43,44,45,46,47,48>>, <<105,110,102,111,33>>, <<0,1,2,3,4,5,6,7,8,9,10,11,12,13,14,15,16,17,18,19,20,21,22,23,24,25,26,27,28,29,30,31,32,33,34,35,36,37,38,39>>, <<105,100>>, 17, 2) IN ks.key = <<105,73,40,151,104,9,102,198,79,195,207,189,21,96,228,132,48,1,240,225,84,43,178,37,102,26,173,16,234,217,33,53>> /\ ks.nonce = <<102,27,233,153,37,144,130,38,142,151,8,188>> /\ ks.exp = <<102,222,177,175,221,175,10,120,150,46,218,131,176,198,69,17,130,39,213,100,21,218,92,122,131,83,198,215,121,215,67,227,137,28,214,104,252,229,167,237,41,64,236,32,126,118,19,110>>
ASSUME SharedSecret(<<200,201,202,203,204,205,206,207,208,209,210,211,212,213,214,215,216,217,218,219>>, <<0,1,2,3,4,5,6,7,8,9,10,11,12,13,14,15,16,17,18,19,20,21,22,23,24,25,26,27,28,29,30,31,32,33,34,35,36,37,38,39,40,41,42,43,44,45,46,47,48,49>>, 17) = <<51,204,25,132,99,255,73,222,134,95,100,192,108,128,99,144,78,9,148,149,38,38,202,218,123,77,156,54,33,125,72,79,169,1,228,52,65,176,24,169,200,176,216,77,221,70,59,67>>
ASSUME LET ks == HpkeKeySchedule(1, <<1,2,3,4,5,6,7,8,9,10,11,12,13,14,15,16,17,18,19,20,21,22,23,24,25,26,27,28,29,30,31,32,33,34,35,36,37,38,39,40,41,42,43,44,45,46,47,48,49,50,51,52,53,54,55,56,57,58,59,60,61,62,63,64>>, <<105,110,102,111,33>>, <<0,1,2,3,4,5,6,7,8,9,10,11,12,13,14,15,16,17,18,19,20,21,22,23,24,25,26,27,28,29,30,31,32,33,34,35,36,37,38,39>>, <<105,100>>, 18, 3) IN ks.key = <<5,131,127,219,79,86,65,10,120,69,181,203,190,220,187,95,234,135,62,154,232,139,215,129,13,131,30,126,166,167,49,97>> /\ ks.nonce = <<80,101,251,38,50,42,9,182,72,248,211,12>> /\ ks.exp = <<14,133,180,81,117,199,128,81,78,43,233,166,153,242,251,19,119,47,175,166,191,17,153,215,7,47,217,239,152,236,251,41,78,249,90,9,48,76,163,108,61,128,170,75,14,36,12,90,24,195,160,146,160,113,168,85,97,53,96,246,192,192,83,164>>
ASSUME SharedSecret(<<200,201,202,203,204,205,206,207,208,209,210,211,212,213,214,215,216,217,218,219>>, <<0,1,2,3,4,5,6,7,8,9,10,11,12,13,14,15,16,17,18,19,20,21,22,23,24,25,26,27,28,29,30,31,32,33,34,35,36,37,38,39,40,41,42,43,44,45,46,47,48,49>>, 18) = <<6,216,232,235,41,161,113,117,27,178,82,141,145,51,38,202,224,31,11,124,247,226,241,78,140,1,32,240,223,232,61,211,220,45,66,255,109,54,111,197,203,109,118,14,110,130,44,97,63,104,99,45,46,231,162,72,126,144,29,50,109,145,177,38>>
=============================================================================
