------------------------------- MODULE K12MC -------------------------------
(* Refinement check of the KangarooTwelve chunk automaton (obj/K12Obj) against the RFC 9861 definition, with a small chunk
   size and symbolic bytes: every segmentation of every message of at most MaxMsg bytes, every length c of the stored
   custom part (customization string plus its length_encode) in CustomSuffixLens, update() calls of SegLens bytes
   (0 = update(b"")), and the history with no update() at all.  K12_XOF(data, custom) calls update(data) only `if data`,
   so new(data=b"") is the no-update history and new(data=D) is the history that starts with update(D).
   With EmitHist the module is the generator of the histories replayed on the real object: every read() state prints
   its history, whether the model conforms to the definition there, and the model's projection. *)
EXTENDS K12Obj, Json
CONSTANTS MaxMsg, CustomSuffixLens, SegLens, MaxUpdates, EmitHist
VARIABLES o, msg, hist
vars == <<o, msg, hist>>
Init == \E c \in CustomSuffixLens : o = K12New(c) /\ msg = 0 /\ hist = <<>>
Update(n) == /\ msg + n <= MaxMsg /\ Len(hist) < MaxUpdates
             /\ o.state # "SQUEEZING"
             /\ o' = K12Update(o, n) /\ msg' = msg + n
             /\ hist' = IF EmitHist THEN Append(hist, n) ELSE hist
UpdateAfterRead == o.state = "SQUEEZING" /\ o' = K12Update(o, 1) /\ UNCHANGED <<msg, hist>>
Read == o' = K12Read(o) /\ UNCHANGED <<msg, hist>>
Next == (\E n \in SegLens : Update(n)) \/ Read \/ UpdateAfterRead
Spec == Init /\ [][Next]_vars
InvMatchesDefinition == MatchesDefinition(o, msg)
InvStateAssert == StateAssert(o)
\* update() after the first read() raises TypeError and changes nothing; read() keeps squeezing
SqueezingIsFinal == [][o.state = "SQUEEZING" => [o' EXCEPT !.exc = o.exc] = o]_vars
Emit == (EmitHist /\ o.state = "SQUEEZING" /\ o.exc = "none") =>
           PrintT(<<"HIST", ToJson([c |-> o.c, segs |-> hist, conforms |-> MatchesDefinition(o, msg), proj |-> Proj(o)])>>)
=============================================================================
