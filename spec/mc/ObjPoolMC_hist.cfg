CONSTANTS MaxObjs = 3
MaxDepth = 5
NOps = 3
AllowedOps = {"new", "copy", "use", "del"}
EmitHist = TRUE
INIT Init
NEXT Next
INVARIANT Emit
CHECK_DEADLOCK FALSE
