CONSTANTS EmitHist = FALSE
Mutant = TRUE
INIT Init
NEXT Next
INVARIANT Agreement
CHECK_DEADLOCK FALSE
