------------------------------- MODULE KeyFormats -------------------------------
(* The key file formats of property C08 as an INDEPENDENT READER: what the standards say an exported byte string must be, so
   that TLC itself parses what the library wrote and extracts the key components from it.  Data layer, no variables.

     canonical DER (X.690 10, 11)       DerDefect: minimal definite lengths, minimal INTEGERs, no trailing bytes, NULL without
                                        content, octet-aligned BIT STRINGs, minimal OBJECT IDENTIFIER arcs, in the whole tree
     RFC 8017 A.1.1 / A.1.2             RSAPublicKey, RSAPrivateKey (version 0; coefficient = q^-1 mod p)
     RFC 5280 4.1 / RFC 3279 / RFC 5480 / RFC 8410    SubjectPublicKeyInfo and the AlgorithmIdentifiers of RSA, DSA (Dss-Parms),
                                        id-ecPublicKey with a named curve, Ed25519, Ed448, X25519, X448
     RFC 5208 / RFC 5958                PrivateKeyInfo (version 0, no attributes)
     RFC 5915                           ECPrivateKey (version 1, privateKey of fixed length, [0] parameters, [1] publicKey)
     OpenSSL's traditional DSAPrivateKey   SEQUENCE { 0, p, q, g, y, x }
     RFC 8018 A.2 - A.4, RFC 7914 7     EncryptedPrivateKeyInfo with PBES2: PBKDF2 (salt, iterationCount, optional keyLength,
                                        prf) or scrypt parameters, the CBC ciphers with their IV; and its OPENING:
                                        KDF, DES-EDE3-CBC / AES-CBC decryption, RFC 5652 6.3 unpadding, AES-GCM opening
     RFC 8018 6.1, A.3                  PBES1 (pbeWithMD5/SHA1AndDES/RC2-CBC): import-only schemes of the library, opened here too
     RFC 1421 / OpenSSL                 "Proc-Type: 4,ENCRYPTED" / "DEK-Info: DES-EDE3-CBC,<IV>" PEM encryption with the
                                        EVP_BytesToKey(MD5, count 1) key derivation, opened here as well
     SEC 1 2.3.3, RFC 8032 5.1.2 / 5.2.2, RFC 7748 5   point encodings
     RFC 4253 6.6, RFC 5656 3.1, RFC 8709 4   OpenSSH public-key lines "type base64(blob)", mpint / string framing of RFC 4251 5

   Results are <<"ok", value>> or <<"bad", reason>>; `reason` becomes part of a verdict clause.
   The foundations are imported WITHOUT their ASSUMEs (unnamed INSTANCE; they are evaluated by ./check setup); this
   module's own vectors -- files written by OpenSSL 3.5 and OpenSSH 9.2 at authoring time -- are in KeyFormatsKat. *)
EXTENDS Integers, Sequences, FiniteSets, TLC
INSTANCE DerDecoder
INSTANCE ECGroup          \* brings BigNat (Bn...) and the curves (Ec...)
INSTANCE PemCodec
PD == INSTANCE Padding
CM == INSTANCE ClassicModes
KD == INSTANCE KDF
GA == INSTANCE AesAead

Bad(r) == <<"bad", r>>
Good(v) == <<"ok", v>>
IsGood(r) == r[1] = "ok"

(* ------------------------------------------------------------------ object identifiers, as their complete DER encodings
   (openssl asn1parse -genstr OID:...; a canonical OID has exactly one encoding, so comparing encodings compares OIDs) *)
OidRsaEncryption == <<6, 9, 42, 134, 72, 134, 247, 13, 1, 1, 1>>    \* 1.2.840.113549.1.1.1
OidDsa == <<6, 7, 42, 134, 72, 206, 56, 4, 1>>                      \* 1.2.840.10040.4.1
OidEcPublicKey == <<6, 7, 42, 134, 72, 206, 61, 2, 1>>              \* 1.2.840.10045.2.1
OidP192 == <<6, 8, 42, 134, 72, 206, 61, 3, 1, 1>>                  \* 1.2.840.10045.3.1.1
OidP224 == <<6, 5, 43, 129, 4, 0, 33>>                              \* 1.3.132.0.33
OidP256 == <<6, 8, 42, 134, 72, 206, 61, 3, 1, 7>>                  \* 1.2.840.10045.3.1.7
OidP384 == <<6, 5, 43, 129, 4, 0, 34>>                              \* 1.3.132.0.34
OidP521 == <<6, 5, 43, 129, 4, 0, 35>>                              \* 1.3.132.0.35
OidX25519 == <<6, 3, 43, 101, 110>>                                 \* 1.3.101.110
OidX448 == <<6, 3, 43, 101, 111>>                                   \* 1.3.101.111
OidEd25519 == <<6, 3, 43, 101, 112>>                                \* 1.3.101.112
OidEd448 == <<6, 3, 43, 101, 113>>                                  \* 1.3.101.113
OidPbes2 == <<6, 9, 42, 134, 72, 134, 247, 13, 1, 5, 13>>           \* 1.2.840.113549.1.5.13
OidPbkdf2 == <<6, 9, 42, 134, 72, 134, 247, 13, 1, 5, 12>>          \* 1.2.840.113549.1.5.12
OidScrypt == <<6, 9, 43, 6, 1, 4, 1, 218, 71, 4, 11>>               \* 1.3.6.1.4.1.11591.4.11
OidHmacSha1 == <<6, 8, 42, 134, 72, 134, 247, 13, 2, 7>>            \* 1.2.840.113549.2.7
OidHmacSha224 == <<6, 8, 42, 134, 72, 134, 247, 13, 2, 8>>
OidHmacSha256 == <<6, 8, 42, 134, 72, 134, 247, 13, 2, 9>>
OidHmacSha384 == <<6, 8, 42, 134, 72, 134, 247, 13, 2, 10>>
OidHmacSha512 == <<6, 8, 42, 134, 72, 134, 247, 13, 2, 11>>
OidHmacSha512t224 == <<6, 8, 42, 134, 72, 134, 247, 13, 2, 12>>
OidHmacSha512t256 == <<6, 8, 42, 134, 72, 134, 247, 13, 2, 13>>
OidHmacSha3t224 == <<6, 9, 96, 134, 72, 1, 101, 3, 4, 2, 13>>       \* 2.16.840.1.101.3.4.2.13
OidHmacSha3t256 == <<6, 9, 96, 134, 72, 1, 101, 3, 4, 2, 14>>
OidHmacSha3t384 == <<6, 9, 96, 134, 72, 1, 101, 3, 4, 2, 15>>
OidHmacSha3t512 == <<6, 9, 96, 134, 72, 1, 101, 3, 4, 2, 16>>
OidPbeMd5Des == <<6, 9, 42, 134, 72, 134, 247, 13, 1, 5, 3>>        \* 1.2.840.113549.1.5.3   pbeWithMD5AndDES-CBC
OidPbeMd5Rc2 == <<6, 9, 42, 134, 72, 134, 247, 13, 1, 5, 6>>        \* 1.2.840.113549.1.5.6   pbeWithMD5AndRC2-CBC
OidPbeSha1Des == <<6, 9, 42, 134, 72, 134, 247, 13, 1, 5, 10>>      \* 1.2.840.113549.1.5.10  pbeWithSHA1AndDES-CBC
OidPbeSha1Rc2 == <<6, 9, 42, 134, 72, 134, 247, 13, 1, 5, 11>>      \* 1.2.840.113549.1.5.11  pbeWithSHA1AndRC2-CBC
OidDesEde3Cbc == <<6, 8, 42, 134, 72, 134, 247, 13, 3, 7>>          \* 1.2.840.113549.3.7
OidAes128Cbc == <<6, 9, 96, 134, 72, 1, 101, 3, 4, 1, 2>>           \* 2.16.840.1.101.3.4.1.2
OidAes192Cbc == <<6, 9, 96, 134, 72, 1, 101, 3, 4, 1, 22>>
OidAes256Cbc == <<6, 9, 96, 134, 72, 1, 101, 3, 4, 1, 42>>
OidAes128Gcm == <<6, 9, 96, 134, 72, 1, 101, 3, 4, 1, 6>>
OidAes192Gcm == <<6, 9, 96, 134, 72, 1, 101, 3, 4, 1, 26>>
OidAes256Gcm == <<6, 9, 96, 134, 72, 1, 101, 3, 4, 1, 46>>
\* curve name (ECGroup's) -> the OID that names it: the curve in id-ecPublicKey parameters, the algorithm itself for RFC 8410 keys
CurveOid(name) == CASE name = "P-192" -> OidP192 [] name = "P-224" -> OidP224 [] name = "P-256" -> OidP256 [] name = "P-384" -> OidP384
                    [] name = "P-521" -> OidP521 [] name = "Ed25519" -> OidEd25519 [] name = "Ed448" -> OidEd448
                    [] name = "Curve25519" -> OidX25519 [] name = "Curve448" -> OidX448
\* HMAC OID -> hash name of HashAlgs;  "" for an OID that is none of RFC 8018 B.1.2 / the NIST HMAC-SHA3 identifiers
PrfName(oid) == CASE oid = OidHmacSha1 -> "SHA1" [] oid = OidHmacSha224 -> "SHA224" [] oid = OidHmacSha256 -> "SHA256" [] oid = OidHmacSha384 -> "SHA384"
                  [] oid = OidHmacSha512 -> "SHA512" [] oid = OidHmacSha512t224 -> "SHA512_224" [] oid = OidHmacSha512t256 -> "SHA512_256"
                  [] oid = OidHmacSha3t224 -> "SHA3_224" [] oid = OidHmacSha3t256 -> "SHA3_256" [] oid = OidHmacSha3t384 -> "SHA3_384"
                  [] oid = OidHmacSha3t512 -> "SHA3_512" [] OTHER -> ""
\* cipher OID -> [name, alg (BlockCipher's), mode, klen, ivlen]
CipherOf(oid) == CASE oid = OidDesEde3Cbc -> [name |-> "DES-EDE3-CBC", alg |-> "des3", mode |-> "cbc", klen |-> 24, ivlen |-> 8, bs |-> 8]
                   [] oid = OidAes128Cbc -> [name |-> "AES128-CBC", alg |-> "aes", mode |-> "cbc", klen |-> 16, ivlen |-> 16, bs |-> 16]
                   [] oid = OidAes192Cbc -> [name |-> "AES192-CBC", alg |-> "aes", mode |-> "cbc", klen |-> 24, ivlen |-> 16, bs |-> 16]
                   [] oid = OidAes256Cbc -> [name |-> "AES256-CBC", alg |-> "aes", mode |-> "cbc", klen |-> 32, ivlen |-> 16, bs |-> 16]
                   [] oid = OidAes128Gcm -> [name |-> "AES128-GCM", alg |-> "aes", mode |-> "gcm", klen |-> 16, ivlen |-> 12, bs |-> 16]
                   [] oid = OidAes192Gcm -> [name |-> "AES192-GCM", alg |-> "aes", mode |-> "gcm", klen |-> 24, ivlen |-> 12, bs |-> 16]
                   [] oid = OidAes256Gcm -> [name |-> "AES256-GCM", alg |-> "aes", mode |-> "gcm", klen |-> 32, ivlen |-> 12, bs |-> 16]
                   [] OTHER -> [name |-> "", alg |-> "", mode |-> "", klen |-> 0, ivlen |-> 0, bs |-> 0]

(* ------------------------------------------------------------------ canonical DER *)
\* the first violation of the distinguished encoding rules in a concatenation of elements, walking into constructed elements and
\* not into OCTET/BIT STRINGs (their content is judged by whoever knows what they wrap); "" when there is none
IntegerDefect(c) == LET i == IntContent(c, TRUE) IN
   IF ~IsOk(i) THEN i[2] ELSE IF i[3] THEN "INTEGER with a redundant leading 0xff octet" ELSE ""
OidDefect(c) == LET o == OidContent(c) IN
   IF ~IsOk(o) THEN o[2] ELSE IF o[3] THEN "OBJECT IDENTIFIER with a padded or unfinished subidentifier" ELSE ""
RECURSIVE DerDefectSeq(_)
DerDefectSeq(s) ==
   IF Len(s) = 0 THEN "" ELSE
   LET r == ReadTlv(s) IN
   IF ~IsOk(r) THEN r[2] ELSE
   LET tag == r[2]  c == r[3]
       here == IF tag % 32 = 31 THEN "identifier octet announces a multi-octet tag"
               ELSE IF tag = 2 THEN IntegerDefect(c)
               ELSE IF tag = 5 THEN (IF Len(c) > 0 THEN "NULL with content" ELSE "")
               ELSE IF tag = 3 THEN (IF Len(c) = 0 THEN "BIT STRING without initial octet" ELSE IF c[1] # 0 THEN "BIT STRING with unused bits" ELSE "")
               ELSE IF tag = 1 THEN (IF Len(c) # 1 \/ c[1] \notin {0, 255} THEN "BOOLEAN content is not 0x00 / 0xff" ELSE "")
               ELSE IF tag = 6 THEN OidDefect(c)
               ELSE IF (tag \div 32) % 2 = 1 THEN DerDefectSeq(c)
               ELSE ""
   IN IF here # "" THEN here ELSE DerDefectSeq(r[4])
DerDefect(s) == LET r == ReadTlv(s) IN
   IF ~IsOk(r) THEN r[2] ELSE IF Len(r[4]) > 0 THEN "trailing bytes" ELSE DerDefectSeq(s)
\* strict decoding of one element with every NAMED TOLERANCE of DerDecoder switched off
SD(cls, s) == LET r == Decode(Dec(cls, TRUE), s) IN
   IF ~IsOk(r) THEN Bad(r[2]) ELSE IF r[3] THEN Bad("content outside X.690 that the library's reader tolerates") ELSE Good(r[2])
SDExp(cls, n, s) == LET r == Decode([Dec(cls, TRUE) EXCEPT !.exp = n], s) IN
   IF ~IsOk(r) THEN Bad(r[2]) ELSE IF r[3] THEN Bad("content outside X.690 that the library's reader tolerates") ELSE Good(r[2])
\* a SEQUENCE with exactly n members: <<"ok", members>>
SeqOf(s, ns, what) == LET r == SD("DerSequence", s) IN
   IF ~IsGood(r) THEN Bad(what \o ": " \o r[2])
   ELSE IF Len(r[2].m) \notin ns THEN Bad(what \o ": unexpected number of members") ELSE Good(r[2].m)
NonNegInts(m) == \A i \in 1..Len(m) : m[i].int /\ ~m[i].neg
NatOf(mem) == BnOfBytesBE(mem.b)                               \* the value of a non-negative INTEGER member as a BigNat
\* small non-negative INTEGER member as a TLC integer; -1 when it does not fit three octets
SmallNat(mem) == IF ~mem.int \/ mem.neg \/ Len(mem.b) > 3 THEN -1 ELSE Nat256(mem.b)
NullTlv == <<5, 0>>

(* ------------------------------------------------------------------ AlgorithmIdentifier ::= SEQUENCE { algorithm OID, parameters ANY OPTIONAL } *)
\* <<"ok", [oid |-> the OID's encoding, np |-> 0 | 1, par |-> the parameters member (an INTEGER member or a raw TLV)]>>
NoMember == [int |-> FALSE, neg |-> FALSE, b |-> <<>>]
AlgId(tlv, what) ==
   LET s == SeqOf(tlv, {1, 2}, what) IN
   IF ~IsGood(s) THEN s ELSE LET m == s[2] IN
   IF m[1].int \/ Len(m[1].b) = 0 \/ m[1].b[1] # 6 THEN Bad(what \o ": algorithm is not an OBJECT IDENTIFIER")
   ELSE LET o == SD("DerObjectId", m[1].b) IN
        IF ~IsGood(o) THEN Bad(what \o ": " \o o[2])
        ELSE Good([oid |-> m[1].b, np |-> Len(m) - 1, par |-> IF Len(m) = 2 THEN m[2] ELSE NoMember])
ParIsNull(a) == a.np = 1 /\ ~a.par.int /\ a.par.b = NullTlv
ParIsAbsent(a) == a.np = 0
ParIsOid(a, oid) == a.np = 1 /\ ~a.par.int /\ a.par.b = oid

(* ------------------------------------------------------------------ RSA (RFC 8017 A.1) *)
\* RSAPublicKey ::= SEQUENCE { modulus INTEGER, publicExponent INTEGER }
RsaPublicKey(der) ==
   LET s == SeqOf(der, {2}, "RSAPublicKey") IN
   IF ~IsGood(s) THEN s ELSE IF ~NonNegInts(s[2]) THEN Bad("RSAPublicKey: member is not a non-negative INTEGER")
   ELSE Good([n |-> NatOf(s[2][1]), e |-> NatOf(s[2][2])])
\* RSAPrivateKey ::= SEQUENCE { version (0: two-prime), n, e, d, p, q, d mod (p-1), d mod (q-1), (inverse of q) mod p }
RsaPrivateKey(der) ==
   LET s == SeqOf(der, {9}, "RSAPrivateKey") IN
   IF ~IsGood(s) THEN s ELSE LET m == s[2] IN
   IF ~NonNegInts(m) THEN Bad("RSAPrivateKey: member is not a non-negative INTEGER")
   ELSE IF m[1].b # <<>> THEN Bad("RSAPrivateKey: version is not 0 (two-prime)")
   ELSE Good([n |-> NatOf(m[2]), e |-> NatOf(m[3]), d |-> NatOf(m[4]), p |-> NatOf(m[5]), q |-> NatOf(m[6]),
              dp |-> NatOf(m[7]), dq |-> NatOf(m[8]), qinv |-> NatOf(m[9])])
\* the CRT members are what A.1.2 says: exponent1 = d mod (p-1), exponent2 = d mod (q-1), coefficient = q^-1 mod p;
\* w = [kp, kq, kc]: untrusted floor quotients d div (p-1), d div (q-1), (q * qinv - 1) div p.  "" or the member that is wrong
RsaCrtDefect(k, w) ==
   LET p1 == BnSub(k.p, <<1>>)  q1 == BnSub(k.q, <<1>>) IN
   IF ~BnIsDivMod(k.d, p1, w.kp, k.dp) THEN "exponent1 is not d mod (p-1)"
   ELSE IF ~BnIsDivMod(k.d, q1, w.kq, k.dq) THEN "exponent2 is not d mod (q-1)"
   ELSE IF ~(BnLt(k.qinv, k.p) /\ BnMul(k.q, k.qinv) = BnAdd(BnMul(w.kc, k.p), <<1>>)) THEN "coefficient is not the inverse of q modulo p"
   ELSE ""

(* ------------------------------------------------------------------ SubjectPublicKeyInfo ::= SEQUENCE { algorithm AlgorithmIdentifier, subjectPublicKey BIT STRING } *)
Spki(der) ==
   LET s == SeqOf(der, {2}, "SubjectPublicKeyInfo") IN
   IF ~IsGood(s) THEN s ELSE LET m == s[2] IN
   IF m[1].int \/ m[2].int THEN Bad("SubjectPublicKeyInfo: member types") ELSE
   LET a == AlgId(m[1].b, "SubjectPublicKeyInfo.algorithm")  k == SD("DerBitString", m[2].b) IN
   IF ~IsGood(a) THEN a ELSE IF ~IsGood(k) THEN Bad("subjectPublicKey: " \o k[2])
   ELSE Good([alg |-> a[2], key |-> k[2].bits])
\* Dss-Parms ::= SEQUENCE { p INTEGER, q INTEGER, g INTEGER }   (RFC 3279 2.3.2)
DssParms(mem) ==
   IF mem.int THEN Bad("Dss-Parms is not a SEQUENCE") ELSE
   LET s == SeqOf(mem.b, {3}, "Dss-Parms") IN
   IF ~IsGood(s) THEN s ELSE IF ~NonNegInts(s[2]) THEN Bad("Dss-Parms: member is not a non-negative INTEGER")
   ELSE Good([p |-> NatOf(s[2][1]), q |-> NatOf(s[2][2]), g |-> NatOf(s[2][3])])
\* one non-negative INTEGER, complete (DSA: the public key y in the BIT STRING, the private key x in the OCTET STRING)
OneNat(der, what) == LET r == SD("DerInteger", der) IN
   IF ~IsGood(r) THEN Bad(what \o ": " \o r[2]) ELSE IF r[2].neg THEN Bad(what \o ": negative") ELSE Good(BnOfBytesBE(r[2].mag))

(* ------------------------------------------------------------------ PrivateKeyInfo (RFC 5208 5 / RFC 5958 2) *)
\* SEQUENCE { version 0, privateKeyAlgorithm AlgorithmIdentifier, privateKey OCTET STRING }; no attributes, no publicKey (v1)
Pkcs8(der) ==
   LET s == SeqOf(der, {3}, "PrivateKeyInfo") IN
   IF ~IsGood(s) THEN s ELSE LET m == s[2] IN
   IF ~m[1].int \/ m[1].neg \/ m[1].b # <<>> THEN Bad("PrivateKeyInfo: version is not 0")
   ELSE IF m[2].int \/ m[3].int THEN Bad("PrivateKeyInfo: member types") ELSE
   LET a == AlgId(m[2].b, "PrivateKeyInfo.privateKeyAlgorithm")  k == SD("DerOctetString", m[3].b) IN
   IF ~IsGood(a) THEN a ELSE IF ~IsGood(k) THEN Bad("privateKey: " \o k[2])
   ELSE Good([alg |-> a[2], key |-> k[2].payload])
\* CurvePrivateKey ::= OCTET STRING (RFC 8410 7)
CurvePrivateKey(der) == LET r == SD("DerOctetString", der) IN IF ~IsGood(r) THEN Bad("CurvePrivateKey: " \o r[2]) ELSE Good(r[2].payload)

(* ------------------------------------------------------------------ ECPrivateKey (RFC 5915 3) *)
\* SEQUENCE { version 1, privateKey OCTET STRING, parameters [0] EXPLICIT namedCurve OPTIONAL, publicKey [1] EXPLICIT BIT STRING OPTIONAL }
EcPrivateKey(der) ==
   LET s == SeqOf(der, {2, 3, 4}, "ECPrivateKey") IN
   IF ~IsGood(s) THEN s ELSE LET m == s[2] IN
   IF ~m[1].int \/ m[1].neg \/ m[1].b # <<1>> THEN Bad("ECPrivateKey: version is not 1")
   ELSE IF m[2].int THEN Bad("ECPrivateKey: privateKey is not an OCTET STRING") ELSE
   LET k == SD("DerOctetString", m[2].b)
       rest == SubSeq(m, 3, Len(m))
       TagOf(i) == IF rest[i].int THEN 2 ELSE rest[i].b[1]
       hasPar == Len(rest) >= 1 /\ TagOf(1) = 160
       hasPub == Len(rest) >= 1 /\ TagOf(Len(rest)) = 161
   IN IF ~IsGood(k) THEN Bad("ECPrivateKey.privateKey: " \o k[2])
      ELSE IF Len(rest) # (IF hasPar THEN 1 ELSE 0) + (IF hasPub THEN 1 ELSE 0) THEN Bad("ECPrivateKey: optional members are not [0] then [1]")
      ELSE LET par == IF hasPar THEN SDExp("DerObjectId", 0, rest[1].b) ELSE Good(0)
               pub == IF hasPub THEN SDExp("DerBitString", 1, rest[Len(rest)].b) ELSE Good(0)
           IN IF ~IsGood(par) THEN Bad("ECPrivateKey.parameters: " \o par[2])
              ELSE IF ~IsGood(pub) THEN Bad("ECPrivateKey.publicKey: " \o pub[2])
              ELSE Good([d |-> k[2].payload, hasPar |-> hasPar,
                         \* the named curve as the OID's own encoding: the content of the [0] element
                         curve |-> IF hasPar THEN ReadTlv(rest[1].b)[3] ELSE <<>>,
                         hasPub |-> hasPub, pub |-> IF hasPub THEN pub[2].bits ELSE <<>>])

(* ------------------------------------------------------------------ OpenSSL's DSAPrivateKey: SEQUENCE { 0, p, q, g, pub_key, priv_key } *)
DsaOpenSsl(der) ==
   LET s == SeqOf(der, {6}, "DSAPrivateKey") IN
   IF ~IsGood(s) THEN s ELSE LET m == s[2] IN
   IF ~NonNegInts(m) THEN Bad("DSAPrivateKey: member is not a non-negative INTEGER")
   ELSE IF m[1].b # <<>> THEN Bad("DSAPrivateKey: version is not 0")
   ELSE Good([p |-> NatOf(m[2]), q |-> NatOf(m[3]), g |-> NatOf(m[4]), y |-> NatOf(m[5]), x |-> NatOf(m[6])])

(* ------------------------------------------------------------------ SEC 1 2.3.3 points, RFC 8032 / RFC 7748 octets *)
\* <<"ok", [form |-> 4, x, y]>> / <<"ok", [form |-> 2 | 3, x, y |-> <<>>]>>; flen = octets per field element
Sec1Point(s, flen) ==
   IF Len(s) = 0 THEN Bad("empty point")
   ELSE IF s[1] = 4 THEN (IF Len(s) # 1 + 2 * flen THEN Bad("uncompressed point of the wrong length")
                          ELSE Good([form |-> 4, x |-> BnOfBytesBE(SubSeq(s, 2, 1 + flen)), y |-> BnOfBytesBE(SubSeq(s, 2 + flen, 1 + 2 * flen))]))
   ELSE IF s[1] \in {2, 3} THEN (IF Len(s) # 1 + flen THEN Bad("compressed point of the wrong length")
                                  ELSE Good([form |-> s[1], x |-> BnOfBytesBE(SubSeq(s, 2, 1 + flen)), y |-> <<>>]))
   ELSE Bad("point does not start with 02, 03 or 04")
\* the point the octets denote is P = (x, y), a point of the curve: for the compressed forms y is the root with the announced parity
\* (the two roots y, p - y have different parities since p is odd and y # 0), so "P is on the curve and has that parity" decides it;
\* w = untrusted floor quotients of the curve equation (EcWsOnCurve)
HarnessWs == "harness: the key's point is not certified to be on its curve"
HarnessEd == "harness: the key's point is not on its curve"
Sec1Denotes(C, pt, P, w) ==
   IF pt.x # P.x THEN "x" ELSE IF pt.form = 4 THEN (IF pt.y # P.y THEN "y" ELSE "")
   ELSE IF EcOnCurve(C, P, w) # "ok" \/ P.y = <<>> THEN HarnessWs
   ELSE IF (pt.form = 3) # BnIsOdd(P.y) THEN "parity of y" ELSE ""
\* RFC 8032 5.1.2 / 5.2.2: y little-endian on 32 / 57 octets, the least significant bit of x in the most significant bit of the last octet
EdPoint(s, C) ==
   LET n == C.bytes + (IF C.name = "Ed448" THEN 1 ELSE 0) IN
   IF Len(s) # n THEN Bad("EdDSA public key of the wrong length") ELSE
   LET last == s[n]
       ybytes == SubSeq(s, 1, n - 1) \o <<last % 128>>
   IN Good([y |-> BnOfBytesLE(ybytes), sign |-> last \div 128])
EdDenotes(C, pt, P) ==
   IF pt.y # P.y THEN "y" ELSE IF ~EcIsElem(P.y, C.p) THEN "y is not reduced"
   ELSE IF (pt.sign = 1) # BnIsOdd(P.x) THEN "sign bit of x"
   ELSE IF ~(EcInRange(C, P) /\ EcEdOnCurve(C, P)) THEN HarnessEd ELSE ""
\* RFC 7748 5: u little-endian on 32 / 56 octets
MontPoint(s, C) == IF Len(s) # C.bytes THEN Bad("Montgomery public key of the wrong length") ELSE Good([x |-> BnOfBytesLE(s)])

(* ------------------------------------------------------------------ EncryptedPrivateKeyInfo with PBES2 (RFC 5958 3, RFC 8018 A.4, A.2, B.2; RFC 7914 7) *)
\* NAMED TOLERANCES of this reader (places where the library's output is not what the registration of the OID says):
\*   PrfParametersAbsent: RFC 8018 A.2 / B.1.2 register the HMAC PRFs with parameters NULL ("{NULL IDENTIFIED BY id-hmacWithSHA256}");
\*     RFC 4231 3.1 (also RFC 8018's module) says the field SHOULD be NULL and implementations SHOULD accept it absent.  The library
\*     omits it.  Tolerated: reported through the field prfpar, not refused.
\*   GcmBareNonce: RFC 5084 3.2 defines the parameters of id-aes*-GCM as GCMParameters ::= SEQUENCE { aes-nonce OCTET STRING,
\*     aes-ICVlen INTEGER DEFAULT 12 }.  PBES2 with an AEAD cipher is not in RFC 8018 at all; the library writes the bare nonce as
\*     an OCTET STRING and appends a 16-octet tag to the ciphertext.  Reported through the field gcmpar ("octets" | "rfc5084");
\*     the trace specification decides with GcmBareNonceTolerated what to make of it.
Pbkdf2Params(mem) ==
   IF mem.int THEN Bad("PBKDF2-params is not a SEQUENCE") ELSE
   LET s == SeqOf(mem.b, {2, 3, 4}, "PBKDF2-params") IN
   IF ~IsGood(s) THEN s ELSE LET m == s[2] IN
   IF m[1].int \/ m[1].b[1] # 4 THEN Bad("PBKDF2-params: salt is not an OCTET STRING (specified)")
   ELSE IF ~m[2].int \/ m[2].neg THEN Bad("PBKDF2-params: iterationCount is not a non-negative INTEGER") ELSE
   LET salt == SD("DerOctetString", m[1].b)
       hasLen == Len(m) >= 3 /\ m[3].int
       prfAt == IF hasLen THEN 4 ELSE 3
       hasPrf == Len(m) >= prfAt
       prf == IF hasPrf THEN (IF m[prfAt].int THEN Bad("PBKDF2-params: prf is not an AlgorithmIdentifier") ELSE AlgId(m[prfAt].b, "PBKDF2-params.prf"))
              ELSE Good([oid |-> OidHmacSha1, np |-> -1, par |-> NoMember])
   IN IF ~IsGood(salt) THEN Bad("PBKDF2-params.salt: " \o salt[2])
      ELSE IF Len(m) > prfAt THEN Bad("PBKDF2-params: members after prf")
      ELSE IF ~IsGood(prf) THEN prf
      ELSE IF PrfName(prf[2].oid) = "" THEN Bad("PBKDF2-params: prf is not an HMAC of RFC 8018 B.1.2")
      ELSE IF hasPrf /\ prf[2].oid = OidHmacSha1 THEN Bad("PBKDF2-params: the DEFAULT prf is encoded (X.690 11.5)")
      ELSE IF hasPrf /\ ~(ParIsNull(prf[2]) \/ ParIsAbsent(prf[2])) THEN Bad("PBKDF2-params: prf parameters are neither NULL nor absent")
      ELSE Good([kdf |-> "pbkdf2", salt |-> salt[2].payload, count |-> SmallNat(m[2]), r |-> 0, p |-> 0,
                 keylen |-> IF hasLen THEN SmallNat(m[3]) ELSE 0, prf |-> PrfName(prf[2].oid),
                 prfpar |-> IF ~hasPrf THEN "default" ELSE IF ParIsNull(prf[2]) THEN "null" ELSE "absent"])
\* scrypt-params ::= SEQUENCE { salt OCTET STRING, costParameter, blockSize, parallelizationParameter INTEGER (1..MAX), keyLength OPTIONAL }
ScryptParams(mem) ==
   IF mem.int THEN Bad("scrypt-params is not a SEQUENCE") ELSE
   LET s == SeqOf(mem.b, {4, 5}, "scrypt-params") IN
   IF ~IsGood(s) THEN s ELSE LET m == s[2] IN
   IF m[1].int \/ m[1].b[1] # 4 THEN Bad("scrypt-params: salt is not an OCTET STRING")
   ELSE IF ~NonNegInts(SubSeq(m, 2, Len(m))) THEN Bad("scrypt-params: member is not a non-negative INTEGER") ELSE
   LET salt == SD("DerOctetString", m[1].b) IN
   IF ~IsGood(salt) THEN Bad("scrypt-params.salt: " \o salt[2])
   ELSE Good([kdf |-> "scrypt", salt |-> salt[2].payload, count |-> SmallNat(m[2]), r |-> SmallNat(m[3]), p |-> SmallNat(m[4]),
              keylen |-> IF Len(m) = 5 THEN SmallNat(m[5]) ELSE 0, prf |-> "", prfpar |-> ""])
Epki(der) ==
   LET s == SeqOf(der, {2}, "EncryptedPrivateKeyInfo") IN
   IF ~IsGood(s) THEN s ELSE LET m == s[2] IN
   IF m[1].int \/ m[2].int \/ m[2].b[1] # 4 THEN Bad("EncryptedPrivateKeyInfo: member types") ELSE
   LET a == AlgId(m[1].b, "encryptionAlgorithm")  ct == SD("DerOctetString", m[2].b) IN
   IF ~IsGood(a) THEN a ELSE IF ~IsGood(ct) THEN Bad("encryptedData: " \o ct[2])
   ELSE IF a[2].oid # OidPbes2 THEN Bad("encryptionAlgorithm is not id-PBES2")
   ELSE IF a[2].np # 1 \/ a[2].par.int THEN Bad("PBES2-params missing") ELSE
   LET ps == SeqOf(a[2].par.b, {2}, "PBES2-params") IN
   IF ~IsGood(ps) THEN ps ELSE IF ps[2][1].int \/ ps[2][2].int THEN Bad("PBES2-params: member types") ELSE
   LET kdf == AlgId(ps[2][1].b, "keyDerivationFunc")  enc == AlgId(ps[2][2].b, "encryptionScheme") IN
   IF ~IsGood(kdf) THEN kdf ELSE IF ~IsGood(enc) THEN enc
   ELSE IF kdf[2].np # 1 THEN Bad("keyDerivationFunc without parameters") ELSE
   LET kp == IF kdf[2].oid = OidPbkdf2 THEN Pbkdf2Params(kdf[2].par)
             ELSE IF kdf[2].oid = OidScrypt THEN ScryptParams(kdf[2].par) ELSE Bad("keyDerivationFunc is neither PBKDF2 nor scrypt")
       ci == CipherOf(enc[2].oid)
   IN IF ~IsGood(kp) THEN kp
      ELSE IF ci.name = "" THEN Bad("encryptionScheme is none of DES-EDE3-CBC, AES-CBC, AES-GCM")
      ELSE IF enc[2].np # 1 \/ enc[2].par.int THEN Bad("encryptionScheme without parameters") ELSE
      LET pt == enc[2].par.b[1]                      \* identifier octet of the parameters
          asOct == SD("DerOctetString", enc[2].par.b)
          asGcm == IF pt = 48 THEN SeqOf(enc[2].par.b, {1, 2}, "GCMParameters") ELSE Bad("")
          gcmNonce == IF IsGood(asGcm) /\ ~asGcm[2][1].int THEN SD("DerOctetString", asGcm[2][1].b) ELSE Bad("GCMParameters: aes-nonce")
          gcmIcv == IF IsGood(asGcm) /\ Len(asGcm[2]) = 2 THEN SmallNat(asGcm[2][2]) ELSE 12
      IN IF ci.mode = "cbc" /\ ~IsGood(asOct) THEN Bad("encryptionScheme parameters are not the IV as an OCTET STRING (RFC 8018 B.2)")
         ELSE IF ci.mode = "gcm" /\ pt = 48 /\ ~IsGood(gcmNonce) THEN gcmNonce
         ELSE IF ci.mode = "gcm" /\ pt # 48 /\ ~IsGood(asOct) THEN Bad("AES-GCM parameters are neither GCMParameters nor an OCTET STRING")
         ELSE Good([k |-> kp[2], cipher |-> ci, ct |-> ct[2].payload,
                    iv |-> IF ci.mode = "gcm" /\ pt = 48 THEN gcmNonce[2].payload ELSE asOct[2].payload,
                    gcmpar |-> IF ci.mode # "gcm" THEN "" ELSE IF pt = 48 THEN "rfc5084" ELSE "octets",
                    icvlen |-> IF ci.mode = "gcm" /\ pt = 48 THEN gcmIcv ELSE 16])
\* structural requirements on a parsed container that do not need the passphrase; "" or what is wrong
EpkiDefect(e) ==
   IF e.k.count < 1 THEN "iteration count / cost parameter is not a positive integer below 2^24"
   ELSE IF e.k.keylen # 0 /\ e.k.keylen # e.cipher.klen THEN "keyLength contradicts the cipher"
   ELSE IF Len(e.iv) # e.cipher.ivlen THEN "IV / nonce length"
   ELSE IF e.k.kdf = "scrypt" /\ (e.k.r < 1 \/ e.k.p < 1) THEN "scrypt blockSize / parallelizationParameter"
   ELSE IF e.cipher.mode = "cbc" /\ (Len(e.ct) = 0 \/ Len(e.ct) % e.cipher.bs # 0) THEN "ciphertext is not a positive number of blocks"
   ELSE IF e.cipher.mode = "gcm" /\ Len(e.ct) < 16 THEN "ciphertext shorter than the tag"
   ELSE ""
\* cost of opening for TLC, in HMAC / Salsa core evaluations (the trace specification opens only what it can afford)
EpkiCost(e) == IF e.k.kdf = "pbkdf2" THEN e.k.count * ((e.cipher.klen + KD!DigestSize(e.k.prf) - 1) \div KD!DigestSize(e.k.prf))
               ELSE 4 * e.k.count * e.k.r * e.k.p + 8 * e.k.r * e.k.p
DeriveKey(e, pw) == IF e.k.kdf = "pbkdf2" THEN KD!Pbkdf2([kind |-> "hmac", name |-> e.k.prf, d |-> 0], pw, e.k.salt, e.k.count, e.cipher.klen)
                    ELSE KD!Scrypt(pw, e.k.salt, e.k.count, e.k.r, e.k.p, e.cipher.klen)
\* RFC 8018 6.2.2: derive, decrypt, remove the RFC 5652 padding  /  SP 800-38D: the last 16 octets are the tag
CbcOpenP(alg, par, key, iv, ct, bs) ==
   LET pt == CM!CbcDec(CM!Ctx(alg, key, par), iv, ct)  u == PD!UnpadFast(pt, bs, "pkcs7") IN
   IF u[1] = "ok" THEN Good(u[2]) ELSE Bad("padding")
CbcOpen(alg, key, iv, ct, bs) == CbcOpenP(alg, 0, key, iv, ct, bs)
EpkiOpen(e, pw) ==
   LET key == DeriveKey(e, pw) IN
   IF e.cipher.mode = "cbc" THEN CbcOpen(e.cipher.alg, key, e.iv, e.ct, e.cipher.bs)
   ELSE LET n == Len(e.ct)  r == GA!GcmOpen(key, e.iv, <<>>, SubSeq(e.ct, 1, n - 16), SubSeq(e.ct, n - 15, n), 16) IN
        IF r[1] = "ok" THEN Good(r[2]) ELSE Bad("tag")

(* ------------------------------------------------------------------ PBES1 (RFC 8018 6.1, A.3): EncryptedPrivateKeyInfo { { pbeWith..., PBEParameter { salt OCTET STRING (SIZE(8)), iterationCount } }, encryptedData } *)
Pbes1Of(oid) == CASE oid = OidPbeMd5Des -> [hash |-> "MD5", alg |-> "des", par |-> 0] [] oid = OidPbeMd5Rc2 -> [hash |-> "MD5", alg |-> "arc2", par |-> 64]
                  [] oid = OidPbeSha1Des -> [hash |-> "SHA1", alg |-> "des", par |-> 0] [] oid = OidPbeSha1Rc2 -> [hash |-> "SHA1", alg |-> "arc2", par |-> 64]
                  [] OTHER -> [hash |-> "", alg |-> "", par |-> 0]
IsPbes1(der) == LET s == SeqOf(der, {2}, "EncryptedPrivateKeyInfo") IN
   IsGood(s) /\ ~s[2][1].int /\ (LET a == AlgId(s[2][1].b, "encryptionAlgorithm") IN IsGood(a) /\ Pbes1Of(a[2].oid).hash # "")
EpkiPbes1(der) ==
   LET s == SeqOf(der, {2}, "EncryptedPrivateKeyInfo") IN
   IF ~IsGood(s) THEN s ELSE LET m == s[2] IN
   IF m[1].int \/ m[2].int \/ m[2].b[1] # 4 THEN Bad("EncryptedPrivateKeyInfo: member types") ELSE
   LET a == AlgId(m[1].b, "encryptionAlgorithm")  ct == SD("DerOctetString", m[2].b) IN
   IF ~IsGood(a) THEN a ELSE IF ~IsGood(ct) THEN Bad("encryptedData: " \o ct[2])
   ELSE IF Pbes1Of(a[2].oid).hash = "" THEN Bad("encryptionAlgorithm is not a PBES1 scheme")
   ELSE IF a[2].np # 1 \/ a[2].par.int THEN Bad("PBEParameter missing") ELSE
   LET ps == SeqOf(a[2].par.b, {2}, "PBEParameter") IN
   IF ~IsGood(ps) THEN ps
   ELSE IF ps[2][1].int \/ ps[2][1].b[1] # 4 \/ ~ps[2][2].int \/ ps[2][2].neg THEN Bad("PBEParameter: member types") ELSE
   LET salt == SD("DerOctetString", ps[2][1].b) IN
   IF ~IsGood(salt) THEN Bad("PBEParameter.salt: " \o salt[2])
   ELSE IF Len(salt[2].payload) # 8 THEN Bad("PBEParameter.salt is not eight octets")
   ELSE IF SmallNat(ps[2][2]) < 1 THEN Bad("PBEParameter.iterationCount")
   ELSE Good([scheme |-> Pbes1Of(a[2].oid), salt |-> salt[2].payload, count |-> SmallNat(ps[2][2]), ct |-> ct[2].payload])
\* 6.1.2: DK = PBKDF1(P, S, c, 16), K = DK<0..7>, IV = DK<8..15>; RC2 with 64 effective key bits
Pbes1Open(e, pw) ==
   IF Len(e.ct) = 0 \/ Len(e.ct) % 8 # 0 THEN Bad("ciphertext is not a positive number of blocks") ELSE
   LET dk == KD!Pbkdf1([kind |-> "real", name |-> e.scheme.hash, d |-> 0], pw, e.salt, e.count, 16) IN
   CbcOpenP(e.scheme.alg, e.scheme.par, SubSeq(dk, 1, 8), SubSeq(dk, 9, 16), e.ct, 8)

(* ------------------------------------------------------------------ PEM *)
\* the clear armour is PemCodec!PemDecodeCanonical.  The encrypted one (RFC 1421 4.6.1.1, 4.6.1.3; cipher name and key derivation
\* are OpenSSL's): BEGIN line, "Proc-Type: 4,ENCRYPTED", "DEK-Info: DES-EDE3-CBC," 16 upper-case hex digits, empty line, base64 in
\* lines of 64, END line.  <<"ok", ciphertext, label, iv>> exactly when the text is PemEncodeEncrypted(ciphertext, label, iv).
HexVal(c) == IF c >= 48 /\ c <= 57 THEN c - 48 ELSE IF c >= 65 /\ c <= 70 THEN c - 55 ELSE -1
PemDecodeEncrypted(text) ==
   LET i1 == FirstLF(text) IN
   IF i1 < 17 THEN <<"unspecified">> ELSE
   LET l1 == SubSeq(text, 1, i1 - 1)
       m == SubSeq(l1, 12, Len(l1) - 5)
       e == EndLine(m)
       hdr == ProcType \o <<LF>> \o DekInfo3Des
       h0 == i1 + 1                          \* first character of the header
       hexAt == h0 + Len(hdr)
       bodyAt == hexAt + 16 + 2
   IN IF l1 # BeginLine(m) \/ Len(text) < bodyAt + Len(e) - 1 \/ SubSeq(text, h0, hexAt - 1) # hdr THEN <<"unspecified">>
      ELSE LET hex == SubSeq(text, hexAt, hexAt + 15) IN
           IF \E j \in 1..16 : HexVal(hex[j]) < 0 THEN <<"unspecified">> ELSE
           LET iv == [j \in 1..8 |-> 16 * HexVal(hex[2 * j - 1]) + HexVal(hex[2 * j])]
               body == SelectSeq(SubSeq(text, bodyAt, Len(text) - Len(e)), NotLF)
               ct == B64DecodeRaw(body)
           IN IF PemEncodeEncrypted(ct, m, iv) = text THEN <<"ok", ct, m, iv>> ELSE <<"unspecified">>
\* OpenSSL's EVP_BytesToKey with MD5 and one iteration, 24 octets: D1 = MD5(pw | salt), D2 = MD5(D1 | pw | salt); the salt is the IV
LegacyPemKey(pw, iv) == LET d1 == KD!H!Digest("MD5", pw \o iv)  d2 == KD!H!Digest("MD5", d1 \o pw \o iv) IN d1 \o SubSeq(d2, 1, 8)
LegacyPemOpen(ct, iv, pw) ==
   IF Len(ct) = 0 \/ Len(ct) % 8 # 0 THEN Bad("ciphertext is not a positive number of blocks")
   ELSE CbcOpen("des3", LegacyPemKey(pw, iv), iv, ct, 8)
\* PEM labels as character codes
Label(name) == CASE name = "PUBLIC KEY" -> <<80, 85, 66, 76, 73, 67, 32, 75, 69, 89>>
                 [] name = "PRIVATE KEY" -> <<80, 82, 73, 86, 65, 84, 69, 32, 75, 69, 89>>
                 [] name = "ENCRYPTED PRIVATE KEY" -> <<69, 78, 67, 82, 89, 80, 84, 69, 68, 32, 80, 82, 73, 86, 65, 84, 69, 32, 75, 69, 89>>
                 [] name = "RSA PRIVATE KEY" -> <<82, 83, 65, 32, 80, 82, 73, 86, 65, 84, 69, 32, 75, 69, 89>>
                 [] name = "DSA PRIVATE KEY" -> <<68, 83, 65, 32, 80, 82, 73, 86, 65, 84, 69, 32, 75, 69, 89>>
                 [] name = "EC PRIVATE KEY" -> <<69, 67, 32, 80, 82, 73, 86, 65, 84, 69, 32, 75, 69, 89>>
LabelNames == {"PUBLIC KEY", "PRIVATE KEY", "ENCRYPTED PRIVATE KEY", "RSA PRIVATE KEY", "DSA PRIVATE KEY", "EC PRIVATE KEY"}
LabelName(cs) == IF \E n \in LabelNames : Label(n) = cs THEN CHOOSE n \in LabelNames : Label(n) = cs ELSE "?"
\* RFC 7468 10, 11, 13 and OpenSSL's pem.h: which structure a label announces
InnerOfLabel(name) == CASE name = "PUBLIC KEY" -> "spki" [] name = "PRIVATE KEY" -> "pkcs8" [] name = "ENCRYPTED PRIVATE KEY" -> "epki"
                        [] name = "RSA PRIVATE KEY" -> "pkcs1" [] name = "DSA PRIVATE KEY" -> "dsaossl" [] name = "EC PRIVATE KEY" -> "ec5915"
                        [] OTHER -> "?"

(* ------------------------------------------------------------------ OpenSSH public-key lines *)
\* RFC 4251 5: string = uint32 length + octets.  All strings of a blob, or <<-1>> when the framing is wrong (lengths below 2^24 here)
RECURSIVE SshStrings(_,_)
SshStrings(b, acc) ==
   IF Len(b) = 0 THEN acc
   ELSE IF Len(b) < 4 \/ b[1] # 0 THEN <<-1>>
   ELSE LET n == Nat256(SubSeq(b, 2, 4)) IN
        IF Len(b) < 4 + n THEN <<-1>> ELSE SshStrings(SubSeq(b, 5 + n, Len(b)), Append(acc, SubSeq(b, 5, 4 + n)))
\* RFC 4251 5 mpint, non-negative: two's complement, big-endian, no unnecessary leading octet; zero is the empty string
MpintNat(f) == IF Len(f) = 0 THEN Good(<<>>)
               ELSE IF f[1] >= 128 THEN Bad("mpint is negative (missing leading zero octet)")
               ELSE IF f[1] = 0 /\ (Len(f) = 1 \/ f[2] < 128) THEN Bad("mpint with an unnecessary leading zero octet")
               ELSE Good(BnOfBytesBE(f))
\* "type SP base64 [LF]":  <<"ok", [name |-> characters of the type, f |-> the strings of the blob, lf |-> ends with one LF]>>
SshLine(text) ==
   IF ~(\E i \in 1..Len(text) : text[i] = 32) THEN Bad("no space in the line") ELSE
   LET sp == CHOOSE i \in 1..Len(text) : text[i] = 32 /\ \A j \in 1..(i - 1) : text[j] # 32
       lf == text[Len(text)] = LF
       b64 == SubSeq(text, sp + 1, Len(text) - (IF lf THEN 1 ELSE 0))
       blob == B64DecodeCanonical(b64)
   IN IF blob[1] # "ok" THEN Bad("base64 part is not canonical RFC 4648 base64 on one line")
      ELSE LET f == SshStrings(blob[2], <<>>) IN
           IF f = <<-1>> THEN Bad("blob is not a sequence of RFC 4251 strings")
           ELSE IF Len(f) = 0 \/ f[1] # SubSeq(text, 1, sp - 1) THEN Bad("key type before the blob differs from the key type inside it")
           ELSE Good([name |-> f[1], f |-> f, lf |-> lf])
SshName(n) == CASE n = "ssh-rsa" -> <<115, 115, 104, 45, 114, 115, 97>>
                [] n = "ssh-dss" -> <<115, 115, 104, 45, 100, 115, 115>>
                [] n = "ssh-ed25519" -> <<115, 115, 104, 45, 101, 100, 50, 53, 53, 49, 57>>
                [] n = "ecdsa-sha2-nistp256" -> <<101, 99, 100, 115, 97, 45, 115, 104, 97, 50, 45, 110, 105, 115, 116, 112, 50, 53, 54>>
                [] n = "ecdsa-sha2-nistp384" -> <<101, 99, 100, 115, 97, 45, 115, 104, 97, 50, 45, 110, 105, 115, 116, 112, 51, 56, 52>>
                [] n = "ecdsa-sha2-nistp521" -> <<101, 99, 100, 115, 97, 45, 115, 104, 97, 50, 45, 110, 105, 115, 116, 112, 53, 50, 49>>
\* RFC 5656 3.1, 6.1: the key type is "ecdsa-sha2-" followed by the elliptic curve domain parameter identifier: nistp256, nistp384,
\* nistp521 for the REQUIRED curves; "for all other elliptic curves, including all other NIST curves ..., the identifier is the
\* ASCII period-separated decimal representation of the ASN.1 OID of the named curve" (P-192: 1.2.840.10045.3.1.1, P-224: 1.3.132.0.33)
EcdsaIdentifier(curve) == CASE curve = "P-256" -> <<110, 105, 115, 116, 112, 50, 53, 54>> [] curve = "P-384" -> <<110, 105, 115, 116, 112, 51, 56, 52>> [] curve = "P-521" -> <<110, 105, 115, 116, 112, 53, 50, 49>>
                            [] curve = "P-192" -> <<49, 46, 50, 46, 56, 52, 48, 46, 49, 48, 48, 52, 53, 46, 51, 46, 49, 46, 49>>
                            [] curve = "P-224" -> <<49, 46, 51, 46, 49, 51, 50, 46, 48, 46, 51, 51>>
                            [] OTHER -> <<>>
EcdsaPrefix == <<101, 99, 100, 115, 97, 45, 115, 104, 97, 50, 45>>                  \* "ecdsa-sha2-"
EcdsaSshName(curve) == IF EcdsaIdentifier(curve) = <<>> THEN <<>> ELSE EcdsaPrefix \o EcdsaIdentifier(curve)
=============================================================================
