------------------------------- MODULE DES -------------------------------
(* FIPS 46-3 transcribed: DES (IP, E, S1..S8, P, PC-1, PC-2, shift schedule) and TDEA in EDE order with keying options
   1 (24-byte key K1|K2|K3) and 2 (16-byte key K1|K2, K3 = K1).  The 8th bit of every key byte is a parity bit that
   PC-1 drops, so parity is ignored by construction.
   Representation: a 32-bit half is <<hi16, lo16>>; the round function uses the combined tables SP[j][x] = P(S_j(x) in
   nibble j), which are *derived here by TLC* from the standard's S and P tables (constant-level, evaluated once). *)
EXTENDS Integers, Sequences, Bitwise, TLC
IPTab == <<58,50,42,34,26,18,10,2, 60,52,44,36,28,20,12,4, 62,54,46,38,30,22,14,6, 64,56,48,40,32,24,16,8,
           57,49,41,33,25,17,9,1, 59,51,43,35,27,19,11,3, 61,53,45,37,29,21,13,5, 63,55,47,39,31,23,15,7>>
FPTab == <<40,8,48,16,56,24,64,32, 39,7,47,15,55,23,63,31, 38,6,46,14,54,22,62,30, 37,5,45,13,53,21,61,29,
           36,4,44,12,52,20,60,28, 35,3,43,11,51,19,59,27, 34,2,42,10,50,18,58,26, 33,1,41,9,49,17,57,25>>
ETab == <<32,1,2,3,4,5, 4,5,6,7,8,9, 8,9,10,11,12,13, 12,13,14,15,16,17, 16,17,18,19,20,21, 20,21,22,23,24,25,
          24,25,26,27,28,29, 28,29,30,31,32,1>>
PTab == <<16,7,20,21, 29,12,28,17, 1,15,23,26, 5,18,31,10, 2,8,24,14, 32,27,3,9, 19,13,30,6, 22,11,4,25>>
STab == <<
  <<14,4,13,1,2,15,11,8,3,10,6,12,5,9,0,7, 0,15,7,4,14,2,13,1,10,6,12,11,9,5,3,8, 4,1,14,8,13,6,2,11,15,12,9,7,3,10,5,0, 15,12,8,2,4,9,1,7,5,11,3,14,10,0,6,13>>,
  <<15,1,8,14,6,11,3,4,9,7,2,13,12,0,5,10, 3,13,4,7,15,2,8,14,12,0,1,10,6,9,11,5, 0,14,7,11,10,4,13,1,5,8,12,6,9,3,2,15, 13,8,10,1,3,15,4,2,11,6,7,12,0,5,14,9>>,
  <<10,0,9,14,6,3,15,5,1,13,12,7,11,4,2,8, 13,7,0,9,3,4,6,10,2,8,5,14,12,11,15,1, 13,6,4,9,8,15,3,0,11,1,2,12,5,10,14,7, 1,10,13,0,6,9,8,7,4,15,14,3,11,5,2,12>>,
  <<7,13,14,3,0,6,9,10,1,2,8,5,11,12,4,15, 13,8,11,5,6,15,0,3,4,7,2,12,1,10,14,9, 10,6,9,0,12,11,7,13,15,1,3,14,5,2,8,4, 3,15,0,6,10,1,13,8,9,4,5,11,12,7,2,14>>,
  <<2,12,4,1,7,10,11,6,8,5,3,15,13,0,14,9, 14,11,2,12,4,7,13,1,5,0,15,10,3,9,8,6, 4,2,1,11,10,13,7,8,15,9,12,5,6,3,0,14, 11,8,12,7,1,14,2,13,6,15,0,9,10,4,5,3>>,
  <<12,1,10,15,9,2,6,8,0,13,3,4,14,7,5,11, 10,15,4,2,7,12,9,5,6,1,13,14,0,11,3,8, 9,14,15,5,2,8,12,3,7,0,4,10,1,13,11,6, 4,3,2,12,9,5,15,10,11,14,1,7,6,0,8,13>>,
  <<4,11,2,14,15,0,8,13,3,12,9,7,5,10,6,1, 13,0,11,7,4,9,1,10,14,3,5,12,2,15,8,6, 1,4,11,13,12,3,7,14,10,15,6,8,0,5,9,2, 6,11,13,8,1,4,10,7,9,5,0,15,14,2,3,12>>,
  <<13,2,8,4,6,15,11,1,10,9,3,14,5,0,12,7, 1,15,13,8,10,3,7,4,12,5,6,11,0,14,9,2, 7,11,4,1,9,12,14,2,0,6,10,13,15,3,5,8, 2,1,14,7,4,10,8,13,15,12,9,0,3,5,6,11>> >>
PC1Tab == <<57,49,41,33,25,17,9, 1,58,50,42,34,26,18, 10,2,59,51,43,35,27, 19,11,3,60,52,44,36,
            63,55,47,39,31,23,15, 7,62,54,46,38,30,22, 14,6,61,53,45,37,29, 21,13,5,28,20,12,4>>
PC2Tab == <<14,17,11,24,1,5, 3,28,15,6,21,10, 23,19,12,4,26,8, 16,7,27,20,13,2,
            41,52,31,37,47,55, 30,40,51,45,33,48, 44,49,39,56,34,53, 46,42,50,36,29,32>>
ShiftTab == <<1,1,2,2,2,2,2,2,1,2,2,2,2,2,2,1>>
P2 == <<1,2,4,8,16,32,64,128,256,512,1024,2048,4096,8192,16384,32768,65536>>
\* ---- S-box lookup as the standard words it: bits b1 b6 select the row, b2..b5 the column
SVal(j, x) == STab[j][16 * (((x \div 32) * 2) + (x % 2)) + ((x \div 2) % 16) + 1]
\* ---- SP[j][x + 1]: the 32-bit word (as <<hi, lo>>) obtained by putting the 4-bit value v in nibble j and applying P
NibBit(v, k) == (v \div P2[4 - k]) % 2                    \* bit k (0 = most significant) of a nibble
RECURSIVE PSum(_,_,_,_)
\* output bits i..hiI of P(...) restricted to the nibble j holding v, weighted inside their 16-bit limb
PSum(j, v, i, hiI) == IF i > hiI THEN 0 ELSE
   (IF ((PTab[i] - 1) \div 4) + 1 = j THEN NibBit(v, (PTab[i] - 1) % 4) * P2[17 - (((i - 1) % 16) + 1)] ELSE 0) + PSum(j, v, i + 1, hiI)
SPTab == TLCEval([j \in 1..8 |-> TLCEval([x \in 1..64 |-> <<PSum(j, SVal(j, x - 1), 1, 16), PSum(j, SVal(j, x - 1), 17, 32)>>])])
X2(a, b) == <<a[1] ^^ b[1], a[2] ^^ b[2]>>
\* ---- the cipher function f(R, K); K is an 8-tuple of 6-bit values (the 48 bits of PC-2, six at a time); the eight
\*      6-bit groups of E(R) are read off the two limbs of R (E repeats the edge bits of neighbouring nibbles)
EGroups(r) == LET hi == r[1]  lo == r[2] IN
   << (lo % 2) * 32 + (hi \div 2048), (hi \div 128) % 64, (hi \div 8) % 64, (hi % 32) * 2 + (lo \div 32768),
      (hi % 2) * 32 + (lo \div 2048), (lo \div 128) % 64, (lo \div 8) % 64, (lo % 32) * 2 + (hi \div 32768) >>
F(r, k) == LET g == EGroups(r) IN
   X2(X2(X2(SPTab[1][(g[1] ^^ k[1]) + 1], SPTab[2][(g[2] ^^ k[2]) + 1]), X2(SPTab[3][(g[3] ^^ k[3]) + 1], SPTab[4][(g[4] ^^ k[4]) + 1])),
      X2(X2(SPTab[5][(g[5] ^^ k[5]) + 1], SPTab[6][(g[6] ^^ k[6]) + 1]), X2(SPTab[7][(g[7] ^^ k[7]) + 1], SPTab[8][(g[8] ^^ k[8]) + 1])))
\* ---- bit access into a byte string (bit 1 = most significant bit of byte 1) and packing of selected bits
BitOf(b, i) == (b[((i - 1) \div 8) + 1] \div P2[8 - ((i - 1) % 8)]) % 2
RECURSIVE PackSel(_,_,_,_,_)
PackSel(b, tab, i, n, acc) == IF n = 0 THEN acc ELSE PackSel(b, tab, i + 1, n - 1, acc * 2 + BitOf(b, tab[i]))
\* ---- key schedule: C0 D0 = PC-1(key) as 28-tuples of bits, left rotations, K_n = PC-2(C_n D_n) as eight 6-bit values
Rotl28(c, n) == [i \in 1..28 |-> c[((i - 1 + n) % 28) + 1]]
RECURSIVE PackCD(_,_,_,_)
PackCD(cd, i, n, acc) == IF n = 0 THEN acc ELSE PackCD(cd, i + 1, n - 1, acc * 2 + cd[PC2Tab[i]])
RECURSIVE KsLoop(_,_,_,_)
KsLoop(c, d, n, acc) == IF n > 16 THEN acc ELSE
   LET c1 == TLCEval(Rotl28(c, ShiftTab[n]))  d1 == TLCEval(Rotl28(d, ShiftTab[n]))
       cd == c1 \o d1
   IN KsLoop(c1, d1, n + 1, Append(acc, <<PackCD(cd, 1, 6, 0), PackCD(cd, 7, 6, 0), PackCD(cd, 13, 6, 0), PackCD(cd, 19, 6, 0),
                                          PackCD(cd, 25, 6, 0), PackCD(cd, 31, 6, 0), PackCD(cd, 37, 6, 0), PackCD(cd, 43, 6, 0)>>))
DesCtx(key) == KsLoop(TLCEval([i \in 1..28 |-> BitOf(key, PC1Tab[i])]), TLCEval([i \in 1..28 |-> BitOf(key, PC1Tab[28 + i])]), 1, <<>>)
\* ---- the 16 rounds between IP and IP^-1; dir = 1 uses K1..K16, dir = 0 uses K16..K1
RECURSIVE DesRounds(_,_,_,_,_)
DesRounds(l, r, ks, n, dir) == IF n > 16 THEN <<r, l>>                          \* pre-output block is R16 L16
   ELSE DesRounds(r, X2(l, F(r, ks[IF dir = 1 THEN n ELSE 17 - n])), ks, n + 1, dir)
DesCrypt(ks, b, dir) ==
   LET l0 == <<PackSel(b, IPTab, 1, 16, 0), PackSel(b, IPTab, 17, 16, 0)>>
       r0 == <<PackSel(b, IPTab, 33, 16, 0), PackSel(b, IPTab, 49, 16, 0)>>
       pre == DesRounds(l0, r0, ks, 1, dir)
       pb == <<pre[1][1] \div 256, pre[1][1] % 256, pre[1][2] \div 256, pre[1][2] % 256, pre[2][1] \div 256, pre[2][1] % 256, pre[2][2] \div 256, pre[2][2] % 256>>
   IN <<PackSel(pb, FPTab, 1, 8, 0), PackSel(pb, FPTab, 9, 8, 0), PackSel(pb, FPTab, 17, 8, 0), PackSel(pb, FPTab, 25, 8, 0),
        PackSel(pb, FPTab, 33, 8, 0), PackSel(pb, FPTab, 41, 8, 0), PackSel(pb, FPTab, 49, 8, 0), PackSel(pb, FPTab, 57, 8, 0)>>
DesE(ks, b) == DesCrypt(ks, b, 1)
DesD(ks, b) == DesCrypt(ks, b, 0)
\* ---- TDEA (FIPS 46-3 / SP 800-67): C = E_K3(D_K2(E_K1(P))), P = D_K1(E_K2(D_K3(C)))
Des3Ctx(key) == <<DesCtx(SubSeq(key, 1, 8)), DesCtx(SubSeq(key, 9, 16)), IF Len(key) = 24 THEN DesCtx(SubSeq(key, 17, 24)) ELSE DesCtx(SubSeq(key, 1, 8))>>
Des3E(k, b) == DesE(k[3], DesD(k[2], DesE(k[1], b)))
Des3D(k, b) == DesD(k[1], DesE(k[2], DesD(k[3], b)))
H8(a, b, c, d, e, f, g, h) == <<a, b, c, d, e, f, g, h>>
\* the S-box spot checks of the standard's text: S1(011011) = 0101
ASSUME SVal(1, 27) = 5
\* classic worked example (key 133457799BBCDFF1): 0123456789ABCDEF -> 85E813540F0AB405
ASSUME DesE(DesCtx(<<19,52,87,121,155,188,223,241>>), <<1,35,69,103,137,171,205,239>>) = <<133,232,19,84,15,10,180,5>>
ASSUME DesD(DesCtx(<<19,52,87,121,155,188,223,241>>), <<133,232,19,84,15,10,180,5>>) = <<1,35,69,103,137,171,205,239>>
\* parity bits are ignored: the same key with every parity bit flipped
ASSUME DesE(DesCtx(<<18,53,86,120,154,189,222,240>>), <<1,35,69,103,137,171,205,239>>) = <<133,232,19,84,15,10,180,5>>
\* SP 800-67 example keys (openssl 3.5 des-ede3-ecb / des-ede-ecb at authoring time): "The qufc" block
ASSUME Des3E(Des3Ctx(<<1,35,69,103,137,171,205,239,35,69,103,137,171,205,239,1,69,103,137,171,205,239,1,35>>), <<84,104,101,32,113,117,102,99>>) = <<168,38,253,140,229,59,133,95>>
ASSUME Des3D(Des3Ctx(<<1,35,69,103,137,171,205,239,35,69,103,137,171,205,239,1,69,103,137,171,205,239,1,35>>), <<168,38,253,140,229,59,133,95>>) = <<84,104,101,32,113,117,102,99>>
ASSUME Des3E(Des3Ctx(<<1,35,69,103,137,171,205,239,35,69,103,137,171,205,239,1>>), <<84,104,101,32,113,117,102,99>>) = <<196,72,98,247,12,242,251,220>>
ASSUME Des3D(Des3Ctx(<<1,35,69,103,137,171,205,239,35,69,103,137,171,205,239,1>>), <<196,72,98,247,12,242,251,220>>) = <<84,104,101,32,113,117,102,99>>
\* pseudo-random keys and blocks, values from the openssl 3.5 CLI (legacy provider for single DES) at authoring time
ASSUME DesE(DesCtx(<<145,206,67,136,73,208,247,27>>), <<249,210,18,153,175,231,113,51>>) = <<211,164,21,80,169,235,132,26>>
ASSUME DesE(DesCtx(<<66,194,2,144,242,226,169,233>>), <<182,238,87,200,183,117,101,5>>) = <<42,42,148,190,86,148,187,205>>
ASSUME DesE(DesCtx(<<12,7,139,171,9,63,253,225>>), <<162,95,210,211,78,63,229,149>>) = <<42,170,137,159,136,28,68,125>>
ASSUME DesE(DesCtx(<<78,155,75,143,169,4,138,193>>), <<97,58,117,101,18,237,116,251>>) = <<47,31,238,82,107,64,149,123>>
ASSUME Des3E(Des3Ctx(<<39,183,221,255,156,127,51,170,217,75,228,30,223,196,114,167,182,79,22,54,198,123,48,186>>), <<176,42,18,14,151,115,67,140>>) = <<43,175,163,118,237,46,66,105>>
ASSUME Des3E(Des3Ctx(<<173,134,60,7,172,75,252,153,14,235,154,167,31,143,225,164>>), <<176,42,18,14,151,115,67,140>>) = <<199,38,217,205,223,18,90,127>>
ASSUME Des3E(Des3Ctx(<<20,40,2,66,166,52,62,169,167,194,20,68,81,70,134,223,198,223,10,55,11,152,231,252>>), <<20,109,230,16,130,246,127,17>>) = <<235,144,139,179,185,101,189,60>>
ASSUME Des3E(Des3Ctx(<<30,93,244,165,252,155,79,195,26,221,71,81,99,250,31,161>>), <<20,109,230,16,130,246,127,17>>) = <<167,0,123,2,71,3,71,34>>
=============================================================================
