CONSTANTS Mode = "siv"
MaxDepth = 7
SegLens = {0, 1, 15, 16, 17, 33, 64}
EmitHist = TRUE
INIT Init
NEXT Next
INVARIANT Emit
CHECK_DEADLOCK FALSE
