\* C13 (ii), quick tier: every integer -9000..9000 under plain, IMPLICIT 0/30 and EXPLICIT 0/30 tags (90 005 cases)
CONSTANTS Universe = "ints"
MaxAbs = 9000
MaxPow = 1
BigLengths = FALSE
SPECIFICATION Spec
CHECK_DEADLOCK FALSE
INVARIANTS EncodingIsWellFramed RoundTrip LenientAgrees OtherTagRefuses
