CONSTANTS EmitHist = TRUE
Mutant = FALSE
INIT Init
NEXT Next
INVARIANT Agreement
INVARIANT SchemesExact
INVARIANT NoSecretFromBadInput
INVARIANT Contributions
INVARIANT Total
INVARIANT Emit
CHECK_DEADLOCK FALSE
