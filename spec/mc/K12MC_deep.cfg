CONSTANTS B = 5
Repaired = FALSE
MaxMsg = 27
CustomSuffixLens = {1, 2, 3, 4, 5, 6, 7, 9, 10, 11, 12, 16}
SegLens = {0, 1, 2, 3, 4, 5, 6, 7, 9, 10, 11, 14, 15, 16}
MaxUpdates = 100
EmitHist = FALSE
SPECIFICATION Spec
INVARIANT InvMatchesDefinition
INVARIANT InvStateAssert
PROPERTY SqueezingIsFinal
CHECK_DEADLOCK FALSE
