CONSTANTS MaxOps = 2
MLen = 3
SLen = 4
SPECIFICATION Spec
INVARIANT ReplayAccepted
INVARIANT TwinOfTwinIsGenuine
INVARIANT OnlyKnownMalleability
INVARIANT DsaHasNoTwin
INVARIANT EitherOnlyWhereNamed
INVARIANT OutOfRangeRejected
INVARIANT NoForeignByteUnlessRejected
INVARIANT ClassConsistent
INVARIANT Emit
CHECK_DEADLOCK FALSE
