------------------------------- MODULE K12Obj -------------------------------
(* Object layer: lib/Crypto/Hash/KangarooTwelve.py:K12_XOF, the chunk automaton SHORT_MSG / LONG_MSG_S0 / LONG_MSG_SX /
   SQUEEZING with the fields the code keeps (_state, _length1, _length2, _ctr, _padding) and chunk size B (8192 in the code).

   S = M || C || length_encode(|C|) is the string RFC 9861 hashes; the object receives M through update() and holds the
   last two parts as self._custom (c bytes).  Data are symbolic: what has been fed to the final node (_hash1) is a sequence
   of items
       <<"S", from, to>>   the bytes S[from..to] (1-based, inclusive; adjacent ranges are merged)
       <<"DIV", 0, 0>>     the divider 03 00^7
       <<"CV", from, to>>  the 32-byte chaining value of the leaf S[from..to] (TurboSHAKE128, domain 0B, of _hash2)
       <<"LE", n, 0>>      length_encode(n)
       <<"FFFF", 0, 0>>    the two trailer bytes
   and `fed` counts the bytes of S consumed so far (message bytes, then the custom part once read() hands it over).
   Functional style: K12New(c), K12Update(o, n), K12Read(o) map object records to object records; exc is the exception class
   of the call ("none" if it returned).  The assert statements of the code are modelled: a failing one gives
   exc = "AssertionError".

   Named deviation switch: Repaired = FALSE is read() exactly as in the pinned tree (the short path is taken whenever the
   state is still SHORT_MSG); Repaired = TRUE adds the guard `_length1 + len(_custom) <= 8192` (DESIGN.md section 7, F9). *)
EXTENDS Integers, Sequences, TLC
CONSTANTS B, Repaired
Min(a, b) == IF a < b THEN a ELSE b
\* append the n bytes of S that follow position `from` to an item sequence
AppS(h, from, n) == IF n = 0 THEN h
                    ELSE IF Len(h) > 0 /\ h[Len(h)][1] = "S" /\ h[Len(h)][3] = from THEN [h EXCEPT ![Len(h)] = <<"S", h[Len(h)][2], from + n>>]
                    ELSE Append(h, <<"S", from + 1, from + n>>)
K12New(c) == [state |-> "SHORT", length1 |-> 0, length2 |-> 0, ctr |-> 0, padding |-> 0, hash1 |-> <<>>, leafFrom |-> 0,
              fed |-> 0, c |-> c, exc |-> "none"]
\* flush the current leaf: cv_i = _hash2.read(32); _hash1.update(cv_i); _length1 += 32; _hash2._reset(); _length2 = 0; _ctr += 1
Flush(o) == [o EXCEPT !.hash1 = Append(o.hash1, <<"CV", o.leafFrom + 1, o.fed>>), !.length1 = o.length1 + 32, !.length2 = 0,
                      !.ctr = o.ctr + 1, !.leafFrom = o.fed]
\* the while loop of update() in state LONG_MSG_SX over n bytes
RECURSIVE SX(_,_)
SX(o, n) == IF n = 0 THEN o ELSE
   LET take == Min(n, B - o.length2)
       o1 == [o EXCEPT !.length2 = o.length2 + take, !.fed = o.fed + take]
   IN SX(IF o1.length2 = B THEN Flush(o1) ELSE o1, n - take)
\* update(data) with len(data) = n, for a state other than SQUEEZING
Upd(o, n) ==
   LET o1 == IF o.state = "SHORT" /\ o.length1 + n + o.c > B THEN [o EXCEPT !.state = "S0"] ELSE o IN
   IF o1.state = "SHORT" THEN [o1 EXCEPT !.length1 = o1.length1 + n, !.hash1 = AppS(o1.hash1, o1.fed, n), !.fed = o1.fed + n]
   ELSE IF o1.state = "S0" THEN
        IF ~(o1.length1 < B) THEN [o1 EXCEPT !.exc = "AssertionError"] ELSE
        LET dtc == Min(n, B - o1.length1)
            o2 == [o1 EXCEPT !.hash1 = AppS(o1.hash1, o1.fed, dtc), !.length1 = o1.length1 + dtc, !.fed = o1.fed + dtc]
        IN IF o2.length1 < B THEN o2
           ELSE SX([o2 EXCEPT !.hash1 = Append(o2.hash1, <<"DIV", 0, 0>>), !.length1 = o2.length1 + 8, !.length2 = 0, !.ctr = 1,
                              !.state = "SX", !.leafFrom = o2.fed], n - dtc)
   ELSE SX(o1, n)
K12Update(o, n) == IF o.state = "SQUEEZING" THEN [o EXCEPT !.exc = "TypeError"] ELSE Upd([o EXCEPT !.exc = "none"], n)
\* read(length): decides the final padding, then squeezes _hash1
TakesShortPath(o) == o.state = "SHORT" /\ (~Repaired \/ o.length1 + o.c <= B)
K12Read(o) ==
   IF o.state = "SQUEEZING" THEN [o EXCEPT !.exc = "none"]
   ELSE IF TakesShortPath(o) THEN [o EXCEPT !.hash1 = AppS(o.hash1, o.fed, o.c), !.fed = o.fed + o.c, !.padding = 7, !.state = "SQUEEZING", !.exc = "none"]
   ELSE LET o1 == Upd([o EXCEPT !.exc = "none"], o.c)                    \* self.update(self._custom); from SHORT_MSG only when Repaired
        IN IF o1.exc # "none" THEN o1
           ELSE IF o1.state # "SX" THEN [o1 EXCEPT !.exc = "AssertionError"]     \* assert(self._state == LONG_MSG_SX)
           ELSE LET o2 == IF o1.length2 > 0 THEN Flush(o1) ELSE o1
                IN [o2 EXCEPT !.hash1 = o2.hash1 \o << <<"LE", o2.ctr - 1, 0>>, <<"FFFF", 0, 0>> >>, !.padding = 6, !.state = "SQUEEZING"]
-----------------------------------------------------------------------------
\* RFC 9861 section 3: what the final node is, as a function of |S| = total only
RECURSIVE CVs(_,_,_)
CVs(i, n, total) == IF i > n - 1 THEN <<>> ELSE << <<"CV", B * i + 1, Min(B * (i + 1), total)>> >> \o CVs(i + 1, n, total)
FinalNode(total) == IF total <= B THEN << <<"S", 1, total>> >>
                    ELSE LET n == (total + B - 1) \div B IN << <<"S", 1, B>>, <<"DIV", 0, 0>> >> \o CVs(1, n, total) \o << <<"LE", n - 1, 0>>, <<"FFFF", 0, 0>> >>
FinalPadding(total) == IF total <= B THEN 7 ELSE 6
\* the refinement property: once squeezing, the final node and the domain byte are those of the definition (msgLen = bytes given to update)
MatchesDefinition(o, msgLen) == o.state = "SQUEEZING" => (o.hash1 = FinalNode(msgLen + o.c) /\ o.padding = FinalPadding(msgLen + o.c) /\ o.fed = msgLen + o.c)
\* invariants the code states as assert or relies on
StateAssert(o) == /\ o.exc # "AssertionError"
                  /\ (o.state = "S0" => o.length1 < B) /\ (o.state = "SX" => o.length2 < B)
                  /\ (o.state = "SHORT" => o.length1 = o.fed /\ o.ctr = 0)
\* the scalar fields the recorder can read from the real object
Proj(o) == <<o.state, o.length1, o.length2, o.ctr, o.padding>>
=============================================================================
