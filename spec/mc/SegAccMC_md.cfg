CONSTANTS Kind = "md"
BS = 4
LW = 2
MaxTotal = 13
MaxZeros = 0
EmitHist = FALSE
SPECIFICATION Spec
INVARIANT InvCacheBound
INVARIANT InvPrefix
INVARIANT InvChain
INVARIANT InvRefines
PROPERTY EmptyIsNeutral
CHECK_DEADLOCK FALSE
