"""C19 recorder for the curve registry: threads making first use of curves, (a) stepped by a controller along schedules that
TLC generated from the lock-free variant of sys/CurveRegistry (adversarial: every interleaving of the critical section is
attempted; with the real lock in place the attempts block and the controller moves on), (b) free-running behind a barrier.
Events come from the guarded hooks in Crypto.PublicKey._point (PYCRYPTODOME_VERIF=1)."""
import json
import os
import sys
import threading
import time

sys.path.insert(0, os.path.dirname(os.path.abspath(__file__)))
from _util import exc_class, rng  # noqa: E402

from Crypto.PublicKey import _point

CANON = {}
for names in ("p192_names", "p224_names", "p256_names", "p384_names", "p521_names", "ed25519_names", "ed448_names",
              "curve25519_names", "curve448_names"):
    lst = getattr(_point._Curves, names)
    for n in lst:
        CANON[n] = lst[0]
ALL = ["p192", "p224", "p256", "p384", "p521", "ed25519", "ed448", "curve25519", "curve448"]


def observed(curve):
    if curve is None:
        return "absent"
    if getattr(curve, "G", None) is None:
        return "loaded"
    if not hasattr(curve, "is_weierstrass"):
        return "has_g"
    return "ready"


class Recorder:
    def __init__(self, controlled):
        self.mu = threading.Lock()
        self.events = []
        self.controlled = controlled
        self.tls = threading.local()
        self.gates = {}          # thread id -> semaphore released by the controller
        self.arrived = {}        # thread id -> count of hook points reached

    def hook(self, event, name, curve):
        th = getattr(self.tls, "id", None)
        if th is None:
            return
        d = getattr(self.tls, "depth", 0)
        if event == "enter":
            d += 1
            self.tls.depth = d
        with self.mu:
            self.events.append(dict(th=th, ev=event, curve=CANON.get(name, name), depth=d, obs=observed(curve), exc="none"))
            self.arrived[th] = self.arrived.get(th, 0) + 1
        if event == "return":
            self.tls.depth = d - 1
        if self.controlled:
            self.gates[th].acquire()      # park until the controller lets this thread take its next step

    def use(self, th, name, exc):
        with self.mu:
            self.events.append(dict(th=th, ev="use", curve=CANON.get(name, name), depth=0, obs="ready", exc=exc))


def worker(rec, th, names, start):
    rec.tls.id = th
    rec.tls.depth = 0
    start.wait()
    for name in names:
        exc = "none"
        try:
            curve = _point._curves[name]
            # what callers do with the result
            _ = curve.G
            _ = curve.is_weierstrass or curve.is_edwards or curve.is_montgomery
            _ = curve.order
        except Exception as x:
            exc = exc_class(x)
        rec.use(th, name, exc)


def reset_registry():
    _point._Curves.curves.clear()


def controlled_run(tid, sched, curve_names, per_thread, wait=0.004):
    reset_registry()
    nth = max(sched)
    rec = Recorder(True)
    _point._verif_hook = rec.hook
    start = threading.Event()
    threads = []
    for th in range(1, nth + 1):
        rec.gates[th] = threading.Semaphore(0)
        t = threading.Thread(target=worker, args=(rec, th, per_thread[th - 1], start), daemon=True)
        threads.append(t)
        t.start()
    start.set()
    # every thread runs to its first hook point ("enter") and parks; then follow the schedule
    time.sleep(wait)
    for th in sched:
        before = rec.arrived.get(th, 0)
        if not threads[th - 1].is_alive():
            continue
        rec.gates[th].release()
        deadline = time.time() + wait
        while time.time() < deadline:
            if rec.arrived.get(th, 0) > before or not threads[th - 1].is_alive():
                break
            time.sleep(0.0005)
        # not arrived: the thread is blocked on the lock (or still computing); move on
    # let everybody finish
    rec.controlled = False
    for _ in range(200):
        for th in range(1, nth + 1):
            rec.gates[th].release()
        if not any(t.is_alive() for t in threads):
            break
        time.sleep(0.005)
    deadline = time.time() + 3
    for t in threads:
        t.join(max(0.0, deadline - time.time()))
    _point._verif_hook = None
    stuck = [i + 1 for i, t in enumerate(threads) if t.is_alive()]
    return dict(tid=tid, kind="controlled", curves=sorted(set(CANON[n] for n in curve_names)), sched=sched, events=rec.events,
                stuck=stuck)


def free_run(tid, nth, names_per_thread):
    reset_registry()
    rec = Recorder(False)
    _point._verif_hook = rec.hook
    start = threading.Event()
    threads = [threading.Thread(target=worker, args=(rec, th, names_per_thread[th - 1], start), daemon=True) for th in range(1, nth + 1)]
    for t in threads:
        t.start()
    start.set()
    deadline = time.time() + 5
    for t in threads:
        t.join(max(0.0, deadline - time.time()))
    _point._verif_hook = None
    curves = sorted(set(CANON[n] for ns in names_per_thread for n in ns))
    return dict(tid=tid, kind="free", curves=curves, sched=[], events=rec.events, stuck=[i + 1 for i, t in enumerate(threads) if t.is_alive()])


def main():
    job = json.load(sys.stdin)
    r = rng("c19reg")
    if not _point._VERIF:
        raise SystemExit("hooks are not enabled (PYCRYPTODOME_VERIF)")
    sys.setswitchinterval(1e-5)
    out = []
    tid = 0
    alias = {c: [n for n, k in CANON.items() if k == c] for c in ALL}
    for sched in job["scheds"]:
        tid += 1
        curve = ALL[tid % len(ALL)]
        nth = max(sched)
        per_thread = [[r.choice(alias[curve])] for _ in range(nth)]
        out.append(controlled_run(tid, sched, [curve], per_thread))
        if out[-1]["stuck"]:
            break          # the registry lock of this process is held for ever: nothing more can be run here
    for i in range(job["free_runs"]):
        tid += 1
        nth = r.choice([2, 4, 8, 16])
        cs = r.sample(ALL, r.choice([1, 2, 3]))
        names = [[r.choice(alias[c]) for c in r.sample(cs, len(cs))] for _ in range(nth)]
        if out and out[-1]["stuck"]:
            break
        out.append(free_run(tid, nth, names))
    json.dump(out, sys.stdout)


if __name__ == "__main__":
    main()
