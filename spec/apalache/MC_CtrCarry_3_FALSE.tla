---- MODULE MC_CtrCarry_3_FALSE ----
W == 3
LittleEndian == FALSE
VARIABLES
  \* @type: Int -> Int;
  ctr,
  \* @type: Int -> Int;
  ctr0,
  \* @type: Int;
  k,
  \* @type: Bool;
  done
INSTANCE CtrCarryApa
====
