"""pytest plugin (loaded with -p suite_plugin): runs the repository's own tests with recording proxies around every AEAD
cipher object, so that each existing test execution becomes a trace that the specification judges step by step (DESIGN.md
section 9, item 5).  Traces are written to $VERIF_SUITE_TRACES at session end.  The proxies forward everything else."""
import json
import os

OPS = ("update", "encrypt", "decrypt", "digest", "hexdigest", "verify", "hexverify", "encrypt_and_digest", "decrypt_and_verify")
TRACES = []
LIMIT = int(os.environ.get("VERIF_SUITE_LIMIT", "100000"))
MAXDATA = 2048


def exc_class(x):
    for base in (TypeError, ValueError, OverflowError, IndexError, KeyError, AttributeError):
        if isinstance(x, base):
            return base.__name__
    return type(x).__name__


def is_buf(x):
    return isinstance(x, (bytes, bytearray, memoryview))


class Rec(object):
    def __init__(self, family, obj, remake, cfg):
        d = object.__getattribute__(self, "__dict__")
        d["_o"] = obj
        d["_t"] = dict(family=family, cfg=cfg, events=[], dead=False, total=0)
        d["_remake"] = remake
        if len(TRACES) < LIMIT:
            TRACES.append(self)

    def __getattr__(self, name):
        o = object.__getattribute__(self, "__dict__")["_o"]
        a = getattr(o, name)
        if name in OPS and callable(a):
            return object.__getattribute__(self, "_wrap")(name, a)
        return a

    def __setattr__(self, name, value):
        setattr(object.__getattribute__(self, "__dict__")["_o"], name, value)

    def _wrap(self, op, fn):
        d = object.__getattribute__(self, "__dict__")
        t, o = d["_t"], d["_o"]
        fam = t["family"]

        def call(*args, **kw):
            if t["dead"]:
                return fn(*args, **kw)
            # which argument carries data / the tag
            data, tag = b"", None
            ok_args = True
            a = list(args)
            if op in ("update", "encrypt", "decrypt", "encrypt_and_digest", "decrypt_and_verify"):
                if a:
                    data = a[0]
                else:
                    for k in ("assoc_data", "plaintext", "ciphertext", "component", "data"):
                        if k in kw:
                            data = kw[k]
                            break
                    else:
                        data = None
                if data is None and op in ("encrypt", "decrypt") and fam == "ocb":
                    data = b""
                    opname = op + "_final"
                else:
                    opname = op
                if not is_buf(data):
                    ok_args = False
            else:
                opname = op
            if op in ("verify", "decrypt_and_verify"):
                tag = a[-1] if (a and (op == "verify" or len(a) > 1)) else kw.get("received_mac_tag", kw.get("mac_tag"))
                if not is_buf(tag):
                    ok_args = False
            if op == "hexverify":
                tag = a[0] if a else kw.get("hex_mac_tag")
                if not isinstance(tag, str):
                    ok_args = False
            outbuf = kw.get("output")
            if outbuf is not None and (not isinstance(outbuf, (bytearray, memoryview)) or (isinstance(outbuf, memoryview) and outbuf.readonly)
                                       or not is_buf(data) or len(outbuf) != len(data)):
                ok_args = False
            if len(a) > 2 or (len(a) > 1 and op != "decrypt_and_verify"):
                ok_args = False
            if not ok_args or t["total"] > MAXDATA or (is_buf(data) and len(data) > MAXDATA):
                t["dead"] = True            # outside the modelled domain (argument errors, huge data): stop recording this object
                return fn(*args, **kw)
            snapshot = bytes(data) if is_buf(data) else b""
            ev = dict(op=opname, n=len(snapshot), data=list(snapshot), good=True, free=True, out=[], tag=[])
            try:
                res = fn(*args, **kw)
            except BaseException as x:
                ev["exc"] = exc_class(x)
                ev["proj"] = projection(fam, o)
                t["events"].append(ev)
                raise
            ev["exc"] = "none"
            if op in ("encrypt", "decrypt", "decrypt_and_verify"):
                ev["out"] = list(bytes(outbuf)) if outbuf is not None else list(res or b"")
            elif op == "encrypt_and_digest":
                if outbuf is not None:
                    ev["out"], ev["tag"] = list(bytes(outbuf)), list(res[1] if isinstance(res, tuple) else res)
                else:
                    ev["out"], ev["tag"] = list(res[0]), list(res[1])
            elif op == "digest":
                ev["tag"] = list(res)
            elif op == "hexdigest":
                ev["tag"] = list(bytes.fromhex(res))
            t["total"] += len(snapshot)
            ev["proj"] = projection(fam, o)
            t["events"].append(ev)
            return res
        return call


def projection(family, c):
    try:
        if family == "gcm":
            return dict(has=True, nxt=sorted(c._next), cache=len(c._cache), auth=c._auth_len, msg=c._msg_len)
        if family == "ccm":
            cache = c._cache
            clen = sum(len(x) for x in cache) if isinstance(cache, list) else len(cache)
            return dict(has=True, nxt=sorted(c._next), cache=clen, st=int(c._mac_status), ca=c._cumul_assoc_len, cm=c._cumul_msg_len,
                        al=-1 if c._assoc_len is None else c._assoc_len, ml=-1 if c._msg_len is None else c._msg_len)
        return dict(has=True, nxt=sorted(c._next))
    except AttributeError:
        return dict(has=False, nxt=[], cache=0, auth=0, msg=0, st=0, ca=0, cm=0, al=0, ml=0)


def patch(modname, fname, family):
    import importlib
    mod = importlib.import_module(modname)
    orig = getattr(mod, fname)

    def factory(*args, **kwargs):
        obj = orig(*args, **kwargs)
        cfg = {}
        if family == "ccm":
            cfg = dict(declA=-1 if kwargs.get("assoc_len") is None else kwargs["assoc_len"],
                       declM=-1 if kwargs.get("msg_len") is None else kwargs["msg_len"])
            if cfg["declA"] > MAXDATA or cfg["declM"] > MAXDATA:
                return obj
        # snapshot buffer arguments: tests mutate their bytearrays after the call to check that the library copied them
        args = tuple(bytes(a) if is_buf(a) else a for a in args)
        kw2 = dict((k, bytes(v) if is_buf(v) else v) for k, v in kwargs.items())
        kw2.pop("assoc_len", None)
        kw2.pop("msg_len", None)
        try:
            kw2["nonce"] = bytes(obj.nonce)
        except Exception:
            pass

        def remake():
            return orig(*args, **kw2)
        return Rec(family, obj, remake, cfg)
    setattr(mod, fname, factory)


def pytest_configure(config):
    patch("Crypto.Cipher._mode_gcm", "_create_gcm_cipher", "gcm")
    patch("Crypto.Cipher._mode_ccm", "_create_ccm_cipher", "ccm")
    patch("Crypto.Cipher._mode_eax", "_create_eax_cipher", "eax")
    patch("Crypto.Cipher._mode_ocb", "_create_ocb_cipher", "ocb")
    patch("Crypto.Cipher._mode_siv", "_create_siv_cipher", "siv")


def finish_trace(rec):
    d = object.__getattribute__(rec, "__dict__")
    t = d["_t"]
    fam = t["family"]
    comps, inp, direction = [], b"", "none"
    for e in t["events"]:
        if e["exc"] == "none" or (e["op"] == "decrypt_and_verify" and e["exc"] == "ValueError"):
            if e["op"] == "update":
                comps.append(bytes(e["data"]))
            elif e["op"] in ("encrypt", "encrypt_and_digest", "encrypt_final"):
                inp += bytes(e["data"])
                direction = "enc"
            elif e["op"] in ("decrypt", "decrypt_and_verify", "decrypt_final"):
                inp += bytes(e["data"])
                direction = "dec"
    one = dict(has=False, aad=list(b"".join(comps)), comps=[list(x) for x in comps], inp=list(inp), out=[], tag=[])
    try:
        if not (fam == "siv" and direction != "enc") and not (fam == "ccm" and any(e["exc"] == "ValueError" and e["op"] != "verify" for e in t["events"])):
            c = d["_remake"]()
            c = object.__getattribute__(c, "__dict__")["_o"] if isinstance(c, Rec) else c
            for a in (comps if fam == "siv" else ([b"".join(comps)] if comps else [])):
                c.update(a)
            if direction in ("none", "enc"):
                out, tag = c.encrypt_and_digest(inp)
            else:
                out = c.decrypt(inp)
                if fam == "ocb":
                    out += c.decrypt()
                c2 = d["_remake"]()
                c2 = object.__getattribute__(c2, "__dict__")["_o"] if isinstance(c2, Rec) else c2
                if comps:
                    c2.update(b"".join(comps))
                ct2, tag = c2.encrypt_and_digest(out)
            one.update(has=True, out=list(out), tag=list(tag))
    except Exception:
        one["has"] = False
    return dict(family=fam, cfg=t["cfg"], events=t["events"], oneshot=one, truncated=t["dead"])


def pytest_sessionfinish(session, exitstatus):
    path = os.environ.get("VERIF_SUITE_TRACES")
    if not path:
        return
    recs = list(TRACES)
    del TRACES[:]            # the remake() calls below create more proxies: do not record those
    out = []
    for i, r in enumerate(recs):
        tr = finish_trace(r)
        if tr["events"]:
            tr["tid"] = i + 1
            out.append(tr)
    with open(path, "w") as f:
        json.dump(out, f)
