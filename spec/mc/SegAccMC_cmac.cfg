CONSTANTS Kind = "cmac"
BS = 4
LW = 0
MaxTotal = 13
MaxZeros = 0
EmitHist = FALSE
SPECIFICATION Spec
INVARIANT InvCacheBound
INVARIANT InvPrefix
INVARIANT InvChain
INVARIANT InvRefines
PROPERTY EmptyIsNeutral
CHECK_DEADLOCK FALSE
