"""C20 - Shamir secret sharing over a true GF(2^128): k shares recombine to the secret in every order, duplicates are refused,
the arithmetic is a field, every coefficient comes from the random source, k-1 shares are consistent with every secret."""
import os
import random
from concurrent.futures import ThreadPoolExecutor

from .. import tlc
from ..core import Machinery
from .c10 import _selfcheck

LEVEL = "model_checking"
MC_DIR = os.path.join(tlc.SPEC, "mc")


def hx(b):
    return bytes(b).hex()


def run(ctx):
    quick = ctx.tier == "quick"
    rnd = random.Random(ctx.seed)
    # ---- 1. model checking: the field axioms for all elements of GF(2^3), GF(2^4), GF(2^8) as computed by the generic operators
    #         of data/GF2m (plus Rabin's irreducibility test of the documented polynomial of degree 128, ASSUMEd in ShamirFieldMC);
    #         the scheme on GF(2^3): every secret x every coefficient tape x every (k, n) x every ordered k-subset; duplicates;
    #         secrecy by counting.  Three mutated models must be rejected (separation).
    gf256 = "ShamirFieldMC_gf256.cfg"
    gf256_text = None
    if quick:
        # quick tier: first operand restricted to {0, 1, 2, 255} and one residue class modulo 8 chosen by the seed (36 of 256
        # elements); second and third operand still range over all 65536 pairs
        gf256_text = open(os.path.join(MC_DIR, gf256)).read().replace("ASel = 0", "ASel = 8").replace("ASeed = 0", "ASeed = %d" % (ctx.seed % 8))
    jobs = [
        ("ShamirFieldMC", gf256, dict(workers=8, cfg_text=gf256_text), True),
        ("ShamirMC", "ShamirMC_quick.cfg" if quick else "ShamirMC_thorough.cfg", dict(workers=8 if quick else 16), True),
        ("ShamirSecrecyMC", "ShamirSecrecyMC_quick.cfg" if quick else "ShamirSecrecyMC_thorough.cfg", dict(workers=4), True),
        ("ShamirFieldMC", "ShamirFieldMC_gf16.cfg", dict(workers=2), True),
        ("ShamirFieldMC", "ShamirFieldMC_gf8.cfg", dict(workers=2), True),
        ("ShamirFieldMC", "ShamirFieldMC_reducible.cfg", dict(workers=2), False),
        ("ShamirMC", "ShamirMC_flip.cfg", dict(workers=2), False),
        ("ShamirSecrecyMC", "ShamirSecrecyMC_broken.cfg", dict(workers=2), False),
    ]
    if not quick:
        jobs.append(("ShamirMC", "ShamirMC_n5.cfg", dict(workers=8), True))
        jobs.append(("ShamirMC", "ShamirMC_gf16.cfg", dict(workers=16), True))

    def one(j):
        mod, cfg, kw, must = j
        kw = {k: v for k, v in kw.items() if v is not None}
        return j, ctx.mc(mod, cfg, must_hold=must, timeout=2400, **kw)

    # ---- 2. recording on the real code runs while the models are being checked
    if quick:
        job = dict(elem=dict(n_mul=300, n_inv=60, n_pow=60, n_law=60, per_trace=24),
                   shamir=dict(reps=1, max_orders=120, full_first=True, lag_every=8, ndup=6, large=[], large_orders=0))
    else:
        job = dict(elem=dict(n_mul=60000, n_inv=8000, n_pow=5000, n_law=8000, per_trace=80),
                   shamir=dict(reps=30, max_orders=60, full_first=True, lag_every=4, ndup=10,
                               large=[(3, 20), (6, 12), (2, 255), (10, 12), (5, 64), (8, 9), (2, 1000), (12, 16)], large_orders=60))
    ex = ThreadPoolExecutor(max_workers=12)
    try:
        fut = [ex.submit(one, j) for j in jobs]
        rec = ctx.drive("c20_shamir", [], inp=job)
        traces = rec["traces"]
        verdicts = ctx.validate("ShamirTrace", traces, family="gf128+shamir", timeout=2400, shards=8 if quick else 16)
        _judge(ctx, traces, verdicts, rec, rnd, ex)
        results = [f.result() for f in fut]
    finally:
        ex.shutdown(wait=True)
    sep = {}
    for (mod, cfg, kw, must), r in results:
        if not must:
            if not r.violated:
                raise Machinery("%s/%s: the mutated model is not rejected (the invariants do not separate)" % (mod, cfg))
            sep[cfg] = r.violated
    ctx.extra["mutated_models_rejected"] = sep
    ctx.exhaustive = False
    ctx.rule = ("model: GF(2^3)/GF(2^4)/GF(2^8) field axioms for every element (quick tier: GF(2^8) first operand restricted to 36 elements), "
                "Shamir on GF(2^3) for every secret, coefficient tape, variant, 2 <= k <= n <= 4 (quick: k <= 3; thorough: also n = 5 with k <= 3 and "
                "the same scheme over GF(2^4) with k <= 3), every ordered k-subset, "
                "every duplicate sequence, secrecy by pre-image counting; implementation: _Element operations on 21 boundary elements "
                "(all pairs) and seeded random ones, split/combine on a logged coefficient tape for every 2 <= k <= n <= 5, both variants, "
                "every k-subset in every order, duplicate indexes (same share twice; same index with another value), judged by TLC with "
                "the same operators at m = 128; distinct_nontrivial = distinct non-degenerate operations / (split, combination) pairs")
    ctx.assume("GF(2^128) cannot be enumerated: its field axioms follow from Rabin's irreducibility test of x^128+x^7+x^2+x+1 (evaluated by TLC) "
               "and from the axioms model-checked for the same generic operators on the small fields")
    ctx.assume("_Element ** 0 returns the element itself instead of 1; exponent 0 is not reachable through split/combine (k >= 1) and is left open")
    ctx.assume("the random source is replaced through the module attribute SecretSharing.rng; if it disappears the recorder fails (exit 2)")


def _judge(ctx, traces, verdicts, rec, rnd, ex):
    ctx.extra["observations_outside_the_statement"] = rec["observations"]
    # ---- 3. verdicts
    fam_count = {}
    ops = {}
    good = {}
    for t in traces:
        pos, clause = verdicts[t["tid"]]
        fam = t["family"]
        fam_count[fam] = fam_count.get(fam, 0) + 1
        if fam == "elem":
            for e in t["events"]:
                ctx.count()
                ops[e["op"]] = ops.get(e["op"], 0) + 1
                if any(e["a"]) and (any(e["b"]) or e["op"] in ("inv", "pow", "mulinv", "int")):
                    ctx.nontriv([e["op"], e["a"], e["b"], e["c"], e["e"]])
        else:
            sp = t["events"][0]
            for e in t["events"][1:]:
                ctx.count()
                key = "combine" if len(set(e["ord"])) == len(e["ord"]) else "combine-duplicate"
                ops[key] = ops.get(key, 0) + 1
                ctx.nontriv([sp["k"], sp["n"], sp["ssss"], sp["secret"], sp["tape"], e["ord"], e["altpos"]])
            ctx.count()
            ops["split"] = ops.get("split", 0) + 1
        if clause == "ok":
            good.setdefault(fam, t)
            continue
        if clause.startswith("harness:"):
            raise Machinery("harness inconsistency in %s trace %d at %d: %s" % (fam, t["tid"], pos, clause))
        e = t["events"][pos - 1]
        if fam == "elem":
            detail = {"op": e["op"], "a": hx(e["a"]), "b": hx(e["b"]), "c": hx(e["c"]), "e": e["e"], "result": hx(e["r"]),
                      "result2": hx(e["r2"]), "exc": e["exc"],
                      "reproduce": "from Crypto.Protocol.SecretSharing import _Element as E; a=E(bytes.fromhex('%s')); b=E(bytes.fromhex('%s')); c=E(bytes.fromhex('%s'))  # then %s" % (hx(e["a"]), hx(e["b"]), hx(e["c"]), e["op"])}
            ctx.violation("elem/%s: %s" % (e["op"], clause), detail, replay=dict(t, events=[e]))
        else:
            sp = t["events"][0]
            detail = {"k": sp["k"], "n": sp["n"], "ssss": sp["ssss"], "secret": hx(sp["secret"]), "tape": [hx(c) for c in sp["tape"]],
                      "draws": sp["draws"], "shares": [[s[0], hx(s[1])] for s in sp["shares"]], "position": pos}
            if pos > 1:
                detail.update({"ord": e["ord"], "altpos": e["altpos"], "altval": hx(e["altval"]), "out": hx(e["out"]), "exc": e["exc"]})
            ctx.violation("shamir/%s: %s" % ("ssss" if sp["ssss"] else "native", clause), detail, replay=dict(t, events=[sp] + ([e] if pos > 1 else [])))
    for fam, t in sorted(good.items()):
        if fam == "elem":
            ctx.sample({"family": fam, "events": [[e["op"], hx(e["a"]), hx(e["b"]), e["e"], hx(e["r"]), e["exc"]] for e in t["events"][:4]], "tlc_verdict": "ok"})
        else:
            sp = t["events"][0]
            ctx.sample({"family": fam, "k": sp["k"], "n": sp["n"], "ssss": sp["ssss"], "secret": hx(sp["secret"]), "tape": [hx(c) for c in sp["tape"]],
                        "shares": [[s[0], hx(s[1])] for s in sp["shares"]],
                        "combines": [[e["ord"], hx(e["out"]), e["exc"]] for e in t["events"][1:4]], "tlc_verdict": "ok"})
    ctx.extra["traces_per_family"] = fam_count
    ctx.extra["recorded_operations"] = ops
    # ---- 4. binding self-checks: a corrupted record must be rejected
    ge = next((t for t in traces if t["family"] == "elem" and verdicts[t["tid"]][1] == "ok" and any(e["op"] == "mul" and any(e["r"]) for e in t["events"])), None)
    gs = next((t for t in traces if t["family"] == "shamir" and verdicts[t["tid"]][1] == "ok" and
               any(e["exc"] == "ValueError" for e in t["events"][1:])), None)
    if ge is None or gs is None:
        if not ctx.violations:
            raise Machinery("no accepted trace to run the binding self-checks on")
    else:
        ri, rj, rbit = rnd.randrange(16), rnd.randrange(16), rnd.randrange(8)      # drawn here: the checks run in threads

        def flip_product(t):
            e = next(e for e in t["events"] if e["op"] == "mul" and any(e["r"]))
            e["r"][ri] ^= 1 << rbit
            return t

        def flip_share(t):
            t["events"][0]["shares"][-1][1][rj] ^= 0x10
            return t

        def flip_out(t):
            e = next(e for e in t["events"][1:] if e["exc"] == "none")
            e["out"][15] ^= 1
            return t

        def hide_dup(t):
            e = next(e for e in t["events"][1:] if e["exc"] == "ValueError")
            e["exc"] = "none"
            return t

        def drop_draw(t):
            t["events"][0]["draws"] = t["events"][0]["draws"][:-1]
            t["events"][0]["drawn"] -= 16
            return t
        gs2 = dict(gs, events=gs["events"][:1] + [e for e in gs["events"][1:] if not e["lag"]][:12] +
                   [e for e in gs["events"][1:] if e["exc"] == "ValueError"][:1])
        checks = [(ge, flip_product, "elem: one bit of a product"), (gs2, flip_share, "shamir: one bit of a share"),
                  (gs2, flip_out, "shamir: one bit of a recombined secret"), (gs2, hide_dup, "shamir: duplicate index reported as accepted"),
                  (gs2, drop_draw, "shamir: one coefficient not drawn from the source")]
        for f in [ex.submit(_selfcheck, ctx, "ShamirTrace", None, g, fn, name) for g, fn, name in checks]:
            f.result()
