CONSTANTS Mode = "opts"
INIT Init
NEXT Next
INVARIANT InvLegalTotal
INVARIANT InvContainer
INVARIANT InvPassphrase
INVARIANT InvRoundTrip
INVARIANT InvIgnored
INVARIANT InvUnknownFormatRefused
INVARIANT EmitOpt
CHECK_DEADLOCK FALSE
