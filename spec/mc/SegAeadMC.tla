------------------------------- MODULE SegAeadMC -------------------------------
(* C09, refinement check of the MAC-side caches of GCM and CCM, reusing the implementation-shaped models of C10
   (obj/GcmObj: _cache of 16 bytes in front of GHASH; obj/CcmObj: the parked list, then the 16-byte cache in front of the
   CBC-MAC) over ALL segmentations: update(n)* ; encrypt(n)* | decrypt(n)* ; digest, every n in 0..MaxTotal with
   |A| + |P| <= MaxTotal.  CCM: lengths declared (any value up to MaxTotal) or not; histories that contradict the declaration
   end in the documented ValueError and are not continued.  The invariants are those of the models - cache shorter than a
   block, absorbed || cache is a prefix of the stream the standard defines, the tag is over the definition. *)
EXTENDS Integers, Sequences, TLC
CONSTANTS Family, BS, HL, MaxTotal
G == INSTANCE GcmObj
C == INSTANCE CcmObj
VARIABLES o, dir
vars == <<o, dir>>
IsG == Family = "gcm"
Decl == {C!NONE} \cup 0..MaxTotal
Init == /\ dir = "none"
        /\ IF IsG THEN o = G!GcmInit ELSE \E a \in Decl, m \in Decl : o = C!CcmInit(a, m)
ALen == IF IsG THEN o.authLen ELSE o.cumulAssoc
MLen == IF IsG THEN o.msgLen ELSE o.cumulMsg
Step(e) == IF IsG THEN G!GcmStep(o, e) ELSE C!CcmStep(o, e)
Live == o.exc = "none" /\ dir # "done" /\ (IF IsG THEN TRUE ELSE ~o.poisoned)
Update(n) == /\ Live /\ dir = "none" /\ ALen + MLen + n <= MaxTotal
             /\ o' = Step([op |-> "update", n |-> n]) /\ UNCHANGED dir
Crypt(d, n) == /\ Live /\ dir \in {"none", d} /\ ALen + MLen + n <= MaxTotal
               /\ o' = Step([op |-> d, n |-> n]) /\ dir' = d
Digest == /\ Live /\ o' = Step([op |-> IF dir = "decrypt" THEN "verify" ELSE "digest", good |-> TRUE]) /\ dir' = "done"
Next == (\E n \in 0..MaxTotal : Update(n) \/ Crypt("encrypt", n) \/ Crypt("decrypt", n)) \/ Digest
Spec == Init /\ [][Next]_vars
InvCache == IF IsG THEN G!CacheSmall(o) ELSE C!CcmCacheSmall(o)
InvPrefix == IF IsG THEN G!AbsorbedIsPrefixOfDefinition(o)
             ELSE (o.macStatus # "NS" /\ ~o.poisoned) =>
                      LET f == C!Formatted(o.assocLen, o.msgLen)  x == o.absorbed \o o.cache
                      IN Len(x) <= Len(f) /\ x = SubSeq(f, 1, Len(x))
InvTag == IF IsG THEN G!TagOverRightLengths(o) ELSE C!CcmTagIsOverTheDefinition(o)
\* a history in the documented order never meets TypeError, except CCM's second encrypt()/decrypt() when msg_len was not declared
InvLegal == o.exc = "TypeError" => (~IsG /\ o.declM = C!NONE /\ dir # "none")
\* every complete history that respects the declaration ends with a tag
InvCompletes == (dir = "done" /\ o.exc = "none") => o.tag # (IF IsG THEN G!NoTag ELSE C!CNoTag)
=============================================================================
