CONSTANTS Final = "read"
Uad = FALSE
HasVerify = FALSE
HasCopy = TRUE
MaxDepth = 3
MaxObjs = 3
SegLens = {0, 1, 70}
EmitHist = TRUE
INIT Init
NEXT Next
INVARIANT Emit
CHECK_DEADLOCK FALSE
