------------------------------- MODULE ShamirTrace -------------------------------
(* Code -> spec, C20: recorded operations of the real Crypto.Protocol.SecretSharing._Element and recorded Shamir.split /
   Shamir.combine executions, judged by the generic operators of data/GF2m instantiated at m = 128 with the documented
   polynomial x^128 + x^7 + x^2 + x + 1 (the operators whose field axioms are model-checked on GF(2^3), GF(2^4), GF(2^8)).
   Family "elem": every event is one operation; products, sums, inverses, powers must equal the oracle's, the inverse of zero
   must be refused with ValueError, and the laws (commutative, associative, distributive, a * a^-1 = 1) must hold between
   the implementation's own results.
   Family "shamir": event 1 is split() run on a logged coefficient tape, the other events are combine() on shares of that
   split (ord = positions in the share list; altpos/altval = one share value replaced).  Shares must be the polynomial
   values for exactly the drawn coefficients, k distinct shares must return the secret in every order, duplicate indexes
   must be refused with ValueError; where lag is set TLC also interpolates the given points itself. *)
EXTENDS GF2m, Json, IOUtils
Traces == JsonDeserialize(IOEnv.TRACE_FILE)
VARIABLES t, l, bad
Ok == <<0, "ok">>
F == GfF128
B(x) == GfOfBytesBE(x)
IsB16(x) == Len(x) = 16 /\ \A i \in 1..16 : x[i] \in 0..255
Zero16 == <<0, 0, 0, 0, 0, 0, 0, 0, 0, 0, 0, 0, 0, 0, 0, 0>>
\* exponent 0 is outside the documented use (a private class; split/combine raise to the power k >= 1 only): left open
PowZeroOpen(e) == e.op = "pow" /\ e.e = 0
ElemVerdict(e) ==
   IF ~(IsB16(e.a) /\ IsB16(e.b) /\ IsB16(e.c)) THEN "harness: malformed element record"
   \* the operands are elements; a result that does not encode to 16 bytes is not an element of GF(2^128) (e.g. a product left unreduced)
   ELSE IF ~(IsB16(e.r) /\ IsB16(e.r2)) THEN "result is not an element of the field (it does not encode to 16 bytes)"
   ELSE IF PowZeroOpen(e) THEN "ok"
   ELSE IF e.op = "inv" /\ e.a = Zero16 THEN (IF e.exc = "ValueError" THEN "ok" ELSE "inverse of zero not refused with ValueError")
   ELSE IF e.op = "mulinv" /\ e.a = Zero16 THEN (IF e.exc = "ValueError" THEN "ok" ELSE "inverse of zero not refused with ValueError")
   ELSE IF e.exc # "none" THEN "field operation raised " \o e.exc
   ELSE LET a == B(e.a)  b == B(e.b)  c == B(e.c)  r == B(e.r)  r2 == B(e.r2) IN
     CASE e.op = "mul" -> IF r = GfMul(a, b, F) THEN "ok" ELSE "product differs from GF(2^128) with the documented polynomial"
       [] e.op = "add" -> IF r = GfAdd(a, b) THEN "ok" ELSE "sum differs from GF(2^128)"
       [] e.op = "inv" -> IF ~GfIsInv(a, r, F) THEN "inverse: a * inverse(a) is not 1"
                          ELSE IF r # GfInv(a, F) THEN "inverse differs from the extended Euclid value" ELSE "ok"
       [] e.op = "mulinv" -> IF r = GfOne THEN "ok" ELSE "inverse: a * inverse(a) is not 1"
       [] e.op = "pow" -> IF r = GfPow(a, e.e, F) THEN "ok" ELSE "power differs from the repeated product"
       [] e.op = "int" -> IF e.r = e.a THEN "ok" ELSE "integer constructor / encode() do not round-trip"
       [] e.op = "comm" -> IF r # r2 THEN "multiplication is not commutative"
                           ELSE IF r # GfMul(a, b, F) THEN "product differs from GF(2^128) with the documented polynomial" ELSE "ok"
       [] e.op = "assoc" -> IF r # r2 THEN "multiplication is not associative"
                            ELSE IF r # GfMul(GfMul(a, b, F), c, F) THEN "product differs from GF(2^128) with the documented polynomial" ELSE "ok"
       [] e.op = "distr" -> IF r # r2 THEN "multiplication does not distribute over addition"
                            ELSE IF r # GfMul(a, GfAdd(b, c), F) THEN "product differs from GF(2^128) with the documented polynomial" ELSE "ok"
       [] OTHER -> "harness: unknown element operation"
-----------------------------------------------------------------------------
SplitVerdict(sp) ==
   IF sp.exc = "malformed" THEN "split does not return n pairs (index, 16 bytes)"
   ELSE IF sp.exc # "none" THEN "split raised " \o sp.exc
   ELSE IF ~(IsB16(sp.secret) /\ \A i \in 1..Len(sp.tape) : IsB16(sp.tape[i])) \/ Len(sp.tape) # sp.k - 1 THEN "harness: malformed split record"
   \* The random source is a byte stream (the tape); how many bytes each request takes is the implementation's business.  The k-1
   \* coefficients are the consecutive 16-byte blocks of the bytes drawn: fewer than 16 (k-1) bytes drawn means that some coefficient
   \* does not come from the source; when more are drawn the coefficients must still be the first k-1 blocks delivered.
   ELSE IF sp.drawn < 16 * (sp.k - 1) THEN "fewer than 16 (k-1) bytes were drawn from the random source: not every coefficient comes from it"
   ELSE IF Len(sp.shares) # sp.n \/ \E i \in 1..Len(sp.shares) : sp.shares[i][1] # i \/ ~IsB16(sp.shares[i][2]) THEN "shares are not indexed 1..n with 16-byte values"
   ELSE LET tape == [i \in 1..(sp.k - 1) |-> B(sp.tape[i])]
            sec == B(sp.secret)
        IN IF \E i \in 1..sp.n : B(sp.shares[i][2]) # ShamirShare(tape, sec, i, sp.ssss, F)
           \* more bytes than 16 (k-1) were drawn: harmless if the coefficients are still the first k-1 blocks delivered (checked above);
           \* otherwise a coefficient is not what the source delivered first (e.g. a zero block drawn again)
           THEN (IF sp.drawn > 16 * (sp.k - 1) THEN "a coefficient is not the block the random source delivered (more than 16 (k-1) bytes were drawn and the shares do not belong to the first k-1 blocks)"
                 ELSE "share differs from the polynomial value for the drawn coefficients")
           ELSE "ok"
Given(sp, e) == [i \in 1..Len(e.ord) |-> <<sp.shares[e.ord[i]][1], IF e.altpos = i THEN e.altval ELSE sp.shares[e.ord[i]][2]>>]
CombineVerdict(sp, e) ==
   IF sp.exc # "none" \/ Len(sp.shares) # sp.n \/ \E i \in 1..Len(e.ord) : e.ord[i] \notin 1..sp.n THEN "harness: combine without shares"
   ELSE LET g == Given(sp, e)
            ge == [i \in 1..Len(g) |-> <<g[i][1], B(g[i][2])>>]
        IN IF ShamirHasDup(g) THEN (IF e.exc = "ValueError" THEN "ok" ELSE "duplicate share index not refused with ValueError")
           ELSE IF e.exc # "none" THEN "combine raised " \o e.exc \o " on distinct shares"
           ELSE IF ~IsB16(e.out) THEN "combine does not return 16 bytes"
           ELSE IF Len(e.ord) = sp.k /\ e.altpos = 0 /\ e.out # sp.secret THEN "k distinct shares do not recombine to the secret"
           ELSE IF e.lag /\ B(e.out) # ShamirCombine(ge, sp.ssss, F).secret THEN "combine differs from Lagrange interpolation at zero"
           ELSE "ok"
EventVerdict(tr, i) ==
   IF tr.family = "elem" THEN ElemVerdict(tr.events[i])
   ELSE IF tr.family = "shamir" THEN
        (IF i = 1 THEN (IF tr.events[1].op = "split" THEN SplitVerdict(tr.events[1]) ELSE "harness: first event is not split")
         ELSE IF tr.events[i].op = "combine" THEN CombineVerdict(tr.events[1], tr.events[i]) ELSE "harness: unknown event")
   ELSE "harness: unknown family"
TInit == t = 1 /\ l = 1 /\ bad = Ok
TNext == /\ t <= Len(Traces)
         /\ LET tr == Traces[t] IN
            IF l > Len(tr.events) THEN
               /\ PrintT(<<"VERDICT", tr.tid, bad[1], bad[2]>>)
               /\ t' = t + 1 /\ l' = 1 /\ bad' = Ok
            ELSE LET v == EventVerdict(tr, l)
                 IN /\ bad' = IF bad = Ok /\ v # "ok" THEN <<l, v>> ELSE bad
                    /\ l' = l + 1 /\ t' = t
=============================================================================
