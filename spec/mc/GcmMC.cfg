CONSTANTS BS = 4
MaxData = 13
MaxDepth = 6
SegLens = {0,1,2,3,4,5,8,9}
EmitHist = FALSE
SPECIFICATION Spec
INVARIANT InvGuard
INVARIANT InvCache
INVARIANT InvAbsorbed
INVARIANT InvTag
PROPERTY ForbiddenLeavesObjectUnchanged
PROPERTY TerminalStaysTerminal
CHECK_DEADLOCK FALSE
