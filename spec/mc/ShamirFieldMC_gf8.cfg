\* GF(2^3), x^3 + x + 1 (the field of the exhaustive Shamir model): every element as first operand, every pair / triple
CONSTANTS M = 3
LowN = 3
ASel = 0
ASeed = 0
INIT Init
NEXT Next
CHECK_DEADLOCK FALSE
INVARIANTS TablesClosed Commutative Associative Distributive Neutral Inverses NoZeroDivisor ZeroHasNoInverse PowIsRepeatedProduct
