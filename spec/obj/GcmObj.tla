------------------------------- MODULE GcmObj -------------------------------
(* Implementation-shaped model of lib/Crypto/Cipher/_mode_gcm.py:GcmMode, in functional style: the object is a record,
   every public method is an operator  (object, arguments) -> object'  whose field `exc` is the exception class raised
   ("none" if the call returned).  Data is symbolic: a byte is <<stream, index>> with streams "A" (associated data),
   "C" (ciphertext), "Z" (zero padding), "L" (the lengths block), so a lost, duplicated or misplaced byte is visible.
   Fields mirror the code: next = _next, status = _status, cache = _cache, absorbed = what _signer.update() has been
   given, authLen/msgLen = _auth_len/_msg_len, tag = the cached _tag (as the pair of lengths it was computed over). *)
EXTENDS Integers, Sequences, FiniteSets, TLC
CONSTANTS BS
ALL5 == {"update","encrypt","decrypt","digest","verify"}
NoTag == <<-1,-1>>
SBytes(stream, from, n) == [i \in 1..n |-> <<stream, from + i>>]
SZeros(n) == [i \in 1..n |-> <<"Z", 0>>]
SPadLen(n) == (BS - (n % BS)) % BS
GcmInit == [next |-> ALL5, status |-> "AUTH", cache |-> <<>>, absorbed |-> <<>>, authLen |-> 0, msgLen |-> 0,
            tag |-> NoTag, phase |-> "init", exc |-> "none"]
\* _update(data) on (cache, absorbed): returns <<cache', absorbed'>>
UpdateRaw(c, ab, data) ==
  IF Len(c) > 0 THEN
      LET filler == IF BS - Len(c) < Len(data) THEN BS - Len(c) ELSE Len(data)
          c1 == c \o SubSeq(data, 1, filler)
          rest == SubSeq(data, filler + 1, Len(data))
      IN IF Len(c1) < BS THEN <<c1, ab>>
         ELSE LET ul == (Len(rest) \div BS) * BS
              IN << SubSeq(rest, ul + 1, Len(rest)), ab \o c1 \o SubSeq(rest, 1, ul) >>
  ELSE LET ul == (Len(data) \div BS) * BS
       IN << SubSeq(data, ul + 1, Len(data)), ab \o SubSeq(data, 1, ul) >>
PadCache(c, ab) == IF Len(c) > 0 THEN UpdateRaw(c, ab, SZeros(BS - Len(c))) ELSE <<c, ab>>
TypeErr(o) == [o EXCEPT !.exc = "TypeError"]          \* the guard fails before anything is touched
GcmUpdate(o, n) ==
   IF "update" \notin o.next THEN TypeErr(o) ELSE
   LET r == UpdateRaw(o.cache, o.absorbed, SBytes("A", o.authLen, n))
   IN [o EXCEPT !.next = ALL5, !.cache = r[1], !.absorbed = r[2], !.authLen = o.authLen + n, !.exc = "none"]
GcmCrypt(o, m, n) ==     \* m = "encrypt" | "decrypt"
   IF m \notin o.next THEN TypeErr(o) ELSE
   LET p == IF o.status = "AUTH" THEN PadCache(o.cache, o.absorbed) ELSE <<o.cache, o.absorbed>>
       r == UpdateRaw(p[1], p[2], SBytes("C", o.msgLen, n))
   IN [o EXCEPT !.next = IF m = "encrypt" THEN {"encrypt","digest"} ELSE {"decrypt","verify"},
                !.cache = r[1], !.absorbed = r[2], !.status = "CT", !.msgLen = o.msgLen + n, !.exc = "none",
                !.phase = IF m = "encrypt" THEN "enc" ELSE "dec"]
ComputeMac(o) == IF o.tag # NoTag THEN o ELSE
   LET p == PadCache(o.cache, o.absorbed)
       r == UpdateRaw(p[1], p[2], SBytes("L", 0, BS))
   IN [o EXCEPT !.cache = r[1], !.absorbed = r[2], !.tag = <<o.authLen, o.msgLen>>]
\* good: the received tag is the genuine one (only meaningful for verify)
GcmFinal(o, m, good) ==
   IF m \notin o.next THEN TypeErr(o) ELSE
   LET o1 == ComputeMac([o EXCEPT !.next = {m}, !.phase = IF m = "digest" THEN "digested" ELSE "verified"])
   IN [o1 EXCEPT !.exc = IF m = "verify" /\ ~good THEN "ValueError" ELSE "none"]
\* the composite calls are literally sequences of the primitive ones in the code
Seq2(o1, f2(_)) == IF o1.exc # "none" THEN o1 ELSE f2(o1)
GcmStep(o, e) ==
   CASE e.op = "update" -> GcmUpdate(o, e.n)
     [] e.op \in {"encrypt", "decrypt"} -> GcmCrypt(o, e.op, e.n)
     [] e.op \in {"digest", "hexdigest"} -> GcmFinal(o, "digest", TRUE)
     [] e.op \in {"verify", "hexverify"} -> GcmFinal(o, "verify", e.good)
     [] e.op = "encrypt_and_digest" -> LET F(x) == GcmFinal(x, "digest", TRUE) IN Seq2(GcmCrypt(o, "encrypt", e.n), F)
     [] e.op = "decrypt_and_verify" -> LET F(x) == GcmFinal(x, "verify", e.good) IN Seq2(GcmCrypt(o, "decrypt", e.n), F)
-----------------------------------------------------------------------------
\* the documented diagram (Doc/src/cipher/modern.rst, aead.png): an independent definition of what is allowed
GcmAllowed(o) == CASE o.phase = "init" -> ALL5
                   [] o.phase = "enc" -> {"encrypt","digest"}
                   [] o.phase = "dec" -> {"decrypt","verify"}
                   [] o.phase = "digested" -> {"digest"}
                   [] o.phase = "verified" -> {"verify"}
GuardMatchesDiagram(o) == o.next = GcmAllowed(o)
CacheSmall(o) == Len(o.cache) < BS
\* the stream GHASH must see, by definition (SP 800-38D): pad(A) || pad(C) || lengths
GcmExpected(o, final) == SBytes("A", 0, o.authLen)
                   \o (IF o.status = "CT" \/ final THEN SZeros(SPadLen(o.authLen)) ELSE <<>>)
                   \o SBytes("C", 0, o.msgLen)
                   \o (IF final THEN SZeros(SPadLen(o.msgLen)) \o SBytes("L", 0, BS) ELSE <<>>)
AbsorbedIsPrefixOfDefinition(o) == o.absorbed \o o.cache = GcmExpected(o, o.tag # NoTag)
TagOverRightLengths(o) == o.tag # NoTag => o.tag = <<o.authLen, o.msgLen>>
=============================================================================
