CONSTANTS Final = "digest"
Uad = FALSE
HasVerify = TRUE
HasCopy = FALSE
MaxDepth = 3
MaxObjs = 3
SegLens = {0, 1, 70}
EmitHist = TRUE
INIT Init
NEXT Next
INVARIANT Emit
CHECK_DEADLOCK FALSE
