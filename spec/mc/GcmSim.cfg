CONSTANTS BS = 16
MaxData = 1000
MaxDepth = 7
SegLens = {0,1,15,16,17,33}
EmitHist = TRUE
INIT Init
NEXT Next
INVARIANT Emit
CHECK_DEADLOCK FALSE
