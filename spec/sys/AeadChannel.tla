------------------------------- MODULE AeadChannel -------------------------------
(* System layer for C01: a sender seals two messages under one key; an adversary derives the tuple it offers to the
   receiver from the sealed ones with a sequence of operators; the receiver opens it.
   Fields are sequences of symbolic bytes <<message, field, index, flipmask>>, so the model knows exactly when an
   operator sequence has led back to a genuine tuple (flip;flip, splice;splice, truncate;extend-with-the-same-byte
   is NOT genuine because the appended byte is foreign).  With an ideal MAC the receiver accepts exactly the genuine
   tuples; the model is the generator of the operator sequences replayed on the real modes, and its verdict is
   cross-checked against the concrete tuple (harness sanity) while the property verdict comes from the data layer. *)
EXTENDS Integers, Sequences, Bitwise, TLC, Json
CONSTANTS MaxOps, FLen
Fields == <<"nonce", "aad", "ct", "tag">>
FieldSet == {"nonce", "aad", "ct", "tag"}
Orig(m, f) == [i \in 1..FLen |-> <<m, f, i, 0>>]
Sealed(m) == [key |-> <<"K", 0>>, maclen |-> 0, nonce |-> Orig(m, "nonce"), aad |-> Orig(m, "aad"), ct |-> Orig(m, "ct"), tag |-> Orig(m, "tag")]
VARIABLES offered, ops
vars == <<offered, ops>>
Init == offered = Sealed(1) /\ ops = <<>>

PosIdx(s, p) == CASE p = "first" -> 1 [] p = "mid" -> (Len(s) \div 2) + 1 [] p = "last" -> Len(s)
Flip(f, p, bit) == /\ Len(offered[f]) > 0
                   /\ LET s == offered[f]  i == PosIdx(s, p)  b == s[i]
                      IN offered' = [offered EXCEPT ![f] = [s EXCEPT ![i] = <<b[1], b[2], b[3], b[4] ^^ bit>>]]
                   /\ ops' = Append(ops, [op |-> "flip", f |-> f, pos |-> p, bit |-> bit])
TruncBack(f) == /\ Len(offered[f]) > 0
                /\ offered' = [offered EXCEPT ![f] = SubSeq(@, 1, Len(@) - 1)]
                /\ ops' = Append(ops, [op |-> "truncback", f |-> f])
TruncFront(f) == /\ Len(offered[f]) > 0
                 /\ offered' = [offered EXCEPT ![f] = SubSeq(@, 2, Len(@))]
                 /\ ops' = Append(ops, [op |-> "truncfront", f |-> f])
Extend(f, v) == /\ offered' = [offered EXCEPT ![f] = Append(@, <<0, "ext", 0, v>>)]
                /\ ops' = Append(ops, [op |-> "extend", f |-> f, v |-> v])
Prepend(f, v) == /\ offered' = [offered EXCEPT ![f] = <<<<0, "ext", 0, v>>>> \o @]
                 /\ ops' = Append(ops, [op |-> "prepend", f |-> f, v |-> v])
Empty(f) == /\ Len(offered[f]) > 0
            /\ offered' = [offered EXCEPT ![f] = <<>>]
            /\ ops' = Append(ops, [op |-> "empty", f |-> f])
\* field f of the other sealed message (same key) replaces the current one
Splice(f) == /\ offered' = [offered EXCEPT ![f] = IF @ = Orig(2, f) THEN Orig(1, f) ELSE Orig(2, f)]
             /\ ops' = Append(ops, [op |-> "splice", f |-> f])
\* swap the first and the last symbolic unit of the ciphertext (concretely: the first and last 16-byte blocks / bytes)
Reorder == /\ Len(offered.ct) >= 2
           /\ LET s == offered.ct IN offered' = [offered EXCEPT !.ct = [s EXCEPT ![1] = s[Len(s)], ![Len(s)] = s[1]]]
           /\ ops' = Append(ops, [op |-> "reorder"])
\* move the boundary between associated data and ciphertext (last byte of aad becomes first of ct and vice versa)
ShiftBoundary(dir) == /\ IF dir = 1 THEN Len(offered.aad) > 0 ELSE Len(offered.ct) > 0
                      /\ offered' = IF dir = 1 THEN [offered EXCEPT !.aad = SubSeq(@, 1, Len(@) - 1), !.ct = <<offered.aad[Len(offered.aad)]>> \o @]
                                    ELSE [offered EXCEPT !.aad = Append(@, offered.ct[1]), !.ct = SubSeq(@, 2, Len(@))]
                      /\ ops' = Append(ops, [op |-> "shift", dir |-> dir])
OtherKey == /\ offered' = [offered EXCEPT !.key = IF @ = <<"K", 0>> THEN <<"K", 1>> ELSE <<"K", 0>>]
            /\ ops' = Append(ops, [op |-> "otherkey"])
\* the receiver is configured with another tag length and is offered the genuine tag cut to that length
OtherTagLen == /\ offered.maclen = 0 /\ offered' = [offered EXCEPT !.maclen = 1]
               /\ ops' = Append(ops, [op |-> "othertaglen"])
\* Key-wrap modes only: a peer that holds the key but does not follow SP 800-38F wraps an inner block of its own making (the integrity value
\* of KW/KWP lies inside the wrapped string, so mutations of the string never reach the rules behind the first comparison):
\*   single    KW over a single semiblock of key data (W outside its domain: n = 1)          aivswap   the other mode's integrity value
\*   len0 / lenover / lenunder / lenmsb   KWP with a length field of 0, beyond the padded length, a whole semiblock below it, or >= 2^31
\*   padnz     KWP with a non-zero octet in the padding                                     valid     a conforming wrap (positive control)
\* The crafted string is foreign to both sealed messages, so the ideal verdict is "not genuine" (for "valid" the data layer decides).
CraftKinds == {"single", "aivswap", "len0", "lenover", "lenunder", "lenmsb", "padnz", "valid"}
Craft(kind) == /\ offered' = [offered EXCEPT !.ct = <<<<0, "craft", 0, 0>>>>]
               /\ ops' = Append(ops, [op |-> "craft", kind |-> kind])
Next == /\ Len(ops) < MaxOps
        /\ \/ \E f \in FieldSet, p \in {"first", "mid", "last"}, bit \in {1, 128} : Flip(f, p, bit)
           \/ \E f \in FieldSet : TruncBack(f) \/ TruncFront(f) \/ Extend(f, 0) \/ Extend(f, 255) \/ Prepend(f, 0) \/ Empty(f) \/ Splice(f)
           \/ Reorder \/ ShiftBoundary(1) \/ ShiftBoundary(2) \/ OtherKey \/ OtherTagLen
           \/ \E k \in CraftKinds : Craft(k)
Spec == Init /\ [][Next]_vars
\* ideal-MAC verdict: genuine iff every field is that of one and the same sealed message under the sealing key and tag length
Genuine == \E m \in {1, 2} : offered = Sealed(m)
\* sanity of the operator algebra
ReplayAccepted == ops = <<>> => Genuine
SpliceAllIsGenuine == (offered.key = <<"K", 0>> /\ offered.maclen = 0 /\ \A f \in FieldSet : offered[f] = Orig(2, f)) => Genuine
NoForeignByteInGenuine == Genuine => \A f \in FieldSet : \A i \in 1..Len(offered[f]) : offered[f][i][4] = 0 /\ offered[f][i][2] = f
Emit == PrintT(<<"HIST", ToJson([ops |-> ops, genuine |-> Genuine])>>)
=============================================================================
