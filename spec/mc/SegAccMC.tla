------------------------------- MODULE SegAccMC -------------------------------
(* C09, refinement check of the block accumulators (obj/SegAcc) against the abstract object "the concatenation so far":
   every sequence of update() lengths 0..MaxTotal with sum <= MaxTotal (all compositions; zero-length calls included) at a
   small block size, for one accumulator kind.  With EmitHist the module is also the generator of the segmentations
   that are replayed on the real objects: every reachable history is printed (at most MaxZeros empty segments in it).
   For CMAC the copy() path (a new CBC object restarted from _last_ct) is an action of its own. *)
EXTENDS SegAcc, Json
CONSTANTS Kind, BS, LW, MaxTotal, MaxZeros, EmitHist
VARIABLES o, hist, zeros
vars == <<o, hist, zeros>>
Init == o = AccNew /\ hist = <<>> /\ zeros = 0
Update(n) == /\ o.total + n <= MaxTotal
             /\ (EmitHist /\ n = 0) => zeros < MaxZeros
             /\ o' = AccAbsorb(Kind, BS, o, n)
             /\ zeros' = IF EmitHist /\ n = 0 THEN zeros + 1 ELSE zeros
             /\ hist' = IF EmitHist THEN Append(hist, n) ELSE hist
Copy == Kind = "cmac" /\ ~EmitHist /\ o' = CmacCopy(o) /\ UNCHANGED <<hist, zeros>>
Next == (\E n \in 0..MaxTotal : Update(n)) \/ Copy
Spec == Init /\ [][Next]_vars
InvCacheBound == AccCacheBound(Kind, BS, o)
InvPrefix == AccPrefix(Kind, BS, o)
InvChain == AccChain(Kind, BS, o)
\* digest() at any point (it works on a copy of the state, or on nothing but the fields): the blocks are those of the definition
InvRefines == AccRefines(Kind, BS, LW, o)
\* a zero-length update changes nothing
EmptyIsNeutral == [][o'.total = o.total => o' = o]_vars
Emit == EmitHist => PrintT(<<"SEG", ToJson(hist)>>)
=============================================================================
