\* separation: the naive shuffle (swap index drawn from the whole list at every step) must be refused by the fibre count
CONSTANTS NaiveShuffle = TRUE
BW = 4
MaxN = 3
MaxLen = 2
FibreLen = 3
INIT Init
NEXT Next
CHECK_DEADLOCK FALSE
INVARIANTS FibresEqual
