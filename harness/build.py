"""Out-of-tree build of /repo's current working tree (never writes into /repo).

The copy lives in /var/tmp/pcd-verif/<hash of the copied sources>/ ; a cache hit costs a hash of
the tree (<1 s), a miss ~8 s (42 extension modules, -j16).  Stale copies are removed.
"""
import fcntl
import hashlib
import os
import shutil
import subprocess
import sys
import time

REPO = os.environ.get("VERIF_REPO", "/repo")
CACHE = os.environ.get("VERIF_BUILD_CACHE", "/var/tmp/pcd-verif")
PY = os.environ.get("VERIF_PYTHON", "/venv/bin/python")
GUARD = "PYCRYPTODOME_VERIF"

_EXCLUDE_DIRS = {".git", "Doc", "test_vectors", "build", "__pycache__", ".pytest_cache"}


def _tree_files(root):
    out = []
    for d, dirs, files in os.walk(root):
        dirs[:] = sorted(x for x in dirs if x not in _EXCLUDE_DIRS and not x.endswith(".egg-info"))
        for f in sorted(files):
            if f.endswith((".so", ".pyc", ".o")):
                continue
            out.append(os.path.join(d, f))
    return out


def tree_hash(root=REPO):
    h = hashlib.sha256()
    for p in _tree_files(root):
        rel = os.path.relpath(p, root)
        h.update(rel.encode() + b"\0")
        try:
            with open(p, "rb") as f:
                h.update(hashlib.sha256(f.read()).digest())
        except OSError:
            h.update(b"?")
    return h.hexdigest()[:20]


def ensure_build(verbose=False):
    """Return the path of a lib/ directory built from the current /repo working tree."""
    os.makedirs(CACHE, exist_ok=True)
    th = tree_hash()
    dest = os.path.join(CACHE, th)
    lock = open(os.path.join(CACHE, ".lock"), "w")
    fcntl.flock(lock, fcntl.LOCK_EX)
    try:
        stamp = os.path.join(dest, ".built")
        if not os.path.exists(stamp):
            if os.path.exists(dest):
                shutil.rmtree(dest)
            t0 = time.time()
            subprocess.run(
                ["rsync", "-a", "--exclude", ".git", "--exclude", "test_vectors", "--exclude", "Doc",
                 "--exclude", "*.so", "--exclude", "build", "--exclude", "__pycache__",
                 REPO + "/", dest + "/"], check=True)
            r = subprocess.run([PY, "setup.py", "-q", "build_ext", "--inplace", "-j", "16"], cwd=dest,
                               stdout=subprocess.PIPE, stderr=subprocess.STDOUT, text=True)
            if r.returncode != 0:
                sys.stderr.write(r.stdout[-4000:])
                raise RuntimeError("build of the working tree failed")
            shutil.rmtree(os.path.join(dest, "build"), ignore_errors=True)
            open(stamp, "w").write(str(time.time()))
            if verbose:
                print("[build] %s built in %.1fs" % (th, time.time() - t0), file=sys.stderr)
        os.utime(stamp, None)          # mark the build as in use now
        # drop stale builds: never one used in the last three hours (another check may be running on it), and keep the six most recent
        others = []
        for name in os.listdir(CACHE):
            p = os.path.join(CACHE, name)
            if name != th and os.path.isdir(p):
                st = os.path.join(p, ".built")
                others.append((os.path.getmtime(st) if os.path.exists(st) else os.path.getmtime(p), p))
        others.sort(reverse=True)
        now = time.time()
        for mt, p in others[6:]:
            if now - mt > 3 * 3600:
                shutil.rmtree(p, ignore_errors=True)
    finally:
        fcntl.flock(lock, fcntl.LOCK_UN)
        lock.close()
    return os.path.join(dest, "lib")


def driver_env(lib, extra=None):
    env = dict(os.environ)
    env["PYTHONPATH"] = lib + os.pathsep + os.path.dirname(os.path.dirname(os.path.abspath(__file__)))
    env[GUARD] = "1"
    env["PYTHONHASHSEED"] = "0"
    env["PYTHONFAULTHANDLER"] = "1"
    env.pop("PYTHONSTARTUP", None)
    if extra:
        env.update(extra)
    return env


if __name__ == "__main__":
    print(ensure_build(verbose=True))
