"""C13 - encoding layers are bijective on valid data, total and strict on arbitrary bytes."""
import copy
import json
import random
from concurrent.futures import ThreadPoolExecutor

from .. import tlc
from ..core import Machinery

LEVEL = "model_checking"
ALPHABET = [0, 1, 2, 3, 4, 5, 6, 48, 49, 127, 128, 129, 130, 160, 255]
BULK = ("acc", "oth", "encs", "backs", "der", "text", "pemtext", "wrapped", "hist")


def _hex(b):
    return bytes(b).hex()


def _slim(t):
    return {k: v for k, v in t.items() if k not in ("acc", "oth", "encs", "backs", "hist")}


class _SelfChecks(object):
    """binding self-checks (DESIGN 4.4), judged in one TLC batch: every original must be accepted, every corrupted copy rejected"""

    def __init__(self):
        self.items = []

    def add(self, good_trace, corrupt, family):
        if good_trace is None:      # no accepted sample of this family (only possible next to violations, see run())
            return
        good = copy.deepcopy(good_trace)
        bad = corrupt(copy.deepcopy(good_trace))
        n = len(self.items)
        good["tid"] = 2 * n + 1
        bad["tid"] = 2 * n + 2
        self.items.append((family, good, bad))

    def run(self, ctx, module):
        if not self.items:
            return
        traces = [t for _, g, b in self.items for t in (g, b)]
        v, st = tlc.validate_traces(module, traces, shards=8)
        for family, g, b in self.items:
            vg, vb = v[g["tid"]][1], v[b["tid"]][1]
            ok = vg == "ok" and vb != "ok"
            ctx.binding_checks.append({"family": family, "original": vg[:80], "corrupted": vb[:160], "ok": ok})
            if not ok:
                raise Machinery("binding self-check failed for %s: original=%r corrupted=%r" % (family, vg, vb))


def _entry(t):
    k = t["kind"]
    if k in ("dec", "sweep"):
        return t["d"]["cls"] + ".decode"
    if k == "enc":
        return t["d"]["cls"] + ".encode"
    if k == "encints":
        return "DerInteger.encode"
    if k in ("unpad", "unpadsweep"):
        return "Padding.unpad"
    if k == "pad":
        return "Padding.pad"
    if k == "l2b":
        return "number.long_to_bytes"
    if k == "b2l":
        return "number.bytes_to_long"
    if k == "rfc1751":
        return "RFC1751"
    if k in ("key", "keysweep"):
        return t["entry"]
    if k == "wrap":
        return "PKCS8.wrap"
    if k == "pemenc":
        return "PEM.encode"
    return k


def run(ctx):
    quick = ctx.tier == "quick"
    rnd = random.Random(ctx.seed)
    maxlen = 4 if quick else 5
    pool = ThreadPoolExecutor(max_workers=4)
    # recorders that need nothing from the models start right away (they only drive the library and record)
    f_misc = pool.submit(ctx.drive, "c13_codec", ["misc"], {"tid0": 3000000})
    f_keys = pool.submit(ctx.drive, "c13_keys", ["mutants"], {"budget": 3000 if quick else 60000, "tid0": 5000000})
    f_strs = pool.submit(ctx.drive, "c13_keys", ["strings"], {"alphabet": ALPHABET, "maxlen": 3 if quick else 4, "tid0": 7000000})
    # ---------------------------------------------------------------------------------------------------------
    # 1. the specification checks itself: every string up to the bound, every value of the universe
    r_der = ctx.mc("DerMC", "DerMC_quick.cfg" if quick else "DerMC_thorough.cfg", workers=8, timeout=1500)
    decoders = json.loads(tlc.tla_string_to_py(r_der.prints("DECODERS")[0]))
    f_sweep = pool.submit(ctx.drive, "c13_codec", ["sweep"], {"decoders": decoders, "alphabet": ALPHABET, "maxlen": maxlen, "tid0": 0})
    rv = ctx.mc("DerValueMC", "DerValueMC_values.cfg" if quick else "DerValueMC_values_big.cfg", workers=1, timeout=1500)
    cases = [json.loads(tlc.tla_string_to_py(c)) for c in rv.prints("CASE")]
    if len(decoders) < 20 or len(cases) < 5000:
        raise Machinery("the models emitted %d decoder configurations and %d cases" % (len(decoders), len(cases)))
    rnd.shuffle(cases)
    ncases = 2500 if quick else len(cases)
    lo, hi = (-9000, 9000) if quick else (-70000, 70000)
    f_enc = pool.submit(ctx.drive, "c13_codec", ["enc"], {"cases": cases[:ncases], "tid0": 1000000})
    f_ints = pool.submit(ctx.drive, "c13_codec", ["encints"], {"lo": lo, "hi": hi, "chunk": 1000, "tid0": 2000000})
    short = [c for c in cases if len(c["enc"]) <= 300]
    f_mut = pool.submit(ctx.drive, "c13_codec", ["mutdec"], {"cases": short[:600 if quick else 5000], "per_case": 16 if quick else 30, "tid0": 10000000})
    ctx.mc("DerValueMC", "DerValueMC_ints_quick.cfg" if quick else "DerValueMC_ints.cfg", workers=8, timeout=1500)
    ctx.mc("PaddingMC", "PaddingMC_quick.cfg" if quick else "PaddingMC_thorough.cfg", workers=8, timeout=1500)
    ctx.exhaustive = True
    ctx.extra["exhaustive_over"] = ("the string universes of DerMC and PaddingMC and the value universes of DerValueMC (model checking and, for the "
                                    "strings and the integers, the real decoders/encoders); mutations of real key files are a seeded sample in "
                                    "the quick tier and all single-element mutations in the thorough tier")

    # ---------------------------------------------------------------------------------------------------------
    # 2. code -> spec: every recorded outcome is judged by TLC
    def report(t, clause, witness=None, n=None):
        if clause.startswith("harness:"):
            raise Machinery("recorder inconsistency (%s): %s in %r" % (_entry(t), clause, {k: v for k, v in _slim(t).items() if k not in BULK}))
        entry = _entry(t)
        if t["kind"] == "pemenc" and clause.startswith("rejected"):
            entry = "PEM.decode"
        detail = {"entry": entry, "kind": t["kind"], "recorded_outcome": t.get("out"), "raised_in": t.get("fn")}
        for k in ("d", "style", "bs", "fmt", "mut", "mutd", "path", "armour", "pass", "where", "blocksize"):
            if k in t:
                detail[k] = t[k]
        s = witness if witness is not None else t.get("s", t.get("der"))
        if t.get("armour") == "text":
            s = t.get("text", t.get("line", s))
        if s is not None:
            detail["input_hex"] = _hex(s)[:4000]
        if n is not None:
            detail["strings_in_this_class"] = n
            detail["universe"] = {"alphabet": t["alphabet"], "maxlen": t["maxlen"], "prefix": t["prefix"]}
        rep = _slim(t)
        if witness is not None:
            rep = {"kind": "dec" if t["kind"] == "sweep" else t["kind"], "s": witness, "d": t.get("d"), "entry": entry,
                   "style": t.get("style"), "bs": t.get("bs"), "pass": t.get("pass")}
        ctx.violation("%s: %s" % (entry, clause), detail, replay=rep)

    def judge(traces, family):
        rnd.shuffle(traces)                        # spread the expensive records over the shards
        verdicts = ctx.validate("CodecTrace", traces, family=family, timeout=3000)
        for t in traces:
            pos, clause = verdicts[t["tid"]]
            if clause == "ok":
                continue
            if t["kind"] in ("sweep", "unpadsweep", "keysweep"):
                for m in json.loads(clause):
                    report(t, m["clause"], witness=m["s"], n=m["n"])
            else:
                report(t, clause)
        return verdicts

    # 2a. exhaustive universes: the recorders enumerated the universes of DerMC / PaddingMC (and the same strings into the
    #     high-level entry points); TLC enumerates them again and judges every string
    sw = f_sweep.result()
    misc = f_misc.result()
    strs = f_strs.result()
    usw = [t for t in misc if t["kind"] == "unpadsweep"]
    misc = [t for t in misc if t["kind"] != "unpadsweep"]
    judge(sw + usw + strs, "exhaustive-universes")
    nstr = sum(t["n"] for t in sw)
    ctx.count(nstr + sum(t["n"] for t in usw) + sum(t["n"] for t in strs))
    accepted = 0
    for t in sw:
        accepted += len(t["acc"])
        for a in t["acc"]:
            ctx.nontriv([t["d"], a["s"]])
    for t in usw:
        for a in t["acc"]:
            ctx.nontriv(["unpad", t["style"], t["bs"], a["s"]])
    ctx.extra["der_sweep"] = {"strings_per_decoder": nstr // len(decoders), "decoder_configurations": len(decoders),
                              "decoder_calls": nstr, "accepted": accepted, "alphabet": ALPHABET, "maxlen": maxlen}
    ctx.extra["unpad_sweep"] = {"calls": sum(t["n"] for t in usw), "accepted": sum(len(t["acc"]) for t in usw),
                                "alphabet": usw[0]["alphabet"], "maxlen": max(t["maxlen"] for t in usw), "block_sizes": [1, 2, 3, 4, 5]}
    # 2b. recorded calls: encoders on the value universe TLC enumerated, decoders on grammar-aware mutations of those encodings;
    #     padding, integer conversion, RFC 1751, PEM.encode, PKCS8.wrap; key files (mutated exports, OpenSSH, PEM texts, PBES)
    low = f_enc.result() + f_ints.result() + f_mut.result()
    keys = f_keys.result()
    v_all = judge(low + misc + keys, "recorded-calls")
    v_low = v_misc = v_keys = v_all
    n_mut = 0
    for t in low:
        if t["kind"] == "encints":
            ctx.count(t["hi"] - t["lo"] + 1)
            ctx.nontriv(["encints", t["lo"], t["hi"]])
        else:
            ctx.count()
            n_mut += t["kind"] == "dec"
            if t["out"] == "ok":
                ctx.nontriv([t["kind"], t["d"], t.get("v"), t.get("s")])
    ctx.extra["der_values"] = {"composite_values_encoded": sum(1 for t in low if t["kind"] == "enc"), "integers_encoded": [lo, hi],
                               "mutated_encodings_decoded": n_mut}
    kinds = {}
    for t in misc:
        ctx.count()
        kinds[t["kind"]] = kinds.get(t["kind"], 0) + 1
        if t.get("out") == "ok":
            ctx.nontriv([t["kind"], {k: v for k, v in t.items() if k not in ("tid",)}])
    ctx.extra["misc_calls"] = kinds
    per_entry = {}
    for t in keys:
        ctx.count()
        e = per_entry.setdefault(t["entry"], {"calls": 0, "accepted": 0, "short_strings": 0})
        e["calls"] += 1
        if t["out"] == "ok":
            e["accepted"] += 1
            ctx.nontriv([t["entry"], t.get("der"), t.get("text"), t.get("line"), t["pass"]])
    for t in strs:
        per_entry.setdefault(t["entry"], {"calls": 0, "accepted": 0, "short_strings": 0})["short_strings"] += t["n"]
    ctx.extra["key_file_calls"] = per_entry
    ctx.extra["key_file_mutation_classes"] = len(set(t["mut"] for t in keys))

    # ---------------------------------------------------------------------------------------------------------
    # OpenSSL-encrypted PEM blocks for every documented cipher name (the library writes only DES-EDE3-CBC): opened by the specification itself
    lt = ctx.drive("c13_pemlegacy", [], inp={"tid0": 700000})["traces"]
    lv = ctx.validate("PemLegacyTrace", lt, shards=8, family="pem-legacy-encryption", timeout=1800)
    lgood = None
    algs = {}
    for t in lt:
        ctx.count()
        ctx.nontriv(["pemlegacy", t["algo"], t["pw"], t["iv"], t["ct"]])
        algs[t["algo"]] = algs.get(t["algo"], 0) + 1
        clause = lv[t["tid"]][1]
        if clause == "ok":
            if lgood is None and len(t["data"]) > 8 and t["algo"].startswith("AES"):
                lgood = t
            continue
        if clause.startswith("harness:"):
            raise Machinery("harness inconsistency in legacy PEM trace %d (%s): %s" % (t["tid"], t["algo"], clause))
        ctx.violation("PEM.decode: %s" % clause, {"cipher": t["algo"], "passphrase_hex": bytes(t["pw"]).hex(), "pem": t["text"], "data_hex": bytes(t["data"]).hex()[:200],
                                                  "decode": t["out"], "without_passphrase": t["nopass"], "import_key": t["imp"]}, replay=t)
    ctx.extra["openssl_encrypted_pem_blocks"] = algs
    if lgood is None:
        if not ctx.violations:
            raise Machinery("no accepted legacy PEM trace for the binding self-check")
    else:
        def flip_got(t):
            t["got"][0] ^= 1
            return t
        ctx.binding_selfcheck("PemLegacyTrace", lgood, flip_got, "pem-legacy: one bit of the decoded data")

    # ---------------------------------------------------------------------------------------------------------
    # samples
    def first(ts, vs, pred):
        return next((t for t in ts if vs[t["tid"]][1] == "ok" and pred(t)), None)
    e0 = first(low, v_low, lambda t: t["kind"] == "enc" and t["d"]["cls"] == "DerSequence" and len(t["v"]["m"]) == 3)
    d0 = first(low, v_low, lambda t: t["kind"] == "dec" and t["out"] == "ValueError" and t["mut"] == "len-nonminimal")
    d1 = first(low, v_low, lambda t: t["kind"] == "dec" and t["out"] == "ok" and (t["d"]["cls"] == "DerOctetString" or (t["d"]["cls"] == "DerBitString" and t["v"]["bits"])))   # no tolerance applies
    u0 = first(misc, v_misc, lambda t: t["kind"] == "unpad" and t["out"] == "ok" and t["bs"] == 16 and len(t["v"]) > 2)
    u1 = first(misc, v_misc, lambda t: t["kind"] == "unpad" and t["out"] == "ValueError" and t["bs"] == 16)
    p0 = first(misc, v_misc, lambda t: t["kind"] == "pemenc" and not t["enc"] and len(t["data"]) > 48)
    w0 = first(misc, v_misc, lambda t: t["kind"] == "wrap" and not t["enc"] and t["params"]["k"] == "null" and len(t["key"]) > 4)
    k0 = first(keys, v_keys, lambda t: t["entry"] == "PKCS8.unwrap" and not t["pass"] and t["out"] == "ok" and t["mut"] == "unmodified")
    k1 = first(keys, v_keys, lambda t: t["entry"] == "RSA.import_key" and t["mut"] == "len-nonminimal" and t["strictable"] and t["out"] == "ValueError")
    k2 = first(keys, v_keys, lambda t: t["entry"] == "PEM.decode" and t["out"] == "ok" and t["mut"] == "pem-valid")
    # a sample can only be missing because the library misbehaves on that family; then the violations are the result
    for name, t in (("enc", e0), ("dec-rejected", d0), ("dec-accepted", d1), ("unpad-ok", u0), ("unpad-rejected", u1), ("pemenc", p0),
                    ("wrap", w0), ("unwrap", k0), ("key-strict", k1), ("pem-decode", k2)):
        if t is None and not ctx.violations:
            raise Machinery("no accepted sample trace of family %s" % name)

    def sample(t, f):
        if t is not None:
            ctx.sample(f(t), cap=12)
    sample(e0, lambda t: {"family": "der-encode", "decoder": t["d"], "value": t["v"], "encoding": _hex(t["enc"]), "tlc_verdict": "ok"})
    sample(d0, lambda t: {"family": "der-decode", "decoder": t["d"], "mutation": t["mut"], "input": _hex(t["s"]), "real_outcome": t["out"], "tlc_verdict": "ok"})
    sample(d1, lambda t: {"family": "der-decode", "decoder": t["d"], "mutation": t["mut"], "input": _hex(t["s"]), "real_outcome": t["out"],
                          "value": t["v"], "tlc_verdict": "ok"})
    sample(u1, lambda t: {"family": "unpad", "style": t["style"], "block_size": 16, "input": _hex(t["s"]), "real_outcome": t["out"], "tlc_verdict": "ok"})
    sample(k1, lambda t: {"family": "key-file", "entry": t["entry"], "format": t["fmt"], "mutation": t["mut"], "path": t["path"],
                          "real_outcome": t["out"], "tlc_verdict": "ok"})
    sample(k0, lambda t: {"family": "key-file", "entry": t["entry"], "format": t["fmt"], "mutation": t["mut"], "real_outcome": t["out"],
                          "oid_arcs": t["v"]["arcs"], "tlc_verdict": "ok"})

    # ---------------------------------------------------------------------------------------------------------
    # 3. binding self-checks: a falsified record must be rejected by the judge
    # a small universe without the octet 0x80 (F1) so that the unmodified record is accepted on the unfixed tree too
    sc = ctx.drive("c13_codec", ["sweep"], inp={"decoders": [d for d in decoders if d["cls"] == "DerBoolean" and d["exp"] < 0],
                                                 "alphabet": [0, 1, 2, 127, 129, 255], "maxlen": 4, "tid0": 900000})
    vsc, _ = tlc.validate_traces("CodecTrace", sc, shards=2)
    ok_sweep = next((t for t in sc if vsc[t["tid"]][1] == "ok" and len(t["acc"]) >= 2), None)
    if ok_sweep is None and not ctx.violations:
        raise Machinery("no accepted sample sweep record")

    def drop_accepted(t):
        del t["acc"][0]
        return t

    def flip_value(t):
        t["acc"][0]["v"]["b"] = not t["acc"][0]["v"]["b"]
        return t

    def add_other(t):
        t["oth"].append({"s": t["acc"][0]["s"][:2], "exc": "IndexError", "fn": "asn1._decodeLen"})
        return t

    def set_(**kw):
        def f(t):
            t.update(kw)
            return t
        return f

    def flip_last(field):
        def f(t):
            t[field][-1] ^= 1
            return t
        return f
    sc_ = _SelfChecks()
    sc_.add(ok_sweep, drop_accepted, "der-sweep: an accepted string reported as ValueError")
    sc_.add(ok_sweep, flip_value, "der-sweep: decoded value")
    sc_.add(ok_sweep, add_other, "der-sweep: an undocumented exception class")
    sc_.add(e0, flip_last("enc"), "der-encode: one bit of the encoding")
    sc_.add(d0, set_(out="ok", v={"m": []}), "der-decode: rejected -> accepted")
    sc_.add(d1, set_(out="ValueError", v=0), "der-decode: accepted -> ValueError")
    sc_.add(d1, set_(out="TypeError", v=0, fn="asn1.decode"), "der-decode: exception class")
    sc_.add(u0, flip_last("v"), "unpad: one bit of the data")
    sc_.add(u1, set_(out="ok", v=[]), "unpad: rejected -> accepted")
    sc_.add(p0, flip_last("text"), "pem-encode: one character of the armour")
    sc_.add(w0, flip_last("wrapped"), "pkcs8-wrap: one bit of the container")
    sc_.add(k0, lambda t: dict(t, v=dict(t["v"], key=t["v"]["key"][:-1])), "pkcs8-unwrap: returned key")
    sc_.add(k1, set_(out="ok", v={"type": "RsaKey", "private": True}), "key-file: non-minimal length -> accepted")
    sc_.add(k1, set_(out="KeyError", fn="RSA.import_key"), "key-file: exception class")
    sc_.add(k1, set_(kdf=1), "key-file: key derivation without passphrase")
    sc_.add(k2, set_(out="ValueError", v=0), "pem-decode: canonical block rejected")
    sc_.run(ctx, "CodecTrace")
    pool.shutdown()
    ctx.rule = ("(i) every byte string of length <= %d over the 15-octet alphabet {00..06,30,31,7f,80,81,82,a0,ff} into %d configurations "
                "of the nine Der* classes (strict on/off, IMPLICIT/EXPLICIT tags, nr_elements, only_ints_expected); every string of length "
                "<= %d over {00..04,80,ff} into unpad for three styles and block sizes 1..5; every string of length <= %d over the 15-octet "
                "alphabet into RSA/DSA/ECC.import_key and PKCS8.unwrap with and without passphrase; (ii) the value universe of "
                "spec/mc/DerValueMC (TLC-enumerated) through the real encoders, integers %d..%d, grammar-aware mutations (length forms, "
                "identifier octets, content, drop/duplicate/replace an element) of those encodings and of real exported RSA/DSA/ECC keys "
                "in every format (PKCS#1, PKCS#8 clear and PBES2, SPKI, X.509-shaped, RFC 5915, PEM, OpenSSH public and private) into "
                "the decoders; padding at real block sizes, long_to_bytes/bytes_to_long, RFC 1751, PEM.encode and PKCS8.wrap round trips; "
                "distinct_nontrivial = distinct accepted (decoder, input) pairs"
                % (maxlen, len(decoders), 5 if quick else 6, 3 if quick else 4, lo, hi))
    ctx.assume("the transcriptions in spec/obj/DerDecoder*.tla and spec/data/{Padding,PemCodec}.tla are right; they are pinned by X.690 8.19.5, "
               "RFC 4648 section 10 and encodings produced with OpenSSL 3.5 as ASSUMEs, and by the grammar/parser and definition/one-pass "
               "equivalences checked exhaustively in spec/mc/DerMC and spec/mc/PaddingMC")
    ctx.assume("named tolerances (DerDecoder.tla): single-octet identifiers, non-strict INTEGER without content or with redundant leading "
               "octets, redundant 0xff octets also in strict mode, NULL with content, BIT STRING without initial octet, OBJECT IDENTIFIER with a "
               "dangling continuation octet or a padded arc, unordered SET OF: there the judge accepts the value or ValueError")
    ctx.assume("'in time bounded by the input size' is not observed; only the absence of a password-based key derivation on the "
               "no-passphrase path is. PBES/PEM decryption is judged by round trip and structure, not recomputed. RFC 1751 is an "
               "uninterpreted bijection. import_key return values are judged for totality and strictness only (their equality with the "
               "exported key is C08)")
