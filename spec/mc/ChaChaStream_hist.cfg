CONSTANTS CMAX = 6
WLO = 3
KS = 2
MaxCalls = 4
Sticky = TRUE
EmitHist = TRUE
INIT Init
NEXT Next
INVARIANT Emit
CHECK_DEADLOCK FALSE
