#!/bin/bash
# runs every registered check at one tier, sequentially, with evidence and replays redirected (does not touch /verif/evidence)
# usage: harness/run_all.sh quick|thorough [out-dir] [ids...]
tier=${1:-quick}; out=${2:-/var/tmp/pcd-verif-runall}; shift; shift
ids=${@:-$(/venv/bin/python -c "import json; print(' '.join(c['property_id'] for c in json.load(open('MANIFEST.json'))['checks']))")}
mkdir -p "$out"
for p in $ids; do
  s=$(date +%s)
  VERIF_EVIDENCE_DIR="$out" VERIF_REPLAY_DIR="$out" ./check $p --tier $tier > "$out/$p.$tier.log" 2>&1
  rc=$?
  echo "$p tier=$tier rc=$rc wall=$(( $(date +%s) - s ))s $(grep -c '^VIOLATION' "$out/$p.$tier.log") violations $(grep -c '^KNOWN-FINDING' "$out/$p.$tier.log") known"
done
