\* real sizes (k = 64, 65, 96, 128): representative positions, DB patterns for SHA-1 / SHA-256; every message length 0..max+1 for the round trips
CONSTANTS V15Ks = {64, 65, 96, 128}
FullBelow = 16
OaepKHs <- RealOaepKHs
DbKHs <- RealDbKHs
ShortKHs <- RealShortKHs
Rt15Ks = {64, 65, 96, 128}
RtOaepKHs <- RealRtOaepKHs
RtAll = TRUE
Emit = TRUE
INIT Init
NEXT Next
INVARIANTS Sound EmitInv
CHECK_DEADLOCK FALSE
