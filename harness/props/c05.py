"""C05 - keys from generate / construct / import_key satisfy the invariants of their type; inputs violating them are refused.

1. sys/KeyPipeline is explored exhaustively by TLC (mc/KeyPipelineMC): every toy key of every type (RSA, DSA, ElGamal, Weierstrass, Edwards,
   Montgomery) in every form / format with no, one or two ordered component corruptions; invariants: the documented validation relations
   decide exactly what the key is for (Sound, Complete).  A weakened pipeline (range check of coordinates forgotten: the shape of F19) must
   violate Sound.
2. Every submitted case TLC printed (CASE) is concretised on real keys (drivers/c05_keys.py cases): all single corruptions and a tier- and
   seed-dependent sample of the double ones, spread over fixed and generated RSA keys, four DSA domains, two ElGamal groups and the nine curves;
   generate() of the four key types is driven with a deterministic entropy tape (drivers/c05_keys.py generate).
3. TLC judges every record with trace/KeyTrace: validity of the offered components is COMPUTED in the data layer (data/KeyInvariants, certified
   relations with untrusted witnesses) and compared with the outcome; a returned key is judged on its own components."""
import copy
import json
import random
import re
import time
from concurrent.futures import ThreadPoolExecutor

from .. import core, tlc

LEVEL = "model_checking"

NIST = ["P-192", "P-224", "P-256", "P-384", "P-521"]
WS_BITS = {"P-192": 192, "P-224": 224, "P-256": 256, "P-384": 384, "P-521": 521}
# Cost model of the judge, in milliseconds of one TLC worker on an idle core (calibrated on a sample of 2 600 records per family): a record
# costs REC_MS (deserialisation, range checks, short products) plus its certified chains: per link of a scalar multiple, per step of the
# RFC 7748 ladder, per link of a modular power (two products of the size of the modulus)
REC_MS = 90
LINK_MS = {"P-192": 13, "P-224": 16, "P-256": 18, "P-384": 29, "P-521": 39, "Ed25519": 15, "Ed448": 45}
LADDER_MS = {"Curve25519": 255 * 29, "Curve448": 448 * 46}
DSA_KIDS = {"toy": (17, 24), "d512": (160, 512), "d1024": (160, 1024), "d2048": (256, 2048)}       # bits of q, bits of p
RSA_MS = {"fix512": 70, "fix512r": 70, "fix768": 100, "gen1024": 165}


def _note(t0, msg):
    print("[c05 %5.0fs] %s" % (time.time() - t0, msg), flush=True)


def chain_ms(ebits, pbits):
    """square-and-multiply chain of g^e mod p: 3/2 links per bit of e"""
    return int(1.5 * ebits * (1.2 + (pbits / 100.0) ** 2 / 12.5))


# ------------------------------------------------------------------------------------------ concretisation of the model's cases
def needs_private_chain(case, seed_forms):
    """does the judge have to certify (private scalar) * G for this case?  (read off the model's verdict: a key, or the failure of exactly that relation)"""
    return case["form"] in seed_forms and (case["why"] == "" or "*G" in case["why"])


def concretise(case, n, rnd, quick):
    """one model case -> (driver item without cid, estimated TLC milliseconds).  n = a running number used to rotate over the real keys"""
    ty, corr, form = case["ty"], case["corr"], case["form"]
    item = {"ty": ty, "form": form, "corr": corr, "cls": case["cls"] if case["cls"] != "n/a" else "", "why": case["why"], "mbase": case["base"],
            "variant": "pem" if (n // 3) % 2 else "der"}
    if ty == "rsa":
        # base 3 of the model has p > q: the reversed fixed key; the others rotate over the fixed and the generated keys
        if case["base"] == 3:
            kid = "fix512r"
        else:
            kid = ["fix512", "fix768", "gen1024", "fix512", "fix768", "fix512"][n % 6] if quick else ["fix512", "fix768", "gen1024"][n % 3]
        item["kid"] = kid
        return item, RSA_MS[kid]
    if ty == "dsa":
        priv = form in ("construct:priv", "import:openssl", "import:pkcs8")
        if quick:
            kid = ["toy", "toy", "d512", "toy", "toy", "d1024", "toy", "toy", "d512", "toy", "toy", "toy"][n % 12]
        else:
            kid = ["toy", "d512", "d1024", "d512", "d1024", "d2048" if n % 36 == 5 else "d1024"][n % 6]
        item["kid"] = kid
        eb, pb = DSA_KIDS[kid]
        return item, 2 * REC_MS + chain_ms(eb, pb) * (2 if priv else 1)
    if ty == "elgamal":
        kid = ["eg128", "eg256"][n % 2]
        item["kid"] = kid
        return item, REC_MS + (chain_ms(128 if kid == "eg128" else 256, 128 if kid == "eg128" else 256) if form == "construct:priv" else 0)
    if ty == "ws":
        # ws19 (room for x + p in the encoding) stands for P-521, ws31 for the curves whose prime fills its octets; construct() takes integers of any size
        model_curve = "ws31" if case["base"] == 2 else "ws19"
        if form.startswith("construct") or "x+p" not in corr and "y+p" not in corr:
            name = NIST[n % 5]
        else:
            name = "P-521" if model_curve == "ws19" else NIST[n % 4]
        if form == "import:openssh" and name in ("P-192", "P-224"):
            name = ["P-256", "P-384", "P-521"][n % 3]
        size = "one" if case["base"] == 3 else "short"
        hasd = form in ("construct:d", "construct:dQ", "import:sec1", "import:sec1Q", "import:pkcs8", "import:pkcs8Q")
        full = hasd and "d=n-1,Q" in corr
        if hasd and not full and size == "short" and not quick and n % 40 == 7:
            size = "full"
        item["kid"] = "%s/%s/%d" % (name, size, n % 3)
        # after "wrong curve" the key is judged on the other curve
        links = 0
        if hasd and (case["why"] == "" or "*G" in case["why"]):
            links = int(1.5 * WS_BITS[name]) if (full or size == "full") else 0 if size == "one" else 18
        return item, REC_MS + links * LINK_MS[name]
    if ty == "ed":
        name = "Ed448" if n % 4 == 3 else "Ed25519"
        if form == "import:openssh":
            name = "Ed25519"
        item["kid"] = "%s/seed/%d" % (name, n % 3)
        ms = REC_MS
        if needs_private_chain(case, ("construct:seed", "construct:seedQ", "import:pkcs8")):
            ms += int(1.5 * (253 if name == "Ed25519" else 447)) * LINK_MS[name]
        return item, ms
    if ty == "mt":
        name = "Curve25519" if case["base"] == 1 else "Curve448"
        item["kid"] = "%s/seed/%d" % (name, n % 3)
        ms = REC_MS + 30
        if needs_private_chain(case, ("construct:seed", "construct:seedQ", "import:pkcs8")):
            ms += LADDER_MS[name]
        return item, ms
    raise core.Machinery("unknown type %r in a model case" % ty)


def mr_ms(bits):
    """one certified Miller-Rabin round to base 2 on a number of that size"""
    return chain_ms(bits, bits) + 50


def deep_ms(item):
    """extra cost of looking at the primality of a RETURNED key's primes more closely (deep = TRUE)"""
    if item["ty"] == "rsa":
        half = {"fix512": 256, "fix512r": 256, "fix768": 384, "gen1024": 512}[item["kid"]]
        return 2 * mr_ms(half)
    if item["ty"] == "dsa":
        eb, pb = DSA_KIDS[item["kid"]]
        return mr_ms(pb) + mr_ms(eb) if pb > 24 else 0
    if item["ty"] == "elgamal":
        return mr_ms(128 if item["kid"] == "eg128" else 256)
    return 0


# cases that are always recorded, whatever the seed: the shapes of the defects found during the design (F11, F18, F19) on every curve, and one
# record of every shape the binding self-checks falsify.  (type, base of the model, form, corruptions, real key)
def anchors():
    out = []
    for name in NIST:
        kid = name + "/short/%d"
        for form in ("construct:pub", "import:spki", "import:raw"):
            out.append(("ws", 1 if form.startswith("construct") or name == "P-521" else 2, form, ["neutral"], kid))
        for corr in (["x+p"], ["y+p"]):
            out.append(("ws", 1, "construct:pub", corr, kid))
            out.append(("ws", 1, "construct:dQ", corr, kid))
    for corr in (["x+p"], ["y+p"]):
        out.append(("ws", 1, "import:spki", corr, "P-521/short/%d"))
    # the point with the smallest abscissa: x + p (and y + p where y is small) still fit the coordinate width of every curve
    for name in NIST:
        out.append(("ws", 1, "construct:pub", ["x+p"], name + "/tiny/%d"))
        out.append(("ws", 1, "construct:pub", [], name + "/tiny/%d"))
    out.append(("ws", 1, "import:spki", ["x+p"], "P-256/tiny/%d"))
    out.append(("ws", 1, "import:spki", ["x+p"], "P-384/tiny/%d"))
    for form, corr in (("construct:d", []), ("construct:dQ", []), ("import:spki", ["y+1"]), ("import:pkcs8Q", [])):
        out.append(("ws", 2, form, corr, "P-256/short/%d"))
    for name in ("Ed25519", "Ed448"):
        for corr in (["x+p"], ["y+p"], ["(0,p+1)"], ["neutral", "x+p"], ["order 2", "x+p"]):         # the last two: (p, 1) and (p, p-1)
            out.append(("ed", 1, "construct:pub", corr, name + "/seed/%d"))
        out.append(("ed", 1, "import:spki", ["(0,p+1)"], name + "/seed/%d"))
        out.append(("ed", 1, "import:spki", [], name + "/seed/%d"))
    out.append(("ed", 1, "construct:seed", [], "Ed25519/seed/%d"))
    for name in ("Curve25519", "Curve448"):
        base = 1 if name == "Curve25519" else 2
        out.append(("mt", base, "construct:seedQ", ["u foreign"], name + "/seed/%d"))
        for corr in ([], ["u=0"], ["u=p+1"], ["u+p"]):
            out.append(("mt", base, "construct:pub", corr, name + "/seed/%d"))
    for kid in ("fix512", "fix768"):
        for form, corr in (("construct:nedpq", []), ("construct:ned", []), ("construct:nedpqu", ["d+1"]), ("import:pkcs1", []), ("import:spki", []), ("import:pkcs8", ["d+1"])):
            out.append(("rsa", 1, form, corr, kid))
    for kid in ("toy", "d512"):
        for form, corr in (("construct:priv", []), ("construct:priv", ["y+1"]), ("import:openssl", []), ("import:spki", [])):
            out.append(("dsa", 1, form, corr, kid))
    for form, corr in (("construct:priv", []), ("construct:pub", ["p+4"]), ("construct:priv", ["p+4"])):
        out.append(("elgamal", 1, form, corr, "eg128"))
    return out


BUDGET_S = {   # estimated seconds of one TLC worker per type: (records without a long chain, records with one)
    "quick": {"rsa": (85, 6), "dsa": (30, 14), "elgamal": (16, 0), "ws": (70, 18), "ed": (14, 45), "mt": (14, 45)},
    "thorough": {"rsa": (800, 200), "dsa": (250, 700), "elgamal": (220, 0), "ws": (1000, 350), "ed": (200, 750), "mt": (230, 750)},
}
SINGLE_SHARE = 0.7      # quick tier: the cases with at most one corruption may use this share of the budget of the records without a long chain
HEAVY_MS = 1500


def anchor_ms(it, c):
    """estimate for an item whose real key was chosen by hand"""
    ty, kid = it["ty"], it["kid"]
    name = kid.split("/")[0]
    chain = c["why"] == "" or "*G" in c["why"]
    if ty == "rsa":
        return RSA_MS[kid]
    if ty == "dsa":
        return 2 * REC_MS + chain_ms(*DSA_KIDS[kid]) * (2 if it["form"] in ("construct:priv", "import:openssl", "import:pkcs8") else 1)
    if ty == "elgamal":
        return REC_MS + (chain_ms(128, 128) if it["form"] == "construct:priv" else 0)
    if ty == "ws":
        return REC_MS + (18 * LINK_MS[name] if chain and it["form"] in ("construct:d", "construct:dQ", "import:sec1", "import:sec1Q", "import:pkcs8", "import:pkcs8Q") else 0)
    if ty == "ed":
        return REC_MS + (int(1.5 * (253 if name == "Ed25519" else 447)) * LINK_MS[name] if chain and "seed" in it["form"] else 0)
    return REC_MS + 30 + (LADDER_MS[name] if chain and "seed" in it["form"] else 0)


def plan_cases(cases, ctx, rnd):
    """(items for `c05_keys.py cases`, statistics).  Every case with at most one corruption of the cheap kind is taken; the double ones and the
    ones that need a long certified chain are sampled, by the seed, up to the budget of their type."""
    quick = ctx.tier == "quick"
    budget = {ty: [1000.0 * a, 1000.0 * b] for ty, (a, b) in BUDGET_S[ctx.tier].items()}
    index = {}
    for c in cases:
        index[(c["ty"], c["base"], c["form"], tuple(c["corr"]))] = c
    order = list(range(len(cases)))
    rnd.shuffle(order)
    order.sort(key=lambda i: min(len(cases[i]["corr"]), 2) >= 2)        # stable: no / one corruption first
    items = []
    stats = {"model_cases": len(cases), "taken": {}, "not_taken_for_budget": {}}
    off = rnd.randrange(1 << 16)

    def take(it, ms, ty, what):
        it["cid"] = len(items) + 1
        it["est"] = ms
        items.append(it)
        stats["taken"][what] = stats["taken"].get(what, 0) + 1

    # anchors first (charged to the budgets)
    for ty, base, form, corr, kid in anchors():
        c = index.get((ty, base, form, tuple(corr)))
        if c is None:
            raise core.Machinery("the model has no case %r" % ((ty, base, form, corr),))
        it, _ = concretise(c, off + len(items), rnd, quick)
        it["kid"] = kid % ((off + len(items)) % 3) if "%d" in kid else kid
        ms = anchor_ms(it, c)
        it["anchor"] = True
        budget[ty][1 if ms >= HEAVY_MS else 0] -= ms
        take(it, ms, ty, "anchors")
    deep_every = 23 if quick else 4
    for pos, i in enumerate(order):
        c = cases[i]
        ty = c["ty"]
        it, ms = concretise(c, off + pos, rnd, quick)
        if len(c["corr"]) >= 2 and "wrong curve" in c["corr"] and c["corr"] != ["wrong curve", "wrong curve"]:
            it["cls"] = ""          # the toy curves are not ordered like any pair of real curves: the model's class is not carried over
        if c["cls"] == "key" and ty in ("rsa", "dsa", "elgamal") and (off + pos) % deep_every == 0 and (not quick or it["kid"] in ("fix512", "fix512r", "toy", "d512", "eg128")):
            it["deep"] = True
            ms += deep_ms(it)
        b = 1 if ms >= HEAVY_MS else 0
        floor = (1 - SINGLE_SHARE) * 1000.0 * BUDGET_S[ctx.tier][ty][0] if quick and b == 0 and len(c["corr"]) < 2 else 0.0
        if budget[ty][b] - floor < ms:
            k = "%s/%s" % (ty, "long chain" if b else "double corruption" if len(c["corr"]) >= 2 else "single corruption")
            stats["not_taken_for_budget"][k] = stats["not_taken_for_budget"].get(k, 0) + 1
            continue
        budget[ty][b] -= ms
        take(it, ms, ty, "%s/%d" % (ty, min(len(c["corr"]), 2)))
    return items, stats


def plan_generate(ctx, rnd, cid0):
    quick = ctx.tier == "quick"
    g = []
    odd = 1025 + 2 * rnd.randrange(0, 30)
    if quick:
        g += [{"what": "rsa", "bits": 1024, "e": 65537, "deep": True}, {"what": "rsa", "bits": odd, "e": rnd.choice([3, 5, 17, 257])},
              {"what": "rsa", "bits": rnd.choice([1024, 1088, 1280]), "e": rnd.choice([3, 65537, (1 << 32) + 1])},
              {"what": "rsa", "bits": rnd.choice([512, 768, 1023]), "e": 65537}, {"what": "rsa", "bits": 1024, "e": rnd.choice([2, 4, 65536, 1, 0])}]
        g += [{"what": "dsa", "bits": 1024}, {"what": "dsa", "bits": rnd.choice([512, 1000, 1088, 4096])},
              {"what": "dsa-domain", "bits": 1024, "kid": "d1024", "corr": []}, {"what": "dsa-domain", "bits": 512, "kid": "d512", "corr": []},
              {"what": "dsa-domain", "bits": 2048, "kid": "d1024", "corr": []},
              {"what": "dsa-domain", "bits": 1024, "kid": "d1024", "corr": [rnd.choice(["g=1", "g=p-1", "g+p"])]},
              {"what": "dsa-domain", "bits": 1024, "kid": "d1024", "corr": [rnd.choice(["q:=other prime", "q:=2q", "p+2q", "p composite,consistent"])]},
              {"what": "dsa-domain", "bits": 1024, "kid": "d1024", "corr": [rnd.choice(["p=0", "q=0"])]}]
        # boundary entropy: the first octets the key-pair sampler reads are order - 1 / order / all ones / zeros
        g += [{"what": "dsa-domain", "bits": 1024, "kid": "d1024", "corr": [], "tape": "order-1"},
              {"what": "dsa-domain", "bits": 1024, "kid": rnd.choice(["d1024", "d512"]), "corr": [], "tape": rnd.choice(["order", "order-2", "ones", "zeros", "one"])},
              {"what": "ecc", "curve": rnd.choice(["P-192", "P-224", "P-256"]), "tape": "order-1"},
              {"what": "ecc", "curve": rnd.choice(["P-192", "P-224", "P-256"]), "tape": rnd.choice(["order", "ones", "zeros", "one", "order-2"])}]
        g += [{"what": "elgamal", "bits": rnd.choice([161, 168, 176, 184, 192])}, {"what": "elgamal", "bits": rnd.choice([161, 168, 176]), "tape": "last-zeros"},
              {"what": "elgamal", "bits": 161, "tape": "last-ones"}]
        curves = [rnd.choice(["P-192", "P-224"]), "P-256", "P-521" if ctx.seed % 4 == 1 else "P-384", "Ed25519", "Curve25519"]
        if ctx.seed % 3 == 0:                                   # the two long chains (30 s / 20 s of TLC) in one run out of three
            curves.append(["Ed448", "Curve448"][(ctx.seed // 3) % 2])
        g += [{"what": "ecc", "curve": c} for c in curves]
    else:
        for bits, e, deep in [(1024, 65537, True), (1024, 3, True), (1024, 65537, False), (odd, 65537, True), (1536, rnd.choice([3, 17, 65537]), False), (2048, 65537, True),
                              (2048, 3, False), (3072, 65537, False), (1024, (1 << 64) + 1, False), (1023, 65537, False), (512, 65537, False), (1024, 2, False),
                              (1024, 1, False), (1024, 65536, False), (2048, 0, False)]:
            g.append({"what": "rsa", "bits": bits, "e": e, "deep": deep})
        g += [{"what": "dsa", "bits": 1024, "deep": True}, {"what": "dsa", "bits": 1024}, {"what": "dsa", "bits": 2048}, {"what": "dsa", "bits": 3072}]
        g += [{"what": "dsa", "bits": b} for b in (512, 1000, 1088, 4096, 0)]
        g += [{"what": "dsa-domain", "bits": 1024, "kid": "d1024", "corr": [], "deep": True}, {"what": "dsa-domain", "bits": 2048, "kid": "d2048", "corr": []},
              {"what": "dsa-domain", "bits": 512, "kid": "d512", "corr": []}, {"what": "dsa-domain", "bits": 2048, "kid": "d1024", "corr": []},
              {"what": "dsa-domain", "bits": 1024, "kid": "toy", "corr": []}]
        g += [{"what": "dsa-domain", "bits": 1024, "kid": "d1024", "corr": [c]} for c in ("g=1", "g=p-1", "g+p", "q:=other prime", "q:=2q", "p+2q", "p=0", "q=0", "p composite,consistent")]
        g += [{"what": "dsa-domain", "bits": 1024, "kid": kid, "corr": [], "tape": tp} for kid in ("d1024", "d512") for tp in ("order-1", "order", "order-2", "ones", "zeros", "one")]
        g += [{"what": "ecc", "curve": c, "tape": tp} for c in ("P-192", "P-256", "P-384") for tp in ("order-1", "order", "order-2", "ones", "zeros", "one")]
        g += [{"what": "elgamal", "bits": b} for b in (rnd.choice([161, 176, 192]), 256, rnd.choice([224, 320, 384]))]
        g += [{"what": "elgamal", "bits": 168, "tape": tp} for tp in ("last-zeros", "last-ones")]
        for c in NIST + ["Ed25519", "Ed448", "Curve25519", "Curve448"]:
            g += [{"what": "ecc", "curve": c} for _ in range(1 if c in ("P-521", "Ed448", "Curve448") else 3)]
    # entropy chosen so that the first two prime candidates give a private exponent below 2^(nlen/2) (FIPS 186-4 B.3.1 (3): new primes are to be drawn)
    g.append({"what": "rsa", "bits": 1024, "e": 65537, "tape": "small-d"})
    # entropy chosen so that the first candidates for p and q are the primes on either side of 3 * 2^510, 1104 apart (B.3.3 (5.4): another q is to be drawn)
    g.append({"what": "rsa", "bits": 1024, "e": 65537, "tape": "close-primes"})
    for i, it in enumerate(g):
        it["cid"] = cid0 + i + 1
    return g


# ------------------------------------------------------------------------------------------ reading the records
FAMILY = {"rsa": "RSA", "dsa": "DSA", "elgamal": "ElGamal"}
CLASSES = [   # canonical failure classes (what known_findings.json entries match) for the clauses of trace/KeyTrace
    (r"accepted components violating: the public (value|point) is the private scalar times G", "accepted mismatched private/public parts"),
    (r"accepted components violating: the neutral element is not a public key", "accepted the neutral element (point at infinity) as a public key"),
    (r"accepted components violating: (coordinates < p|y < p in the encoding)", "accepted a coordinate >= p (not smaller than the field prime, out of range)"),
    (r"accepted components violating: the public value is not a point of small order.*", "accepted a listed low-order Montgomery point"),
    (r"accepted components violating: the point satisfies the curve equation", "accepted a point off the curve"),
    (r"raised Timeout instead of ValueError.*", "did not return within the deadline (no key, no ValueError)"),
    (r"raised Crash instead of ValueError.*", "killed the interpreter (no key, no ValueError)"),
    (r"raised (\w+) instead of ValueError.*", r"raised \1 instead of ValueError"),
    (r"refused a valid key with (\w+)", r"refused a valid key with \1"),
]


def family_of(t):
    if t["fam"] == "gen":
        return "generate %s" % (t["curve"] if t["what"] == "ecc" else {"rsa": "RSA", "dsa": "DSA", "elgamal": "ElGamal"}[t["what"]])
    if t["fam"] == "ec":
        return t["curve"]
    return FAMILY[t["fam"]]


def vkey(t, clause):
    cls = clause
    for pat, rep in CLASSES:
        m = re.fullmatch(".*?(" + pat + ")", clause)
        if m:
            cls = re.sub(pat, rep, m.group(1))
            break
    if t["fam"] == "gen":
        return "%s: %s" % (family_of(t), cls)
    return "%s %s: %s" % (family_of(t), t["api"], cls)


def unlimbs(ls):
    v = 0
    for i, x in enumerate(ls):
        v |= x << (12 * i)
    return v


def sgn(x):
    return -unlimbs(x["m"]) if x["s"] else unlimbs(x["m"])


def brief(t):
    """a record written out for a reader: the call and its outcome (numbers in hexadecimal)"""
    d = {"family": family_of(t), "api": t["api"], "outcome": "key" if t["exc"] == "none" else t["exc"]}
    if t["fam"] == "gen":
        d["request"] = {k: (sgn(t[k]) if k == "e" else t[k]) for k in ("bits", "e", "curve", "hasdomain", "kid", "corr", "entropy") if k in t}
        d["tape_bytes_consumed"] = t["tape"]
    else:
        d.update({"form": t["form"], "variant": t["variant"], "base_key": t["kid"], "corruptions": t["corr"], "model_class": t["cls"], "model_failed_step": t["mwhy"]})
        d["offered"] = {k: hex(sgn(v)) for k, v in t["off"].items()
                        if (t["fam"] != "ec" or (k == "d" and t["hasd"]) or (k in "xy" and t["hasq"] and not (k == "y" and t["kind"] == "mt")))}
        if t["fam"] == "ec" and t["hasseed"]:
            d["offered"]["seed"] = bytes(t["seed"]).hex()
    if t["exc"] == "none":
        d["returned"] = {k: (hex(unlimbs(v)) if isinstance(v, list) and k != "seed" else bytes(v).hex() if k == "seed" else v) for k, v in t["key"].items()}
    return d


def identity(t):
    """what makes a record distinct"""
    if t["fam"] == "gen":
        return ["gen", t["what"], t.get("bits"), t.get("e"), t.get("curve"), t.get("kid"), t.get("corr"), t.get("entropy"), t["key"]]
    return [t["fam"], t.get("curve"), t["kid"], t["form"], t["variant"], t["off"], t.get("seed"), t.get("par"), t.get("junk")]


SAMPLES = [("rsa import refused", lambda t: t["fam"] == "rsa" and t["api"] == "import_key" and t["exc"] == "ValueError" and len(t["corr"]) == 1),
           ("rsa construct key", lambda t: t["fam"] == "rsa" and t["form"] == "construct:ned" and t["exc"] == "none"),
           ("dsa", lambda t: t["fam"] == "dsa" and t["kid"] != "toy" and t["hasx"] and t["exc"] == "ValueError" and t["corr"]),
           ("weierstrass", lambda t: t["fam"] == "ec" and t["kind"] == "ws" and t["hasd"] and t["hasq"] and t["exc"] == "none"),
           ("edwards", lambda t: t["fam"] == "ec" and t["kind"] == "ed" and t["enc"] == "rfc8032" and t["corr"]),
           ("montgomery", lambda t: t["fam"] == "ec" and t["kind"] == "mt" and t["hasseed"] and t["hasq"] and t["exc"] == "ValueError"),
           ("generate rsa", lambda t: t["fam"] == "gen" and t["what"] == "rsa" and t["exc"] == "none"),
           ("generate ecc", lambda t: t["fam"] == "gen" and t["what"] == "ecc")]


def pred_ok(pred, t):
    try:
        return bool(pred(t))
    except (KeyError, IndexError, TypeError):
        return False


def flip(ls):
    """one bit of a number given as limbs (the lowest bit of the lowest limb; the number stays canonical unless it was 1)"""
    if not ls:
        return [1]
    return [ls[0] ^ (1 if len(ls) > 1 or ls[0] > 1 else 2)] + ls[1:]


def binding_checks(quick):
    """[predicate on an accepted record, corruption, family].  Every family of records gets a falsified returned component and a flipped outcome."""
    w = []

    def check(pred, corrupt, family):
        w.append([pred, corrupt, family, None])

    def setk(field):
        def f(t):
            t["key"][field] = flip(t["key"][field])
            return t
        return f

    def outcome(exc):
        def f(t):
            t["exc"] = exc
            return t
        return f

    def bits_plus_one(t):
        t["bits"] += 1
        return t

    def mid_link(t):
        ls = t["links"]
        ls[len(ls) // 2]["r"]["x"] = flip(ls[len(ls) // 2]["r"]["x"])
        return t

    def swap_quotient(t):
        t["kw"]["k"] = flip(t["kw"]["k"])
        return t
    key = lambda t: t["exc"] == "none" and t["cls"] in ("key", "")      # noqa: E731
    refused = lambda t: t["exc"] == "ValueError" and t["cls"] == "ValueError" and len(t["corr"]) == 1   # noqa: E731
    cheap = lambda t: t["cost"] < (3000 if quick else 9000)   # noqa: E731
    check(lambda t: t["fam"] == "rsa" and t["api"] == "construct" and t["has"]["pq"] and key(t) and not t["deep"], setk("d"), "RSA construct: one bit of the returned d")
    check(lambda t: t["fam"] == "rsa" and t["api"] == "construct" and t["has"]["d"] and not t["has"]["pq"] and key(t) and not t["deep"], setk("p"),
          "RSA construct (n, e, d): one bit of the recovered factor p")
    check(lambda t: t["fam"] == "rsa" and t["api"] == "construct" and t["has"]["pq"] and refused(t), outcome("none"), "RSA construct: ValueError -> key")
    check(lambda t: t["fam"] == "rsa" and t["api"] == "import_key" and t["has"]["crt"] and key(t) and not t["deep"], setk("dq"), "RSA import_key: one bit of the returned dq (CRT)")
    check(lambda t: t["fam"] == "rsa" and t["api"] == "import_key" and not t["has"]["d"] and key(t), outcome("ValueError"), "RSA import_key (public): key -> ValueError")
    check(lambda t: t["fam"] == "rsa" and t["api"] == "import_key" and t["has"]["crt"] and refused(t), outcome("none"), "RSA import_key: ValueError -> key")
    check(lambda t: t["fam"] == "dsa" and t["hasx"] and key(t) and cheap(t) and t["kid"] != "toy" and not t["deep"], setk("y"), "DSA: one bit of the returned y")
    check(lambda t: t["fam"] == "dsa" and t["hasx"] and refused(t) and cheap(t) and t["mwhy"] == "g^x = y mod p", outcome("none"),
          "DSA: mismatched x / y: ValueError -> key")
    check(lambda t: t["fam"] == "dsa" and t["api"] == "import_key" and key(t) and cheap(t), outcome("ValueError"), "DSA import_key: key -> ValueError")
    check(lambda t: t["fam"] == "elgamal" and t["hasx"] and key(t), setk("x"), "ElGamal: one bit of the returned x")
    check(lambda t: t["fam"] == "elgamal" and refused(t) and t["mwhy"] == "p prime", outcome("none"), "ElGamal: composite modulus: ValueError -> key")
    ws = lambda t: t["fam"] == "ec" and t["kind"] == "ws"   # noqa: E731
    check(lambda t: ws(t) and t["hasd"] and not t["hasq"] and key(t) and cheap(t) and len(t["links"]) > 4, setk("x"), "Weierstrass (%(curve)s) from d: one bit of the returned point")
    check(lambda t: ws(t) and t["hasd"] and not t["hasq"] and key(t) and cheap(t) and len(t["links"]) > 4, mid_link,
          "Weierstrass (%(curve)s) from d: one bit of an intermediate multiple of the untrusted chain")
    check(lambda t: ws(t) and t["api"] == "import_key" and t["hasq"] and refused(t) and t["mwhy"] == "curve equation", outcome("none"),
          "Weierstrass (%(curve)s) import_key: point off the curve: ValueError -> key")
    check(lambda t: ws(t) and not t["hasd"] and t["corr"] == ["neutral"] and t["exc"] == "ValueError", outcome("none"), "Weierstrass (%(curve)s): neutral element: ValueError -> key (F18)")
    check(lambda t: ws(t) and t["api"] == "construct" and t["corr"] in (["x+p"], ["y+p"]) and t["exc"] == "ValueError", outcome("none"),
          "Weierstrass (%(curve)s) construct: coordinate >= p: ValueError -> key (F19)")
    check(lambda t: ws(t) and t["hasd"] and t["hasq"] and key(t) and cheap(t), outcome("ValueError"), "Weierstrass (%(curve)s) with d and Q: key -> ValueError")
    ed = lambda t: t["fam"] == "ec" and t["kind"] == "ed"   # noqa: E731
    check(lambda t: ed(t) and t["enc"] == "rfc8032" and key(t), setk("x"), "Edwards (%(curve)s) import_key: one bit of the decoded x")
    check(lambda t: ed(t) and t["api"] == "construct" and t["corr"] in (["x+p"], ["y+p"]) and t["exc"] == "ValueError", outcome("none"),
          "Edwards (%(curve)s) construct: coordinate >= p: ValueError -> key (F19)")
    check(lambda t: ed(t) and t["hasseed"] and not t["hasq"] and key(t) and t["curve"] == "Ed25519", setk("y"), "Edwards (Ed25519) from a seed: one bit of the returned point")
    check(lambda t: ed(t) and t["hasseed"] and not t["hasq"] and key(t) and t["curve"] == "Ed25519", setk("d"), "Edwards (Ed25519) from a seed: one bit of the clamped scalar")
    mt = lambda t: t["fam"] == "ec" and t["kind"] == "mt"   # noqa: E731
    check(lambda t: mt(t) and not t["hasseed"] and key(t), setk("x"), "Montgomery (%(curve)s) public: one bit of the returned u")
    check(lambda t: mt(t) and not t["hasseed"] and t["exc"] == "ValueError" and t["mwhy"] == "not a point of small order", outcome("none"),
          "Montgomery (%(curve)s): low-order point: ValueError -> key")
    check(lambda t: mt(t) and t["corr"] == ["u foreign"] and t["form"] == "construct:seedQ" and t["exc"] == "ValueError" and t["curve"] == "Curve25519", outcome("none"),
          "Montgomery (Curve25519) seed with a foreign u: ValueError -> key (F11)")
    gen = lambda t: t["fam"] == "gen" and t["exc"] == "none"   # noqa: E731
    check(lambda t: gen(t) and t["what"] == "rsa" and not t["deep"], bits_plus_one, "generate RSA: a key one bit shorter than requested")
    check(lambda t: gen(t) and t["what"] == "rsa" and not t["deep"], swap_quotient, "generate RSA: a wrong untrusted quotient of e*d by lcm(p-1, q-1)")
    check(lambda t: gen(t) and t["what"] == "rsa" and not t["deep"], setk("dp"), "generate RSA: one bit of the returned dp (CRT)")
    check(lambda t: gen(t) and t["what"] == "dsa" and not t["deep"] and not t["hasdomain"], setk("y"), "generate DSA: one bit of the returned y")
    check(lambda t: gen(t) and t["what"] == "elgamal", setk("y"), "generate ElGamal: one bit of the returned y")
    check(lambda t: gen(t) and t["what"] == "ecc" and t["curve"] in ("P-192", "P-224", "P-256"), setk("y"), "generate ECC (%(curve)s): one bit of the returned point")
    check(lambda t: gen(t) and t["what"] == "ecc" and t["curve"] == "Curve25519", setk("x"), "generate ECC (Curve25519): one bit of the returned u")
    return w


HARNESS_OK = ("untrusted",)     # self-checks that falsify a witness: TLC must refuse the witness (a "harness:" clause), never accept the record


BAD0 = 10 ** 7        # trace identifiers of the falsified copies of the binding self-checks


def run(ctx):
    quick = ctx.tier == "quick"
    rnd = random.Random("%d/c05" % ctx.seed)
    t0 = time.time()
    # 1. the pipeline on toy numbers, exhaustively; a weakened pipeline must be separated (checked while the recorders run)
    r = ctx.mc("KeyPipelineMC", "KeyPipelineMC.cfg", workers=8, timeout=900)
    cases = [json.loads(s) for s in sorted(set(tlc.tla_string_to_py(p) for p in r.prints("CASE")))]
    if len(cases) < 25000:
        raise core.Machinery("KeyPipelineMC emitted only %d cases" % len(cases))
    ctx.extra["cases_from_model"] = len(cases)
    per_class = {}
    for c in cases:
        k = "%s:%s" % (c["ty"], c["cls"])
        per_class[k] = per_class.get(k, 0) + 1
    ctx.extra["model_cases_per_type_and_class"] = dict(sorted(per_class.items()))
    _note(t0, "model: %d cases" % len(cases))
    # 2.-4. concretise, record, judge -- in rounds (the quick tier is one round; rounds bound the memory of the thorough tier: a record with two
    # certified 1024-bit chains is megabytes of limbs).  Per round: recorder processes side by side (generate() apart: ElGamal's safe-prime search
    # and DSA's domain search take seconds), then one sharded TLC batch.  The falsified copies of the binding self-checks are judged in the same
    # batch: for every shape the first recorded record that fits is falsified before its verdict is known; should the original turn out not to be
    # accepted, the shape is tried again in the next round (or, after the last round, in a small batch of its own)
    items, stats = plan_cases(cases, ctx, rnd)
    gens = plan_generate(ctx, rnd, len(items))
    ctx.extra["plan"] = stats
    nrounds = 1 if quick else 6
    wanted = binding_checks(quick)
    results = []                                             # (family, verdict of the original, verdict of the falsified copy)
    per, outcomes, disagree, samples = {}, {}, [], {}
    seen_keys = set()
    counts = {"classed": 0, "certified": 0, "recorded": 0, "requested": 0, "generated": set()}
    weak = None
    for rd in range(nrounds):
        mine = [it for it in items if (0 if it.get("anchor") else it["cid"] % nrounds) == rd]
        nproc = 12
        slices = [[] for _ in range(nproc)]
        for j, it in enumerate(sorted(mine, key=lambda it: -it["est"])):
            slices[j % nproc].append(it)
        jobs = [("cases", {"items": sl}) for sl in slices if sl]
        if rd == 0:
            slow = [g for g in gens if g["what"] in ("elgamal", "dsa") or (g["what"] == "rsa" and g["bits"] > 2048)]
            fast = [g for g in gens if g not in slow]
            jobs = [("generate", {"items": [g]}) for g in slow] + [("generate", {"items": fast})] + jobs
        with ThreadPoolExecutor(max_workers=len(jobs) + 1) as ex:
            if rd == 0:
                weak = ex.submit(lambda: ctx.mc("KeyPipelineMC", "KeyPipelineMC_weakened.cfg", workers=2, timeout=900, must_hold=False))
            parts = list(ex.map(lambda j: ctx.drive("c05_keys", [j[0]], inp=j[1], timeout=3400), jobs))
        if rd == 0:
            rw = weak.result()
            if "Sound" not in rw.violated:
                raise core.Machinery("the KeyPipeline model does not separate a pipeline that forgets the range check of coordinates: %s" % rw.violated)
            ctx.extra["weakened_pipeline_rejected_by_model"] = rw.violated
        recs = [t for part in parts for t in part]
        del parts
        recs.sort(key=lambda t: t["cid"])
        counts["recorded"] += len(recs)
        counts["requested"] += len(mine) + (len(gens) if rd == 0 else 0)
        _note(t0, "round %d of %d: recorded %d of %d items" % (rd + 1, nrounds, len(recs), len(mine) + (len(gens) if rd == 0 else 0)))
        bads = []
        for i, w in enumerate(wanted):
            if w[3] is None:
                g = next((t for t in recs if pred_ok(w[0], t)), None)
                if g is not None:
                    bad = w[1](copy.deepcopy(g))
                    bad["tid"] = BAD0 + i
                    w[3] = (g, bad)
                    bads.append(bad)
        verdicts = ctx.validate("KeyTrace", recs + bads, family="keys (round %d of %d)" % (rd + 1, nrounds), timeout=3400, weight=lambda t: t["cost"] + 80)
        ctx.traces_validated -= len(bads)                    # (not observations of the library)
        _note(t0, "round %d of %d: judged %d records and %d falsified copies" % (rd + 1, nrounds, len(recs), len(bads)))
        for t in recs:
            ctx.count()
            agrees, clause = verdicts[t["tid"]]
            fam = family_of(t)
            per[fam] = per.get(fam, 0) + 1
            oc = "%s:%s" % (t["fam"] if t["fam"] != "ec" else t["kind"], "key" if t["exc"] == "none" else t["exc"])
            outcomes[oc] = outcomes.get(oc, 0) + 1
            counts["certified"] += len(t.get("links", [])) + sum(len(t.get(w, {}).get(c, [])) for w in ("w", "kw") for c in ("cq", "cx"))
            ctx.nontriv(identity(t))
            if t["fam"] == "gen" and t["exc"] == "none":
                counts["generated"].add(t["what"])
            if t["fam"] != "gen" and t["cls"] in ("key", "ValueError"):
                counts["classed"] += 1
                if agrees == 2:
                    disagree.append({"family": fam, "form": t["form"], "corruptions": t["corr"], "model": t["cls"], "model_failed_step": t["mwhy"], "outcome": t["exc"],
                                     "tlc_verdict": clause})
            if clause != "ok":
                if clause.startswith("harness:"):
                    raise core.Machinery("recorder inconsistency: %s in %s" % (clause, json.dumps(brief(t))[:1500]))
                k = vkey(t, clause)
                ctx.violation(k, dict(brief(t), clause=clause), replay=t if k not in seen_keys else None)     # (one replay file per class)
                seen_keys.add(k)
            for nm, pred in SAMPLES:
                if nm not in samples and pred_ok(pred, t):
                    samples[nm] = dict(brief(t), tlc_verdict=clause)
        # binding self-checks whose original was judged in this round
        again = []
        for i, w in enumerate(wanted):
            if w[3] is None or w[3] == "done":
                continue
            g, bad = w[3]
            family = w[2] % g if "%(" in w[2] else w[2]
            if verdicts[g["tid"]][1] == "ok":
                results.append((family, "ok", verdicts[BAD0 + i][1]))
                w[3] = "done"
                continue
            w[3] = None                                      # the original is itself a violation: another record of the shape is needed
            g = next((t for t in recs if verdicts[t["tid"]][1] == "ok" and pred_ok(w[0], t)), None)
            if g is not None:
                bad = w[1](copy.deepcopy(g))
                bad["tid"] = BAD0 + i
                again.append((i, w[2] % g if "%(" in w[2] else w[2], bad))
        if again:
            v, _ = tlc.validate_traces("KeyTrace", [bad for _, _, bad in again], shards=min(16, len(again)), timeout=1500, weight=lambda t: t["cost"] + 80)
            for i, family, bad in again:
                results.append((family, "ok", v[bad["tid"]][1]))
                wanted[i][3] = "done"
        del recs, verdicts, bads
    ctx.extra["cases_not_expressible_in_their_format"] = counts["requested"] - counts["recorded"]
    ctx.extra["records_per_family"] = dict(sorted(per.items()))
    ctx.extra["outcomes_of_the_library"] = dict(sorted(outcomes.items()))
    ctx.extra["links_of_certified_chains"] = counts["certified"]
    ctx.extra["model_class_not_carried_over"] = {"records_with_a_model_class": counts["classed"], "differing": len(disagree), "cases": disagree[:40]}
    # the model's class must carry over to the real numbers, up to the coincidences of the toy numbers (named in trace/KeyTrace)
    if len(disagree) > max(3, 0.02 * counts["classed"]):
        raise core.Machinery("the classes of the model do not carry over to real keys: %d of %d differ, e.g. %s" % (len(disagree), counts["classed"], json.dumps(disagree[:5])))
    for nm, _ in SAMPLES:
        if nm in samples:
            ctx.sample(samples[nm])
    for what in ("rsa", "dsa", "elgamal", "ecc"):
        if what not in counts["generated"]:
            raise core.Machinery("generate() returned no %s key: nothing was judged" % what)
    for w in wanted:
        if w[3] != "done":
            if ctx.violations:
                ctx.notes.append("binding self-check '%s' skipped: no accepted record of that shape in a run with violations" % w[2])
                continue
            raise core.Machinery("no accepted record for the binding self-check '%s'" % w[2])
    for family, gv, bv in results:
        passed = gv == "ok" and bv != "ok" and (not bv.startswith("harness:") or any(h in family for h in HARNESS_OK))
        ctx.binding_checks.append({"family": family, "original": gv, "corrupted": bv, "ok": passed})
        if not passed:
            raise core.Machinery("binding self-check failed for %s: original=%r corrupted=%r" % (family, gv, bv))
    _note(t0, "%d binding self-checks" % len(results))
    ctx.rule = ("cases = the submitted states of sys/KeyPipeline enumerated by TLC (6 key types x toy keys x forms/formats x no, one or two ordered component corruptions), "
                "concretised on real keys: RSA 512/768-bit fixed primes and a 1024-bit key generated per run (construct with 2, 3, 5, 6 components; PKCS#1, PKCS#8, "
                "SubjectPublicKeyInfo, OpenSSH; DER and PEM), DSA domains of 24, 512, 1024, 2048 bits (construct; OpenSSL, PKCS#8, SPKI, OpenSSH), ElGamal 128/256-bit safe primes, "
                "P-192..P-521 (construct with d / point / both; SEC 1 ECPrivateKey, PKCS#8, SPKI uncompressed and compressed, OpenSSH, raw SEC 1 point), Ed25519/Ed448 "
                "(seed / point / both; PKCS#8, SPKI, OpenSSH), Curve25519/Curve448 (seed / u / both; PKCS#8, SPKI); every case with at most one corruption whose judgement needs no "
                "long certified chain, a seed-dependent sample of the double corruptions and of the cases with a full-length scalar multiple, modular power or ladder (budget per "
                "type, see plan); fixed anchors: neutral element, coordinates >= p, foreign Montgomery public value on every curve.  generate(): RSA / DSA (with and without "
                "domain) / ElGamal / ECC with a deterministic randfunc tape, documented and undocumented sizes and exponents.  distinct = distinct (type, key, form, variant, offered "
                "components); every record is a call of the library on a different input")
    ctx.assume("'probable prime' is decided only up to: exact trial division below 2^24; otherwise no prime factor below 100, no factorisation exhibited by the recorder (the composites "
               "it builds come with theirs) and, for the sampled records marked deep, one Miller-Rabin round to base 2 with every squaring certified. This is weaker than the statement: "
               "a strong pseudoprime to base 2 without small factors handed out by the library would pass")
    ctx.assume("witnesses (quotients, gcd cofactors, modular-power chains, intermediate multiples, square roots, Jacobi quotients, the recorder's factorisation of a modulus offered "
               "without factors) are untrusted: a wrong one makes TLC answer 'witness', which is a machinery failure, never a verdict")
    ctx.assume("the field primes and group orders of the nine curves are prime and the parameters of spec/data/ECGroup are those of FIPS 186-4 / RFC 7748 / RFC 8032 (pinned by ASSUMEd "
               "vectors evaluated by ./check setup); the fixed DSA / ElGamal / RSA primes of the recorder were found with 40 Miller-Rabin rounds at authoring time and are judged like any others")
    ctx.assume("permissive spots (either outcome accepted, a returned key still judged), named in sys/KeyPipeline, data/KeyInvariants and trace/KeyTrace: RsaLargeD (d >= n), "
               "RsaUnfactoredModulus, RsaExponentSharesFactorWithModulus (public key with gcd(n, e) > 1), ImportIgnoresCrtFields, PublicValueNotInSubgroup (O8), EdSmallOrderPublic, "
               "MtNonCanonicalU, KiEdNonCanonicalAccepted (O5), GenElGamalRefusal (ElGamal.generate documents no domain of sizes)")
    ctx.assume("import formats are exercised unencrypted, in DER and PEM; passphrase-protected containers, X.509 certificates and OpenSSH private keys are the subject of C08 / C13")
