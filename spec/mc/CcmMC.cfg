CONSTANTS BS = 4
HL = 2
MaxDepth = 5
SegLens = {0,1,2,3,4,5,7}
DeclMsg = {99999, 0, 4, 5}
DeclAssoc = {99999, 0, 2, 3, 6}
EmitHist = FALSE
SPECIFICATION Spec
INVARIANT InvCache
INVARIANT InvTag
INVARIANT InvDeclared
INVARIANT InvOneMessage
PROPERTY ForbiddenLeavesObjectUnchanged
PROPERTY TerminalStaysTerminal
CHECK_DEADLOCK FALSE
