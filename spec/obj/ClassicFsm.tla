------------------------------- MODULE ClassicFsm -------------------------------
(* The call-order state machines of the classic modes and of the key-wrap modes as written in lib/Crypto/Cipher
   (_mode_cbc.py, _mode_cfb.py, _mode_ofb.py, _mode_ctr.py, _mode_openpgp.py, _mode_ecb.py, _mode_kw.py, _mode_kwp.py) and of the
   stream ciphers (ChaCha20, Salsa20, ARC4, which keep no life cycle), functional style, with the documented rule
   ("once you have encrypted a message you cannot decrypt with the same object", and vice versa) as an independent definition.

   object = [mode, bs, next, phase, pos, first, done, exc]
     next    the _next list of the code (chained modes); for ecb / stream / kw / kwp the code keeps none and the model keeps both
     pos     bytes accepted so far (position in the one-shot reference)
     first   OpenPGP: the encrypted IV has not been emitted yet (_done_first_block = False)
     done    KW: _done

   NAMED DEVIATIONS (what the code does where the documentation is silent; modelled as the code does):
     DirectionFixedByRefusedData   CBC sets _next before the data reaches the native code: encrypt(unaligned) -> ValueError still closes
                                   decrypt().  The native CBC routine has by then processed the complete blocks of the refused data
                                   (raw_cbc.c copies the chaining value before reporting ERR_NOT_ENOUGH_DATA), so the object is poisoned:
                                   outputs after such a ValueError are not judged (field `poisoned`).
     KwSingleUse                   a KW object refuses every call after one successful seal()/unseal() with ValueError (undocumented);
                                   a refused unseal() (bad integrity value, bad length) does not use the object up.
     KwpNeverDone                  KWP tests _done but never sets it: the object can be used any number of times (each result is still
                                   the one-shot value). *)
EXTENDS Integers, Sequences, FiniteSets, TLC
Chained == {"cbc", "cfb", "ofb", "ctr", "openpgp", "chacha20"}     \* ChaCha20.py keeps the same _next rule; seek() is not guarded
XorModes == {"chacha20", "stream"}                                  \* output = data xor key stream at the position
FreeModes == {"ecb", "stream"}
WrapModes == {"kw", "kwp"}
BOTH == {"encrypt", "decrypt"}
NeedsAligned(m) == m \in {"cbc", "ecb"}
CInit(mode, bs) == [mode |-> mode, bs |-> bs, next |-> BOTH, phase |-> "init", pos |-> 0, first |-> TRUE, done |-> FALSE, poisoned |-> FALSE, exc |-> "none"]
CTypeErr(o) == [o EXCEPT !.exc = "TypeError"]
\* encrypt(n bytes) / decrypt(n bytes)
CCrypt(o, m, n) ==
   IF o.mode \in WrapModes THEN [o EXCEPT !.exc = "AttributeError"]          \* key-wrap objects have seal()/unseal() only
   ELSE IF o.mode \in Chained /\ m \notin o.next THEN CTypeErr(o)
   ELSE LET o1 == IF o.mode \in Chained THEN [o EXCEPT !.next = {m}, !.phase = IF m = "encrypt" THEN "enc" ELSE "dec"] ELSE o IN
        IF NeedsAligned(o.mode) /\ n % o.bs # 0 THEN [o1 EXCEPT !.exc = "ValueError", !.poisoned = (o.mode = "cbc" /\ n > o.bs) \/ o.poisoned]
        ELSE [o1 EXCEPT !.exc = "none", !.pos = @ + n, !.first = IF m = "encrypt" THEN FALSE ELSE @]
\* number of bytes an accepted call returns
COutLen(o, m, n) == IF o.mode = "openpgp" /\ m = "encrypt" /\ o.first THEN n + o.bs + 2 ELSE n
\* seal(n bytes of key material)
CSeal(o, n) ==
   IF o.mode \notin WrapModes THEN [o EXCEPT !.exc = "AttributeError"]
   ELSE IF o.done THEN [o EXCEPT !.exc = "ValueError"]
   ELSE IF o.mode = "kw" THEN (IF n % 8 # 0 \/ n < 16 THEN [o EXCEPT !.exc = "ValueError"] ELSE [o EXCEPT !.exc = "none", !.done = TRUE])
   ELSE (IF n = 0 THEN [o EXCEPT !.exc = "ValueError"] ELSE [o EXCEPT !.exc = "none"])
\* unseal(wrapped string): shape = "genuine" | "forged" (right length, wrong content) | "short" | "odd"
CUnseal(o, shape) ==
   IF o.mode \notin WrapModes THEN [o EXCEPT !.exc = "AttributeError"]
   ELSE IF o.done THEN [o EXCEPT !.exc = "ValueError"]
   ELSE IF shape = "genuine" THEN [o EXCEPT !.exc = "none", !.done = (o.mode = "kw")]
   ELSE [o EXCEPT !.exc = "ValueError"]
\* ChaCha20.seek(p): moves the position, whatever the phase (the limits of the counter space are C11's subject: p is small here)
CSeek(o, p) == IF o.mode # "chacha20" THEN [o EXCEPT !.exc = "AttributeError"] ELSE [o EXCEPT !.exc = "none", !.pos = p]
CStep(o, e) ==
   CASE e.op \in {"encrypt", "decrypt"} -> CCrypt(o, e.op, e.n)
     [] e.op = "seek" -> CSeek(o, e.n)
     [] e.op = "seal" -> CSeal(o, e.n)
     [] e.op = "unseal" -> CUnseal(o, e.shape)
-----------------------------------------------------------------------------
\* the documented rule: a direction, once taken, excludes the other one; ecb and the stream ciphers document no life cycle
CAllowed(o) == IF o.mode \in Chained THEN (CASE o.phase = "init" -> BOTH [] o.phase = "enc" -> {"encrypt"} [] o.phase = "dec" -> {"decrypt"}) ELSE BOTH
CGuardMatchesDiagram(o) == o.next = CAllowed(o)
=============================================================================
