------------------------------- MODULE Words32 -------------------------------
(* 32-bit words as <<hi, lo>> pairs of 16-bit halves (TLC integers are 32-bit signed), with the operations the
   MD4 / MD5 / SHA-1 / RIPEMD-160 / BLAKE2s transcriptions share, and the Merkle-Damgard padding of 64-byte blocks. *)
EXTENDS Bytes
P2T == <<1,2,4,8,16,32,64,128,256,512,1024,2048,4096,8192,16384,32768,65536>>
P2(n) == P2T[n + 1]
AddW(a, b) == LET lo == a[2] + b[2] IN <<(a[1] + b[1] + (lo \div 65536)) % 65536, lo % 65536>>
Add3W(a, b, c) == LET lo == a[2] + b[2] + c[2] IN <<(a[1] + b[1] + c[1] + (lo \div 65536)) % 65536, lo % 65536>>
Add4W(a, b, c, d) == LET lo == a[2] + b[2] + c[2] + d[2] IN <<(a[1] + b[1] + c[1] + d[1] + (lo \div 65536)) % 65536, lo % 65536>>
Add5W(a, b, c, d, e) == LET lo == a[2] + b[2] + c[2] + d[2] + e[2] IN <<(a[1] + b[1] + c[1] + d[1] + e[1] + (lo \div 65536)) % 65536, lo % 65536>>
XorW(a, b) == <<a[1] ^^ b[1], a[2] ^^ b[2]>>
Xor3W(a, b, c) == <<(a[1] ^^ b[1]) ^^ c[1], (a[2] ^^ b[2]) ^^ c[2]>>
AndW(a, b) == <<a[1] & b[1], a[2] & b[2]>>
OrW(a, b) == <<a[1] | b[1], a[2] | b[2]>>
NotW(a) == <<65535 - a[1], 65535 - a[2]>>
RotrS(hi, lo, n) == <<(hi \div P2(n)) + ((lo % P2(n)) * P2(16 - n)), (lo \div P2(n)) + ((hi % P2(n)) * P2(16 - n))>>      \* n in 1..15
RotrW(a, n) == IF n = 0 THEN a ELSE IF n = 16 THEN <<a[2], a[1]>> ELSE IF n < 16 THEN RotrS(a[1], a[2], n) ELSE RotrS(a[2], a[1], n - 16)
RotlW(a, n) == RotrW(a, (32 - n) % 32)
LeWord(b, i) == <<b[i + 3] * 256 + b[i + 2], b[i + 1] * 256 + b[i]>>          \* 4 bytes at index i, little-endian
BeWord(b, i) == <<b[i] * 256 + b[i + 1], b[i + 2] * 256 + b[i + 3]>>          \* big-endian
LeBytes(w) == <<w[2] % 256, w[2] \div 256, w[1] % 256, w[1] \div 256>>
BeBytes(w) == <<w[1] \div 256, w[1] % 256, w[2] \div 256, w[2] % 256>>
LeWords16(blk) == TLCEval([t \in 1..16 |-> LeWord(blk, 4 * t - 3)])
BeWords16(blk) == TLCEval([t \in 1..16 |-> BeWord(blk, 4 * t - 3)])
\* padding to a multiple of 64 bytes: 0x80, zeros, 64-bit bit length (byte lengths below 2^28 here)
PadLE(m) == LET n == Len(m) IN m \o <<128>> \o Zeros((55 - n) % 64) \o LeN(8 * n, 5) \o <<0, 0, 0>>
PadBE(m) == LET n == Len(m) IN m \o <<128>> \o Zeros((55 - n) % 64) \o <<0, 0, 0>> \o BeN(8 * n, 5)
ASSUME AddW(<<65535, 65535>>, <<0, 1>>) = <<0, 0>> /\ RotlW(<<32768, 1>>, 1) = <<0, 3>> /\ RotlW(<<4660, 22136>>, 20) = <<26497, 9029>>
ASSUME RotrW(<<4660, 22136>>, 8) = <<30738, 13398>> /\ LeWord(<<1, 2, 3, 4>>, 1) = <<1027, 513>> /\ LeBytes(<<1027, 513>>) = <<1, 2, 3, 4>>
ASSUME Len(PadLE(Zeros(55))) = 64 /\ Len(PadLE(Zeros(56))) = 128 /\ Len(PadBE(<<>>)) = 64 /\ PadBE(<<97>>)[64] = 8 /\ PadLE(<<97>>)[57] = 8
=============================================================================
