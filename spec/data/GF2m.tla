------------------------------- MODULE GF2m -------------------------------
(* Binary fields GF(2^m) = GF(2)[x]/(P), generic in the degree m and in the reduction polynomial P, and Shamir's
   secret sharing over such a field.  Data layer, no variables.  Crypto.Protocol.SecretSharing documents
   m = 128, P = x^128 + x^7 + x^2 + x + 1 (GfF128 below); the model-checking configurations instantiate the same
   operators at m = 3, 4, 8.

   REPRESENTATION.  A polynomial over GF(2) is a sequence of 16-bit limbs, least significant first (bit e of the
   number = coefficient of x^e), CANONICAL: no trailing zero limb, zero is <<>>.  Equality of polynomials is TLA+
   equality.  A field is a record F = [m |-> degree, low |-> P - x^m (a polynomial of degree < m)]; its elements are
   the polynomials of degree < m.  Every name starts with "Gf" or "Shamir".

     GfXor  GfDeg  GfBit  GfShl  GfShr  GfLow (a mod x^n)  GfClMul (carry-less product)  GfDivMod
     GfOfNat (n < 2^31)  GfToNat (degree < 31)  GfOfExps (set of exponents)  GfOfBytesBE  GfToBytesBE(a, n)
     GfPoly(F)  GfIsElem(a, F)  GfElems(F) (m <= 16)  GfAdd  GfMul  GfPow (natural exponent, x^0 = 1)
     GfInv (extended Euclid)  GfInvFermat (a^(2^m - 2))  GfIsInv(a, r, F) (the defining relation a * r = 1)
     ShamirShare  ShamirSplit  ShamirHasDup  ShamirLagrange0  ShamirCombine

   The product is the schoolbook convolution of limbs (GfC16 multiplies two limbs without carries; the result is
   below 2^31), the reduction is the identity x^m = low (mod P) applied to the part above x^m until the degree is
   below m.  Loops are kept shallow (at most 16 or the number of limbs deep): TLC's operator look-up is linear in
   the recursion depth.  Cost per TLC worker at m = 128: product 4 ms, inverse (Euclid) 60 ms.

   The module ends with ASSUMEd vectors: FIPS 197 section 4.2 ({57} * {83} = {c1}, {57} * {13} = {fe}) and the
   inverse {53}^-1 = {ca} behind the AES S-box; GHASH of test case 2 of the GCM specification (McGrew-Viega), which
   is two products in GF(2^128) with the same polynomial in reflected bit order; products and an inverse computed at
   authoring time with plain Python integers (shift-and-xor, never pycryptodome); shares produced by the ssss
   utility (B. Poettering), as quoted in the test-suite of the library. *)
EXTENDS Integers, Sequences, FiniteSets, Bitwise, TLC

GfPow2 == <<1, 2, 4, 8, 16, 32, 64, 128, 256, 512, 1024, 2048, 4096, 8192, 16384, 32768, 65536>>
GfMinI(a, b) == IF a < b THEN a ELSE b
GfMaxI(a, b) == IF a > b THEN a ELSE b
GfAt(a, i) == IF i >= 1 /\ i <= Len(a) THEN a[i] ELSE 0
RECURSIVE GfTop(_,_)
GfTop(a, n) == IF n > 0 /\ a[n] = 0 THEN GfTop(a, n - 1) ELSE n
GfNorm(a) == LET n == GfTop(a, Len(a)) IN IF n = Len(a) THEN a ELSE SubSeq(a, 1, n)
GfIsPoly(a) == /\ \A i \in 1..Len(a) : a[i] \in 0..65535
               /\ (Len(a) = 0 \/ a[Len(a)] # 0)
GfZero == <<>>
GfOne == <<1>>

\* ------------------------------------------------------------------ polynomials over GF(2)
GfLimb(v) == IF v = 0 THEN <<>> ELSE <<v>>                            \* a polynomial of degree < 16
GfXor(a, b) == LET la == Len(a)  lb == Len(b) IN
   IF la = 1 /\ lb = 1 THEN GfLimb(a[1] ^^ b[1])
   ELSE IF la = lb THEN GfNorm(TLCEval([i \in 1..la |-> a[i] ^^ b[i]]))
   ELSE IF la > lb THEN TLCEval([i \in 1..la |-> IF i <= lb THEN a[i] ^^ b[i] ELSE a[i]])
   ELSE TLCEval([i \in 1..lb |-> IF i <= la THEN a[i] ^^ b[i] ELSE b[i]])
RECURSIVE GfLd(_)
GfLd(x) == IF x <= 1 THEN 0 ELSE 1 + GfLd(x \div 2)                   \* degree of a non-zero limb
GfDeg(a) == IF Len(a) = 0 THEN -1 ELSE 16 * (Len(a) - 1) + GfLd(a[Len(a)])
GfBit(a, e) == (GfAt(a, (e \div 16) + 1) \div GfPow2[(e % 16) + 1]) % 2
GfShl(a, s) == IF Len(a) = 0 THEN a ELSE
   LET q == s \div 16  r == s % 16  up == GfPow2[r + 1]  dn == GfPow2[17 - r]  la == Len(a)
   IN GfNorm(TLCEval([i \in 1..(la + q + 1) |->
         IF i <= q THEN 0
         ELSE ((IF i - q <= la THEN (a[i - q] * up) % 65536 ELSE 0) + (IF i - q >= 2 THEN a[i - q - 1] \div dn ELSE 0))]))
GfShr(a, s) ==
   LET q == s \div 16  r == s % 16  dn == GfPow2[r + 1]  up == GfPow2[17 - r]  la == Len(a)
   IN IF la <= q THEN <<>>
      ELSE IF la = 1 THEN GfLimb(a[1] \div dn)
      ELSE GfNorm(TLCEval([i \in 1..(la - q) |-> (a[i + q] \div dn) + (IF i + q < la THEN (a[i + q + 1] % dn) * up ELSE 0)]))
GfLow(a, n) ==          \* a mod x^n
   LET q == n \div 16  r == n % 16  la == Len(a)
   IN IF la <= q THEN a
      ELSE IF la = 1 THEN GfLimb(a[1] % GfPow2[r + 1])
      ELSE GfNorm(TLCEval([i \in 1..(IF r = 0 THEN q ELSE q + 1) |-> IF i <= q THEN a[i] ELSE a[i] % GfPow2[r + 1]]))
\* carry-less product of two limbs (below 2^31): xor of x * 2^i over the bits i of y
RECURSIVE GfC16R(_,_,_)
GfC16R(x, y, acc) == LET a2 == IF y % 2 = 1 THEN acc ^^ x ELSE acc IN IF y <= 1 THEN a2 ELSE GfC16R(x * 2, y \div 2, a2)   \* y >= 1
GfC16(x, y) == IF x = 0 \/ y = 0 THEN 0 ELSE IF x < y THEN GfC16R(y, x, 0) ELSE GfC16R(x, y, 0)
\* column k of the convolution: xor of the low halves of the limb products with i + j = k + 1 and of the high halves
\* of those with i + j = k
RECURSIVE GfColLo(_,_,_,_,_)
GfColLo(T, k, i, hi, acc) == IF i > hi THEN acc ELSE GfColLo(T, k, i + 1, hi, acc ^^ (T[i][k + 1 - i] % 65536))
RECURSIVE GfColHi(_,_,_,_,_)
GfColHi(T, k, i, hi, acc) == IF i > hi THEN acc ELSE GfColHi(T, k, i + 1, hi, acc ^^ (T[i][k - i] \div 65536))
GfClMul(a, b) == IF Len(a) = 0 \/ Len(b) = 0 THEN <<>>
   ELSE IF Len(a) = 1 /\ Len(b) = 1 THEN LET c == GfC16(a[1], b[1]) IN IF c < 65536 THEN <<c>> ELSE <<c % 65536, c \div 65536>>
   ELSE
   LET la == Len(a)  lb == Len(b)
       T == TLCEval([i \in 1..la |-> [j \in 1..lb |-> GfC16(a[i], b[j])]])
   IN GfNorm(TLCEval([k \in 1..(la + lb) |->
         GfColLo(T, k, GfMaxI(1, k + 1 - lb), GfMinI(la, k), 0) ^^ GfColHi(T, k, GfMaxI(1, k - lb), GfMinI(la, k - 1), 0)]))
\* long division: <<quotient, remainder>>, b # 0
RECURSIVE GfDivModR(_,_,_,_)
GfDivModR(r, b, db, q) == LET dr == GfDeg(r) IN
   IF dr < db THEN <<q, r>> ELSE GfDivModR(GfXor(r, GfShl(b, dr - db)), b, db, GfXor(q, GfShl(<<1>>, dr - db)))
GfDivMod(a, b) == GfDivModR(a, b, GfDeg(b), <<>>)

\* ------------------------------------------------------------------ conversions
GfOfNat(n) == IF n = 0 THEN <<>> ELSE IF n < 65536 THEN <<n>> ELSE <<n % 65536, n \div 65536>>
GfToNat(a) == GfAt(a, 1) + 65536 * GfAt(a, 2)                          \* degree < 31
RECURSIVE GfOfExpsR(_,_)
GfOfExpsR(S, acc) == IF S = {} THEN acc ELSE LET e == CHOOSE x \in S : TRUE IN GfOfExpsR(S \ {e}, GfXor(acc, GfShl(<<1>>, e)))
GfOfExps(S) == GfOfExpsR(S, <<>>)
\* big-endian byte string (any length) <-> polynomial; the library's bytes_to_long / long_to_bytes(value, n)
GfOfBytesBE(bs) == LET n == Len(bs) IN
   GfNorm(TLCEval([i \in 1..((n + 1) \div 2) |-> bs[n - (2 * (i - 1))] + (IF n - (2 * (i - 1)) >= 2 THEN 256 * bs[n - (2 * (i - 1)) - 1] ELSE 0)]))
GfToBytesBE(a, n) == [p \in 1..n |-> LET e == n - p  l == GfAt(a, (e \div 2) + 1) IN IF e % 2 = 0 THEN l % 256 ELSE l \div 256]

\* ------------------------------------------------------------------ the field F = [m, low]
GfPoly(F) == GfXor(GfShl(<<1>>, F.m), F.low)
GfIsElem(a, F) == GfIsPoly(a) /\ GfDeg(a) < F.m
GfElems(F) == {GfOfNat(n) : n \in 0..(GfPow2[F.m + 1] - 1)}            \* m <= 16
GfAdd(a, b) == GfXor(a, b)
RECURSIVE GfReduce(_,_)
GfReduce(a, F) == IF GfDeg(a) < F.m THEN a ELSE GfReduce(GfXor(GfLow(a, F.m), GfClMul(GfShr(a, F.m), F.low)), F)
GfMul(a, b, F) == GfReduce(GfClMul(a, b), F)
RECURSIVE GfPow(_,_,_)
GfPow(a, e, F) == IF e = 0 THEN GfOne ELSE IF e = 1 THEN a ELSE GfMul(GfPow(a, e - 1, F), a, F)
\* extended Euclid on (a, P): invariant s_i * a = r_i (mod P); ends with r = 1 (P irreducible, a # 0)
RECURSIVE GfEuclid(_,_,_,_)
GfEuclid(r0, r1, s0, s1) == IF Len(r1) = 0 THEN <<r0, s0>> ELSE
   LET qr == GfDivMod(r0, r1) IN GfEuclid(r1, qr[2], s1, GfXor(s0, GfClMul(qr[1], s1)))
GfInv(a, F) == LET g == GfEuclid(a, GfPoly(F), GfOne, GfZero) IN IF g[1] = GfOne THEN g[2] ELSE <<>>   \* a # 0; <<>> = "no inverse"
\* a^(2^m - 2) = product of a^(2^i), i = 1..m-1
RECURSIVE GfFermatR(_,_,_,_)
GfFermatR(sq, i, acc, F) == IF i = F.m THEN acc ELSE LET s == GfMul(sq, sq, F) IN GfFermatR(s, i + 1, GfMul(acc, s, F), F)
GfInvFermat(a, F) == GfFermatR(a, 1, GfOne, F)
GfIsInv(a, r, F) == GfIsElem(r, F) /\ GfMul(a, r, F) = GfOne

\* ------------------------------------------------------------------ Shamir's scheme over F
(* split(k, n, secret): the polynomial is  secret + c_1 x + ... + c_{k-1} x^{k-1}  with the k-1 coefficients taken from
   the tape in the order c_{k-1}, ..., c_1 (the library draws the highest coefficient first); share i is its value at
   x = i (the index as a field element), computed by Horner's rule.  The ssss variant adds x^k. *)
RECURSIVE ShamirHorner(_,_,_,_,_)
ShamirHorner(cs, x, i, acc, F) == IF i > Len(cs) THEN acc ELSE ShamirHorner(cs, x, i + 1, GfXor(GfMul(acc, x, F), cs[i]), F)
ShamirShare(tape, secret, idx, ssss, F) ==
   LET x == GfOfNat(idx)
       cs == Append(tape, secret)
       y == ShamirHorner(cs, x, 1, GfZero, F)
   IN IF ssss THEN GfXor(y, GfPow(x, Len(cs), F)) ELSE y
ShamirSplit(n, secret, tape, ssss, F) == [i \in 1..n |-> <<i, ShamirShare(tape, secret, i, ssss, F)>>]    \* k = Len(tape) + 1
(* combine(shares): shares = sequence of <<index, value>>.  Duplicate indexes are refused; otherwise the value at zero of
   the interpolation polynomial through the k = Len(shares) points (for ssss through the points with x^k removed). *)
ShamirHasDup(shares) == \E i, j \in 1..Len(shares) : i < j /\ shares[i][1] = shares[j][1]
RECURSIVE ShamirProd(_,_,_,_,_)
\* product over m # j of f(x_m) where f = identity (what = "num") or x_j + x_m (what = "den")
ShamirProd(xs, j, m, what, F) == IF m > Len(xs) THEN GfOne
   ELSE IF m = j THEN ShamirProd(xs, j, m + 1, what, F)
   ELSE GfMul(ShamirProd(xs, j, m + 1, what, F), IF what = "num" THEN xs[m] ELSE GfXor(xs[j], xs[m]), F)
RECURSIVE ShamirSum(_,_,_,_)
ShamirSum(xs, ys, j, F) == IF j > Len(xs) THEN GfZero ELSE
   GfXor(GfMul(GfMul(ys[j], ShamirProd(xs, j, 1, "num", F), F), GfInv(ShamirProd(xs, j, 1, "den", F), F), F),
         ShamirSum(xs, ys, j + 1, F))
ShamirLagrange0(shares, ssss, F) ==
   LET k == Len(shares)
       xs == [j \in 1..k |-> GfOfNat(shares[j][1])]
       ys == [j \in 1..k |-> IF ssss THEN GfXor(shares[j][2], GfPow(xs[j], k, F)) ELSE shares[j][2]]
   IN ShamirSum(xs, ys, 1, F)
ShamirCombine(shares, ssss, F) ==
   IF ShamirHasDup(shares) THEN [exc |-> "ValueError", secret |-> <<>>]
   ELSE [exc |-> "none", secret |-> ShamirLagrange0(shares, ssss, F)]

\* ------------------------------------------------------------------ the fields used in this project
GfF3 == [m |-> 3, low |-> <<3>>]                 \* x^3 + x + 1
GfF4 == [m |-> 4, low |-> <<3>>]                 \* x^4 + x + 1
GfF8 == [m |-> 8, low |-> <<27>>]                \* x^8 + x^4 + x^3 + x + 1 (AES)
GfF128 == [m |-> 128, low |-> <<135>>]           \* x^128 + x^7 + x^2 + x + 1 (Crypto.Protocol.SecretSharing)
GfHex(s) == GfOfBytesBE(s)

\* ------------------------------------------------------------------ known answers
ASSUME GfPoly(GfF128) = GfOfExps({128, 7, 2, 1, 0}) /\ GfPoly(GfF8) = <<283>> /\ GfPoly(GfF4) = <<19>> /\ GfPoly(GfF3) = <<11>>
\* FIPS 197, section 4.2 and 4.2.1
ASSUME GfMul(<<87>>, <<131>>, GfF8) = <<193>>
ASSUME GfMul(<<87>>, <<19>>, GfF8) = <<254>>
ASSUME GfMul(<<87>>, <<2>>, GfF8) = <<174>> /\ GfMul(<<174>>, <<2>>, GfF8) = <<71>> /\ GfMul(<<71>>, <<2>>, GfF8) = <<142>>
\* the inverse behind S-box entry 53 -> ed (FIPS 197 section 5.1.1: inverse ca, then the affine map)
ASSUME GfInv(<<83>>, GfF8) = <<202>> /\ GfInvFermat(<<83>>, GfF8) = <<202>>
ASSUME GfC16(65535, 65535) = 1431655765 /\ GfC16(3, 3) = 5 /\ GfC16(0, 7) = 0
ASSUME GfOfBytesBE(<<1, 2, 3>>) = <<515, 1>> /\ GfToBytesBE(<<515, 1>>, 5) = <<0, 0, 1, 2, 3>> /\ GfOfBytesBE(<<0, 0>>) = <<>>
ASSUME GfShl(<<32768>>, 1) = <<0, 1>> /\ GfShr(<<0, 1>>, 1) = <<32768>> /\ GfShr(<<5, 7>>, 16) = <<7>> /\ GfLow(<<65535, 65535>>, 17) = <<65535, 1>>
ASSUME GfDivMod(<<283>>, <<3>>) = <<<<246>>, <<1>>>>
\* products and inverses in GF(2^128), plain Python integers at authoring time (shift-and-xor product, long division, a^(2^128-2))
ASSUME GfMul(<<8634, 4778, 28694, 3039, 25877, 1036, 63299, 38422>>, <<4922, 15010, 19267, 55732, 30327, 33135, 64437, 55276>>, GfF128) = <<32481, 56541, 35476, 21148, 13937, 20107, 32558, 50383>>
ASSUME GfMul(<<50275, 12112, 24827, 41102, 62664, 2367, 24252, 7551>>, <<53049, 24336, 27303, 32460, 56636, 50358, 10776, 16161>>, GfF128) = <<42031, 20377, 58454, 5203, 64522, 58005, 25428, 38006>>
ASSUME GfMul(<<32230, 55950, 30027, 14791, 48168, 8428, 38169, 45140>>, <<51669, 49066, 4073, 26796, 55662, 46039, 54687, 3445>>, GfF128) = <<57346, 58046, 19382, 15586, 50672, 56745, 20354, 33316>>
ASSUME GfMul(<<65535, 65535, 65535, 65535, 65535, 65535, 65535, 65535>>, <<65535, 65535, 65535, 65535, 65535, 65535, 65535, 65535>>, GfF128) = <<16431, 21845, 21845, 21845, 21845, 21845, 21845, 21845>>
ASSUME GfMul(<<0, 0, 0, 0, 0, 0, 0, 32768>>, <<0, 0, 0, 0, 0, 0, 0, 32768>>, GfF128) = <<4199, 0, 0, 0, 0, 0, 0, 49152>>
ASSUME GfInv(<<22396, 47175, 100, 20304, 39544, 46889, 28453, 35612>>, GfF128) = <<59517, 52285, 64520, 60807, 50340, 27328, 57327, 64656>>
ASSUME GfInv(<<2>>, GfF128) = <<67, 0, 0, 0, 0, 0, 0, 32768>>
ASSUME GfInv(<<135>>, GfF128) = <<54391, 16248, 51945, 45089, 36165, 37879, 7342, 23298>>
ASSUME GfInv(<<>>, GfF128) = <<>> /\ GfPow(<<135>>, 0, GfF128) = <<1>> /\ GfPow(<<0, 0, 0, 0, 0, 0, 0, 32768>>, 2, GfF128) = <<4199, 0, 0, 0, 0, 0, 0, 49152>> /\ GfPow(<<2>>, 9, GfF128) = <<512>>
\* GCM specification (McGrew, Viega), test case 2: GHASH(H, {}, C) = ((C * H) + len) * H with every block bit-reversed
\* H = 66e94bd4ef8a2c3b884cfa59ca342b2e, C = 0388dace60b6a392f328c2b971b2fe78, len = 0^120 80, GHASH = f38cbb1ad69223dcc3457ae5b6b0f885
ASSUME GfMul(GfXor(GfMul(<<4544, 29531, 27910, 18885, 5327, 40259, 19854, 7807>>, <<38758, 11218, 20983, 56372, 12817, 39519, 11347, 29908>>, GfF128), <<0, 0, 0, 0, 0, 0, 0, 256>>), <<38758, 11218, 20983, 56372, 12817, 39519, 11347, 29908>>, GfF128) = <<12751, 22749, 18795, 15300, 41667, 42846, 3437, 41247>>
\* ssss-split (hex mode, no diffusion layer): threshold 2, secret d9fe73909bae28b3757854c0af7ad405, shares 1 and 2; threshold 3, shares 5, 2, 3
ASSUME ShamirCombine(<< <<1, GfHex(<<89, 74, 232, 150, 66, 148, 23, 77, 149, 195, 55, 86, 210, 80, 65, 112>>)>>, <<2, GfHex(<<216, 151, 69, 157, 41, 218, 87, 78, 180, 14, 147, 236, 85, 47, 254, 110>>)>> >>, TRUE, GfF128) = [exc |-> "none", secret |-> GfHex(<<217, 254, 115, 144, 155, 174, 40, 179, 117, 120, 84, 192, 175, 122, 212, 5>>)]
ASSUME ShamirCombine(<< <<5, GfHex(<<35, 254, 66, 67, 29, 178, 180, 27, 208, 62, 205, 199, 234, 142, 151, 172>>)>>, <<2, GfHex(<<108, 217, 66, 141, 248, 1, 123, 82, 50, 37, 97, 232, 198, 114, 174, 62>>)>>, <<3, GfHex(<<228, 24, 119, 110, 245, 192, 87, 155, 217, 41, 146, 119, 55, 72, 6, 221>>)>> >>, TRUE, GfF128).secret = GfHex(<<236, 150, 170, 92, 20, 201, 250, 166, 153, 53, 76, 241, 218, 116, 233, 4>>)
ASSUME ShamirCombine(<< <<1, <<5>>>>, <<1, <<6>>>> >>, FALSE, GfF128).exc = "ValueError"
\* split and combine are mutually inverse on a degenerate and on a generic input (both variants), and the shares are the Horner values
ASSUME \A ss \in BOOLEAN : LET sh == ShamirSplit(3, <<7, 9>>, << <<65535, 1, 2, 3, 4, 5, 6, 32768>>, <<>> >>, ss, GfF128)
                          IN ShamirCombine(<<sh[3], sh[1], sh[2]>>, ss, GfF128).secret = <<7, 9>>
ASSUME ShamirShare(<< <<3>> >>, <<5>>, 2, FALSE, GfF128) = <<3>> /\ ShamirShare(<< <<3>> >>, <<5>>, 2, TRUE, GfF128) = <<7>>
=============================================================================
