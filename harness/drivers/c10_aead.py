"""C10 replayer/recorder: steps TLC-generated call sequences through real AEAD objects and records, after every call, the
exception class, the outputs and the projection of the private state.  Computes no verdicts."""
import inspect
import json
import os
import random
import sys

sys.path.insert(0, __import__("os").path.dirname(__import__("os").path.abspath(__file__)))
from _util import exc_class  # noqa: E402

from Crypto.Cipher import AES, ChaCha20_Poly1305

SEED = int(os.environ.get("VERIF_SEED", "0"))


def rb(r, n):
    return bytes(r.getrandbits(8) for _ in range(n))


def make(family, key, nonce, cfg):
    if family == "gcm":
        return AES.new(key, AES.MODE_GCM, nonce=nonce, mac_len=cfg.get("maclen", 16))
    if family == "ccm":
        kw = {}
        if cfg.get("declA") is not None:
            kw["assoc_len"] = cfg["declA"]
        if cfg.get("declM") is not None:
            kw["msg_len"] = cfg["declM"]
        return AES.new(key, AES.MODE_CCM, nonce=nonce, mac_len=cfg.get("maclen", 16), **kw)
    if family == "eax":
        return AES.new(key, AES.MODE_EAX, nonce=nonce, mac_len=cfg.get("maclen", 16))
    if family == "siv":
        return AES.new(key, AES.MODE_SIV, nonce=nonce)
    if family == "ocb":
        return AES.new(key, AES.MODE_OCB, nonce=nonce, mac_len=cfg.get("maclen", 16))
    if family == "chacha":
        return ChaCha20_Poly1305.new(key=key, nonce=nonce)
    raise ValueError(family)


def keylen(family, r):
    if family == "siv":
        return r.choice([32, 48, 64])
    if family == "chacha":
        return 32
    return r.choice([16, 24, 32])


def noncelen(family, r):
    return {"gcm": 12, "ccm": r.choice([7, 11, 13]), "eax": 16, "siv": 16, "ocb": 15, "chacha": r.choice([8, 12, 24])}[family]


def oneshot(family, key, nonce, cfg, comps, inp, direction):
    """The library's own one-shot computation over the accepted data.  comps: list of AAD components (SIV) / segments."""
    cfg2 = dict(cfg)
    aad = b"".join(comps)
    if family == "ccm":
        cfg2["declA"] = None
        cfg2["declM"] = None

    def feed(c):
        if family == "siv":
            for a in comps:
                c.update(a)
        elif aad:
            c.update(aad)
    if direction in ("none", "enc"):
        c = make(family, key, nonce, cfg2)
        feed(c)
        out, tag = c.encrypt_and_digest(inp)
        return out, tag
    # decrypt direction: plaintext of the concatenated ciphertext, and the tag a sender would have produced
    if family == "siv":
        return None, None            # SIV cannot decrypt without the tag; handled by the caller
    c = make(family, key, nonce, cfg2)
    feed(c)
    pt = c.decrypt(inp)
    if family == "ocb":
        pt += c.decrypt()
    c = make(family, key, nonce, cfg2)
    feed(c)
    ct2, tag = c.encrypt_and_digest(pt)
    assert ct2 == inp
    return pt, tag


def projection(family, c):
    try:
        if family == "gcm":
            return dict(has=True, nxt=sorted(c._next), cache=len(c._cache), auth=c._auth_len, msg=c._msg_len)
        if family == "ccm":
            cache = c._cache
            clen = sum(len(x) for x in cache) if isinstance(cache, list) else len(cache)
            return dict(has=True, nxt=sorted(c._next), cache=clen, st=int(c._mac_status), ca=c._cumul_assoc_len, cm=c._cumul_msg_len,
                        al=-1 if c._assoc_len is None else c._assoc_len, ml=-1 if c._msg_len is None else c._msg_len)
        return dict(has=True, nxt=sorted(c._next))
    except AttributeError:
        return dict(has=False, nxt=[], cache=0, auth=0, msg=0, st=0, ca=0, cm=0, al=0, ml=0)


MACLENS = {"gcm": [4, 8, 12, 13, 15, 16, 16], "ccm": [4, 6, 8, 10, 12, 14, 16, 16], "eax": [2, 4, 8, 12, 15, 16, 16], "ocb": [8, 10, 12, 15, 16, 16]}


def replay(family, hist, cfg, r, tid):
    cfg = dict(cfg)
    if family in MACLENS and "maclen" not in cfg:
        cfg["maclen"] = r.choice(MACLENS[family])       # short tags exercise truncation and tag caching
    key = rb(r, keylen(family, r))
    nonce = rb(r, noncelen(family, r))
    c = make(family, key, nonce, cfg)
    comps, inp = [], b""
    siv_pt = None
    siv_pt_cand = None
    last_siv_tag = bytes(16)
    siv_last_ok = True
    direction = "none"
    events = []
    inplace = tid % 3 == 1
    for e in hist:
        op = e["op"]
        ev = dict(e)
        n = e.get("n", 0)
        data = rb(r, n) if op not in ("digest", "hexdigest", "verify", "hexverify", "encrypt_final", "decrypt_final") else b""
        ev["data"] = list(data)
        # the genuine tag for what the object has accepted so far (needed to offer verify a good or a bad tag)
        tag = b""
        if op in ("verify", "hexverify", "decrypt_and_verify"):
            cur_inp = inp + (data if op == "decrypt_and_verify" else b"")
            try:
                if family == "siv" and op != "decrypt_and_verify":
                    # verify() without decrypt_and_verify: the only reference is the library's own digest() over the components
                    c2 = make(family, key, nonce, cfg)
                    for a in comps:
                        c2.update(a)
                    tag = c2.digest() if direction == "none" else last_siv_tag
                    if direction != "none" and not siv_last_ok:
                        # after a decrypt_and_verify with a wrong tag no tag is genuine for this object any more
                        # (except by coincidence, e.g. an empty message): the model leaves this outcome open
                        ev["free"] = True
                elif family == "siv":
                    # for SIV the "ciphertext" offered to decrypt_and_verify is produced from a plaintext of the same length
                    c2 = make(family, key, nonce, cfg)
                    for a in comps:
                        c2.update(a)
                    siv_pt_cand = data
                    data, tag = c2.encrypt_and_digest(data)
                    ev["data"] = list(data)
                    cur_inp = data
                else:
                    _, tag = oneshot(family, key, nonce, cfg, comps, cur_inp, "dec")
            except Exception:
                tag = bytes(16)
            if not e.get("good", True):
                tag = bytes([tag[0] ^ 1]) + tag[1:]
        out = b""
        rtag = b""
        exc = "none"
        try:
            if op == "update":
                c.update(data)
            elif op in ("encrypt", "decrypt") and inplace and data and "output" in inspect.signature(getattr(c, op)).parameters:
                buf = bytearray(data)                   # every third history: results written over the input (the call order is the same)
                getattr(c, op)(buf, output=buf)
                out = bytes(buf)
            elif op == "encrypt":
                out = c.encrypt(data)
            elif op == "decrypt":
                out = c.decrypt(data)
            elif op == "encrypt_final":
                out = c.encrypt()
            elif op == "decrypt_final":
                out = c.decrypt()
            elif op == "digest":
                rtag = c.digest()
            elif op == "hexdigest":
                rtag = bytes.fromhex(c.hexdigest())
            elif op == "verify":
                c.verify(tag)
            elif op == "hexverify":
                c.hexverify(tag.hex())
            elif op == "encrypt_and_digest":
                out, rtag = c.encrypt_and_digest(data)
            elif op == "decrypt_and_verify" and inplace and data and "output" in inspect.signature(c.decrypt_and_verify).parameters:
                buf = bytearray(data)
                c.decrypt_and_verify(buf, tag, output=buf)
                out = bytes(buf)
            elif op == "decrypt_and_verify":
                out = c.decrypt_and_verify(data, tag)
            else:
                raise RuntimeError(op)
        except Exception as x:
            exc = exc_class(x)
        ev["exc"] = exc
        ev["out"] = list(out)
        ev["tag"] = list(rtag)
        ev["proj"] = projection(family, c)
        events.append(ev)
        # what entered the object, decided from the observable outcome only: a call that returned, or a
        # decrypt_and_verify whose verification failed (its decrypt part had accepted the data)
        if exc == "none" or (op == "decrypt_and_verify" and exc == "ValueError"):
            if op == "update":
                comps.append(data)
            elif op in ("encrypt", "encrypt_and_digest"):
                inp += data
                direction = "enc"
            elif op in ("decrypt", "decrypt_and_verify"):
                inp += bytes(ev["data"])
                direction = "dec"
                if family == "siv":
                    siv_pt = siv_pt_cand
                    last_siv_tag = tag
                    siv_last_ok = e.get("good", True)
    # one-shot reference by the library itself on the concatenation
    try:
        if family == "siv" and direction == "dec":
            o_out, o_tag = siv_pt, b""
        elif family == "siv" and direction == "none":
            o_out, o_tag = None, None     # digest() without a message: not the tag of any one-shot computation (DESIGN.md O9)
        else:
            o_out, o_tag = oneshot(family, key, nonce, cfg, comps, inp, direction)
    except Exception:
        o_out, o_tag = None, None
    cfg = {k: (-1 if v is None else v) for k, v in cfg.items()}
    return dict(tid=tid, family=family, cfg=cfg, key=list(key), nonce=list(nonce), events=events,
                oneshot=dict(has=o_out is not None, aad=list(b"".join(comps)), comps=[list(x) for x in comps], inp=list(inp),
                             out=list(o_out or b""), tag=list(o_tag or b"")))


def main():
    job = json.load(sys.stdin)
    family = job["family"]
    r = random.Random("%d/%s" % (SEED, family))
    traces = []
    tid = job.get("tid0", 0)
    for h in job["hists"]:
        tid += 1
        cfg = dict(h.get("cfg", {})) if isinstance(h, dict) else {}
        for k in ("declA", "declM"):
            if k in cfg and cfg[k] in (99999, -1):
                cfg[k] = None
        hist = h["events"] if isinstance(h, dict) else h
        traces.append(replay(family, hist, cfg, r, tid))
    json.dump(traces, sys.stdout)


if __name__ == "__main__":
    main()
