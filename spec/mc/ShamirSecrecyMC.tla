------------------------------- MODULE ShamirSecrecyMC -------------------------------
(* C20, secrecy by counting, on GF(2^3): for every variant, every threshold k <= MaxK and every set S of k-1 share indexes
   out of 1..MaxN (a set of indexes below n is such a set for every larger n), and for EVERY vector of k-1 share values an
   adversary can hold, the number of coefficient tapes that are consistent with it is THE SAME FOR EVERY SECRET (it is 1:
   secret and view determine the polynomial).  Hence, with coefficients drawn uniformly, k-1 shares are equally likely
   under every secret.  The count is the literal pre-image count
        |{ tape : shares_S(secret, tape) = view }|     for each of the 8 secrets and each of the 8^(k-1) views.
   The shares of every (variant, k, secret, tape) are computed once with ShamirSplit of data/GF2m and kept in the state
   variable stab (see ShamirFieldMC for why a variable).  One leaf state per (variant, k, S).
   BrokenSource = TRUE models a split() whose highest coefficient is not drawn from the source (it repeats the secret):
   the count must then differ between secrets (separation; the configuration is expected to be violated). *)
EXTENDS GF2m
CONSTANTS MaxN, MaxK, BrokenSource
VARIABLES lvl, v, stab
vars == <<lvl, v, stab>>
F == GfF3
Q == 8
El == 0..(Q - 1)
RECURSIVE PowQ(_)
PowQ(n) == IF n = 0 THEN 1 ELSE Q * PowQ(n - 1)
TapeOfNat(t, k) == [i \in 1..(k - 1) |-> GfOfNat((t \div PowQ(k - 1 - i)) % Q)]
\* stab[variant][k-1][secret+1][tape+1] = the MaxN share values as naturals
TapeUsed(t, k, s) == IF BrokenSource THEN [TapeOfNat(t, k) EXCEPT ![1] = GfOfNat(s)] ELSE TapeOfNat(t, k)
SharesN(ss, k, s, t) == LET sh == ShamirSplit(MaxN, GfOfNat(s), TapeUsed(t, k, s), ss, F) IN TLCEval([i \in 1..MaxN |-> GfToNat(sh[i][2])])
STab == TLCEval([ssi \in 1..2 |-> TLCEval([km \in 1..(MaxK - 1) |-> TLCEval([s1 \in 1..Q |->
            TLCEval([t1 \in 1..PowQ(km) |-> SharesN(ssi = 2, km + 1, s1 - 1, t1 - 1)])])])])
Subsets(n, j) == {S \in SUBSET (1..n) : Cardinality(S) = j}
Init == stab = STab /\ lvl = 0 /\ v = [ss |-> 1, k |-> 2, S |-> {}]
Next == /\ UNCHANGED stab
        /\ \/ lvl = 0 /\ lvl' = 1 /\ \E ssi \in 1..2, k \in 2..MaxK : v' = [ss |-> ssi, k |-> k, S |-> {}]
           \/ lvl = 1 /\ lvl' = 2 /\ \E S \in Subsets(MaxN, v.k - 1) : v' = [v EXCEPT !.S = S]
-----------------------------------------------------------------------------
\* the adversary's view of (secret s, tape t): the share values at the indexes of S, packed into one natural
RECURSIVE Pack(_,_)
Pack(sh, S) == IF S = {} THEN 0 ELSE LET i == CHOOSE x \in S : \A y \in S : x <= y IN sh[i] + (Q * Pack(sh, S \ {i}))
Views(s) == LET row == stab[v.ss][v.k - 1][s + 1] IN TLCEval([t1 \in 1..PowQ(v.k - 1) |-> Pack(row[t1], v.S)])
Count(views, view) == Cardinality({t1 \in DOMAIN views : views[t1] = view})
SecrecyByCounting == lvl = 2 =>
   LET vw == TLCEval([s \in El |-> Views(s)])
       cnt == TLCEval([s \in El |-> TLCEval([view \in 0..(PowQ(v.k - 1) - 1) |-> Count(vw[s], view)])])
   IN /\ \A view \in 0..(PowQ(v.k - 1) - 1) : \A s1, s2 \in El : cnt[s1][view] = cnt[s2][view]
      /\ \A view \in 0..(PowQ(v.k - 1) - 1) : \A s \in El : cnt[s][view] = 1           \* every view is possible under every secret
\* the converse, for contrast: k shares determine the secret (no two secrets share a k-view)
KSharesDetermineSecret == (lvl = 2 /\ v.k <= MaxN) =>
   \A extra \in (1..MaxN) \ v.S :
      LET S2 == v.S \cup {extra}
          all == {<<s, Pack(stab[v.ss][v.k - 1][s + 1][t1], S2)>> : s \in El, t1 \in 1..PowQ(v.k - 1)}
      IN \A p1, p2 \in all : p1[2] = p2[2] => p1[1] = p2[1]
=============================================================================
