CONSTANTS CMAX = 5
WLO = 5
KS = 2
MaxCalls = 5
Sticky = TRUE
EmitHist = FALSE
SPECIFICATION Spec
INVARIANT PositionCorrect
INVARIANT WithinLimit
PROPERTY StaysExhausted
INVARIANT ErrorReturnsNothing
CHECK_DEADLOCK FALSE
