CONSTANTS Mode = "eq"
INIT Init
NEXT Next
INVARIANT InvEqReflexive
INVARIANT InvEqSymmetric
INVARIANT InvEqTransitive
INVARIANT InvEqIsNoDifference
INVARIANT InvVariantsDifferInOne
INVARIANT InvCrossTypeNeverEqual
INVARIANT EmitPair
CHECK_DEADLOCK FALSE
