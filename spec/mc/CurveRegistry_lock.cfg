CONSTANTS Threads = {1, 2, 3}
Curves = {"a", "b"}
None = 0
LockKind = "lock"
CallsPerThread = 2
EmitSched = FALSE
SPECIFICATION Spec
INVARIANT NeverObservePartial
INVARIANT LoadedOnce
INVARIANT MutualExclusion
INVARIANT NoStuck
CHECK_DEADLOCK FALSE
