CONSTANTS Kind = "md"
BS = 4
LW = 2
MaxTotal = 13
MaxZeros = 0
EmitHist = TRUE
SPECIFICATION Spec
INVARIANT Emit
CHECK_DEADLOCK FALSE
