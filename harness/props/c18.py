"""C18 - random integers and selections lie within their documented bounds and are exactly uniform given uniform entropy (rejection
sampling, no modulo or truncation bias); with a caller-supplied randfunc generated values are a deterministic function of its bytes."""
import json
import random
from concurrent.futures import ThreadPoolExecutor

from .. import tlc
from ..core import Machinery
from .c10 import _selfcheck

LEVEL = "model_checking"
TRACE_CFG = "CONSTANTS BW = 8\nINIT TInit\nNEXT TNext\nCHECK_DEADLOCK FALSE\n"


def plans_of(r):
    out = []
    for p in sorted(set(tlc.tla_string_to_py(x) for x in r.prints("PLAN"))):
        out.append(json.loads(p))
    return out


def run(ctx):
    quick = ctx.tier == "quick"
    rnd = random.Random(ctx.seed)
    # ---- 1. model checking (obj/Sampler): every range bound 0..40 and bit size 0..12 over every byte value of an attempt, at base 256
    #         and at the reduced base 16; shuffle/sample over whole tapes; the biased variants must be refused
    plan_jobs = [("SamplerMC", "SamplerMC_range.cfg", 8), ("SamplerMC", "SamplerMC_bits_quick.cfg" if quick else "SamplerMC_bits.cfg", 8 if quick else 16)]
    other_jobs = [("SamplerMC", "SamplerMC_nibble.cfg", 8, True), ("SamplerPermMC", "SamplerPermMC_quick.cfg" if quick else "SamplerPermMC_thorough.cfg", 8, True),
                  ("SamplerPermMC", "SamplerPermMC_bytes.cfg", 6, True), ("SamplerMC", "SamplerMC_biased.cfg", 2, False),
                  ("SamplerPermMC", "SamplerPermMC_naive.cfg", 2, False)]
    ex = ThreadPoolExecutor(max_workers=12)
    try:
        pf = [ex.submit(ctx.mc, m, c, workers=w, timeout=2400) for m, c, w in plan_jobs]
        of = [(c, must, ex.submit(ctx.mc, m, c, workers=w, timeout=2400, must_hold=must)) for m, c, w, must in other_jobs]
        # ---- 2. spec -> code: the plans (instances, bytes per attempt, rejected draws) and the symbolic boundary tapes printed by TLC
        plans = []
        bt = None
        for f in pf:
            r = f.result()
            plans += plans_of(r)
            for b in r.prints("BTAPES"):
                bt = json.loads(tlc.tla_string_to_py(b))
        if not plans or bt is None:
            raise Machinery("the sampler models printed no plans / boundary tapes")
        n_plans = len(plans)
        if quick:
            # a seed-dependent third of the instances, every function kept
            rnd.shuffle(plans)
            by_api = {}
            for p in plans:
                by_api.setdefault(p["api"], []).append(p)
            plans = [p for api in sorted(by_api) for p in by_api[api][:max(4, len(by_api[api]) // 3)]]
            cfg = dict(two_byte_all=0.0, two_byte_random=150, second_all=False, max_rej=5, twice_every=7, perm_max_n=6, perm_all_len=1, perm_samples=400,
                       big_random=4, big_other_apis=0.5, det=[["getPrime", 64], ["getPrime", 129]])
        else:
            cfg = dict(two_byte_all=0.35, two_byte_random=3000, second_all=True, max_rej=3, twice_every=5, perm_max_n=7, perm_all_len=2, perm_samples=6000,
                       big_random=40, big_other_apis=1.0, det=[["getPrime", 64], ["getPrime", 129], ["getPrime", 256], ["getPrime", 2], ["getPrime", 512],
                                                               ["RSA.generate", 1024], ["RSA.generate", 2048]])
        plans.sort(key=lambda p: (p["api"], p["p1"], p["p2"], p["p3"]))
        traces = ctx.drive("c18_sampler", [], inp=dict(plans=plans, btapes=bt["range"], bittapes=bt["bits"], cfg=cfg), timeout=3000)
        # ---- 3. code -> spec
        verdicts = ctx.validate("SamplerTrace", traces, family="samplers", cfg_text=TRACE_CFG, timeout=3000)
        _judge(ctx, traces, verdicts, rnd, ex)
        sep = {}
        for c, must, f in of:
            r = f.result()
            if not must:
                if not r.violated:
                    raise Machinery("%s: the biased variant is not rejected by the model (no separation)" % c)
                sep[c] = r.violated
    finally:
        ex.shutdown(wait=True)
    ctx.extra["biased_variants_rejected_by_model"] = sep
    ctx.extra["plans"] = {"printed_by_tlc": n_plans, "replayed": len(plans), "boundary_tapes": bt}
    ctx.exhaustive = False
    ctx.rule = ("model: every public sampler for every norm_maximum 0..40 (several offsets and steps) and bit size 0..12, every byte value an attempt "
                "can draw (base 256: 256 or 65536 draws; base 16: up to 4096), up to 3 attempts; shuffle/sample for n <= 4 over every tape of up to "
                "3 (thorough: 4) 4-bit bytes and n <= 3 over every tape of 2 real bytes. implementation: the instances printed by TLC (quick: a "
                "seed-dependent third) on every first byte value, on the model's rejected draws followed by boundary (thorough: all) second draws, "
                "Integer.* on the three back-ends; shuffle/sample on exhaustive short and sampled longer tapes; cryptographic sizes (five NIST "
                "orders, powers of two, 1024-bit) on TLC's symbolic boundary tapes and random ones; ECC.generate, DSS nonces, blinding factors and "
                "point-multiplication seeds drawn from replaced default sources; distinct_nontrivial = distinct (function, arguments, tape) with "
                "at least one rejected attempt, or of cryptographic size")
    ctx.assume("uniformity is a statement about the map tapes -> results (equal fibres), decided by exhaustive counting on the model and bound to "
               "the code by equality of value and consumption on every replayed tape; no statistical test is made")
    ctx.assume("getPrime / RSA.generate: which candidate survives depends on primality tests that draw entropy themselves; only size, parity, "
               "determinism and consumption are judged (PrimeSearchOpen)")
    ctx.assume("internal consumers are observed by wrapping Integer.random_range / _point.getrandbits and replacing Crypto.Random.new in the recorder "
               "process; if these names disappear the recorder fails (exit 2)")


def _args(t):
    if t["family"] == "small":
        return {"api": t["api"], "p1": t["p1"], "p2": t["p2"], "p3": t["p3"], "backend": t["backend"]}
    if t["family"] == "perm":
        return {"api": t["api"], "n": t["n"], "k": t["k"]}
    if t["family"] == "big":
        return {"api": t["api"], "consumer": t["consumer"], "n": t["n"], "lo": hex(_unl(t["lo"])), "hi": hex(_unl(t["hi"])),
                "documented_lo": hex(_unl(t["dlo"])), "documented_hi": hex(_unl(t["dhi"]))}
    return {"api": t["api"], "n": t["n"]}


def _unl(ls):
    v = 0
    for i, x in enumerate(ls):
        v |= x << (12 * i)
    return v


def _judge(ctx, traces, verdicts, rnd, ex):
    fam_count, api_runs = {}, {}
    good = {}
    for t in traces:
        fam = t["family"]
        fam_count[fam] = fam_count.get(fam, 0) + 1
        key = "%s/%s" % (fam, t["api"])
        api_runs[key] = api_runs.get(key, 0) + len(t["runs"])
        ctx.count(len(t["runs"]))
        nb = t.get("nbytes", 0)
        for run in t["runs"]:
            if fam in ("big", "det") or (fam == "small" and run["drawn"] > nb) or (fam == "perm" and run["drawn"] > max(t["n"] - 1, t["k"])):
                ctx.nontriv([fam, _args(t), run.get("tape")])
        pos, clause = verdicts[t["tid"]]
        if clause == "ok":
            if len(t["runs"]) >= 1:
                good.setdefault(fam, t)
            continue
        if clause.startswith("harness:"):
            raise Machinery("harness inconsistency in trace %d (%s) at run %d: %s" % (t["tid"], key, pos, clause))
        run = t["runs"][pos - 1]
        detail = dict(_args(t), run=pos, tape=bytes(run["tape"]).hex() if "tape" in run else None, drawn=run.get("drawn"), exc=run.get("exc"),
                      value=(hex(_unl(run["val"])) if fam in ("big", "det") and t["api"] != "seed" else run.get("val", run.get("out"))),
                      signer_exception=run.get("sign_exc"),
                      second_execution=[run.get("val2", run.get("out2")), run.get("drawn2"), run.get("exc2")] if run.get("twice", fam == "det") else None)
        what = t["api"] if fam != "big" else "%s[%s]" % (t["api"], t["ckey"])
        ctx.violation("%s/%s: %s" % (fam, what, clause), detail, replay=dict(t, runs=[run]))
    for fam, t in sorted(good.items()):
        run = t["runs"][len(t["runs"]) // 2]
        ctx.sample({"family": fam, "call": _args(t), "tape": bytes(run["tape"]).hex() if "tape" in run else None, "drawn": run.get("drawn"),
                    "result": run.get("val", run.get("out")), "runs_in_trace": len(t["runs"]), "tlc_verdict": "ok"})
    ctx.extra["traces_per_family"] = fam_count
    ctx.extra["runs_per_function"] = api_runs
    # ---- 4. binding self-checks: a corrupted record must be rejected
    need = [f for f in ("small", "perm", "big", "det") if f not in good]
    if need:
        if not ctx.violations:
            raise Machinery("no accepted trace of family %s to run the binding self-checks on" % need)
        return

    def cut(t, n=40):
        return dict(t, runs=t["runs"][:n])

    def pick(t, cond):
        return next(i for i, r in enumerate(t["runs"]) if cond(r))
    def first(pred):
        return next((t for t in traces if verdicts[t["tid"]][1] == "ok" and pred(t)), None)
    gs = first(lambda t: t["family"] == "small" and t["api"] == "random_range" and t["p2"] - t["p1"] >= 2)
    gp = first(lambda t: t["family"] == "perm" and t["api"] == "shuffle" and t["n"] >= 3)
    gb = first(lambda t: t["family"] == "big" and t["consumer"].startswith("ECC.generate(p"))
    gn = first(lambda t: t["family"] == "big" and "nonce" in t["consumer"])
    gd = good["det"]
    if None in (gs, gp, gb, gn):
        if not ctx.violations:       # in a run with violations the accepted record of some shape may be missing: the violations stand
            raise Machinery("no accepted trace of some shape to run the binding self-checks on")
        return
    gs, gp = cut(gs), cut(gp)

    def other_value(t):          # another value of the range: only the machine can tell
        i = pick(t, lambda r: r["exc"] == "none")
        r = t["runs"][i]
        r["val"] = t["p1"] if r["val"] != t["p1"] else t["p1"] + 1
        r["val2"] = r["val"]
        return t

    def one_byte_more(t):
        i = pick(t, lambda r: r["exc"] == "none")
        t["runs"][i]["drawn"] += 1
        t["runs"][i]["drawn2"] += 1
        return t

    def out_of_range(t):
        i = pick(t, lambda r: r["exc"] == "none")
        t["runs"][i]["val"] = t["p2"] + 1
        return t

    def second_differs(t):
        i = pick(t, lambda r: r["exc"] == "none")
        r = t["runs"][i]
        r["twice"], r["val2"], r["drawn2"], r["exc2"] = True, (r["val"] + 1 if r["val"] < t["p2"] else r["val"] - 1), r["drawn"], "none"
        return t

    def swap_out(t):
        i = pick(t, lambda r: r["exc"] == "none")
        o = t["runs"][i]["out"]
        o[0], o[1] = o[1], o[0]
        t["runs"][i]["out2"] = list(o)
        return t

    def scalar_bit(t):
        i = pick(t, lambda r: r["exc"] == "none" and len(r["val"]) > 2)
        t["runs"][i]["val"][1] ^= 1
        t["runs"][i]["val2"] = list(t["runs"][i]["val"])
        return t

    def other_signature(t):
        i = pick(t, lambda r: r["exc"] == "none" and r["aux"])
        t["runs"][i]["aux2"][-1] ^= 1
        return t

    def other_prime(t):
        t["runs"][0]["val2"][0] ^= 2
        return t
    checks = [(gs, other_value, "small: another value of the range"), (gs, one_byte_more, "small: one byte more drawn"),
              (gs, out_of_range, "small: value outside the range"), (gs, second_differs, "small: second execution differs"),
              (gp, swap_out, "perm: two elements of the result swapped"), (gb, scalar_bit, "big: one bit of a private scalar"),
              (gn, other_signature, "big: second signature differs"), (gd, other_prime, "det: second prime differs")]
    for f in [ex.submit(_selfcheck, ctx, "SamplerTrace", TRACE_CFG, g, fn, name) for g, fn, name in checks]:
        f.result()
    expect = {"small: another value of the range": "value differs from the rejection sampler", "small: one byte more drawn": "bytes drawn differ",
              "small: value outside the range": "result out of range", "small: second execution differs": "not a deterministic function of the tape"}
    for b in ctx.binding_checks:
        if b["family"] in expect and b["corrupted"] != expect[b["family"]]:
            raise Machinery("binding self-check %s: rejected with clause %r, expected %r" % (b["family"], b["corrupted"], expect[b["family"]]))
