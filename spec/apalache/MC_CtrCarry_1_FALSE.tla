---- MODULE MC_CtrCarry_1_FALSE ----
W == 1
LittleEndian == FALSE
VARIABLES
  \* @type: Int -> Int;
  ctr,
  \* @type: Int -> Int;
  ctr0,
  \* @type: Int;
  k,
  \* @type: Bool;
  done
INSTANCE CtrCarryApa
====
