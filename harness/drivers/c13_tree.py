"""Grammar-aware mutation of DER encodings (input generation only; no verdicts, no use of the library under test).

An encoding is parsed into a tree (constructed elements, and OCTET/BIT STRINGs whose content is itself one DER element,
are opened); a mutation edits one node and the tree is written back with correct lengths everywhere else, so that the
defect sits exactly where the mutation's class says.  Every mutation is (class, bytes, path) where path is the list of
child indices from the root to the edited node.
"""

STRICT_CLASSES = ("len80", "len-nonminimal", "truncated", "trailing")


class Node(object):
    __slots__ = ("tag", "content", "kids", "wrap")

    def __init__(self, tag, content, kids=None, wrap=None):
        self.tag = tag
        self.content = content
        self.kids = kids
        self.wrap = wrap      # None | "octet" | "bit"


def lenoctets(n):
    if n < 128:
        return bytes([n])
    b = n.to_bytes((n.bit_length() + 7) // 8, "big")
    return bytes([0x80 | len(b)]) + b


def read_header(b, o):
    """(tag, header length, content length) of the well-formed TLV at offset o, or None"""
    if o + 2 > len(b):
        return None
    tag, l0 = b[o], b[o + 1]
    if l0 < 128:
        h, L = 2, l0
    else:
        k = l0 & 0x7F
        if k == 0 or k > 3 or o + 2 + k > len(b) or b[o + 2] == 0:
            return None
        L = int.from_bytes(b[o + 2:o + 2 + k], "big")
        if L < 128:
            return None
        h = 2 + k
    if o + h + L > len(b):
        return None
    return tag, h, L


def parse_all(b, depth=0):
    """list of nodes if b is a concatenation of well-formed TLVs, else None"""
    out, o = [], 0
    while o < len(b):
        r = read_header(b, o)
        if r is None:
            return None
        tag, h, L = r
        out.append(parse_node(tag, bytes(b[o + h:o + h + L]), depth))
        o += h + L
    return out


def parse_node(tag, content, depth=0):
    n = Node(tag, content)
    if depth > 8:
        return n
    if tag & 0x20:
        kids = parse_all(content, depth + 1)
        if kids is not None:
            n.kids = kids
    elif tag == 0x04 and len(content) >= 2 and content[0] in (0x30, 0x02, 0x04):
        kids = parse_all(content, depth + 1)
        if kids is not None and len(kids) == 1:
            n.kids, n.wrap = kids, "octet"
    elif tag == 0x03 and len(content) >= 3 and content[0] == 0 and content[1] in (0x30, 0x02):
        kids = parse_all(content[1:], depth + 1)
        if kids is not None and len(kids) == 1:
            n.kids, n.wrap = kids, "bit"
    return n


def parse(b):
    ns = parse_all(bytes(b))
    if ns is None or len(ns) != 1:
        return None
    return ns[0]


def body(n):
    if n.kids is None:
        return n.content
    inner = b"".join(ser(k) for k in n.kids)
    return (b"\x00" + inner) if n.wrap == "bit" else inner


def ser(n):
    if isinstance(n, (bytes, bytearray)):      # a raw replacement
        return bytes(n)
    c = body(n)
    return bytes([n.tag]) + lenoctets(len(c)) + c


def nodes(root):
    """[(path, node)] in depth-first order"""
    out = []

    def rec(n, path):
        out.append((path, n))
        if n.kids is not None:
            for i, k in enumerate(n.kids):
                rec(k, path + [i])
    rec(root, [])
    return out


def with_replaced(root, path, repl):
    """serialisation of the tree with the node at path replaced by the list of nodes/raw byte strings `repl`"""
    def rec(n, p):
        if not p:
            return b"".join(ser(x) for x in repl)
        kids = list(n.kids)
        inner = b"".join(rec(k, p[1:]) if i == p[0] else ser(k) for i, k in enumerate(kids))
        if n.wrap == "bit":
            inner = b"\x00" + inner
        return bytes([n.tag]) + lenoctets(len(inner)) + inner
    return rec(root, list(path))


def nonminimal(L):
    if L < 128:
        return bytes([0x81, L])
    if L < 256:
        return bytes([0x82, 0, L])
    b = L.to_bytes((L.bit_length() + 7) // 8, "big")
    return bytes([0x80 | (len(b) + 1), 0]) + b


REPLACEMENTS = [
    ("int0", bytes([2, 1, 0])), ("int-1", bytes([2, 1, 255])), ("int-big", bytes([2, 9, 1, 0, 0, 0, 0, 0, 0, 0, 0])),
    ("int-empty", bytes([2, 0])), ("octets-empty", bytes([4, 0])), ("octets", bytes([4, 3, 1, 2, 3])), ("null", bytes([5, 0])),
    ("seq-empty", bytes([48, 0])), ("seq-int", bytes([48, 3, 2, 1, 1])), ("bool", bytes([1, 1, 255])), ("oid", bytes([6, 2, 42, 3])),
    ("bits-empty", bytes([3, 1, 0])), ("ctx0", bytes([160, 0])), ("set-empty", bytes([49, 0])),
]


def mutations(enc, rnd=None, elements=None):
    """all single-node mutations of the encoding `enc` (bytes) -> list of (class, bytes, path).
    elements: optional cap on the number of nodes edited (chosen with rnd)."""
    enc = bytes(enc)
    root = parse(enc)
    out = []
    # whole-string mutations (no tree needed)
    for k in sorted(set([0, 1, 2, len(enc) // 2, len(enc) - 1])):
        if 0 <= k < len(enc):
            out.append(("truncated", enc[:k], []))
    for b in (0x00, 0x30, 0xFF):
        out.append(("trailing", enc + bytes([b]), []))
    out.append(("trailing", enc + enc, []))
    if root is None:
        return out
    ns = nodes(root)
    if elements is not None and len(ns) > elements:
        keep = [ns[0]] + rnd.sample(ns[1:], elements - 1)
        ns = keep
    for path, n in ns:
        c = body(n)
        L = len(c)
        t = bytes([n.tag])

        def put(cls, raw):
            out.append((cls, with_replaced(root, path, [raw]), path))
        # ---- length octets of this element (the rest of the tree keeps consistent lengths)
        put("len80", t + b"\x80" + c)
        put("len80", t + b"\x80" + c + b"\x00\x00")            # what BER would call a complete indefinite-length element
        put("len-nonminimal", t + nonminimal(L) + c)
        put("len-huge", t + b"\x84\xff\xff\xff\xff" + c)
        put("len-reserved", t + b"\xff" + c)
        put("len-longer", t + lenoctets(L + 1) + c)              # announces one octet more than there is
        if L > 0:
            put("len-shorter", t + lenoctets(L - 1) + c)        # leaves one octet behind the element
        put("len-missing", t)
        # ---- identifier octet
        for nt in sorted(set([n.tag ^ 0x20, n.tag | 0x1F, 0x02, 0x04, 0x30, 0x05, 0xA0, 0x80]) - set([n.tag])):
            put("retag-%02x-to-%02x" % (n.tag, nt), bytes([nt]) + lenoctets(L) + c)
        # ---- content
        put("content-empty", t + b"\x00")
        put("content-extra-octet", t + lenoctets(L + 1) + c + b"\x00")
        if L > 0:
            put("content-cut", t + lenoctets(L - 1) + c[:-1])
            put("content-flip-first", t + lenoctets(L) + bytes([c[0] ^ 0x80]) + c[1:])
            put("content-flip-last", t + lenoctets(L) + c[:-1] + bytes([c[-1] ^ 0x01]))
        if n.tag == 0x02:
            put("int-leading-zero", t + lenoctets(L + 1) + b"\x00" + c)
            put("int-leading-ff", t + lenoctets(L + 1) + b"\xff" + c)
        if n.tag == 0x06 and L > 0:
            put("oid-dangling", t + lenoctets(L + 1) + c + b"\x81")
            put("oid-padded-arc", t + lenoctets(L + 1) + c[:1] + b"\x80" + c[1:])
        # ---- element as a whole
        if path:
            out.append(("drop-element", with_replaced(root, path, []), path))
            out.append(("dup-element", with_replaced(root, path, [n, n]), path))
        for name, raw in REPLACEMENTS:
            if raw != ser(n):
                put("replace-with-" + name, raw)
    return out
