"""C06 - EC arithmetic follows the group law; ECDH / X25519 / X448 secrets are correct.

1. sys/KeyAgreement is explored exhaustively by TLC (mc/KeyAgreementMC): every equipment of two parties with static/ephemeral
   key pairs on up to two curves, every delivery of every public key (withheld / genuine / replaced by a low-order point), every
   caller mistake; invariants: both parties' secrets are the same term, exactly the seven SP 800-56A equipments yield a secret,
   no secret from bad input.  A mutated table (the responder of C(1e,2s) mixing up its primitives) must violate Agreement.
2. Every finished configuration TLC printed is a history; a tier- and seed-dependent sample is replayed on the real
   Crypto.Protocol.DH.key_agreement for both parties (drivers/c06_ec.py ka) on concrete curves.
3. The real EccPoint / EccXPoint arithmetic is recorded on the nine curves and on scaled-down SEC 2 curves run through the generic
   C code (drivers/c06_ec.py arith): every operand class, structured and random scalars.
4. TLC judges every record with trace/EcTrace (relations of data/ECGroup, certified link chains, the RFC 7748 ladder, the outcome
   table of sys/KeyAgreement)."""
import copy
import json
import random
from concurrent.futures import ThreadPoolExecutor

from .. import core, tlc

LEVEL = "model_checking"

SMALL = [("secp112r1", 14), ("secp112r1", 16), ("secp128r1", 16)]
NIST = ["P-192", "P-224", "P-256", "P-384", "P-521"]
BITS = {"secp112r1": 112, "secp128r1": 128, "P-192": 192, "P-224": 224, "P-256": 256, "P-384": 384, "P-521": 521, "Ed25519": 253, "Ed448": 446,
        "Curve25519": 253, "Curve448": 446}
TINY = [0, 1, 2, 3, 4, 5, 7, 8, 15, 16, 255, 256, 65535, 65537]


def arith_plan(quick, rnd):
    plan = _arith_plan(quick, rnd)
    for it in plan:
        if it.get("mul") is not None and it["curve"] not in ("Curve25519", "Curve448"):
            # the neighbours of the generator: -G and a second object with the generator's coordinates
            bits = BITS[it["curve"]]
            sc = [1, 2, "rand:%d" % rnd.randrange(8, 60)] if (quick and bits > 130) else [1, 2, "n-1", "n+1", "rand:%d" % rnd.randrange(8, bits)]
            it["mul"].append({"points": ["mG", "G2"], "scalars": sc})
    return plan


def _arith_plan(quick, rnd):
    plan = []
    # scaled-down curves through the generic C path: every operand class x every scalar class
    for name, clen in SMALL:
        bits = BITS[name]
        rs = ["rand:%d" % b for b in ([8, 31, 64, bits - 1, bits, bits + 1, 150, 200] if quick else
                                      [8, 9, 16, 31, 32, 33, 63, 64, 65, 100, bits - 1, bits, bits + 1, 129, 150, 191, 200, 256, 300])]
        sc = [0, 1, 2, 3, "n-1", "n", "n+1", "2n+5", "hn+1"] + rs
        if quick and clen != 14:       # the full scalar list runs on secp112r1 with 14-byte coordinates; the other two configurations get the structured ones
            mul = [{"points": ["G", "O"], "scalars": [0, 1, 2, 3, "n-1", "n", "n+1", "2n+5", "rand:%d" % rnd.randrange(8, bits), "rand:%d" % bits, "rand:%d" % rnd.randrange(bits + 1, 210)]},
                   {"points": [rnd.choice(["A", "R"])], "scalars": [rnd.choice(["n", "n+1", "n-1"]), "rand:%d" % rnd.randrange(8, 210)]},
                   {"points": ["G", "R"], "scalars": [rnd.choice(["n", "n+1"]), 1, 0], "unblinded": True}]
        elif quick:
            mul = [{"points": ["G", "O"], "scalars": sc},
                   {"points": ["A"], "scalars": [0, 1, 2, "n", "n+1", "rand:%d" % rnd.randrange(8, bits), "rand:%d" % rnd.randrange(bits, 210)]},
                   {"points": ["R"], "scalars": [0, 1, 3, "n-1", "2n+5", "rand:%d" % rnd.randrange(8, bits), "rand:%d" % rnd.randrange(bits, 210)]},
                   {"points": ["G", "R"], "scalars": [rnd.choice(["n", "n+1"]), "rand:%d" % bits, 1, 0], "unblinded": True}]
            if clen == 14:               # a scalar several times as long as the order; all-ones scalars filling whole 64-bit words (carries of the blinded scalar)
                mul.append({"points": [rnd.choice(["G", "A", "R"])], "scalars": ["rand:%d" % rnd.randrange(400, 700), "ones:256", rnd.choice(["ones:192", "ones:320"])]})
        else:
            mul = [{"points": ["G", "A", "R", "O"], "scalars": sc},
                   {"points": ["G", "R"], "scalars": ["n", "n+1", "rand:%d" % bits, 1, 0], "unblinded": True},
                   {"points": ["G", "A", "B", "R"], "scalars": TINY + ["pow2:%d" % (bits - 1), "ones:%d" % bits, "pow2:%d" % bits] + ["rand:%d" % rnd.randrange(2, 260) for _ in range(40)]},
                   {"points": ["G", "R"], "scalars": ["rand:%d" % rnd.randrange(400, 1200), "rand:%d" % rnd.randrange(1200, 2100), "ones:128", "ones:192", "ones:256", "ones:320", "ones:384"]}]
        plan.append({"curve": name, "clen": clen, "do": ["classes"], "mul": mul})
    # full-size Weierstrass curves: every operand class, small scalars on G / multiples / arbitrary points, structured full-length scalars
    big2 = rnd.choice(["P-384", "P-521"])
    for name in NIST:
        bits = BITS[name]
        mul = [{"points": ["G", "A", "R", "O"], "scalars": [0, 1, 2, 3, rnd.choice(TINY[4:]), "rand:%d" % rnd.randrange(9, 40)]}]
        if quick:
            full = {"P-192": ["n-1", "n", "n+1"], "P-224": ["n-1", "n", "n+1"], "P-256": ["n-1", "n", "n+1", "2n+5"], "P-384": ["n"], "P-521": ["n"]}[name]
            if name == big2:                                          # a scalar longer than the field on the generator (precomputed tables), on one of the big curves by the seed
                full = full + ["pow2:%d" % bits]
            mul.append({"points": ["G"], "scalars": full})
            other = rnd.choice(["n-1", "n+1", "rand:%d" % bits])
            mul.append({"points": [rnd.choice(["A", "R"])], "scalars": [other if name not in ("P-384", "P-521") else "rand:%d" % rnd.randrange(60, 200)]})
            if name == ["P-192", "P-224", "P-256"][rnd.randrange(3)]:  # all-ones scalar two words longer than the order (carries of the blinded scalar), on one curve by the seed
                mul.append({"points": [rnd.choice(["G", "A"])], "scalars": ["ones:%d" % (64 * ((bits + 63) // 64 + 2))]})
            if name == ["P-384", "P-521"][rnd.randrange(2)]:          # one of the two big curves gets a second full-length scalar, by the seed
                mul.append({"points": [rnd.choice(["G", "R"])], "scalars": [other]})
        else:
            nfull = {"P-192": 60, "P-224": 60, "P-256": 90, "P-384": 40, "P-521": 16}[name]
            mul.append({"points": ["G", "R"], "scalars": ["n-1", "n", "n+1", "2n+5", "pow2:%d" % bits]})
            mul.append({"points": ["A"], "scalars": ["2n+5", "pow2:%d" % (bits - 1), "ones:%d" % bits]})
            mul.append({"points": ["G", "R"], "scalars": ["ones:%d" % (64 * ((bits + 63) // 64 + w)) for w in ((1, 2, 3) if bits < 300 else (2,))]})
            mul.append({"points": ["G"], "scalars": ["rand:%d" % rnd.choice([bits, bits, bits - 1, bits - 7, bits + 1, bits + 64]) for _ in range(nfull // 2)]})
            mul.append({"points": ["R"], "scalars": ["rand:%d" % rnd.choice([bits, bits, bits - 1, bits - 9]) for _ in range(nfull // 4)]})
            mul.append({"points": ["A"], "scalars": ["rand:%d" % rnd.choice([bits, bits, bits - 1, bits - 30]) for _ in range(nfull // 4)]})
            mul.append({"points": ["G", "R"], "scalars": ["rand:%d" % rnd.randrange(40, bits) for _ in range(6)] + ["n"], "unblinded": True})
        plan.append({"curve": name, "do": ["classes"], "mul": mul})
    # Edwards curves: plus the points of order 2, 4, 8 and points of mixed order
    for name in ("Ed25519", "Ed448"):
        bits = BITS[name]
        low = ["T2", "T4", "T8"]
        mul = [{"points": ["G", "A", "R", "M", "O"] + low, "scalars": [0, 1, 2, 3, 4, 8, rnd.choice(TINY[4:]), "rand:%d" % rnd.randrange(9, 40)]}]
        if quick:
            mul.append({"points": ["G"], "scalars": ["n"] + (["n+1"] if name == "Ed25519" else [])})
            mul.append({"points": ["R" if name == "Ed25519" else rnd.choice(["T4", "M"])], "scalars": ["hn" if name == "Ed25519" else "rand:%d" % rnd.randrange(60, 160)]})
        else:
            nfull = {"Ed25519": 80, "Ed448": 18}[name]
            mul.append({"points": ["G", "R", "M"], "scalars": ["n-1", "n", "n+1", "hn"]})
            mul.append({"points": ["G"], "scalars": ["rand:%d" % rnd.choice([bits, bits, bits - 1, bits + 3, bits + 64]) for _ in range(nfull // 2)]})
            mul.append({"points": ["R", "M", "A"], "scalars": ["rand:%d" % rnd.choice([bits, bits - 1, bits + 3]) for _ in range(nfull // 6)]})
            mul.append({"points": low, "scalars": ["rand:%d" % rnd.randrange(40, 200), "n", "hn+1"]})
            mul.append({"points": ["G", "R"], "scalars": ["ones:%d" % (64 * ((bits + 63) // 64 + w)) for w in (0, 1)]})
        plan.append({"curve": name, "do": ["classes"], "mul": mul})
    # Montgomery curves, x only
    for name in ("Curve25519", "Curve448"):
        bits = BITS[name]
        allu = ["G", "rand", "0", "1", "p-1", "p", "p+1", "p+G", "max", "ord8a", "ord8b", "inf"]
        mul = [{"points": allu, "scalars": [0, 1, 2, 3, 4, 8, rnd.choice(TINY[4:]), "rand:%d" % rnd.randrange(9, 30)]}]
        if quick:
            mul.append({"points": ["G"], "scalars": ["n"]})
            mul.append({"points": ["rand"], "scalars": [rnd.choice(["rand:%d" % (bits + 2), "n+1", "hn"]) if name == "Curve25519" else "rand:%d" % rnd.randrange(60, 200)]})
        else:
            nfull = {"Curve25519": 70, "Curve448": 25}[name]
            mul.append({"points": ["G", "rand"], "scalars": ["n-1", "n", "n+1", "hn", "hn+1"]})
            mul.append({"points": ["G", "rand", "rand2", "max", "p+G"], "scalars": ["rand:%d" % rnd.choice([bits + 2, bits + 2, bits, bits - 5, bits + 66]) for _ in range(nfull // 5)]})
            mul.append({"points": ["0", "1", "p-1", "ord8a", "p+1"], "scalars": ["rand:%d" % rnd.randrange(40, 200), "hn"]})
            mul.append({"points": ["G", "rand"], "scalars": ["ones:%d" % (64 * ((bits + 63) // 64 + w)) for w in (0, 1)]})
        if quick:
            xdh = [rnd.choice(["topbit", "noncanonical", "twist-or-curve", "valid"]), "low"] if name == "Curve25519" else [rnd.choice(["valid", "noncanonical", "twist-or-curve"])]
        else:
            xdh = (["valid", "topbit", "noncanonical", "twist-or-curve"] * 5 + ["low"] * 4) if name == "Curve25519" else (["valid", "noncanonical", "twist-or-curve"] * 2 + ["low"] * 2)
        plan.append({"curve": name, "do": ["classes"], "mul": mul, "xdh": xdh})
    return plan


PAIRS_SMALL = [("secp112r1", 14, "secp128r1", 16), ("secp128r1", 16, "secp112r1", 16), ("secp112r1", 16, "secp128r1", 16)]
PAIRS_BIG = [("P-256", None, "P-384", None), ("P-192", None, "P-224", None), ("P-224", None, "P-521", None), ("P-384", None, "P-256", None),
             ("P-521", None, "P-192", None), ("P-256", None, "Curve25519", None)]
PAIRS_MT = [("Curve25519", None, "Curve448", None), ("Curve448", None, "Curve25519", None), ("Curve25519", None, "P-256", None)]


def evaluated_parts(h):
    """number of ECC CDH primitives the judge has to recompute for a history"""
    n = 0
    for x in ("U", "V"):
        if h["hint"][x]["eval"]:
            n += (1 if h["hint"][x]["ze"] else 0) + (1 if h["hint"][x]["zs"] else 0)
    return n


def ka_items(hists, quick, rnd):
    cheap = [i for i, h in enumerate(hists) if evaluated_parts(h) == 0]
    heavy = [i for i, h in enumerate(hists) if evaluated_parts(h) > 0]
    rnd.shuffle(cheap)
    rnd.shuffle(heavy)
    clean = [i for i in heavy if all(hists[i]["hint"][x]["cls"] == ["Z"] for x in "UV")]          # both parties derive a secret
    items = []

    def add(i, pair, dbits=None):
        items.append({"hist": hists[i], "hidx": i, "curve1": pair[0], "clen1": pair[1], "curve2": pair[2], "clen2": pair[3], "dbits": dbits})
    # refusals only (no primitive to certify): cheap, over every curve pairing
    for j, i in enumerate(cheap[:1500 if quick else len(cheap)]):
        add(i, (PAIRS_SMALL + PAIRS_BIG + PAIRS_MT)[j % 12])
    # histories with primitives: scaled-down curves with full-range private keys
    for j, i in enumerate(heavy[:48 if quick else 600]):
        add(i, PAIRS_SMALL[j % 3], dbits=rnd.randrange(10, 60) if quick and j % 4 else None)
    # every both-parties-succeed history (the seven schemes and their variants) on scaled-down curves in every tier
    for j, i in enumerate(clean):
        add(i, PAIRS_SMALL[(j + 1) % 3])
    # NIST curves with short private keys (the chain is as long as the key), a few full-length
    for j, i in enumerate(heavy[48:48 + (40 if quick else 300)]):
        add(i, PAIRS_BIG[j % 6], dbits=rnd.randrange(8, 25))
    light = [i for i in clean if evaluated_parts(hists[i]) <= 2]             # one primitive per party
    for j, i in enumerate(light[:2] if quick else clean[:40]):
        add(i, PAIRS_BIG[(j * 5) % 6 if not quick else 0], dbits=None)
    # X25519 / X448: the private scalar always has full length
    mt = [i for i in heavy if evaluated_parts(hists[i]) <= 2]
    lowmt = [i for i in mt if any(v == "low" for v in hists[i]["got"].values())]
    okmt = [i for i in mt if i in set(clean)]
    if quick:
        for i in okmt[:2] + lowmt[:1]:
            add(i, PAIRS_MT[0])
        for i in okmt[2:3] + lowmt[1:2]:
            add(i, PAIRS_MT[1])
    else:
        for j, i in enumerate(okmt[:30] + lowmt[:14]):
            add(i, PAIRS_MT[0] if j % 3 else PAIRS_MT[2])
        for i in okmt[30:44] + lowmt[14:20]:
            add(i, PAIRS_MT[1])
    return items


def vkey(t, clause):
    if t["fam"] == "ka":
        if clause[:3] in ("U: ", "V: "):           # which of the two parties failed is in the detail, not in the key
            clause = clause[3:]
        kinds = "/".join(sorted(set("X25519/X448" if c.startswith("Curve") else "scaled-down" if c.startswith("secp") else "NIST" for c in (t["curve1"], t["curve2"]))))
        return "key_agreement (%s): %s" % (kinds, clause)
    return "%s: %s" % (t["curve"], clause)


def describe(t):
    if t["fam"] == "ka":
        return {"family": "ka", "curves": [t["curve1"], t["curve2"]], "keys": {k: v["c"] for k, v in t["keys"].items()}, "got": t["got"], "mis": t["mis"],
                "outcomes": {x: t["calls"][x]["exc"] if t["calls"][x]["exc"] != "none" else "Z (%d bytes)" % len(t["calls"][x]["z"]) for x in "UV"},
                "primitives_recomputed": len(t["jobs"])}
    return {"family": t["fam"], "curve": t["curve"], "op": t["op"], "class": t["cls"], "how": t.get("how", ""), "exc": t.get("exc", "none"),
            "scalar_bits": 12 * len(t["k"]), "links_or_steps": t["cost"] - 1}


SAMPLES = [("chain", lambda t: t["fam"] == "pt" and t["op"] == "mul" and t["cost"] > 100),
           ("inverse", lambda t: t["fam"] == "pt" and t["op"] == "add" and t["cls"] == "P+(-P)"),
           ("ladder", lambda t: t["fam"] == "x" and t["op"] == "xmul" and t["cost"] > 100),
           ("xdh", lambda t: t["fam"] == "x" and t["op"] == "xdh"),
           ("ka secret", lambda t: t["fam"] == "ka" and t["jobs"] and t["calls"]["U"]["exc"] == "none"),
           ("ka low-order", lambda t: t["fam"] == "ka" and any(v == "low" for v in t["got"].values()) and t["jobs"]),
           ("ka refusal", lambda t: t["fam"] == "ka" and not t["jobs"])]


MS = {"secp112r1": 5, "secp128r1": 5, "P-192": 10, "P-224": 12, "P-256": 14, "P-384": 22, "P-521": 30, "Ed25519": 15, "Ed448": 45, "Curve25519": 25, "Curve448": 40}


def est_ms(t):
    """estimated TLC time of a record (measured milliseconds per certified link / ladder step of each curve)"""
    ms = 2
    for j in t["jobs"]:
        ms += (len(j["links"]) if j["kind"] == "links" else 12 * len(j["k"])) * MS[j["curve"]]
    if t.get("op") == "xdh":
        ms += 8 * t["clen"] * MS[t["curve"]]
    return ms


def spread(batch, shards=16):
    """order the records so that the shards of tlc.validate_traces (shard s = every 16th record from s) get about the same work:
    longest-processing-time-first into the least loaded shard that still has room (all shards keep the sizes striding gives them)"""
    n = len(batch)
    sizes = [len(range(s, n, shards)) for s in range(shards)]
    bins = [[] for _ in range(shards)]
    load = [0] * shards
    for t in sorted(batch, key=lambda t: -est_ms(t)):
        s = min((s for s in range(shards) if len(bins[s]) < sizes[s]), key=lambda s: load[s])
        bins[s].append(t)
        load[s] += est_ms(t)
    out = [None] * n
    for s in range(shards):
        for i, t in enumerate(bins[s]):
            out[s + i * shards] = t
    return out


def pred_ok(pred, t):
    try:
        return bool(pred(t))
    except (KeyError, IndexError, TypeError):
        return False


def run(ctx):
    quick = ctx.tier == "quick"
    rnd = random.Random("%d/c06" % ctx.seed)
    # 1. the role matrix, exhaustively
    r = ctx.mc("KeyAgreementMC", "KeyAgreementMC.cfg", workers=4, timeout=900)
    hists = [json.loads(h) for h in sorted(set(tlc.tla_string_to_py(h) for h in r.prints("HIST")))]
    if len(hists) < 10000:
        raise core.Machinery("KeyAgreementMC emitted only %d configurations" % len(hists))
    rm = ctx.mc("KeyAgreementMC", "KeyAgreementMC_mutant.cfg", workers=4, timeout=900, must_hold=False)
    if "Agreement" not in rm.violated:
        raise core.Machinery("the KeyAgreement model does not separate a responder that mixes up its C(1e,2s) primitives: %s" % rm.violated)
    ctx.extra["mutated_table_rejected_by_model"] = rm.violated
    ctx.extra["configurations_from_model"] = len(hists)
    # binding self-checks (section 5 below): which accepted records are wanted, and how each is falsified
    wanted = []                                       # [predicate, corruption, family, accepted record or None]

    def check(pred, corrupt, family):
        wanted.append([pred, corrupt, family, None])

    def flip_R(t):
        t["R"]["x"][0] ^= 1
        return t

    def flip_y(t):
        t["R"]["y"][-1] ^= 2048 if t["R"]["y"][-1] >= 2048 else 1
        return t

    def flip_link(t):
        ls = t["jobs"][0]["links"]
        ls[len(ls) // 2]["r"]["y"][0] ^= 1
        return t

    def flip_xout(t):
        t["out"]["x"][0] ^= 1
        return t

    def flip_z(t):
        t["calls"]["V"]["z"][-1] ^= 1
        return t

    def both_z(t):
        for x in "UV":
            t["calls"][x]["z"][0] ^= 128
        return t

    def unrefuse(t):
        for x in "UV":
            if t["calls"][x]["exc"] == "ValueError":
                t["calls"][x] = {"exc": "none", "z": [0] * 16}
        return t

    def wrong_class(t):
        for x in "UV":
            if t["hint"][x]["cls"] == ["TypeError"]:
                t["calls"][x]["exc"] = "ValueError"
        return t
    check(lambda t: t["fam"] == "pt" and t["op"] == "add" and t["cls"] == "P+Q" and t["curve"] == "P-256", flip_R, "ec: one bit of the x-coordinate of a sum (P-256)")
    check(lambda t: t["fam"] == "pt" and t["op"] == "add" and t["cls"] == "P+P" and t["curve"] == "Ed448", flip_y, "ec: one bit of the y-coordinate of a doubling (Ed448)")
    check(lambda t: t["fam"] == "pt" and t["op"] == "mul" and 40 < t["cost"] < 400 and t["R"]["x"] and not t["curve"].startswith("secp"), flip_R,
          "ec: one bit of a scalar multiple (%(curve)s)")
    check(lambda t: t["fam"] == "pt" and t["op"] == "mul" and 40 < t["cost"] < 400 and t["curve"].startswith("secp") and t["jobs"]
          and len(t["jobs"][0]["links"]) > 2 and t["jobs"][0]["links"][len(t["jobs"][0]["links"]) // 2]["r"]["y"], flip_link,
          "ec: one bit of an intermediate multiple of the chain (%(curve)s)")
    check(lambda t: t["fam"] == "x" and t["op"] == "xmul" and 30 < t["cost"] < 900 and t["out"]["x"], flip_xout, "ec: one bit of an x-only scalar multiple (%(curve)s)")

    def flip_xdh(t):
        t["z"][3] ^= 16
        return t
    check(lambda t: t["fam"] == "x" and t["op"] == "xdh" and t["exc"] == "none" and t["curve"] == "Curve25519", flip_xdh, "ec: one bit of an X25519 secret from byte strings")
    kz = lambda t: t["fam"] == "ka" and t["calls"]["V"]["exc"] == "none" and t["calls"]["U"]["exc"] == "none" and t["cost"] < 1500   # noqa: E731
    check(kz, flip_z, "ka: one bit of one party's shared secret")
    check(kz, both_z, "ka: both parties' secrets falsified alike")
    check(lambda t: t["fam"] == "ka" and t["jobs"] and any(v == "low" for v in t["got"].values()) and t["cost"] < 1500
          and "ValueError" in (t["calls"]["U"]["exc"], t["calls"]["V"]["exc"]) and not any(t["mis"][x] != "none" for x in "UV"), unrefuse,
          "ka: a neutral result returned instead of refused")
    check(lambda t: t["fam"] == "ka" and any(t["hint"][x]["cls"] == ["TypeError"] for x in "UV") and len(set(v["c"] for v in t["keys"].values()) - {0}) == 2, wrong_class,
          "ka: curve mismatch refused with the wrong exception class")
    # 2.-4. record and judge, in rounds (each round: recorder processes side by side -- one per curve configuration, the key-agreement
    # items in slices -- then one sharded TLC batch); rounds bound the memory of the thorough tier, the quick tier is one round
    plan = arith_plan(quick, rnd)
    items = ka_items(hists, quick, rnd)
    nrounds = 1 if quick else 8
    verdicts = {}
    links = 0
    per = {}
    samples = {}
    tid0 = 0
    for rd in range(nrounds):
        jobs = []
        for i, it in enumerate(plan):
            sub = dict(it, rid=100 * i + rd, do=it["do"] if rd == 0 else [],
                       mul=[dict(m, scalars=m["scalars"][rd::nrounds]) for m in it["mul"] if m["scalars"][rd::nrounds]], xdh=it.get("xdh", [])[rd::nrounds])
            if sub["do"] or sub["mul"] or sub["xdh"]:
                jobs.append(("arith", {"plan": [sub]}, BITS[it["curve"]] * 100))
        mine = [dict(it, rid=j) for j, it in enumerate(items) if j % nrounds == rd]
        nk = 2 if quick else 3
        jobs += [("ka", {"items": mine[j::nk]}, 10 ** 6) for j in range(nk) if mine[j::nk]]
        jobs.sort(key=lambda j: -j[2])
        with ThreadPoolExecutor(max_workers=8) as ex:
            parts = list(ex.map(lambda j: ctx.drive("c06_ec", [j[0]], inp=j[1], timeout=3000), jobs))
        batch = [t for part in parts for t in part]
        del parts
        batch = spread(batch)
        for i, t in enumerate(batch):
            t["tid"] = tid0 + i + 1
        tid0 += len(batch)
        v = ctx.validate("EcTrace", batch, family="ec (round %d of %d)" % (rd + 1, nrounds), timeout=3000)
        verdicts.update(v)
        for t in batch:
            ctx.count()
            pos, clause = v[t["tid"]]
            links += t["cost"] - 1
            if t["fam"] == "ka":
                ctx.nontriv(["ka", t["curve1"], t["curve2"], t["keys"], t["got"], t["mis"]])
                fam = "ka:" + ("/".join(sorted(set(t["calls"][x]["exc"] if t["calls"][x]["exc"] != "none" else "Z" for x in "UV"))))
            else:
                ctx.nontriv([t["fam"], t["curve"], t["op"], t.get("how"), t["P"], t["Q"], t["k"], t.get("kb"), t.get("ub")])
                fam = "%s:%s" % (t["curve"], t["op"])
            per[fam] = per.get(fam, 0) + 1
            if clause != "ok":
                if "harness:" in clause:
                    raise core.Machinery("recorder inconsistency: %s in %s" % (clause, json.dumps(describe(t))))
                d = describe(t)
                d["position"] = pos
                d["clause"] = clause
                ctx.violation(vkey(t, clause), d, replay=t)
            for nm, pred in SAMPLES:
                if nm not in samples and pred(t):
                    samples[nm] = dict(describe(t), tlc_verdict=clause)
            if clause == "ok":
                for w in wanted:
                    if w[3] is None and pred_ok(w[0], t):
                        w[3] = copy.deepcopy(t)
        del batch
    ctx.extra["records_per_family"] = dict(sorted(per.items()))
    ctx.extra["links_and_ladder_steps_certified"] = links
    for nm, _ in SAMPLES:
        if nm in samples:
            ctx.sample(samples[nm])
    # 5. binding self-checks: a falsified result must be rejected (all pairs judged in one batch)
    checks = []
    for pred, corrupt, family, g in wanted:
        if g is None:
            raise core.Machinery("no accepted record for the binding self-check '%s'" % family)
        checks.append((g, corrupt, family % g if "%" in family else family))
    batch = []
    for i, (g, corrupt, family) in enumerate(checks):
        good, bad = copy.deepcopy(g), corrupt(copy.deepcopy(g))
        good["tid"], bad["tid"] = 2 * i + 1, 2 * i + 2
        batch += [good, bad]
    v, _ = tlc.validate_traces("EcTrace", batch, shards=min(6, len(batch)), timeout=1500)
    for i, (g, corrupt, family) in enumerate(checks):
        good_v, bad_v = v[2 * i + 1][1], v[2 * i + 2][1]
        passed = good_v == "ok" and bad_v != "ok" and "harness:" not in bad_v
        ctx.binding_checks.append({"family": family, "original": good_v, "corrupted": bad_v, "ok": passed})
        if not passed:
            raise core.Machinery("binding self-check failed for %s: original=%r corrupted=%r" % (family, good_v, bad_v))
    ctx.rule = ("arithmetic: on each of 3 scaled-down configurations (secp112r1 with 14- and 16-byte coordinates, secp128r1; real generic C code), the 5 NIST curves, "
                "Ed25519/Ed448 and Curve25519/Curve448: every operand class (P+Q, P+P with two objects and with one, P+(-P), P+O, O+P, O+O, low-order and mixed-order "
                "operands on Edwards curves; +, +=, double(), -, copy(), ==, !=, is_point_at_infinity()) on G, random multiples, arbitrary points (square-root construction) and "
                "the neutral element; scalar multiples (*, *=, int * P, Integer scalars; blinded and unblinded C path) for 0, 1, 2, 3, n-1, n, n+1, 2n+5, h*n, powers of two, all-ones "
                "and random scalars of 8 bits up to beyond the order (quick: full length on the scaled-down curves and a few structured ones per full-size curve; thorough: "
                "full-length random scalars on G and arbitrary points); key agreement: configurations enumerated by TLC from sys/KeyAgreement (16 presence combinations x curve "
                "match/mismatch x genuine/low-order/withheld public keys x caller mistakes), a seed-dependent sample replayed for both parties; "
                "distinct = distinct (curve, operation, operands, scalar) or (curves, configuration)")
    ctx.assume("the field primes are prime and the curve parameters of spec/data/ECGroup are those of SEC 2 / FIPS 186-4 / RFC 7748 / RFC 8032 (pinned by ASSUMEs: generators on "
               "their curves, n*G = neutral certified link by link, RFC 7748 vectors)")
    ctx.assume("the Montgomery ladder is exact for every u-coordinate other than 0 (Montgomery 1987, Bernstein 2006 Theorem B.1); u = 0 is decided by the group law directly")
    ctx.assume("witnesses (slopes, quotients, intermediate multiples) are untrusted: a wrong one makes TLC refuse, which is reported as machinery failure, never as success")
    ctx.assume("key agreement on NIST curves is replayed mostly with short private scalars (the certified chain is as long as the scalar); full-length scalar multiplication "
               "is covered by the arithmetic records and by a few full-length exchanges")
