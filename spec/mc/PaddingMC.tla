------------------------------- MODULE PaddingMC -------------------------------
(* C13: padding.  Every byte string up to MaxLen over Alphabet is a state, taken both as data to pad and as a padded
   string to unpad, for every style and every block size of BlockSizes. *)
EXTENDS Padding, FiniteSets
CONSTANTS Alphabet, MaxLen, BlockSizes
VARIABLES p
Init == p = <<>>
Next == Len(p) < MaxLen /\ \E b \in Alphabet : p' = Append(p, b)
Spec == Init /\ [][Next]_p
\* padding then unpadding returns the data; the padded length is the next multiple of the block size
RoundTrip == \A bs \in BlockSizes, st \in Styles : LET q == Pad(p, bs, st) IN
                /\ Unpad(q, bs, st) = <<"ok", p>>
                /\ Len(q) % bs = 0 /\ Len(q) > Len(p) /\ Len(q) - Len(p) <= bs
\* unpad accepts exactly the image of pad and returns the pre-image (canonicity: re-padding gives the same string)
AcceptsExactlyTheImage == \A bs \in BlockSizes, st \in Styles : LET r == Unpad(p, bs, st) IN
                (r[1] = "ok" => Pad(r[2], bs, st) = p) /\ (r[1] # "ok" => \A k \in 0..Len(p) : Pad(SubSeq(p, 1, k), bs, st) # p)
\* the one-pass reader used for trace validation is the same function
FastAgrees == \A bs \in BlockSizes, st \in Styles : LET a == Unpad(p, bs, st)  b == UnpadFast(p, bs, st) IN
                a[1] = b[1] /\ (a[1] = "ok" => a[2] = b[2])
=============================================================================
