------------------------------- MODULE CipherValueTrace -------------------------------
(* C02 trace specification.  One record = one encryption performed by the real library:
     cipher, mode, key, parameters (segment size, counter layout, tag length, RC2 effective bits, RC4 drop, ChaCha20 seek position),
     iv_given / iv_arg (what the caller supplied), has_iv / iv (the iv/nonce attribute the object exposed afterwards),
     aads (associated data, one update() each), msg, and what came back: out ("ok" or an exception class), ct, tag;
     ct_again = the ciphertext of a second object that was handed the exposed iv/nonce explicitly (only when the library chose it);
     dec_out, dec_pt, dec_iv = result of decrypting ct (and verifying tag) with a fresh object built from the exposed attribute.
   op = "dec" records are decryptions of arbitrary data: ct is the input, msg the plaintext the library returned; since every
   mode is a bijection on strings of a given length for fixed parameters, the answer is right iff Spec(msg) = ct.
   TLC computes the expected ciphertext and tag from the data layer under the *exposed* iv/nonce and names the first clause
   that fails.  The verdict is total: every record gets "ok" or a clause. *)
EXTENDS Integers, Sequences, TLC, Json, IOUtils
CM == INSTANCE ClassicModes          \* instantiated, not extended: the ASSUMEd vectors of the data layer are evaluated by ./check setup, not per run
AE == INSTANCE AesAead
CS == INSTANCE ChaChaSeek
S20 == INSTANCE Salsa20
R4 == INSTANCE RC4
Traces == JsonDeserialize(IOEnv.TRACE_FILE)
BlockModes == {"ecb", "cbc", "cfb", "ofb", "ctr", "openpgp", "eax"}
NeedsCtx(e) == e.mode \in BlockModes /\ ~(e.mode = "eax" /\ e.cipher = "aes")
\* <<ciphertext, tag>> the specifications define for e.msg when the iv / nonce / counter prefix is `iv`
Spec(e, c, iv) ==
  CASE e.mode = "ecb"     -> <<CM!EcbEnc(c, e.msg), <<>>>>
    [] e.mode = "cbc"     -> <<CM!CbcEnc(c, iv, e.msg), <<>>>>
    [] e.mode = "cfb"     -> <<CM!CfbEnc(c, iv, e.seg, e.msg), <<>>>>
    [] e.mode = "ofb"     -> <<CM!OfbEnc(c, iv, e.msg), <<>>>>
    [] e.mode = "ctr"     -> <<CM!CtrEnc(c, iv, CM!CtrField(e.ctr_init, e.ctr_le), e.ctr_suffix, e.ctr_le, e.msg), <<>>>>
    [] e.mode = "openpgp" -> <<CM!OpenPgpEnc(c, iv, e.msg), <<>>>>
    [] e.mode = "eax"     -> IF e.cipher = "aes" THEN AE!EaxEncrypt(e.key, iv, CM!FlattenSeq(e.aads), e.msg, e.maclen)
                             ELSE CM!EaxG(c, iv, CM!FlattenSeq(e.aads), e.msg, e.maclen)
    [] e.mode = "gcm"     -> AE!GcmEncrypt(e.key, iv, CM!FlattenSeq(e.aads), e.msg, e.maclen)
    [] e.mode = "ccm"     -> LET a == CM!FlattenSeq(e.aads) IN
                             IF Len(a) < 4096 THEN AE!CcmEncrypt(e.key, iv, a, e.msg, e.maclen)
                             ELSE CM!CcmG(CM!Ctx("aes", e.key, 0), iv, a, e.msg, e.maclen)          \* same standard, chunked CBC-MAC (6-byte length header)
    [] e.mode = "ocb"     -> AE!OcbEncrypt(e.key, iv, CM!FlattenSeq(e.aads), e.msg, e.maclen)
    [] e.mode = "siv"     -> AE!SivEncrypt(e.key, e.aads \o (IF e.has_iv THEN <<iv>> ELSE <<>>), e.msg)      \* RFC 5297: the nonce is the last component before the plaintext
    [] e.mode = "kw"      -> <<AE!KwSeal(e.key, e.msg), <<>>>>
    [] e.mode = "kwp"     -> <<AE!KwpSeal(e.key, e.msg), <<>>>>
    [] e.mode = "poly1305" -> CS!CP!AeadEncrypt(e.key, iv, CM!FlattenSeq(e.aads), e.msg)
    [] e.mode = "stream" /\ e.cipher = "chacha20" -> <<CS!ChaCha20At(e.key, iv, e.seek_block, e.seek_off, e.msg), <<>>>>
    [] e.mode = "stream" /\ e.cipher = "salsa20"  -> <<S20!Salsa20Encrypt(e.key, iv, e.msg), <<>>>>
    [] e.mode = "stream" /\ e.cipher = "arc4"     -> <<R4!Rc4(e.key, e.drop, e.msg), <<>>>>
\* the counter prefix / iv / nonce the specification is evaluated under: the exposed attribute when there is one
\* (CTR with a suffix exposes nothing: the layout the caller gave is all a peer has)
IvOf(e) == IF e.has_iv THEN e.iv ELSE e.iv_arg
Verdict(e, c) ==
  IF e.out # "ok" THEN "raised " \o e.out \o " for valid parameters"
  ELSE IF e.again_exc # "none" THEN "exposed nonce is refused when handed back explicitly: raised " \o e.again_exc
  ELSE LET exp == Spec(e, c, IvOf(e)) IN
  IF e.op = "dec" THEN (IF exp[1] = e.ct THEN "ok" ELSE "decryption of arbitrary data differs from the specification")
  ELSE IF exp[1] # e.ct THEN
          (IF e.iv_given /\ e.has_iv /\ e.iv # e.iv_arg /\ Spec(e, c, e.iv_arg)[1] = e.ct THEN "exposed nonce is not the one used"
           ELSE IF ~e.iv_given /\ e.has_iv /\ e.ct_again = exp[1] THEN "exposed nonce is not the one used"
           ELSE "ciphertext differs from the specification")
  ELSE IF exp[2] # e.tag THEN "tag differs"
  ELSE IF e.iv_given /\ e.has_iv /\ e.iv # e.iv_arg THEN "exposed nonce is not the one supplied"
  ELSE IF ~e.iv_given /\ e.has_iv /\ e.ct_again # e.ct THEN "exposed nonce is not the one used"
  ELSE IF e.dec_out # "ok" THEN "decryption with the exposed parameters raised " \o e.dec_out
  ELSE IF e.dec_pt # e.msg THEN "decryption does not return the message"
  ELSE IF e.has_iv /\ e.dec_iv # e.iv THEN "decrypting object exposes another iv"
  ELSE "ok"
\* kc caches the expanded key of the previous record (pure evaluation cache: Blowfish's key schedule is 521 encryptions)
VARIABLES t, kc
TInit == t = 1 /\ kc = [id |-> <<"", <<>>, 0>>, c |-> 0]
TNext == /\ t <= Len(Traces)
         /\ LET e == Traces[t]
                id == <<e.cipher, e.key, e.ekb>>
                c == IF ~NeedsCtx(e) THEN 0 ELSE IF kc.id = id THEN kc.c ELSE CM!Ctx(e.cipher, e.key, e.ekb)
            IN /\ PrintT(<<"VERDICT", e.tid, 1, Verdict(e, c)>>)
               /\ kc' = IF NeedsCtx(e) THEN [id |-> id, c |-> c] ELSE kc
         /\ t' = t + 1
=============================================================================
