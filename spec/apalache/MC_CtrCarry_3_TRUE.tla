---- MODULE MC_CtrCarry_3_TRUE ----
W == 3
LittleEndian == TRUE
VARIABLES
  \* @type: Int -> Int;
  ctr,
  \* @type: Int -> Int;
  ctr0,
  \* @type: Int;
  k,
  \* @type: Bool;
  done
INSTANCE CtrCarryApa
====
