---- MODULE MC_CtrCarry_2_TRUE ----
W == 2
LittleEndian == TRUE
VARIABLES
  \* @type: Int -> Int;
  ctr,
  \* @type: Int -> Int;
  ctr0,
  \* @type: Int;
  k,
  \* @type: Bool;
  done
INSTANCE CtrCarryApa
====
