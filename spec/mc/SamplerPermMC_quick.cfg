\* 4-bit bytes (base 16): shuffle of 0..4 elements, sample(n <= 4, k <= n); every tape of up to 3 bytes explored and counted (4096 per case)
CONSTANTS NaiveShuffle = FALSE
BW = 4
MaxN = 4
MaxLen = 3
FibreLen = 3
INIT Init
NEXT Next
CHECK_DEADLOCK FALSE
INVARIANTS Terminal StepUniform RunMatchesSteps FibresEqual
PROPERTY Memoryless
