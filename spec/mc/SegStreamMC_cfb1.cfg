CONSTANTS Kind = "cfb"
BL = 4
NB = 1
SEG = 1
MaxTotal = 13
SPECIFICATION Spec
INVARIANT InvOutput
INVARIANT InvUsedBound
INVARIANT InvRegs
INVARIANT InvPos
CHECK_DEADLOCK FALSE
