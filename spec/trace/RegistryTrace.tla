------------------------------- MODULE RegistryTrace -------------------------------
(* Code -> spec for the curve registry: events logged by the hooks in _Curves.__getitem__ (thread, event, curve, call nesting
   depth of that thread, observed decoration state of the curve object), in the total order in which the hook calls happened.
   Each event must be an enabled step of sys/CurveRegistry with a re-entrant lock; the clauses are the model's invariants:
   mutual exclusion, loaded once, a caller other than the loading thread never receives a partially initialised curve. *)
EXTENDS Integers, Sequences, FiniteSets, TLC, Json, IOUtils
Traces == JsonDeserialize(IOEnv.TRACE_FILE)
VARIABLES t, l, st, bad
Ok == <<0, "ok">>
CurvesOf(tr) == {tr.curves[i] : i \in 1..Len(tr.curves)}
InitOf(tr) == [owner |-> 0, depth |-> 0, reg |-> [c \in CurvesOf(tr) |-> "absent"], loader |-> [c \in CurvesOf(tr) |-> 0],
               loads |-> [c \in CurvesOf(tr) |-> 0]]
Next1(s) == CASE s = "absent" -> "loaded" [] s = "loaded" -> "has_g" [] s = "has_g" -> "ready" [] s = "ready" -> "ready"
\* returns <<state', clause>>
Apply(s, e) ==
   LET c == e.curve  th == e.th IN
   CASE e.ev = "enter" -> <<s, "ok">>
     [] e.ev = "locked" -> IF s.owner # 0 /\ s.owner # th THEN <<[s EXCEPT !.owner = th, !.depth = 1], "two threads inside the registry's critical section (mutual exclusion)">>
                           ELSE <<[s EXCEPT !.owner = th, !.depth = s.depth + 1], "ok">>
     [] e.ev = "loaded" -> IF s.owner # th THEN <<s, "curve loaded outside the critical section">>
                           ELSE IF s.reg[c] # "absent" THEN <<[s EXCEPT !.loads[c] = @ + 1], "native context of a curve created twice (loaded once)">>
                           ELSE <<[s EXCEPT !.reg[c] = "loaded", !.loader[c] = th, !.loads[c] = @ + 1], "ok">>
     [] e.ev \in {"has_g", "ready"} ->
                           IF s.owner # th THEN <<s, "curve decorated outside the critical section">>
                           ELSE IF Next1(s.reg[c]) # e.ev THEN <<[s EXCEPT !.reg[c] = e.ev], "decoration steps out of order">>
                           ELSE <<[s EXCEPT !.reg[c] = e.ev], "ok">>
     [] e.ev = "unlock" -> IF s.owner # th THEN <<s, "lock released by a thread that does not hold it">>
                           ELSE IF e.obs # s.reg[c] THEN <<s, "harness: observed decoration differs from the model's under the lock">>
                           ELSE <<[s EXCEPT !.depth = s.depth - 1, !.owner = IF s.depth = 1 THEN 0 ELSE s.owner], "ok">>
     [] e.ev = "return" -> IF e.obs # "ready" /\ ~(s.loader[c] = th /\ e.depth > 1)
                           THEN <<s, "a caller received a curve that is not fully initialised (observed " \o e.obs \o ")">>
                           ELSE <<s, "ok">>
     [] e.ev = "use" -> IF e.exc # "none" THEN <<s, "using the returned curve raised " \o e.exc>> ELSE <<s, "ok">>
EndVerdict(tr, s) == IF s.owner # 0 THEN "lock still held at the end" ELSE
                     IF \E c \in CurvesOf(tr) : s.loads[c] > 1 THEN "native context of a curve created twice (loaded once)" ELSE "ok"
TInit == t = 1 /\ l = 1 /\ st = InitOf(Traces[1]) /\ bad = Ok
TNext == /\ t <= Len(Traces)
         /\ LET tr == Traces[t] IN
            IF l > Len(tr.events) THEN
               /\ PrintT(<<"VERDICT", tr.tid, IF bad = Ok /\ EndVerdict(tr, st) # "ok" THEN l ELSE bad[1], IF bad = Ok THEN EndVerdict(tr, st) ELSE bad[2]>>)
               /\ t' = t + 1 /\ l' = 1 /\ bad' = Ok
               /\ st' = IF t + 1 <= Len(Traces) THEN InitOf(Traces[t + 1]) ELSE st
            ELSE LET r == Apply(st, tr.events[l]) IN
                 /\ st' = r[1] /\ l' = l + 1 /\ t' = t
                 /\ bad' = IF bad = Ok /\ r[2] # "ok" THEN <<l, r[2]>> ELSE bad
=============================================================================
