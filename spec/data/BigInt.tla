------------------------------- MODULE BigInt -------------------------------
(* Signed integers of any size on top of BigNat, and the integer API of Crypto.Math as a specification.

   REPRESENTATION.  An integer is a record [s |-> 0 or 1, m |-> canonical BigNat magnitude]; s = 1 means negative;
   zero is [s |-> 0, m |-> <<>>] (no negative zero), so equality of integers is TLA+ equality.  A JSON object
   {"s": 0, "m": [limbs]} deserialises to exactly this record.  Names start with "Bi".

   PART 1 - arithmetic, computed directly:  BiOfInt BiIsInt BiNeg BiAbs BiCmp BiAdd BiSub BiMul BiPowInt,
     BiShl, BiShr (floor, as Python's >>: -1 >> 1 = -1), BiShrTrunc (toward zero; only used to NAME a wrong answer),
     BiAnd, BiOr (infinite two's complement, as Python's & and |), BiSmallLucas (FIPS 186-4 C.3.3 for n < 2^15), BiIsFloorDivMod(a,b,q,r) (the relation
     a = q*b + r with r = 0 or r of b's sign and |r| < |b|: Python's // and %), BiIsCertifiedPrime (membership in a
     table of primes taken from standards, or trial division below 2^24).
   PART 2 - BiApiSpec(e): what one call of the Integer API MUST deliver, for a call record e = [op, a, b, c, bo, by, n, w]
     (operands a, b, c as integers, byte order bo, byte string by, length n, witnesses w).  Results that need
     division are RELATIONS certified with the untrusted witnesses in e.w (DESIGN.md 4.5): quotient and remainder,
     Bezout cofactors, square-and-multiply links, reduction quotients of the Jacobi algorithm, the integer root.
     The outcome is a record [k, vs, by, ex, why]:
       k = "Integer" | "int" | "bool" | "bytes" | "NoneType": a value of that type; vs = the set of acceptable values
           (a singleton except for modular square roots, where both roots are right); by = the bytes
       k = "exc": no result exists, an exception of a class in ex must be raised (more than one class only when
           more than one documented precondition is violated at once)
       k = "silent": the call is outside the documented domain; nothing is required (each case is a named operator)
       k = "badwitness": a witness did not certify the claimed relation - a recorder problem, never a verdict
   PART 3 - BiJudge(x, o, e): the clause an observation o = [tn, ex, v, by, self, ip] violates, or "ok".

   DOCUMENTED DOMAIN (where the specification is silent):
     BiShiftLimit      shift counts and bit indexes >= 65536 (the GMP back-end refuses or short-cuts them)
     BiPowLimit        pow without modulus and exponent > 256 (the GMP back-end refuses: "Exponent is too big")
     fail_if_divisible_by with a divisor <= 0; to_bytes with a negative block size; modular square root with a modulus
     that is not a certified prime; _mult_modulo_bytes with negative terms; monty_pow/monty_multiply with terms >= modulus. *)
EXTENDS BigNat

\* ================================================================== PART 1: arithmetic
BiMk(s, m) == [s |-> IF Len(m) = 0 THEN 0 ELSE s, m |-> m]
BiZero == [s |-> 0, m |-> <<>>]
BiOne == [s |-> 0, m |-> <<1>>]
BiOfInt(n) == IF n < 0 THEN BiMk(1, BnOfInt(0 - n)) ELSE BiMk(0, BnOfInt(n))
BiOfNat(m) == [s |-> 0, m |-> m]
BiIsInt(x) == x.s \in {0, 1} /\ BnIsNat(x.m) /\ (Len(x.m) = 0 => x.s = 0)
BiIsZero(x) == Len(x.m) = 0
BiIsNeg(x) == x.s = 1
BiNeg(x) == BiMk(1 - x.s, x.m)
BiAbs(x) == BiMk(0, x.m)
BiCmp(x, y) == IF x.s # y.s THEN (IF x.s = 1 THEN -1 ELSE 1) ELSE IF x.s = 0 THEN BnCmp(x.m, y.m) ELSE BnCmp(y.m, x.m)
BiAdd(x, y) == IF x.s = y.s THEN BiMk(x.s, BnAdd(x.m, y.m))
               ELSE LET c == BnCmp(x.m, y.m) IN
                    IF c = 0 THEN BiZero ELSE IF c > 0 THEN BiMk(x.s, BnSub(x.m, y.m)) ELSE BiMk(y.s, BnSub(y.m, x.m))
BiSub(x, y) == BiAdd(x, BiNeg(y))
BiMul(x, y) == BiMk((x.s + y.s) % 2, BnMul(x.m, y.m))
BiPowInt(x, n) == BiMk(IF n % 2 = 1 THEN x.s ELSE 0, BnPowInt(x.m, n))
BiShl(x, n) == BiMk(x.s, BnShl(x.m, n))
BiShr(x, n) == IF x.s = 0 THEN BiMk(0, BnShr(x.m, n)) ELSE BiMk(1, BnAdd(BnShr(BnSub(x.m, <<1>>), n), <<1>>))     \* floor(x / 2^n)
BiShrTrunc(x, n) == BiMk(x.s, BnShr(x.m, n))                                                                      \* toward zero
\* infinite two's complement: for x < 0 the bits of x are the complement of the bits of |x| - 1
BiM1(x) == BnSub(x.m, <<1>>)
BiAnd(x, y) == IF x.s = 0 /\ y.s = 0 THEN BiMk(0, BnAnd(x.m, y.m))
               ELSE IF x.s = 0 THEN BiMk(0, BnAndNot(x.m, BiM1(y)))
               ELSE IF y.s = 0 THEN BiMk(0, BnAndNot(y.m, BiM1(x)))
               ELSE BiMk(1, BnAdd(BnOr(BiM1(x), BiM1(y)), <<1>>))
BiOr(x, y) == IF x.s = 0 /\ y.s = 0 THEN BiMk(0, BnOr(x.m, y.m))
              ELSE IF x.s = 0 THEN BiMk(1, BnAdd(BnAndNot(BiM1(y), x.m), <<1>>))
              ELSE IF y.s = 0 THEN BiMk(1, BnAdd(BnAndNot(BiM1(x), y.m), <<1>>))
              ELSE BiMk(1, BnAdd(BnAnd(BiM1(x), BiM1(y)), <<1>>))
\* Python's floor division and modulo as a relation: a = q*b + r, r = 0 or (sign r = sign b and |r| < |b|)
BiIsFloorDivMod(a, b, q, r) == /\ ~BiIsZero(b)
                               /\ BiIsZero(r) \/ (r.s = b.s /\ BnCmp(r.m, b.m) < 0)
                               /\ a = BiAdd(BiMul(q, b), r)

\* ------------------------------------------------------------------ primes known by construction
BiMersenne(k) == BnSub(BnPow2(k), <<1>>)
BiP192 == BnSub(BnSub(BnPow2(192), BnPow2(64)), <<1>>)                                                    \* FIPS 186-4 D.1.2
BiP224 == BnAdd(BnSub(BnPow2(224), BnPow2(96)), <<1>>)
BiP256 == BnSub(BnAdd(BnAdd(BnSub(BnPow2(256), BnPow2(224)), BnPow2(192)), BnPow2(96)), <<1>>)
BiP384 == BnSub(BnAdd(BnSub(BnSub(BnPow2(384), BnPow2(128)), BnPow2(96)), BnPow2(32)), <<1>>)
BiP521 == BiMersenne(521)
BiK256 == BnSub(BnSub(BnPow2(256), BnPow2(32)), <<977>>)                                                  \* SEC 2 secp256k1
BiP25519 == BnSub(BnPow2(255), <<19>>)                                                                    \* RFC 7748
BiP448 == BnSub(BnSub(BnPow2(448), BnPow2(224)), <<1>>)
\* group orders (FIPS 186-4 D.1.2, SEC 2, RFC 8032) and the RFC 3526 MODP primes p with (p-1)/2, values printed by OpenSSL 3.5
BiOrderP192 == <<2097,3362,436,3227,1131,865,3832,2461,4095,4095,4095,4095,4095,4095,4095,4095>>   \* 0xffffffffffffffffffffffff99def836146bc9b1b4d22831
BiOrderP224 == <<2621,1474,1372,660,989,993,2288,3595,1698,4081,4095,4095,4095,4095,4095,4095,4095,4095,255>>   \* 0xffffffffffffffffffffffffffff16a2e0b8f03e13dd29455c5c2a3d
BiOrderP256 == <<1361,1586,764,3244,953,2127,1950,2673,2733,3695,4028,4095,4095,4095,4095,4095,0,0,3840,4095,4095,15>>   \* 0xffffffff00000000ffffffffffffffffbce6faada7179e84f3b9cac2fc632551
BiOrderP384 == <<2419,3154,2764,406,3308,1966,167,1163,3506,416,3928,733,1079,2079,845,3190,4095,4095,4095,4095,4095,4095,4095,4095,4095,4095,4095,4095,4095,4095,4095,4095>>   \* 0xffffffffffffffffffffffffffffffffffffffffffffffffc7634d81f4372ddf581a0db248b0a77aecec196accc52973
BiOrderP521 == <<1033,902,3729,2929,2927,2795,3143,2201,2488,2908,59,2653,1801,1167,3073,2044,1643,761,959,2168,390,4005,4095,4095,4095,4095,4095,4095,4095,4095,4095,4095,4095,4095,4095,4095,4095,4095,4095,4095,4095,4095,4095,31>>   \* 0x1fffffffffffffffffffffffffffffffffffffffffffffffffffffffffffffffffa51868783bf2f966b7fcc0148f709a5d03bb5c9b8899c47aebb6fb71e91386409
BiOrderK256 == <<321,868,3280,1512,4050,955,2208,2804,3302,2797,3770,4095,4095,4095,4095,4095,4095,4095,4095,4095,4095,15>>   \* 0xfffffffffffffffffffffffffffffffebaaedce6af48a03bbfd25e8cd0364141
BiOrder25519 == <<1005,3933,2652,1585,2066,3429,1948,2607,2526,3567,20,0,0,0,0,0,0,0,0,0,0,1>>   \* 0x1000000000000000000000000000000014def9dea2f79cd65812631a5cf5d3ed
BiOrder448 == <<1267,1412,683,3113,888,1362,1423,2268,626,1740,33,873,3798,1178,3803,3140,1001,3234,3964,4095,4095,4095,4095,4095,4095,4095,4095,4095,4095,4095,4095,4095,4095,4095,4095,4095,4095,3>>   \* 0x3fffffffffffffffffffffffffffffffffffffffffffffffffffffff7cca23e9c44edb49aed63690216cc2728dc58f552378c292ab5844f3
BiModp1536 == <<4095,4095,4095,4095,4095,639,883,3234,3080,1862,1265,2432,2748,1252,3125,1648,1645,2409,1904,656,3797,3001,1362,520,854,1583,1564,2777,3235,573,1373,2102,3935,588,2301,1018,2326,2470,1491,453,2102,3492,1432,3056,355,2954,124,3104,2877,3653,492,1637,2344,3684,2847,1988,1041,2546,1454,2554,2697,4021,2155,3811,2029,107,1780,1483,3071,1712,2029,2659,745,1220,1780,2028,606,1894,1461,3656,581,1308,3437,854,4065,884,3860,3877,2669,688,2864,1073,3386,2876,1305,3833,1245,832,2446,135,330,549,923,945,3750,187,1026,3271,2663,136,590,656,3281,3521,2944,1576,1222,844,2242,534,2722,253,4041,4095,4095,4095,4095,4095>>
BiModp1536Q == <<4095,4095,4095,4095,4095,2367,441,1617,1540,2979,632,1216,1374,2674,1562,2872,2870,1204,952,2376,3946,1500,681,260,2475,791,2830,3436,3665,2334,686,3099,1967,2342,1150,509,1163,3283,2793,226,1051,1746,716,3576,177,1477,62,3600,3486,1826,2294,818,1172,3890,1423,3042,520,1273,727,3325,3396,4058,3125,3953,3062,53,2938,2789,1535,2904,3062,3377,372,610,890,1014,303,2995,730,3876,290,2702,1718,2475,2032,442,3978,3986,1334,344,3480,536,1693,3486,2700,3964,622,416,3271,67,2213,2322,2509,472,3923,93,2561,3683,1331,68,295,2376,3688,1760,1472,788,611,422,1121,267,3409,2174,4068,4095,4095,4095,4095,2047>>
BiModp2048 == <<4095,4095,4095,4095,4095,1679,3242,2218,3674,1832,21,81,2298,393,550,349,2789,2390,3306,1175,2453,387,2071,2389,3062,700,2526,1324,3916,3846,1373,2908,655,122,748,2106,2855,57,3718,384,1836,2535,3043,3299,3638,1122,94,809,380,386,2250,1728,372,79,3224,1195,1358,195,3431,2406,150,119,1321,2541,699,2133,1568,3893,3170,2401,941,3530,3363,1621,3971,3317,3364,2703,1599,1681,922,1373,1564,1155,2266,89,959,2582,3256,7,3522,1459,3300,1310,2150,1170,4070,1201,380,577,3743,2650,2463,1448,3067,902,3566,2942,1030,2927,3932,191,3435,894,2470,1070,1100,3183,3710,1573,1398,2139,1508,3108,3409,1750,309,1278,1079,1521,3570,166,43,435,2627,3283,2483,2385,3567,77,3636,1944,2568,1300,2850,313,1595,3050,523,1856,1996,2214,3592,36,297,461,220,2232,1634,3148,564,1676,545,3498,2319,4092,4095,4095,4095,4095,255>>
BiModp2048Q == <<4095,4095,4095,4095,4095,839,1621,1109,1837,2964,2058,40,3197,196,2323,2222,1394,1195,3701,2635,3274,2241,3083,1194,1531,350,1263,662,1958,3971,686,3502,327,61,374,3101,3475,28,1859,192,2966,3315,3569,1649,1819,561,2095,404,190,193,1125,864,2234,39,3660,597,2727,2145,1715,1203,2123,2107,2708,3318,2397,1066,2832,1946,3633,3248,470,3813,3729,2858,4033,1658,3730,3399,2847,840,2509,686,2830,577,3181,2092,479,1291,3676,3,3809,729,1650,655,1075,585,4083,600,2238,2336,1871,3373,1231,2772,1533,451,1783,1471,2563,1463,4014,2143,1717,447,1235,535,2598,1591,3903,786,2747,1069,754,3602,1704,2923,154,2687,2587,760,1785,2131,2069,2265,3361,3689,3289,3240,3831,38,1818,972,1284,650,3473,2204,797,3573,261,928,998,1107,1796,2066,2196,230,110,1116,817,1574,282,2886,272,3797,1159,4094,4095,4095,4095,4095,127>>
BiModp3072 == <<4095,4095,4095,4095,4095,3247,2770,2707,288,2093,3659,264,253,4046,2907,1085,2865,3674,116,1274,2274,3616,2374,2989,2240,152,3191,1494,2657,1399,279,3006,12,1970,2071,689,543,1605,2154,1004,627,1888,1240,134,2442,109,4090,3858,3691,3374,1562,3362,3811,2524,1377,1186,1248,2249,1822,829,2825,2253,1454,2751,1223,3614,1446,248,919,2011,1548,1488,343,3751,2698,3824,2267,69,2949,3791,2660,459,3039,538,2133,826,122,69,1805,817,3501,3138,2730,1448,654,343,1296,4000,2200,609,1490,3665,1386,3753,2428,2388,2105,369,1368,3945,3019,3554,713,1221,111,1503,1477,2299,1954,3776,930,632,923,2144,2062,705,3703,3641,3643,876,1582,1508,656,1987,2081,3233,3080,1862,1265,2432,2748,1252,3125,1648,1645,2409,1904,656,3797,3001,1362,520,854,1583,1564,2777,3235,573,1373,2102,3935,588,2301,1018,2326,2470,1491,453,2102,3492,1432,3056,355,2954,124,3104,2877,3653,492,1637,2344,3684,2847,1988,1041,2546,1454,2554,2697,4021,2155,3811,2029,107,1780,1483,3071,1712,2029,2659,745,1220,1780,2028,606,1894,1461,3656,581,1308,3437,854,4065,884,3860,3877,2669,688,2864,1073,3386,2876,1305,3833,1245,832,2446,135,330,549,923,945,3750,187,1026,3271,2663,136,590,656,3281,3521,2944,1576,1222,844,2242,534,2722,253,4041,4095,4095,4095,4095,4095>>
BiModp3072Q == <<4095,4095,4095,4095,4095,1623,3433,1353,2192,3094,1829,2180,126,4071,3501,2590,1432,1837,58,637,1137,1808,3235,1494,1120,2124,1595,2795,3376,2747,139,1503,6,3033,3083,2392,2319,802,1077,2550,313,944,620,67,3269,54,2045,3977,1845,1687,781,3729,1905,3310,688,593,2672,1124,2959,2462,3460,1126,2775,3423,611,1807,723,2172,2507,1005,774,2792,2219,1875,1349,3960,3181,2082,3522,1895,3378,2277,1519,2317,1066,413,2109,2082,2950,2456,1750,1569,1365,724,2375,171,648,2000,3148,304,2793,1832,2741,1876,1214,3242,3100,184,2732,4020,1509,3825,2404,2658,2103,2799,2786,1149,977,1888,465,2364,461,1072,3079,2400,3899,3868,1821,438,791,754,2376,3041,3088,1616,1540,2979,632,1216,1374,2674,1562,2872,2870,1204,952,2376,3946,1500,681,260,2475,791,2830,3436,3665,2334,686,3099,1967,2342,1150,509,1163,3283,2793,226,1051,1746,716,3576,177,1477,62,3600,3486,1826,2294,818,1172,3890,1423,3042,520,1273,727,3325,3396,4058,3125,3953,3062,53,2938,2789,1535,2904,3062,3377,372,610,890,1014,303,2995,730,3876,290,2702,1718,2475,2032,442,3978,3986,1334,344,3480,536,1693,3486,2700,3964,622,416,3271,67,2213,2322,2509,472,3923,93,2561,3683,1331,68,295,2376,3688,1760,1472,788,611,422,1121,267,3409,2174,4068,4095,4095,4095,4095,2047>>
BiMersenneExponents == {13, 17, 19, 31, 61, 89, 107, 127, 521, 607, 1279, 2203, 2281, 3217}
BiKnownPrimes == {BiMersenne(k) : k \in BiMersenneExponents} \cup
   {BiP192, BiP224, BiP256, BiP384, BiK256, BiP25519, BiP448,
    BiOrderP192, BiOrderP224, BiOrderP256, BiOrderP384, BiOrderP521, BiOrderK256, BiOrder25519, BiOrder448,
    BiModp1536, BiModp1536Q, BiModp2048, BiModp2048Q, BiModp3072, BiModp3072Q}
\* p (a BigNat) is prime by construction: listed above, or below 2^24 and without divisor (trial division in TLC)
BiIsCertifiedPrime(p) == IF Len(p) <= 2 THEN BnIsSmallPrime(BnToInt(p)) ELSE p \in BiKnownPrimes

\* ------------------------------------------------------------------ the Lucas test of FIPS 186-4 C.3.3 on small numbers
\* evaluated with TLC integers for n < 2^15 (all products stay below 2^31); BiSmallLucas(n) = 1 (PROBABLY_PRIME) or 0 (COMPOSITE)
RECURSIVE BiSmallJacobi(_,_)
BiSmallJacobi(a, n) == \* Jacobi symbol, n odd positive, 0 <= a < n
   IF a = 0 THEN (IF n = 1 THEN 1 ELSE 0)
   ELSE IF a % 2 = 0 THEN (IF n % 8 = 3 \/ n % 8 = 5 THEN 0 - BiSmallJacobi(a \div 2, n) ELSE BiSmallJacobi(a \div 2, n))
   ELSE IF a = 1 THEN 1
   ELSE IF a % 4 = 3 /\ n % 4 = 3 THEN 0 - BiSmallJacobi(n % a, a) ELSE BiSmallJacobi(n % a, a)
RECURSIVE BiSmallIsSquareFrom(_,_)
BiSmallIsSquareFrom(n, s) == IF s * s > n THEN FALSE ELSE IF s * s = n THEN TRUE ELSE BiSmallIsSquareFrom(n, s + 1)
RECURSIVE BiSmallLucasD(_,_)
\* the first D in 5, -7, 9, -11, ... with (D/n) = -1; 0 when some (D/n) = 0 first (then n is composite)
BiSmallLucasD(n, d) == IF d = n \/ 0 - d = n THEN BiSmallLucasD(n, IF d > 0 THEN 0 - (d + 2) ELSE 2 - d)
                 ELSE LET j == BiSmallJacobi(d % n, n) IN
                      IF j = 0 THEN 0 ELSE IF j = -1 THEN d ELSE BiSmallLucasD(n, IF d > 0 THEN 0 - (d + 2) ELSE 2 - d)
BiSmallHalf(x, n) == (IF x % 2 = 1 THEN x + n ELSE x) \div 2
RECURSIVE BiSmallLucasLoop(_,_,_,_,_,_)
BiSmallLucasLoop(n, dm, k, i, u, v) == \* dm = D mod n; k = n + 1; processes bit i of k
   IF i < 0 THEN u
   ELSE LET ut == (u * v) % n
            vt == BiSmallHalf((((v * v) % n) + ((((u * u) % n) * dm) % n)) % n, n) % n
        IN IF (k \div (2 ^ i)) % 2 = 1
           THEN BiSmallLucasLoop(n, dm, k, i - 1, BiSmallHalf((ut + vt) % n, n) % n, BiSmallHalf((vt + ((ut * dm) % n)) % n, n) % n)
           ELSE BiSmallLucasLoop(n, dm, k, i - 1, ut, vt)
BiSmallLucas(n) == \* 1 = PROBABLY_PRIME, 0 = COMPOSITE
   IF n \in {2, 3, 5} THEN 1 ELSE IF n % 2 = 0 \/ BiSmallIsSquareFrom(n, 1) THEN 0
   ELSE LET d == BiSmallLucasD(n, 5) IN
        IF d = 0 THEN 0 ELSE IF BiSmallLucasLoop(n, d % n, n + 1, BnLimbBits(n + 1) - 2, 1, 1) = 0 THEN 1 ELSE 0


\* ================================================================== PART 2: the Integer API as a specification
BiShiftLimit == 65536
BiPowLimit == 256
BiX(k, vs, by, ex, why) == [k |-> k, vs |-> vs, by |-> by, ex |-> ex, why |-> why]
BiXInt(v) == BiX("Integer", {v}, <<>>, {}, "")
BiXPy(v) == BiX("int", {v}, <<>>, {}, "")
BiXBool(t) == BiX("bool", {IF t THEN BiOne ELSE BiZero}, <<>>, {}, "")
BiXBytes(bs) == BiX("bytes", {}, bs, {}, "")
BiXNone == BiX("NoneType", {}, <<>>, {}, "")
BiXExc(S) == BiX("exc", {}, <<>>, S, "")
BiXSilent(why) == BiX("silent", {}, <<>>, {}, why)
BiXBadW(why) == BiX("badwitness", {}, <<>>, {}, why)
VE == {"ValueError"}
ZE == {"ZeroDivisionError"}
BiIsCount(b) == b.s = 0 /\ BnFitsInt(b.m) /\ BnToInt(b.m) < BiShiftLimit         \* a shift count / bit index inside the documented domain
BiMinBytesBE(m) == IF Len(m) = 0 THEN <<0>> ELSE BnToBytesBE(m)                    \* the library encodes zero as one zero byte
BiPadBE(bs, n) == IF n > Len(bs) THEN BnZeros(n - Len(bs)) \o bs ELSE bs
BiSizeInBits(a) == IF Len(a.m) = 0 THEN 1 ELSE BnBitLen(a.m)

\* a mod m for m > 0, certified: w.q0 (integer) and w.g (natural) with a = q0*m + g, 0 <= g < m
BiIsReduced(a, m, w) == BnIsNat(w.g) /\ BiIsInt(w.q0) /\ BiIsFloorDivMod(a, m, w.q0, BiOfNat(w.g))
\* g = gcd(a, b), certified: g | a, g | b and g = u*a + v*b
BiIsGcd(a, b, w) == /\ BnIsNat(w.g) /\ BiIsInt(w.ca) /\ BiIsInt(w.cb) /\ BiIsInt(w.u) /\ BiIsInt(w.v)
                    /\ a = BiMul(BiOfNat(w.g), w.ca) /\ b = BiMul(BiOfNat(w.g), w.cb)
                    /\ BiOfNat(w.g) = BiAdd(BiMul(w.u, a), BiMul(w.v, b))

BiSpecDiv(e) == IF BiIsZero(e.b) THEN BiXExc(ZE)
                ELSE IF BiIsInt(e.w.q) /\ BiIsInt(e.w.r) /\ BiIsFloorDivMod(e.a, e.b, e.w.q, e.w.r) THEN BiXInt(e.w.q) ELSE BiXBadW("quotient/remainder")
BiSpecMod(e) == IF BiIsZero(e.b) THEN BiXExc(ZE) ELSE IF BiIsNeg(e.b) THEN BiXExc(VE)
                ELSE IF BiIsInt(e.w.q) /\ BiIsInt(e.w.r) /\ BiIsFloorDivMod(e.a, e.b, e.w.q, e.w.r) THEN BiXInt(e.w.r) ELSE BiXBadW("quotient/remainder")
BiSpecPow(e) == IF BiIsNeg(e.b) THEN BiXExc(VE)
                ELSE IF ~(BnFitsInt(e.b.m) /\ BnToInt(e.b.m) <= BiPowLimit) THEN BiXSilent("BiPowLimit")
                ELSE BiXInt(BiPowInt(e.a, BnToInt(e.b.m)))
\* pow(a, b, c): documented preconditions b >= 0, c > 0
BiPowViolations(b, c) == (IF BiIsNeg(b) THEN VE ELSE {}) \cup (IF BiIsZero(c) THEN ZE ELSE {}) \cup (IF BiIsNeg(c) THEN VE ELSE {})
BiSpecPowMod(e) == LET viol == BiPowViolations(e.b, e.c) IN
   IF viol # {} THEN BiXExc(viol)
   ELSE IF BiIsReduced(e.a, e.c, e.w) /\ BnIsNat(e.w.r) /\ BnIsPowMod(e.w.g, e.b.m, e.c.m, e.w.chain, e.w.r) THEN BiXInt(BiOfNat(e.w.r))
   ELSE BiXBadW("square-and-multiply chain")
BiSpecSqrt(e) == IF BiIsNeg(e.a) THEN BiXExc(VE)
                 ELSE IF BnIsNat(e.w.s) /\ BnIsSqrt(e.a.m, e.w.s) THEN BiXInt(BiOfNat(e.w.s)) ELSE BiXBadW("integer root")
BiSpecIsSquare(e) == IF BiIsNeg(e.a) THEN BiXBool(FALSE)
                     ELSE IF BnIsNat(e.w.s) /\ BnIsSqrt(e.a.m, e.w.s) THEN BiXBool(BnMul(e.w.s, e.w.s) = e.a.m) ELSE BiXBadW("integer root")
\* sqrt(a, p): p must be a prime; either root is right; a non-residue has no root (Jacobi symbol -1 modulo a prime)
BiCertifiedRoots(g, p, roots) == {BiOfNat(rt.r) : rt \in {x \in {roots[i] : i \in 1..Len(roots)} :
                                     BnIsNat(x.r) /\ BnIsNat(x.q) /\ BnIsModWitness(BnMul(x.r, x.r), p, x.q, g)}}
BiSpecSqrtMod(e) == LET p == e.b.m  w == e.w IN
   IF BiIsZero(e.b) \/ BiIsNeg(e.b) THEN BiXExc(VE)
   ELSE IF ~BiIsCertifiedPrime(p) THEN BiXSilent("modulus not a certified prime")
   ELSE IF ~BiIsReduced(e.a, e.b, w) THEN BiXBadW("reduction of the operand")
   ELSE IF w.res = 1 THEN (LET rs == BiCertifiedRoots(w.g, p, w.roots) IN IF rs # {} THEN BiX("Integer", rs, <<>>, {}, "") ELSE BiXBadW("modular root"))
   ELSE IF p # <<2>> /\ BnJacobi(w.g, p, w.qs) = <<TRUE, -1>> THEN BiXExc(VE) ELSE BiXBadW("non-residue certificate")
BiSpecShift(e, left) == IF BiIsNeg(e.b) THEN BiXExc(VE)
                        ELSE IF ~BiIsCount(e.b) THEN BiXSilent("BiShiftLimit")
                        ELSE BiXInt(IF left THEN BiShl(e.a, BnToInt(e.b.m)) ELSE BiShr(e.a, BnToInt(e.b.m)))
BiSpecGetBit(e) == IF BiIsNeg(e.a) \/ BiIsNeg(e.b) THEN BiXExc(VE)
                   ELSE IF ~BiIsCount(e.b) THEN BiXSilent("BiShiftLimit")
                   ELSE BiXBool(BnBit(e.a.m, BnToInt(e.b.m)) = 1)
BiSpecFailIfDivisible(e) == IF BiIsZero(e.b) \/ BiIsNeg(e.b) THEN BiXSilent("divisor <= 0")
   ELSE IF BiIsInt(e.w.q) /\ BiIsInt(e.w.r) /\ BiIsFloorDivMod(e.a, e.b, e.w.q, e.w.r) THEN (IF BiIsZero(e.w.r) THEN BiXExc(VE) ELSE BiXNone)
   ELSE BiXBadW("quotient/remainder")
\* inverse(a, m): x in [0, m) with x*a = 1 + k*m; none exists iff a and m have a common divisor g > 1
BiSpecInverse(e) == LET w == e.w IN
   IF BiIsZero(e.b) THEN BiXExc(ZE) ELSE IF BiIsNeg(e.b) THEN BiXExc(VE)
   ELSE IF w.inv = 1 THEN
        (IF BnIsNat(w.x) /\ BiIsInt(w.k) /\ BnCmp(w.x, e.b.m) < 0 /\ BiMul(BiOfNat(w.x), e.a) = BiAdd(BiOne, BiMul(w.k, e.b))
         THEN BiXInt(BiOfNat(w.x)) ELSE BiXBadW("inverse"))
   ELSE IF BnIsNat(w.g) /\ BnCmp(w.g, <<1>>) > 0 /\ BiIsInt(w.ca) /\ BiIsInt(w.cb)
           /\ e.a = BiMul(BiOfNat(w.g), w.ca) /\ e.b = BiMul(BiOfNat(w.g), w.cb) THEN BiXExc(VE)
   ELSE BiXBadW("common divisor")
BiSpecGcd(e) == IF BiIsGcd(e.a, e.b, e.w) THEN BiXInt(BiOfNat(e.w.g)) ELSE BiXBadW("gcd certificate")
BiSpecLcm(e) == IF BiIsZero(e.a) \/ BiIsZero(e.b) THEN BiXInt(BiZero)
                ELSE IF BiIsGcd(e.a, e.b, e.w) /\ BnIsNat(e.w.l) /\ BnMul(e.w.l, e.w.g) = BnMul(e.a.m, e.b.m) THEN BiXInt(BiOfNat(e.w.l))
                ELSE BiXBadW("lcm certificate")
BiSpecJacobi(e) == IF BiIsZero(e.b) \/ BiIsNeg(e.b) \/ ~BnIsOdd(e.b.m) THEN BiXExc(VE)
   ELSE IF ~BiIsReduced(e.a, e.b, e.w) THEN BiXBadW("reduction of the operand")
   ELSE LET j == BnJacobi(e.w.g, e.b.m, e.w.qs) IN IF j[1] THEN BiXPy(BiOfInt(j[2])) ELSE BiXBadW("reduction quotients")
BiSpecToBytes(e) == \* a.to_bytes(block_size = b, byteorder = bo)
   IF BiIsNeg(e.b) \/ ~BnFitsInt(e.b.m) THEN BiXSilent("block size")
   ELSE LET bs == BnToInt(e.b.m)  min == BiMinBytesBE(e.a.m) IN
        IF BiIsNeg(e.a) \/ e.bo \notin {"big", "little"} \/ (bs > 0 /\ Len(min) > bs) THEN BiXExc(VE)
        ELSE LET be == BiPadBE(min, bs) IN BiXBytes(IF e.bo = "big" THEN be ELSE BnRev(be))
BiSpecFromBytes(e) == IF e.bo = "big" THEN BiXInt(BiOfNat(BnOfBytesBE(e.by))) ELSE IF e.bo = "little" THEN BiXInt(BiOfNat(BnOfBytesLE(e.by))) ELSE BiXExc(VE)
BiSpecCmp(e) == LET c == BiCmp(e.a, e.b) IN
   BiXBool(CASE e.op = "eq" -> c = 0 [] e.op = "ne" -> c # 0 [] e.op = "lt" -> c < 0 [] e.op = "le" -> c <= 0 [] e.op = "gt" -> c > 0 [] e.op = "ge" -> c >= 0)
\* _mult_modulo_bytes(a, b, c): documented for non-negative terms and a positive odd modulus; result as long as the modulus
BiOddModulusViolations(c) == (IF BiIsZero(c) THEN ZE ELSE {}) \cup (IF BiIsNeg(c) THEN VE ELSE {}) \cup (IF ~BiIsZero(c) /\ ~BnIsOdd(c.m) THEN VE ELSE {})
BiSpecMultModBytes(e) == LET viol == BiOddModulusViolations(e.c) IN
   IF viol # {} THEN BiXExc(viol)
   ELSE IF BiIsNeg(e.a) \/ BiIsNeg(e.b) THEN BiXSilent("negative term")
   ELSE IF BnIsNat(e.w.q) /\ BnIsNat(e.w.r) /\ BnIsModWitness(BnMul(e.a.m, e.b.m), e.c.m, e.w.q, e.w.r)
        THEN BiXBytes(BiPadBE(BnToBytesBE(e.w.r), Len(BiMinBytesBE(e.c.m)))) ELSE BiXBadW("quotient/remainder")
\* the C helpers of the custom back-end (src/modexp.c): numbers are big-endian strings of e.n bytes; the modulus must be odd,
\* the base (the terms) smaller than the modulus; the observation is the byte string, or exception class "error" for a non-zero return code
\* ModulusOneOfTheCHelpers: src/mont.c documents "modulus is odd and at least 3" for the Montgomery context and refuses 1 with
\* ERR_MODULUS; the Python layer (IntegerCustom) handles the modulus 1 itself, which IS judged (F14).  Silent here.
BiSpecMontyPow(e) == IF BiIsZero(e.c) \/ ~BnIsOdd(e.c.m) THEN BiXExc({"error"})
   ELSE IF BnCmp(e.c.m, <<1>>) = 0 THEN BiXSilent("modulus 1 is outside the documented domain of mont.c")
   ELSE IF BnCmp(e.a.m, e.c.m) >= 0 THEN BiXSilent("base >= modulus")
   ELSE IF BnIsNat(e.w.r) /\ BnIsPowMod(e.a.m, e.b.m, e.c.m, e.w.chain, e.w.r) THEN BiXBytes(BiPadBE(BnToBytesBE(e.w.r), e.n))
   ELSE BiXBadW("square-and-multiply chain")
BiSpecMontyMul(e) == IF BiIsZero(e.c) \/ ~BnIsOdd(e.c.m) THEN BiXExc({"error"})
   ELSE IF BnCmp(e.c.m, <<1>>) = 0 THEN BiXSilent("modulus 1 is outside the documented domain of mont.c")
   ELSE IF BnCmp(e.a.m, e.c.m) >= 0 \/ BnCmp(e.b.m, e.c.m) >= 0 THEN BiXSilent("term >= modulus")
   ELSE IF BnIsNat(e.w.q) /\ BnIsNat(e.w.r) /\ BnIsModWitness(BnMul(e.a.m, e.b.m), e.c.m, e.w.q, e.w.r) THEN BiXBytes(BiPadBE(BnToBytesBE(e.w.r), e.n))
   ELSE BiXBadW("quotient/remainder")

BiCmpOps == {"eq", "ne", "lt", "le", "gt", "ge"}
BiApiOps == {"new", "add", "sub", "mul", "floordiv", "mod", "pow", "powm", "abs", "sqrt", "sqrtm", "and", "or", "rshift", "lshift", "get_bit",
             "is_odd", "is_even", "is_negative", "bool", "size_in_bits", "size_in_bytes", "is_perfect_square", "fail_if_divisible_by",
             "multiply_accumulate", "set", "inverse", "gcd", "lcm", "jacobi_symbol", "to_bytes", "from_bytes", "mult_modulo_bytes",
             "monty_pow", "monty_multiply"} \cup BiCmpOps
BiApiSpec(e) ==
   CASE e.op = "new" -> BiXInt(e.a)
     [] e.op = "add" -> BiXInt(BiAdd(e.a, e.b))
     [] e.op = "sub" -> BiXInt(BiSub(e.a, e.b))
     [] e.op = "mul" -> BiXInt(BiMul(e.a, e.b))
     [] e.op = "floordiv" -> BiSpecDiv(e)
     [] e.op = "mod" -> BiSpecMod(e)
     [] e.op = "pow" -> BiSpecPow(e)
     [] e.op = "powm" -> BiSpecPowMod(e)
     [] e.op = "abs" -> BiXInt(BiAbs(e.a))
     [] e.op = "sqrt" -> BiSpecSqrt(e)
     [] e.op = "sqrtm" -> BiSpecSqrtMod(e)
     [] e.op = "and" -> BiXInt(BiAnd(e.a, e.b))
     [] e.op = "or" -> BiXInt(BiOr(e.a, e.b))
     [] e.op = "rshift" -> BiSpecShift(e, FALSE)
     [] e.op = "lshift" -> BiSpecShift(e, TRUE)
     [] e.op = "get_bit" -> BiSpecGetBit(e)
     [] e.op = "is_odd" -> BiXBool(BnIsOdd(e.a.m))
     [] e.op = "is_even" -> BiXBool(~BnIsOdd(e.a.m))
     [] e.op = "is_negative" -> BiXBool(BiIsNeg(e.a))
     [] e.op = "bool" -> BiXBool(~BiIsZero(e.a))
     [] e.op = "size_in_bits" -> IF BiIsNeg(e.a) THEN BiXExc(VE) ELSE BiXPy(BiOfInt(BiSizeInBits(e.a)))
     [] e.op = "size_in_bytes" -> IF BiIsNeg(e.a) THEN BiXExc(VE) ELSE BiXPy(BiOfInt(((BiSizeInBits(e.a) - 1) \div 8) + 1))
     [] e.op = "is_perfect_square" -> BiSpecIsSquare(e)
     [] e.op = "fail_if_divisible_by" -> BiSpecFailIfDivisible(e)
     [] e.op = "multiply_accumulate" -> BiXInt(BiAdd(e.a, BiMul(e.b, e.c)))
     [] e.op = "set" -> BiXInt(e.b)
     [] e.op = "inverse" -> BiSpecInverse(e)
     [] e.op = "gcd" -> BiSpecGcd(e)
     [] e.op = "lcm" -> BiSpecLcm(e)
     [] e.op = "jacobi_symbol" -> BiSpecJacobi(e)
     [] e.op = "to_bytes" -> BiSpecToBytes(e)
     [] e.op = "from_bytes" -> BiSpecFromBytes(e)
     [] e.op \in BiCmpOps -> BiSpecCmp(e)
     [] e.op = "mult_modulo_bytes" -> BiSpecMultModBytes(e)
     [] e.op = "monty_pow" -> BiSpecMontyPow(e)
     [] e.op = "monty_multiply" -> BiSpecMontyMul(e)

\* ================================================================== PART 3: judging one observation
\* o = [tn |-> type name ("Integer" = the back-end's own class), ex |-> exception class or "none", v |-> numeric value (integer),
\*      by |-> bytes, self |-> the receiver after the call, ip |-> the call is an in-place form]
BiWrongValue(o, e) == IF e.op = "rshift" /\ BiIsNeg(e.a) /\ BiIsCount(e.b) /\ o.v = BiShrTrunc(e.a, BnToInt(e.b.m))
                      THEN "truncates toward zero" ELSE "returns a value that is not the exact result"
BiJudge(x, o, e) ==
   IF x.k = "silent" THEN "ok"
   ELSE IF x.k = "exc" THEN (IF o.ex = "none" THEN "returns a value where no result exists"
                             ELSE IF o.ex \notin x.ex THEN "raises " \o o.ex \o " instead of " \o (CHOOSE c \in x.ex : TRUE) ELSE "ok")
   ELSE IF o.ex # "none" THEN "raises " \o o.ex \o " where a result exists"
   ELSE IF x.k = "bytes" THEN (IF o.tn # "bytes" THEN "returns " \o o.tn \o " instead of bytes"
                               ELSE IF o.by # x.by THEN "returns bytes that are not the exact result" ELSE "ok")
   ELSE IF x.k = "NoneType" THEN (IF o.tn # "NoneType" THEN "returns " \o o.tn \o " instead of None" ELSE "ok")
   ELSE IF o.tn \in {"Integer", "int", "bool"} /\ o.v \notin x.vs THEN BiWrongValue(o, e)
   ELSE IF o.ip /\ o.self \notin x.vs THEN "does not leave the result in the receiver"      \* (also judged when the call returns None)
   ELSE IF ~o.ip /\ o.self # e.a THEN "changes the receiver"
   ELSE IF o.tn # x.k THEN "returns " \o o.tn \o " instead of " \o x.k
   ELSE "ok"

\* ================================================================== self-test
\* the arithmetic against TLC's own (32-bit) integers on a window around zero and around the limb boundary
BiWin == (0 - 40)..40 \cup {0 - 4097, 0 - 4096, 0 - 4095, 4095, 4096, 4097}
ASSUME \A x \in BiWin, y \in BiWin :
          /\ BiAdd(BiOfInt(x), BiOfInt(y)) = BiOfInt(x + y) /\ BiSub(BiOfInt(x), BiOfInt(y)) = BiOfInt(x - y)
          /\ BiMul(BiOfInt(x), BiOfInt(y)) = BiOfInt(x * y)
          /\ BiCmp(BiOfInt(x), BiOfInt(y)) = (IF x < y THEN -1 ELSE IF x = y THEN 0 ELSE 1)
          /\ y > 0 => BiIsFloorDivMod(BiOfInt(x), BiOfInt(y), BiOfInt(x \div y), BiOfInt(x % y))
          /\ y > 0 => BiIsFloorDivMod(BiOfInt(x), BiOfInt(0 - y), BiOfInt((0 - x) \div y), BiOfInt(0 - ((0 - x) % y)))
          /\ y > 0 /\ (x % y) # 0 => ~BiIsFloorDivMod(BiOfInt(x), BiOfInt(y), BiOfInt((x \div y) + 1), BiOfInt((x % y) - y))
ASSUME \A x \in BiWin, n \in 0..14 : BiShr(BiOfInt(x), n) = BiOfInt(x \div (2 ^ n)) /\ BiShl(BiOfInt(x), n) = BiOfInt(x * (2 ^ n))
ASSUME BiShr(BiOfInt(-1), 1) = BiOfInt(-1) /\ BiShr(BiOfInt(-5), 1) = BiOfInt(-3) /\ BiShrTrunc(BiOfInt(-5), 1) = BiOfInt(-2)
\* & and | against two's complement in a 16-bit window (values in -8192..8191 need at most 14 bits plus sign)
BiTc(x) == (x + 65536) % 65536
BiUnTc(u) == IF u >= 32768 THEN u - 65536 ELSE u
ASSUME \A x \in BiWin, y \in BiWin : /\ BiAnd(BiOfInt(x), BiOfInt(y)) = BiOfInt(BiUnTc(BiTc(x) & BiTc(y)))
                                     /\ BiOr(BiOfInt(x), BiOfInt(y)) = BiOfInt(BiUnTc(BiTc(x) | BiTc(y)))
ASSUME BiPowInt(BiOfInt(-3), 5) = BiOfInt(-243) /\ BiPowInt(BiOfInt(-3), 4) = BiOfInt(81) /\ BiPowInt(BiZero, 0) = BiOne
ASSUME BiIsInt(BiOfInt(-4096)) /\ ~BiIsInt([s |-> 1, m |-> <<>>]) /\ ~BiIsInt([s |-> 0, m |-> <<1, 0>>]) /\ ~BiIsInt([s |-> 0, m |-> <<4096>>])
ASSUME BiIsCertifiedPrime(<<2>>) /\ BiIsCertifiedPrime(BnOfInt(65537)) /\ ~BiIsCertifiedPrime(BnOfInt(65535)) /\ BiIsCertifiedPrime(BiP256)
ASSUME ~BiIsCertifiedPrime(BnAdd(BiP256, <<2>>)) /\ Len(BnToBytesBE(BiP521)) = 66 /\ BnBitLen(BiOrder25519) = 253 /\ BnBitLen(BiModp2048) = 2048
ASSUME BiModp2048 = BnAdd(BnShl(BiModp2048Q, 1), <<1>>) /\ BiModp1536 = BnAdd(BnShl(BiModp1536Q, 1), <<1>>) /\ BiModp3072 = BnAdd(BnShl(BiModp3072Q, 1), <<1>>)
\* the API specification on small cases (values by hand)
BiE(op, a, b, c, w) == [op |-> op, a |-> BiOfInt(a), b |-> BiOfInt(b), c |-> BiOfInt(c), bo |-> "big", by |-> <<>>, n |-> 0, w |-> w]
BiQR(q, r) == [q |-> BiOfInt(q), r |-> BiOfInt(r)]
ASSUME BiApiSpec(BiE("floordiv", -7, 2, 0, BiQR(-4, 1))) = BiXInt(BiOfInt(-4)) /\ BiApiSpec(BiE("floordiv", -7, 2, 0, BiQR(-3, -1))).k = "badwitness"
ASSUME BiApiSpec(BiE("floordiv", 7, 0, 0, BiQR(0, 0))) = BiXExc(ZE) /\ BiApiSpec(BiE("mod", 7, -2, 0, BiQR(0, 0))) = BiXExc(VE)
ASSUME BiApiSpec(BiE("mod", -7, 3, 0, BiQR(-3, 2))) = BiXInt(BiOfInt(2)) /\ BiApiSpec(BiE("rshift", -5, 1, 0, <<>>)) = BiXInt(BiOfInt(-3))
ASSUME BiApiSpec(BiE("powm", 5, 3, 1, [q0 |-> BiOfInt(5), g |-> <<>>, r |-> <<>>, chain |-> <<[q |-> <<>>, v |-> <<>>], [q |-> <<>>, v |-> <<>>]>>])) = BiXInt(BiZero)
ASSUME BiApiSpec(BiE("powm", 5, -3, 0, <<>>)) = BiXExc({"ValueError", "ZeroDivisionError"}) /\ BiApiSpec(BiE("powm", 5, 3, 0, <<>>)) = BiXExc(ZE)
ASSUME BiApiSpec(BiE("pow", -2, 9, 0, <<>>)) = BiXInt(BiOfInt(-512)) /\ BiApiSpec(BiE("pow", 2, 257, 0, <<>>)).k = "silent" /\ BiApiSpec(BiE("pow", 2, -1, 0, <<>>)) = BiXExc(VE)
ASSUME BiApiSpec(BiE("inverse", 3, 7, 0, [inv |-> 1, x |-> <<5>>, k |-> BiOfInt(2)])) = BiXInt(BiOfInt(5))
ASSUME BiApiSpec(BiE("inverse", 3, 7, 0, [inv |-> 1, x |-> <<12>>, k |-> BiOfInt(5)])).k = "badwitness"
ASSUME BiApiSpec(BiE("inverse", 6, 9, 0, [inv |-> 0, g |-> <<3>>, ca |-> BiOfInt(2), cb |-> BiOfInt(3)])) = BiXExc(VE)
ASSUME BiApiSpec(BiE("inverse", 6, 9, 0, [inv |-> 0, g |-> <<1>>, ca |-> BiOfInt(6), cb |-> BiOfInt(9)])).k = "badwitness"
ASSUME BiApiSpec(BiE("gcd", -12, 18, 0, [g |-> <<6>>, ca |-> BiOfInt(-2), cb |-> BiOfInt(3), u |-> BiOfInt(1), v |-> BiOfInt(1)])) = BiXInt(BiOfInt(6))
ASSUME BiApiSpec(BiE("gcd", -12, 18, 0, [g |-> <<3>>, ca |-> BiOfInt(-4), cb |-> BiOfInt(6), u |-> BiOfInt(1), v |-> BiOfInt(1)])).k = "badwitness"
ASSUME BiApiSpec(BiE("lcm", -12, 18, 0, [g |-> <<6>>, ca |-> BiOfInt(-2), cb |-> BiOfInt(3), u |-> BiOfInt(1), v |-> BiOfInt(1), l |-> <<36>>])) = BiXInt(BiOfInt(36))
ASSUME BiApiSpec(BiE("sqrtm", 2, 7, 0, [q0 |-> BiZero, g |-> <<2>>, res |-> 1, roots |-> <<[r |-> <<3>>, q |-> <<1>>], [r |-> <<4>>, q |-> <<2>>]>>, qs |-> <<>>])).vs = {BiOfInt(3), BiOfInt(4)}
ASSUME BiApiSpec(BiE("sqrtm", 3, 7, 0, [q0 |-> BiZero, g |-> <<3>>, res |-> 0, roots |-> <<>>, qs |-> <<<<2>>>>])) = BiXExc(VE)
ASSUME BiApiSpec(BiE("sqrtm", 2, 7, 0, [q0 |-> BiZero, g |-> <<2>>, res |-> 0, roots |-> <<>>, qs |-> <<>>])).k = "badwitness"
ASSUME BiApiSpec(BiE("sqrtm", 2, 9, 0, <<>>)).k = "silent" /\ BiApiSpec(BiE("sqrtm", 2, 0, 0, <<>>)) = BiXExc(VE)
ASSUME BiApiSpec(BiE("jacobi_symbol", -1, 7, 0, [q0 |-> BiOfInt(-1), g |-> <<6>>, qs |-> <<<<2>>>>])) = BiXPy(BiOfInt(-1))
ASSUME BiApiSpec(BiE("jacobi_symbol", 5, 8, 0, <<>>)) = BiXExc(VE) /\ BiApiSpec(BiE("size_in_bits", 0, 0, 0, <<>>)) = BiXPy(BiOne)
ASSUME BiApiSpec(BiE("to_bytes", 258, 4, 0, <<>>)) = BiXBytes(<<0, 0, 1, 2>>) /\ BiApiSpec(BiE("to_bytes", 258, 1, 0, <<>>)) = BiXExc(VE)
ASSUME BiApiSpec(BiE("to_bytes", 0, 0, 0, <<>>)) = BiXBytes(<<0>>) /\ BiApiSpec([BiE("to_bytes", 258, 3, 0, <<>>) EXCEPT !.bo = "little"]) = BiXBytes(<<2, 1, 0>>)
ASSUME BiApiSpec(BiE("mult_modulo_bytes", 300, 300, 257, [q |-> BnOfInt(350), r |-> <<50>>])) = BiXBytes(<<0, 50>>)
ASSUME BiApiSpec(BiE("mult_modulo_bytes", 3, 3, 8, <<>>)) = BiXExc(VE) /\ BiApiSpec(BiE("mult_modulo_bytes", 0, 0, 1, [q |-> <<>>, r |-> <<>>])) = BiXBytes(<<0>>)
ASSUME BiApiSpec(BiE("fail_if_divisible_by", 21, 7, 0, BiQR(3, 0))) = BiXExc(VE) /\ BiApiSpec(BiE("fail_if_divisible_by", 22, 7, 0, BiQR(3, 1))) = BiXNone
ASSUME BiApiSpec(BiE("is_perfect_square", 49, 0, 0, [s |-> <<7>>])) = BiXBool(TRUE) /\ BiApiSpec(BiE("is_perfect_square", 50, 0, 0, [s |-> <<7>>])) = BiXBool(FALSE)
BiO(tn, ex, v, self, ip) == [tn |-> tn, ex |-> ex, v |-> BiOfInt(v), by |-> <<>>, self |-> BiOfInt(self), ip |-> ip]
ASSUME LET e == BiE("rshift", -5, 1, 0, <<>>)  x == BiApiSpec(e) IN
          /\ BiJudge(x, BiO("Integer", "none", -3, -5, FALSE), e) = "ok" /\ BiJudge(x, BiO("Integer", "none", -2, -5, FALSE), e) = "truncates toward zero"
          /\ BiJudge(x, BiO("int", "none", -3, -5, FALSE), e) = "returns int instead of Integer" /\ BiJudge(x, BiO("Integer", "none", -3, -3, TRUE), e) = "ok"
          /\ BiJudge(x, BiO("Integer", "none", -3, -5, TRUE), e) = "does not leave the result in the receiver"
          /\ BiJudge(x, BiO("Integer", "none", -3, -3, FALSE), e) = "changes the receiver"
          /\ BiJudge(x, BiO("none", "ValueError", 0, -5, FALSE), e) = "raises ValueError where a result exists"
          /\ BiJudge(x, BiO("NoneType", "none", 0, -3, TRUE), e) = "returns NoneType instead of Integer"
          /\ BiJudge(x, BiO("NoneType", "none", 0, -5, TRUE), e) = "does not leave the result in the receiver"
          /\ BiJudge(x, BiO("Integer", "none", -2, -2, TRUE), e) = "truncates toward zero"
ASSUME LET e == BiE("mod", 5, 0, 0, <<>>)  x == BiApiSpec(e) IN
          /\ BiJudge(x, BiO("none", "ZeroDivisionError", 0, 5, FALSE), e) = "ok" /\ BiJudge(x, BiO("Integer", "none", 0, 5, FALSE), e) = "returns a value where no result exists"
          /\ BiJudge(x, BiO("none", "ValueError", 0, 5, FALSE), e) = "raises ValueError instead of ZeroDivisionError"
\* the odd composites below 12000 that pass are exactly the Lucas pseudoprimes of the literature (OEIS A217120)
ASSUME {n \in 7..12000 : n % 2 = 1 /\ ~BnIsSmallPrime(n) /\ BiSmallLucas(n) = 1} = {323, 377, 1159, 1829, 3827, 5459, 5777, 9071, 9179, 10877, 11419, 11663}
ASSUME \A n \in 2..3000 : BnIsSmallPrime(n) => BiSmallLucas(n) = 1
ASSUME BiSmallLucas(16109) = 1 /\ BiSmallLucas(18971) = 1 /\ BiSmallLucas(16111) = 1 /\ BiSmallLucas(16113) = 0
=============================================================================
