\* 4-bit bytes (base 16): shuffle of 0..4 elements, sample(n <= 4, k <= n); tapes of up to 3 bytes explored, every tape of up to 4 bytes counted (65536 per case)
CONSTANTS NaiveShuffle = FALSE
BW = 4
MaxN = 4
MaxLen = 3
FibreLen = 4
INIT Init
NEXT Next
CHECK_DEADLOCK FALSE
INVARIANTS Terminal StepUniform RunMatchesSteps FibresEqual
PROPERTY Memoryless
