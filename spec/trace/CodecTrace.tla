------------------------------- MODULE CodecTrace -------------------------------
(* C13 trace specification for the low-level codecs.  One record per trace; TLC computes the expected outcome from
   obj/DerDecoder, obj/DerDecoderKeyFiles, data/Padding and data/PemCodec and names the first clause the recorded
   outcome violates.
   kinds:
     sweep    all strings of a universe (alphabet, maxlen, prefix) through one decoder configuration d; the recorder
              lists the accepted strings with their values (acc) and the strings that raised something other than
              ValueError (oth); every other string of the universe raised ValueError.  TLC enumerates the same
              universe and judges every string.  Verdict: "ok" or a JSON list of [clause, n, s] (clause, number of
              strings, first witness).
     dec      one decoder call (d, s) -> out / v / fn
     enc      one encoder call (d, v) -> enc, and the library's decoding of its own encoding
     encints  DerInteger(n).encode() for lo <= n <= hi
     unpadsweep / unpad / pad / l2b / b2l / rfc1751      padding, integer conversion, RFC 1751 (round trip only)
     key      one call of RSA/DSA/ECC.import_key, PKCS8.unwrap or PEM.decode on a mutated real key file (mutation class,
              path to the mutated element, the DER string, armour): totality (value or documented exception class), no
              password-based key derivation without a passphrase, strictness where ReadTlv confirms the defect, and the
              value where the specification defines it (clear PKCS#8, canonical PEM)
     keysweep all short strings of a universe into one of these entry points
     wrap / pemenc   PKCS8.wrap and PEM.encode (canonical output, round trip, also through encryption)
   A string inside a NAMED TOLERANCE of DerDecoder (r[3]) may be refused with ValueError or accepted with the value
   computed here; everything else is determined. *)
EXTENDS DerDecoderKeyFiles, Padding, PemCodec, Json, IOUtils
Traces == JsonDeserialize(IOEnv.TRACE_FILE)
Range(f) == {f[i] : i \in DOMAIN f}

InputClass(d, s) == LET r == Decode(d, s) IN IF IsOk(r) THEN (IF r[3] THEN "tolerated encoding" ELSE "valid encoding") ELSE r[2]
Raised(d, s, exc, fn) == "raised " \o exc \o " in " \o fn \o ": " \o InputClass(d, s)

(* ---------------------------------------------------------------- dec *)
DecVerdict(e) ==
   LET r == Decode(e.d, e.s) IN
   IF e.out = "ok" THEN (IF ~IsOk(r) THEN "accepted " \o r[2] ELSE IF r[2] # e.v THEN "value differs" ELSE "ok")
   ELSE IF e.out = "ValueError" THEN (IF IsOk(r) /\ ~r[3] THEN "rejected a valid encoding" ELSE "ok")
   ELSE Raised(e.d, e.s, e.out, e.fn)

(* ---------------------------------------------------------------- sweep *)
Strs(A, n) == UNION {[1..k -> A] : k \in 0..n}
\* x belongs to the universe of the record e (strings over the alphabet, at most maxlen long, starting with the prefix)
InU(e, x) == /\ Len(x) <= e.maxlen /\ Len(x) >= Len(e.prefix) /\ SubSeq(x, 1, Len(e.prefix)) = e.prefix
             /\ \A i \in 1..Len(x) : \E j \in 1..Len(e.alphabet) : e.alphabet[j] = x[i]
SweepVerdict(e) ==
   LET d == e.d
       A == Range(e.alphabet)
       U == {e.prefix \o t : t \in Strs(A, e.maxlen - Len(e.prefix))}
       acc == {<<a.s, a.v>> : a \in Range(e.acc)}
       accS == {a.s : a \in Range(e.acc)}
       othS == {o.s : o \in Range(e.oth)}
       m0 == {[clause |-> "harness: string outside the universe", s |-> x] : x \in {y \in accS \cup othS : ~InU(e, y)}}
               \cup (IF e.n # Cardinality(U) THEN {[clause |-> "harness: universe size differs", s |-> <<>>]} ELSE {})
               \cup {[clause |-> "harness: string recorded twice", s |-> x] : x \in accS \cap othS}
       m1 == {[clause |-> Raised(d, o.s, o.exc, o.fn), s |-> o.s] : o \in Range(e.oth)}
       m2 == {[clause |-> "rejected a valid encoding", s |-> x] :
                 x \in {y \in U : LET r == Decode(d, y) IN IsOk(r) /\ ~r[3] /\ y \notin accS /\ y \notin othS}}
       m3 == {[clause |-> (LET r == Decode(d, a[1]) IN IF ~IsOk(r) THEN "accepted " \o r[2] ELSE "value differs"), s |-> a[1]] :
                 a \in {b \in acc : LET r == Decode(d, b[1]) IN ~IsOk(r) \/ r[2] # b[2]}}
       M == m0 \cup m1 \cup m2 \cup m3
       clauses == {m.clause : m \in M}
   IN IF M = {} THEN "ok"
      ELSE ToJson({[clause |-> c, n |-> Cardinality({m \in M : m.clause = c}), s |-> (CHOOSE m \in M : m.clause = c).s] : c \in clauses})

(* ---------------------------------------------------------------- enc *)
EncVerdict(e) ==
   IF e.out # "ok" THEN "encoder raised " \o e.out
   ELSE IF Encode(e.d, e.v) # e.enc THEN "encoding is not the canonical one"
   ELSE IF e.back # "ok" THEN "decoding the encoding raised " \o e.back
   ELSE IF ~SameValue(e.d, e.back_v, e.v) THEN "decoding the encoding does not return the value"
   ELSE "ok"
EncIntsVerdict(e) ==
   LET d == Dec("DerInteger", TRUE)
       bad == {i \in 1..Len(e.encs) : Encode(d, IntOfInt(e.lo + i - 1)) # e.encs[i] \/ e.backs[i] # e.lo + i - 1}
   IN IF Len(e.encs) # e.hi - e.lo + 1 \/ Len(e.backs) # Len(e.encs) THEN "harness: wrong number of encodings"
      ELSE IF bad = {} THEN "ok"
      ELSE LET i == CHOOSE j \in bad : \A k \in bad : j <= k IN
           IF Encode(d, IntOfInt(e.lo + i - 1)) # e.encs[i] THEN "encoding is not the canonical one" ELSE "decoding the encoding does not return the value"

(* ---------------------------------------------------------------- padding, integer conversion, RFC 1751 *)
UnpadVerdict(e) ==
   LET r == UnpadFast(e.s, e.bs, e.style) IN
   IF e.out = "ok" THEN (IF r[1] # "ok" THEN "accepted " \o r[2] ELSE IF r[2] # e.v THEN "value differs" ELSE "ok")
   ELSE IF e.out = "ValueError" THEN (IF r[1] = "ok" THEN "rejected a valid padding" ELSE "ok")
   ELSE "raised " \o e.out \o " in " \o e.fn \o ": " \o (IF r[1] = "ok" THEN "valid padding" ELSE r[2])
UnpadSweepVerdict(e) ==
   LET A == Range(e.alphabet)
       U == {e.prefix \o t : t \in Strs(A, e.maxlen - Len(e.prefix))}
       acc == {<<a.s, a.v>> : a \in Range(e.acc)}
       accS == {a.s : a \in Range(e.acc)}
       othS == {o.s : o \in Range(e.oth)}
       F(x) == UnpadFast(x, e.bs, e.style)
       m0 == {[clause |-> "harness: string outside the universe", s |-> x] : x \in {y \in accS \cup othS : ~InU(e, y)}}
               \cup (IF e.n # Cardinality(U) THEN {[clause |-> "harness: universe size differs", s |-> <<>>]} ELSE {})
       m1 == {[clause |-> "raised " \o o.exc \o " in " \o o.fn \o ": " \o (IF F(o.s)[1] = "ok" THEN "valid padding" ELSE F(o.s)[2]), s |-> o.s] : o \in Range(e.oth)}
       m2 == {[clause |-> "rejected a valid padding", s |-> x] : x \in {y \in U : F(y)[1] = "ok" /\ y \notin accS /\ y \notin othS}}
       m3 == {[clause |-> (IF F(a[1])[1] # "ok" THEN "accepted " \o F(a[1])[2] ELSE "value differs"), s |-> a[1]] :
                 a \in {b \in acc : F(b[1])[1] # "ok" \/ F(b[1])[2] # b[2]}}
       M == m0 \cup m1 \cup m2 \cup m3
       clauses == {m.clause : m \in M}
   IN IF M = {} THEN "ok"
      ELSE ToJson({[clause |-> c, n |-> Cardinality({m \in M : m.clause = c}), s |-> (CHOOSE m \in M : m.clause = c).s] : c \in clauses})
PadVerdict(e) ==
   IF e.out # "ok" THEN "raised " \o e.out
   ELSE IF e.padded # Pad(e.data, e.bs, e.style) THEN "padded string is not the defined one" ELSE "ok"
L2bVerdict(e) ==
   IF e.out # "ok" THEN "raised " \o e.out
   ELSE IF e.bytes # LongToBytes(e.n, e.blocksize) THEN "result is not the defined octet string"
   ELSE IF e.back # e.n THEN "bytes_to_long(long_to_bytes(n)) differs from n" ELSE "ok"
B2lVerdict(e) ==
   IF e.out # "ok" THEN "raised " \o e.out
   ELSE IF e.v # BytesToLong(e.s) THEN "value differs" ELSE "ok"
\* RFC 1751 as an uninterpreted bijection: six words per 8 octets, decoding returns the key, words are canonical (upper case,
\* re-encoding the decoded key gives the same words) and case-insensitive on input
Rfc1751Verdict(e) ==
   IF Len(e.key) % 8 # 0 THEN (IF e.out = "ValueError" THEN "ok" ELSE "accepted a key whose length is not a multiple of 8")
   ELSE IF e.out # "ok" THEN "raised " \o e.out \o " on a valid key"
   ELSE IF e.nwords # 6 * (Len(e.key) \div 8) THEN "wrong number of words"
   ELSE IF e.back # e.key THEN "decoding the words does not return the key"
   ELSE IF ~e.same_words \/ ~e.upper THEN "words are not canonical"
   ELSE IF e.lower_back # e.key THEN "lower-case words decode differently" ELSE "ok"

(* ---------------------------------------------------------------- high-level decoders: import_key, PKCS8.unwrap, PEM.decode *)
\* the first clause that is not "ok"
First(cs) == IF \E i \in 1..Len(cs) : cs[i] # "ok" THEN cs[CHOOSE i \in 1..Len(cs) : cs[i] # "ok" /\ \A j \in 1..(i - 1) : cs[j] = "ok"] ELSE "ok"
Pkcs8Verdict(e) ==
   LET r == Pkcs8Unwrap(e.der) IN
   IF e.out = "ok" THEN (IF ~IsOk(r) THEN "accepted " \o r[2] ELSE IF ~r[3] /\ r[2] # e.v THEN "value differs" ELSE "ok")
   ELSE IF IsOk(r) /\ ~r[3] THEN "rejected a valid PrivateKeyInfo" ELSE "ok"
PemDecodeVerdict(e) ==
   LET c == PemDecodeCanonical(e.text) IN
   IF c[1] = "ok" THEN (IF e.out # "ok" THEN "rejected a canonical PEM block" \o (IF Len(c[2]) = 0 THEN ": empty data" ELSE "")
                        ELSE IF e.v # [data |-> c[2], marker |-> c[3], enc |-> FALSE] THEN "value differs" ELSE "ok")
   ELSE IF ~e.pass /\ SecondWordStartsWithProcType(e.text) /\ e.out = "ok" THEN "decoded an encrypted PEM block without a passphrase"
   ELSE "ok"
\* input class of a finding: what ReadTlv finds at the mutated element when the class is one it can confirm, else the recorder's class
KeyInputClass(e) == IF e.armour # "text" /\ e.mut \in StrictClasses /\ Confirms(e.mut, DefectAt(e.der, e.path), e.path = <<>>)
                    THEN DefectName(e.mut, DefectAt(e.der, e.path)) ELSE e.mut
KeyVerdict(e) == First(<<
   IF e.out = "harness-timeout" THEN "harness: the call did not return" ELSE "ok",
   \* totality: a value or a documented exception class
   IF e.out # "ok" /\ e.out \notin Documented(e.entry) THEN "raised " \o e.out \o " in " \o e.fn \o ": " \o KeyInputClass(e) ELSE "ok",
   IF ~e.pass /\ e.kdf > 0 THEN "password-based key derivation without a passphrase: " \o e.mut ELSE "ok",
   \* the armour holds exactly the DER string the strictness clause is about
   IF e.armour = "pem" /\ PemDecodeCanonical(e.pemtext) # <<"ok", e.der, e.marker>> THEN "harness: the armour does not hold the recorded DER" ELSE "ok",
   \* strictness, decided structurally
   IF e.strictable /\ e.mut \in StrictClasses
   THEN LET r == DefectAt(e.der, e.path) IN
        IF ~Confirms(e.mut, r, e.path = <<>>) THEN "harness: mutation class not confirmed by ReadTlv"
        ELSE IF e.out = "ok" THEN "accepted " \o DefectName(e.mut, r) \o ": " \o e.where ELSE "ok"
   ELSE "ok",
   \* where the specification defines the value
   IF e.entry = "PKCS8.unwrap" /\ ~e.pass THEN Pkcs8Verdict(e) ELSE "ok",
   IF e.entry = "PEM.decode" THEN PemDecodeVerdict(e) ELSE "ok" >>)
\* short arbitrary strings: none of them is a key; anything but ValueError (or, for RSA, IndexError/TypeError) is a finding
KeySweepVerdict(e) ==
   LET A == Range(e.alphabet)
       U == {e.prefix \o t : t \in Strs(A, e.maxlen - Len(e.prefix))}
       Cls(x) == LET c == InputClass(Dec("DerSequence", FALSE), x) IN IF c \in {"valid encoding", "tolerated encoding"} THEN "well-formed SEQUENCE" ELSE c
       m0 == {[clause |-> "harness: string outside the universe", s |-> o.s] : o \in {o \in Range(e.oth) : ~InU(e, o.s)}}
               \cup {[clause |-> "harness: string outside the universe", s |-> x] : x \in {y \in Range(e.acc) : ~InU(e, y)}}
               \cup (IF e.n # Cardinality(U) THEN {[clause |-> "harness: universe size differs", s |-> <<>>]} ELSE {})
       m1 == {[clause |-> (IF o.exc = "kdf-without-passphrase" THEN "password-based key derivation without a passphrase: " \o Cls(o.s)
                           ELSE "raised " \o o.exc \o " in " \o o.fn \o ": " \o Cls(o.s)), s |-> o.s] :
                 o \in {o \in Range(e.oth) : o.exc \notin Documented(e.entry)}}
       m2 == {[clause |-> "accepted a string too short to hold a key", s |-> x] : x \in Range(e.acc)}
       M == m0 \cup m1 \cup m2
       clauses == {m.clause : m \in M}
   IN IF M = {} THEN "ok"
      ELSE ToJson({[clause |-> c, n |-> Cardinality({m \in M : m.clause = c}), s |-> (CHOOSE m \in M : m.clause = c).s] : c \in clauses})
\* PKCS8.wrap: the clear container is the canonical encoding; unwrapping any container returns what was wrapped
Unwrapped(e) == [arcs |-> e.arcs, key |-> e.key, params |-> IF e.params.k = "raw" THEN [k |-> "raw", neg |-> FALSE, b |-> e.params.b] ELSE NoParams]
PbesOid == <<<<1>>, <<2>>, <<3, 72>>, <<1, 187, 141>>, <<1>>, <<5>>, <<13>>>>
WrapVerdict(e) ==
   LET inner == Pkcs8Wrap(e.arcs, e.key, e.params) IN
   First(<<
     IF e.out # "ok" THEN "raised " \o e.out ELSE "ok",
     IF ~e.enc /\ e.wrapped # inner THEN "PKCS#8 container is not the canonical encoding" ELSE "ok",
     IF e.enc THEN (LET top == Decode(SeqOf(<<2>>), e.wrapped) IN
                    IF ~IsOk(top) \/ top[3] \/ top[2].m[1].int \/ top[2].m[2].int THEN "encrypted container is not a SEQUENCE of two elements"
                    ELSE LET alg == Decode(SeqOf(<<2>>), top[2].m[1].b)   ct == Decode(Dec("DerOctetString", TRUE), top[2].m[2].b) IN
                         IF ~IsOk(alg) \/ alg[2].m[1].int \/ Decode(Dec("DerObjectId", TRUE), alg[2].m[1].b) # <<"ok", [arcs |-> PbesOid], FALSE>>
                         THEN "encrypted container does not announce PBES2"
                         ELSE IF ~IsOk(ct) \/ Len(ct[2].payload) # (IF e.aead THEN Len(inner) + 16 ELSE (Len(inner) \div e.bs + 1) * e.bs)
                         THEN "encrypted data has not the length of the padded PrivateKeyInfo" ELSE "ok")
     ELSE "ok",
     IF e.back # "ok" THEN "unwrapping the container raised " \o e.back ELSE "ok",
     IF e.back = "ok" /\ e.back_v # Unwrapped(e) THEN "unwrapping the container does not return what was wrapped" ELSE "ok",
     IF e.enc /\ e.nopass # "ValueError" THEN "encrypted container without passphrase: " \o e.nopass ELSE "ok" >>)
\* PEM.encode: canonical armour; decoding returns data, marker and the encryption flag
PemEncVerdict(e) == First(<<
   IF e.out # "ok" THEN "raised " \o e.out ELSE "ok",
   IF e.out = "ok" /\ ~e.enc /\ e.text # PemEncode(e.data, e.marker) THEN "armour is not the canonical one" ELSE "ok",
   IF e.enc /\ (e.text # PemEncodeEncrypted(e.ct, e.marker, e.salt) \/ Len(e.ct) # (Len(e.data) \div 8 + 1) * 8) THEN "encrypted armour has not the defined layout" ELSE "ok",
   IF e.out = "ok" /\ e.back # "ok" THEN "rejected a canonical PEM block" \o (IF Len(e.data) = 0 THEN ": empty data" ELSE "") ELSE "ok",
   IF e.back = "ok" /\ e.back_v # [data |-> e.data, marker |-> e.marker, enc |-> e.enc] THEN "decoding the armour does not return the data" ELSE "ok",
   IF e.enc /\ e.nopass # "ValueError" THEN "encrypted armour without passphrase: " \o e.nopass ELSE "ok" >>)

Verdict(e) == CASE e.kind = "sweep" -> SweepVerdict(e)
                [] e.kind = "key" -> KeyVerdict(e)
                [] e.kind = "keysweep" -> KeySweepVerdict(e)
                [] e.kind = "wrap" -> WrapVerdict(e)
                [] e.kind = "pemenc" -> PemEncVerdict(e)
                [] e.kind = "dec" -> DecVerdict(e)
                [] e.kind = "enc" -> EncVerdict(e)
                [] e.kind = "encints" -> EncIntsVerdict(e)
                [] e.kind = "unpadsweep" -> UnpadSweepVerdict(e)
                [] e.kind = "unpad" -> UnpadVerdict(e)
                [] e.kind = "pad" -> PadVerdict(e)
                [] e.kind = "l2b" -> L2bVerdict(e)
                [] e.kind = "b2l" -> B2lVerdict(e)
                [] e.kind = "rfc1751" -> Rfc1751Verdict(e)
VARIABLES t
TInit == t = 1
TNext == /\ t <= Len(Traces)
         /\ PrintT(<<"VERDICT", Traces[t].tid, 1, Verdict(Traces[t])>>)
         /\ t' = t + 1
=============================================================================
