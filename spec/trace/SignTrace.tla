------------------------------- MODULE SignTrace -------------------------------
(* C04 trace specification.  One record per trace (drivers/c04_sign.py); TLC computes with data/Signatures what the scheme's standard says
   about the recorded call and names the first clause the real outcome violates ("ok" otherwise).  Families:
     "verify"     an offered (message, signature, key, parameters) tuple -- the genuine one or one derived from it by an operator sequence
                  that TLC generated from sys/SignChannel -- with the outcome of verify() called twice on the same scheme and hash objects
     "sign"       sign() called twice with the same key and hash object: bytes, digests of the hash object before / between / after,
                  bytes drawn from the random source, the library's own verdicts on both signatures
     "ecraw"      EccKey._verify(z, (r, s)) on secp112r1 / secp128r1 through the generic C code       "ecrawsign"  EccKey._sign(z, k)
   HOW A VERIFY RECORD IS DECIDED
     1. structurally, without arithmetic: lengths, strict DER, 0 < r, s < q, S < L, decodability and canonicity of R;
     2. RSA always, the other schemes when the record carries witnesses (cert): by the CERTIFIED relation (data/Signatures);
     3. otherwise by CONSISTENCY with the genuine tuple of the same record: the offered tuple is valid iff it is the genuine tuple or
        its known twin (ECDSA: (r, n - s)); anything else derived from it is taken to be invalid -- the assumption that a
        signature scheme is not existentially forgeable by bit flips, stated in the evidence; it is never used where a certificate exists.
   Clauses starting with "harness:" are recorder inconsistencies (machinery failures), never verdicts on the library. *)
EXTENDS Integers, Sequences, TLC, Json, IOUtils
SG == INSTANCE Signatures
BN == INSTANCE BigNat
EC == INSTANCE ECGroup
Traces == JsonDeserialize(IOEnv.TRACE_FILE)

X(v, why) == [v |-> v, why |-> why]
MHash(e) == SG!SgHash(e.hash, e.msg)                                  \* the digest of the message the verifier / signer hashed
Curve(e) == EC!EcCurve(e.pub.curve)
EdPhm(e) == IF e.ph = 1 THEN SG!SgEdPh(Curve(e), e.msg) ELSE e.msg
OrderOf(e) == IF e.scheme = "dsa" THEN e.pub.q ELSE Curve(e).n
IsNatPt(P) == BN!BnIsNat(P.x) /\ BN!BnIsNat(P.y)

\* ------------------------------------------------------------------ expected verdict of an offered tuple: [v, why]
\* consistency (3.): the decoded offered signature against the decoded genuine one
Related(e) == e.samekey /\ e.samepar /\ e.msg = e.msg0
DssConsistency(e, st) ==
   LET q == OrderOf(e)  g == SG!SgDssStructure(e.enc, q, e.sig0) IN
   IF g.v # "open" THEN X("witness", "the genuine signature does not pass the structural rules")
   ELSE IF Related(e) /\ st.r = g.r /\ st.s = g.s THEN X("valid", "")
   ELSE IF Related(e) /\ e.scheme = "ecdsa" /\ st.r = g.r /\ BN!BnAdd(st.s, g.s) = q THEN X("valid", "")               \* the twin (r, n - s)
   ELSE X("invalid", e.cls)
EdConsistency(e, st) ==
   IF Related(e) /\ e.sig = e.sig0 THEN X("valid", "")
   ELSE IF Related(e) /\ e.model = "either" /\ EC!EcEdLowOrder(Curve(e), st.R) THEN X("either", "R of low order")   \* SgEdCofactorGap, uncertified
   ELSE X("invalid", e.cls)
Expected(e) ==
   CASE e.scheme = "v15" -> SG!SgV15Verify(e.pub.n, e.pub.e, e.hash, MHash(e), e.sig, e.chain)
     [] e.scheme = "pss" -> SG!SgPssVerify(e.pub.n, e.pub.e, e.hash, e.mgf, e.salt, MHash(e), e.sig, e.chain)
     [] e.scheme \in {"dsa", "ecdsa"} ->
          LET q == OrderOf(e)  st == SG!SgDssStructure(e.enc, q, e.sig) IN
          IF st.v # "open" THEN X(st.v, st.why)
          ELSE IF ~e.haswit THEN DssConsistency(e, st)
          ELSE IF e.scheme = "ecdsa" THEN (IF ~IsNatPt(e.pub.Q) THEN X("witness", "public point") ELSE SG!SgEcdsaRelation(Curve(e), e.pub.Q, SG!SgDssZ(MHash(e), q), st.r, st.s, e.dw))
          ELSE SG!SgDsaRelation([p |-> e.pub.p, q |-> e.pub.q, g |-> e.pub.g], e.pub.y, SG!SgDssZ(MHash(e), q), st.r, st.s, e.dw)
     [] e.scheme = "eddsa" ->
          LET C == Curve(e)  st == SG!SgEdStructure(C, e.sig, e.wR) IN
          IF st.v # "open" THEN X(st.v, st.why)
          ELSE IF ~e.haswit THEN EdConsistency(e, st)
          ELSE LET A == SG!SgEdDecode(C, e.pub.Ab, e.pub.wA) IN
               IF A.st # "ok" THEN X("witness", "the public key does not decode")
               ELSE SG!SgEdVerify(C, A.pt, e.pub.Ab, e.ph, e.ctx, EdPhm(e), e.sig, e.wR, e.ew)
\* what the object handed to verify() / sign() shows: the digest, the 64 octets a copy of the XOF yields, or the message itself
Observable(e) == IF e.scheme # "eddsa" THEN MHash(e) ELSE IF e.ph = 1 THEN SG!SgEdPh(Curve(e), e.msg) ELSE e.msg
VerifyVerdict(e) ==
   LET x == Expected(e) IN
   IF x.v = "witness" THEN "harness: witness refused (" \o x.why \o ")"
   ELSE IF x.v = "undefined" THEN "harness: configuration outside the domain of the scheme (" \o x.why \o ")"
   \* the offered signature is what sign() returned (no effective mutation): the first clause of C04 - sign() must produce what the standard defines as valid
   ELSE IF e.model = "accept" /\ e.cls = "genuine" /\ x.v = "invalid" THEN "sign() produced a signature the standard does not define as valid: " \o x.why
   ELSE IF e.model = "accept" /\ x.v = "invalid" THEN "harness: the model classifies the tuple as genuine, the data layer as invalid (" \o x.why \o ")"
   ELSE IF e.out = "ok" /\ x.v = "invalid" THEN "verify accepted a triple the standard does not define as valid: " \o x.why
   ELSE IF e.out = "ValueError" /\ x.v = "valid" THEN (IF Len(e.ops) = 0 THEN "verify rejected a genuine signature" ELSE "verify rejected a valid signature: " \o e.cls)
   ELSE IF e.out \notin {"ok", "ValueError"} THEN "verify raised " \o e.out \o " instead of ValueError"
   ELSE IF e.out2 # e.out THEN "repeating verify() with the same key and hash object gave another outcome"
   ELSE IF e.dig1 # e.dig0 \/ e.dig2 # e.dig0 THEN "verify consumed or changed its hash input"
   ELSE IF (e.cert \/ e.haswit) /\ e.dig0 # Observable(e) THEN "harness: the recorded digest is not the digest of the offered message"
   ELSE "ok"

\* ------------------------------------------------------------------ sign()
Unchanged(e) == e.dig1 = e.dig0 /\ e.dig2 = e.dig0 /\ e.dig3 = e.dig0
\* the library's own verdicts on its signatures (consistency where no certificate is carried)
SelfVerified(e) == e.v1 = "ok" /\ e.v2 = "ok"
RsaOpens(e, sig, chain) == LET r == SG!SgRsaVp1(e.pub.n, e.pub.e, sig, chain) IN r
PssSignVerdict(e, sig, chain, salt) ==
   LET r == RsaOpens(e, sig, chain)  emBits == SG!SgModBits(e.pub.n) - 1  emLen == SG!SgCeilDiv(emBits, 8) IN
   IF r[1] = "witness" THEN "harness: witness refused (exponentiation chain)"
   ELSE IF r[1] # "ok" THEN "signature is not a k-octet string below the modulus"
   ELSE IF Len(salt) # e.salt THEN "harness: the salt drawn from rand_func does not have the configured length"
   ELSE IF ~SG!SgFits(r[2], emLen) \/ SG!SgI2osp(r[2], emLen) # SG!SgPssEncode(e.hash, e.mgf, MHash(e), salt, emBits)
        THEN "signature is not EMSA-PSS of the digest and of the salt drawn from the random source"
   ELSE "ok"
V15SignVerdict(e, sig, chain) ==
   LET x == SG!SgV15Verify(e.pub.n, e.pub.e, e.hash, MHash(e), sig, chain) IN
   IF x.v = "witness" THEN "harness: witness refused (exponentiation chain)" ELSE IF x.v = "undefined" THEN "harness: configuration outside the domain of the scheme"
   ELSE IF x.v = "valid" THEN "ok" ELSE "deterministic signature differs from the standard's bytes"
DssSignVerdict(e) ==
   LET q == OrderOf(e)  st == SG!SgDssStructure(e.enc, q, e.sig)  z == SG!SgDssZ(MHash(e), q) IN
   IF st.v # "open" THEN "sign produced a signature that violates the structural rules: " \o st.why
   ELSE IF e.sig # SG!SgDssEncode(e.enc, q, st.r, st.s) THEN "signature is not the canonical encoding of (r, s)"
   ELSE IF e.mode = "det" THEN
        (LET k == SG!SgRfc6979K(e.hash, e.x, q, MHash(e)) IN
         IF k = <<>> THEN "harness: no nonce"
         ELSE IF ~SG!SgDssSignScalars(q, z, e.x, k, st.r, st.s, e.sw) THEN "deterministic signature differs from the standard's bytes (the nonce is not the one RFC 6979 defines)"
         ELSE IF ~e.haswit THEN (IF SelfVerified(e) THEN "ok" ELSE "sign produced a signature that verify rejects")
         ELSE LET v == IF e.scheme = "ecdsa" THEN SG!SgEcdsaSignR(Curve(e), k, st.r, e.links)
                       ELSE SG!SgDsaSignR([p |-> e.pub.p, q |-> e.pub.q, g |-> e.pub.g], k, st.r, e.links, e.gk, e.qr) IN
              IF v = "witness" THEN "harness: witness refused (chain of the nonce)"
              ELSE IF v # "ok" THEN "deterministic signature differs from the standard's bytes (r)" ELSE "ok")
   ELSE IF ~e.haswit THEN (IF SelfVerified(e) THEN "ok" ELSE "sign produced a signature that verify rejects")
   ELSE LET x == IF e.scheme = "ecdsa" THEN SG!SgEcdsaRelation(Curve(e), e.pub.Q, z, st.r, st.s, e.dw)
                 ELSE SG!SgDsaRelation([p |-> e.pub.p, q |-> e.pub.q, g |-> e.pub.g], e.pub.y, z, st.r, st.s, e.dw) IN
        IF x.v = "witness" THEN "harness: witness refused (" \o x.why \o ")"
        ELSE IF x.v = "invalid" THEN "sign produced a signature that does not satisfy the verification relation: " \o x.why ELSE "ok"
EdSignVerdict(e) ==
   LET C == Curve(e)  b == SG!SgEdB(C)  v == SG!SgEdSignScalars(C, e.seed, e.pub.Ab, e.ph, e.ctx, EdPhm(e), e.sig, e.ew) IN
   IF v = "witness" THEN "harness: witness refused (reductions modulo L)"
   ELSE IF v # "ok" THEN "deterministic signature differs from the standard's bytes (S)"
   ELSE IF ~e.haswit THEN (IF SelfVerified(e) THEN "ok" ELSE "sign produced a signature that verify rejects")
   ELSE LET vr == SG!SgEdPointIs(C, e.ew.r, SubSeq(e.sig, 1, b), e.linksR)
            va == SG!SgEdPointIs(C, SG!SgEdExpand(C, e.seed).a, e.pub.Ab, e.linksA) IN
        IF vr = "witness" \/ va = "witness" THEN "harness: witness refused (chains of r B and a B)"
        ELSE IF va # "ok" THEN "the public key is not the encoding of a B (RFC 8032 5.1.5)"
        ELSE IF vr # "ok" THEN "deterministic signature differs from the standard's bytes (R)" ELSE "ok"
SignVerdict(e) ==
   IF e.exc # "none" THEN "sign raised " \o e.exc
   ELSE IF e.exc2 # "none" THEN "a second sign() with the same key and hash object raised " \o e.exc2
   ELSE IF ~Unchanged(e) THEN "sign consumed or changed its hash input"
   ELSE IF e.dig0 # Observable(e) THEN "harness: the recorded digest is not the digest of the message"
   ELSE IF ~e.randomized /\ e.sig2 # e.sig THEN "repeating sign() with the same key and hash object gave other bytes"
   ELSE LET first == CASE e.scheme = "v15" -> V15SignVerdict(e, e.sig, e.chain)
                       [] e.scheme = "pss" -> PssSignVerdict(e, e.sig, e.chain, e.salt1)
                       [] e.scheme \in {"dsa", "ecdsa"} -> DssSignVerdict(e)
                       [] e.scheme = "eddsa" -> EdSignVerdict(e) IN
        IF first # "ok" THEN first
        ELSE IF e.randomized /\ e.scheme = "pss" THEN
             (LET second == PssSignVerdict(e, e.sig2, e.chain2, e.salt2) IN IF second # "ok" THEN "second signature: " \o second ELSE "ok")
        ELSE IF e.randomized /\ ~SelfVerified(e) THEN "a second sign() produced a signature that verify rejects"
        ELSE IF ~SelfVerified(e) THEN "verify rejected a genuine signature"
        ELSE "ok"

\* ------------------------------------------------------------------ EccKey._sign / _verify on the scaled-down curves
RawVerdict(e) ==
   LET C == EC!EcCurve(e.curve) IN
   IF ~(BN!BnIsNat(e.r) /\ BN!BnIsNat(e.s) /\ BN!BnIsNat(e.z) /\ IsNatPt(e.Q)) \/ e.r = <<>> \/ e.s = <<>> \/ ~BN!BnLt(e.r, C.n) \/ ~BN!BnLt(e.s, C.n)
   THEN "harness: operands outside the domain of the raw verification"
   ELSE LET x == SG!SgEcdsaRelation(C, e.Q, e.z, e.r, e.s, e.dw) IN
        IF x.v = "witness" THEN "harness: witness refused (" \o x.why \o ")"
        ELSE IF e.out \notin {"true", "false"} THEN "EccKey._verify raised " \o e.out
        ELSE IF x.v = "either" THEN "ok"
        ELSE IF e.out = "true" /\ x.v = "invalid" THEN "EccKey._verify accepted a pair that does not satisfy the ECDSA relation (" \o e.kind \o ")"
        ELSE IF e.out = "false" /\ x.v = "valid" THEN "EccKey._verify rejected a pair that satisfies the ECDSA relation (" \o e.kind \o ")"
        ELSE "ok"
RawSignVerdict(e) ==
   LET C == EC!EcCurve(e.curve) IN
   IF e.exc # "none" THEN "EccKey._sign raised " \o e.exc
   ELSE IF ~(BN!BnIsNat(e.r) /\ BN!BnIsNat(e.s)) THEN "harness: result is not a pair of naturals"
   ELSE LET v == SG!SgEcdsaSignR(C, e.k, e.r, e.links) IN
        IF v = "witness" THEN "harness: witness refused (chain of k G)"
        ELSE IF v # "ok" THEN "EccKey._sign: r is not the abscissa of k G modulo n"
        ELSE IF e.s = <<>> \/ ~BN!BnLt(e.s, C.n) \/ ~SG!SgDssSignScalars(C.n, e.z, e.d, e.k, e.r, e.s, e.sw) THEN "EccKey._sign: s is not k^-1 (z + r d) modulo n"
        ELSE "ok"

Verdict(e) == CASE e.fam = "verify" -> VerifyVerdict(e) [] e.fam = "sign" -> SignVerdict(e)
                [] e.fam = "ecraw" -> RawVerdict(e) [] e.fam = "ecrawsign" -> RawSignVerdict(e) [] OTHER -> "harness: unknown family"
VARIABLES t
TInit == t = 1
TNext == /\ t <= Len(Traces)
         /\ PrintT(<<"VERDICT", Traces[t].tid, 1, Verdict(Traces[t])>>)
         /\ t' = t + 1
=============================================================================
