------------------------------- MODULE DerDecoderKeyFiles -------------------------------
(* The container layer above DerDecoder, as far as C13 states something about it:
   - the clear PKCS#8 PrivateKeyInfo / OneAsymmetricKey (RFC 5208, RFC 5958) as Crypto.IO.PKCS8.wrap/unwrap define it,
     fully (value or ValueError for every byte string);
   - for the other high-level decoders (import_key of RSA/DSA/ECC, PKCS8.unwrap with a passphrase, PEM.decode) the
     documented exception sets (totality clause) and the structural strictness clause: DefectAt walks a DER string down
     a path of child indices with ReadTlv and reports what is wrong with the element found there, so that "this input has
     an indefinite / non-minimal / impossible length at that element" is established by the specification from the bytes
     and not taken from the recorder. *)
EXTENDS DerDecoder

(* ---------------------------------------------------------------- documented exception classes per entry point *)
Documented(entry) == IF entry = "RSA.import_key" THEN {"ValueError", "IndexError", "TypeError"} ELSE {"ValueError"}

(* ---------------------------------------------------------------- PKCS#8, clear *)
SeqOf(nr) == [cls |-> "DerSequence", strict |-> FALSE, imp |-> -1, exp |-> -1, nr |-> nr, ints |-> FALSE]
NoParams == [k |-> "none", neg |-> FALSE, b |-> <<>>]
\* unwrap(s, passphrase=None): <<"ok", [arcs, key, params], tol>> or an error
Pkcs8Unwrap(s) ==
   LET top == Decode(SeqOf(<<2, 3, 4, 5>>), s) IN
   IF ~IsOk(top) THEN top ELSE
   LET m == top[2].m IN
   IF Len(m) = 2 THEN Err("two members: an EncryptedPrivateKeyInfo, not a PrivateKeyInfo")
   ELSE IF ~m[1].int THEN Err("version is not an INTEGER")
   ELSE IF ~((MemberInt(m[1]) = Zero /\ Len(m) \in {3, 4}) \/ (MemberInt(m[1]) = IntOfInt(1) /\ Len(m) \in {3, 4, 5}))
        THEN Err("version and number of members do not fit")
   ELSE IF m[2].int THEN Err("privateKeyAlgorithm is not a SEQUENCE")
   ELSE LET algo == Decode(SeqOf(<<1, 2>>), m[2].b) IN
   IF ~IsOk(algo) THEN algo ELSE
   LET am == algo[2].m IN
   IF am[1].int THEN Err("algorithm is not an OBJECT IDENTIFIER") ELSE
   LET oid == Decode(Dec("DerObjectId", FALSE), am[1].b) IN
   IF ~IsOk(oid) THEN oid
   ELSE IF m[3].int THEN Err("privateKey is not an OCTET STRING") ELSE
   LET pk == Decode(Dec("DerOctetString", FALSE), m[3].b) IN
   IF ~IsOk(pk) THEN pk ELSE
   LET null == IF Len(am) = 2 /\ ~am[2].int THEN Decode(Dec("DerNull", FALSE), am[2].b) ELSE Err("no NULL")
       params == IF Len(am) = 1 \/ IsOk(null) THEN NoParams
                 ELSE IF am[2].int THEN [k |-> "int", neg |-> am[2].neg, b |-> am[2].b]
                 ELSE [k |-> "raw", neg |-> FALSE, b |-> am[2].b]
   IN <<"ok", [arcs |-> oid[2].arcs, key |-> pk[2].payload, params |-> params],
        top[3] \/ algo[3] \/ oid[3] \/ (IsOk(null) /\ null[3])>>
\* wrap(key, oid, key_params): params.k is "null" (the default, DerNull), "absent" (None) or "raw" (an encoded element)
Pkcs8Wrap(arcs, key, params) ==
   LET E(cls, v) == Encode(Dec(cls, TRUE), v)
       algo == <<RawMember(E("DerObjectId", [arcs |-> arcs]))>>
               \o (IF params.k = "absent" THEN <<>> ELSE IF params.k = "null" THEN <<RawMember(<<5, 0>>)>> ELSE <<RawMember(params.b)>>)
   IN E("DerSequence", [m |-> <<IntMember(Zero), RawMember(E("DerSequence", [m |-> algo])), RawMember(E("DerOctetString", [payload |-> key]))>>])

(* ---------------------------------------------------------------- walking to an element *)
\* children of an element: the content of a constructed element or of an OCTET STRING, the content after the
\* unused-bits octet of a BIT STRING
ChildrenOctets(tag, content) == IF tag = 3 THEN (IF Len(content) = 0 THEN <<>> ELSE Tail(content)) ELSE content
\* skip i complete elements: the rest, or <<-1>> when one of them is not well-formed
RECURSIVE SkipElements(_,_)
SkipElements(s, i) == IF i = 0 THEN s ELSE LET r == ReadTlv(s) IN IF ~IsOk(r) THEN <<-1>> ELSE SkipElements(r[4], i - 1)
\* what ReadTlv says about the element reached from s (a concatenation of elements) along path:
\*   <<"ok", tag, content, rest>> / <<"ValueError", reason>> of that element, or <<"lost">> when the walk fails earlier
RECURSIVE ElementAt(_,_)
ElementAt(s, path) ==
   LET here == SkipElements(s, path[1]) IN
   IF here = <<-1>> THEN <<"lost">>
   ELSE LET r == ReadTlv(here) IN
        IF Len(path) = 1 THEN r
        ELSE IF ~IsOk(r) THEN <<"lost">> ELSE ElementAt(ChildrenOctets(r[2], r[3]), Tail(path))
DefectAt(der, path) == ElementAt(der, <<0>> \o [i \in 1..Len(path) |-> path[i]])
\* the classes of mutation whose effect on the bytes ReadTlv can confirm, with the reasons that confirm them; every one of
\* them makes the element unreadable for a DER reader whatever follows it
StrictClasses == {"len80", "len-nonminimal", "len-huge", "len-reserved", "truncated", "trailing"}
Confirms(cls, r, atTop) ==
   CASE cls = "len80" -> r = Err("length octet 0x80")
     [] cls = "len-nonminimal" -> r \in {Err("long-form length below 128"), Err("length with leading zero octet")}
     [] cls \in {"len-huge", "len-reserved"} -> r[1] = "ValueError" /\ r[2] \in {"truncated content", "truncated length octets", "length with leading zero octet"}
     [] cls = "truncated" -> atTop /\ r[1] = "ValueError" /\ r[2] \in {"empty input", "no length octet", "truncated content", "truncated length octets"}
     [] cls = "trailing" -> atTop /\ IsOk(r) /\ Len(r[4]) > 0
     [] OTHER -> FALSE
DefectName(cls, r) == IF cls = "trailing" THEN "trailing bytes" ELSE r[2]

ASSUME Pkcs8Unwrap(<<48, 0>>)[1] = "ValueError"
\* PrivateKeyInfo { 0, { 1.2.840.113549.1.1.1, NULL }, OCTET STRING 01 02 03 }: openssl asn1parse -genconf, OpenSSL 3.5
P8Vec == <<48, 23, 2, 1, 0, 48, 13, 6, 9, 42, 134, 72, 134, 247, 13, 1, 1, 1, 5, 0, 4, 3, 1, 2, 3>>
RsaArcs == <<<<1>>, <<2>>, <<3, 72>>, <<1, 187, 141>>, <<1>>, <<1>>, <<1>>>>
ASSUME Pkcs8Unwrap(P8Vec) = <<"ok", [arcs |-> RsaArcs, key |-> <<1, 2, 3>>, params |-> NoParams], FALSE>>
ASSUME Pkcs8Wrap(RsaArcs, <<1, 2, 3>>, [k |-> "null", b |-> <<>>]) = P8Vec
ASSUME DefectAt(P8Vec, <<1, 0>>) = <<"ok", 6, <<42, 134, 72, 134, 247, 13, 1, 1, 1>>, <<5, 0>>>>
ASSUME DefectAt(<<48, 4, 2, 128, 5, 0>>, <<0>>) = Err("length octet 0x80") /\ DefectAt(<<48, 4, 2, 128, 5, 0>>, <<1>>) = <<"lost">>
ASSUME DefectAt(<<48, 3, 2, 1, 0, 7>>, <<>>)[4] = <<7>>
=============================================================================
