\* exhaustive small sizes: every position for k = 12..16 (v1.5) and the toy hashes (OAEP)
CONSTANTS V15Ks = {12, 13, 14, 15, 16}
FullBelow = 16
OaepKHs <- SmallOaepKHs
DbKHs <- None
ShortKHs <- SmallShortKHs
Rt15Ks = {11, 12, 13, 14, 15, 16, 17, 18, 19, 20, 24, 31, 32, 33, 48}
RtOaepKHs <- SmallRtOaepKHs
RtAll = TRUE
Emit = TRUE
INIT Init
NEXT Next
INVARIANTS Sound EmitInv
CHECK_DEADLOCK FALSE
