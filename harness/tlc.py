"""Launch TLC (always with -Xss1g on the java command line, always under a timeout) and parse its output."""
import json
import os
import re
import shutil
import subprocess
import tempfile
import time
from concurrent.futures import ThreadPoolExecutor

VERIF = os.path.dirname(os.path.dirname(os.path.abspath(__file__)))
SPEC = os.path.join(VERIF, "spec")
SPEC_DIRS = [os.path.join(SPEC, d) for d in ("data", "obj", "sys", "mc", "trace")]
JAR = "/opt/veriftools/tla/tla2tools.jar:/opt/veriftools/tla/CommunityModules-deps.jar"
WORK = os.environ.get("VERIF_WORK", "/var/tmp/pcd-verif-work")


class TlcFailure(Exception):
    """Machinery failure (exit code 2): TLC crashed, parse error, timeout."""


class TlcResult:
    def __init__(self, out, rc, wall):
        self.out = out
        self.rc = rc
        self.wall = wall
        m = re.findall(r"(\d+) states generated, (\d+) distinct states found", out)
        self.generated = int(m[-1][0]) if m else 0
        self.distinct = int(m[-1][1]) if m else 0
        self.violated = re.findall(r"Error: Invariant (\S+) is violated", out)
        self.violated += re.findall(r"Error: Action property (\S+) is violated", out)
        if "Error: Temporal properties were violated" in out:
            self.violated.append("temporal")
        if "Error: Deadlock reached" in out:
            self.violated.append("deadlock")
        self.ok = ("Model checking completed. No error has been found" in out) or \
                  ("Finished computing initial states" in out and rc == 0 and "Error:" not in out)
        self.errors = [l for l in out.splitlines() if l.startswith("Error:")]

    def prints(self, tag):
        """Values printed by PrintT(<<tag, ...>>) whose payload is a single ToJson string, or plain strings."""
        return _extract_prints(self.out, tag)


def _extract_prints(out, tag):
    """payloads of PrintT(<<tag, ...>>), also when TLC pretty-printed the tuple over several lines"""
    res = []
    n = len(out)
    for m in re.finditer(r'<<\s*"%s",\s*' % re.escape(tag), out):
        j = m.start()
        k = j
        depth = 0
        instr = False
        while k < n:
            c = out[k]
            if instr:
                if c == "\\":
                    k += 1
                elif c == '"':
                    instr = False
            else:
                if c == '"':
                    instr = True
                elif c == "<" and out[k:k + 2] == "<<":
                    depth += 1
                    k += 1
                elif c == ">" and out[k:k + 2] == ">>":
                    depth -= 1
                    k += 1
                    if depth == 0:
                        break
            k += 1
        res.append(out[m.end():k - 1].strip())
    return res


def tla_string_to_py(s):
    """A TLA+ string literal as printed by TLC -> python str."""
    s = s.strip()
    assert s[0] == '"' and s[-1] == '"', s[:40]
    return json.loads(s)


def java_cmd(extra_props=()):
    cmd = ["java", "-Xss1g", "-XX:+UseSerialGC", "-Xmn512m"]
    # cap the heap: 16 shard JVMs with the default (a quarter of the RAM each) can exhaust the machine
    if not any(p.startswith("-Xmx") for p in extra_props) and "-Xmx" not in os.environ.get("JAVA_TOOL_OPTIONS", ""):
        cmd.append("-Xmx" + os.environ.get("VERIF_TLC_HEAP", "3g"))
    cmd += ["-DTLA-Library=" + os.pathsep.join(SPEC_DIRS)]
    cmd += list(extra_props)
    cmd += ["-cp", JAR, "tlc2.TLC"]
    return cmd


def find_module(name):
    for d in SPEC_DIRS:
        p = os.path.join(d, name + ".tla")
        if os.path.exists(p):
            return p
    raise TlcFailure("module %s not found" % name)


def run(module, cfg=None, workers=1, timeout=600, env=None, simulate=None, depth=None, seed=None,
        coverage=False, deadlock=False, extra=(), cfg_text=None, heap=None):
    """Run TLC on spec module `module` (name, looked up in spec/*) with config `cfg` (path or name in spec/mc).

    Returns TlcResult.  Raises TlcFailure on timeout or abnormal termination that is not a property verdict.
    """
    path = find_module(module)
    os.makedirs(WORK, exist_ok=True)
    meta = tempfile.mkdtemp(prefix="tlc-", dir=WORK)
    try:
        if cfg_text is not None:
            cfgp = os.path.join(meta, module + ".cfg")
            open(cfgp, "w").write(cfg_text)
        elif cfg is None:
            cfgp = os.path.splitext(path)[0] + ".cfg"
        elif os.path.isabs(cfg):
            cfgp = cfg
        else:
            cfgp = os.path.join(SPEC, "mc", cfg)
        props = []
        if heap:
            props.append("-Xmx" + heap)
        cmd = java_cmd(props) + ["-config", cfgp, "-workers", str(workers), "-metadir", os.path.join(meta, "states"),
                                 "-noGenerateSpecTE"]
        if not deadlock:
            pass
        if simulate is not None:
            cmd += ["-simulate", simulate]
            if depth is not None:
                cmd += ["-depth", str(depth)]
            if seed is not None:
                cmd += ["-seed", str(seed)]
        if coverage:
            cmd += ["-coverage", "1"]
        cmd += list(extra)
        cmd += [path]
        e = dict(os.environ)
        if env:
            e.update(env)
        t0 = time.time()
        try:
            p = subprocess.run(cmd, stdout=subprocess.PIPE, stderr=subprocess.STDOUT, text=True, timeout=timeout,
                               env=e, cwd=meta)
        except subprocess.TimeoutExpired as ex:
            out = ex.stdout.decode() if isinstance(ex.stdout, bytes) else (ex.stdout or "")
            if simulate is not None:
                return TlcResult(out, 0, time.time() - t0)
            raise TlcFailure("TLC timed out after %ss on %s\n%s" % (timeout, module, out[-2000:]))
        return TlcResult(p.stdout, p.returncode, time.time() - t0)
    finally:
        shutil.rmtree(meta, ignore_errors=True)


def sany(module):
    path = find_module(module)
    cmd = ["java", "-DTLA-Library=" + os.pathsep.join(SPEC_DIRS), "-cp", JAR, "tla2sany.SANY", path]
    p = subprocess.run(cmd, stdout=subprocess.PIPE, stderr=subprocess.STDOUT, text=True, timeout=120)
    ok = p.returncode == 0 and "Semantic errors" not in p.stdout and "Parse Error" not in p.stdout \
        and "Fatal" not in p.stdout and "Could not" not in p.stdout
    return ok, p.stdout


# ---------------------------------------------------------------------------------------------
# Batched trace validation
# ---------------------------------------------------------------------------------------------

def validate_traces(module, traces, shards=16, timeout=900, cfg_text=None, extra_env=None, weight=None):
    """Judge `traces` (list of JSON-able dicts, each with a unique 'tid') with trace specification `module`.

    The trace spec reads JsonDeserialize(IOEnv.TRACE_FILE) (a JSON list), is run with one worker per shard, and prints
    one line PrintT(<<"VERDICT", tid, pos, clause>>) per trace (clause "ok" when accepted to the end).
    Returns (verdicts: {tid: (pos, clause)}, stats dict).  Every trace must get a verdict, otherwise TlcFailure.
    """
    if not traces:
        return {}, {"generated": 0, "distinct": 0, "wall": 0.0, "shards": 0}
    shards = max(1, min(shards, len(traces)))
    os.makedirs(WORK, exist_ok=True)
    tmp = tempfile.mkdtemp(prefix="tv-", dir=WORK)
    if cfg_text is None:
        cfg_text = "INIT TInit\nNEXT TNext\nCHECK_DEADLOCK FALSE\n"
    try:
        files = []
        if weight is not None:
            # longest-processing-time-first: spread the expensive traces evenly over the shards
            loads = [0.0] * shards
            parts = [[] for _ in range(shards)]
            for tr in sorted(traces, key=weight, reverse=True):
                i = loads.index(min(loads))
                parts[i].append(tr)
                loads[i] += weight(tr)
        else:
            parts = [traces[s::shards] for s in range(shards)]
        for s in range(shards):
            part = parts[s]
            if not part:
                continue
            fp = os.path.join(tmp, "shard%d.json" % s)
            with open(fp, "w") as f:
                json.dump(part, f)
            files.append((fp, part))

        def one(item):
            fp, part = item
            env = {"TRACE_FILE": fp}
            if extra_env:
                env.update(extra_env)
            r = run(module, cfg_text=cfg_text, workers=1, timeout=timeout, env=env)
            return r, part

        verdicts = {}
        gen = dist = 0
        t0 = time.time()
        with ThreadPoolExecutor(max_workers=shards) as ex:
            for r, part in ex.map(one, files):
                gen += r.generated
                dist += r.distinct
                vs = r.prints("VERDICT")
                for v in vs:
                    m = re.match(r'\s*(-?\d+|"(?:[^"\\]|\\.)*"),\s*(-?\d+),\s*("(?:[^"\\]|\\.)*")\s*$', v, re.S)
                    if not m:
                        raise TlcFailure("unparsable verdict %r" % v[:200])
                    tid = json.loads(m.group(1))
                    verdicts[tid] = (int(m.group(2)), json.loads(m.group(3)))
                missing = [t["tid"] for t in part if t["tid"] not in verdicts]
                if missing:
                    raise TlcFailure("TLC gave no verdict for traces %s of %s:\n%s" % (missing[:5], module, r.out[-3000:]))
        return verdicts, {"generated": gen, "distinct": dist, "wall": time.time() - t0, "shards": shards}
    finally:
        shutil.rmtree(tmp, ignore_errors=True)
