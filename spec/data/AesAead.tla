------------------------------- MODULE AesAead -------------------------------
(* The authenticated modes over AES, transcribed from their standards:
   GCM (SP 800-38D), CMAC (SP 800-38B), EAX (Bellare-Rogaway-Wagner), S2V/SIV (RFC 5297), CCM (SP 800-38C),
   KW/KWP (SP 800-38F), OCB3 (RFC 7253).  Each XEncrypt returns <<ciphertext, tag>>; each XOpen returns
   <<"ok", plaintext>> or <<"reject", <<>>>> -- the verdict the standard defines for an offered tuple. *)
EXTENDS AES
PadLen(n) == (16 - (n % 16)) % 16
PadBlock(p) == p \o <<128>> \o Zeros(15 - Len(p))        \* X || 1 || 0*
Reject == <<"reject", <<>>>>
Ok(p) == <<"ok", p>>
\* ------------------------------------------------------------------ GF(2^128) / GHASH
\* multiplication by x in the bit-reflected representation of SP 800-38D: shift right, reduce with R = 11100001 || 0^120
MulX(v) == LET s == <<(v[1] \div 2), (v[2] \div 2) + (v[1] % 2) * 128, (v[3] \div 2) + (v[2] % 2) * 128, (v[4] \div 2) + (v[3] % 2) * 128, (v[5] \div 2) + (v[4] % 2) * 128, (v[6] \div 2) + (v[5] % 2) * 128, (v[7] \div 2) + (v[6] % 2) * 128, (v[8] \div 2) + (v[7] % 2) * 128, (v[9] \div 2) + (v[8] % 2) * 128, (v[10] \div 2) + (v[9] % 2) * 128, (v[11] \div 2) + (v[10] % 2) * 128, (v[12] \div 2) + (v[11] % 2) * 128, (v[13] \div 2) + (v[12] % 2) * 128, (v[14] \div 2) + (v[13] % 2) * 128, (v[15] \div 2) + (v[14] % 2) * 128, (v[16] \div 2) + (v[15] % 2) * 128>>
           IN IF v[16] % 2 = 1 THEN [s EXCEPT ![1] = s[1] ^^ 225] ELSE s
RECURSIVE Powers(_,_)
Powers(acc, n) == IF n = 0 THEN acc ELSE Powers(Append(acc, MulX(acc[Len(acc)])), n - 1)
HTable(h) == Powers(<<h>>, 127)          \* HTable[i+1] = H * x^i
Bit(x, i) == (x[(i \div 8) + 1] \div (2 ^ (7 - (i % 8)))) % 2      \* bit i, most significant first
RECURSIVE MulAcc(_,_,_,_)
MulAcc(x, tab, i, z) == IF i = 128 THEN z ELSE MulAcc(x, tab, i + 1, IF Bit(x, i) = 1 THEN X16(z, tab[i + 1]) ELSE z)
GfMul(x, tab) == MulAcc(x, tab, 0, Zero16)
RECURSIVE GhashBlocks(_,_,_,_)
GhashBlocks(tab, data, i, y) == IF i > Len(data) THEN y ELSE GhashBlocks(tab, data, i + 16, GfMul(X16(y, SubSeq(data, i, i + 15)), tab))
Be8(n) == <<0, 0, 0, 0, (n \div 16777216) % 256, (n \div 65536) % 256, (n \div 256) % 256, n % 256>>   \* n < 2^31
Ghash(tab, a, c) == GhashBlocks(tab, a \o Zeros(PadLen(Len(a))) \o c \o Zeros(PadLen(Len(c))) \o Be8(8 * Len(a)) \o Be8(8 * Len(c)), 1, Zero16)
Inc32(b) == LET hi == b[13] * 256 + b[14]   lo == b[15] * 256 + b[16]
                lo1 == (lo + 1) % 65536     hi1 == IF lo = 65535 THEN (hi + 1) % 65536 ELSE hi
            IN SubSeq(b, 1, 12) \o <<hi1 \div 256, hi1 % 256, lo1 \div 256, lo1 % 256>>
J0(tab, nonce) == IF Len(nonce) = 12 THEN nonce \o <<0, 0, 0, 1>>
                  ELSE GhashBlocks(tab, nonce \o Zeros(PadLen(Len(nonce)) + 8) \o Be8(8 * Len(nonce)), 1, Zero16)
RECURSIVE Gctr(_,_,_,_,_)
Gctr(c, cb, data, i, acc) == IF i > Len(data) THEN acc ELSE
   LET n == IF Len(data) - i + 1 < 16 THEN Len(data) - i + 1 ELSE 16
       k == E(c, cb)
   IN Gctr(c, Inc32(cb), data, i + 16, acc \o [j \in 1..n |-> data[i + j - 1] ^^ k[j]])
GcmParts(key, nonce) == LET c == AesCtx(key)  tab == HTable(E(c, Zero16)) IN [c |-> c, tab |-> tab, j0 |-> J0(tab, nonce)]
GcmTag(g, aad, ct, maclen) == SubSeq(X16(E(g.c, g.j0), Ghash(g.tab, aad, ct)), 1, maclen)
GcmEncrypt(key, nonce, aad, pt, maclen) ==
   LET g == GcmParts(key, nonce)
       ct == Gctr(g.c, Inc32(g.j0), pt, 1, <<>>)
   IN <<ct, GcmTag(g, aad, ct, maclen)>>
GcmOpen(key, nonce, aad, ct, tag, maclen) ==
   LET g == GcmParts(key, nonce) IN
   IF Len(tag) = maclen /\ tag = GcmTag(g, aad, ct, maclen) THEN Ok(Gctr(g.c, Inc32(g.j0), ct, 1, <<>>)) ELSE Reject
\* SP 800-38D zero-key vectors (test cases 1 and 2 of the GCM specification)
ASSUME GcmEncrypt(Zero16, Zeros(12), <<>>, <<>>, 16)[2] = <<88,226,252,206,250,126,48,97,54,127,29,87,164,231,69,90>>
ASSUME GcmEncrypt(Zero16, Zeros(12), <<>>, Zero16, 16) = << <<3,136,218,206,96,182,163,146,243,40,194,185,113,178,254,120>>, <<171,110,71,212,44,236,19,189,245,58,103,178,18,87,189,223>> >>
\* ------------------------------------------------------------------ CMAC
Dbl(s) == LET sh == <<((s[1] * 2) % 256) + (s[2] \div 128), ((s[2] * 2) % 256) + (s[3] \div 128), ((s[3] * 2) % 256) + (s[4] \div 128), ((s[4] * 2) % 256) + (s[5] \div 128), ((s[5] * 2) % 256) + (s[6] \div 128), ((s[6] * 2) % 256) + (s[7] \div 128), ((s[7] * 2) % 256) + (s[8] \div 128), ((s[8] * 2) % 256) + (s[9] \div 128), ((s[9] * 2) % 256) + (s[10] \div 128), ((s[10] * 2) % 256) + (s[11] \div 128), ((s[11] * 2) % 256) + (s[12] \div 128), ((s[12] * 2) % 256) + (s[13] \div 128), ((s[13] * 2) % 256) + (s[14] \div 128), ((s[14] * 2) % 256) + (s[15] \div 128), ((s[15] * 2) % 256) + (s[16] \div 128), (s[16] * 2) % 256>>
          IN IF s[1] >= 128 THEN [sh EXCEPT ![16] = sh[16] ^^ 135] ELSE sh
RECURSIVE CbcMac(_,_,_,_)
CbcMac(c, m, i, y) == IF i > Len(m) THEN y ELSE CbcMac(c, m, i + 16, E(c, X16(y, SubSeq(m, i, i + 15))))
Cmac(c, m) == LET k1 == Dbl(E(c, Zero16))  k2 == Dbl(k1)
                  n == IF Len(m) = 0 THEN 1 ELSE (Len(m) + 15) \div 16
                  head == SubSeq(m, 1, 16 * (n - 1))   tail == SubSeq(m, 16 * (n - 1) + 1, Len(m))
                  last == IF Len(tail) = 16 THEN X16(tail, k1) ELSE X16(PadBlock(tail), k2)
              IN E(c, X16(CbcMac(c, head, 1, Zero16), last))
\* RFC 4493 example 1 (empty message) and example 3 (40 bytes)
Rfc4493Key == <<43,126,21,22,40,174,210,166,171,247,21,136,9,207,79,60>>
ASSUME Cmac(AesCtx(Rfc4493Key), <<>>) = <<187,29,105,41,233,89,55,40,127,163,125,18,155,117,103,70>>
ASSUME Cmac(AesCtx(Rfc4493Key), <<107,193,190,226,46,64,159,150,233,61,126,17,115,147,23,42,174,45,138,87,30,3,172,156,158,183,111,172,69,175,142,81,48,200,28,70,163,92,228,17>>) = <<223,166,103,71,222,154,230,48,48,202,50,97,20,151,200,39>>
\* ------------------------------------------------------------------ CTR with a big-endian counter in bytes low..16
RECURSIVE IncBE(_,_)
IncBE(b, k) == IF k = 0 THEN b ELSE IF b[k] = 255 THEN IncBE([b EXCEPT ![k] = 0], k - 1) ELSE [b EXCEPT ![k] = b[k] + 1]
RECURSIVE Ctr(_,_,_,_,_,_)
Ctr(c, cb, data, i, acc, low) == IF i > Len(data) THEN acc ELSE
   LET n == IF Len(data) - i + 1 < 16 THEN Len(data) - i + 1 ELSE 16   k == E(c, cb)
       nxt == LET f == IncBE(SubSeq(cb, low, 16), 17 - low) IN SubSeq(cb, 1, low - 1) \o f
   IN Ctr(c, nxt, data, i + 16, acc \o [j \in 1..n |-> data[i + j - 1] ^^ k[j]], low)
\* ------------------------------------------------------------------ EAX
Tweak(t) == Zeros(15) \o <<t>>
EaxTag(c, n1, aad, ct, maclen) == SubSeq(X16(X16(n1, Cmac(c, Tweak(1) \o aad)), Cmac(c, Tweak(2) \o ct)), 1, maclen)
EaxEncrypt(key, nonce, aad, pt, maclen) == LET c == AesCtx(key)
       n1 == Cmac(c, Tweak(0) \o nonce)
       ct == Ctr(c, n1, pt, 1, <<>>, 1)
   IN <<ct, EaxTag(c, n1, aad, ct, maclen)>>
EaxOpen(key, nonce, aad, ct, tag, maclen) == LET c == AesCtx(key)  n1 == Cmac(c, Tweak(0) \o nonce) IN
   IF Len(tag) = maclen /\ tag = EaxTag(c, n1, aad, ct, maclen) THEN Ok(Ctr(c, n1, ct, 1, <<>>, 1)) ELSE Reject
\* ------------------------------------------------------------------ S2V and SIV (RFC 5297)
XorEnd(s, d) == SubSeq(s, 1, Len(s) - 16) \o X16(SubSeq(s, Len(s) - 15, Len(s)), d)
RECURSIVE S2vFold(_,_,_,_)
S2vFold(c, comps, i, d) == IF i >= Len(comps) THEN d ELSE S2vFold(c, comps, i + 1, X16(Dbl(d), Cmac(c, comps[i])))
S2v(c, comps) == IF Len(comps) = 0 THEN Cmac(c, Zeros(15) \o <<1>>)            \* RFC 5297 2.4: n = 0
                 ELSE LET d == S2vFold(c, comps, 1, Cmac(c, Zero16))   sn == comps[Len(comps)]
                      IN Cmac(c, IF Len(sn) >= 16 THEN XorEnd(sn, d) ELSE X16(Dbl(d), PadBlock(sn)))
SivQ(v) == [v EXCEPT ![9] = v[9] % 128, ![13] = v[13] % 128]
SivEncrypt(key, comps, pt) == LET h == Len(key) \div 2
       c1 == AesCtx(SubSeq(key, 1, h))  c2 == AesCtx(SubSeq(key, h + 1, Len(key)))
       v == S2v(c1, Append(comps, pt))
   IN <<Ctr(c2, SivQ(v), pt, 1, <<>>, 1), v>>
SivOpen(key, comps, ct, tag) == LET h == Len(key) \div 2
       c1 == AesCtx(SubSeq(key, 1, h))  c2 == AesCtx(SubSeq(key, h + 1, Len(key))) IN
   IF Len(tag) # 16 THEN Reject ELSE
   LET pt == Ctr(c2, SivQ(tag), ct, 1, <<>>, 1) IN IF S2v(c1, Append(comps, pt)) = tag THEN Ok(pt) ELSE Reject
\* RFC 5297 A.1
ASSUME SivEncrypt(<<255,254,253,252,251,250,249,248,247,246,245,244,243,242,241,240,240,241,242,243,244,245,246,247,248,249,250,251,252,253,254,255>>,
                  << <<16,17,18,19,20,21,22,23,24,25,26,27,28,29,30,31,32,33,34,35,36,37,38,39>> >>,
                  <<17,34,51,68,85,102,119,136,153,170,187,204,221,238>>)
       = << <<64,192,43,150,144,196,220,4,218,239,127,106,254,92>>, <<133,99,45,7,198,232,243,127,149,10,205,50,10,46,204,147>> >>
\* ------------------------------------------------------------------ CCM
CcmTagPt(c, nonce, aad, pt, maclen) == LET
       q == 15 - Len(nonce)
       flags == (IF Len(aad) > 0 THEN 64 ELSE 0) + ((maclen - 2) \div 2) * 8 + (q - 1)
       b0 == <<flags>> \o nonce \o BeN(Len(pt), q)
       ah == IF Len(aad) = 0 THEN <<>> ELSE IF Len(aad) < 65280 THEN BeN(Len(aad), 2) ELSE <<255, 254>> \o BeN(Len(aad), 4)
       a1 == ah \o aad
       m == b0 \o a1 \o Zeros(PadLen(Len(a1))) \o pt \o Zeros(PadLen(Len(pt)))
       t == CbcMac(c, m, 1, Zero16)
       ctr0 == <<q - 1>> \o nonce \o Zeros(q)
   IN SubSeq(X16(t, E(c, ctr0)), 1, maclen)
CcmCrypt(c, nonce, data) == LET q == 15 - Len(nonce)  ctr0 == <<q - 1>> \o nonce \o Zeros(q)
   IN Ctr(c, IncBE(ctr0, 16), data, 1, <<>>, 17 - q)
CcmEncrypt(key, nonce, aad, pt, maclen) == LET c == AesCtx(key) IN <<CcmCrypt(c, nonce, pt), CcmTagPt(c, nonce, aad, pt, maclen)>>
CcmOpen(key, nonce, aad, ct, tag, maclen) == LET c == AesCtx(key)  pt == CcmCrypt(c, nonce, ct) IN
   IF Len(tag) = maclen /\ tag = CcmTagPt(c, nonce, aad, pt, maclen) THEN Ok(pt) ELSE Reject
\* RFC 3610 packet vector #1
ASSUME CcmEncrypt(<<192,193,194,195,196,197,198,199,200,201,202,203,204,205,206,207>>, <<0,0,0,3,2,1,0,160,161,162,163,164,165>>,
                  <<0,1,2,3,4,5,6,7>>, <<8,9,10,11,12,13,14,15,16,17,18,19,20,21,22,23,24,25,26,27,28,29,30>>, 8)
       = << <<88,140,151,154,97,198,99,210,240,102,208,194,192,249,137,128,109,95,107,97,218,195,132>>, <<23,232,209,44,253,249,38,224>> >>
\* ------------------------------------------------------------------ KW / KWP (SP 800-38F)
RECURSIVE W(_,_,_,_,_)
W(c, a, r, t, s) == IF t > s THEN a \o r ELSE
   LET b == E(c, a \o SubSeq(r, 1, 8))
   IN W(c, XorSeqN(SubSeq(b, 1, 8), BeN(t, 8)), SubSeq(r, 9, Len(r)) \o SubSeq(b, 9, 16), t + 1, s)
RECURSIVE WInv(_,_,_,_)
\* inverse of W: a (8 bytes), r (n*8 bytes); t runs s..1; at step t the block touched is the last one of r rotated
WInv(c, a, r, t) == IF t = 0 THEN a \o r ELSE
   LET n8 == Len(r)
       b == D(c, XorSeqN(a, BeN(t, 8)) \o SubSeq(r, n8 - 7, n8))
   IN WInv(c, SubSeq(b, 1, 8), SubSeq(b, 9, 16) \o SubSeq(r, 1, n8 - 8), t - 1)
A6 == <<166,166,166,166,166,166,166,166>>
KwSeal(key, p) == LET c == AesCtx(key) IN W(c, A6, p, 1, 6 * (Len(p) \div 8))
KwOpen(key, w) == IF Len(w) < 24 \/ Len(w) % 8 # 0 THEN Reject ELSE
   LET c == AesCtx(key)  x == WInv(c, SubSeq(w, 1, 8), SubSeq(w, 9, Len(w)), 6 * ((Len(w) \div 8) - 1))
   IN IF SubSeq(x, 1, 8) = A6 THEN Ok(SubSeq(x, 9, Len(x))) ELSE Reject
KwpAiv == <<166, 89, 89, 166>>
KwpSeal(key, p) == LET c == AesCtx(key)  padded == p \o Zeros((8 - (Len(p) % 8)) % 8)
                       aiv == KwpAiv \o BeN(Len(p), 4)
                   IN IF Len(padded) = 8 THEN E(c, aiv \o padded) ELSE W(c, aiv, padded, 1, 6 * (Len(padded) \div 8))
KwpOpen(key, w) == IF Len(w) < 16 \/ Len(w) % 8 # 0 THEN Reject ELSE
   LET c == AesCtx(key)
       x == IF Len(w) = 16 THEN D(c, w) ELSE WInv(c, SubSeq(w, 1, 8), SubSeq(w, 9, Len(w)), 6 * ((Len(w) \div 8) - 1))
       plen == ((x[5] * 256 + x[6]) * 256 + x[7]) * 256 + x[8]
       n8 == Len(x) - 8
   IN IF SubSeq(x, 1, 4) # KwpAiv \/ x[5] >= 128 THEN Reject
      ELSE IF plen > n8 \/ plen <= n8 - 8 THEN Reject
      ELSE IF \E j \in (8 + plen + 1)..Len(x) : x[j] # 0 THEN Reject
      ELSE Ok(SubSeq(x, 9, 8 + plen))
\* RFC 3394 4.1 and RFC 5649 section 6 (20-byte and 7-byte key data)
Kek128 == [i \in 1..16 |-> i - 1]
ASSUME KwSeal(Kek128, <<0,17,34,51,68,85,102,119,136,153,170,187,204,221,238,255>>) = <<31,166,139,10,129,18,180,71,174,243,75,216,251,90,123,130,157,62,134,35,113,210,207,229>>
ASSUME KwOpen(Kek128, <<31,166,139,10,129,18,180,71,174,243,75,216,251,90,123,130,157,62,134,35,113,210,207,229>>) = Ok(<<0,17,34,51,68,85,102,119,136,153,170,187,204,221,238,255>>)
Kek5649 == <<88,64,223,110,41,176,42,241,171,73,59,112,91,241,110,161,174,131,56,244,220,193,118,168>>
ASSUME KwpSeal(Kek5649, <<70,111,114,80,97,115,105>>) = <<175,190,176,240,125,251,245,65,146,0,242,204,181,11,178,79>>
ASSUME KwpOpen(Kek5649, <<175,190,176,240,125,251,245,65,146,0,242,204,181,11,178,79>>) = Ok(<<70,111,114,80,97,115,105>>)
ASSUME KwpSeal(Kek5649, <<195,123,126,100,146,88,67,64,190,209,34,7,128,137,65,21,80,104,247,56>>) = <<19,139,222,170,155,143,167,252,97,249,119,66,231,34,72,238,90,230,174,83,96,209,174,106,95,84,243,115,250,84,59,106>>
ASSUME KwpOpen(Kek5649, <<19,139,222,170,155,143,167,252,97,249,119,66,231,34,72,238,90,230,174,83,96,209,174,106,95,84,243,115,250,84,59,106>>) = Ok(<<195,123,126,100,146,88,67,64,190,209,34,7,128,137,65,21,80,104,247,56>>)
\* ------------------------------------------------------------------ OCB3 (RFC 7253)
RECURSIVE Ntz(_)
Ntz(i) == IF i % 2 = 1 THEN 0 ELSE 1 + Ntz(i \div 2)
RECURSIVE LTab(_,_)
LTab(acc, n) == IF n = 0 THEN acc ELSE LTab(Append(acc, Dbl(acc[Len(acc)])), n - 1)   \* LTab[k+1] = L_k
RECURSIVE OcbHashBlocks(_,_,_,_,_,_)
OcbHashBlocks(c, lt, a, i, off, sum) ==
   IF 16 * i <= Len(a) THEN LET o == X16(off, lt[Ntz(i) + 1]) IN
        OcbHashBlocks(c, lt, a, i + 1, o, X16(sum, E(c, X16(SubSeq(a, 16 * i - 15, 16 * i), o))))
   ELSE <<off, sum>>
OcbHash(c, lstar, lt, a) == LET r == OcbHashBlocks(c, lt, a, 1, Zero16, Zero16)  m == Len(a) \div 16 IN
   IF Len(a) % 16 = 0 THEN r[2]
   ELSE X16(r[2], E(c, X16(PadBlock(SubSeq(a, 16 * m + 1, Len(a))), X16(r[1], lstar))))
Offset0(c, nonce, taglen) ==
   LET full == <<((taglen * 8) % 128) * 2>> \o Zeros(15 - Len(nonce)) \o nonce
       n1 == [full EXCEPT ![16 - Len(nonce)] = full[16 - Len(nonce)] + 1]          \* the single 1 bit before N
       bottom == n1[16] % 64
       ktop == E(c, [n1 EXCEPT ![16] = n1[16] - bottom])
       stretch == ktop \o [j \in 1..8 |-> ktop[j] ^^ ktop[j + 1]]
       q == bottom \div 8   r == bottom % 8
   IN [j \in 1..16 |-> IF r = 0 THEN stretch[j + q] ELSE ((stretch[j + q] * (2 ^ r)) % 256) + (stretch[j + q + 1] \div (2 ^ (8 - r)))]
RECURSIVE OcbBlocks(_,_,_,_,_,_,_,_)
\* dir = 1 encrypt (checksum over input), dir = 0 decrypt (checksum over output)
OcbBlocks(c, lt, p, i, off, chk, acc, dir) ==
   IF 16 * i <= Len(p) THEN LET o == X16(off, lt[Ntz(i) + 1])  blk == SubSeq(p, 16 * i - 15, 16 * i)
                                 res == IF dir = 1 THEN X16(o, E(c, X16(blk, o))) ELSE X16(o, D(c, X16(blk, o))) IN
        OcbBlocks(c, lt, p, i + 1, o, X16(chk, IF dir = 1 THEN blk ELSE res), acc \o res, dir)
   ELSE <<off, chk, acc>>
\* returns <<output, tag>> where tag is the full-length tag of the plaintext side
OcbCore(key, nonce, aad, data, taglen, dir) ==
   LET c == AesCtx(key)
       lstar == E(c, Zero16)  ldollar == Dbl(lstar)
       lt == LTab(<<Dbl(ldollar)>>, 10)
       r == OcbBlocks(c, lt, data, 1, TLCEval(Offset0(c, nonce, taglen)), Zero16, <<>>, dir)
       m == Len(data) \div 16   rest == SubSeq(data, 16 * m + 1, Len(data))
       offStar == X16(r[1], lstar)
       pad == E(c, offStar)
       restOut == [j \in 1..Len(rest) |-> rest[j] ^^ pad[j]]
       out == IF Len(rest) = 0 THEN r[3] ELSE r[3] \o restOut
       chk == IF Len(rest) = 0 THEN r[2] ELSE X16(r[2], PadBlock(IF dir = 1 THEN rest ELSE restOut))
       offLast == IF Len(rest) = 0 THEN r[1] ELSE offStar
       tag == X16(E(c, X16(X16(chk, offLast), ldollar)), OcbHash(c, lstar, lt, aad))
   IN <<out, SubSeq(tag, 1, taglen)>>
OcbEncrypt(key, nonce, aad, pt, taglen) == OcbCore(key, nonce, aad, pt, taglen, 1)
OcbOpen(key, nonce, aad, ct, tag, taglen) == LET r == OcbCore(key, nonce, aad, ct, taglen, 0) IN
   IF Len(tag) = taglen /\ tag = r[2] THEN Ok(r[1]) ELSE Reject
\* RFC 7253 Appendix A, first two vectors (key 000102..0F)
ASSUME OcbEncrypt(Kek128, <<187,170,153,136,119,102,85,68,51,34,17,0>>, <<>>, <<>>, 16) = << <<>>, <<120,84,7,191,255,200,173,158,220,197,82,10,201,17,30,230>> >>
ASSUME OcbEncrypt(Kek128, <<187,170,153,136,119,102,85,68,51,34,17,1>>, <<0,1,2,3,4,5,6,7>>, <<0,1,2,3,4,5,6,7>>, 16)
       = << <<104,32,179,101,123,111,97,90>>, <<87,37,189,160,211,180,235,58,37,124,154,241,248,240,48,9>> >>
ASSUME OcbOpen(Kek128, <<187,170,153,136,119,102,85,68,51,34,17,1>>, <<0,1,2,3,4,5,6,7>>, <<104,32,179,101,123,111,97,90>>, <<87,37,189,160,211,180,235,58,37,124,154,241,248,240,48,9>>, 16) = Ok(<<0,1,2,3,4,5,6,7>>)
ASSUME LET pt == [i \in 1..40 |-> (i * 11) % 256]  r == OcbEncrypt(Kek128, <<1,2,3,4,5,6,7>>, <<9,9>>, pt, 12) IN OcbOpen(Kek128, <<1,2,3,4,5,6,7>>, <<9,9>>, r[1], r[2], 12) = Ok(pt)
=============================================================================
