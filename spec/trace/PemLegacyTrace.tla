------------------------------- MODULE PemLegacyTrace -------------------------------
(* Code -> spec, C13 (PEM layer): blocks encrypted the way OpenSSL writes them (RFC 1421 "Proc-Type: 4,ENCRYPTED" with
   "DEK-Info: <cipher>,<IV in hex>", key = EVP_BytesToKey(MD5, one iteration) of passphrase and the first 8 octets of the IV) for every cipher
   name PEM.decode documents: DES-CBC, DES-EDE3-CBC, AES-128-CBC, AES-192-CBC, AES-256-CBC.  The library itself only writes DES-EDE3-CBC, so
   export/import round trips never reach the others.
   The recorder builds the block (key derivation with Python's hashlib, CBC with the library's cipher objects, which C02 judges) and logs
   passphrase, IV and ciphertext; THIS specification opens the ciphertext itself (data/KeyFormats: MD5, the block ciphers, CBC, PKCS#7
   padding as transcribed there) and demands that PEM.decode returns exactly that, with the label and the encryption flag, refuses the block
   without a passphrase with ValueError, and that RSA.import_key on such a block returns the key inside.
   record: [algo, pw, iv, ct, data, marker, out, got, got_marker, got_enc, nopass, isder, imp, imp_same] *)
EXTENDS KeyFormats, Json, IOUtils
Traces == JsonDeserialize(IOEnv.TRACE_FILE)
VARIABLES t
Algs == {"DES-CBC", "DES-EDE3-CBC", "AES-128-CBC", "AES-192-CBC", "AES-256-CBC"}
AlgOf(a) == CASE a = "DES-CBC" -> [alg |-> "des", klen |-> 8, bs |-> 8]
              [] a = "DES-EDE3-CBC" -> [alg |-> "des3", klen |-> 24, bs |-> 8]
              [] a = "AES-128-CBC" -> [alg |-> "aes", klen |-> 16, bs |-> 16]
              [] a = "AES-192-CBC" -> [alg |-> "aes", klen |-> 24, bs |-> 16]
              [] a = "AES-256-CBC" -> [alg |-> "aes", klen |-> 32, bs |-> 16]
\* EVP_BytesToKey(md5, salt, pw, count = 1): D1 = MD5(pw | salt), D2 = MD5(D1 | pw | salt), key = first klen octets of D1 | D2
EvpKey(pw, salt, n) == LET d1 == KD!H!Digest("MD5", pw \o salt)  d2 == IF n > 16 THEN KD!H!Digest("MD5", d1 \o pw \o salt) ELSE <<>> IN SubSeq(d1 \o d2, 1, n)
Open(e) == LET a == AlgOf(e.algo) IN
   IF Len(e.iv) # a.bs \/ Len(e.ct) = 0 \/ Len(e.ct) % a.bs # 0 THEN Bad("shape")
   ELSE CbcOpen(a.alg, EvpKey(e.pw, SubSeq(e.iv, 1, 8), a.klen), e.iv, e.ct, a.bs)
Verdict(e) ==
   IF e.algo \notin Algs THEN "harness: unknown cipher name"
   ELSE LET r == Open(e) IN
   IF ~IsGood(r) \/ r[2] # e.data THEN "harness: the constructed block does not open to the data in the specification"
   ELSE IF e.out # "ok" THEN "PEM.decode raised " \o e.out \o " on an OpenSSL-encrypted block (" \o e.algo \o ") with the right passphrase"
   ELSE IF e.got # r[2] THEN "PEM.decode does not return the encrypted data (" \o e.algo \o ")"
   ELSE IF e.got_marker # e.marker THEN "PEM.decode returns another label"
   ELSE IF ~e.got_enc THEN "PEM.decode does not report the block as encrypted"
   ELSE IF e.nopass # "ValueError" THEN "encrypted block without passphrase: " \o e.nopass \o " instead of ValueError"
   ELSE IF e.isder /\ e.imp # "ok" THEN "RSA.import_key raised " \o e.imp \o " on an OpenSSL-encrypted key (" \o e.algo \o ")"
   ELSE IF e.isder /\ ~e.imp_same THEN "RSA.import_key of an OpenSSL-encrypted key returns another key (" \o e.algo \o ")"
   ELSE "ok"
\* OpenSSL: echo -n | openssl md5 style sanity of the key derivation: EVP_BytesToKey(MD5, "", "") = MD5("") | MD5(MD5(""))
ASSUME SubSeq(EvpKey(<<>>, <<>>, 32), 1, 4) = <<212, 29, 140, 217>>
TInit == t = 1
TNext == /\ t <= Len(Traces)
         /\ PrintT(<<"VERDICT", Traces[t].tid, 1, Verdict(Traces[t])>>)
         /\ t' = t + 1
=============================================================================
