\* GF(2^3): five shares: every secret x every tape x both variants x 2 <= k <= 3, n <= 5 (20 and 60 ordered k-subsets of 5)
CONSTANTS FieldM = 3
MaxN = 5
MaxK = 3
FlipVariant = FALSE
INIT Init
NEXT Next
CHECK_DEADLOCK FALSE
INVARIANTS Reconstructs DuplicatesRefused SharesWellFormed SharesArePolynomialValues
