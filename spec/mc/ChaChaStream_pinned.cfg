CONSTANTS CMAX = 5
KS = 2
MaxCalls = 5
Sticky = FALSE
EmitHist = FALSE
SPECIFICATION Spec
INVARIANT PositionCorrect
INVARIANT WithinLimit
PROPERTY StaysExhausted
INVARIANT ErrorReturnsNothing
CHECK_DEADLOCK FALSE
