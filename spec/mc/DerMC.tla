------------------------------- MODULE DerMC -------------------------------
(* C13, part (i): every byte string up to MaxLen over Alphabet is a state; in each state every decoder configuration
   of SweepDecoders is evaluated and the strictness/canonicity statements of the property are invariants of the
   specification itself.  The same configurations (printed as DECODERS) drive the recorder, so that the real
   decoders are swept over exactly this universe and judged by spec/trace/CodecTrace.tla. *)
EXTENDS DerDecoder, Json
CONSTANTS Alphabet, MaxLen
VARIABLES s
Init == s = <<>>
Next == Len(s) < MaxLen /\ \E b \in Alphabet : s' = Append(s, b)
Spec == Init /\ [][Next]_s

D(cls, strict, imp, exp, nr, ints) == [cls |-> cls, strict |-> strict, imp |-> imp, exp |-> exp, nr |-> nr, ints |-> ints]
SweepDecoders == <<
   D("DerObject", FALSE, -1, -1, <<>>, FALSE), D("DerObject", TRUE, -1, -1, <<>>, FALSE),
   D("DerInteger", FALSE, -1, -1, <<>>, FALSE), D("DerInteger", TRUE, -1, -1, <<>>, FALSE),
   D("DerInteger", TRUE, 0, -1, <<>>, FALSE), D("DerInteger", FALSE, -1, 0, <<>>, FALSE), D("DerInteger", TRUE, -1, 0, <<>>, FALSE),
   D("DerBoolean", FALSE, -1, -1, <<>>, FALSE), D("DerBoolean", TRUE, -1, 0, <<>>, FALSE),
   D("DerSequence", FALSE, -1, -1, <<>>, FALSE), D("DerSequence", TRUE, -1, -1, <<>>, FALSE),
   D("DerSequence", FALSE, -1, -1, <<2>>, FALSE), D("DerSequence", TRUE, -1, -1, <<0, 1, 3>>, FALSE),
   D("DerSequence", FALSE, -1, -1, <<>>, TRUE), D("DerSequence", TRUE, -1, -1, <<1>>, TRUE),
   D("DerSequence", TRUE, 0, -1, <<>>, FALSE), D("DerSequence", FALSE, -1, 0, <<>>, FALSE),
   D("DerOctetString", FALSE, -1, -1, <<>>, FALSE), D("DerOctetString", TRUE, 0, -1, <<>>, FALSE),
   D("DerNull", FALSE, -1, -1, <<>>, FALSE),
   D("DerObjectId", FALSE, -1, -1, <<>>, FALSE), D("DerObjectId", TRUE, -1, -1, <<>>, FALSE), D("DerObjectId", TRUE, 0, -1, <<>>, FALSE),
   D("DerBitString", FALSE, -1, -1, <<>>, FALSE), D("DerBitString", TRUE, -1, 0, <<>>, FALSE),
   D("DerSetOf", FALSE, -1, -1, <<>>, FALSE), D("DerSetOf", TRUE, -1, -1, <<>>, FALSE), D("DerSetOf", TRUE, 0, -1, <<>>, FALSE) >>
ASSUME PrintT(<<"DECODERS", ToJson(SweepDecoders)>>)
Ds == {SweepDecoders[i] : i \in 1..Len(SweepDecoders)}
NonStrict(d) == [d EXCEPT !.strict = FALSE]

\* nothing but a definite-length, minimal-length, complete encoding without trailing bytes is ever accepted ...
AcceptedOnlyIfWellFramed == \A d \in Ds : IsOk(Decode(d, s)) => WellFramed(s)
\* ... and the generic reader accepts exactly those (the parser and the grammar define the same language)
ObjectAcceptsExactlyWellFramed == IsOk(Decode(Dec("DerObject", FALSE), s)) <=> WellFramed(s)
\* canonicity: whatever is accepted outside the named tolerances is the encoding of its value
AcceptedIsCanonical == \A d \in Ds : LET r == Decode(d, s) IN (IsOk(r) /\ ~r[3]) => Encode(d, r[2]) = s
\* decoding is a left inverse of encoding on everything a decoder can return (tolerated strings included; a value that
\* itself carries the tolerated feature - a 0x7f identifier octet, a NULL with content - keeps it)
ReencodingDecodesBack == \A d \in Ds : LET r == Decode(d, s) IN IsOk(r) =>
                            LET q == Decode(d, Encode(d, r[2])) IN IsOk(q) /\ SameValue(d, q[2], r[2]) /\ (q[3] => r[3])
\* strict mode refuses more, never decodes differently
StrictRefinesLenient == \A d \in Ds : LET r == Decode(d, s) IN (d.strict /\ IsOk(r)) =>
                            LET q == Decode(NonStrict(d), s) IN IsOk(q) /\ q[2] = r[2]
\* the X.690 content rules of INTEGER that the library enforces in strict mode
StrictIntegerHasNoLeadingZero == LET r == Decode(Dec("DerInteger", TRUE), s) IN
                            IsOk(r) => (Len(s) > 2 /\ ~(Len(s) > 3 /\ s[3] = 0 /\ s[4] < 128))
=============================================================================
