\* real bytes (base 256): shuffle of 0..3 elements, sample(n <= 3, k <= n); tapes of 1 byte explored, every tape of up to 2 bytes counted (65536 per case)
CONSTANTS NaiveShuffle = FALSE
BW = 8
MaxN = 3
MaxLen = 1
FibreLen = 2
INIT Init
NEXT Next
CHECK_DEADLOCK FALSE
INVARIANTS Terminal StepUniform RunMatchesSteps FibresEqual
PROPERTY Memoryless
