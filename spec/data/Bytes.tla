------------------------------- MODULE Bytes -------------------------------
(* Common byte-string helpers of the data layer.  A byte string is a sequence over 0..255. *)
EXTENDS Integers, Sequences, Bitwise, TLC
Zeros(n) == [i \in 1..n |-> 0]
Rep(b, n) == [i \in 1..n |-> b]
XorSeqN(a, b) == [j \in 1..Len(a) |-> a[j] ^^ b[j]]          \* Len(b) >= Len(a)
Take(s, n) == SubSeq(s, 1, n)
Drop(s, n) == SubSeq(s, n + 1, Len(s))
MinI(a, b) == IF a < b THEN a ELSE b
MaxI(a, b) == IF a > b THEN a ELSE b
RECURSIVE BeN(_,_)
BeN(x, n) == IF n = 0 THEN <<>> ELSE BeN(x \div 256, n - 1) \o <<x % 256>>      \* big-endian, n bytes, x < 2^31
RECURSIVE LeN(_,_)
LeN(x, n) == IF n = 0 THEN <<>> ELSE <<x % 256>> \o LeN(x \div 256, n - 1)      \* little-endian
PadLenTo(n, bs) == (bs - (n % bs)) % bs
RECURSIVE FlattenSeq(_)
FlattenSeq(ss) == IF Len(ss) = 0 THEN <<>> ELSE ss[1] \o FlattenSeq(SubSeq(ss, 2, Len(ss)))
=============================================================================
