\* GF(2^8), AES polynomial x^8 + x^4 + x^3 + x + 1: all 65536 pairs (a, b), third operand quantified over all 256 elements
CONSTANTS M = 8
LowN = 27
INIT Init
NEXT Next
INVARIANTS Closed Commutative Associative Distributive Neutral Inverses NoZeroDivisor ZeroHasNoInverse PowIsRepeatedProduct
