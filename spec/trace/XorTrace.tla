------------------------------- MODULE XorTrace -------------------------------
(* Code -> spec for Crypto.Util.strxor (strxor, strxor_c): the helper under EAX, SIV, CCM, OCB set-up, OpenPGP, KW, HMAC, PBKDF2 and the
   padding oracles' counter-measures.  Growth beyond the listed statement of C09 (the function keeps no state), judged with C09 because the
   documented contract is exactly C09's subject: any of bytes / bytearray / memoryview as input, the result returned or written into a
   caller-supplied output that may be one of the inputs.
   One record = one call:
     [fn |-> "strxor" | "strxor_c", a, b (bytes; b unused for strxor_c), c (integer), ka, kb (container kinds),
      out |-> "none" | "bytearray" | "memoryview" | "alias_a" | "alias_b" | "readonly" | "short" | "long",
      outlen, exc, ret |-> "bytes" | "none" | other type name, res (returned bytes or the output buffer after the call),
      a2, b2 (the inputs after the call), guard (bytes placed around the output inside one larger buffer, after the call), guard0]
   Contract (docstrings): terms of different length -> ValueError; c outside 0..255 -> ValueError; an output that is not writable -> TypeError;
   an output of another length -> ValueError; otherwise byte-wise XOR, None returned iff output given, inputs untouched unless they are the
   output, nothing written outside the output. *)
EXTENDS Integers, Sequences, TLC, Json, IOUtils, Bitwise
Traces == JsonDeserialize(IOEnv.TRACE_FILE)
VARIABLES t, l, bad
Ok == <<0, "ok">>
IsBytes(x) == \A i \in 1..Len(x) : x[i] \in 0..255
XorS(a, b) == [i \in 1..Len(a) |-> a[i] ^^ b[i]]
XorC(a, c) == [i \in 1..Len(a) |-> a[i] ^^ c]
Expected(e) == IF e.fn = "strxor" THEN XorS(e.a, e.b) ELSE XorC(e.a, e.c)
\* the exception the contract demands, "none" when the call is valid; precedence among several violated preconditions is not documented
Demanded(e) ==
   LET lenbad == e.fn = "strxor" /\ Len(e.a) # Len(e.b)
       cbad == e.fn = "strxor_c" /\ e.c \notin 0..255
       robad == e.out = "readonly"
       olbad == e.out \in {"short", "long"}
   IN (IF lenbad \/ cbad \/ olbad THEN {"ValueError"} ELSE {}) \cup (IF robad THEN {"TypeError"} ELSE {})
Verdict(e) ==
   IF ~(IsBytes(e.a) /\ IsBytes(e.b) /\ IsBytes(e.res) /\ IsBytes(e.a2) /\ IsBytes(e.b2)) THEN "harness: malformed record"
   ELSE IF e.fn \notin {"strxor", "strxor_c"} THEN "harness: unknown function"
   ELSE LET d == Demanded(e) IN
   IF d # {} THEN (IF e.exc = "none" THEN "call outside the contract not refused (" \o (CHOOSE x \in d : TRUE) \o " documented)"
                   ELSE IF e.exc \notin d THEN "raises " \o e.exc \o " instead of " \o (CHOOSE x \in d : TRUE)
                   ELSE IF e.guard # e.guard0 THEN "refused call wrote outside the output buffer"
                   ELSE IF e.out \notin {"alias_a", "alias_b"} /\ (e.a2 # e.a \/ e.b2 # e.b) THEN "refused call changed an input"
                   ELSE "ok")
   ELSE IF e.exc # "none" THEN "valid call raised " \o e.exc
   ELSE IF e.guard # e.guard0 THEN "wrote outside the output buffer"
   ELSE IF e.out = "none" /\ e.ret # "bytes" THEN "returns " \o e.ret \o " instead of bytes"
   ELSE IF e.out # "none" /\ e.ret # "none" THEN "returns " \o e.ret \o " although an output buffer was given"
   ELSE IF e.res # Expected(e) THEN "result is not the byte-wise XOR"
   ELSE IF e.out # "alias_a" /\ e.a2 # e.a THEN "first input changed"
   ELSE IF e.fn = "strxor" /\ e.out # "alias_b" /\ e.b2 # e.b THEN "second input changed"
   ELSE "ok"
ASSUME XorS(<<1, 2, 255>>, <<3, 2, 1>>) = <<2, 0, 254>> /\ XorC(<<0, 255>>, 15) = <<15, 240>>
TInit == t = 1 /\ l = 1 /\ bad = Ok
TNext == /\ t <= Len(Traces)
         /\ LET tr == Traces[t] IN
            IF l > Len(tr.events) THEN
               /\ PrintT(<<"VERDICT", tr.tid, bad[1], bad[2]>>)
               /\ t' = t + 1 /\ l' = 1 /\ bad' = Ok
            ELSE LET v == Verdict(tr.events[l])
                 IN /\ bad' = IF bad = Ok /\ v # "ok" THEN <<l, v>> ELSE bad
                    /\ l' = l + 1 /\ t' = t
=============================================================================
