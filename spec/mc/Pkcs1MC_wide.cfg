\* wide blocks (k = 300): positions and lengths on both sides of 256 (length arithmetic that does not fit one octet)
CONSTANTS V15Ks = {300}
FullBelow = 16
OaepKHs <- WideOaepKHs
DbKHs <- WideDbKHs
ShortKHs <- None
Rt15Ks = {300}
RtOaepKHs <- WideRtOaepKHs
RtAll = FALSE
Emit = TRUE
INIT Init
NEXT Next
INVARIANTS Sound EmitInv
CHECK_DEADLOCK FALSE
