\* separation: modulo reduction instead of rejection; UniformPerAttempt must be violated (range sizes that do not divide 2^bits)
CONSTANTS BW = 8
Fam = "range"
MaxBound = 6
MaxBits = 3
MaxAttempts = 1
Biased = TRUE
EmitPlans = FALSE
INIT Init
NEXT Next
CHECK_DEADLOCK FALSE
INVARIANTS InRange UniformPerAttempt
