\* quick tier: bit sizes 0/1..10 (1 and 2 byte attempts, every draw), one attempt
CONSTANTS BW = 8
Fam = "bits"
MaxBound = 40
MaxBits = 10
MaxAttempts = 1
Biased = FALSE
EmitPlans = TRUE
INIT Init
NEXT Next
CHECK_DEADLOCK FALSE
INVARIANTS InRange Memoryless DrawnIsFunctionOfPath UniformPerAttempt EmitBoundary
