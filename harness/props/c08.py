"""C08 - export then import is the identity; the encodings are canonical and parse independently; == is semantic."""
import collections
import json
import random

from .. import tlc
from ..core import Machinery
from .c10 import _selfcheck

LEVEL = "model_checking"

# the documented PBES2 schemes (Doc/src/io/pkcs8.rst): PBKDF2WithHMAC-<hash>And<cipher>, scryptAnd<cipher>
HASHES = {"SHA1": "SHA1", "SHA224": "SHA224", "SHA256": "SHA256", "SHA384": "SHA384", "SHA512": "SHA512", "SHA512-224": "SHA512_224",
          "SHA512-256": "SHA512_256", "SHA3-224": "SHA3_224", "SHA3-256": "SHA3_256", "SHA3-384": "SHA3_384", "SHA3-512": "SHA3_512"}
CIPHERS = ["DES-EDE3-CBC", "AES128-CBC", "AES192-CBC", "AES256-CBC", "AES128-GCM", "AES192-GCM", "AES256-GCM"]
INVALID = ["ROT13", "PBKDF2WithHMAC-SHA1AndAES512-CBC", "PBKDF2WithHMAC-MD17AndAES128-CBC", "scryptAndDES-EDE3-ECB", "pbkdf2withhmac-sha1andaes128-cbc",
           "PBKDF2WithHMAC-SHA1AndAES128-CBC "]


def schemes():
    out = []
    for h, hn in HASHES.items():
        for c in CIPHERS:
            out.append(("PBKDF2WithHMAC-%sAnd%s" % (h, c), {"kdf": "pbkdf2", "prf": hn, "cipher": c}))
    for c in CIPHERS:
        out.append(("scryptAnd%s" % c, {"kdf": "scrypt", "prf": "", "cipher": c}))
    return out


# "one protection per family" for the quick tier: every KDF family, every cipher family, the default scheme
QUICK_SCHEMES = ["PBKDF2WithHMAC-SHA1AndDES-EDE3-CBC", "PBKDF2WithHMAC-SHA256AndAES128-CBC", "PBKDF2WithHMAC-SHA512AndAES256-CBC",
                 "PBKDF2WithHMAC-SHA512-256AndAES192-CBC", "PBKDF2WithHMAC-SHA3-256AndAES128-CBC", "scryptAndAES128-CBC", "scryptAndDES-EDE3-CBC",
                 "PBKDF2WithHMAC-SHA224AndAES128-GCM", "scryptAndAES256-GCM", "PBKDF2WithHMAC-SHA384AndAES192-GCM"]      # every cipher name at least once


def small_params(req, rnd, vary):
    """prot_params that keep the key derivation affordable for TLC (the container is then OPENED by the specification)"""
    if req["kdf"] == "scrypt":
        pp = {"iteration_count": rnd.choice([2, 2, 4]), "block_size": 1, "parallelization": 1}
    else:
        pp = {"iteration_count": rnd.choice([1, 2, 3, 3, 4])}
    if vary and rnd.random() < 0.4:
        pp["salt_size"] = rnd.choice([1, 7, 16, 20])
    return pp


def passphrase(rnd):
    n = rnd.choice([1, 2, 6, 6, 8, 12, 16, 31])
    alphabet = b"abcdefghijklmnopqrstuvwxyzABCDEFGHIJKLMNOPQRSTUVWXYZ0123456789 !#%+-_"
    pw = bytes(rnd.choice(alphabet) for _ in range(n))
    if rnd.random() < 0.15:
        pw = bytes(rnd.randrange(1, 256) for _ in range(n))      # any octets (bytes passphrase); no zero octet: OpenSSL-style C strings are not the subject
    return pw


def run(ctx):
    quick = ctx.tier == "quick"
    rnd = random.Random(ctx.seed * 7919 + 8)
    # ---- 1. the option space, the legality matrix and the equality table, exhaustively (sys/KeyExport)
    r = ctx.mc("KeyExportMC", "KeyExportMC_opts.cfg", workers=4)
    opts = [json.loads(tlc.tla_string_to_py(p)) for p in r.prints("OPT")]
    if len(opts) != r.distinct or len(opts) < 7000:
        raise Machinery("KeyExportMC emitted %d option combinations for %d states" % (len(opts), r.distinct))
    r2 = ctx.mc("KeyExportMC", "KeyExportMC_eq.cfg", workers=4)
    pairs = [json.loads(tlc.tla_string_to_py(p)) for p in r2.prints("PAIR")]
    if len(pairs) != r2.distinct or len(pairs) < 1900:
        raise Machinery("KeyExportMC emitted %d pairs for %d states" % (len(pairs), r2.distinct))
    opts.sort(key=lambda x: json.dumps(x["o"], sort_keys=True))
    pairs.sort(key=lambda x: json.dumps([x["a"], x["b"]], sort_keys=True))
    ctx.extra["option_combinations"] = len(opts)
    ctx.extra["legality"] = dict(collections.Counter(x["legal"] for x in opts))
    ctx.extra["pool_pairs"] = len(pairs)
    # ---- 2. concrete keys
    cat = ctx.drive("c08_keys", ["catalogue"])
    bytype = collections.defaultdict(list)
    for c in cat:
        bytype[c["type"]].append(c["id"])
    allschemes = schemes()
    sch = dict(allschemes)
    pool = allschemes if not quick else [(n, sch[n]) for n in QUICK_SCHEMES]
    jobs = []

    def add(keyid, o, scheme=None, pp=None, pw=None, more_wrong=False, pwstr=False, why=""):
        job = {"key": keyid, "o": o, "scheme": None, "req": {}, "pp": {}, "pw": [], "more_wrong": more_wrong, "pwstr": pwstr, "why": why}
        if o["prot"] == "valid":
            name, req = scheme if scheme else rnd.choice(pool)
            job["scheme"], job["req"] = name, req
        elif o["prot"] == "invalid":
            job["scheme"] = rnd.choice(INVALID)
        if o["pp"]:
            job["pp"] = pp if pp is not None else small_params(job["req"] or {"kdf": "pbkdf2"}, rnd, True)
        if o["pass"] == "some":
            job["pw"] = list(pw if pw is not None else passphrase(rnd))
            if pwstr:
                job["pw"] = [b for b in job["pw"]]
        jobs.append(job)

    # A. the whole matrix, each combination on keys of its class chosen by the seed
    per = 1 if quick else 4
    for x in opts:
        ks = bytype[x["o"]["type"]]
        for kid in rnd.sample(ks, min(per, len(ks))):
            add(kid, x["o"], more_wrong=not quick, pwstr=rnd.random() < 0.1, why="matrix")
    # B. every key of the catalogue through every documented container of its class (one legal combination per container)
    reps = collections.OrderedDict()
    for x in opts:
        o = x["o"]
        if x["legal"] != "bytes" or o["pass"] == "empty" or (o["prot"] != "none" and not (o["prot"] == "valid" and o["pp"])) or (o["prot"] == "none" and o["pp"]):
            continue
        k = (o["type"], o["priv"], x["box"]["armor"], x["box"]["inner"], o["compress"] and not o["priv"], o["format"])
        reps.setdefault(k, o)
    keysel = list(cat)
    if quick:
        # every class keeps its edge-case keys over seeds: a seed-dependent half of the catalogue per run
        keysel = [c for c in cat if rnd.random() < 0.5 or c["id"] in ("rsa512_shortqinv", "P-521_x0", "Ed448_y0")]
    for c in keysel:
        for k, o in reps.items():
            if k[0] == c["type"]:
                add(c["id"], o, why="key sweep")
    # C. every protection scheme with affordable parameters (opened by the specification), and with the documented defaults (structure)
    targets = [("rsa512_shortd", "RSA"), ("P-256_yodd", "WsSsh"), ("Ed25519_xodd", "EdSsh"), ("dsa1024_seed", "DSA")]
    if not quick:
        targets += [("rsa1024_hi", "RSA"), ("P-521_x0", "WsSsh"), ("P-224_d0", "Ws"), ("Ed448_y0", "Ed"), ("Curve25519_x0", "Mt"), ("dsa2048", "DSA")]
    for i, (name, req) in enumerate(pool):
        for j, (kid, typ) in enumerate(targets):
            if quick and (i + j) % 2:
                continue
            for fmt in (["DER" if (i + j) % 3 else "PEM"] if quick or j >= 4 else ["DER", "PEM"]):
                o = {"type": typ, "priv": True, "format": fmt, "pkcs": "pkcs8", "prot": "valid", "pp": typ != "DSA", "compress": False, "pass": "some"}
                add(kid, o, scheme=(name, req), pp=small_params(req, rnd, not quick) if typ != "DSA" else None, more_wrong=True, why="protection sweep")
        if not quick or i % 3 == 0:
            o = {"type": "WsSsh", "priv": True, "format": "DER", "pkcs": "pkcs8", "prot": "valid", "pp": False, "compress": False, "pass": "some"}
            add("P-384_seed", o, scheme=(name, req), why="protection sweep, default parameters")
    # degenerate and boundary parameters of the key derivation
    for pp in ({"iteration_count": 1}, {"iteration_count": 2, "salt_size": 0}, {"iteration_count": 1, "salt_size": 64}):
        o = {"type": "RSA", "priv": True, "format": "DER", "pkcs": "pkcs8", "prot": "valid", "pp": True, "compress": False, "pass": "some"}
        add("rsa512_dq80", o, scheme=("PBKDF2WithHMAC-SHA1AndAES128-CBC", sch["PBKDF2WithHMAC-SHA1AndAES128-CBC"]), pp=pp, why="boundary parameters")
    # passphrases longer than the HMAC block (the key is hashed first), one octet, high octets, given as str
    for pw, pwstr in ((b"p" * 65, False), (b"P" * 129, False), (b"\xff", False), (bytes(range(128, 160)), False), (b"pass phrase", True)):
        for kid, typ, fmt, pk in (("rsa512_bige", "RSA", "PEM", "legacy"), ("rsa512_bige", "RSA", "DER", "pkcs8"), ("P-224_d0", "Ws", "PEM", "legacy"),
                                  ("Curve448_x0", "Mt", "PEM", "pkcs8")):
            pk8 = pk == "pkcs8"
            o = {"type": typ, "priv": True, "format": fmt, "pkcs": pk, "prot": "valid" if pk8 else "none", "pp": pk8, "compress": False, "pass": "some"}
            name = "PBKDF2WithHMAC-SHA1AndDES-EDE3-CBC" if len(pw) < 100 else "PBKDF2WithHMAC-SHA512AndAES256-CBC"
            add(kid, o, scheme=(name, sch[name]), pp={"iteration_count": 2} if pk8 else None, pw=pw, pwstr=pwstr, more_wrong=True, why="passphrase shapes")
    # text passphrases with characters outside ASCII, every key class through its protected containers: exported and imported with the same str
    texts = ["caf\u00e9", "p\u00e4ss w\u00f6rd", "\u00ff\u0080x", "\u00a3100"]
    tgt = [("rsa512_bige", "RSA", "PEM", "legacy"), ("rsa512_bige", "RSA", "DER", "pkcs8"), ("dsa1024_seed", "DSA", "PEM", "legacy"), ("dsa1024_seed", "DSA", "PEM", "pkcs8"),
           ("dsa1024_seed", "DSA", "DER", "pkcs8"), ("P-224_d0", "Ws", "PEM", "legacy"), ("P-256_yodd", "WsSsh", "DER", "pkcs8"), ("Ed25519_xodd", "EdSsh", "PEM", "pkcs8"),
           ("Curve448_x0", "Mt", "DER", "pkcs8")]
    for j, (kid, typ, fmt, pk) in enumerate(tgt):
        pk8 = pk == "pkcs8"
        for text in ([texts[(j + ctx.seed) % len(texts)]] if quick else texts):
            o = {"type": typ, "priv": True, "format": fmt, "pkcs": pk, "prot": "valid" if pk8 else "none", "pp": pk8 and typ != "DSA", "compress": False, "pass": "some"}
            name = "PBKDF2WithHMAC-SHA1AndDES-EDE3-CBC" if j % 2 else "PBKDF2WithHMAC-SHA256AndAES128-CBC"
            if name not in sch:
                name = sorted(sch)[0]
            add(kid, o, scheme=(name, sch[name]), pp={"iteration_count": 2} if (pk8 and typ != "DSA") else None, pw=text.encode("latin-1"), more_wrong=False, why="text passphrase outside ASCII")
            jobs[-1]["pwtext"] = text
    # ---- 3. record
    traces = ctx.drive("c08_keys", ["run"], inp={"jobs": jobs, "pairs": pairs, "extra_pairs": True, "foreign": True}, timeout=3000)
    if len(traces) < len(jobs) + len(pairs):
        raise Machinery("recorder returned %d traces for %d jobs and %d pairs" % (len(traces), len(jobs), len(pairs)))
    # ---- 4. TLC judges
    verdicts = ctx.validate("KeyExportTrace", traces, family="key-export", timeout=3000)
    legal_of = {json.dumps(x["o"], sort_keys=True): x for x in opts}
    read = collections.Counter()
    unspecified = collections.Counter()
    containers = collections.Counter()
    READ = {0: "not readable", 1: "nothing to read (exception / equality pair)", 2: "clear structure parsed by TLC", 3: "legacy PEM encryption opened by TLC",
            4: "PBES2 container opened by TLC", 5: "PBES2 container judged by structure only", 6: "PBES1 container (OpenSSL file) opened by TLC"}
    for t in traces:
        ctx.count()
        code, clause = verdicts[t["tid"]]
        read[READ.get(code, str(code))] += 1
        if t["fam"] == "foreign":
            ctx.nontriv(["foreign", t["keyid"]])
        elif t["fam"] == "export":
            m = legal_of.get(json.dumps(t["o"], sort_keys=True))
            if m is not None and m["legal"] == "unspecified":
                unspecified["%s -> %s" % (m["why"], t["out"])] += 1
            if t["out"] == "bytes":
                ctx.nontriv([t["keyid"], t["o"], t["scheme"], t["pp"], t["pw"]])
                if m is not None and m["legal"] == "bytes":
                    containers["%s %s/%s%s" % (t["key"]["type"], m["box"]["armor"], m["box"]["inner"], " " + t["scheme"] if code in (4, 5) else "")] += 1
        else:
            if t["eq"] in ("True", "False"):
                ctx.nontriv([t["a"]["type"], t["a"]["priv"], t["a"]["comps"], t["b"]["type"], t["b"]["priv"], t["b"]["comps"]])
        if clause == "ok":
            continue
        if clause.startswith("harness:"):
            raise Machinery("harness inconsistency: %s in %s" % (clause, json.dumps({k: t[k] for k in t if k not in ("data", "key", "imps", "wit")}, default=str)[:800]))
        if t["fam"] == "foreign":
            ctx.violation("%s: %s" % (t["key"]["type"], clause), {"file": t["keyid"], "text": bytes(t["data"]).decode("latin-1"), "passphrase": bytes(t["pw"]).decode("latin-1"),
                                                               "imports": [[i["mode"], i["out"], i["eq"]] for i in t["imps"]]}, replay=t)
        elif t["fam"] == "export":
            kw = {"format": t["o"]["format"], "pkcs": t["o"]["pkcs"], "protection": t["scheme"] or None, "prot_params": t["pp"] or None,
                  "compress": t["o"]["compress"], "passphrase": ("" if t["o"]["pass"] == "empty" else bytes(t["pw"]).decode("latin-1")) if t["o"]["pass"] != "none" else None}
            detail = {"key": "%s (%s), %s half" % (t["keyid"], t["keydesc"], "private" if t["o"]["priv"] else "public"), "export_key": kw,
                      "outcome": t["out"], "output_head": bytes(t["data"][:120]).decode("latin-1"),
                      "imports": [[i["mode"], i["out"], i["eq"]] for i in t["imps"]],
                      "documented": (legal_of.get(json.dumps(t["o"], sort_keys=True)) or {}).get("legal"),
                      "unspecified_region": (legal_of.get(json.dumps(t["o"], sort_keys=True)) or {}).get("why")}
            # container-level clauses do not depend on the key type: one stable key for all of them
            key = clause if clause.startswith(("EncryptedPrivateKeyInfo", "PEM encryption", "exported PEM")) else "%s: %s" % (t["key"]["type"], clause)
            ctx.violation(key, detail, replay=t)
        else:
            detail = {"a": {k: t["a"][k] for k in ("type", "priv", "note")}, "b": {k: t["b"][k] for k in ("type", "priv", "note")}, "pair": t["note"] or t["claim"],
                      "eq": t["eq"], "ne": t["ne"]}
            ctx.violation(clause, detail, replay=t)
    ctx.extra["how_far_tlc_read_the_exports"] = dict(read)
    ctx.extra["outcomes_in_unspecified_regions"] = dict(sorted(unspecified.items()))
    ctx.extra["legal_containers_read"] = len(containers)
    ctx.extra["jobs"] = dict(collections.Counter(j["why"] for j in jobs))
    if read[READ[4]] < 8 or read[READ[3]] < 8 or read[READ[2]] < 300:
        raise Machinery("too few exports were read by the specification: %r" % dict(read))
    if read[READ[6]] < 4:
        raise Machinery("the PBES1 files were not opened by the specification: %r" % dict(read))
    for t in [x for x in traces if x["fam"] == "export" and verdicts[x["tid"]][0] in (2, 3, 4, 5)][:5] + [x for x in traces if x["fam"] == "eq"][:2]:
        if t["fam"] == "export":
            ctx.sample({"key": t["keyid"], "options": t["o"], "scheme": t["scheme"], "prot_params": t["pp"], "outcome": t["out"], "bytes": len(t["data"]),
                        "imports": [[i["mode"], i["out"], i["eq"]] for i in t["imps"]], "tlc_read": READ[verdicts[t["tid"]][0]], "tlc_verdict": verdicts[t["tid"]][1]})
        else:
            ctx.sample({"a": [t["a"]["type"], t["a"]["priv"]], "b": [t["b"]["type"], t["b"]["priv"]], "pair": t["note"] or t["claim"], "eq": t["eq"], "ne": t["ne"],
                        "tlc_verdict": verdicts[t["tid"]][1]})
    # ---- 5. binding self-checks: falsified records must be rejected
    okv = lambda t: verdicts[t["tid"]][1] == "ok"
    ex = [t for t in traces if t["fam"] == "export"]
    g = ctx.pick(ex, lambda t: okv(t) and t["out"] == "bytes" and t["o"]["format"] == "DER" and t["key"]["type"] == "RSA" and t["o"]["priv"] and verdicts[t["tid"]][0] == 2
                 and len(t["data"]) > 200, "clear RSA private DER")
    if g is not None:
        def flip_modulus(t):
            t["data"][40] ^= 1
            return t
        _selfcheck(ctx, "KeyExportTrace", None, g, flip_modulus, "key-export: one bit of an exported modulus")
    g = ctx.pick(ex, lambda t: okv(t) and verdicts[t["tid"]][0] == 4 and t["o"]["format"] == "DER", "PBES2 container opened by TLC")
    if g is not None:
        def flip_ct(t):
            t["data"][-1] ^= 1
            return t
        _selfcheck(ctx, "KeyExportTrace", None, g, flip_ct, "key-export: one bit of a PBES2 ciphertext")

        def accept_wrong(t):
            for i in t["imps"]:
                if i["mode"] == "wrong1":
                    i["out"] = "ok"
            return t
        _selfcheck(ctx, "KeyExportTrace", None, g, accept_wrong, "key-export: wrong passphrase accepted")
    g = ctx.pick([t for t in traces if t["fam"] == "eq"], lambda t: okv(t) and t["a"]["type"] == t["b"]["type"] == "DSA" and t["eq"] == "False" and t["a"]["priv"] == t["b"]["priv"],
                 "unequal DSA pair")
    if g is not None:
        _selfcheck(ctx, "KeyExportTrace", None, g, lambda t: dict(t, eq="True", ne="False"), "key-eq: outcome of == on different DSA keys")
    if not quick:
        g = ctx.pick(ex, lambda t: okv(t) and t["out"] == "bytes" and verdicts[t["tid"]][0] == 3, "legacy PEM encryption")
        if g is not None:
            def unequal(t):
                for i in t["imps"]:
                    if i["mode"] == "right":
                        i["eq"], i["ne"] = "False", "True"
                return t
            _selfcheck(ctx, "KeyExportTrace", None, g, unequal, "key-export: import(export(k)) == k falsified")
        g = ctx.pick(ex, lambda t: okv(t) and t["out"] == "ValueError" and (legal_of.get(json.dumps(t["o"], sort_keys=True)) or {}).get("legal") == "ValueError", "documented refusal")
        if g is not None:
            _selfcheck(ctx, "KeyExportTrace", None, g, lambda t: dict(t, out="TypeError"), "key-export: exception class of a documented refusal")
        g = ctx.pick(ex, lambda t: okv(t) and t["out"] == "bytes" and t["key"]["type"] == "ECC" and t["o"]["format"] == "SEC1" and t["o"]["compress"], "compressed SEC1 point")
        if g is not None:
            def flip_parity(t):
                t["data"][0] ^= 1
                return t
            _selfcheck(ctx, "KeyExportTrace", None, g, flip_parity, "key-export: parity octet of a compressed point")
        g = ctx.pick([t for t in traces if t["fam"] == "eq"], lambda t: okv(t) and t["a"]["type"] == t["b"]["type"] == "ElGamal" and t["eq"] in ("True", "False"), "ElGamal pair")
        if g is not None:
            _selfcheck(ctx, "KeyExportTrace", None, g, lambda t: dict(t, eq="AttributeError", ne="AttributeError"), "key-eq: == raising on ElGamal keys")
    ctx.rule = ("every option combination of export_key enumerated by TLC from sys/KeyExport (7 key classes x private/public x format x pkcs x protection x "
                "prot_params x compress x passphrase none/empty/some; %d combinations) replayed on %s of its class from a catalogue of %d fixed and "
                "seed-derived keys (RSA 512-1024 bits with e = 3 / 65537 / 2^31+3 / 2^64+13, short and high-bit CRT members, both prime orders; DSA 1024/160 "
                "and 2048/256; nine curves with leading-zero and odd/even coordinates, d = 1, n-1); every catalogue key%s through every documented container of its class; "
                "%d PBES2 schemes with small and default parameters; boundary KDF parameters and passphrase shapes; every export imported with no, the right "
                "and 2-5 wrong passphrases; 31 key files written by OpenSSL / OpenSSH imported the same way; all %d ordered pairs of the model's key pool plus the recorder's catalogue / cross-curve / cross-type pairs; "
                "distinct = distinct (key, options, scheme, parameters, passphrase) that exported bytes, and distinct compared component tuples"
                % (len(opts), "one key" if quick else "three keys", len(cat), " of a seed-dependent half" if quick else "", len(pool), len(pairs)))
    ctx.assume("spec/data/KeyFormats is the independent reader: its structure definitions are pinned by files written by OpenSSL 3.5 and OpenSSH 9.2 (KeyFormatsKat); "
               "DER, PEM, padding, ciphers, hashes, KDFs and curves come from the data-layer modules with their own standard vectors")
    ctx.assume("PBES2 containers whose key derivation costs more than 40 PRF evaluations (documented default iteration counts) are judged by structure only "
               "(scheme OIDs, salt length, iteration count, IV length, ciphertext length); their decryption is covered by the round trip through import_key")
    ctx.assume("a wrong passphrase is required to be refused without TLC evaluating the decryption under it; only an acceptance is re-examined "
               "(KeyExportTrace!WrongCouldOpen) before it is reported")
    ctx.assume("where the documentation is silent (sys/KeyExport: EmptyPassphrase, PrivateOnlyOptionOnPublicKey, OpenSshOfPrivateKey, PublicFormatOfPrivateKey, "
               "ProtectionWithoutPkcs8, ProtParamsWithoutProtection, ProtectionWithoutPassphrase, NoOpenSshKeyType) any refusal is accepted and bytes are still judged")
    ctx.assume("that the public point of a private key is d*G is C05/C06's subject; here the exported values are compared with the key object's own attributes")
    ctx.assume("PBES1 containers cannot be produced by export_key (import-only legacy schemes): they are exercised on four files written by OpenSSL 3.5 "
               "(family \"foreign\", with 27 other OpenSSL / OpenSSH files), which TLC opens itself and compares with what import_key returns")
