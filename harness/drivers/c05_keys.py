"""C05 recorder.  Builds real keys deterministically, concretises the cases TLC enumerated from sys/KeyPipeline (single and double
component corruptions per key type, form and format), offers every case to construct(..., consistency_check=True) or -- encoded with
hand-built DER / PEM / OpenSSH lines -- to import_key, and records: the components validation sees (as the format carries them), the
outcome class, the components of a returned key, and the UNTRUSTED witnesses the judge needs (quotients, gcd cofactors, modexp chains,
factorisations of the composites built here, square roots, Jacobi quotients, chain points of scalar multiples computed with Python
integers).  No verdict is computed here: spec/trace/KeyTrace.tla judges with spec/data/KeyInvariants.

  c05_keys.py cases     stdin {"items": [case...], "deep": bool}  -> traces
        case = {"cid": int, "ty": "rsa"|"dsa"|"elgamal"|"ws"|"ed"|"mt", "form": a form of sys/KeyPipeline, "corr": [corruption...], "kid": real key,
                "variant": "der"|"pem", "cls": the model's class or "", "why": the model's failed step, "deep": bool (optional, overrides)}
        kid: rsa fix512 | fix512r | fix768 | gen1024;  dsa toy | d512 | d1024 | d2048;  elgamal eg128 | eg256;  curves "<name>/<short|full|one|seed>/<index>"
  c05_keys.py generate  stdin {"items": [{"cid": int, "what": "rsa"|"dsa"|"dsa-domain"|"elgamal"|"ecc", ...}], "deep": bool} -> traces
        rsa: bits, e, tape ("small-d": scripted entropy, see RSA_SMALLD);  dsa: bits;  dsa-domain: bits, kid, corr;  elgamal: bits;  ecc: curve
A case that cannot be expressed in its format yields no trace.  Every case runs in a forked child under a deadline (see isolated()).
The fixed primes / domains below were found at authoring time by a seeded search with Python integers (40 Miller-Rabin rounds)."""
import base64
import hashlib
import json
import math
import os
import random
import select
import signal
import struct
import sys
import time
import traceback

sys.path.insert(0, os.path.dirname(os.path.abspath(__file__)))
from _util import exc_class, limbs  # noqa: E402
from _util import cov_flush as _cov_flush  # noqa: E402

from Crypto.PublicKey import DSA, ECC, RSA, ElGamal  # noqa: E402

SEED = int(os.environ.get("VERIF_SEED", "0"))

RSA512 = (0xc80dcde9522e6602bf7542daba85e44743a1b226036e72758a923af3cda60a0f, 0xf5884c1f12298c90e85429c3ff49803c1b5d209103114366e4878ac42bba006b)
RSA768 = (0xd141795598b42b951a3ffba3cba7ec78e3d15a3b195b55ab305c5c469df0d2386c038994ea602d58fde2da424cdcb217, 0xc6485e1a1901b5ce33428ecaa8c4a089a444e295c1a0769b20f5fb1e8c4fb383aa8ed19444da4e927962aab02e8d3717)
DSA512 = (0x85373791304ee79081d2dc83ecb8cf563e92928db380bc85999ff42e34661fd568ae24cc22a424cd13c0060ff5cfe2fec30528380b94518e8e69dd8b345c826d, 0xd16ca659474f36746c5f3691867d9d7c6b9d9219, 0x618c409b577d128a700ff7c4e86cdd2e367d3090d5f8401473d0bb2e2e45fe43d89e359135bdd674f71a6d5932112304e881be1a98e74718b61ee874728ea714)
DSA1024 = (0x9222498d0da3f4f77648e7b168a32f3629985d8f78fd2daec334ccc64bbe2d58e8791a2bb5002d9c1d8a248a4e46c8f650bf0d06466e5c59a3d546fe3f2178710bd4accace06fa9ff29e833ab173e9f4ee41185638d170fafeee04eb93786d7cef9f34368311a240c7e3b9d54b6525e4f6262c5f3410d5956006ad46425fb21f, 0xc7dc3c4d919548376722ac24917776740a962275, 0x8cc00e5f646852242c43b7a76fc588db7e8749c18acefd89f2c70ae618be9a5d0980ea7c22e92d15657bcf408023886622a886693ee5ff65b5b5c000c161b8ba587cd290b1a19aa567809d660d7835a897a9598a85975c3019ae39f06cdcce6d1749c14eb617d5aad2957708b1535a82d7887dff0565431568c2505fb704b473)
DSA2048 = (0x899621dfc80f0e8c7671ff772a7ecd033c2adabfbaab11dc4ef0cdc5020e940aaa9fbf65e10252a9f202e036a1905525c7bff5c04eb4b49c69f60999bc4b6424849c2997532975420c0b81e21d3017266c03a116e4f8cacb1348686235e7463af492449fdccb01c28cebb14a05fd2f02c45c4694fd149fd98f946056915a89101cedc8d3ca74c097785bbad3f76ba18cced1bfc259a727f3d0ebf4a9570e09890d12bac05aebcf10646c503d4405dfbedb6fcf7c404037761e8492edaf1de4142d16115d00b52368ce8c74af173a2ec662401a7c66b3d5b101134f8366fce6111f262998b5a9122fa228d2f144e1637995ad26cba68603d55c14ad3bbd49e4cb, 0xea899fa6a874220deb55f41578dc57ba1b07b5bac6dfdda11786d8f45c6376fb, 0x8899fb9f406435e0d2a774ace8f8e4239254973e633e20bd92ed72902288274f393b30cf7b116a1edc42c712a898248402ae2c544175118207d9a6527e62d8506169475d198438d7bd4f1b49b8c4148654ebeb486296950215a1614b8b3d3031eb83941f8982fa4825601bb13d7bd6429008a22e0586cc9e3b0241c8464cf6da17b0300abeab83175bfc437e1d9efb57e6a6e5218fdb0c25355092947e8334f72a1678bcb83602e91347aa0d78b6fa7ae937ef011754a863b5e2e6da8f873ea177b5e3e64dca2107ef7b8bbb8131fd676372b66cb58c56fa6eb0dd41fbcd80f5ad6feee3c134e845d12cc3496497132b592d90e102e354748815f0629d9091da)
EG256 = (0xfc425fdd739190f3ee0cf9958ae6da4679431ec10eded464877bc1601f6d539b,)
EG128 = (0xc2b98cfc3b8aaee3663b2b3cec8e0403,)


# ------------------------------------------------------------------------------------------ numbers, witnesses (Python integers, untrusted)
def sn(v):
    """a signed integer of the trace: {"s": 0|1, "m": limbs}"""
    return {"s": 1 if v < 0 else 0, "m": limbs(abs(v))}


def nat(v):
    return limbs(v) if v >= 0 else []


def pow_chain(g, e, m):
    chain, acc = [], g
    for i in range(e.bit_length() - 2, -1, -1):
        q, v = divmod(acc * acc, m)
        chain.append({"q": limbs(q), "v": limbs(v)})
        acc = v
        if (e >> i) & 1:
            q, v = divmod(acc * g, m)
            chain.append({"q": limbs(q), "v": limbs(v)})
            acc = v
    return chain


def jacobi_quotients(a, n):
    qs = []
    while a:
        z = (a & -a).bit_length() - 1
        a1 = a >> z
        if a1 == 1:
            break
        q, r_ = divmod(n, a1)
        qs.append(limbs(q))
        a, n = r_, a1
    return qs


def egcd(a, b):
    x0, x1, y0, y1 = 1, 0, 0, 1
    while b:
        q = a // b
        a, b = b, a - q * b
        x0, x1 = x1, x0 - q * x1
        y0, y1 = y1, y0 - q * y1
    return a, x0, y0


NOGCD = {"g": [], "ca": [], "cb": [], "s": [], "t": [], "sg": 0}
NOMR = {"chain": [], "sq": []}


def gcd_w(a, b):
    """g = gcd(a, b) with cofactors and a Bezout identity s a - t b = g (sg = 0) or t b - s a = g (sg = 1) in non-negative numbers"""
    if a <= 0 or b <= 0:
        return NOGCD
    g, x, y = egcd(a, b)          # x a + y b = g; x, y cannot both be positive
    if y > 0:
        s_, t_, sg = -x, y, 1
    else:
        s_, t_, sg = x, -y, 0
    assert s_ >= 0 and t_ >= 0 and ((s_ * a - t_ * b == g) if sg == 0 else (t_ * b - s_ * a == g))
    return {"g": limbs(g), "ca": limbs(a // g), "cb": limbs(b // g), "s": limbs(s_), "t": limbs(t_), "sg": sg}


FACTORS = {}      # composite built here -> (a, b): the compositeness witness
SMALL = [2, 3, 5, 7, 11, 13, 17, 19, 23, 29, 31, 37, 41, 43, 47, 53, 59, 61, 67, 71, 73, 79, 83, 89, 97]


def fac_w(v):
    f = FACTORS.get(v)
    return [limbs(f[0]), limbs(f[1])] if f else []


def mr_w(v, deep):
    """Miller-Rabin to base 2, only where the judge will ask for it (deep, no small factor, no exhibited factorisation, >= 2^24)"""
    if not deep or v < (1 << 24) or v in FACTORS or any(v % s == 0 for s in SMALL):
        return NOMR
    s, t = 0, v - 1
    while t % 2 == 0:
        t //= 2
        s += 1
    chain = pow_chain(2, t, v)
    x = pow(2, t, v)
    sq = []
    for _ in range(s - 1):
        q, x2 = divmod(x * x, v)
        sq.append({"q": limbs(q), "v": limbs(x2)})
        x = x2
    return {"chain": chain, "sq": sq}


def is_probable_prime(n, rnd=random.Random(1)):
    if n < 2:
        return False
    for sp in SMALL:
        if n % sp == 0:
            return n == sp
    d, s = n - 1, 0
    while d % 2 == 0:
        d //= 2
        s += 1
    for _ in range(24):
        a = rnd.randrange(2, n - 1)
        x = pow(a, d, n)
        if x in (1, n - 1):
            continue
        for _ in range(s - 1):
            x = x * x % n
            if x == n - 1:
                break
        else:
            return False
    return True


def sqrt_mod(a, p):
    a %= p
    if a == 0:
        return 0
    if pow(a, (p - 1) // 2, p) != 1:
        return None
    if p % 4 == 3:
        return pow(a, (p + 1) // 4, p)
    if p % 8 == 5:
        r = pow(a, (p + 3) // 8, p)
        if r * r % p != a:
            r = r * pow(2, (p - 1) // 4, p) % p
        return r
    q, s = p - 1, 0
    while q % 2 == 0:
        q //= 2
        s += 1
    z = 2
    while pow(z, (p - 1) // 2, p) != p - 1:
        z += 1
    m, c, t, r = s, pow(z, q, p), pow(a, q, p), pow(a, (q + 1) // 2, p)
    while t != 1:
        i, t2 = 0, t
        while t2 != 1:
            t2 = t2 * t2 % p
            i += 1
        b = pow(c, 1 << (m - i - 1), p)
        m, c, t, r = i, b * b % p, t * b * b % p, r * b % p
    return r


# ------------------------------------------------------------------------------------------ calling the library
# Every case runs in a forked child (isolated): a call that does not return (RSA.construct((n, 1, 1)) loops for ever) or that kills the
# interpreter can neither be interrupted safely from a signal handler (an exception raised inside IntegerGMP.__del__ is swallowed; one
# raised inside a half-built object led to a segmentation fault) nor be allowed to take the recorder down.  The child writes one octet
# when the library call has returned and then the record; the parent enforces a deadline on the call, kills the child when it passes and
# builds the record itself with the outcome "Timeout" (or "Crash") -- which is neither a key nor a ValueError.
PRETEND = None          # set in the parent after a child was killed / died: attempt() reports this outcome without calling the library
PROGRESS_FD = None      # set in the child: where attempt() announces that the call has returned
CALL_SECONDS = 8


def attempt(fn, seconds=CALL_SECONDS):
    """(result, "none") or (None, exception class); `seconds` is read by isolated() through the function calling attempt()"""
    if PRETEND is not None:
        return None, PRETEND
    try:
        res = fn(), "none"
    except Exception as e:  # the class is the observation
        res = None, exc_class(e)
    if PROGRESS_FD is not None:
        os.write(PROGRESS_FD, b".")
    return res


def isolated(func, item, deep, call_seconds=CALL_SECONDS, total_seconds=600):
    global PRETEND, PROGRESS_FD
    sys.stdout.flush()
    sys.stderr.flush()
    r, w = os.pipe()
    pid = os.fork()
    if pid == 0:
        code = 3
        try:
            os.close(r)
            PROGRESS_FD = w
            t = func(item, deep)
            data = b"|" + json.dumps(t, separators=(",", ":")).encode()
            while data:
                n = os.write(w, data)
                data = data[n:]
            code = 0
        except BaseException:
            traceback.print_exc()
        finally:
            _cov_flush()
            os._exit(code)
    os.close(w)
    buf, deadline, outcome = b"", time.time() + call_seconds, None
    while True:
        left = deadline - time.time()
        ready = select.select([r], [], [], max(left, 0))[0] if left > 0 else []
        if not ready:
            outcome = "Timeout"
            os.kill(pid, signal.SIGKILL)
            break
        chunk = os.read(r, 1 << 20)
        if not chunk:
            break
        if not buf:
            deadline = time.time() + total_seconds        # the call has returned (or was not made): the rest is the recorder's own work
        buf += chunk
    os.close(r)
    _, status = os.waitpid(pid, 0)
    if outcome is None:
        if os.WIFSIGNALED(status):
            outcome = "Crash"
        elif os.WEXITSTATUS(status) != 0:
            raise RuntimeError("the recorder failed in the child process on item %r" % (item,))
        else:
            return json.loads(buf[buf.index(b"|") + 1:].decode())
    PRETEND = outcome
    try:
        return func(item, deep)
    finally:
        PRETEND = None


# ------------------------------------------------------------------------------------------ DER / PEM / OpenSSH by hand
def der_len(n):
    if n < 128:
        return bytes([n])
    b = n.to_bytes((n.bit_length() + 7) // 8, "big")
    return bytes([0x80 | len(b)]) + b


def der(tag, body):
    return bytes([tag]) + der_len(len(body)) + body


def der_int(v):
    if v >= 0:
        b = v.to_bytes(v.bit_length() // 8 + 1, "big")
    else:
        n = ((-v - 1).bit_length()) // 8 + 1
        b = (v + (1 << (8 * n))).to_bytes(n, "big")
    return der(0x02, b)


def der_seq(*items):
    return der(0x30, b"".join(items))


def der_oid(dotted):
    arcs = [int(a) for a in dotted.split(".")]
    body = bytes([40 * arcs[0] + arcs[1]])
    for a in arcs[2:]:
        chunk = [a & 0x7F]
        a >>= 7
        while a:
            chunk.append(0x80 | (a & 0x7F))
            a >>= 7
        body += bytes(reversed(chunk))
    return der(0x06, body)


def der_octets(b):
    return der(0x04, b)


def der_bits(b):
    return der(0x03, b"\x00" + b)


DER_NULL = b"\x05\x00"


def pem(der_bytes, marker):
    b64 = base64.b64encode(der_bytes).decode()
    return ("-----BEGIN %s-----\n%s\n-----END %s-----" % (marker, "\n".join(b64[i:i + 64] for i in range(0, len(b64), 64)), marker)).encode()


def ssh_str(b):
    return struct.pack(">I", len(b)) + b


def ssh_mpint(v):
    return ssh_str(v.to_bytes(v.bit_length() // 8 + 1, "big") if v else b"")


def spki(alg_oid, params, key_bytes):
    return der_seq(der_seq(der_oid(alg_oid), params), der_bits(key_bytes))


def pkcs8(alg_oid, params, key_bytes):
    return der_seq(der_int(0), der_seq(der_oid(alg_oid), params), der_octets(key_bytes))


# ------------------------------------------------------------------------------------------ RSA
RSA_OID = "1.2.840.113549.1.1.1"
KNOWN_N = {}      # modulus -> (p, q) where the recorder knows the factors


class Tape(object):
    """randfunc: a deterministic byte tape"""

    def __init__(self, tag):
        self.r = random.Random("%d/tape/%s" % (SEED, tag))
        self.used = 0

    def __call__(self, n):
        self.used += n
        return bytes(self.r.getrandbits(8) for _ in range(n))


class PrefixTape(Tape):
    """randfunc whose first octets are chosen (boundary candidates for whatever sampler reads them first: order - 1, order, all ones, zeros),
    then the ordinary tape"""

    def __init__(self, tag, prefix):
        Tape.__init__(self, tag)
        self.prefix = bytes(prefix)

    def __call__(self, n):
        out = Tape.__call__(self, n)
        if self.prefix:
            k = min(n, len(self.prefix))
            out = self.prefix[:k] + out[k:]
            self.prefix = self.prefix[k:]
        return out


def boundary_prefix(kind, order):
    nb = (order.bit_length() + 7) // 8
    v = {"order-1": order - 1, "order": order, "order-2": order - 2, "ones": (1 << (8 * nb)) - 1, "zeros": 0, "one": 1}[kind]
    return v.to_bytes(nb, "big")


# Primes p = 3 g + 1, q = 4 g + 1 of 512 bits (authoring-time search with Python integers, 30 Miller-Rabin rounds) that satisfy every condition
# RSA.generate(1024) puts on its candidates (size, p, q > sqrt(2) 2^511, |p - q| > 2^412, gcd(e, p-1) = gcd(e, q-1) = 1 for e = 65537) and for which
# d = e^-1 mod lcm(p-1, q-1) = e^-1 mod 12 g is SMALLER than 2^512: FIPS 186-4 B.3.1 (3) wants 2^(nlen/2) < d and new primes otherwise
RSA_SMALLD = (0xbc7c3bfdb4e9b59eeec224697d8efd0d41532aeb20876415336ae293694b8510e96a9be60a42a89e8a9c2c0728ba48090c385173c03bb8cecc407879e6ff6bad,
              0xfb504ffcf1379cd3e902db375213fc11ac6ee3e42b5f301c448e836f370f5c168c8e2532b858e0d3637ae55ee0f8600c104b1745004fa113bb00a0a289548f91)


# the primes next to 3 * 2^510 on either side (authoring-time search, e = 65537 coprime to p-1 and q-1): 1104 apart, although they differ in their
# leading bits - FIPS 186-4 B.3.3 (5.4) wants |p - q| > 2^(nlen/2 - 100) and another q otherwise
RSA_CLOSE = (0xbffffffffffffffffffffffffffffffffffffffffffffffffffffffffffffffffffffffffffffffffffffffffffffffffffffffffffffffffffffffffffffea9,
             0xc00000000000000000000000000000000000000000000000000000000000000000000000000000000000000000000000000000000000000000000000000002f9)


class ScriptedTape(Tape):
    """randfunc whose entropy makes generate_probable_prime() draw chosen candidates: a request made by Integer.random() on behalf of
    generate_probable_prime() itself is served from the octets of the next scripted number; every other request (Miller-Rabin bases, further
    candidates once the script is used up) is served by the ordinary tape"""

    def __init__(self, tag, numbers, nbytes):
        Tape.__init__(self, tag)
        self.queue = [v.to_bytes(nbytes, "big") for v in numbers]
        self.pending = b""

    def __call__(self, n):
        names, f = [], sys._getframe(1)
        while f is not None and len(names) < 3:
            names.append(f.f_code.co_name)
            f = f.f_back
        if "generate_probable_prime" in names and "random_range" not in names and (self.pending or self.queue):
            if not self.pending:
                self.pending = self.queue.pop(0)
            out, self.pending = self.pending[:n], self.pending[n:]
            self.used += n
            return out
        return Tape.__call__(self, n)


def rsa_derive(p, q, e):
    lcm = (p - 1) * (q - 1) // math.gcd(p - 1, q - 1)
    d = pow(e, -1, lcm)
    KNOWN_N[p * q] = (p, q)
    return {"n": p * q, "e": e, "d": d, "p": p, "q": q, "u": pow(p, -1, q), "dp": d % (p - 1), "dq": d % (q - 1), "qi": pow(q, -1, p)}


_rsa_cache = {}


def rsa_base(kid):
    if kid in _rsa_cache:
        return dict(_rsa_cache[kid])
    if kid == "fix512":
        t = rsa_derive(RSA512[0], RSA512[1], 65537)
    elif kid == "fix512r":                       # the factors in the other order (construct() takes either)
        t = rsa_derive(RSA512[1], RSA512[0], 65537)
    elif kid == "fix768":
        t = rsa_derive(RSA768[0], RSA768[1], 5)
    elif kid == "gen1024":
        k = RSA.generate(1024, randfunc=Tape("rsa-base"))
        t = rsa_derive(k.p, k.q, k.e)
    else:
        raise ValueError(kid)
    _rsa_cache[kid] = t
    return dict(t)


def small_r(t):
    for r in (101, 103, 107, 109, 113, 127, 131, 137, 139, 149):
        pr = t["p"] * r
        if pr % t["q"] and math.gcd(t["e"], (pr - 1) * (t["q"] - 1) // math.gcd(pr - 1, t["q"] - 1)) == 1:
            return r
    return None


def rsa_corr(c, t):
    t = dict(t)
    p, q = t["p"], t["q"]
    ok = p > 1 and q > 1
    if c == "swap p/q":
        t["p"], t["q"] = q, p
    elif c == "d+1":
        t["d"] += 1
    elif c == "d-1":
        t["d"] -= 1
    elif c == "d+lcm":
        t["d"] += (p - 1) * (q - 1) // math.gcd(p - 1, q - 1) if ok else 1
    elif c == "d+phi":
        t["d"] += (p - 1) * (q - 1) if ok else 1
    elif c == "d+(p-1)":
        t["d"] += (p - 1) if p > 1 else 1
    elif c == "d+(q-1)":
        t["d"] += (q - 1) if q > 1 else 1
    elif c == "p*r":
        r = small_r(t) if ok and t["e"] > 1 and is_probable_prime(q) else None
        if r:
            FACTORS[p * r] = (p, r)
            t = rsa_derive(p * r, q, t["e"])
        else:
            FACTORS[p * 3] = (p, 3)
            t["p"] = p * 3
    elif c == "p=q":
        t["q"], t["n"] = p, p * p
        if p > 2 and math.gcd(t["e"], p - 1) == 1:
            t["d"] = pow(t["e"], -1, p - 1)
    elif c == "e even":
        t["e"] += 1
    elif c == "e>=n":
        t["e"] += 2 * abs(t["n"])
    elif c == "n+2":
        t["n"] += 2
    elif c == "n-2":
        t["n"] -= 2
    elif c == "u+1":
        t["u"] += 1
    elif c == "u+q":
        t["u"] += q
    elif c == "u-q":
        t["u"] -= q
    elif c == "p=1,q=n":
        t["p"], t["q"] = 1, t["n"]
    elif c == "p=0":
        t["p"] = 0
    elif c == "d=0":
        t["d"] = 0
    elif c == "e=1,d=1":
        t["e"], t["d"] = 1, 1
    elif c == "d negative":
        t["d"] = -t["d"]
    elif c == "n negative":
        t["n"] = -t["n"]
    elif c == "file dp+1":
        t["dp"] += 1
    elif c == "file qi+1":
        t["qi"] += 1
    else:
        raise ValueError("unknown RSA corruption %r" % c)
    return t


def rsa_w(n, e, d, p, q, u, deep):
    """witnesses for the private tuple (any of them may be out of range: then the relation is not asked for)"""
    w = {"fp": fac_w(p), "fq": fac_w(q), "mrp": mr_w(p, deep), "mrq": mr_w(q, deep), "gcd": NOGCD, "k": [], "ku": []}
    if p > 1 and q > 1:
        w["gcd"] = gcd_w(p - 1, q - 1)
        lcm = (p - 1) * (q - 1) // math.gcd(p - 1, q - 1)
        if e >= 0 and d >= 0:
            w["k"] = limbs(e * d // lcm)
        if u is not None and u >= 0:
            w["ku"] = limbs(p * u // q)
    return w


NOKEY_RSA = {"priv": False, "n": [], "e": [], "d": [], "p": [], "q": [], "u": [], "dp": [], "dq": [], "invq": []}
NOKW_RSA = {"fp": [], "fq": [], "mrp": NOMR, "mrq": NOMR, "gcd": NOGCD, "k": [], "ku": [], "kdp": [], "kdq": [], "kinv": []}


def rsa_key_record(key, deep):
    if key is None:
        return NOKEY_RSA, NOKW_RSA
    if not key.has_private():
        return dict(NOKEY_RSA, n=nat(key.n), e=nat(key.e)), NOKW_RSA
    n, e, d, p, q, u, dp, dq, iq = key.n, key.e, key.d, key.p, key.q, key.u, key.dp, key.dq, key.invq
    rec = {"priv": True, "n": nat(n), "e": nat(e), "d": nat(d), "p": nat(p), "q": nat(q), "u": nat(u), "dp": nat(dp), "dq": nat(dq), "invq": nat(iq)}
    kw = rsa_w(n, e, d, p, q, u, deep)
    ok = p > 1 and q > 1 and d >= 0 and iq >= 0
    kw.update({"kdp": limbs(d // (p - 1)) if ok else [], "kdq": limbs(d // (q - 1)) if ok else [], "kinv": limbs(iq * q // p) if ok else []})
    return rec, kw


def rsa_case(item, deep):
    t = rsa_base(item["kid"])
    for c in item["corr"]:
        t = rsa_corr(c, t)
    form, variant = item["form"], item.get("variant", "der")
    n, e, d, p, q, u = (t[k] for k in "nedpqu")
    has = {"d": False, "pq": False, "u": False, "crt": False}
    call = None
    if form.startswith("construct:"):
        comps = form.split(":")[1]
        tup = tuple(t[k] for k in comps)
        has = {"d": "d" in comps, "pq": "p" in comps, "u": "u" in comps, "crt": False}
        call = lambda: RSA.construct(tup, consistency_check=True)  # noqa: E731
    elif form in ("import:pkcs1", "import:pkcs8"):
        body = der_seq(*[der_int(v) for v in (0, n, e, d, p, q, t["dp"], t["dq"], t["qi"])])
        has = {"d": True, "pq": True, "u": False, "crt": True}
        if form == "import:pkcs8":
            body = pkcs8(RSA_OID, DER_NULL, body)
        enc = body if variant == "der" else pem(body, "RSA PRIVATE KEY" if form == "import:pkcs1" else "PRIVATE KEY")
        call = lambda: RSA.import_key(enc)  # noqa: E731
    elif form in ("import:pkcs1pub", "import:spki"):
        body = der_seq(der_int(n), der_int(e))
        if form == "import:spki":
            body = spki(RSA_OID, DER_NULL, body)
        enc = body if variant == "der" else pem(body, "RSA PUBLIC KEY" if form == "import:pkcs1pub" else "PUBLIC KEY")
        call = lambda: RSA.import_key(enc)  # noqa: E731
    elif form == "import:openssh":
        if n < 0 or e < 0:
            return None
        enc = b"ssh-rsa " + base64.b64encode(ssh_str(b"ssh-rsa") + ssh_mpint(e) + ssh_mpint(n)) + b" comment"
        call = lambda: RSA.import_key(enc)  # noqa: E731
    else:
        raise ValueError(form)
    key, exc = attempt(call)
    uu = u if has["u"] else None
    if has["pq"]:
        w = rsa_w(n, e, d, p, q, uu, False)
        wp, wq = p, q
    else:
        wp, wq = KNOWN_N.get(n, (0, 0))
        w = rsa_w(n, e, d, wp, wq, None, False) if has["d"] else rsa_w(0, 0, 0, 0, 0, None, False)
    w["wp"], w["wq"] = nat(wp), nat(wq)
    w["gne"] = gcd_w(n, e)                         # gcd(n, e): the library refuses a public exponent that shares a factor with the modulus
    ok = has["crt"] and p > 1 and q > 1 and d >= 0 and t["qi"] >= 0
    w.update({"kdp": limbs(d // (p - 1)) if ok else [], "kdq": limbs(d // (q - 1)) if ok else [], "kinv": limbs(t["qi"] * q // p) if ok else []})
    rec, kw = rsa_key_record(key, deep)
    bits = max(abs(n).bit_length(), 64)
    return {"fam": "rsa", "api": "construct" if form.startswith("construct") else "import_key", "form": form, "variant": variant, "kid": item["kid"],
            "corr": item["corr"], "cls": item.get("cls", ""), "mwhy": item.get("why", ""), "deep": bool(deep), "has": has,
            "off": {"n": sn(n), "e": sn(e), "d": sn(d), "p": sn(p), "q": sn(q), "u": sn(u), "dp": sn(t["dp"]), "dq": sn(t["dq"]), "qi": sn(t["qi"])},
            "w": w, "exc": exc, "key": rec, "kw": kw,
            "cost": 20 + (bits // 64) ** 2 // 4 + (int(bits * (bits // 48) ** 2 / 40) if deep and key is not None and key.has_private() else 0)}


# ------------------------------------------------------------------------------------------ DSA
DSA_OID = "1.2.840.10040.4.1"
_dsa_cache = {}


def dsa_base(kid):
    if kid not in _dsa_cache:
        r = random.Random("c05/dsa-base/%s" % kid)
        if kid == "toy":                           # a domain small enough for exact primality in the judge: p = 2 * 3 * q + 1
            q = 100003
            k = 2
            while not is_probable_prime(k * q + 1):
                k += 2
            p = k * q + 1
            g = pow(2, (p - 1) // q, p)
        else:
            p, q, g = {"d512": DSA512, "d1024": DSA1024, "d2048": DSA2048}[kid]
        x = r.randrange(2, q - 1)
        _dsa_cache[kid] = {"p": p, "q": q, "g": g, "y": pow(g, x, p), "x": x}
    return dict(_dsa_cache[kid])


def other_prime(t):
    """a prime of the size of q that does not divide p - 1"""
    c = t["q"] + 2 if t["q"] % 2 else t["q"] + 1          # (q is even after "q:=2q")
    while not is_probable_prime(c) or (t["p"] - 1) % c == 0:
        c += 2
    return c


# a DSA domain in which only the primality of p fails: p = p1 p2 with p1 = p2 = 1 mod q (both prime), g of order q modulo p (found at
# authoring time with Python integers; the judge gets the factorisation as the compositeness witness and certifies g^q = 1 itself)
DSA_COMPOSITE_P = (0xa37a97ea5f6aee9775c79974abf70ca03610191c56f19ffbf2af2b31433c9c49e91b304cb8494a2e8432de9cb25f9fa8f54fce67b959be3382b4adfc9ae3e499,
                   0xa42b7ab56fc457f6baf80cbeb3de7759b9cd610d68b306493038d4e3d69630e674dff59fe7894fbb9c579e6afdd3313fa4558d7cd50a5d2eab151992d42c4ae7,
                   0xc7dc3c4d919548376722ac24917776740a962275,
                   0x42e54de1e7015b44a944f6c83ae682221844f3f6d573203bd6b86988fa7315a74393ef92d2372f555eb15c0e0ada123506e07b1bcce6e43b9ed98a4a2c3a58cceab1c94dd5add3d3875f437ac63d60010aec4ec899cb18cfa0dd5dc0eaa1dcff5b8b74f49465e441f74392817c1a01d863aab6f0ad9f6a4cd62df0acb5d91c87)


def dsa_corr(c, t):
    t = dict(t)
    p, q = t["p"], t["q"]
    if c == "p composite,consistent":
        p1, p2, q2, g2 = DSA_COMPOSITE_P
        x = abs(t["x"]) % (q2 - 2) + 1
        FACTORS[p1 * p2] = (p1, p2)
        return {"p": p1 * p2, "q": q2, "g": g2, "x": x, "y": pow(g2, x, p1 * p2)}
    if c == "y+p":
        t["y"] += p
    elif c == "y=0":
        t["y"] = 0
    elif c == "g=1":
        t["g"] = 1
    elif c == "g=p-1":
        t["g"] = p - 1
    elif c == "g+p":
        t["g"] += p
    elif c == "x+q":
        t["x"] += q
    elif c == "x+1":
        t["x"] += 1
    elif c == "y+1":
        t["y"] += 1
    elif c == "q:=other prime":
        t["q"] = other_prime(t) if q > 2 and p > 2 else q + 2
    elif c == "p+2q":                              # keeps q | p - 1; the smallest such number that is composite
        cand = None
        for k in range(1, 60):
            v = p + 2 * q * k
            f = next((f for f in SMALL[1:] + [101, 103, 107, 109, 113, 127, 131, 137, 139, 149, 151, 157, 163, 167, 173] if v > f and v % f == 0), None)
            if f:
                cand = v
                FACTORS[v] = (f, v // f)
                break
        if cand is None:
            return None                            # no cheap compositeness witness: the case is not concretised with this key
        t["p"] = cand
    elif c == "q:=2q":
        t["q"] = 2 * q
        FACTORS[t["q"]] = (2, q)
    elif c == "p=0":
        t["p"] = 0
    elif c == "q=0":
        t["q"] = 0
    elif c == "x=0":
        t["x"] = 0
    elif c == "x negative":
        t["x"] = -t["x"]
    elif c == "x=q-1,y":
        if p > 1 and q > 1 and t["g"] > 0:
            t["x"], t["y"] = q - 1, pow(t["g"], q - 1, p)
    else:
        raise ValueError("unknown DSA corruption %r" % c)
    return t


def dsa_w(p, q, g, y, x, hasx, deep):
    w = {"fp": fac_w(p), "fq": fac_w(q), "mrp": mr_w(p, deep), "mrq": mr_w(q, deep), "kq": [], "cq": [], "cx": []}
    if p > 1 and q > 1:
        w["kq"] = limbs((p - 1) // q)
        if 1 < g < p:
            w["cq"] = pow_chain(g, q, p)
            if hasx and 0 < x < q:
                w["cx"] = pow_chain(g, x, p)
    return w


NOKEY_DSA = {"priv": False, "p": [], "q": [], "g": [], "y": [], "x": []}
NOKW_DSA = {"fp": [], "fq": [], "mrp": NOMR, "mrq": NOMR}


def dsa_case(item, deep):
    t = dsa_base(item["kid"])
    for c in item["corr"]:
        t = dsa_corr(c, t)
        if t is None:
            return None
    form, variant = item["form"], item.get("variant", "der")
    p, q, g, y, x = (t[k] for k in "pqgyx")
    hasx = form in ("construct:priv", "import:openssl", "import:pkcs8")
    derived_y = False
    if form == "construct:pub":
        call = lambda: DSA.construct((y, g, p, q), consistency_check=True)  # noqa: E731
    elif form == "construct:priv":
        call = lambda: DSA.construct((y, g, p, q, x), consistency_check=True)  # noqa: E731
    elif form == "import:openssl":
        body = der_seq(*[der_int(v) for v in (0, p, q, g, y, x)])
        enc = body if variant == "der" else pem(body, "DSA PRIVATE KEY")
        call = lambda: DSA.import_key(enc)  # noqa: E731
    elif form == "import:pkcs8":
        body = pkcs8(DSA_OID, der_seq(der_int(p), der_int(q), der_int(g)), der_int(x))
        enc = body if variant == "der" else pem(body, "PRIVATE KEY")
        call = lambda: DSA.import_key(enc)  # noqa: E731
        derived_y = True                           # the structure carries no y: it is g^x mod p by definition
        if p >= 1 and x >= 0:
            y = pow(g, x, p)
    elif form == "import:spki":
        body = spki(DSA_OID, der_seq(der_int(p), der_int(q), der_int(g)), der_int(y))
        enc = body if variant == "der" else pem(body, "PUBLIC KEY")
        call = lambda: DSA.import_key(enc)  # noqa: E731
    elif form == "import:openssh":
        if min(p, q, g, y) < 0:
            return None
        enc = b"ssh-dss " + base64.b64encode(ssh_str(b"ssh-dss") + ssh_mpint(p) + ssh_mpint(q) + ssh_mpint(g) + ssh_mpint(y)) + b" comment"
        call = lambda: DSA.import_key(enc)  # noqa: E731
    else:
        raise ValueError(form)
    key, exc = attempt(call)
    if key is None:
        rec, kw = NOKEY_DSA, NOKW_DSA
    else:
        kp, kq_, kg, ky = int(key.p), int(key.q), int(key.g), int(key.y)
        kx = int(key.x) if key.has_private() else 0
        rec = {"priv": bool(key.has_private()), "p": nat(kp), "q": nat(kq_), "g": nat(kg), "y": nat(ky), "x": nat(kx)}
        kw = {"fp": fac_w(kp), "fq": fac_w(kq_), "mrp": mr_w(kp, deep), "mrq": mr_w(kq_, deep)}      # relations: the components are the offered ones
    bits = max(abs(p).bit_length(), 64)
    links = (abs(q).bit_length() * 3 // 2) * (2 if hasx else 1)
    return {"fam": "dsa", "api": "construct" if form.startswith("construct") else "import_key", "form": form, "variant": variant, "kid": item["kid"],
            "corr": item["corr"], "cls": item.get("cls", ""), "mwhy": item.get("why", ""), "deep": bool(deep), "hasx": hasx, "derivedy": derived_y,
            "off": {"p": sn(p), "q": sn(q), "g": sn(g), "y": sn(y), "x": sn(x)}, "w": dsa_w(p, q, g, y, x, hasx, False), "exc": exc, "key": rec, "kw": kw,
            "cost": 20 + links * (bits // 100) ** 2 // 20}


# ------------------------------------------------------------------------------------------ ElGamal
_eg_cache = {}


def eg_base(kid):
    if kid not in _eg_cache:
        r = random.Random("c05/eg-base/%s" % kid)
        p = {"eg256": EG256, "eg128": EG128}[kid][0]
        g = pow(r.randrange(3, p - 2), 2, p)          # a square: order (p - 1) / 2
        x = r.randrange(2, p - 2)
        _eg_cache[kid] = {"p": p, "g": g, "y": pow(g, x, p), "x": x}
    return dict(_eg_cache[kid])


def eg_corr(c, t):
    t = dict(t)
    p = t["p"]
    if c == "y+p":
        t["y"] += p
    elif c == "y=0":
        t["y"] = 0
    elif c == "g=1":
        t["g"] = 1
    elif c == "g=p-1,y":
        t["g"] = p - 1
        if p > 1 and t["x"] >= 0:
            t["y"] = pow(p - 1, t["x"], p)
    elif c == "g+p":
        t["g"] += p
    elif c == "x=p-1,y":
        t["x"], t["y"] = p - 1, 1
    elif c == "x=1,y":
        t["x"], t["y"] = 1, t["g"]
    elif c == "x+1":
        t["x"] += 1
    elif c == "y+1":
        t["y"] += 1
    elif c == "x+(p-1)":
        t["x"] += p - 1
    elif c == "p+4":                               # the next composite p + 4 k with an exhibited factor
        k = 1
        while True:
            cand = p + 4 * k
            f = next((f for f in SMALL[1:] + [101, 103, 107, 109, 113] if cand > f and cand % f == 0), None)
            if f:
                break
            k += 1
        FACTORS[cand] = (f, cand // f)
        t["p"] = cand
    elif c == "p=0":
        t["p"] = 0
    elif c == "x negative":
        t["x"] = -t["x"]
    elif c == "x=0":
        t["x"] = 0
    else:
        raise ValueError("unknown ElGamal corruption %r" % c)
    return t


def eg_w(p, g, y, x, hasx, deep):
    w = {"fp": fac_w(p), "mrp": mr_w(p, deep), "cx": []}
    if p > 3 and 1 < g < p - 1 and hasx and 1 < x < p - 1:
        w["cx"] = pow_chain(g, x, p)
    return w


NOKEY_EG = {"priv": False, "p": [], "g": [], "y": [], "x": []}
NOKW_EG = {"fp": [], "mrp": NOMR}


def eg_case(item, deep):
    t = eg_base(item["kid"])
    for c in item["corr"]:
        t = eg_corr(c, t)
    p, g, y, x = (t[k] for k in "pgyx")
    hasx = item["form"] == "construct:priv"
    key, exc = attempt(lambda: ElGamal.construct((p, g, y, x) if hasx else (p, g, y)))
    if key is None:
        rec, kw = NOKEY_EG, NOKW_EG
    else:
        kp, kg, ky = int(key.p), int(key.g), int(key.y)
        kx = int(key.x) if key.has_private() else 0
        rec = {"priv": bool(key.has_private()), "p": nat(kp), "g": nat(kg), "y": nat(ky), "x": nat(kx)}
        kw = {"fp": fac_w(kp), "mrp": mr_w(kp, deep)}
    return {"fam": "elgamal", "api": "construct", "form": item["form"], "variant": "", "kid": item["kid"], "corr": item["corr"], "cls": item.get("cls", ""),
            "mwhy": item.get("why", ""), "deep": bool(deep), "hasx": hasx, "off": {"p": sn(p), "g": sn(g), "y": sn(y), "x": sn(x)},
            "w": eg_w(p, g, y, x, hasx, False), "exc": exc, "key": rec, "kw": kw, "cost": 20 + (400 if hasx else 0) // (2 if item["kid"] == "eg128" else 1)}


# ------------------------------------------------------------------------------------------ elliptic curves
LIBNAME = {"P-192": "p192", "P-224": "p224", "P-256": "p256", "P-384": "p384", "P-521": "p521", "Ed25519": "ed25519", "Ed448": "ed448",
           "Curve25519": "curve25519", "Curve448": "curve448"}
KIND = {"P-192": "ws", "P-224": "ws", "P-256": "ws", "P-384": "ws", "P-521": "ws", "Ed25519": "ed", "Ed448": "ed", "Curve25519": "mt", "Curve448": "mt"}
CURVE_OID = {"P-192": "1.2.840.10045.3.1.1", "P-224": "1.3.132.0.33", "P-256": "1.2.840.10045.3.1.7", "P-384": "1.3.132.0.34", "P-521": "1.3.132.0.35",
             "Ed25519": "1.3.101.112", "Ed448": "1.3.101.113", "Curve25519": "1.3.101.110", "Curve448": "1.3.101.111"}
OTHER_CURVE = {"P-192": "P-224", "P-224": "P-256", "P-256": "P-384", "P-384": "P-521", "P-521": "P-256"}
SSH_NAME = {"P-256": b"nistp256", "P-384": b"nistp384", "P-521": b"nistp521"}
EC_PUB_OID = "1.2.840.10045.2.1"
X25519_ORD8 = 325606250916557431795983626356110631294008115727848805560023387167927233504


class Cv(object):
    def __init__(self, name):
        c = ECC._curves[LIBNAME[name]]
        self.name, self.lib, self.kind = name, LIBNAME[name], KIND[name]
        self.p, self.n = int(c.p), int(c.order)
        self.bytes = (self.p.bit_length() + 7) // 8
        if self.kind == "ws":
            self.a, self.b, self.G = self.p - 3, int(c.b), (int(c.Gx), int(c.Gy))
        elif self.kind == "ed":
            self.aneg = name == "Ed25519"
            self.d = (-121665 * pow(121666, -1, self.p)) % self.p if self.aneg else self.p - 39081
            self.G = (int(c.Gx), int(c.Gy))
            self.seedlen = 32 if self.aneg else 57
        else:
            self.Gu = int(c.Gx)
            self.seedlen = self.bytes


_cvs = {}


def curve(name):
    if name not in _cvs:
        _cvs[name] = Cv(name)
    return _cvs[name]


NOW = {"l": [], "q0": [], "q1": [], "q2": [], "q3": []}
NOCW = {"q1": [], "q2": []}


def ws_add(cv, P, Q):
    """P + Q in affine coordinates ((0, 0) = the point at infinity) with the untrusted witness of ECGroup!EcSum"""
    p = cv.p
    if P == (0, 0):
        return Q, NOW
    if Q == (0, 0):
        return P, NOW
    if P[0] == Q[0]:
        if (P[1] + Q[1]) % p == 0:
            return (0, 0), NOW
        num = 3 * P[0] * P[0] + cv.a
        lam = num * pow(2 * P[1], -1, p) % p
        q0, q1 = num // p, (2 * P[1] * lam) // p
        x3e = lam * lam + 2 * (p - P[0])
    else:
        dx = (Q[0] - P[0]) % p
        lam = (Q[1] - P[1]) * pow(dx, -1, p) % p
        q0, q1 = 0, (dx * lam) // p
        x3e = lam * lam + (p - P[0]) + (p - Q[0])
    x3 = x3e % p
    y3e = lam * ((P[0] - x3) % p) + p - P[1]
    R = (x3, y3e % p)
    if cv.name == "P-521":            # the judge folds modulo 2^521 - 1 and ignores quotients
        return R, {"l": limbs(lam), "q0": [], "q1": [], "q2": [], "q3": []}
    return R, {"l": limbs(lam), "q0": limbs(q0), "q1": limbs(q1), "q2": limbs(x3e // p), "q3": limbs(y3e // p)}


def ed_add(cv, P, Q):
    p = cv.p
    a = -1 if cv.aneg else 1
    t = cv.d * P[0] * Q[0] * P[1] * Q[1] % p
    return ((P[0] * Q[1] + Q[0] * P[1]) * pow(1 + t, -1, p) % p, (P[1] * Q[1] - a * P[0] * Q[0]) * pow(1 - t, -1, p) % p), NOW


def pt(P):
    return {"x": limbs(P[0]), "y": limbs(P[1])}


def mul_links(cv, k):
    """(k * G, links) by double-and-add from the top bit: the chain ECGroup!EcMulLinks walks"""
    add = ws_add if cv.kind == "ws" else ed_add
    G = cv.G
    if k <= 0:
        return ((0, 0) if cv.kind == "ws" else (0, 1)), []
    acc, links = G, []
    for i in range(k.bit_length() - 2, -1, -1):
        acc, w = add(cv, acc, acc)
        links.append({"r": pt(acc), "w": w})
        if (k >> i) & 1:
            acc, w = add(cv, acc, G)
            links.append({"r": pt(acc), "w": w})
    return acc, links


def oncurve_w(cv, P):
    if cv.kind != "ws" or cv.name == "P-521" or min(P) < 0:
        return NOCW
    return {"q1": limbs(P[1] * P[1] // cv.p), "q2": limbs((P[0] ** 3 + cv.a * P[0] + cv.b) // cv.p)}


def ws_on(cv, P):
    return 0 <= P[0] < cv.p and 0 <= P[1] < cv.p and (P[1] * P[1] - (P[0] ** 3 + cv.a * P[0] + cv.b)) % cv.p == 0 and P != (0, 0)


def ed_on(cv, P):
    a = -1 if cv.aneg else 1
    return 0 <= P[0] < cv.p and 0 <= P[1] < cv.p and (a * P[0] * P[0] + P[1] * P[1] - 1 - cv.d * P[0] * P[0] * P[1] * P[1]) % cv.p == 0


def ed_scalar(cv, seed):
    if cv.aneg:
        h = bytearray(hashlib.sha512(seed).digest()[:32])
        h[0] &= 248
        h[31] = (h[31] & 127) | 64
    else:
        h = bytearray(hashlib.shake_256(seed).digest(114)[:57])
        h[0] &= 252
        h[55] |= 128
        h[56] = 0
    return int.from_bytes(h, "little")


def mt_scalar(cv, seed):
    h = bytearray(seed)
    if cv.name == "Curve25519":
        h[0] &= 248
        h[31] = (h[31] & 127) | 64
    else:
        h[0] &= 252
        h[55] |= 128
    return int.from_bytes(h, "little")


_ec_cache = {}


def ec_base(kid):
    """kid = "<curve>/<short|full>/<index>": a deterministic key pair"""
    if kid in _ec_cache:
        return dict(_ec_cache[kid])
    name, size, idx = kid.split("/")
    cv = curve(name)
    r = random.Random("%d/c05/ec-base/%s" % (SEED, kid))
    if cv.kind == "ws" and size == "tiny":
        # the point with the smallest abscissa (public forms only; its discrete logarithm is not known): x + p still fits the coordinate width
        x = 0
        while True:
            y = sqrt_mod((x ** 3 + cv.a * x + cv.b) % cv.p, cv.p)
            if y is not None and y != 0:
                break
            x += 1
        t = {"c": name, "enc": name, "d": 0, "x": x, "y": y}
    elif cv.kind == "ws":
        d = 1 if size == "one" else (r.getrandbits(12) | (1 << 11)) if size == "short" else r.randrange(1 << (cv.n.bit_length() - 2), cv.n)
        Q, _ = mul_links(cv, d)
        t = {"c": name, "enc": name, "d": d, "x": Q[0], "y": Q[1]}
    elif cv.kind == "ed":
        seed = bytes(r.getrandbits(8) for _ in range(cv.seedlen))
        Q, _ = mul_links(cv, ed_scalar(cv, seed))
        t = {"c": name, "seed": seed, "x": Q[0], "y": Q[1]}
    else:
        seed = bytes(r.getrandbits(8) for _ in range(cv.seedlen))
        t = {"c": name, "seed": seed, "u": int(ECC.EccKey(curve=cv.lib, seed=seed).pointQ.x)}
    _ec_cache[kid] = t
    return dict(t)


def ws_corr(c, t, r):
    t = dict(t)
    cv = curve(t["c"])
    p, n = cv.p, cv.n
    if c == "y+1":
        t["y"] = (t["y"] + 1) % p
    elif c == "x+p":
        t["x"] += p
    elif c == "y+p":
        t["y"] += p
    elif c == "neutral":
        t["x"], t["y"] = 0, 0
    elif c == "d=0":
        t["d"] = 0
    elif c == "d=n":
        t["d"] = n
    elif c == "d=n+1":
        t["d"] = n + 1
    elif c == "d+1":
        t["d"] += 1
    elif c == "Q:=2Q":
        if ws_on(cv, (t["x"], t["y"])):
            (t["x"], t["y"]), _ = ws_add(cv, (t["x"], t["y"]), (t["x"], t["y"]))
    elif c == "-Q":
        t["y"] = (p - t["y"] % p) % p
    elif c == "wrong curve":                       # an involution, as between the two curves of the model
        t["c"] = OTHER_CURVE[t["c"]] if t["c"] == t["enc"] else t["enc"]
    elif c == "d negative":
        t["d"] = -t["d"]
    elif c == "d=n-1,Q":
        t["d"], t["x"], t["y"] = n - 1, cv.G[0], p - cv.G[1]
    elif c == "(0,sqrt b)":
        y = sqrt_mod(cv.b, p)
        if y is None:
            return None                           # b is not a square: no point with x = 0 on this curve
        t["x"], t["y"] = 0, y
    else:
        raise ValueError("unknown Weierstrass corruption %r" % c)
    return t


def sec1_point(t, blen, compressed=False):
    if min(t["x"], t["y"]) < 0 or t["x"] >= 256 ** blen or (not compressed and t["y"] >= 256 ** blen):
        return None
    if compressed:
        return bytes([2 + (t["y"] & 1)]) + t["x"].to_bytes(blen, "big")
    return b"\x04" + t["x"].to_bytes(blen, "big") + t["y"].to_bytes(blen, "big")


NOKEY_EC = {"priv": False, "d": [], "seed": [], "x": [], "y": []}
NOROOT = {"y": [], "x": [], "q1": [], "q2": [], "qs": []}


def ec_key_record(cv, key):
    if key is None:
        return NOKEY_EC, NOCW
    priv = bool(key.has_private())
    Q = key.pointQ
    x = int(Q.x)
    y = int(Q.y) if cv.kind != "mt" else 0
    rec = {"priv": priv, "d": nat(int(key.d)) if priv else [], "seed": list(key.seed) if priv and cv.kind != "ws" else [], "x": nat(x), "y": nat(y)}
    return rec, oncurve_w(cv, (x, y))


def ws_case(item, deep):
    r = random.Random("%d/c05/ws/%s" % (SEED, item["cid"]))
    t = ec_base(item["kid"])
    for c in item["corr"]:
        t = ws_corr(c, t, r)
        if t is None:
            return None
    form, variant = item["form"], item.get("variant", "der")
    cv, ecv = curve(t["c"]), curve(t["enc"])
    d, x, y = t["d"], t["x"], t["y"]
    hasd = form in ("construct:d", "construct:dQ", "import:sec1", "import:sec1Q", "import:pkcs8", "import:pkcs8Q")
    hasq = form not in ("construct:d", "import:sec1", "import:pkcs8")
    enc_kind, elen = "xy", cv.bytes
    if form == "construct:pub":
        call = lambda: ECC.construct(curve=cv.lib, point_x=x, point_y=y)  # noqa: E731
    elif form == "construct:d":
        call = lambda: ECC.construct(curve=cv.lib, d=d)  # noqa: E731
    elif form == "construct:dQ":
        call = lambda: ECC.construct(curve=cv.lib, d=d, point_x=x, point_y=y)  # noqa: E731
    else:
        elen = ecv.bytes                          # field lengths of the curve the tuple was encoded for; name / OID of the (possibly wrong) curve
        point = sec1_point(t, elen, compressed=form == "import:spki-compressed") if hasq else b""
        if point is None or (hasd and not 0 <= d < 256 ** elen):
            return None                           # not expressible in the format
        oid = der_oid(CURVE_OID[cv.name])
        if form in ("import:spki", "import:spki-compressed"):
            body, marker = spki(EC_PUB_OID, oid, point), "PUBLIC KEY"
            enc_kind = "compressed" if form == "import:spki-compressed" else "xy"
        elif form in ("import:sec1", "import:sec1Q"):
            body = der_seq(der_int(1), der_octets(d.to_bytes(elen, "big")), der(0xA0, oid), *([der(0xA1, der_bits(point))] if hasq else []))
            marker = "EC PRIVATE KEY"
        elif form in ("import:pkcs8", "import:pkcs8Q"):
            inner = der_seq(der_int(1), der_octets(d.to_bytes(elen, "big")), *([der(0xA1, der_bits(point))] if hasq else []))
            body, marker = pkcs8(EC_PUB_OID, oid, inner), "PRIVATE KEY"
        elif form == "import:openssh":
            if cv.name not in SSH_NAME:
                return None
            nm = b"ecdsa-sha2-" + SSH_NAME[cv.name]
            body, marker = nm + b" " + base64.b64encode(ssh_str(nm) + ssh_str(SSH_NAME[cv.name]) + ssh_str(point)) + b" comment", None
        elif form == "import:raw":
            body, marker = point, None
        else:
            raise ValueError(form)
        enc = body if (variant == "der" or marker is None) else pem(body, marker)
        call = (lambda: ECC.import_key(enc, curve_name=cv.lib)) if form == "import:raw" else (lambda: ECC.import_key(enc))
    key, exc = attempt(call)
    root = dict(NOROOT)
    Qv = (x, y)
    if enc_kind == "compressed" and 0 <= x < cv.p:
        rhs = (x ** 3 + cv.a * x + cv.b) % cv.p
        yr = sqrt_mod(rhs, cv.p)
        root["q2"] = limbs((x ** 3 + cv.a * x + cv.b) // cv.p) if cv.name != "P-521" else []
        if yr is None:
            root["qs"] = jacobi_quotients(rhs, cv.p)
        else:
            if yr & 1 != y & 1:
                yr = cv.p - yr
            root["y"], root["q1"] = limbs(yr), (limbs(yr * yr // cv.p) if cv.name != "P-521" else [])
            Qv = (x, yr)
    rec, kcw = ec_key_record(cv, key)
    links = []
    if hasd and 1 <= d < cv.n and (key is not None or (hasq and ws_on(cv, Qv))):
        _, links = mul_links(cv, d)
    return {"fam": "ec", "kind": "ws", "api": "construct" if form.startswith("construct") else "import_key", "form": form, "variant": variant, "kid": item["kid"],
            "corr": item["corr"], "cls": item.get("cls", ""), "mwhy": item.get("why", ""), "curve": cv.name, "elen": elen, "hasd": hasd, "hasq": hasq,
            "hasseed": False, "seed": [], "enc": enc_kind,
            "off": {"d": sn(d), "x": sn(x), "y": sn(y)}, "par": y & 1 if y >= 0 else 0, "junk": 0, "root": root, "wq": oncurve_w(cv, Qv), "links": links,
            "exc": exc, "key": rec, "kwq": kcw, "cost": 30 + len(links) * (cv.p.bit_length() // 16) // 2}


# ------------------------------------------------------------------------------------------ Edwards curves
def ed_order4(cv):
    """a point of order 4: (1, 0) where a = 1 (Ed448), (sqrt(-1), 0) where a = -1 (Ed25519)"""
    return (sqrt_mod(cv.p - 1, cv.p), 0) if cv.aneg else (1, 0)


def ed_corr(c, t, r):
    t = dict(t)
    cv = curve(t["c"])
    p = cv.p
    if c == "y+1":
        t["y"] = (t["y"] + 1) % p
    elif c == "x+p":
        t["x"] += p
    elif c == "y+p":
        t["y"] += p
    elif c == "neutral":
        t["x"], t["y"] = 0, 1
    elif c == "order 2":
        t["x"], t["y"] = 0, p - 1
    elif c == "order 4":
        t["x"], t["y"] = ed_order4(cv)
    elif c == "other seed":
        if len(t["seed"]) == cv.seedlen:
            old = t["seed"]
            while t["seed"] == old:
                t["seed"] = bytes(r.getrandbits(8) for _ in range(cv.seedlen))
    elif c == "Q:=2Q":
        if ed_on(cv, (t["x"], t["y"])):
            (t["x"], t["y"]), _ = ed_add(cv, (t["x"], t["y"]), (t["x"], t["y"]))
    elif c == "-Q":
        t["x"] = (p - t["x"] % p) % p
    elif c == "seed short":
        t["seed"] = (t["seed"] + b"\x00")[:cv.seedlen - 1]
    elif c == "seed long":
        t["seed"] = (t["seed"] + b"\x00\x00")[:cv.seedlen + 1]
    elif c == "(0,p+1)":
        t["x"], t["y"] = 0, p + 1
    elif c == "(1,1)":
        t["x"], t["y"] = 1, 1
    else:
        raise ValueError("unknown Edwards corruption %r" % c)
    return t


def ed_encode(cv, x, y):
    """RFC 8032 5.1.2 / 5.2.2: (encoding, the ordinate the decoder reads, sign bit, the unused bits of the last octet) or None when y does not
    fit.  Ed25519: y in 255 bits, the sign in bit 255.  Ed448: y in 56 octets, a 57th octet with the sign in its top bit; ordinates of up to
    455 bits are expressed by setting the seven unused bits (junk)."""
    if x < 0 or y < 0:
        return None
    sign = x & 1
    if cv.aneg:
        if y >= 1 << 255:
            return None
        return (y | (sign << 255)).to_bytes(32, "little"), y, sign, 0
    junk = y >> 448
    if junk >= 128:
        return None
    ylow = y & ((1 << 448) - 1)
    return ylow.to_bytes(56, "little") + bytes([(sign << 7) | junk]), ylow, sign, junk


def ed_root_w(cv, y, sign):
    """untrusted witness of KeyInvariants!KiEdDecode: the root with that sign, or the Jacobi quotients of (y^2 - 1)(d y^2 - a); and the decoded x"""
    p = cv.p
    root = dict(NOROOT)
    if not 0 <= y < p:
        return root, None
    a = -1 if cv.aneg else 1
    u = (y * y - 1) % p
    v = (cv.d * y * y - a) % p
    if u == 0:
        return root, (0 if sign == 0 else None)
    xr = sqrt_mod(u * pow(v, -1, p) % p, p)
    if xr is None:
        root["qs"] = jacobi_quotients(u * v % p, p)
        return root, None
    if xr & 1 != sign:
        xr = p - xr
    root["x"] = limbs(xr)
    return root, xr


def ed_case(item, deep):
    r = random.Random("%d/c05/ed/%s" % (SEED, item["cid"]))
    t = ec_base(item["kid"])
    for c in item["corr"]:
        t = ed_corr(c, t, r)
    form, variant = item["form"], item.get("variant", "der")
    cv = curve(t["c"])
    seed, x, y = t["seed"], t["x"], t["y"]
    hasseed = form in ("construct:seed", "construct:seedQ", "import:pkcs8")
    hasq = form not in ("construct:seed", "import:pkcs8")
    enc_kind, par, junk, root, yoff = "xy", (x & 1 if x >= 0 else 0), 0, dict(NOROOT), y
    Qv = (x, y)
    oid = CURVE_OID[cv.name]
    if form == "construct:pub":
        call = lambda: ECC.construct(curve=cv.lib, point_x=x, point_y=y)  # noqa: E731
    elif form == "construct:seed":
        call = lambda: ECC.construct(curve=cv.lib, seed=seed)  # noqa: E731
    elif form == "construct:seedQ":
        call = lambda: ECC.construct(curve=cv.lib, seed=seed, point_x=x, point_y=y)  # noqa: E731
    elif form == "import:pkcs8":
        body = pkcs8(oid, b"", der_octets(seed))
        enc = body if variant == "der" else pem(body, "PRIVATE KEY")
        call = lambda: ECC.import_key(enc)  # noqa: E731
    elif form in ("import:spki", "import:openssh"):
        e = ed_encode(cv, x, y)
        if e is None or (form == "import:openssh" and cv.name != "Ed25519"):
            return None                           # not expressible in the format
        point, yoff, par, junk = e
        enc_kind = "rfc8032"
        if form == "import:spki":
            body = spki(oid, b"", point)
            enc = body if variant == "der" else pem(body, "PUBLIC KEY")
        else:
            enc = b"ssh-ed25519 " + base64.b64encode(ssh_str(b"ssh-ed25519") + ssh_str(point)) + b" comment"
        call = lambda: ECC.import_key(enc)  # noqa: E731
        root, xr = ed_root_w(cv, yoff, par)
        Qv = (xr, yoff) if xr is not None else (-1, -1)
    else:
        raise ValueError(form)
    key, exc = attempt(call)
    rec, kcw = ec_key_record(cv, key)
    links = []
    if hasseed and len(seed) == cv.seedlen and ((not hasq and key is not None) or (hasq and ed_on(cv, Qv))):
        _, links = mul_links(cv, ed_scalar(cv, seed))
    return {"fam": "ec", "kind": "ed", "api": "construct" if form.startswith("construct") else "import_key", "form": form, "variant": variant, "kid": item["kid"],
            "corr": item["corr"], "cls": item.get("cls", ""), "mwhy": item.get("why", ""), "curve": cv.name, "elen": cv.bytes, "hasd": False, "hasq": hasq,
            "hasseed": hasseed, "seed": list(seed) if hasseed else [], "enc": enc_kind,
            "off": {"d": sn(0), "x": sn(x), "y": sn(yoff)}, "par": par, "junk": junk, "root": root, "wq": NOCW, "links": links,
            "exc": exc, "key": rec, "kwq": kcw, "cost": 40 + len(links) * (15 if cv.aneg else 45) + (60 if hasseed else 0)}


# ------------------------------------------------------------------------------------------ Montgomery curves (x only)
def mt_corr(c, t, r):
    t = dict(t)
    cv = curve(t["c"])
    p = cv.p
    if c == "u=0":
        t["u"] = 0
    elif c == "u=1":
        t["u"] = 1
    elif c == "u=p-1":
        t["u"] = p - 1
    elif c == "u=p":
        t["u"] = p
    elif c == "u=p+1":
        t["u"] = p + 1
    elif c == "u=order 8":
        if cv.name == "Curve25519":
            t["u"] = X25519_ORD8
    elif c == "u+p":
        t["u"] += p
    elif c == "u too long":
        t["u"] += 1 << (8 * cv.bytes)
    elif c == "u=p+2":
        t["u"] = p + 2
    elif c == "u=2p-1":
        t["u"] = 2 * p - 1
    elif c == "u=2p":
        t["u"] = 2 * p
    elif c == "u=2p+1":
        t["u"] = 2 * p + 1
    elif c == "other seed":
        if len(t["seed"]) == cv.seedlen:
            old = t["seed"]
            while t["seed"] == old:
                t["seed"] = bytes(r.getrandbits(8) for _ in range(cv.seedlen))
    elif c == "u foreign":
        t["u"] = cv.Gu                           # a valid public value (the base point) that belongs to another private key
    elif c == "seed short":
        t["seed"] = (t["seed"] + b"\x00")[:cv.seedlen - 1]
    elif c == "seed long":
        t["seed"] = (t["seed"] + b"\x00\x00")[:cv.seedlen + 1]
    elif c == "u on twist":
        t["u"] = 2
    else:
        raise ValueError("unknown Montgomery corruption %r" % c)
    return t


def mt_low_order(cv, u):
    """recorder-side copy of the three doublings (only used to decide whether the judge will need the ladder: cost estimate)"""
    p = cv.p
    a24 = 121665 if cv.name == "Curve25519" else 39081
    X, Z = u % p, 1
    for _ in range(3):
        A, B = (X + Z) % p, (X - Z) % p
        AA, BB = A * A % p, B * B % p
        E = (AA - BB) % p
        X, Z = AA * BB % p, E * (AA + a24 * E) % p
    return Z == 0


def mt_case(item, deep):
    r = random.Random("%d/c05/mt/%s" % (SEED, item["cid"]))
    t = ec_base(item["kid"])
    for c in item["corr"]:
        t = mt_corr(c, t, r)
    form, variant = item["form"], item.get("variant", "der")
    cv = curve(t["c"])
    seed, u = t["seed"], t["u"]
    hasseed = form in ("construct:seed", "construct:seedQ", "import:pkcs8")
    hasq = form not in ("construct:seed", "import:pkcs8")
    oid = CURVE_OID[cv.name]
    if form == "construct:pub":
        call = lambda: ECC.construct(curve=cv.lib, point_x=u)  # noqa: E731
    elif form == "construct:seed":
        call = lambda: ECC.construct(curve=cv.lib, seed=seed)  # noqa: E731
    elif form == "construct:seedQ":
        call = lambda: ECC.construct(curve=cv.lib, seed=seed, point_x=u)  # noqa: E731
    elif form == "import:pkcs8":
        body = pkcs8(oid, b"", der_octets(seed))
        enc = body if variant == "der" else pem(body, "PRIVATE KEY")
        call = lambda: ECC.import_key(enc)  # noqa: E731
    elif form == "import:spki":
        # RFC 7748 5: the encoding of a Curve25519 value has 255 significant bits (the top bit is masked by every receiver)
        if not 0 <= u < (1 << (255 if cv.name == "Curve25519" else 448)):
            return None                           # not expressible in the format
        body = spki(oid, b"", u.to_bytes(cv.bytes, "little"))
        enc = body if variant == "der" else pem(body, "PUBLIC KEY")
        call = lambda: ECC.import_key(enc)  # noqa: E731
    else:
        raise ValueError(form)
    key, exc = attempt(call)
    rec, kcw = ec_key_record(cv, key)
    ladder = hasseed and len(seed) == cv.seedlen and ((not hasq and key is not None) or (hasq and 0 <= u < (1 << (8 * cv.bytes)) and not mt_low_order(cv, u)))
    return {"fam": "ec", "kind": "mt", "api": "construct" if form.startswith("construct") else "import_key", "form": form, "variant": variant, "kid": item["kid"],
            "corr": item["corr"], "cls": item.get("cls", ""), "mwhy": item.get("why", ""), "curve": cv.name, "elen": cv.bytes, "hasd": False, "hasq": hasq,
            "hasseed": hasseed, "seed": list(seed) if hasseed else [], "enc": "x",
            "off": {"d": sn(0), "x": sn(u), "y": sn(0)}, "par": 0, "junk": 0, "root": dict(NOROOT), "wq": NOCW, "links": [],
            "exc": exc, "key": rec, "kwq": kcw, "cost": 40 + (cv.p.bit_length() * (25 if cv.name == "Curve25519" else 40) if ladder else 0)}


CASE_FUNCS = {"rsa": rsa_case, "dsa": dsa_case, "elgamal": eg_case, "ws": ws_case, "ed": ed_case, "mt": mt_case}


# ------------------------------------------------------------------------------------------ generate()
def gen_rsa(item, deep):
    bits, e = item["bits"], item.get("e", 65537)
    tape = Tape("gen-rsa/%s" % item["cid"])
    if item.get("tape") == "small-d":               # entropy under which the first two candidates are RSA_SMALLD
        bits, e = 1024, 65537
        tape = ScriptedTape("gen-rsa/%s" % item["cid"], RSA_SMALLD, 64)
    elif item.get("tape") == "close-primes":        # entropy under which the first candidates for p and q are RSA_CLOSE
        bits, e = 1024, 65537
        tape = ScriptedTape("gen-rsa/%s" % item["cid"], RSA_CLOSE, 64)
    key, exc = attempt(lambda: RSA.generate(bits, randfunc=tape, e=e), seconds=300)
    rec, kw = rsa_key_record(key, deep)
    return {"fam": "gen", "what": "rsa", "api": "generate", "bits": bits, "e": sn(e), "deep": bool(deep), "exc": exc, "key": rec, "kw": kw, "tape": tape.used,
            "entropy": item.get("tape", "pseudo-random tape"),
            "cost": 50 + (max(bits, 64) // 64) ** 2 // 2 + (int(bits * (bits // 48) ** 2 / 40) if deep and key is not None else 0)}


def gen_dsa(item, deep):
    bits = item["bits"]
    tape = Tape("gen-dsa/%s" % item["cid"])
    hasdom = item["what"] == "dsa-domain"
    dom = {"p": 0, "q": 0, "g": 0}
    domw = dsa_w(0, 0, 0, 0, 0, False, False)
    if hasdom:
        t = dsa_base(item["kid"])
        for c in item.get("corr", []):
            t = dsa_corr(c, t)
            if t is None:
                return None
        dom = {k: t[k] for k in "pqg"}
        domw = dsa_w(t["p"], t["q"], t["g"], 1, 0, False, False)
        if item.get("tape") and t["q"] > 2:
            tape = PrefixTape("gen-dsa/%s" % item["cid"], boundary_prefix(item["tape"], t["q"]))
        call = lambda: DSA.generate(bits, randfunc=tape, domain=(dom["p"], dom["q"], dom["g"]))  # noqa: E731
    else:
        call = lambda: DSA.generate(bits, randfunc=tape)  # noqa: E731
    key, exc = attempt(call, seconds=600)
    if key is None:
        rec, kw = NOKEY_DSA, dsa_w(0, 0, 0, 0, 0, False, False)
        links = 0
    else:
        kp, kq_, kg, ky = int(key.p), int(key.q), int(key.g), int(key.y)
        kx = int(key.x) if key.has_private() else 0
        rec = {"priv": bool(key.has_private()), "p": nat(kp), "q": nat(kq_), "g": nat(kg), "y": nat(ky), "x": nat(kx)}
        kw = dsa_w(kp, kq_, kg, ky, kx, key.has_private(), deep)
        links = len(kw["cq"]) + len(kw["cx"]) + (len(kw["mrp"]["chain"]) + len(kw["mrq"]["chain"]) if deep else 0)
    pb = max(abs(dom["p"]).bit_length() if hasdom else bits, 64)
    return {"fam": "gen", "what": "dsa", "api": "generate", "bits": bits, "hasdomain": hasdom, "kid": item.get("kid", ""), "corr": item.get("corr", []),
            "dom": {k: sn(v) for k, v in dom.items()}, "w": domw, "deep": bool(deep), "exc": exc, "key": rec, "kw": kw, "tape": tape.used,
            "entropy": item.get("tape", "pseudo-random tape"),
            "cost": 50 + (len(domw["cq"]) + links) * (pb // 100) ** 2 // 20}


class RecTape(Tape):
    def __init__(self, tag):
        Tape.__init__(self, tag)
        self.outs = []

    def __call__(self, n):
        b = Tape.__call__(self, n)
        self.outs.append(b)
        return b


class ReplayTape(Tape):
    """serves recorded requests again (then the ordinary tape)"""

    def __init__(self, tag, outs):
        Tape.__init__(self, tag)
        self.outs = list(outs)

    def __call__(self, n):
        if self.outs and len(self.outs[0]) == n:
            self.used += n
            return self.outs.pop(0)
        self.outs = []
        return Tape.__call__(self, n)


def gen_elgamal(item, deep):
    bits = item["bits"]
    tape = Tape("gen-eg/%s" % item["cid"])
    if item.get("tape") in ("last-zeros", "last-ones"):
        # boundary entropy for the LAST draw (the private key): the same tape as a first, recorded run - so the same p and g - with its final
        # request answered by all-zero / all-one octets
        t1 = RecTape("gen-eg/%s" % item["cid"])
        try:
            ElGamal.generate(bits, t1)
        except Exception:      # noqa: BLE001
            pass
        if t1.outs:
            # the last integer drawn may be read in two requests (Integer.random: one octet for the top bits, then the rest): both are replaced
            fill = (lambda b: bytes(len(b))) if item["tape"] == "last-zeros" else (lambda b: b"\xff" * len(b))
            k = 2 if len(t1.outs) >= 2 and len(t1.outs[-2]) == 1 else 1
            tape = ReplayTape("gen-eg/%s/2" % item["cid"], t1.outs[:-k] + [fill(b) for b in t1.outs[-k:]])
    key, exc = attempt(lambda: ElGamal.generate(bits, tape), seconds=900)
    if key is None:
        rec, kw = NOKEY_EG, eg_w(0, 0, 0, 0, False, False)
    else:
        kp, kg, ky = int(key.p), int(key.g), int(key.y)
        kx = int(key.x) if key.has_private() else 0
        rec = {"priv": bool(key.has_private()), "p": nat(kp), "g": nat(kg), "y": nat(ky), "x": nat(kx)}
        kw = eg_w(kp, kg, ky, kx, key.has_private(), deep)
    return {"fam": "gen", "what": "elgamal", "api": "generate", "bits": bits, "deep": bool(deep), "exc": exc, "key": rec, "kw": kw, "tape": tape.used,
            "entropy": item.get("tape", "pseudo-random tape"),
            "cost": 50 + (len(kw["cx"]) + (len(kw["mrp"]["chain"]) if deep else 0)) * (max(bits, 100) // 100) ** 2 // 20 + 100}


def gen_ecc(item, deep):
    cv = curve(item["curve"])
    tape = Tape("gen-ecc/%s" % item["cid"])
    if item.get("tape") and cv.kind == "ws":
        tape = PrefixTape("gen-ecc/%s" % item["cid"], boundary_prefix(item["tape"], cv.n))
    key, exc = attempt(lambda: ECC.generate(curve=cv.lib, randfunc=tape), seconds=60)
    rec, kcw = ec_key_record(cv, key)
    links = []
    if key is not None and key.has_private() and cv.kind != "mt" and 1 <= int(key.d) < (cv.n if cv.kind == "ws" else 1 << (8 * cv.seedlen)):
        _, links = mul_links(cv, int(key.d))
    per = {"ws": cv.p.bit_length() // 16, "ed": 15 if cv.kind == "ed" and cv.aneg else 45, "mt": 0}[cv.kind]
    return {"fam": "gen", "what": "ecc", "api": "generate", "curve": cv.name, "deep": bool(deep), "exc": exc, "key": rec, "kwq": kcw, "links": links, "tape": tape.used,
            "cost": 60 + len(links) * per + (cv.p.bit_length() * (25 if cv.name == "Curve25519" else 40) if cv.kind == "mt" and key is not None else 0)}


GEN_FUNCS = {"rsa": gen_rsa, "dsa": gen_dsa, "dsa-domain": gen_dsa, "elgamal": gen_elgamal, "ecc": gen_ecc}


# ------------------------------------------------------------------------------------------ main
def warm(item):
    """build the base key of an item in the parent process, so that the forked children inherit it"""
    ty = item.get("ty") or item.get("what")
    if ty == "rsa" and "kid" in item:
        rsa_base(item["kid"])
    elif ty in ("dsa", "dsa-domain") and item.get("kid"):
        dsa_base(item["kid"])
    elif ty == "elgamal" and "kid" in item:
        eg_base(item["kid"])
    elif ty in ("ws", "ed", "mt"):
        ec_base(item["kid"])
        curve(ec_base(item["kid"])["c"])
        if ty == "ws":
            curve(OTHER_CURVE[ec_base(item["kid"])["c"]])


GEN_SECONDS = {"rsa": 600, "dsa": 900, "dsa-domain": 900, "elgamal": 1500, "ecc": 60}


def run_items(inp, funcs, key, seconds):
    out = []
    deep = bool(inp.get("deep"))
    for item in inp["items"]:
        warm(item)
        t = isolated(funcs[item[key]], item, bool(item.get("deep", deep)), seconds(item))
        if t is None:
            continue
        t["cid"] = item["cid"]
        t["tid"] = item["cid"]
        out.append(t)
    return out


def main():
    inp = json.load(sys.stdin)
    mode = sys.argv[1]
    if mode == "cases":
        traces = run_items(inp, CASE_FUNCS, "ty", lambda item: CALL_SECONDS)
    else:
        traces = run_items(inp, GEN_FUNCS, "what", lambda item: GEN_SECONDS[item["what"]])
    json.dump(traces, sys.stdout, separators=(",", ":"))


if __name__ == "__main__":
    main()
