------------------------------- MODULE CmacAny -------------------------------
(* SP 800-38B transcribed for any block cipher with a 64-bit or 128-bit block: subkey generation (R64 = 0x1B, R128 = 0x87),
   the CBC-MAC with the masked last block, truncation to Tlen bytes (MSB).  The ciphers are those of the data layer:
   "aes" (AES.tla), "des" / "des3" with 16- or 24-byte keys (DES.tla), "arc2" with par = effective key bits (RC2.tla), "blowfish" (Blowfish.tla), "cast" (CAST.tla; the two primitives are pinned by their own published vectors). *)
EXTENDS Bytes
A == INSTANCE AES
DS == INSTANCE DES
R2 == INSTANCE RC2
BF == INSTANCE Blowfish
CA == INSTANCE CAST
Ctx(alg, key, par) == CASE alg = "aes" -> [alg |-> alg, bs |-> 16, k |-> A!AesCtx(key)]
                        [] alg = "des" -> [alg |-> alg, bs |-> 8, k |-> DS!DesCtx(key)]
                        [] alg = "des3" -> [alg |-> alg, bs |-> 8, k |-> DS!Des3Ctx(key)]
                        [] alg = "arc2" -> [alg |-> alg, bs |-> 8, k |-> R2!Rc2Ctx(key, par)]
                        [] alg = "blowfish" -> [alg |-> alg, bs |-> 8, k |-> BF!BfCtx(key)]
                        [] alg = "cast" -> [alg |-> alg, bs |-> 8, k |-> CA!CastCtx(key)]
Enc(c, b) == CASE c.alg = "aes" -> A!E(c.k, b) [] c.alg = "des" -> DS!DesE(c.k, b) [] c.alg = "des3" -> DS!Des3E(c.k, b) [] c.alg = "arc2" -> R2!Rc2E(c.k, b)
             [] c.alg = "blowfish" -> BF!BfE(c.k, b) [] c.alg = "cast" -> CA!CastE(c.k, b)
\* 6.1: K1 = L << 1 (xor Rb if MSB(L) = 1), K2 = K1 << 1 (likewise)
Dbl(s) == LET n == Len(s)
              sh == [i \in 1..n |-> ((s[i] * 2) % 256) + (IF i < n THEN s[i + 1] \div 128 ELSE 0)]
          IN IF s[1] >= 128 THEN [sh EXCEPT ![n] = sh[n] ^^ (IF n = 16 THEN 135 ELSE 27)] ELSE sh
RECURSIVE CbcMac(_,_,_,_)
CbcMac(c, m, i, y) == IF i > Len(m) THEN y ELSE CbcMac(c, m, i + c.bs, Enc(c, XorSeqN(y, SubSeq(m, i, i + c.bs - 1))))
\* 6.2: the last block is complete -> xor K1; otherwise pad with 10* and xor K2 (the empty message has one, incomplete, block)
Cmac(c, m, tlen) == LET bs == c.bs
                        k1 == Dbl(Enc(c, Zeros(bs)))  k2 == Dbl(k1)
                        n == IF Len(m) = 0 THEN 1 ELSE (Len(m) + bs - 1) \div bs
                        head == SubSeq(m, 1, bs * (n - 1))  tail == SubSeq(m, bs * (n - 1) + 1, Len(m))
                        last == IF Len(tail) = bs THEN XorSeqN(tail, k1) ELSE XorSeqN(tail \o <<128>> \o Zeros(bs - 1 - Len(tail)), k2)
                    IN SubSeq(Enc(c, XorSeqN(CbcMac(c, head, 1, Zeros(bs)), last)), 1, tlen)
\* RFC 4493 example 1 (AES-128, empty message); the other values were produced at authoring time with the OpenSSL 3.5 CLI
\* (openssl mac -cipher des-ede3-cbc | des-cbc | rc2-cbc | aes-128-cbc ... CMAC): complete, incomplete and empty last blocks
ASSUME Cmac(Ctx("des3", <<1,35,69,103,137,171,205,239,35,69,103,137,171,205,239,1,69,103,137,171,205,239,1,35>>, 0), <<>>, 8) = <<125,176,211,125,249,54,197,80>>
ASSUME Cmac(Ctx("des3", <<1,35,69,103,137,171,205,239,35,69,103,137,171,205,239,1,69,103,137,171,205,239,1,35>>, 0), <<0,1,2,3,4,5,6,7>>, 8) = <<209,35,75,238,84,154,169,4>>
ASSUME Cmac(Ctx("des3", <<1,35,69,103,137,171,205,239,35,69,103,137,171,205,239,1,69,103,137,171,205,239,1,35>>, 0), [i \in 1..20 |-> i - 1], 8) = <<77,182,159,242,138,0,252,17>>
ASSUME Cmac(Ctx("des3", <<1,35,69,103,137,171,205,239,35,69,103,137,171,205,239,1,69,103,137,171,205,239,1,35>>, 0), [i \in 1..32 |-> i - 1], 8) = <<115,202,134,148,171,99,251,247>>
ASSUME Cmac(Ctx("des3", <<1,35,69,103,137,171,205,239,35,69,103,137,171,205,239,1>>, 0), [i \in 1..13 |-> i - 1], 5) = <<76,21,109,173,129>>
ASSUME Cmac(Ctx("des", <<1,35,69,103,137,171,205,239>>, 0), <<97,98,99>>, 8) = <<32,251,24,11,42,217,5,126>>
ASSUME Cmac(Ctx("des", <<1,35,69,103,137,171,205,239>>, 0), [i \in 1..16 |-> i - 1], 8) = <<47,211,57,253,23,65,153,82>>
ASSUME Cmac(Ctx("arc2", <<1,35,69,103,137,171,205,239,1,35,69,103,137,171,205,239>>, 128), <<97,98,99>>, 8) = <<15,185,251,198,214,102,204,11>>
ASSUME Cmac(Ctx("arc2", <<1,35,69,103,137,171,205,239,1,35,69,103,137,171,205,239>>, 128), [i \in 1..24 |-> i - 1], 8) = <<117,211,124,38,58,39,251,242>>
ASSUME Cmac(Ctx("aes", <<43,126,21,22,40,174,210,166,171,247,21,136,9,207,79,60>>, 0), <<>>, 16) = <<187,29,105,41,233,89,55,40,127,163,125,18,155,117,103,70>>
ASSUME Cmac(Ctx("aes", <<43,126,21,22,40,174,210,166,171,247,21,136,9,207,79,60>>, 0), [i \in 1..40 |-> i - 1], 16) = <<229,74,159,19,53,184,251,196,122,110,187,187,246,197,46,69>>
ASSUME Cmac(Ctx("aes", <<43,126,21,22,40,174,210,166,171,247,21,136,9,207,79,60>>, 0), [i \in 1..32 |-> i - 1], 7) = <<233,8,94,91,28,235,134>>
=============================================================================
