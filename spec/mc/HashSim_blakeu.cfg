CONSTANTS Final = "digest"
Uad = TRUE
HasVerify = TRUE
HasCopy = FALSE
MaxDepth = 7
MaxObjs = 3
SegLens = {0, 1, 63, 64, 65, 136, 200}
EmitHist = TRUE
INIT Init
NEXT Next
INVARIANT Emit
CHECK_DEADLOCK FALSE
