CONSTANTS NMsgs = 3
MaxDeliveries = 5
MaxSeq = 3
IncrementBeforeResult = TRUE
EmitHist = FALSE
Matching = TRUE
SPECIFICATION Spec
INVARIANT InOrderOnce
INVARIANT NoncesDistinct
INVARIANT SeqAgreesWithOutput
INVARIANT NextGenuineOpens
INVARIANT NothingOpensWhenSetupDiffers
INVARIANT NeverSealAtLimit
PROPERTY RecoversAfterRejection
CHECK_DEADLOCK FALSE
