"""C13 recorder for the high-level decoders: grammar-aware mutations of real exported keys (and short arbitrary strings,
OpenSSH lines, PEM texts) into RSA/DSA/ECC.import_key, PKCS8.unwrap and PEM.decode.  Records value-or-exception-class,
the innermost library function that raised, and whether a password-based key derivation ran.  No verdict is computed here.

usage: c13_keys.py mutants {budget, tid0}      -> trace records kind "key" / "unwrap" / "wrap"
       c13_keys.py strings {alphabet, maxlen, tid0} -> trace records kind "keysweep"
"""
import base64
import itertools
import json
import multiprocessing
import os
import signal
import struct
import sys

sys.path.insert(0, os.path.dirname(os.path.abspath(__file__)))
from _util import exc_class, rng, TIER  # noqa: E402
from _util import pool_map  # noqa: E402
import c13_tree as T  # noqa: E402
from c13_codec import where, bemin  # noqa: E402

from Crypto.IO import PEM, PKCS8, _PBES  # noqa: E402
from Crypto.PublicKey import DSA, ECC, RSA, _openssh  # noqa: E402
from Crypto.Util.asn1 import DerBitString, DerInteger, DerNull, DerObjectId, DerOctetString, DerSequence  # noqa: E402

PW = b"pw"
DSA_P = int("8df2a494492276aa3d25759bb06869cbeac0d83afb8d0cf7cbb8324f0d7882e5d0762fc5b7210eafc2e9adac32ab7aac"
            "49693dfbf83724c2ec0736ee31c80291", 16)
DSA_Q = int("c773218c737ec8ee993b4f2ded30f48edace915f", 16)
DSA_G = int("626d027839ea0a13413163a55b4cb500299d5522956cefcb3bff10f399ce2c2e71cb9de5fa24babf58e5b79521925c9c"
            "c42e9f6f464b088cc572af53e6d78802", 16)

# ------------------------------------------------------------------------------------------------ KDF call counter
KDF_CALLS = [0]


def _counted(f):
    def g(*a, **k):
        KDF_CALLS[0] += 1
        return f(*a, **k)
    return g


for _mod, _names in ((_PBES, ("PBKDF1", "PBKDF2", "scrypt")), (PEM, ("PBKDF1", "_EVP_BytesToKey")), (_openssh, ("_bcrypt_hash",))):
    for _n in _names:
        if hasattr(_mod, _n):
            setattr(_mod, _n, _counted(getattr(_mod, _n)))


class Timeout(Exception):
    pass


def _alarm(signum, frame):
    raise Timeout()


ENTRY = {
    "RSA.import_key": lambda data, pw: RSA.import_key(data, pw),
    "DSA.import_key": lambda data, pw: DSA.import_key(data, pw),
    "ECC.import_key": lambda data, pw: ECC.import_key(data, pw),
    "PKCS8.unwrap": lambda data, pw: PKCS8.unwrap(data, pw),
    "PEM.decode": lambda data, pw: PEM.decode(data, pw),
}


def call(entry, data, pw):
    """-> (outcome, innermost function, number of KDF calls, returned object)"""
    KDF_CALLS[0] = 0
    signal.signal(signal.SIGALRM, _alarm)
    signal.alarm(30)
    try:
        v = ENTRY[entry](data, pw)
        return "ok", "", KDF_CALLS[0], v
    except Timeout:
        return "harness-timeout", "", KDF_CALLS[0], None
    except Exception as e:  # the class is the observation
        return exc_class(e), where(e), KDF_CALLS[0], None
    finally:
        signal.alarm(0)


# ------------------------------------------------------------------------------------------------ base material
def pem_of(der, marker):
    """canonical RFC 7468 armour written with Python's base64 (not with the library under test)"""
    b = base64.b64encode(der).decode()
    lines = [b[i:i + 64] for i in range(0, len(b), 64)]
    return "-----BEGIN %s-----\n%s-----END %s-----" % (marker, "".join(x + "\n" for x in lines), marker)


def fake_cert(spki, version=True):
    """an X.509-shaped SEQUENCE around a SubjectPublicKeyInfo (the library does not verify certificates)"""
    name = DerSequence([]).encode()
    alg = DerSequence([DerObjectId("1.2.840.113549.1.1.11"), DerNull()]).encode()
    tbs = ([DerInteger(2, explicit=0).encode()] if version else []) + [1234, alg, name, DerSequence([]).encode(), name, spki]
    return DerSequence([DerSequence(tbs).encode(), alg, DerBitString(b"\x01\x02\x03").encode()]).encode()


def ssh_blob(parts):
    return b"".join(struct.pack(">I", len(p)) + p for p in parts)


def bases(r):
    """[(key type, format name, DER bytes, PEM marker or None, passphrase needed, strict-checkable)]"""
    rf = lambda n: bytes(r.getrandbits(8) for _ in range(n))  # noqa: E731
    out = []
    rsa = RSA.generate(1024, randfunc=rf)
    enc = dict(protection="PBKDF2WithHMAC-SHA1AndAES128-CBC", prot_params={"iteration_count": 2})
    scr = dict(protection="scryptAndAES128-CBC", prot_params={"iteration_count": 2, "block_size": 1, "parallelization": 1})
    out.append(("RSA", "pkcs1-private", rsa.export_key("DER", pkcs=1), "RSA PRIVATE KEY", False))
    out.append(("RSA", "pkcs8", rsa.export_key("DER", pkcs=8), "PRIVATE KEY", False))
    out.append(("RSA", "pkcs8-pbkdf2", rsa.export_key("DER", pkcs=8, passphrase=PW, randfunc=rf, **enc), "ENCRYPTED PRIVATE KEY", True))
    out.append(("RSA", "spki", rsa.public_key().export_key("DER"), "PUBLIC KEY", False))
    out.append(("RSA", "pkcs1-public", DerSequence([rsa.n, rsa.e]).encode(), "RSA PUBLIC KEY", False))
    out.append(("RSA", "x509", fake_cert(rsa.public_key().export_key("DER")), "CERTIFICATE", False))
    x = 1 + r.getrandbits(150)
    dsa = DSA.construct((pow(DSA_G, x, DSA_P), DSA_G, DSA_P, DSA_Q, x))
    out.append(("DSA", "openssl-private", dsa.export_key("DER", pkcs8=False), "DSA PRIVATE KEY", False))
    out.append(("DSA", "pkcs8", dsa.export_key("DER", pkcs8=True), "PRIVATE KEY", False))
    dsa_params = DerSequence([DSA_P, DSA_Q, DSA_G])
    out.append(("DSA", "pkcs8-pbkdf2", PKCS8.wrap(DerInteger(x).encode(), DSA.oid, PW, key_params=dsa_params, randfunc=rf, **enc), "ENCRYPTED PRIVATE KEY", True))
    out.append(("DSA", "pkcs8-scrypt", PKCS8.wrap(DerInteger(x).encode(), DSA.oid, PW, key_params=dsa_params, randfunc=rf, **scr), "ENCRYPTED PRIVATE KEY", True))
    out.append(("DSA", "spki", dsa.public_key().export_key("DER"), "PUBLIC KEY", False))
    out.append(("DSA", "x509", fake_cert(dsa.public_key().export_key("DER"), version=False), "CERTIFICATE", False))
    curves = ["p256", "ed25519"] if TIER == "quick" else ["p192", "p224", "p256", "p384", "p521", "ed25519", "ed448", "curve25519", "curve448"]
    for cv in curves:
        k = ECC.generate(curve=cv, randfunc=rf)
        out.append(("ECC", cv + "-spki", k.public_key().export_key(format="DER"), "PUBLIC KEY", False))
        out.append(("ECC", cv + "-pkcs8", k.export_key(format="DER", use_pkcs8=True), "PRIVATE KEY", False))
        out.append(("ECC", cv + "-pkcs8-pbkdf2", k.export_key(format="DER", use_pkcs8=True, passphrase=PW, randfunc=rf, **enc), "ENCRYPTED PRIVATE KEY", True))
        if cv.startswith("p"):
            out.append(("ECC", cv + "-spki-compressed", k.public_key().export_key(format="DER", compress=True), "PUBLIC KEY", False))
            out.append(("ECC", cv + "-rfc5915", k.export_key(format="DER", use_pkcs8=False), "EC PRIVATE KEY", False))
        if cv == "p256":
            out.append(("ECC", cv + "-x509", fake_cert(k.public_key().export_key(format="DER")), "CERTIFICATE", False))
    return out, dict(rsa=rsa, dsa=dsa)


# ------------------------------------------------------------------------------------------------ PBES semantic mutants
def pbes_mutants(r):
    """EncryptedPrivateKeyInfo containers whose parameters are well-formed DER but semantically off (F16 family)"""
    rf = lambda n: bytes(r.getrandbits(8) for _ in range(n))  # noqa: E731
    inner = PKCS8.wrap(DerInteger(5).encode(), DSA.oid, key_params=DerSequence([DSA_P, DSA_Q, DSA_G]))
    good = PKCS8.wrap(DerInteger(5).encode(), DSA.oid, PW, protection="PBKDF2WithHMAC-SHA1AndAES128-CBC",
                      prot_params={"iteration_count": 2}, key_params=DerSequence([DSA_P, DSA_Q, DSA_G]), randfunc=rf)
    top = DerSequence().decode(good)
    ct = top[1]
    algo = DerSequence().decode(top[0])
    params = DerSequence().decode(algo[1])
    kdf = DerSequence().decode(params[0])
    kdfp = DerSequence().decode(kdf[1])
    encs = DerSequence().decode(params[1])

    def build(kdf_oid=None, kdf_params=None, enc_oid=None, enc_iv=None, pbes_oid=None, data=None, kdf_raw=None, enc_raw=None):
        kp = kdf_params if kdf_params is not None else [kdfp[0], kdfp[1]]
        k = kdf_raw if kdf_raw is not None else DerSequence([kdf_oid or kdf[0], DerSequence(kp).encode()]).encode()
        e = enc_raw if enc_raw is not None else DerSequence([enc_oid or encs[0], enc_iv if enc_iv is not None else encs[1]]).encode()
        a = DerSequence([pbes_oid or algo[0], DerSequence([k, e]).encode()]).encode()
        return DerSequence([a, data if data is not None else ct]).encode()
    salt = kdfp[0]
    O = lambda s: DerObjectId(s).encode()  # noqa: E731
    out = [
        ("pbes-reference", build()),
        ("pbes-iteration-count-0", build(kdf_params=[salt, 0])),
        ("pbes-iteration-count-negative", build(kdf_params=[salt, -1])),
        ("pbes-iteration-count-octets", build(kdf_params=[salt, DerOctetString(b"\x02").encode()])),
        ("pbes-iteration-count-missing", build(kdf_params=[salt])),
        ("pbes-salt-integer", build(kdf_params=[7, 2])),
        ("pbes-salt-empty", build(kdf_params=[DerOctetString(b"").encode(), 2])),
        ("pbes-keylength-mismatch", build(kdf_params=[salt, 2, 99])),
        ("pbes-keylength-0", build(kdf_params=[salt, 2, 0])),
        ("pbes-keylength-octets", build(kdf_params=[salt, 2, DerOctetString(b"\x10").encode()])),
        ("pbes-prf-unknown", build(kdf_params=[salt, 2, DerSequence([O("1.2.3.4")]).encode()])),
        ("pbes-prf-empty-seq", build(kdf_params=[salt, 2, DerSequence([]).encode()])),
        ("pbes-prf-integer-in-seq", build(kdf_params=[salt, 2, DerSequence([5]).encode()])),
        ("pbes-prf-sha256", build(kdf_params=[salt, 2, DerSequence([O("1.2.840.113549.2.9"), DerNull().encode()]).encode()])),
        ("pbes-kdf-unknown-oid", build(kdf_oid=O("1.2.3.4"))),
        ("pbes-kdf-params-not-a-sequence", build(kdf_raw=DerSequence([kdf[0], DerOctetString(b"x").encode()]).encode())),
        ("pbes-kdf-integer", build(kdf_raw=DerInteger(5).encode())),
        ("pbes-cipher-unknown-oid", build(enc_oid=O("1.2.3.4"))),
        ("pbes-cipher-oid-integer", build(enc_oid=DerInteger(1).encode())),
        ("pbes-cipher-iv-missing", build(enc_raw=DerSequence([encs[0]]).encode())),
        ("pbes-cipher-iv-short", build(enc_iv=DerOctetString(b"1234").encode())),
        ("pbes-cipher-iv-integer", build(enc_iv=DerInteger(5).encode())),
        ("pbes-cipher-empty-seq", build(enc_raw=DerSequence([]).encode())),
        ("pbes-cipher-gcm", build(enc_oid=O("2.16.840.1.101.3.4.1.6"))),
        ("pbes-cipher-des3", build(enc_oid=O("1.2.840.113549.3.7"))),
        ("pbes-scheme-unknown-oid", build(pbes_oid=O("1.2.3.4"))),
        ("pbes-data-empty", build(data=DerOctetString(b"").encode())),
        ("pbes-data-one-block-short", build(data=DerOctetString(DerOctetString().decode(ct).payload[:-16]).encode())),
        ("pbes-data-not-block-multiple", build(data=DerOctetString(DerOctetString().decode(ct).payload[:-3]).encode())),
        ("pbes-data-integer", build(data=DerInteger(5).encode())),
        ("pbes-scrypt-zero-cost", build(kdf_oid=O("1.3.6.1.4.1.11591.4.11"), kdf_params=[salt, 0, 1, 1])),
        ("pbes-scrypt-cost-3", build(kdf_oid=O("1.3.6.1.4.1.11591.4.11"), kdf_params=[salt, 3, 1, 1])),
        ("pbes-scrypt-r-0", build(kdf_oid=O("1.3.6.1.4.1.11591.4.11"), kdf_params=[salt, 2, 0, 1])),
        ("pbes-scrypt-p-0", build(kdf_oid=O("1.3.6.1.4.1.11591.4.11"), kdf_params=[salt, 2, 1, 0])),
        ("pbes-scrypt-octets", build(kdf_oid=O("1.3.6.1.4.1.11591.4.11"), kdf_params=[salt, DerOctetString(b"\x02").encode(), 1, 1])),
        ("pbes-scrypt-3-params", build(kdf_oid=O("1.3.6.1.4.1.11591.4.11"), kdf_params=[salt, 2, 1])),
        ("pbes1-md5-des-params-missing", DerSequence([DerSequence([O("1.2.840.113549.1.5.3")]).encode(), ct]).encode()),
        ("pbes1-md5-des-count-0", DerSequence([DerSequence([O("1.2.840.113549.1.5.3"), DerSequence([DerOctetString(b"12345678").encode(), 0]).encode()]).encode(), ct]).encode()),
        ("pbes1-md5-des-count-octets", DerSequence([DerSequence([O("1.2.840.113549.1.5.3"), DerSequence([DerOctetString(b"12345678").encode(), DerOctetString(b"1").encode()]).encode()]).encode(), ct]).encode()),
        ("pbes1-sha1-rc2-salt-integer", DerSequence([DerSequence([O("1.2.840.113549.1.5.11"), DerSequence([5, 2]).encode()]).encode(), ct]).encode()),
        ("pbes1-md5-des-data-short", DerSequence([DerSequence([O("1.2.840.113549.1.5.3"), DerSequence([DerOctetString(b"12345678").encode(), 2]).encode()]).encode(), DerOctetString(b"abc").encode()]).encode()),
        ("container-empty-sequence", b"\x30\x00"),
        ("container-one-member", DerSequence([top[0]]).encode()),
        ("container-algorithm-empty", DerSequence([DerSequence([]).encode(), ct]).encode()),
        ("container-algorithm-integer", DerSequence([5, ct]).encode()),
        ("container-clear-pkcs8", inner),
    ]
    # correctly encrypted containers (right passphrase) whose PLAINTEXT is not a well-formed PrivateKeyInfo: a mutation of the ciphertext can
    # never reach the decoder behind the decryption (unpadding fails first), a peer that holds the passphrase can
    pki = DerSequence().decode(inner)

    def enc(data, scheme="PBKDF2WithHMAC-SHA1AndAES128-CBC"):
        return _PBES.PBES2.encrypt(data, PW, scheme, {"iteration_count": 2}, rf)
    algid = pki[1]
    inner_mutants = [
        ("pbes-inner-empty-sequence", b"\x30\x00"),
        ("pbes-inner-version-only", DerSequence([0]).encode()),
        ("pbes-inner-two-members", DerSequence([0, algid]).encode()),
        ("pbes-inner-two-members-v1", DerSequence([1, algid]).encode()),
        ("pbes-inner-version-2", DerSequence([2, algid, pki[2]]).encode()),
        ("pbes-inner-version-octets", DerSequence([DerOctetString(b"\x00").encode(), algid, pki[2]]).encode()),
        ("pbes-inner-algorithm-integer", DerSequence([0, 5, pki[2]]).encode()),
        ("pbes-inner-algorithm-empty", DerSequence([0, DerSequence([]).encode(), pki[2]]).encode()),
        ("pbes-inner-key-integer", DerSequence([0, algid, 5]).encode()),
        ("pbes-inner-five-members", DerSequence([0, algid, pki[2], DerNull().encode(), DerNull().encode()]).encode()),
        ("pbes-inner-six-members-v1", DerSequence([1, algid, pki[2], DerNull().encode(), DerNull().encode(), DerNull().encode()]).encode()),
        ("pbes-inner-trailing-byte", inner + b"\x00"),
        ("pbes-inner-truncated", inner[:-3]),
        ("pbes-inner-not-der", b"\x01\x02\x03\x04\x05"),
        ("pbes-inner-empty", b""),
        ("pbes-inner-integer", DerInteger(5).encode()),
        ("pbes-inner-nested-encrypted", good),
    ]
    for cls, data in inner_mutants:
        out.append((cls, enc(data)))
    out.append(("pbes-inner-two-members-des3", enc(DerSequence([0, algid]).encode(), "PBKDF2WithHMAC-SHA1AndDES-EDE3-CBC")))
    out.append(("pbes-inner-valid-control", enc(inner)))
    return out


def semantic_mutants(mat):
    """well-formed DER whose members have the wrong type or a degenerate value (F17 family, zero components): present in
    every run whatever the seed, with input classes that say what is wrong"""
    rsa, dsa = mat["rsa"], mat["dsa"]
    P, Q, G = DSA_P, DSA_Q, DSA_G
    octs = lambda n: DerOctetString(bytes(bemin(n))).encode()  # noqa: E731
    out = []

    def dsa_variants(cls, p, q, g):
        params = DerSequence([p, q, g])
        out.append(("DSA", "pkcs8", cls, PKCS8.wrap(DerInteger(int(dsa.x)).encode(), DSA.oid, key_params=params)))
        out.append(("DSA", "spki", cls, DerSequence([DerSequence([DerObjectId(DSA.oid), params]), DerBitString(DerInteger(int(dsa.y)))]).encode()))
    dsa_variants("dsa-domain-p-octet-string", octs(P), Q, G)
    dsa_variants("dsa-domain-q-octet-string", P, octs(Q), G)
    dsa_variants("dsa-domain-g-null", P, Q, DerNull().encode())
    dsa_variants("dsa-domain-p-zero", 0, Q, G)
    dsa_variants("dsa-domain-q-zero", P, 0, G)
    dsa_variants("dsa-domain-g-zero", P, Q, 0)
    dsa_variants("dsa-domain-negative", -P, Q, G)
    out.append(("DSA", "pkcs8", "dsa-domain-two-members", PKCS8.wrap(DerInteger(int(dsa.x)).encode(), DSA.oid, key_params=DerSequence([P, Q]))))
    out.append(("DSA", "pkcs8", "dsa-domain-absent", PKCS8.wrap(DerInteger(int(dsa.x)).encode(), DSA.oid, key_params=None)))
    out.append(("DSA", "pkcs8", "dsa-private-value-octet-string", PKCS8.wrap(octs(int(dsa.x)), DSA.oid, key_params=DerSequence([P, Q, G]))))
    for i, name in ((1, "p"), (2, "q"), (3, "g"), (4, "y"), (5, "x")):
        ints = [0, P, Q, G, int(dsa.y), int(dsa.x)]
        ints[i] = 0
        out.append(("DSA", "openssl-private", "dsa-%s-zero" % name, DerSequence(ints).encode()))
    comps = [0, int(rsa.n), int(rsa.e), int(rsa.d), int(rsa.p), int(rsa.q), int(rsa.d % (rsa.p - 1)), int(rsa.d % (rsa.q - 1)), int(rsa.u)]
    for i, name in ((1, "n"), (2, "e"), (3, "d"), (4, "p"), (5, "q")):
        c = list(comps)
        c[i] = 0
        out.append(("RSA", "pkcs1-private", "rsa-%s-zero" % name, DerSequence(c).encode()))
        c[i] = -comps[i]
        out.append(("RSA", "pkcs1-private", "rsa-%s-negative" % name, DerSequence(c).encode()))
    out.append(("RSA", "pkcs1-public", "rsa-n-zero", DerSequence([0, 65537]).encode()))
    out.append(("RSA", "pkcs1-public", "rsa-e-zero", DerSequence([int(rsa.n), 0]).encode()))
    out.append(("RSA", "pkcs8", "rsa-inner-key-empty", PKCS8.wrap(b"", RSA.oid)))
    out.append(("RSA", "pkcs8", "rsa-inner-key-not-der", PKCS8.wrap(b"\x01\x02\x03", RSA.oid)))
    # RFC 5915 ECPrivateKey (P-256) with degenerate optional members, built by hand: [0] parameters and [1] publicKey
    d32 = (12345).to_bytes(32, "big")
    oid256 = DerObjectId("1.2.840.10045.3.1.7").encode()
    pub = ECC.construct(curve="p256", d=12345).public_key().export_key(format="SEC1")

    def ctx(n, content):
        return bytes([0xA0 | n, len(content)]) + content

    def ecpriv(*tail, version=1, priv=None):
        return DerSequence([version, DerOctetString(d32 if priv is None else priv).encode()] + list(tail)).encode()
    bits = lambda b: bytes([3, len(b) + 1, 0]) + b  # noqa: E731
    ec = [("ec-public-key-empty-bit-string", ecpriv(ctx(0, oid256), ctx(1, bytes([3, 1, 0])))),
          ("ec-public-key-bit-string-without-octets", ecpriv(ctx(0, oid256), ctx(1, bytes([3, 0])))),
          ("ec-public-key-one-octet", ecpriv(ctx(0, oid256), ctx(1, bits(b"\x04")))),
          ("ec-public-key-octet-string", ecpriv(ctx(0, oid256), ctx(1, DerOctetString(pub).encode()))),
          ("ec-public-key-empty-wrapper", ecpriv(ctx(0, oid256), ctx(1, b""))),
          ("ec-parameters-empty-wrapper", ecpriv(ctx(0, b""), ctx(1, bits(pub)))),
          ("ec-parameters-null", ecpriv(ctx(0, DerNull().encode()), ctx(1, bits(pub)))),
          ("ec-private-key-empty", ecpriv(ctx(0, oid256), ctx(1, bits(pub)), priv=b"")),
          ("ec-private-key-integer", DerSequence([1, 12345, ctx(0, oid256)]).encode()),
          ("ec-version-0", ecpriv(ctx(0, oid256), version=0)),
          ("ec-three-tagged-members", ecpriv(ctx(0, oid256), ctx(1, bits(pub)), ctx(2, DerNull().encode()))),
          ("ec-valid-control", ecpriv(ctx(0, oid256), ctx(1, bits(pub))))]
    for cls, der in ec:
        out.append(("ECC", "rfc5915", cls, der))
        out.append(("ECC", "pkcs8", cls + "-in-pkcs8", PKCS8.wrap(der, "1.2.840.10045.2.1", key_params=DerObjectId("1.2.840.10045.3.1.7"))))
    return out


PEM_LABEL = {"pkcs8": "PRIVATE KEY", "spki": "PUBLIC KEY", "rfc5915": "EC PRIVATE KEY", "pkcs1-private": "RSA PRIVATE KEY", "pkcs1-public": "RSA PUBLIC KEY"}


# ------------------------------------------------------------------------------------------------ text-level inputs
def ssh_lines(mat):
    rsa, dsa = mat["rsa"], mat["dsa"]
    out = []
    good_rsa = rsa.public_key().export_key("OpenSSH")
    good_dsa = dsa.public_key().export_key("OpenSSH")
    p256 = ECC.construct(curve="p256", d=12345)
    good_ec = p256.public_key().export_key(format="OpenSSH").encode()
    good_ed = ECC.construct(curve="ed25519", seed=bytes(range(32))).public_key().export_key(format="OpenSSH").encode()
    b64 = lambda b: base64.b64encode(b)  # noqa: E731
    ecpoint = p256.public_key().export_key(format="SEC1")
    for name, good, typ in (("rsa", good_rsa, b"ssh-rsa"), ("dsa", good_dsa, b"ssh-dss"), ("ecdsa", good_ec, b"ecdsa-sha2-nistp256"), ("ed25519", good_ed, b"ssh-ed25519")):
        blob = base64.b64decode(good.split(b" ")[1])
        out += [
            ("openssh-%s-valid" % name, good),
            ("openssh-%s-with-comment" % name, good + b" user@host"),
            ("openssh-%s-no-blob" % name, typ),
            ("openssh-%s-empty-blob" % name, typ + b" "),
            ("openssh-%s-short-blob" % name, typ + b" AAAA"),
            ("openssh-%s-bad-base64" % name, typ + b" A"),
            ("openssh-%s-not-base64" % name, typ + b" \xff\xfe!!"),
            ("openssh-%s-truncated-blob" % name, typ + b" " + b64(blob[:len(blob) // 2])),
            ("openssh-%s-only-type-part" % name, typ + b" " + b64(ssh_blob([typ]))),
            ("openssh-%s-two-parts" % name, typ + b" " + b64(ssh_blob([typ, b"\x01"]))),
            ("openssh-%s-other-type-inside" % name, typ + b" " + b64(ssh_blob([b"ssh-xyz"]) + blob[4 + len(typ):])),
            ("openssh-%s-huge-length-field" % name, typ + b" " + b64(b"\xff\xff\xff\xff" + blob[4:])),
            ("openssh-%s-empty-parts" % name, typ + b" " + b64(ssh_blob([typ, b"", b"", b"", b""]))),
            ("openssh-%s-extra-part" % name, typ + b" " + b64(blob + ssh_blob([b"extra"]))),
            ("openssh-%s-trailing-octets" % name, typ + b" " + b64(blob + b"\x00\x00")),
            ("openssh-%s-four-fields" % name, good + b" a b"),
        ]
    out += [
        ("openssh-ecdsa-unknown-curve", b"ecdsa-sha2-nistp256 " + b64(ssh_blob([b"ecdsa-sha2-nistp256", b"nistp999", ecpoint]))),
        ("openssh-ecdsa-unknown-curve-name", b"ecdsa-sha2-foo " + b64(ssh_blob([b"ecdsa-sha2-foo", b"foo", ecpoint]))),
        ("openssh-ecdsa-curve-mismatch", b"ecdsa-sha2-nistp256 " + b64(ssh_blob([b"ecdsa-sha2-nistp256", b"nistp384", ecpoint]))),
        ("openssh-ecdsa-point-missing", b"ecdsa-sha2-nistp256 " + b64(ssh_blob([b"ecdsa-sha2-nistp256", b"nistp256"]))),
        ("openssh-ecdsa-point-empty", b"ecdsa-sha2-nistp256 " + b64(ssh_blob([b"ecdsa-sha2-nistp256", b"nistp256", b""]))),
        ("openssh-ecdsa-point-infinity", b"ecdsa-sha2-nistp256 " + b64(ssh_blob([b"ecdsa-sha2-nistp256", b"nistp256", b"\x00"]))),
        ("openssh-ecdsa-point-off-curve", b"ecdsa-sha2-nistp256 " + b64(ssh_blob([b"ecdsa-sha2-nistp256", b"nistp256", ecpoint[:-1] + bytes([ecpoint[-1] ^ 1])]))),
        ("openssh-ed25519-short-key", b"ssh-ed25519 " + b64(ssh_blob([b"ssh-ed25519", b"\x01" * 31]))),
        ("openssh-ed25519-key-missing", b"ssh-ed25519 " + b64(ssh_blob([b"ssh-ed25519"]))),
        ("openssh-unknown-type", b"ssh-foo AAAA"),
    ]
    return out


def openssh_private(mat):
    """unencrypted openssh-key-v1 containers written by hand (the library cannot export them) and mutants of them"""
    out = []
    ed = ECC.construct(curve="ed25519", seed=bytes(range(32)))
    pub = ed.public_key().export_key(format="raw")
    p256 = ECC.construct(curve="p256", d=12345)
    point = p256.public_key().export_key(format="SEC1")
    rsa = mat["rsa"]

    def mp(n):
        b = bytes(bemin(n))
        return (b"\x00" + b) if b and b[0] & 0x80 else b

    def container(keytype, pubblob, privfields, cipher=b"none", kdf=b"none", kdfopts=b"", nkeys=1, check=(7, 7), comment=b"c", padok=True, magic=b"openssh-key-v1\x00"):
        priv = struct.pack(">II", *check) + ssh_blob([keytype]) + privfields + ssh_blob([comment])
        i = 1
        while len(priv) % 8:
            priv += bytes([i if padok else 0])
            i += 1
        return magic + ssh_blob([cipher, kdf, kdfopts]) + struct.pack(">I", nkeys) + ssh_blob([pubblob, priv])
    ed_priv = ssh_blob([pub, bytes(range(32)) + pub])
    ec_priv = ssh_blob([b"nistp256", point, mp(12345)])
    rsa_priv = ssh_blob([mp(rsa.n), mp(rsa.e), mp(rsa.d), mp(rsa.u), mp(rsa.p), mp(rsa.q)])
    good = {
        "ed25519": container(b"ssh-ed25519", ssh_blob([b"ssh-ed25519", pub]), ed_priv),
        "ecdsa": container(b"ecdsa-sha2-nistp256", ssh_blob([b"ecdsa-sha2-nistp256", b"nistp256", point]), ec_priv),
        "rsa": container(b"ssh-rsa", ssh_blob([b"ssh-rsa", mp(rsa.e), mp(rsa.n)]), rsa_priv),
    }
    for name, blob in good.items():
        out.append(("openssh-private-%s-valid" % name, blob))
        for k in (0, 10, 15, 16, 20, 40, len(blob) // 2, len(blob) - 9, len(blob) - 1):
            out.append(("openssh-private-%s-truncated" % name, blob[:k]))
        out.append(("openssh-private-%s-trailing" % name, blob + b"\x00"))
        for off in (15, 19, 27, 35, 39, 43, 47, 60, 100, len(blob) - 20):
            if off < len(blob):
                out.append(("openssh-private-%s-byte-ff" % name, blob[:off] + b"\xff" + blob[off + 1:]))
                out.append(("openssh-private-%s-byte-00" % name, blob[:off] + b"\x00" + blob[off + 1:]))
    out += [
        ("openssh-private-two-keys", container(b"ssh-ed25519", ssh_blob([b"ssh-ed25519", pub]), ed_priv, nkeys=2)),
        ("openssh-private-zero-keys", container(b"ssh-ed25519", ssh_blob([b"ssh-ed25519", pub]), ed_priv, nkeys=0)),
        ("openssh-private-checkints-differ", container(b"ssh-ed25519", ssh_blob([b"ssh-ed25519", pub]), ed_priv, check=(1, 2))),
        ("openssh-private-bad-padding", container(b"ssh-ed25519", ssh_blob([b"ssh-ed25519", pub]), ed_priv, comment=b"cc", padok=False)),
        ("openssh-private-unknown-cipher", container(b"ssh-ed25519", ssh_blob([b"ssh-ed25519", pub]), ed_priv, cipher=b"aes128-cbc", kdf=b"bcrypt")),
        ("openssh-private-bcrypt-without-options", container(b"ssh-ed25519", ssh_blob([b"ssh-ed25519", pub]), ed_priv, cipher=b"aes256-ctr", kdf=b"bcrypt")),
        ("openssh-private-bcrypt-short-salt", container(b"ssh-ed25519", ssh_blob([b"ssh-ed25519", pub]), ed_priv, cipher=b"aes256-ctr", kdf=b"bcrypt", kdfopts=ssh_blob([b"salt"]) + struct.pack(">I", 1))),
        ("openssh-private-bcrypt-1-round", container(b"ssh-ed25519", ssh_blob([b"ssh-ed25519", pub]), ed_priv, cipher=b"aes256-ctr", kdf=b"bcrypt", kdfopts=ssh_blob([b"s" * 16]) + struct.pack(">I", 1))),
        ("openssh-private-unknown-key-type", container(b"ssh-foo", ssh_blob([b"ssh-foo"]), ed_priv)),
        ("openssh-private-ecdsa-unknown-curve", container(b"ecdsa-sha2-nistp999", ssh_blob([b"x"]), ssh_blob([b"nistp999", point, mp(12345)]))),
        ("openssh-private-ecdsa-compressed-point", container(b"ecdsa-sha2-nistp256", ssh_blob([b"x"]), ssh_blob([b"nistp256", p256.public_key().export_key(format="SEC1", compress=True), mp(12345)]))),
        ("openssh-private-ecdsa-empty-point", container(b"ecdsa-sha2-nistp256", ssh_blob([b"x"]), ssh_blob([b"nistp256", b"", mp(12345)]))),
        ("openssh-private-ed25519-short-public", container(b"ssh-ed25519", ssh_blob([b"x"]), ssh_blob([pub[:5], bytes(64)]))),
        ("openssh-private-ed25519-short-private", container(b"ssh-ed25519", ssh_blob([b"x"]), ssh_blob([pub, b"ab"]))),
        ("openssh-private-rsa-missing-fields", container(b"ssh-rsa", ssh_blob([b"x"]), ssh_blob([mp(rsa.n), mp(rsa.e)]))),
        ("openssh-private-rsa-zero-fields", container(b"ssh-rsa", ssh_blob([b"x"]), ssh_blob([b"", b"", b"", b"", b"", b""]))),
        ("openssh-private-bad-magic", container(b"ssh-ed25519", ssh_blob([b"x"]), ed_priv, magic=b"openssh-key-v2\x00")),
        ("openssh-private-non-utf8-names", container(b"\xff\xfe", ssh_blob([b"x"]), ed_priv, cipher=b"\xff")),
    ]
    return [(cls, pem_of(blob, "OPENSSH PRIVATE KEY").encode()) for cls, blob in out]


def pem_texts(der, marker):
    good = pem_of(der, marker)
    lines = good.split("\n")
    body = lines[1:-1]
    mk = lambda ls: "\n".join(ls)  # noqa: E731
    out = [
        ("pem-valid", good),
        ("pem-crlf", good.replace("\n", "\r\n")),
        ("pem-trailing-newline", good + "\n"),
        ("pem-leading-blank", "\n \n" + good),
        ("pem-text-before", "Bag Attributes\n" + good),
        ("pem-text-after", good + "\ntrailing text"),
        ("pem-no-begin", mk(lines[1:])),
        ("pem-no-end", mk(lines[:-1])),
        ("pem-end-marker-differs", mk(lines[:-1] + ["-----END OTHER KEY-----"])),
        ("pem-end-marker-one-char-differs", mk(lines[:-1] + ["-----END %s-----" % (marker[:1] + "5" + marker[2:] if marker[1:2] != "5" else marker[:1] + "6" + marker[2:])])),
        ("pem-dotted-marker-end-differs", mk(["-----BEGIN X.509 KEY-----"] + body + ["-----END X5509 KEY-----"])),
        ("pem-star-marker-end-differs", mk(["-----BEGIN .*-----"] + body + ["-----END ANYTHING-----"])),
        ("pem-marker-unbalanced-paren", mk(["-----BEGIN KEY (-----"] + body + ["-----END KEY (-----"])),
        ("pem-marker-bracket", mk(["-----BEGIN [-----"] + body + ["-----END [-----"])),
        ("pem-four-dashes", mk(["----BEGIN %s-----" % marker] + lines[1:])),
        ("pem-empty-marker", mk(["-----BEGIN -----"] + body + ["-----END -----"])),
        ("pem-no-body", mk([lines[0], lines[-1]])),
        ("pem-one-line", good.replace("\n", "")),
        ("pem-one-line-spaces", good.replace("\n", " ")),
        ("pem-body-one-char-short", mk([lines[0]] + body[:-1] + [body[-1][:-1]] + [lines[-1]])),
        ("pem-body-not-base64", mk([lines[0], "!!!! ****"] + [lines[-1]])),
        ("pem-body-char-replaced", mk([lines[0]] + [body[0][:5] + "*" + body[0][6:]] + body[1:] + [lines[-1]])),
        ("pem-body-padding-inside", mk([lines[0]] + [body[0][:4] + "====" + body[0][8:]] + body[1:] + [lines[-1]])),
        ("pem-body-non-ascii", mk([lines[0]] + [body[0][:5] + "\xe9" + body[0][6:]] + body[1:] + [lines[-1]])),
        ("pem-body-line-dropped", mk([lines[0]] + body[1:] + [lines[-1]])),
        ("pem-header-unknown", mk([lines[0], "Comment: x", ""] + body + [lines[-1]])),
        ("pem-proc-type-only", mk([lines[0], "Proc-Type: 4,ENCRYPTED", ""] + body + [lines[-1]])),
        ("pem-proc-type-no-dek", mk([lines[0], "Proc-Type: 4,ENCRYPTED", "X-Info: DES-CBC,00", ""] + body + [lines[-1]])),
        ("pem-dek-no-comma", mk([lines[0], "Proc-Type: 4,ENCRYPTED", "DEK-Info: DES-EDE3-CBC", ""] + body + [lines[-1]])),
        ("pem-dek-two-commas", mk([lines[0], "Proc-Type: 4,ENCRYPTED", "DEK-Info: DES-EDE3-CBC,00,11", ""] + body + [lines[-1]])),
        ("pem-dek-two-colons", mk([lines[0], "Proc-Type: 4,ENCRYPTED", "DEK-Info: DES-EDE3-CBC:x,00", ""] + body + [lines[-1]])),
        ("pem-dek-unknown-cipher", mk([lines[0], "Proc-Type: 4,ENCRYPTED", "DEK-Info: RC4,0011223344556677", ""] + body + [lines[-1]])),
        ("pem-dek-salt-not-hex", mk([lines[0], "Proc-Type: 4,ENCRYPTED", "DEK-Info: DES-EDE3-CBC,zz11223344556677", ""] + body + [lines[-1]])),
        ("pem-dek-salt-odd", mk([lines[0], "Proc-Type: 4,ENCRYPTED", "DEK-Info: DES-EDE3-CBC,001", ""] + body + [lines[-1]])),
        ("pem-dek-salt-short", mk([lines[0], "Proc-Type: 4,ENCRYPTED", "DEK-Info: DES-EDE3-CBC,0011", ""] + body + [lines[-1]])),
        ("pem-dek-salt-empty", mk([lines[0], "Proc-Type: 4,ENCRYPTED", "DEK-Info: AES-128-CBC,", ""] + body + [lines[-1]])),
        ("pem-dek-aes-salt-8", mk([lines[0], "Proc-Type: 4,ENCRYPTED", "DEK-Info: AES-256-CBC,0011223344556677", ""] + body + [lines[-1]])),
        ("pem-dek-des", mk([lines[0], "Proc-Type: 4,ENCRYPTED", "DEK-Info: DES-CBC,0011223344556677", ""] + body + [lines[-1]])),
        ("pem-dek-gcm", mk([lines[0], "Proc-Type: 4,ENCRYPTED", "DEK-Info: id-aes256-GCM,00112233445566778899aabb", ""] + body + [lines[-1]])),
        ("pem-dek-gcm-empty-nonce", mk([lines[0], "Proc-Type: 4,ENCRYPTED", "DEK-Info: id-aes256-GCM,", ""] + body + [lines[-1]])),
        ("pem-dek-last-line", mk([lines[0], "Proc-Type: 4,ENCRYPTED", lines[-1]])),
        # line-structure mutations of an encrypted block (joined lines, nothing after Proc-Type, headers only)
        ("pem-proc-type-joined-with-end", lines[0] + "\nProc-Type: 4,ENCRYPTED " + lines[-1]),
        ("pem-proc-type-last", mk([lines[0], "Proc-Type: 4,ENCRYPTED"])),
        ("pem-proc-type-and-dek-joined", mk([lines[0], "Proc-Type: 4,ENCRYPTED DEK-Info: DES-EDE3-CBC,0011223344556677", lines[-1]])),
        ("pem-dek-joined-with-end", lines[0] + "\nProc-Type: 4,ENCRYPTED\nDEK-Info: DES-EDE3-CBC,0011223344556677 " + lines[-1]),
        ("pem-begin-only", lines[0]),
        ("pem-begin-end-joined", lines[0] + " " + lines[-1]),
        ("pem-encrypted-body-not-block-multiple", mk([lines[0], "Proc-Type: 4,ENCRYPTED", "DEK-Info: AES-128-CBC,00112233445566778899aabbccddeeff", "", "QUJD", lines[-1]])),
        ("pem-encrypted-body-empty", mk([lines[0], "Proc-Type: 4,ENCRYPTED", "DEK-Info: AES-128-CBC,00112233445566778899aabbccddeeff", "", lines[-1]])),
    ]
    return out


# ------------------------------------------------------------------------------------------------ the sweep
def describe(entry, v):
    """scalar projection of an accepted value (not judged, except PKCS8.unwrap and PEM.decode whose values are defined)"""
    if entry == "PKCS8.unwrap":
        oid, key, params = v
        if params is None:
            p = {"k": "none", "neg": False, "b": []}
        elif isinstance(params, int):
            p = {"k": "int", "neg": params < 0, "b": bemin(abs(params))}
        else:
            p = {"k": "raw", "neg": False, "b": list(params)}
        return {"arcs": [bemin(int(x)) for x in oid.split(".")], "key": list(key), "params": p}
    if entry == "PEM.decode":
        data, marker, enc = v
        return {"data": list(data), "marker": [ord(c) for c in marker], "enc": bool(enc)}
    return {"type": type(v).__name__, "private": bool(v.has_private())}


def split_class(cls):
    """coarse mutation class (part of a finding's key) and its detail"""
    for pre in ("retag-", "replace-with-"):
        if cls.startswith(pre):
            return {"retag-": "retag", "replace-with-": "replace-element"}[pre], cls[len(pre):]
    return cls, ""


def _run_job(job):
    rec, data, pw = job
    out, fn, kdf, v = call(rec["entry"], data, pw)
    rec.update(out=out, fn=fn, kdf=kdf, v=describe(rec["entry"], v) if out == "ok" else 0)
    return rec


def mutants(inp):
    r = rng("c13/keys")
    budget = inp["budget"]
    bs, mat = bases(r)
    jobs = []

    def add(entry, data, pw, **kw):
        kw.setdefault("mutd", "")
        kw.setdefault("where", kw["fmt"])
        rec = dict(kind="key", entry=entry, **kw)
        rec["pass"] = pw is not None
        if isinstance(data, str):
            rec["text"] = [ord(c) for c in data]
        jobs.append((rec, data, pw))

    # ---- DER-level mutants of every base encoding
    per_base = max(40, budget // len(bs))
    for typ, fmt, der, marker, needpw in bs:
        own = typ + ".import_key"
        kind = fmt.split("-", 1)[1] if typ == "ECC" else fmt            # without the curve name
        muts = [("unmodified", der, [])] + T.mutations(der)
        if needpw:
            muts = [m for m in muts if m[0] != "replace-with-int-big"]    # a KDF cost of 2^64 is a legitimate way to never return
        if len(muts) > per_base:
            head = [m for m in muts if m[0] == "unmodified" or (not m[2] and m[0] in T.STRICT_CLASSES)]
            muts = head + r.sample([m for m in muts if m not in head], per_base - len(head))
        spki_at = None
        if kind == "x509":
            spki_at = [0, len(T.parse(der).kids[0].kids) - 1]
        for cls, s, path in muts:
            mut, mutd = split_class(cls)
            # elements the entry point has to read: everything, except the fields of a certificate outside its SubjectPublicKeyInfo
            strict_own = spki_at is None or path in ([], [0]) or path[:2] == spki_at
            # PKCS8.unwrap hands the parameters' inside and the private key's inside back as they are
            strict_p8 = not ((len(path) >= 3 and path[:2] == [1, 1]) or (len(path) >= 2 and path[0] == 2))
            common = dict(fmt="%s/%s" % (typ, fmt), mut=mut, mutd=mutd, path=path, der=list(s), armour="der", strictable=strict_own,
                          where="%s/%s element %s" % (typ, kind, ".".join(str(i) for i in path) or "top"))
            add(own, s, PW if needpw else None, **common)
            k = r.randrange(6)
            if k == 0 or cls == "unmodified":
                add(own, s, None if needpw else PW, **common)                # the other passphrase situation
            if k == 1 or cls == "unmodified":
                t = pem_of(s, marker)
                add(own, t.encode(), PW if needpw else None, **dict(common, armour="pem", pemtext=[ord(c) for c in t], marker=[ord(c) for c in marker]))
            if k == 2:
                other = r.choice([e for e in ("RSA.import_key", "DSA.import_key", "ECC.import_key") if e != own])
                add(other, s, PW if needpw else None, **dict(common, strictable=False))
            if "pkcs8" in fmt:
                add("PKCS8.unwrap", s, PW if needpw else None, **dict(common, strictable=strict_p8))
                if k == 3 or cls == "unmodified":
                    add("PKCS8.unwrap", s, None if needpw else PW, **dict(common, strictable=strict_p8))
    # ---- well-formed DER with members of the wrong type or degenerate values
    for typ, fmt, cls, s in semantic_mutants(mat):
        common = dict(fmt="%s/%s" % (typ, fmt), mut=cls, path=[], der=list(s), armour="der", strictable=False)
        for e in ("RSA.import_key", "DSA.import_key", "ECC.import_key"):
            add(e, s, None, **common)
        add(typ + ".import_key", s, PW, **common)
        if fmt == "pkcs8":
            add("PKCS8.unwrap", s, None, **common)
        # the same structure in PEM armour under the label of its format (the importers branch on the label)
        if fmt in PEM_LABEL:
            text = pem_of(s, PEM_LABEL[fmt]).encode()
            for e in ("RSA.import_key", "DSA.import_key", "ECC.import_key"):
                add(e, text, None, **dict(common, armour="text", mut=cls + " (PEM)"))
    # ---- PBES containers with well-formed but meaningless parameters
    for cls, s in pbes_mutants(r):
        common = dict(fmt="DSA/pkcs8-pbes", mut=cls, path=[], der=list(s), armour="der", strictable=False)
        add("PKCS8.unwrap", s, PW, **common)
        add("PKCS8.unwrap", s, None, **common)
        for e in ("RSA.import_key", "DSA.import_key", "ECC.import_key"):
            add(e, s, PW, **common)
        add("DSA.import_key", s, None, **common)
    # ---- OpenSSH public lines and private containers
    for cls, line in ssh_lines(mat) + openssh_private(mat):
        for e in ("RSA.import_key", "DSA.import_key", "ECC.import_key"):
            add(e, line, None, fmt="openssh", mut=cls, path=[], der=[], armour="text", strictable=False, line=list(line))
        if cls.startswith("openssh-private") and ("bcrypt" in cls or cls.endswith("valid")):
            for e in ("RSA.import_key", "ECC.import_key"):
                add(e, line, PW, fmt="openssh", mut=cls, path=[], der=[], armour="text", strictable=False, line=list(line))
    # ---- PEM texts
    for typ, fmt, der, marker, needpw in bs:
        if fmt not in ("pkcs1-private", "pkcs8", "p256-pkcs8", "ed25519-pkcs8", "openssl-private", "spki"):
            continue
        for cls, text in pem_texts(der, marker):
            common = dict(fmt="%s/%s" % (typ, fmt), mut=cls, path=[], der=list(der), armour="text", strictable=False)
            add("PEM.decode", text, None, **common)
            add("PEM.decode", text, PW, **common)
            add(typ + ".import_key", text.encode("latin-1"), None, **common)
            if "dek" in cls or "encrypted" in cls:
                add(typ + ".import_key", text.encode("latin-1"), PW, **common)
    return pool_map(_run_job, jobs, chunksize=16)


# ------------------------------------------------------------------------------------------------ short arbitrary strings
def _strings_one(job):
    entry, pw, alphabet, maxlen, first = job
    oth, acc, n = [], [], 0
    hist = {}
    if first is None:
        universe = [b""]
    else:
        universe = (bytes([first]) + bytes(t) for k in range(0, maxlen) for t in itertools.product(alphabet, repeat=k))
    for s in universe:
        n += 1
        out, fn, kdf, v = call(entry, s, pw)
        hist[out] = hist.get(out, 0) + 1
        if out == "ok":
            acc.append(list(s))
        elif out != "ValueError":
            oth.append({"s": list(s), "exc": out, "fn": fn})
        if kdf and pw is None:
            oth.append({"s": list(s), "exc": "kdf-without-passphrase", "fn": fn})
    return {"kind": "keysweep", "entry": entry, "pass": pw is not None, "alphabet": alphabet, "maxlen": maxlen if first is not None else 0,
            "prefix": [] if first is None else [first], "n": n, "acc": acc, "oth": oth, "hist": hist}


def strings(inp):
    jobs = []
    for entry in ("RSA.import_key", "DSA.import_key", "ECC.import_key", "PKCS8.unwrap"):
        for pw in (None, PW):
            for first in [None] + inp["alphabet"]:
                jobs.append((entry, pw, inp["alphabet"], inp["maxlen"], first))
    return pool_map(_strings_one, jobs, chunksize=1)


def main():
    mode = sys.argv[1]
    inp = json.load(sys.stdin)
    recs = {"mutants": mutants, "strings": strings}[mode](inp)
    tid = inp.get("tid0", 0)
    for rec in recs:
        tid += 1
        rec["tid"] = tid
    json.dump(recs, sys.stdout)


if __name__ == "__main__":
    main()
