------------------------------- MODULE HpkeSha256 -------------------------------
(* SHA-256 (FIPS 180-4, 32-bit words as <<hi16, lo16>>), HMAC (RFC 2104), HKDF (RFC 5869) as needed by the HPKE data layer.
   Self-contained on purpose (the general hash data layer of C03 lives in its own modules). *)
EXTENDS Integers, Sequences, Bitwise, TLC
KK == <<<<17034,12184>>,<<28983,17553>>,<<46528,64463>>,<<59829,56229>>,<<14678,49755>>,<<23025,4593>>,<<37439,33444>>,<<43804,24277>>,<<55303,43672>>,<<4739,23297>>,<<9265,34238>>,<<21772,32195>>,<<29374,23924>>,<<32990,45566>>,<<39900,1703>>,<<49563,61812>>,<<58523,27073>>,<<61374,18310>>,<<4033,40390>>,<<9228,41420>>,<<11753,11375>>,<<19060,33962>>,<<23728,43484>>,<<30457,35034>>,<<38974,20818>>,<<43057,50797>>,<<45059,10184>>,<<48985,32711>>,<<50912,3059>>,<<54695,37191>>,<<1738,25425>>,<<5161,10599>>,<<10167,2693>>,<<11803,8504>>,<<19756,28156>>,<<21304,3347>>,<<25866,29524>>,<<30314,2747>>,<<33218,51502>>,<<37490,11397>>,<<41663,59553>>,<<43034,26187>>,<<49739,35696>>,<<51052,20899>>,<<53650,59417>>,<<54937,1572>>,<<62478,13701>>,<<4202,41072>>,<<6564,49430>>,<<7735,27656>>,<<10056,30540>>,<<13488,48309>>,<<14620,3251>>,<<20184,43594>>,<<23452,51791>>,<<26670,28659>>,<<29839,33518>>,<<30885,25455>>,<<33992,30740>>,<<36039,520>>,<<37054,65530>>,<<42064,27883>>,<<48889,41975>>,<<50801,30962>>>>
HH0 == <<<<27145,58983>>,<<47975,44677>>,<<15470,62322>>,<<42319,62778>>,<<20750,21119>>,<<39685,26764>>,<<8067,55723>>,<<23520,52505>>>>
P2T == <<1,2,4,8,16,32,64,128,256,512,1024,2048,4096,8192,16384,32768,65536>>
P2(n) == P2T[n+1]
Add(a,b) == LET lo == a[2] + b[2] IN << (a[1] + b[1] + (lo \div 65536)) % 65536, lo % 65536 >>
XorW(a,b) == << a[1] ^^ b[1], a[2] ^^ b[2] >>
AndW(a,b) == << a[1] & b[1], a[2] & b[2] >>
NotW(a) == << 65535 - a[1], 65535 - a[2] >>
\* rotate right by n (0<n<32)
RotrS(hi,lo,n) == \* n in 1..15
   << (hi \div P2(n)) + ((lo % P2(n)) * P2(16-n)), (lo \div P2(n)) + ((hi % P2(n)) * P2(16-n)) >>
Rotr(a,n) == IF n = 16 THEN <<a[2],a[1]>> ELSE IF n < 16 THEN RotrS(a[1],a[2],n) ELSE RotrS(a[2],a[1],n-16)
Shr(a,n) == IF n < 16 THEN << a[1] \div P2(n), (a[2] \div P2(n)) + ((a[1] % P2(n)) * P2(16-n)) >>
            ELSE << 0, a[1] \div P2(n-16) >>
Ch(x,y,z) == XorW(AndW(x,y), AndW(NotW(x),z))
Maj(x,y,z) == XorW(XorW(AndW(x,y), AndW(x,z)), AndW(y,z))
BS0(x) == XorW(XorW(Rotr(x,2),Rotr(x,13)),Rotr(x,22))
BS1(x) == XorW(XorW(Rotr(x,6),Rotr(x,11)),Rotr(x,25))
SS0(x) == XorW(XorW(Rotr(x,7),Rotr(x,18)),Shr(x,3))
SS1(x) == XorW(XorW(Rotr(x,17),Rotr(x,19)),Shr(x,10))
\* message schedule: blk is Seq of 64 bytes
W0(blk) == [t \in 1..16 |-> << blk[4*t-3]*256 + blk[4*t-2], blk[4*t-1]*256 + blk[4*t] >>]
RECURSIVE Sched(_)
Sched(w) == IF Len(w) = 64 THEN w ELSE
   LET t == Len(w) + 1 IN Sched(Append(w, Add(Add(SS1(w[t-2]), w[t-7]), Add(SS0(w[t-15]), w[t-16]))))
RECURSIVE Rnd(_,_,_)
\* st = <<a,b,c,d,e,f,g,h>>
Rnd(st, w, t) == IF t > 64 THEN st ELSE
   LET a == st[1] b == st[2] c == st[3] d == st[4] e == st[5] f == st[6] g == st[7] h == st[8]
       T1 == Add(Add(Add(h, BS1(e)), Add(Ch(e,f,g), KK[t])), w[t])
       T2 == Add(BS0(a), Maj(a,b,c))
   IN Rnd(<<Add(T1,T2), a, b, c, Add(d,T1), e, f, g>>, w, t+1)
Compress(H, blk) == LET w == Sched(TLCEval(W0(blk)))
                        s == Rnd(H, w, 1)
                    IN <<Add(H[1],s[1]),Add(H[2],s[2]),Add(H[3],s[3]),Add(H[4],s[4]),Add(H[5],s[5]),Add(H[6],s[6]),Add(H[7],s[7]),Add(H[8],s[8])>>
\* padding
Zeros(n) == [i \in 1..n |-> 0]
Len64(n) == \* n = byte length < 2^28 ; 8-byte big-endian of bit length
   LET bits == n * 8 IN <<0,0,0,0, (bits \div 16777216) % 256, (bits \div 65536) % 256, (bits \div 256) % 256, bits % 256>>
Pad(m) == LET n == Len(m)  z == (55 - n) % 64 IN m \o <<128>> \o Zeros(z) \o Len64(n)
RECURSIVE HashBlocks(_,_,_)
HashBlocks(H, p, i) == IF i > Len(p) THEN H ELSE HashBlocks(Compress(H, SubSeq(p, i, i+63)), p, i+64)
WordBytes(x) == << x[1] \div 256, x[1] % 256, x[2] \div 256, x[2] % 256 >>
Hash(m) == LET H == HashBlocks(HH0, Pad(m), 1) IN
   WordBytes(H[1]) \o WordBytes(H[2]) \o WordBytes(H[3]) \o WordBytes(H[4]) \o WordBytes(H[5]) \o WordBytes(H[6]) \o WordBytes(H[7]) \o WordBytes(H[8])

Rep(b, n) == [i \in 1..n |-> b]
XorB(a, b) == [i \in 1..Len(a) |-> a[i] ^^ b[i]]
Hmac(key, m) == LET k0 == IF Len(key) > 64 THEN Hash(key) ELSE key
                    k == k0 \o Rep(0, 64 - Len(k0))
                IN Hash(XorB(k, Rep(92, 64)) \o Hash(XorB(k, Rep(54, 64)) \o m))
Be4(n) == <<(n \div 16777216) % 256, (n \div 65536) % 256, (n \div 256) % 256, n % 256>>
RECURSIVE PbU(_,_,_,_)
PbU(pw, u, acc, n) == IF n = 0 THEN acc ELSE LET u1 == Hmac(pw, u) IN PbU(pw, u1, XorB(acc, u1), n - 1)
PbBlock(pw, salt, count, i) == LET u1 == Hmac(pw, salt \o Be4(i)) IN PbU(pw, u1, u1, count - 1)
RECURSIVE PbAll(_,_,_,_,_)
PbAll(pw, salt, count, dklen, i) == IF 32 * (i - 1) >= dklen THEN <<>> ELSE PbBlock(pw, salt, count, i) \o PbAll(pw, salt, count, dklen, i + 1)
Pbkdf2(pw, salt, count, dklen) == SubSeq(PbAll(pw, salt, count, dklen, 1), 1, dklen)
RECURSIVE HkdfT(_,_,_,_,_)
HkdfT(prk, info, prev, n, need) == IF need <= 0 THEN <<>> ELSE LET t == Hmac(prk, prev \o info \o <<n>>) IN t \o HkdfT(prk, info, t, n + 1, need - 32)
Hkdf(ikm, salt, info, L) == LET prk == Hmac(IF Len(salt) = 0 THEN Rep(0, 32) ELSE salt, ikm) IN SubSeq(HkdfT(prk, info, <<>>, 1, L), 1, L)
RECURSIVE Sp108(_,_,_,_,_,_)
Sp108(key, label, ctx, L, i, need) == IF need <= 0 THEN <<>> ELSE Hmac(key, Be4(i) \o label \o <<0>> \o ctx \o Be4(8 * L)) \o Sp108(key, label, ctx, L, i + 1, need - 32)
\* FIPS 180-4 "abc", RFC 4231 test case 2, RFC 5869 A.1 (first 16 bytes of OKM)
ASSUME Hash(<<97,98,99>>) = <<186,120,22,191,143,1,207,234,65,65,64,222,93,174,34,35,176,3,97,163,150,23,122,156,180,16,255,97,242,0,21,173>>
ASSUME Hmac(<<74,101,102,101>>, <<119,104,97,116,32,100,111,32,121,97,32,119,97,110,116,32,102,111,114,32,110,111,116,104,105,110,103,63>>) = <<91,220,193,70,191,96,117,78,106,4,36,38,8,149,117,199,90,0,63,8,157,39,57,131,157,236,88,185,100,236,56,67>>
=============================================================================
