------------------------------- MODULE CcmMC -------------------------------
EXTENDS CcmObj, Json
CONSTANTS MaxDepth, SegLens, DeclMsg, DeclAssoc, EmitHist
VARIABLES o, depth, hist
vars == <<o, depth, hist>>
Events == [op : {"update", "encrypt", "decrypt", "encrypt_and_digest"}, n : SegLens]
          \cup [op : {"digest", "hexdigest"}]
          \cup [op : {"verify", "hexverify"}, good : BOOLEAN]
          \cup [op : {"decrypt_and_verify"}, n : SegLens, good : BOOLEAN]
Init == \E a \in DeclAssoc, m \in DeclMsg : o = CcmInit(a, m) /\ depth = 0 /\ hist = <<>>
Next == /\ depth < MaxDepth /\ ~o.poisoned /\ depth' = depth + 1
        /\ \E e \in Events : o' = CcmStep(o, e) /\ hist' = IF EmitHist THEN Append(hist, e) ELSE hist
Spec == Init /\ [][Next]_vars
InvCache == CcmCacheSmall(o)
InvTag == CcmTagIsOverTheDefinition(o)
InvDeclared == CcmNoDataBeyondDeclared(o)
InvOneMessage == CcmOneMessageOnly(o)
ForbiddenLeavesObjectUnchanged == [][o'.exc = "TypeError" => [o' EXCEPT !.exc = o.exc] = o]_vars
TerminalStaysTerminal == [][(o.phase \in {"digested", "verified"} /\ o.tag # CNoTag) => (o'.phase = o.phase /\ o'.next = o.next /\ o'.tag = o.tag)]_vars
Emit == (EmitHist /\ (depth = MaxDepth \/ o.poisoned)) => PrintT(<<"HIST", ToJson([cfg |-> [declA |-> o.declA, declM |-> o.declM], events |-> hist])>>)
=============================================================================
