------------------------------- MODULE HpkeMC -------------------------------
EXTENDS HpkeChannel, Json
CONSTANTS NMsgs, MaxDeliveries, EmitHist, Matching
VARIABLES s, n, hist
vars == <<s, n, hist>>
Init == s = HInit(Matching) /\ n = 0 /\ hist = <<>>
Events == {[op |-> "seal"]} \cup [op : {"unseal"}, src : 1..NMsgs, mut : Muts]
Next == \E e \in Events :
          /\ (e.op = "seal" => Len(s.sent) < NMsgs /\ Len(hist) < NMsgs + MaxDeliveries)
          /\ (e.op = "unseal" => n < MaxDeliveries /\ e.src <= Len(s.sent))
          /\ s' = HStep(s, e) /\ n' = IF e.op = "unseal" THEN n + 1 ELSE n
          /\ hist' = IF EmitHist THEN Append(hist, e) ELSE hist
Spec == Init /\ [][Next]_vars
\* the receiver outputs exactly a prefix of the genuine plaintexts, in order, each once
InOrderOnce == \A i \in 1..Len(s.out) : s.out[i] = i
\* RFC 9180 5.2: a rejected message leaves the context able to open the next genuine message
RecoversAfterRejection == [][(s'.exc = "ValueError" /\ s'.sent = s.sent) => s'.rseq = s.rseq]_vars
NextGenuineOpens == (s.matching /\ s.rseq < Len(s.sent) /\ s.rseq < MaxSeq) => HUnseal(s, s.rseq + 1, "none").exc = "none"
NoncesDistinct == \A i, j \in 1..Len(s.sent) : i # j => s.sent[i].seq # s.sent[j].seq
SeqAgreesWithOutput == s.rseq = Len(s.out)
NothingOpensWhenSetupDiffers == ~s.matching => s.out = <<>>
NeverSealAtLimit == \A i \in 1..Len(s.sent) : s.sent[i].seq < MaxSeq
Emit == (EmitHist /\ (n = MaxDeliveries \/ Len(hist) = NMsgs + MaxDeliveries)) => PrintT(<<"HIST", ToJson(hist)>>)
=============================================================================
