------------------------------- MODULE SignChannel -------------------------------
(* System layer for C04: a signer signs one message; an adversary -- who may be the signer himself: several operators re-sign a
   malformed encoded message or a non-canonical R with the private key -- derives the (message, signature, key, parameters) tuple
   it offers to the verifier with a sequence of operators; the verifier accepts or raises ValueError.

   The signature is SYMBOLIC and structured: its components (r, s | R, S | the RSA signature representative and the shape of the
   encoded message it opens to) are words over the component operators, `wrap` is the way the components are serialised (the
   canonical encoding of the scheme or a named deviation), and `by` is the serialisation as a sequence of symbolic bytes
   <<index, flipmask>> relative to that serialisation, so that the model knows exactly when an operator sequence has led back to the
   genuine signature or to its KNOWN twin:
        ECDSA  (r, n - s) is valid whenever (r, s) is (the abscissa of -k G is that of k G)       -> "accept"
        DSA    (r, q - s) is NOT valid (g^-k mod p is unrelated to g^k mod p)                      -> "reject"
        EdDSA  R of low order in canonical encoding, S = k a: the cofactored equation holds        -> "either" (SgEdCofactorGap)
        v1.5   DigestInfo without NULL parameters, re-signed                                       -> "either" (SgV15NoNullParameters)
   Everything else that is not the genuine tuple is "reject": the standard does not define it as valid.  The model is the generator
   of the operator sequences replayed on the real schemes (spec -> code); the property verdict on each replayed tuple comes from
   data/Signatures through trace/SignTrace, which also cross-checks this model's verdict against the concrete bytes. *)
EXTENDS Integers, Sequences, Bitwise, TLC, Json
CONSTANTS MaxOps, MLen, SLen
Schemes == {"v15", "pss", "dsa", "ecdsa", "eddsa"}
EncsOf(sch) == IF sch \in {"dsa", "ecdsa"} THEN {"binary", "der"} ELSE {"raw"}
Id(n) == [i \in 1..n |-> <<i, 0>>]
Genuine == [msg |-> Id(MLen), key |-> 0, par |-> {}, r |-> <<>>, s |-> <<>>, wrap |-> "canon", by |-> Id(SLen)]
VARIABLES cfg, offered, ops
vars == <<cfg, offered, ops>>
Init == /\ \E sch \in Schemes : \E e \in EncsOf(sch) : cfg = [scheme |-> sch, enc |-> e]
        /\ offered = Genuine /\ ops = <<>>

\* ------------------------------------------------------------------ operators on byte strings (message, serialised signature)
PosIdx(s, p) == CASE p = "first" -> 1 [] p = "mid" -> (Len(s) \div 2) + 1 [] p = "last" -> Len(s)
FieldOf(f) == IF f = "msg" THEN offered.msg ELSE offered.by
SetField(f, v) == IF f = "msg" THEN [offered EXCEPT !.msg = v] ELSE [offered EXCEPT !.by = v]
Flip(f, p, bit) == /\ Len(FieldOf(f)) > 0
                   /\ LET s == FieldOf(f)  i == PosIdx(s, p)  b == s[i] IN offered' = SetField(f, [s EXCEPT ![i] = <<b[1], b[2] ^^ bit>>])
                   /\ ops' = Append(ops, [op |-> "flip", f |-> f, pos |-> p, bit |-> bit])
TruncBack(f) == /\ Len(FieldOf(f)) > 0 /\ offered' = SetField(f, SubSeq(FieldOf(f), 1, Len(FieldOf(f)) - 1))
                /\ ops' = Append(ops, [op |-> "truncback", f |-> f])
TruncFront(f) == /\ Len(FieldOf(f)) > 0 /\ offered' = SetField(f, SubSeq(FieldOf(f), 2, Len(FieldOf(f))))
                 /\ ops' = Append(ops, [op |-> "truncfront", f |-> f])
Extend(f, v) == /\ offered' = SetField(f, Append(FieldOf(f), <<0, v + 256>>)) /\ ops' = Append(ops, [op |-> "extend", f |-> f, v |-> v])      \* a foreign byte
Prepend(f, v) == /\ offered' = SetField(f, <<<<0, v + 256>>>> \o FieldOf(f)) /\ ops' = Append(ops, [op |-> "prepend", f |-> f, v |-> v])
Empty(f) == /\ Len(FieldOf(f)) > 0 /\ offered' = SetField(f, <<>>) /\ ops' = Append(ops, [op |-> "empty", f |-> f])
\* ------------------------------------------------------------------ other key, other parameters at the verifier
OtherKey == /\ offered' = [offered EXCEPT !.key = 1 - @] /\ ops' = Append(ops, [op |-> "otherkey"])
ParsOf(sch) == CASE sch = "v15" -> {"hash"} [] sch = "pss" -> {"hash", "salt", "mgf"} [] sch \in {"dsa", "ecdsa"} -> {"hash"} [] sch = "eddsa" -> {"ctx", "ph"}
OtherPar(p) == /\ p \in ParsOf(cfg.scheme)
               /\ offered' = [offered EXCEPT !.par = IF p \in @ THEN @ \ {p} ELSE @ \cup {p}] /\ ops' = Append(ops, [op |-> "par", p |-> p])
\* ------------------------------------------------------------------ operators on the components; only while the serialisation is untouched
Pristine == offered.wrap = "canon" /\ offered.by = Id(SLen)
Dss == cfg.scheme \in {"dsa", "ecdsa"}
\* r: r + q, 0, q      s: q - s (twice = identity), s + q, 0, q
CompR(what) == /\ Pristine /\ offered.r = <<>>
               /\ \/ Dss /\ what \in {"addq", "zero", "setq"}
                  \/ cfg.scheme = "eddsa" /\ what \in {"lowcanon", "lownoncanon", "signbit", "highbits"}       \* re-signed by the key holder: S = k a for the new R
               /\ offered' = [offered EXCEPT !.r = <<what>>] /\ ops' = Append(ops, [op |-> "comp", c |-> "r", what |-> what])
CompS(what) == /\ Pristine
               /\ \/ Dss /\ what = "neg" /\ offered.s \in {<<>>, <<"neg">>}
                  \/ Dss /\ what = "addq" /\ offered.s \in {<<>>, <<"neg">>}
                  \/ Dss /\ what \in {"zero", "setq"} /\ Len(offered.s) <= 1
                  \/ cfg.scheme = "eddsa" /\ what \in {"addq", "setq", "zero"} /\ offered.s = <<>>             \* S + L, S = L, S = 0
                  \/ cfg.scheme \in {"v15", "pss"} /\ what = "addq" /\ offered.s = <<>>                        \* signature representative + n
               /\ offered' = [offered EXCEPT !.s = IF what = "neg" /\ @ = <<"neg">> THEN <<>> ELSE IF what \in {"zero", "setq"} THEN <<what>> ELSE Append(@, what)]
               /\ ops' = Append(ops, [op |-> "comp", c |-> "s", what |-> what])
\* ------------------------------------------------------------------ serialisations that deviate from the canonical one
WrapsOf(sch, enc) ==
   CASE sch \in {"dsa", "ecdsa"} /\ enc = "der" -> {"longform", "leadzero_r", "leadzero_s", "trailing", "indefinite", "three", "one", "bininstead", "settag", "negative_r"}
     [] sch \in {"dsa", "ecdsa"} /\ enc = "binary" -> {"padded", "stripped", "derinstead"}
     [] sch = "eddsa" -> {"Rshort", "Slong", "swapped"}
     \* RSA: the key holder signs an encoded message that deviates from the scheme's
     [] sch = "v15" -> {"nonull", "shortps", "bt2", "psbyte", "garbage"}
     [] sch = "pss" -> {"trailer", "topbit", "psbyte", "sep", "saltlonger", "overflow"}
Wrap(w) == /\ Pristine /\ w \in WrapsOf(cfg.scheme, cfg.enc)
           /\ offered' = [offered EXCEPT !.wrap = w] /\ ops' = Append(ops, [op |-> "wrap", w |-> w])
Next == /\ Len(ops) < MaxOps /\ UNCHANGED cfg
        /\ \/ \E f \in {"msg", "sig"}, p \in {"first", "mid", "last"}, bit \in {1, 128} : Flip(f, p, bit)
           \/ \E f \in {"msg", "sig"} : TruncBack(f) \/ TruncFront(f) \/ Extend(f, 0) \/ Extend(f, 255) \/ Prepend(f, 0) \/ Empty(f)
           \/ OtherKey \/ \E p \in {"hash", "salt", "mgf", "ctx", "ph"} : OtherPar(p)
           \/ \E w \in {"addq", "zero", "setq", "lowcanon", "lownoncanon", "signbit", "highbits"} : CompR(w)
           \/ \E w \in {"neg", "addq", "zero", "setq"} : CompS(w)
           \/ \E w \in WrapsOf(cfg.scheme, cfg.enc) : Wrap(w)
Spec == Init /\ [][Next]_vars

\* ------------------------------------------------------------------ the ideal verdict
Around == offered.msg = Id(MLen) /\ offered.key = 0 /\ offered.par = {} /\ offered.by = Id(SLen)        \* everything but the components is genuine
Verdict ==
   IF ~Around THEN "reject"
   ELSE IF offered.wrap # "canon" THEN (IF cfg.scheme = "v15" /\ offered.wrap = "nonull" /\ offered.s = <<>> THEN "either" ELSE "reject")
   ELSE IF offered.r = <<>> /\ offered.s = <<>> THEN "accept"
   ELSE IF cfg.scheme = "ecdsa" /\ offered.r = <<>> /\ offered.s = <<"neg">> THEN "accept"
   ELSE IF cfg.scheme = "eddsa" /\ offered.r = <<"lowcanon">> /\ offered.s = <<>> THEN "either"
   ELSE "reject"
\* the class of the first reason for which the offered tuple is not the genuine one (part of the name of a finding)
WrapClass(w) == CASE w = "longform" -> "DER with a long-form length" [] w \in {"leadzero_r", "leadzero_s"} -> "DER INTEGER with a leading zero octet"
                  [] w = "trailing" -> "DER with a trailing octet" [] w = "indefinite" -> "BER indefinite length" [] w = "three" -> "SEQUENCE with three members"
                  [] w = "one" -> "SEQUENCE with one member" [] w = "bininstead" -> "binary encoding offered as DER" [] w = "settag" -> "SET instead of SEQUENCE"
                  [] w = "negative_r" -> "negative INTEGER" [] w \in {"padded", "stripped"} -> "binary encoding of the wrong length" [] w = "derinstead" -> "DER encoding offered as binary"
                  [] w \in {"Rshort", "Slong"} -> "R or S of the wrong length" [] w = "swapped" -> "S || R instead of R || S"
                  [] w = "nonull" -> "DigestInfo without NULL parameters" [] w = "shortps" -> "padding string shorter than the block requires"
                  [] w = "bt2" -> "block type 02" [] w = "psbyte" -> "padding octet changed" [] w = "garbage" -> "octets after the DigestInfo"
                  [] w = "trailer" -> "trailer field is not 0xbc" [] w = "topbit" -> "leftmost bits not zero" [] w = "sep" -> "separator 01 changed"
                  [] w = "saltlonger" -> "salt of another length" [] w = "overflow" -> "encoded message longer than emLen"
CompClass(c, w) == CASE w = "addq" -> (IF cfg.scheme \in {"v15", "pss"} THEN "signature representative not below the modulus" ELSE c \o " plus the group order")
                     [] w = "zero" -> c \o " equal to zero" [] w = "setq" -> c \o " equal to the group order" [] w = "neg" -> "s replaced by q - s"
                     [] w = "lowcanon" -> "R of low order" [] w = "lownoncanon" -> "non-canonical R (ordinate not below p)"
                     [] w = "signbit" -> "non-canonical R (x = 0 with the sign bit set)" [] w = "highbits" -> "non-canonical R (Ed448 final octet with low bits set)"
Class == IF offered.wrap # "canon" THEN WrapClass(offered.wrap)
         ELSE IF Len(offered.by) # SLen THEN "truncated or extended signature"
         ELSE IF offered.by # Id(SLen) THEN "modified signature"
         ELSE IF offered.r # <<>> THEN CompClass(IF cfg.scheme = "eddsa" THEN "R" ELSE "r", offered.r[Len(offered.r)])
         ELSE IF offered.s # <<>> THEN CompClass(IF cfg.scheme = "eddsa" THEN "S" ELSE "s", offered.s[Len(offered.s)])
         ELSE IF offered.key # 0 THEN "other key"
         ELSE IF offered.par # {} THEN (IF "hash" \in offered.par THEN "other hash" ELSE IF "salt" \in offered.par THEN "other salt length" ELSE IF "mgf" \in offered.par THEN "other mask generation function"
                                        ELSE IF "ctx" \in offered.par THEN "other context" ELSE "prehash flag changed")
         ELSE IF offered.msg # Id(MLen) THEN "modified message"
         ELSE "genuine"
\* ------------------------------------------------------------------ sanity of the operator algebra
ReplayAccepted == ops = <<>> => Verdict = "accept"
TwinOfTwinIsGenuine == (Len(ops) = 2 /\ ops[1] = [op |-> "comp", c |-> "s", what |-> "neg"] /\ ops[2] = ops[1]) => offered = Genuine /\ Verdict = "accept"
OnlyKnownMalleability == (Verdict = "accept" /\ offered # Genuine) => cfg.scheme = "ecdsa" /\ offered = [Genuine EXCEPT !.s = <<"neg">>]
DsaHasNoTwin == (cfg.scheme = "dsa" /\ offered.s = <<"neg">>) => Verdict = "reject"
EitherOnlyWhereNamed == Verdict = "either" => \/ cfg.scheme = "eddsa" /\ offered = [Genuine EXCEPT !.r = <<"lowcanon">>]
                                              \/ cfg.scheme = "v15" /\ offered = [Genuine EXCEPT !.wrap = "nonull"]
InSeq(x, s) == \E i \in 1..Len(s) : s[i] = x
OutOfRangeRejected == (\E w \in {"addq", "zero", "setq", "lownoncanon", "signbit", "highbits"} : InSeq(w, offered.r) \/ InSeq(w, offered.s)) => Verdict = "reject"
NoForeignByteUnlessRejected == Verdict # "reject" => /\ \A i \in 1..Len(offered.by) : offered.by[i] = <<i, 0>>
                                                    /\ \A i \in 1..Len(offered.msg) : offered.msg[i] = <<i, 0>>
ClassConsistent == (Class = "genuine") <=> (offered = Genuine)
Emit == PrintT(<<"HIST", ToJson([scheme |-> cfg.scheme, enc |-> cfg.enc, ops |-> ops, verdict |-> Verdict, cls |-> Class])>>)
=============================================================================
