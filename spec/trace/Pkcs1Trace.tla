------------------------------- MODULE Pkcs1Trace -------------------------------
(* C07 trace specification.  One record per trace; TLC computes the outcome RFC 8017 defines for the recorded call with
   data/PKCS1 and names the first clause the real outcome violates ("ok" otherwise).  Families:
   "v15dec"   PKCS1_v1_5.decrypt(ct, sentinel, expected_pt_len) with the block `em` the key's _decrypt_to_bytes returned
   "oaepdec"  PKCS1_OAEP.new(key, hashAlgo, mgfunc, label).decrypt(ct), likewise
   "rt15" / "rtoaep"   encrypt(msg) then decrypt of the result: refusal of messages longer than the maximum, structure of the
              encoded message handed to the key's _encrypt, the message returned
   Ciphertexts whose length is not k or that are not below the modulus must raise ValueError (7.1.2 / 7.2.2 step 1, RSADP).
   For keys with e = 3 the record carries quotient witnesses and TLC checks EM^3 = c (mod n): the logged block is the RSA
   decryption of the offered ciphertext (cubing is a bijection modulo n for these keys).
   Clauses starting with "harness:" are recorder inconsistencies (machinery failures), never verdicts on the library. *)
EXTENDS PKCS1, Json, IOUtils
BN == INSTANCE BigNat          \* instantiated, not extended: its ASSUMEs are the business of ./check setup, not of every shard
Traces == JsonDeserialize(IOEnv.TRACE_FILE)

RECURSIVE CmpBE(_,_,_)
CmpBE(a, b, i) == IF i > Len(a) THEN 0 ELSE IF a[i] < b[i] THEN 0 - 1 ELSE IF a[i] > b[i] THEN 1 ELSE CmpBE(a, b, i + 1)     \* equal lengths
NotBelow(ct, nb) == CmpBE(ct, nb, 1) >= 0
\* EM^3 = c (mod n) with untrusted quotients: EM^2 = q1 n + r1, r1 EM = q2 n + c
CubeLink(e, em, ct) == LET n == BN!BnOfBytesBE(e.nbytes)  x == BN!BnOfBytesBE(em) IN
   /\ BN!BnIsNat(e.q1) /\ BN!BnIsNat(e.r1) /\ BN!BnIsNat(e.q2)
   /\ BN!BnIsModWitness(BN!BnSqr(x), n, e.q1, e.r1)
   /\ BN!BnIsModWitness(BN!BnMul(e.r1, x), n, e.q2, BN!BnOfBytesBE(ct))

\* ------------------------------------------------------------------ what every decrypt call must do before decoding
\* "go": the call reached the decoder with a k-byte block; anything else is the verdict
RefusalVerdict(e, what) == IF e.exc = "ValueError" THEN "ok" ELSE IF e.exc = "none" THEN "accepted " \o what ELSE "raised " \o e.exc \o " instead of ValueError for " \o what
DecPre(e, tooShortForHash) ==
   LET k == Len(e.nbytes) IN
   IF k = 0 \/ e.nbytes[1] = 0 THEN "harness: modulus not in minimal big-endian form"
   ELSE IF Len(e.ct) # k THEN RefusalVerdict(e, "a ciphertext of the wrong length")
   ELSE IF NotBelow(e.ct, e.nbytes) THEN RefusalVerdict(e, "a ciphertext that is not below the modulus")
   ELSE IF tooShortForHash THEN RefusalVerdict(e, "an OAEP ciphertext although k < 2 hLen + 2")
   ELSE IF ~e.reached THEN (IF e.exc = "none" THEN "harness: no decrypted block was recorded"
                            ELSE "raised " \o e.exc \o " for a ciphertext of the right length below the modulus")
   ELSE IF Len(e.em) # k THEN "harness: the decrypted block does not have k bytes"
   ELSE IF e.has_wit /\ ~CubeLink(e, e.em, e.ct) THEN "harness: the logged block is not the cube root of the ciphertext modulo n"
   ELSE "go"

\* ------------------------------------------------------------------ PKCS#1 v1.5
\* An observed result counts as a message only when it is non-empty: an empty byte string carries no evidence of being
\* the block's plaintext and is classified as "neither" (unless the message IS empty and was expected).
IsSentinel(e) == IF e.skind = "bytes" THEN e.okind = "bytes" /\ e.out = e.sentinel ELSE e.okind = "sentinel_object"
V15Verdict(e) ==
   LET wf == V15WellFormed(e.em)
       x == e.expected
       cand == IF V15HasSep(e.em) THEN V15Msg(e.em) ELSE <<>>
       r == V15Decode(e.em, e.sentinel, x)
   IN IF e.intended # "any" /\ e.intended # r[1] THEN "harness: the block is not in the class the model stated"
      ELSE IF e.exc # "none" THEN "raised " \o e.exc
      ELSE IF r[1] = "msg" THEN
           (IF e.okind = "bytes" /\ e.out = r[2] THEN "ok"
            ELSE IF IsSentinel(e) THEN "returned the sentinel for a correctly padded block"
            ELSE "returned neither the message nor the sentinel")
      ELSE IF IsSentinel(e) THEN "ok"
      ELSE IF wf THEN (IF e.okind = "bytes" /\ e.out = cand /\ e.out # <<>> THEN "returned a message that does not have the expected length"
                       ELSE "returned neither the message nor the sentinel")
      ELSE IF e.okind = "bytes" /\ V15HasSep(e.em) /\ e.out = cand /\ e.out # <<>> THEN "returned plaintext for an incorrectly padded block"
      ELSE "returned neither the message nor the sentinel"
V15DecVerdict(e) == LET p == DecPre(e, FALSE) IN IF p # "go" THEN p ELSE V15Verdict(e)

\* ------------------------------------------------------------------ OAEP
OaepVerdict(e) ==
   LET r == OaepDecodeNamed(e.em, e.hash, e.mgf, e.label) IN
   IF e.intended # "any" /\ e.intended # r[1] THEN "harness: the block is not in the class the model stated"
   ELSE IF e.exc = "none" THEN
        (IF r[1] # "ok" THEN "OAEP accepted an encoded message that violates the decoding rules"
         ELSE IF e.okind # "bytes" \/ e.out # r[2] THEN "OAEP returned something else than the encoded message"
         ELSE "ok")
   ELSE IF e.exc = "ValueError" THEN (IF r[1] = "ok" THEN "OAEP rejected a valid encoded message" ELSE "ok")
   ELSE "raised " \o e.exc
OaepDecVerdict(e) == LET p == DecPre(e, Len(e.nbytes) < (2 * HLenOf(e.hash)) + 2) IN IF p # "go" THEN p ELSE OaepVerdict(e)

\* ------------------------------------------------------------------ round trips
RtVerdict(e) ==
   LET k == Len(e.nbytes)
       v15 == e.fam = "rt15"
       ml == Len(e.msg)
       can == IF v15 THEN V15CanEncode(k, ml) ELSE OaepCanEncode(k, HLenOf(e.hash), ml)
   IN IF k = 0 \/ e.nbytes[1] = 0 THEN "harness: modulus not in minimal big-endian form"
      ELSE IF ~can THEN (IF e.enc_exc = "ValueError" THEN "ok"
                         ELSE IF e.enc_exc = "none" THEN "message longer than the maximum was not refused"
                         ELSE "raised " \o e.enc_exc \o " instead of ValueError for a message longer than the maximum")
      ELSE IF e.enc_exc # "none" THEN "encryption of a message that is not longer than the maximum raised " \o e.enc_exc
      ELSE IF ~e.enc_called \/ Len(e.em_enc) # k THEN "encryption did not hand a k-byte encoded message to the RSA primitive"
      ELSE IF v15 /\ ~V15IsEncodingOf(e.em_enc, e.msg, k) THEN "encryption: the encoded message is not 00 02 PS 00 M with at least eight non-zero padding bytes"
      ELSE IF ~v15 /\ ~e.seed_used THEN "harness: the encoder did not draw the seed from randfunc"
      ELSE IF ~v15 /\ e.em_enc # OaepEncodeNamed(e.msg, e.hash, e.mgf, e.label, e.seed, k) THEN "encryption: the encoded message is not EME-OAEP of the message, label and seed"
      ELSE IF Len(e.ct) # k THEN "the ciphertext does not have k bytes"
      ELSE IF e.has_wit /\ ~CubeLink(e, e.em_enc, e.ct) THEN "harness: the ciphertext is not the cube of the encoded message modulo n"
      ELSE IF e.dec_exc # "none" THEN "decryption of a genuine ciphertext raised " \o e.dec_exc
      ELSE IF e.em_dec # e.em_enc THEN "the RSA primitives did not return the block that was encrypted"
      ELSE IF e.okind # "bytes" \/ e.out # e.msg THEN "decryption did not return the message that was encrypted"
      ELSE "ok"

Verdict(e) == CASE e.fam = "v15dec" -> V15DecVerdict(e) [] e.fam = "oaepdec" -> OaepDecVerdict(e)
                [] e.fam \in {"rt15", "rtoaep"} -> RtVerdict(e) [] OTHER -> "harness: unknown family"
VARIABLES t
TInit == t = 1
TNext == /\ t <= Len(Traces)
         /\ PrintT(<<"VERDICT", Traces[t].tid, 1, Verdict(Traces[t])>>)
         /\ t' = t + 1
=============================================================================
