------------------------------- MODULE Sampler -------------------------------
(* Implementation-shaped model of the random-integer samplers of the library, as machines over an ENTROPY TAPE (the
   sequence of bytes the random source returns):     read n bytes -> mask -> compare -> accept | retry.

     Integer.random(exact_bits | max_bits), Integer.random_range(min_inclusive, max_inclusive | max_exclusive)
                                                                                      lib/Crypto/Math/_IntegerBase.py
     StrongRandom.getrandbits, randrange, randint, choice, shuffle, sample            lib/Crypto/Random/random.py
     getRandomInteger, getRandomRange, getRandomNBitInteger                           lib/Crypto/Util/number.py

   One ATTEMPT draws SmpNBytes(bits) bytes and turns them into a CANDIDATE, a big-endian byte string whose top byte
   carries SmpSig(bits) bits.  The three code shapes differ in which byte is the top one and how it is cut down:
     "msb_mask"   Integer.random:      msb = randfunc(1); [exact_bits: msb |= 1 << (sig-1)]; msb &= (1 << sig) - 1;
                                       then randfunc(nbytes - 1) supplies the lower bytes
     "all_mask"   getrandbits(k):      mask & bytes_to_long(randfunc(ceil_div(k, 8)))   -- the first byte read is the top one
     "low_shift"  getRandomInteger(N): S = randfunc(N >> 3) are the LOW bytes; if N % 8 # 0 one more byte is read and its
                                       TOP N % 8 bits (byte >> (8 - N % 8)) become the top byte
   A sampler is a record  sp = [shape, bits, exact, cmp, bound]:  the candidate is accepted iff cmp = "none", or
   candidate <= bound ("le"), or candidate < bound ("lt"), bound being a big-endian byte string of the same length; a
   rejected attempt changes nothing but the position on the tape.  Candidates are byte strings so that the same machine
   runs on toy sizes (model checking, values through SmpVal) and on cryptographic sizes (trace validation, values through
   BigNat).  BW = bits per entropy byte: 8 in the library; the multi-draw models (shuffle, sample) are also explored with
   4-bit "bytes".

   The machine state is o = [st, cb, drawn, attempts]: st = "run" | "done" | "starved" (the tape ended inside an attempt:
   never a verdict about the library, only about the tape supplied), cb = accepted candidate, drawn = bytes consumed. *)
EXTENDS Integers, Sequences, FiniteSets, SequencesExt, TLC
CONSTANTS BW
BB == 2 ^ BW
RECURSIVE SmpBitLen(_)
SmpBitLen(n) == IF n = 0 THEN 0 ELSE 1 + SmpBitLen(n \div 2)           \* int.bit_length(), number.size()
SmpSizeInBits(n) == IF n = 0 THEN 1 ELSE SmpBitLen(n)                  \* Integer(n).size_in_bits(): 1 for zero
SmpCeilDiv(a, b) == (a + b - 1) \div b
SmpNBytes(bits) == IF bits = 0 THEN 0 ELSE ((bits - 1) \div BW) + 1
SmpSig(bits) == bits - (BW * (SmpNBytes(bits) - 1))                    \* significant bits of the top byte: 1..BW
SmpTail(d) == SubSeq(d, 2, Len(d))
\* ------------------------------------------------------------------ one attempt: candidate from the bytes drawn
SmpCand(sp, d) ==
   IF sp.bits = 0 THEN <<>>
   ELSE LET sig == SmpSig(sp.bits) IN
     CASE sp.shape = "msb_mask" -> LET m0 == d[1] % (2 ^ sig)
                                       m == IF sp.exact /\ m0 < 2 ^ (sig - 1) THEN m0 + 2 ^ (sig - 1) ELSE m0
                                   IN <<m>> \o SmpTail(d)
       [] sp.shape = "all_mask" -> <<d[1] % (2 ^ sig)>> \o SmpTail(d)
       [] sp.shape = "low_shift" -> LET q == sp.bits \div BW  odd == sp.bits % BW
                                    IN IF odd = 0 THEN d ELSE <<d[q + 1] \div (2 ^ (BW - odd))>> \o SubSeq(d, 1, q)
RECURSIVE SmpLexCmp(_,_,_)
SmpLexCmp(a, b, i) == IF i > Len(a) THEN 0 ELSE IF a[i] < b[i] THEN -1 ELSE IF a[i] > b[i] THEN 1 ELSE SmpLexCmp(a, b, i + 1)
SmpAccept(sp, cb) == CASE sp.cmp = "none" -> TRUE
                       [] sp.cmp = "le" -> Len(sp.bound) = Len(cb) /\ SmpLexCmp(cb, sp.bound, 1) <= 0
                       [] sp.cmp = "lt" -> Len(sp.bound) = Len(cb) /\ SmpLexCmp(cb, sp.bound, 1) < 0
\* ------------------------------------------------------------------ the step machine and its run over a tape
SmpInit == [st |-> "run", cb |-> <<>>, drawn |-> 0, attempts |-> 0]
SmpStep(sp, o, d) ==                  \* d = the SmpNBytes(sp.bits) bytes of one attempt
   LET cb == SmpCand(sp, d) IN
   IF SmpAccept(sp, cb) THEN [st |-> "done", cb |-> cb, drawn |-> o.drawn + Len(d), attempts |-> o.attempts + 1]
   ELSE [o EXCEPT !.drawn = o.drawn + Len(d), !.attempts = o.attempts + 1]
RECURSIVE SmpRunFrom(_,_,_)
SmpRunFrom(sp, tape, o) ==
   LET n == SmpNBytes(sp.bits) IN
   IF o.st # "run" THEN o
   ELSE IF o.drawn + n > Len(tape) THEN [o EXCEPT !.st = "starved"]
   ELSE SmpRunFrom(sp, tape, SmpStep(sp, o, SubSeq(tape, o.drawn + 1, o.drawn + n)))
SmpRun(sp, tape) == SmpRunFrom(sp, tape, SmpInit)
\* ------------------------------------------------------------------ small numbers (values below 2^31)
RECURSIVE SmpValFrom(_,_,_)
SmpValFrom(cb, i, acc) == IF i > Len(cb) THEN acc ELSE SmpValFrom(cb, i + 1, (acc * BB) + cb[i])
SmpVal(cb) == SmpValFrom(cb, 1, 0)
SmpBytesOfNat(n, len) == [i \in 1..len |-> (n \div (BB ^ (len - i))) % BB]
\* ------------------------------------------------------------------ the public functions as samplers
SmpIntegerRandom(bits, exact) == [shape |-> "msb_mask", bits |-> bits, exact |-> exact, cmp |-> "none", bound |-> <<>>]      \* bits >= 1
\* random_range: norm_maximum = max_inclusive - min_inclusive (max_exclusive - 1 - min_inclusive), bits = its size_in_bits();
\* candidate = Integer.random(max_bits = bits); accepted iff 0 <= candidate <= norm_maximum; result = candidate + min_inclusive
SmpRangeOfBound(boundBytes, bits) == [shape |-> "msb_mask", bits |-> bits, exact |-> FALSE, cmp |-> "le", bound |-> boundBytes]
SmpIntegerRandomRange(normMax) == LET bits == SmpSizeInBits(normMax) IN SmpRangeOfBound(SmpBytesOfNat(normMax, SmpNBytes(bits)), bits)
SmpGetrandbits(k) == [shape |-> "all_mask", bits |-> k, exact |-> FALSE, cmp |-> "none", bound |-> <<>>]
\* randrange: num_choices = ceil_div(stop - start, step); r = getrandbits(size(num_choices)) until r < num_choices; start + step * r
SmpRandrange(numChoices) == LET bits == SmpBitLen(numChoices)
   IN [shape |-> "all_mask", bits |-> bits, exact |-> FALSE, cmp |-> "lt", bound |-> SmpBytesOfNat(numChoices, SmpNBytes(bits))]
SmpGetRandomInteger(N) == [shape |-> "low_shift", bits |-> N, exact |-> FALSE, cmp |-> "none", bound |-> <<>>]
\* getRandomRange(a, b): range_ = b - a - 1; bits = size(range_); value = getRandomInteger(bits) until value <= range_; a + value
SmpGetRandomRange(range) == LET bits == SmpBitLen(range)
   IN [shape |-> "low_shift", bits |-> bits, exact |-> FALSE, cmp |-> "le", bound |-> SmpBytesOfNat(range, SmpNBytes(bits))]
\* ------------------------------------------------------------------ the public functions by name, small arguments:
\* an instance is [api, p1, p2, p3]; SmpSpOf = its sampler, SmpRes = its result from the accepted candidate, SmpRng = its
\* documented range (element j is lo + step * j, j < size)
SmpI(api, p1, p2, p3) == [api |-> api, p1 |-> p1, p2 |-> p2, p3 |-> p3]
SmpNumChoices(i) == CASE i.api = "randrange" -> SmpCeilDiv(i.p2 - i.p1, i.p3)
                   [] i.api = "randint" -> (i.p2 + 1) - i.p1
                   [] i.api = "choice" -> i.p1
\* the documented range as [lo, step, size]: element j is lo + step * j
SmpRng(i) == CASE i.api = "random_max" -> [lo |-> 0, step |-> 1, size |-> 2 ^ i.p1]
            [] i.api = "random_exact" -> [lo |-> 2 ^ (i.p1 - 1), step |-> 1, size |-> 2 ^ (i.p1 - 1)]
            [] i.api = "random_range" -> [lo |-> i.p1, step |-> 1, size |-> (i.p2 - i.p1) + 1]
            [] i.api = "random_range_excl" -> [lo |-> i.p1, step |-> 1, size |-> i.p2 - i.p1]
            [] i.api = "getrandbits" -> [lo |-> 0, step |-> 1, size |-> 2 ^ i.p1]
            [] i.api = "randrange" -> [lo |-> i.p1, step |-> i.p3, size |-> SmpNumChoices(i)]
            [] i.api = "randint" -> [lo |-> i.p1, step |-> 1, size |-> SmpNumChoices(i)]
            [] i.api = "choice" -> [lo |-> 0, step |-> 1, size |-> i.p1]
            [] i.api = "getRandomInteger" -> [lo |-> 0, step |-> 1, size |-> 2 ^ i.p1]
            [] i.api = "getRandomRange" -> [lo |-> i.p1, step |-> 1, size |-> i.p2 - i.p1]
            [] i.api = "getRandomNBitInteger" -> [lo |-> 2 ^ (i.p1 - 1), step |-> 1, size |-> 2 ^ (i.p1 - 1)]
SmpRngElem(i, j) == SmpRng(i).lo + (SmpRng(i).step * j)
SmpRngSet(i) == {SmpRngElem(i, j) : j \in 0..(SmpRng(i).size - 1)}
SmpSpOf(i) == CASE i.api = "random_max" -> SmpIntegerRandom(i.p1, FALSE)
               [] i.api = "random_exact" -> SmpIntegerRandom(i.p1, TRUE)
               [] i.api = "random_range" -> SmpIntegerRandomRange(i.p2 - i.p1)
               [] i.api = "random_range_excl" -> SmpIntegerRandomRange((i.p2 - 1) - i.p1)
               [] i.api = "getrandbits" -> SmpGetrandbits(i.p1)
               [] i.api \in {"randrange", "randint", "choice"} -> SmpRandrange(SmpNumChoices(i))
               [] i.api = "getRandomInteger" -> SmpGetRandomInteger(i.p1)
               [] i.api = "getRandomRange" -> SmpGetRandomRange((i.p2 - i.p1) - 1)
               [] i.api = "getRandomNBitInteger" -> SmpGetRandomInteger(i.p1 - 1)
\* result of the function from the accepted candidate value c
SmpRes(i, c) == CASE i.api \in {"random_max", "random_exact", "getrandbits", "getRandomInteger", "choice"} -> c
                  [] i.api \in {"random_range", "random_range_excl", "getRandomRange", "randint"} -> i.p1 + c
                  [] i.api = "randrange" -> i.p1 + (i.p3 * c)
                  [] i.api = "getRandomNBitInteger" -> c + 2 ^ (i.p1 - 1)         \* value | 2^(N-1), value < 2^(N-1)
\* a sampler that reduces modulo the range size instead of rejecting: NOT what the library does; the uniformity check must refuse it
SmpModuloVariant(sp) == [sp EXCEPT !.cmp = "none"]
-----------------------------------------------------------------------------
(* Multi-draw selections of StrongRandom, as functions of the tape.  Results: [st, out, drawn].
   shuffle(x): for i = len-1 downto 1: j = randrange(0, i+1); swap x[i], x[j]            (Fisher-Yates)
   sample(population, k): k times: r = randrange(len) until r not yet selected; append population[r] *)
SmpSwap(arr, i, j) == [arr EXCEPT ![i] = arr[j], ![j] = arr[i]]
RECURSIVE SmpShuffleFrom(_,_,_,_,_)
\* i = the 0-based index of the loop, arr is 1-based; naive = TRUE draws j from the whole list at every step (the classic biased
\* shuffle, NOT the library: the fibre count must refuse it)
SmpShuffleFrom(arr, i, tape, pos, naive) ==
   IF i < 1 THEN [st |-> "done", out |-> arr, drawn |-> pos]
   ELSE LET r == SmpRunFrom(SmpRandrange(IF naive THEN Len(arr) ELSE i + 1), tape, [SmpInit EXCEPT !.drawn = pos]) IN
        IF r.st # "done" THEN [st |-> "starved", out |-> arr, drawn |-> r.drawn]
        ELSE SmpShuffleFrom(SmpSwap(arr, i + 1, SmpVal(r.cb) + 1), i - 1, tape, r.drawn, naive)
SmpShuffle(n, tape) == SmpShuffleFrom([i \in 1..n |-> i - 1], n - 1, tape, 0, FALSE)        \* shuffles the list [0, 1, ..., n-1]
SmpShuffleNaive(n, tape) == SmpShuffleFrom([i \in 1..n |-> i - 1], n - 1, tape, 0, TRUE)
RECURSIVE SmpSampleFrom(_,_,_,_,_)
SmpSampleFrom(n, k, out, tape, pos) ==
   IF Len(out) = k THEN [st |-> "done", out |-> out, drawn |-> pos]
   ELSE LET r == SmpRunFrom(SmpRandrange(n), tape, [SmpInit EXCEPT !.drawn = pos]) IN
        IF r.st # "done" THEN [st |-> "starved", out |-> out, drawn |-> r.drawn]
        ELSE LET v == SmpVal(r.cb) IN
             IF \E j \in 1..Len(out) : out[j] = v THEN SmpSampleFrom(n, k, out, tape, r.drawn)
             ELSE SmpSampleFrom(n, k, Append(out, v), tape, r.drawn)
SmpSample(n, k, tape) == SmpSampleFrom(n, k, <<>>, tape, 0)                          \* sample(range(n), k)
=============================================================================
