"""C07 - RSA-OAEP and RSAES-PKCS1-v1_5 decode exactly per RFC 8017."""
import json
from concurrent.futures import ThreadPoolExecutor

from .. import tlc
from ..core import Machinery

LEVEL = "model_checking"


def _cases(r):
    out = []
    seen = set()
    for p in r.prints("CASE"):
        s = tlc.tla_string_to_py(p)
        if s not in seen:
            seen.add(s)
            out.append(json.loads(s))
    return out


def _cause(t):
    """the input class a v1.5 call belongs to (part of the violation key, so that one defect has one key)"""
    k = len(t["nbytes"])
    if t["fam"] == "rt15" and k == 11:
        return " (k = 11, the smallest modulus for which RFC 8017 defines the scheme)"
    if t["fam"] != "v15dec":
        return ""
    if t["expected"] > k - 11:
        return " (expected_pt_len larger than k-11)"
    if t["skind"] != "bytes" or len(t["sentinel"]) > k:
        return " (sentinel longer than k bytes or not a byte string)"
    return ""


def _cand(t):
    """the octets after the first zero octet at index >= 2 (what a decoder that ignores the padding rules would return)"""
    em = t["em"]
    z = next((i for i in range(2, len(em)) if em[i] == 0), None)
    return em[z + 1:] if z is not None else []


def _brief(t):
    d = {k: t[k] for k in ("fam", "src", "desc", "expected", "skind", "exc", "okind", "hash", "mgf", "enc_exc", "dec_exc", "intended") if k in t}
    d["k"] = len(t["nbytes"])
    for f in ("em", "out", "sentinel", "label", "msg", "ct", "em_enc"):
        if f in t:
            d[f] = bytes(t[f]).hex() if len(t[f]) <= 140 else "%d bytes" % len(t[f])
    return d


def run(ctx):
    quick = ctx.tier == "quick"
    # 1. TLC enumerates the encoded-message pattern classes, states the verdict class of each and checks the decoding rules against
    #    the encoders in both directions (data/PKCS1 through mc/Pkcs1MC); the patterns are printed for replay
    cfgs = ["Pkcs1MC_quick.cfg", "Pkcs1MC_real.cfg", "Pkcs1MC_wide.cfg"] if quick else ["Pkcs1MC_small.cfg", "Pkcs1MC_real_all.cfg", "Pkcs1MC_wide.cfg"]
    with ThreadPoolExecutor(max_workers=3) as ex:
        rs = list(ex.map(lambda c: ctx.mc("Pkcs1MC", c, workers=8, timeout=1500), cfgs))
    cases = []
    for r in rs:
        cases += _cases(r)
    cases.sort(key=lambda c: json.dumps(c, sort_keys=True))      # TLC's workers print in any order; the seeded sampling must not depend on it
    fams = {}
    for c in cases:
        fams[c["fam"]] = fams.get(c["fam"], 0) + 1
    classes = set()
    for c in cases:
        if c["fam"] == "v15":
            classes |= set("v15:" + cb[2] for cb in c["combos"])
        elif "cls" in c:
            classes.add(c["fam"] + ":" + c["cls"])
    need = {"v15:msg", "v15:sentinel", "oaep:ok", "oaep:error", "oaepdb:ok", "oaepdb:error"}
    if not need <= classes or not all(f in fams for f in ("rt15", "rtoaep", "short")):
        raise Machinery("Pkcs1MC did not emit every class: %s %s" % (sorted(classes), fams))
    ctx.extra["patterns_enumerated_by_tlc"] = fams
    ctx.extra["v15_calls_enumerated_by_tlc"] = sum(len(c["combos"]) for c in cases if c["fam"] == "v15")
    # 2. spec -> code: every pattern goes through the real decrypt methods (stub key: any block at any k; real RSA keys: a sample)
    inp = {"cases": cases, "v15_small_keep": [1.0, 0.2] if quick else [1.0, 1.0], "v15_real_keep": [0.4, 0.03] if quick else [1.0, 0.25],
           "oaep_keep": 0.04 if quick else 0.8, "rsa_per_key": 30 if quick else 400}
    traces = ctx.drive("c07_pkcs1", [], inp=inp, timeout=3000)
    # 3. code -> spec: TLC decodes every recorded block with the transcribed RFC 8017 rules and judges the real outcome
    verdicts = ctx.validate("Pkcs1Trace", traces, family="pkcs1", timeout=3000)
    per = {}
    outcomes = {}
    for t in traces:
        ctx.count()
        pos, clause = verdicts[t["tid"]]
        fam = t["fam"]
        key = fam + "/" + ("stub" if t["src"] == "stub" else "rsa")
        per[key] = per.get(key, 0) + 1
        oc = t.get("okind", "") + "/" + t.get("exc", t.get("enc_exc", ""))
        outcomes[fam + ":" + oc] = outcomes.get(fam + ":" + oc, 0) + 1
        if fam == "v15dec":
            ctx.nontriv([fam, t["src"], t["em"], t["sentinel"], t["skind"], t["expected"], len(t["ct"])])
        elif fam == "oaepdec":
            ctx.nontriv([fam, t["src"], t["em"], t["hash"], t["mgf"], t["label"], len(t["ct"])])
        else:
            ctx.nontriv([fam, t["src"], t["msg"], t["hash"], t["mgf"], t["label"], t["expected"]])
        if clause != "ok":
            if clause.startswith("harness:"):
                raise Machinery("recorder inconsistency: %s in %s" % (clause, json.dumps(_brief(t))))
            scheme = "v1.5" if fam in ("v15dec", "rt15") else "oaep"
            ctx.violation("%s: %s%s" % (scheme, clause, _cause(t)), _brief(t), replay=t)
    ctx.extra["records_per_family_and_path"] = per
    ctx.extra["real_outcomes"] = outcomes
    for pred in (lambda t: t["fam"] == "v15dec" and t["okind"] == "bytes" and t["intended"] == "msg",
                 lambda t: t["fam"] == "v15dec" and t["intended"] == "sentinel" and t["src"] != "stub",
                 lambda t: t["fam"] == "oaepdec" and t["exc"] == "none" and t["hash"] == "SHA256",
                 lambda t: t["fam"] == "oaepdec" and t["exc"] == "ValueError" and t["hash"].startswith("toy"),
                 lambda t: t["fam"] == "rtoaep" and t["src"] != "stub" and t["enc_exc"] == "none",
                 lambda t: t["fam"] == "rt15" and t["enc_exc"] == "ValueError"):
        t = next((x for x in traces if pred(x)), None)
        if t is None:
            raise Machinery("an outcome class is missing from the recorded calls")
        ctx.sample(dict(_brief(t), tlc_verdict=verdicts[t["tid"]][1]))
    # 4. binding self-checks: a falsified outcome must be rejected by the judge
    def good(pred):
        return next(t for t in traces if verdicts[t["tid"]][1] == "ok" and pred(t))

    checks = []
    g1 = good(lambda t: t["fam"] == "v15dec" and t["okind"] == "bytes" and t["intended"] == "msg" and t["skind"] == "bytes" and len(t["out"]) > 1)
    checks.append((g1, lambda t: dict(t, out=t["sentinel"]), "v15dec: message -> sentinel"))
    checks.append((g1, lambda t: dict(t, out=[t["out"][0] ^ 1] + t["out"][1:]), "v15dec: one bit of the returned message"))
    g2 = good(lambda t: t["fam"] == "v15dec" and t["intended"] == "sentinel" and t["skind"] == "bytes" and t["sentinel"] and len(_cand(t)) > 1)
    checks.append((g2, lambda t: dict(t, out=_cand(t)), "v15dec: sentinel -> candidate plaintext"))
    g3 = good(lambda t: t["fam"] == "oaepdec" and t["exc"] == "ValueError" and t["reached"] and t["desc"].startswith("Y="))
    checks.append((g3, lambda t: dict(t, exc="none", out=t["em"][-1:]), "oaepdec: ValueError -> accepted"))
    g4 = good(lambda t: t["fam"] == "oaepdec" and t["exc"] == "none" and t["hash"] in ("SHA1", "SHA256"))
    checks.append((g4, lambda t: dict(t, exc="ValueError", out=[]), "oaepdec: accepted -> ValueError"))
    checks.append((g4, lambda t: dict(t, out=t["out"] + [0]), "oaepdec: returned message extended by one octet"))
    g5 = good(lambda t: t["fam"] == "rt15" and t["enc_exc"] == "ValueError")
    checks.append((g5, lambda t: dict(t, enc_exc="none"), "rt15: refusal of an over-long message -> accepted"))
    g6 = good(lambda t: t["fam"] == "rtoaep" and t["has_wit"] and t["enc_exc"] == "none")
    checks.append((g6, lambda t: dict(t, em_enc=t["em_enc"][:-1] + [t["em_enc"][-1] ^ 1], em_dec=t["em_dec"][:-1] + [t["em_dec"][-1] ^ 1]),
                   "rtoaep: one bit of the encoded message"))
    g7 = good(lambda t: t["fam"] == "v15dec" and len(t["ct"]) != len(t["nbytes"]))
    checks.append((g7, lambda t: dict(t, exc="none", okind="bytes", out=[1]), "v15dec: wrong ciphertext length accepted"))
    g8 = good(lambda t: t["fam"] == "oaepdec" and t["src"] != "stub" and t["exc"] == "none")
    checks.append((g8, lambda t: dict(t, ct=[255] * len(t["ct"]), has_wit=False), "oaepdec: ciphertext not below the modulus accepted"))
    g9 = good(lambda t: t["fam"] == "v15dec" and t["has_wit"] and t["reached"] and len(t["q1"]) > 2)
    checks.append((g9, lambda t: dict(t, q1=[t["q1"][0] ^ 1] + t["q1"][1:]), "v15dec: a quotient witness of EM^3 = c (mod n)"))
    with ThreadPoolExecutor(max_workers=5) as ex:
        list(ex.map(lambda c: ctx.binding_selfcheck("Pkcs1Trace", c[0], c[1], c[2]), checks))
    ctx.rule = ("encoded messages = the pattern classes enumerated by TLC from mc/Pkcs1MC (v1.5, k = 12..16 and 64/65/96/128: first two octets over "
                "{00,01,02,ff}^2, first zero at every index 3..k or absent, a second zero at every tail position, x sentinel of 0/1/k/k+1 octets or "
                "not a byte string x expected length none/|M|-1/|M|/|M|+1/k-11/k-10/k+5; OAEP with toy hashes of 1..3 octets, k = 2hLen+2..12 and "
                "64/128, toy MGF and MGF1, and with SHA-1/SHA-256 at k = 64/65/66/96/128: Y in {00,01,ff}, lHash' flipped at each position, first "
                "non-zero DB octet 01/02/ff at each position or absent, tails with a later 01), offered through a stub key at every size and as "
                "c = EM^e mod n to five real keys (512, 513, 768, 1023, 1024 bits); round trips for message lengths 0..max+1; ciphertexts of "
                "wrong length, equal to n, n+1, ff..ff; replayed: " +
                ("a seed-dependent sample (every (sentinel, expected length) combination of the blocks beginning 00 02 at k <= 16 and 20% of the "
                 "other blocks', 40% / 3% at real sizes, 4% of the SHA DB patterns, 30 blocks per real key and scheme)" if quick else
                 "everything at k <= 16, every combination of the blocks beginning 00 02 and a seed-dependent 25% of the others at real sizes, 80% of the "
                 "SHA DB patterns, 400 blocks per real key and scheme") +
                "; distinct = distinct (family, path, block, sentinel, expected length | hash, MGF, label)")
    ctx.assume("timing behaviour (constant-time decoding, Bleichenbacher / Manger oracles) is out of scope: only returned values and exception classes are observed")
    ctx.assume("on the real-RSA path the judge decodes the block that the real key._decrypt_to_bytes returned for the offered ciphertext (logged by "
               "wrapping the key object); that this block is the RSA decryption of the ciphertext is certified in TLC only for the e = 3 keys "
               "(quotient witnesses of EM^3 = c mod n); RSA arithmetic itself is C05/C14's subject")
    ctx.assume("the transcriptions in spec/data (PKCS1, SHA1, SHA256) are right; they are pinned by encoded messages produced by OpenSSL 3.5, MGF1 values "
               "from hashlib and the FIPS 180-4 vectors as ASSUMEs")
    ctx.assume("hash functions other than SHA-1, SHA-256 and the toy hashes (1..3 octets, passed through hashAlgo=) are not exercised")
