CONSTANTS Family = "gcm"
BS = 4
HL = 2
MaxTotal = 13
SPECIFICATION Spec
INVARIANT InvCache
INVARIANT InvPrefix
INVARIANT InvTag
INVARIANT InvLegal
INVARIANT InvCompletes
CHECK_DEADLOCK FALSE
