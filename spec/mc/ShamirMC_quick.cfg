\* GF(2^3): every secret (8) x every coefficient tape (8^(k-1)) x both variants x 2 <= k <= n <= 4 with k <= 3;
\* every sequence of k distinct indexes is combined, every sequence with a duplicate must be refused
CONSTANTS FieldM = 3
MaxN = 4
MaxK = 3
FlipVariant = FALSE
INIT Init
NEXT Next
CHECK_DEADLOCK FALSE
INVARIANTS Reconstructs DuplicatesRefused SharesWellFormed SharesArePolynomialValues
