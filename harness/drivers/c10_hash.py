"""C10 recorder for hash / XOF / MAC objects: steps TLC-generated call sequences (with copy) through the real objects."""
import json
import os
import sys

sys.path.insert(0, os.path.dirname(os.path.abspath(__file__)))
from _util import exc_class, rb, rng  # noqa: E402

from Crypto.Cipher import AES, DES3
from Crypto.Hash import (MD2, MD4, MD5, RIPEMD160, SHA1, SHA224, SHA256, SHA384, SHA512, SHA3_224, SHA3_256, SHA3_384,
                         SHA3_512, keccak, BLAKE2b, BLAKE2s, HMAC, CMAC, Poly1305, KMAC128, KMAC256, SHAKE128, SHAKE256,
                         cSHAKE128, cSHAKE256, TurboSHAKE128, TurboSHAKE256, KangarooTwelve, TupleHash128, TupleHash256)

K16 = bytes(range(16))
K24 = bytes(range(1, 25))
K32 = bytes(range(32))
ALGOS = {
    # name: (kind cfg name, factory)
    "MD2": ("md", lambda: MD2.new()), "MD4": ("md", lambda: MD4.new()), "MD5": ("md", lambda: MD5.new()),
    "RIPEMD160": ("md", lambda: RIPEMD160.new()), "SHA1": ("md", lambda: SHA1.new()), "SHA224": ("md", lambda: SHA224.new()),
    "SHA256": ("md", lambda: SHA256.new()), "SHA384": ("md", lambda: SHA384.new()), "SHA512": ("md", lambda: SHA512.new()),
    "SHA512_224": ("md", lambda: SHA512.new(truncate="224")), "SHA512_256": ("md", lambda: SHA512.new(truncate="256")),
    "HMAC_SHA256": ("hmac", lambda: HMAC.new(K16, digestmod=SHA256)), "HMAC_SHA1": ("hmac", lambda: HMAC.new(K32 * 3, digestmod=SHA1)),
    "HMAC_MD5": ("hmac", lambda: HMAC.new(K16, digestmod=MD5)),
    "SHA3_224": ("sha3", lambda: SHA3_224.new()), "SHA3_256": ("sha3", lambda: SHA3_256.new()), "SHA3_384": ("sha3", lambda: SHA3_384.new()),
    "SHA3_512": ("sha3", lambda: SHA3_512.new()),
    "SHA3_256u": ("sha3u", lambda: SHA3_256.new(update_after_digest=True)), "SHA3_512u": ("sha3u", lambda: SHA3_512.new(update_after_digest=True)),
    "keccak256": ("keccak", lambda: keccak.new(digest_bits=256)), "keccak512u": ("keccaku", lambda: keccak.new(digest_bits=512, update_after_digest=True)),
    "BLAKE2b": ("blake", lambda: BLAKE2b.new(digest_bits=512)), "BLAKE2s": ("blake", lambda: BLAKE2s.new(digest_bits=256)),
    "BLAKE2b_keyed": ("blake", lambda: BLAKE2b.new(digest_bits=160, key=K16)),
    "BLAKE2bu": ("blakeu", lambda: BLAKE2b.new(digest_bits=256, update_after_digest=True)),
    "BLAKE2su": ("blakeu", lambda: BLAKE2s.new(digest_bits=128, key=K16, update_after_digest=True)),
    "CMAC_AES": ("cmac", lambda: CMAC.new(K16, ciphermod=AES)), "CMAC_DES3": ("cmac", lambda: CMAC.new(K24, ciphermod=DES3)),
    "CMAC_AESu": ("cmacu", lambda: CMAC.new(K32, ciphermod=AES, update_after_digest=True)),
    "Poly1305_AES": ("blake", lambda: Poly1305.new(key=K32, cipher=AES, nonce=K16)),
    "KMAC128": ("blake", lambda: KMAC128.new(key=K16, mac_len=16)), "KMAC256": ("blake", lambda: KMAC256.new(key=K32, mac_len=64, custom=b"c")),
    "SHAKE128": ("xofc", lambda: SHAKE128.new()), "SHAKE256": ("xofc", lambda: SHAKE256.new()),
    "cSHAKE128": ("xof", lambda: cSHAKE128.new(custom=b"cust")), "cSHAKE256": ("xof", lambda: cSHAKE256.new()),
    "TurboSHAKE128": ("xof", lambda: TurboSHAKE128.new()), "TurboSHAKE256": ("xof", lambda: TurboSHAKE256.new(domain=0x0B)),
    "K12": ("xof", lambda: KangarooTwelve.new(custom=b"abc")),
    # TupleHash: every update() supplies one item of the tuple; the one-shot reference supplies the same items with one call
    "TupleHash128": ("keccak", lambda: TupleHash128.new(digest_bytes=32)), "TupleHash256": ("keccak", lambda: TupleHash256.new(digest_bytes=64, custom=b"t")),
}
TUPLE = ("TupleHash128", "TupleHash256")
KINDS = {
    "md": dict(final="digest", uad=True, hasVerify=False, hasCopy=True),
    "hmac": dict(final="digest", uad=True, hasVerify=True, hasCopy=True),
    "sha3": dict(final="digest", uad=False, hasVerify=False, hasCopy=True),
    "sha3u": dict(final="digest", uad=True, hasVerify=False, hasCopy=True),
    "keccak": dict(final="digest", uad=False, hasVerify=False, hasCopy=False),
    "keccaku": dict(final="digest", uad=True, hasVerify=False, hasCopy=False),
    "blake": dict(final="digest", uad=False, hasVerify=True, hasCopy=False),
    "blakeu": dict(final="digest", uad=True, hasVerify=True, hasCopy=False),
    "cmac": dict(final="digest", uad=False, hasVerify=True, hasCopy=True),
    "cmacu": dict(final="digest", uad=True, hasVerify=True, hasCopy=True),
    "xof": dict(final="read", uad=False, hasVerify=False, hasCopy=False),
    "xofc": dict(final="read", uad=False, hasVerify=False, hasCopy=True),
}


def oneshot(factory, segs, nread=None, tuple_items=False):
    o = factory()
    data = b"".join(segs)
    if tuple_items:
        o.update(*segs)
    elif data or True:
        o.update(data)
    if nread is None:
        return o.digest()
    return o.read(nread)


def replay(name, hist, r, tid):
    kindname, factory = ALGOS[name]
    objs = [factory()]
    acc = [[]]
    squeezed = [0]
    total_read = {}
    # total bytes each object lineage will be asked to read (to take the reference stream once per read event)
    events = []
    for e in hist:
        ev = dict(e)
        i = e["obj"] - 1
        op = e["op"]
        data = rb(r, e.get("n", 0)) if op == "update" else b""
        ev["data"] = list(data)
        out = b""
        exc = "none"
        tag = b""
        if op in ("verify", "hexverify"):
            tag = oneshot(factory, acc[i], tuple_items=name in TUPLE)
            if not e["good"]:
                tag = bytes([tag[0] ^ 0x80]) + tag[1:]
        try:
            if op == "update":
                objs[i].update(data)
            elif op == "digest":
                out = objs[i].digest()
            elif op == "hexdigest":
                out = bytes.fromhex(objs[i].hexdigest())
            elif op == "read":
                out = objs[i].read(e["n"])
            elif op == "verify":
                objs[i].verify(tag)
            elif op == "hexverify":
                objs[i].hexverify(tag.hex())
            elif op == "copy":
                objs.append(objs[i].copy())
            else:
                raise RuntimeError(op)
        except Exception as x:
            exc = exc_class(x)
            if op == "copy":        # keep the object numbering of the history
                objs.append(None)
                acc.append(list(acc[i]))
                squeezed.append(squeezed[i])
        if exc == "none":
            if op == "update":
                acc[i] = acc[i] + [data]
            elif op == "copy":
                acc.append(list(acc[i]))
                squeezed.append(squeezed[i])
            elif op == "read":
                squeezed[i] += e["n"]
        ev["exc"] = exc
        ev["out"] = list(out)
        ev["refdata"] = [list(x) for x in acc[i]]
        if op in ("digest", "hexdigest"):
            ev["ref"] = list(oneshot(factory, acc[i], tuple_items=name in TUPLE))
        elif op == "read":
            ev["ref"] = list(oneshot(factory, acc[i], squeezed[i]))
        else:
            ev["ref"] = []
        events.append(ev)
    return dict(tid=tid, algo=name, kind=KINDS[kindname], events=events)


def main():
    job = json.load(sys.stdin)
    out = []
    tid = job.get("tid0", 0)
    for name, hists in job["jobs"]:
        r = rng("hash/" + name)
        for h in hists:
            tid += 1
            out.append(replay(name, h, r, tid))
    json.dump(out, sys.stdout)


if __name__ == "__main__":
    if len(sys.argv) > 1 and sys.argv[1] == "list":
        json.dump({k: v[0] for k, v in ALGOS.items()}, sys.stdout)
    else:
        main()
