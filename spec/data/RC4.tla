------------------------------- MODULE RC4 -------------------------------
(* RC4 ("alleged RC4", as described in RFC 6229 / Schneier, Applied Cryptography 17.1): key-scheduling algorithm, pseudo-random
   generation algorithm; `drop` discards the first n keystream bytes (RC4-drop[n]).  Keys of 1..256 bytes.
   The state is a 256-tuple; loops are chunked (64 steps) so that TLC's evaluation context stays short. *)
EXTENDS Integers, Sequences, Bitwise, TLC
Swap(s, i, j) == [s EXCEPT ![i + 1] = s[j + 1], ![j + 1] = s[i + 1]]
RECURSIVE KsaRun(_,_,_,_,_)
\* for i from 0 to 255: j := (j + S[i] + key[i mod keylength]) mod 256; swap(S[i], S[j])
KsaRun(s, key, i, hi, j) == IF i > hi THEN <<s, j>> ELSE
   LET j1 == (j + s[i + 1] + key[(i % Len(key)) + 1]) % 256 IN KsaRun(Swap(s, i, j1), key, i + 1, hi, j1)
Ksa(key) == LET a == KsaRun([k \in 1..256 |-> k - 1], key, 0, 63, 0)     b == KsaRun(a[1], key, 64, 127, a[2])
                c == KsaRun(b[1], key, 128, 191, b[2])                      d == KsaRun(c[1], key, 192, 255, c[2])
            IN d[1]
RECURSIVE PrgaRun(_,_,_,_,_)
\* i := (i + 1) mod 256; j := (j + S[i]) mod 256; swap(S[i], S[j]); output S[(S[i] + S[j]) mod 256]
\* st = <<S, i, j>>; produces n keystream bytes appended to acc
PrgaRun(s, i, j, n, acc) == IF n = 0 THEN <<s, i, j, acc>> ELSE
   LET i1 == (i + 1) % 256   j1 == (j + s[i1 + 1]) % 256   s1 == Swap(s, i1, j1)
   IN PrgaRun(s1, i1, j1, n - 1, Append(acc, s1[((s1[i1 + 1] + s1[j1 + 1]) % 256) + 1]))
RECURSIVE Prga(_,_,_,_,_)
Prga(s, i, j, n, acc) == IF n = 0 THEN acc ELSE
   LET m == IF n < 64 THEN n ELSE 64   r == PrgaRun(s, i, j, m, <<>>) IN Prga(r[1], r[2], r[3], n - m, acc \o r[4])
Keystream(key, n) == Prga(Ksa(key), 0, 0, n, <<>>)
Rc4(key, drop, data) == LET ks == Keystream(key, drop + Len(data)) IN [k \in 1..Len(data) |-> data[k] ^^ ks[drop + k]]
\* the three classic vectors: Key/Plaintext, Wiki/pedia, Secret/Attack at dawn
ASSUME Rc4(<<75,101,121>>, 0, <<80,108,97,105,110,116,101,120,116>>) = <<187,243,22,232,217,64,175,10,211>>
ASSUME Rc4(<<87,105,107,105>>, 0, <<112,101,100,105,97>>) = <<16,33,191,4,32>>
ASSUME Rc4(<<83,101,99,114,101,116>>, 0, <<65,116,116,97,99,107,32,97,116,32,100,97,119,110>>) = <<69,160,31,100,95,195,91,56,53,82,84,75,155,245>>
\* RFC 6229, 40-bit key 0102030405: keystream at offsets 0 and 16
ASSUME Keystream(<<1,2,3,4,5>>, 32) = <<178,57,99,5,240,61,192,39,204,195,82,74,10,17,24,168,105,130,148,79,24,252,130,213,137,196,3,164,122,13,9,25>>
\* keystream bytes 768..799 and 3072..3087 (drop) of pseudo-random 16-byte and 32-byte keys: OpenSSL 3.5 CLI (rc4, legacy provider) and python cryptography
ASSUME Rc4(<<94,151,145,131,249,102,252,49,17,90,30,198,216,184,235,121>>, 768, <<0,0,0,0,0,0,0,0,0,0,0,0,0,0,0,0,0,0,0,0,0,0,0,0,0,0,0,0,0,0,0,0>>) = <<239,217,160,3,172,64,13,166,200,104,241,164,79,226,177,161,116,165,57,81,230,192,223,170,236,78,95,104,158,35,133,134>>
ASSUME Rc4(<<94,151,145,131,249,102,252,49,17,90,30,198,216,184,235,121>>, 3072, <<255,255,255,255,255,255,255,255,255,255,255,255,255,255,255,255>>) = <<161,83,150,85,80,45,66,228,86,156,212,11,54,4,68,229>>
ASSUME Rc4(<<71,221,147,130,169,153,56,44,60,56,220,132,70,90,16,87,27,217,179,44,134,39,63,9,165,248,82,165,254,151,129,23>>, 256, <<0,0,0,0,0,0,0,0,0,0,0,0,0,0,0,0,0,0,0,0,0,0,0,0,0,0,0,0,0,0,0,0,0,0,0,0,0,0,0,0,0,0,0,0>>) = <<100,33,203,162,124,143,102,116,90,66,228,181,149,212,200,150,241,254,215,160,118,58,20,153,207,3,223,65,18,88,38,65,49,81,92,81,210,89,192,147,124,100,51,201>>
=============================================================================
