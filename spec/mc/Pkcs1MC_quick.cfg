\* quick tier: every position for k = 12 and 16 (v1.5) and five (k, hLen) pairs of the toy hashes (OAEP)
CONSTANTS V15Ks = {12, 16}
FullBelow = 16
OaepKHs <- QuickOaepKHs
DbKHs <- None
ShortKHs <- SmallShortKHs
Rt15Ks = {11, 12, 13, 16, 24, 33}
RtOaepKHs <- SmallRtOaepKHs
RtAll = TRUE
Emit = TRUE
INIT Init
NEXT Next
INVARIANTS Sound EmitInv
CHECK_DEADLOCK FALSE
