CONSTANTS Kind = "ctr"
BL = 4
NB = 5
SEG = 1
MaxTotal = 81
SPECIFICATION Spec
INVARIANT InvOutput
INVARIANT InvUsedBound
INVARIANT InvRegs
INVARIANT InvPos
CHECK_DEADLOCK FALSE
