------------------------------- MODULE PemCodec -------------------------------
(* PEM armour (RFC 7468 "strict" textual encoding as Crypto.IO.PEM.encode writes it) and base64 (RFC 4648 section 4)
   as pure operators.  Texts and markers are sequences of character codes.
     PemEncode(data, marker)   "-----BEGIN m-----" LF, the base64 of data in lines of 64 characters each followed by LF,
                               "-----END m-----"                                   (no trailing LF, as the library writes it)
     PemDecodeCanonical(text)  <<"ok", data, marker>> when text is exactly PemEncode(data, marker) for some data and
                               marker, <<"unspecified">> otherwise.  The library's decoder is lenient (spaces, CRLF, blank
                               lines, explanatory text): C13 requires it to be total, and to invert the encoder; what it
                               does with a text outside the encoder's image is left open here (value or ValueError).
     PemEncodeEncrypted        the legacy RFC 1421/1423 layout "Proc-Type: 4,ENCRYPTED" / "DEK-Info: DES-EDE3-CBC,<SALT>":
                               structure only (the body is whatever ciphertext the record carries). *)
EXTENDS Integers, Sequences, TLC
LF == 10
Dashes == <<45, 45, 45, 45, 45>>
BeginStr == <<66, 69, 71, 73, 78, 32>>      \* "BEGIN "
EndStr == <<69, 78, 68, 32>>                \* "END "
\* "Proc-Type: 4,ENCRYPTED" LF "DEK-Info: DES-EDE3-CBC,"
ProcType == <<80, 114, 111, 99, 45, 84, 121, 112, 101, 58, 32, 52, 44, 69, 78, 67, 82, 89, 80, 84, 69, 68>>
DekInfo3Des == <<68, 69, 75, 45, 73, 110, 102, 111, 58, 32, 68, 69, 83, 45, 69, 68, 69, 51, 45, 67, 66, 67, 44>>
\* ---- base64
B64Char(v) == IF v < 26 THEN 65 + v ELSE IF v < 52 THEN 97 + (v - 26) ELSE IF v < 62 THEN 48 + (v - 52) ELSE IF v = 62 THEN 43 ELSE 47
B64Val(c) == IF c >= 65 /\ c <= 90 THEN c - 65 ELSE IF c >= 97 /\ c <= 122 THEN c - 97 + 26
             ELSE IF c >= 48 /\ c <= 57 THEN c - 48 + 52 ELSE IF c = 43 THEN 62 ELSE IF c = 47 THEN 63 ELSE -1
B64Encode(d) ==
   LET n == Len(d)
       At(i) == IF i <= n THEN d[i] ELSE 0
       Ch(j) == LET g == (j - 1) \div 4   k == (j - 1) % 4   a == At(3 * g + 1)  b == At(3 * g + 2)  c == At(3 * g + 3) IN
                IF k = 0 THEN B64Char(a \div 4)
                ELSE IF k = 1 THEN B64Char((a % 4) * 16 + (b \div 16))
                ELSE IF k = 2 THEN (IF 3 * g + 2 > n THEN 61 ELSE B64Char((b % 16) * 4 + (c \div 64)))
                ELSE (IF 3 * g + 3 > n THEN 61 ELSE B64Char(c % 64))
   IN TLCEval([j \in 1..(4 * ((n + 2) \div 3)) |-> Ch(j)])
\* decoding without any check; B64DecodeCanonical below accepts only what re-encodes to the same characters
B64DecodeRaw(cs) ==
   LET n == Len(cs)
       pads == IF n >= 2 /\ cs[n] = 61 /\ cs[n - 1] = 61 THEN 2 ELSE IF n >= 1 /\ cs[n] = 61 THEN 1 ELSE 0
       V(j) == IF B64Val(cs[j]) < 0 THEN 0 ELSE B64Val(cs[j])
       By(i) == LET g == (i - 1) \div 3   k == (i - 1) % 3 IN
                IF k = 0 THEN V(4 * g + 1) * 4 + (V(4 * g + 2) \div 16)
                ELSE IF k = 1 THEN (V(4 * g + 2) % 16) * 16 + (V(4 * g + 3) \div 4)
                ELSE (V(4 * g + 3) % 4) * 64 + V(4 * g + 4)
   IN IF n % 4 # 0 THEN <<>> ELSE TLCEval([i \in 1..(3 * (n \div 4) - pads) |-> By(i)])
B64DecodeCanonical(cs) == LET d == B64DecodeRaw(cs) IN IF B64Encode(d) = cs THEN <<"ok", d>> ELSE <<"ValueError", "not canonical base64">>
\* ---- armour
BeginLine(m) == Dashes \o BeginStr \o m \o Dashes
EndLine(m) == Dashes \o EndStr \o m \o Dashes
\* the characters cs in lines of 64, each line (also the last, shorter one) followed by LF
Lines64(cs) == LET n == Len(cs)  total == n + ((n + 63) \div 64) IN
   TLCEval([p \in 1..total |-> LET line == (p - 1) \div 65  col == (p - 1) % 65 IN
                               IF col = 64 \/ p = total THEN LF ELSE cs[line * 64 + col + 1]])
PemEncode(data, m) == BeginLine(m) \o <<LF>> \o Lines64(B64Encode(data)) \o EndLine(m)
HexUpper(b) == LET H(v) == IF v < 10 THEN 48 + v ELSE 55 + v IN [j \in 1..(2 * Len(b)) |-> IF j % 2 = 1 THEN H(b[(j + 1) \div 2] \div 16) ELSE H(b[j \div 2] % 16)]
PemEncodeEncrypted(ct, m, salt) == BeginLine(m) \o <<LF>> \o ProcType \o <<LF>> \o DekInfo3Des \o HexUpper(salt) \o <<LF, LF>>
                                   \o Lines64(B64Encode(ct)) \o EndLine(m)
NotLF(c) == c # LF
\* first line up to the first LF
FirstLF(text) == IF \E i \in 1..Len(text) : text[i] = LF THEN CHOOSE i \in 1..Len(text) : text[i] = LF /\ \A j \in 1..(i - 1) : text[j] # LF ELSE 0
PemDecodeCanonical(text) ==
   LET i1 == FirstLF(text) IN
   IF i1 < 17 THEN <<"unspecified">>                                          \* shorter than "-----BEGIN -----"
   ELSE LET l1 == SubSeq(text, 1, i1 - 1)
            m == SubSeq(l1, 12, Len(l1) - 5)
            e == EndLine(m)
        IN IF l1 # BeginLine(m) \/ Len(text) < i1 + Len(e) \/ SubSeq(text, Len(text) - Len(e) + 1, Len(text)) # e THEN <<"unspecified">>
           ELSE LET body == SelectSeq(SubSeq(text, i1 + 1, Len(text) - Len(e)), NotLF)
                    d == B64DecodeRaw(body)
                IN IF PemEncode(d, m) = text THEN <<"ok", d, m>> ELSE <<"unspecified">>
\* second line, spaces removed, starts with "Proc-Type:4,ENCRYPTED" (what the library takes as "this block is encrypted")
NotSpace(c) == c # 32
ProcTypeNoSpace == SelectSeq(ProcType, NotSpace)
\* lines as the library splits them: on any white space, after deleting blanks
IsWs(c) == c \in {9, 10, 11, 12, 13, 28, 29, 30, 31, 32, 133, 160}
SecondWordStartsWithProcType(text) ==
   LET t == SelectSeq(text, NotSpace)
       n == Len(t)
       \* start of the second white-space separated word
       W1 == IF \E i \in 1..n : ~IsWs(t[i]) THEN CHOOSE i \in 1..n : ~IsWs(t[i]) /\ \A j \in 1..(i - 1) : IsWs(t[j]) ELSE 0
       E1 == IF W1 > 0 /\ \E i \in W1..n : IsWs(t[i]) THEN CHOOSE i \in W1..n : IsWs(t[i]) /\ \A j \in W1..(i - 1) : ~IsWs(t[j]) ELSE 0
       W2 == IF E1 > 0 /\ \E i \in E1..n : ~IsWs(t[i]) THEN CHOOSE i \in E1..n : ~IsWs(t[i]) /\ \A j \in E1..(i - 1) : IsWs(t[j]) ELSE 0
   IN W2 > 0 /\ n >= W2 + Len(ProcTypeNoSpace) - 1 /\ SubSeq(t, W2, W2 + Len(ProcTypeNoSpace) - 1) = ProcTypeNoSpace

(* ---- known answers: RFC 4648 section 10; the armour of 49 octets (two lines) written with OpenSSL 3.5 (openssl enc -base64) *)
ASSUME B64Encode(<<>>) = <<>>
ASSUME B64Encode(<<102>>) = <<90, 103, 61, 61>>                                       \* "f" -> "Zg=="
ASSUME B64Encode(<<102, 111>>) = <<90, 109, 56, 61>>                                  \* "fo" -> "Zm8="
ASSUME B64Encode(<<102, 111, 111>>) = <<90, 109, 57, 118>>                            \* "foo" -> "Zm9v"
ASSUME B64Encode(<<102, 111, 111, 98>>) = <<90, 109, 57, 118, 89, 103, 61, 61>>       \* "foob" -> "Zm9vYg=="
ASSUME B64Encode(<<102, 111, 111, 98, 97>>) = <<90, 109, 57, 118, 89, 109, 69, 61>>   \* "fooba" -> "Zm9vYmE="
ASSUME B64Encode(<<102, 111, 111, 98, 97, 114>>) = <<90, 109, 57, 118, 89, 109, 70, 121>>   \* "foobar" -> "Zm9vYmFy"
ASSUME \A d \in {<<>>, <<0>>, <<255, 255>>, <<1, 2, 3>>, <<250, 251, 252, 253>>, <<0, 16, 131, 16, 81, 135, 32, 146, 139>>} : B64DecodeCanonical(B64Encode(d)) = <<"ok", d>>
ASSUME B64DecodeCanonical(<<90, 104, 61, 61>>)[1] = "ValueError"                      \* "Zh==": non-zero trailing bits
ASSUME B64Encode(<<251, 255>>) = <<43, 47, 56, 61>>                                   \* "+/8="
ASSUME LET d == [i \in 1..49 |-> i]  t == PemEncode(d, <<88>>) IN
          /\ Len(t) = 17 + 1 + 64 + 1 + 4 + 1 + 15
          /\ SubSeq(t, 1, 17) = <<45, 45, 45, 45, 45, 66, 69, 71, 73, 78, 32, 88, 45, 45, 45, 45, 45>> /\ t[18] = LF
          /\ SubSeq(t, 19, 26) = <<65, 81, 73, 68, 66, 65, 85, 71>>                   \* "AQIDBAUG"
          /\ t[83] = LF /\ SubSeq(t, 84, 87) = <<77, 81, 61, 61>> /\ t[88] = LF       \* "MQ=="
          /\ PemDecodeCanonical(t) = <<"ok", d, <<88>>>>
          /\ PemDecodeCanonical(t \o <<LF>>) = <<"unspecified">>
ASSUME PemDecodeCanonical(PemEncode(<<>>, <<75, 69, 89>>)) = <<"ok", <<>>, <<75, 69, 89>>>>
ASSUME LET d == [i \in 1..48 |-> 7] IN PemDecodeCanonical(PemEncode(d, <<75>>)) = <<"ok", d, <<75>>>> /\ Len(PemEncode(d, <<75>>)) = 17 + 1 + 65 + 15
ASSUME SecondWordStartsWithProcType(BeginLine(<<75>>) \o <<LF>> \o ProcType \o <<LF>>) /\ ~SecondWordStartsWithProcType(PemEncode(<<1, 2, 3>>, <<75>>))
ASSUME HexUpper(<<0, 171, 255>>) = <<48, 48, 65, 66, 70, 70>>
=============================================================================
