------------------------------- MODULE GcmMC -------------------------------
(* Exhaustive exploration of every call sequence on the GCM object model (small block size, symbolic data),
   and the generator of the histories replayed on the real object. *)
EXTENDS GcmObj, Json
CONSTANTS MaxDepth, SegLens, MaxData, EmitHist
VARIABLES o, depth, hist
vars == <<o, depth, hist>>
Events == [op : {"update", "encrypt", "decrypt", "encrypt_and_digest"}, n : SegLens]
          \cup [op : {"digest", "hexdigest"}]
          \cup [op : {"verify", "hexverify"}, good : BOOLEAN]
          \cup [op : {"decrypt_and_verify"}, n : SegLens, good : BOOLEAN]
Size(e) == IF "n" \in DOMAIN e THEN e.n ELSE 0
Init == o = GcmInit /\ depth = 0 /\ hist = <<>>
Next == /\ depth < MaxDepth /\ depth' = depth + 1
        /\ \E e \in Events : /\ o.authLen + o.msgLen + Size(e) <= MaxData
                             /\ o' = GcmStep(o, e)
                             /\ hist' = IF EmitHist THEN Append(hist, e) ELSE hist
Spec == Init /\ [][Next]_vars
InvGuard == GuardMatchesDiagram(o)
InvCache == CacheSmall(o)
InvAbsorbed == AbsorbedIsPrefixOfDefinition(o)
InvTag == TagOverRightLengths(o)
\* a forbidden call raises TypeError and leaves the object exactly as it was
ForbiddenLeavesObjectUnchanged == [][o'.exc = "TypeError" => [o' EXCEPT !.exc = o.exc] = o]_vars
\* digest and verify are idempotent and never re-open anything
TerminalStaysTerminal == [][(o.phase \in {"digested", "verified"}) => (o'.phase = o.phase /\ o'.next = o.next /\ o'.tag = o.tag)]_vars
Emit == (EmitHist /\ depth = MaxDepth) => PrintT(<<"HIST", ToJson(hist)>>)
=============================================================================
