"""C13 recorder for the low-level codecs: feeds strings/values chosen by the specification (or enumerated over the same
universe the specification enumerates) to the real Der* classes, Padding, number conversion, RFC1751 and PEM, and
records value or exception class (plus the innermost library function that raised).  No verdict is computed here.

usage: c13_codec.py <mode>   (input on stdin, JSON list of trace records on stdout)
  sweep    {decoders, alphabet, maxlen, tid0}          every string of length <= maxlen over alphabet into every decoder
  dec      {calls: [{d, s, ...}], tid0}                 single decoder calls
  mutdec   {cases: [{d, v, enc}], per_case, tid0}       grammar-aware mutations of encodings into the case's decoder
  enc      {cases: [{d, v}], tid0}                      real encoders on specification-chosen values (+ decode back)
  encints  {lo, hi, chunk, tid0}                        DerInteger(n).encode() for lo <= n <= hi
  misc     {tid0, n}                                    padding, integer/byte conversion, RFC 1751, PEM
"""
import itertools
import json
import multiprocessing
import os
import sys
import traceback

sys.path.insert(0, os.path.dirname(os.path.abspath(__file__)))
from _util import exc_class, rng  # noqa: E402
from _util import pool_map  # noqa: E402

from Crypto.Util import asn1  # noqa: E402


def where(e):
    """innermost function of the library in the traceback of e: '<module>.<function>'"""
    last = None
    for fs in traceback.extract_tb(e.__traceback__):
        fn = fs.filename.replace("\\", "/")
        if "/Crypto/" in fn:
            last = fs
    if last is None:
        return "caller"
    mod = os.path.splitext(os.path.basename(last.filename))[0]
    if mod == "__init__":
        mod = os.path.basename(os.path.dirname(last.filename))
    return "%s.%s" % (mod, last.name)


def bemin(n):
    assert n >= 0
    return list(n.to_bytes((n.bit_length() + 7) // 8, "big"))


def intval(n):
    return {"neg": n < 0, "mag": bemin(abs(n))}


def toint(v):
    n = int.from_bytes(bytes(v["mag"]), "big")
    return -n if v["neg"] else n


def member(x):
    if isinstance(x, int):
        return {"int": True, "neg": x < 0, "b": bemin(abs(x))}
    return {"int": False, "neg": False, "b": list(x)}


def unmember(m):
    if m["int"]:
        n = int.from_bytes(bytes(m["b"]), "big")
        return -n if m["neg"] else n
    return bytes(m["b"])


def make(d, value=None):
    cls = getattr(asn1, d["cls"])
    kw = {}
    if d["imp"] >= 0:
        kw["implicit"] = d["imp"]
    if d["exp"] >= 0:
        kw["explicit"] = d["exp"]
    if d["cls"] == "DerObject":
        if value is None:
            return asn1.DerObject()
        # identifier octet = class bits | constructed bit | number: only reachable through the documented arguments
        tag = value["tag"]
        if tag & 0xC0 == 0x80 and tag & 0x1F != 0x1F:
            return asn1.DerObject(0x04, bytes(value["payload"]), implicit=tag & 0x1F, constructed=bool(tag & 0x20))
        if tag & 0xC0 == 0 and tag & 0x1F != 0x1F:
            return asn1.DerObject(tag & 0x1F, bytes(value["payload"]), constructed=bool(tag & 0x20))
        return None
    if value is None:
        return cls(**kw)
    c = d["cls"]
    if c == "DerInteger":
        return cls(toint(value), **kw)
    if c == "DerBoolean":
        return cls(value["b"], **kw)
    if c in ("DerSequence", "DerSetOf"):
        return cls([unmember(m) for m in value["m"]], **kw)
    if c == "DerOctetString":
        return cls(bytes(value["payload"]), **kw)
    if c == "DerNull":
        return cls()
    if c == "DerBitString":
        return cls(bytes(value["bits"]), **kw)
    if c == "DerObjectId":
        return cls(".".join(str(int.from_bytes(bytes(a), "big")) for a in value["arcs"]), **kw)
    raise ValueError(c)


def value_of(d, obj):
    c = d["cls"]
    if c == "DerObject":
        return {"tag": obj._tag_octet, "payload": list(obj.payload)}
    if c == "DerInteger":
        return intval(obj.value)
    if c == "DerBoolean":
        return {"b": bool(obj.value)}
    if c in ("DerSequence", "DerSetOf"):
        return {"m": [member(obj[i]) for i in range(len(obj))]}
    if c in ("DerOctetString", "DerNull"):
        return {"payload": list(obj.payload)}
    if c == "DerBitString":
        return {"bits": list(obj.value)}
    if c == "DerObjectId":
        return {"arcs": [bemin(int(x)) for x in obj.value.split(".")]}
    raise ValueError(c)


def decode(d, s):
    """-> ('ok', value, '') or (exception class, 0, innermost function)"""
    try:
        obj = make(d)
        if d["cls"] == "DerSequence":
            nr = d["nr"]
            nr = None if not nr else (nr[0] if len(nr) == 1 else tuple(nr))
            obj.decode(s, strict=d["strict"], nr_elements=nr, only_ints_expected=d["ints"])
        else:
            obj.decode(s, strict=d["strict"])
        return "ok", value_of(d, obj), ""
    except Exception as e:  # the class is the observation
        return exc_class(e), 0, where(e)


# ------------------------------------------------------------------------------------------------ sweep
def _sweep_one(job):
    d, alphabet, maxlen, prefix = job
    acc, oth, n = [], [], 0
    rest = maxlen - len(prefix)
    for k in range(0, rest + 1):
        for t in itertools.product(alphabet, repeat=k):
            s = bytes(prefix) + bytes(t)
            n += 1
            out, v, fn = decode(d, s)
            if out == "ok":
                acc.append({"s": list(s), "v": v})
            elif out != "ValueError":
                oth.append({"s": list(s), "exc": out, "fn": fn})
    return {"kind": "sweep", "d": d, "alphabet": alphabet, "maxlen": maxlen, "prefix": list(prefix), "n": n, "acc": acc, "oth": oth}


def sweep(inp):
    jobs = []
    for d in inp["decoders"]:
        jobs.append((d, inp["alphabet"], 0, []))
        for b in inp["alphabet"]:
            jobs.append((d, inp["alphabet"], inp["maxlen"], [b]))
    return pool_map(_sweep_one, jobs, chunksize=1)


# ------------------------------------------------------------------------------------------------ single calls
def dec(inp):
    out = []
    for c in inp["calls"]:
        o, v, fn = decode(c["d"], bytes(c["s"]))
        r = dict(c)
        r.update(kind="dec", out=o, v=v, fn=fn)
        out.append(r)
    return out


def mutdec(inp):
    """grammar-aware mutations of specification-chosen encodings into the decoder of the case (strict and not)"""
    import c13_tree
    r = rng("c13/mutdec")
    out = []
    seen = set()
    for c in inp["cases"]:
        muts = c13_tree.mutations(bytes(c["enc"]))
        if len(muts) > inp["per_case"]:
            muts = r.sample(muts, inp["per_case"])
        for cls, s, path in muts:
            for strict in (True, False):
                d = dict(c["d"], strict=strict)
                if d["cls"] == "DerSequence":
                    k = r.randrange(4)
                    if k == 1:
                        d["nr"] = [len(c["v"]["m"])]
                    elif k == 2:
                        d["nr"] = sorted(set([r.randrange(4), len(c["v"]["m"]) + 1]))
                    elif k == 3:
                        d["ints"] = True
                key = (json.dumps(d, sort_keys=True), s)
                if key in seen:
                    continue
                seen.add(key)
                o, v, fn = decode(d, s)
                out.append({"kind": "dec", "d": d, "s": list(s), "mut": cls, "out": o, "v": v, "fn": fn})
    return out


def enc(inp):
    out = []
    for c in inp["cases"]:
        d, v = c["d"], c["v"]
        obj = make(d, v)
        if obj is None:
            continue
        r = {"kind": "enc", "d": d, "v": v}
        try:
            e = obj.encode()
            r.update(out="ok", enc=list(e))
        except Exception as ex:
            r.update(out=exc_class(ex), enc=[], back="none", back_v=0)
            out.append(r)
            continue
        o, bv, fn = decode(d, e)
        r.update(back=o, back_v=bv)
        out.append(r)
    return out


def encints(inp):
    out = []
    lo, hi, chunk = inp["lo"], inp["hi"], inp["chunk"]
    a = lo
    while a <= hi:
        b = min(hi, a + chunk - 1)
        encs, backs = [], []
        for n in range(a, b + 1):
            e = asn1.DerInteger(n).encode()
            encs.append(list(e))
            backs.append(asn1.DerInteger().decode(e, strict=True).value)
        out.append({"kind": "encints", "lo": a, "hi": b, "encs": encs, "backs": backs})
        a = b + 1
    return out


def main():
    mode = sys.argv[1]
    inp = json.load(sys.stdin)
    if mode == "misc":
        import c13_misc
        recs = c13_misc.run(inp)
    else:
        recs = {"sweep": sweep, "dec": dec, "mutdec": mutdec, "enc": enc, "encints": encints}[mode](inp)
    tid = inp.get("tid0", 0)
    for r in recs:
        tid += 1
        r["tid"] = tid
    json.dump(recs, sys.stdout)


if __name__ == "__main__":
    main()
