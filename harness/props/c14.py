"""C14 - big-integer arithmetic exact in every back-end; primality tests sound.

Level "exploration": TLC is the reference evaluator.  spec/sys/Backends.tla enumerates the operation x operand-shape classes,
drivers/c14_bigint.py runs a seeded sample (always every job marked `must`: the degenerate operands and precondition
violations) on IntegerGMP, IntegerCustom and IntegerNative in every variant (int / Integer operands, in place or not) and
records outcomes plus untrusted witnesses; spec/trace/BigIntTrace.tla judges every observation against spec/data/BigInt.tla.
"""
import copy
import json
import os
import random
from concurrent.futures import ThreadPoolExecutor

from .. import core, tlc

LEVEL = "exploration"

# samples per operation beyond the `must` jobs in the quick tier; the thorough tier runs every enumerated job once
HEAVY = {"powm": 60, "monty_pow": 24, "sqrtm": 40, "jacobi_symbol": 40, "inverse": 40, "mult_modulo_bytes": 30, "monty_multiply": 20, "pow": 30,
         "multiply_accumulate": 30}
DEFAULT = 36
OPLABEL = {"rshift": ">>", "lshift": "<<", "powm": "pow", "pow": "pow without modulus", "sqrtm": "sqrt modulo a prime", "mult_modulo_bytes": "_mult_modulo_bytes",
           "floordiv": "//", "mod": "%", "add": "+", "sub": "-", "mul": "*", "and": "&", "or": "|"}


def val(x):
    v = 0
    for i, limb in enumerate(x["m"]):
        v |= limb << (12 * i)
    return -v if x["s"] else v


def qualifier(t):
    """label of the input class a failing call belongs to (part of the violation key; no judgement)"""
    op = t["op"]
    a, b, c = val(t["a"]), val(t["b"]), val(t["c"])
    if op in ("rshift", "lshift") and a < 0:
        return " of a negative value"
    if op in ("powm", "mult_modulo_bytes", "monty_pow", "monty_multiply"):
        if c == 1:
            return " with modulus 1"
        if op == "powm" and a < 0 and c > 0:
            return " of a negative base with an %s modulus" % ("odd" if c % 2 else "even")
    return ""


def est_cost(t):
    """rough TLC cost of judging a record, only used to spread heavy records over the shards"""
    if t["fam"] == "prime":
        n = len(t["cand"])
        return 1 + sum(len(c["chain"]) + len(c["sq"]) for c in t["certs"]) * n * n * 2 + n * n
    la, lb, lc = len(t["a"]["m"]), len(t["b"]["m"]), len(t["c"]["m"])
    w = t["w"]
    cost = 50 + (la + 1) * (lb + 1) + (la + lb) * lc
    if "chain" in w:
        cost += len(w["chain"]) * lc * lc * 2
    if "qs" in w:
        cost += len(w["qs"]) * max(lb, 1) * 6
    if t["op"] == "pow":
        cost += (la * max(1, val(t["b"]))) ** 2 // 2 if val(t["b"]) > 0 else 0
    return cost


def key_of(t, who, clause):
    be = who.split("/")[0]
    if t["fam"] == "prime":
        return "%s: %s %s" % (be, t["op"], clause)
    if be == "modexp.c":
        clause = clause.replace("raises error", "returns an error code")
    return "%s: %s%s %s" % (be, OPLABEL.get(t["op"], t["op"]), qualifier(t), clause)


def split_verdict(clause):
    out = []
    for part in clause.split(" | "):
        who, _, cl = part.partition(": ")
        out.append((who, cl))
    return out


def select_jobs(ctx, jobs, quick, rnd):
    by_op = {}
    for j in jobs:
        by_op.setdefault(j["op"], []).append(j)
    sel = []
    for op in sorted(by_op):
        js = sorted(by_op[op], key=lambda j: json.dumps(j, sort_keys=True))
        must = [j for j in js if j["must"]]
        rest = [j for j in js if not j["must"]]
        rnd.shuffle(rest)
        sel += must + (rest[:HEAVY.get(op, DEFAULT)] if quick else rest)
    for k, j in enumerate(sel):
        j["k"] = k
    return sel


def selftest(modules):
    """the ASSUMEd vectors of the data layer, evaluated once per check (the trace specifications INSTANCE the data layer, which skips them)"""
    for m in modules:
        r = tlc.run(m, cfg_text="", workers=1, timeout=900)
        if not (r.ok and not r.errors):
            raise core.Machinery("data-layer self-test of %s failed:\n%s" % (m, r.out[-2000:]))


def run(ctx):
    quick = ctx.tier == "quick"
    rnd = random.Random(ctx.seed * 7919 + 14)
    selftest(["BigInt"])                   # BigInt EXTENDS BigNat: both sets of vectors
    # 1. the operation x shape classes, enumerated by TLC from the system-layer model (shared with C16)
    r = ctx.mc("Backends", "Backends_quick.cfg" if quick else "Backends_thorough.cfg", workers=4, timeout=900)
    jobs = [json.loads(tlc.tla_string_to_py(p)) for p in r.prints("JOB")]
    jobs = [j for j in jobs if j["fam"] == "int"]
    if len(jobs) < 30000:
        raise core.Machinery("Backends emitted only %d integer jobs" % len(jobs))
    sel = select_jobs(ctx, jobs, quick, rnd)
    # 2./3. record (three back-ends x variants; the primality jobs are built by the recorder from its tables, seeded) and judge, batch by batch
    #       so that neither this process nor the TLC JVMs hold more than a few thousand records (JVM heaps are bounded below)
    os.environ["JAVA_TOOL_OPTIONS"] = "-Xmx3g"
    ctx.lib
    silent = {}
    per_op = {}
    seen_viol = {}
    counts = {"obs": 0, "prime": 0}
    # accepted records kept for the samples and the binding self-checks: name -> (predicate, cheapest record seen)
    want = {
        "mul": lambda x: x["op"] == "mul" and len(x["obs"][0]["v"]["m"]) > 20 and x["obs"][0]["v"]["m"][0] > 1,
        "mod0": lambda x: x["op"] == "mod" and val(x["b"]) == 0,
        "modbig": lambda x: x["op"] == "mod" and val(x["b"]) > 2 ** 40 and abs(val(x["a"])) > val(x["b"]) and x["w"]["r"]["m"] and x["w"]["r"]["m"][0] > 1,
        "tpp": lambda x: x["op"] == "test_probable_prime" and x["truth"] == "prime",
        "mr": lambda x: x["op"] == "miller_rabin_test" and x["truth"] == "composite" and x["certs"],
        "powm": lambda x: x["op"] == "powm" and len(x["w"].get("chain", [])) > 10 and len(x["obs"][0]["v"]["m"]) > 3 and x["obs"][0]["v"]["m"][0] > 1,
        "to_bytes": lambda x: x["op"] == "to_bytes" and len(x["obs"][0]["by"]) > 8,
        "gen": lambda x: x["op"] == "generate_probable_prime" and x["bits"] >= 160,
        "inverse": lambda x: x["op"] == "inverse" and len(x["a"]["m"]) > 5 and x["w"].get("inv") == 1,
        "sqrtm": lambda x: x["op"] == "sqrtm" and len(x["b"]["m"]) > 5 and x["w"].get("res") == 1,
    }
    kept = {}

    def judge(traces):
        traces.sort(key=est_cost, reverse=True)
        verdicts = ctx.validate("BigIntTrace", traces, family="bigint", timeout=2400)
        for t in traces:
            pos, clause = verdicts[t["tid"]]
            counts["obs"] += len(t["obs"])
            counts["prime"] += t["fam"] == "prime"
            ctx.count(len(t["obs"]))
            per_op[t["op"]] = per_op.get(t["op"], 0) + 1
            if "harness:" in clause:
                raise core.Machinery("recorder/witness problem in %s %s: %s" % (t["op"], t.get("sh", t.get("cls")), clause))
            if clause.startswith("silent:"):
                silent[clause] = silent.get(clause, 0) + 1
                if t["op"] == "sqrtm" and any(x in core_primes() for x in t["sh"][1:2]):
                    raise core.Machinery("the specification did not recognise table prime %s" % t["sh"][1])
                continue
            if t["fam"] == "int":
                ctx.nontriv([t["op"], t["a"], t["b"], t["c"], t["by"], t["bo"]])
            else:
                ctx.nontriv([t["op"], t["cand"], t["iters"], t["bits"]])
            if clause == "ok":
                for name, pred in want.items():
                    if pred(t) and (name not in kept or est_cost(t) < est_cost(kept[name])):
                        kept[name] = t
                continue
            for who, cl in split_verdict(clause):
                key = key_of(t, who, cl)
                if key in seen_viol:
                    seen_viol[key] += 1
                    continue
                seen_viol[key] = 1
                if t["fam"] == "int":
                    detail = {"backend_and_variant": who, "op": t["op"], "shapes": t["sh"], "a": str(val(t["a"])), "b": str(val(t["b"])), "c": str(val(t["c"])),
                              "observed": [dict(who=o["who"], type=o["tn"], exc=o["ex"], value=str(val(o["v"]))) for o in t["obs"] if o["who"] == who][:1],
                              "clause": cl}
                else:
                    detail = {"backend_and_variant": who, "op": t["op"], "class": t["cls"], "truth": t["truth"], "candidate_limbs": t["cand"][:40], "clause": cl}
                ctx.violation(key, detail, replay=t)

    rnd.shuffle(sel)                      # every batch is a mix of cheap and expensive operations
    batch = 6000
    tid = 0
    for b0 in range(0, len(sel), batch):
        part = sel[b0:b0 + batch]
        chunks = [part[i:i + 750] for i in range(0, len(part), 750)]
        with ThreadPoolExecutor(max_workers=8) as ex:
            outs = list(ex.map(lambda ch: ctx.drive("c14_bigint", inp={"int": ch[1], "prime": "all" if (b0 == 0 and ch[0] == 0) else []}, timeout=3000),
                               enumerate(chunks)))
        traces = [t for o in outs for t in o]
        for t in traces:
            tid += 1
            t["tid"] = tid
        judge(traces)
        del traces, outs
    ctx.extra["violating_cases_per_key"] = seen_viol
    ctx.extra["records_per_operation"] = per_op
    ctx.extra["outside_documented_domain"] = silent
    ctx.extra["library_calls_judged"] = counts["obs"]
    ctx.extra["integer_jobs_enumerated_by_the_model"] = len(jobs)
    ctx.extra["integer_jobs_run"] = len(sel)
    ctx.extra["every_enumerated_shape_class_tuple_run"] = len(sel) == len(jobs)
    for name in ("mul", "powm", "inverse", "sqrtm", "to_bytes", "mr", "tpp", "gen"):
        t = kept.get(name)
        if t is not None:
            if t["fam"] == "int":
                ctx.sample({"op": t["op"], "shapes": t["sh"], "bits": [len(t[f]["m"]) * 12 for f in "abc"], "observations": len(t["obs"]),
                            "first": {k: (t["obs"][0][k] if k != "v" else str(val(t["obs"][0]["v"]))[:60]) for k in ("who", "tn", "ex", "v")}, "tlc_verdict": "ok"})
            else:
                ctx.sample({"op": t["op"], "class": t["cls"], "truth": t["truth"], "bits": len(t["cand"]) * 12, "observations": len(t["obs"]),
                            "certified_rounds": len(t["certs"]), "tlc_verdict": "ok"})
    # 4. binding self-checks: falsified observations must be rejected, a consistent lie must not pass
    def first(name):
        if name not in kept:
            raise core.Machinery("no accepted trace for the binding self-check %r" % name)
        return copy.deepcopy(kept[name])

    def flip_limb(t):
        t["obs"][0]["v"]["m"][0] ^= 1
        return t

    def returns_value(t):
        t["obs"][-1].update(ex="none", tn="Integer")
        return t

    def consistent_lie(t):      # witness and every observation claim the same wrong remainder
        t["w"]["r"]["m"][0] ^= 1
        for o in t["obs"]:
            o["v"]["m"][0] ^= 1
        return t

    def flip_verdict(t):
        t["obs"][0]["r"] = 1 - t["obs"][0]["r"]
        return t

    ctx.binding_selfcheck("BigIntTrace", first("mul"), flip_limb, "bigint: one limb of a product")
    ctx.binding_selfcheck("BigIntTrace", first("mod0"), returns_value, "bigint: value instead of ZeroDivisionError")
    ctx.binding_selfcheck("BigIntTrace", first("modbig"), consistent_lie, "bigint: remainder and witness falsified together")
    ctx.binding_selfcheck("BigIntTrace", first("tpp"), flip_verdict, "primality: prime declared composite")
    ctx.binding_selfcheck("BigIntTrace", first("mr"), flip_verdict, "primality: certified Miller-Rabin round contradicted")
    if not quick:
        ctx.binding_selfcheck("BigIntTrace", first("powm"), flip_limb, "bigint: one limb of a modular power")
        ctx.binding_selfcheck("BigIntTrace", first("to_bytes"), lambda t: (t["obs"][0]["by"].__setitem__(3, t["obs"][0]["by"][3] ^ 1), t)[1], "bigint: one byte of to_bytes")
        ctx.binding_selfcheck("BigIntTrace", first("gen"), lambda t: (t["obs"][0]["v"].append(1), t)[1], "primality: generated prime one limb too long")
    ctx.rule = ("operation x operand-shape classes enumerated by TLC from sys/Backends (sign x {0, 1, 2, 5 bits, 4095/4096, 65534..65537, 31/32/33, 63/64/65 bits, "
                "2^32, 2^63, 2^(64k)+-1 for k = 1, 2, 4, all-ones 192/1024/2048 bits, random 127/521/1024/2048 bits%s}, moduli zero/one/negative/even/odd/2^64, "
                "shift counts around limb and word boundaries up to 65536); quick: every job marked `must` (degenerate operands, precondition violations) plus a "
                "seeded sample per operation; thorough: every enumerated job once (operand values of a class drawn from the seed); each job runs on 3 back-ends x (int | Integer operand) x (in place | not); one evaluation = one library call judged by TLC; "
                "distinct = distinct (operation, operands) inside the documented domain; primality: %d jobs from the recorder's tables (table primes, Carmichael, "
                "strong/Lucas pseudoprimes, squares, close primes, generation sizes)" % ("" if quick else ", 3072/4096 bits", counts["prime"]))
    ctx.assume("TLC is used as reference evaluator (exploration, not state-space search): spec/data/BigNat.tla and BigInt.tla are right; they are pinned by "
               "ASSUMEd identities, by products computed with Python integers and by exhaustive comparison with TLC's own integers on a window")
    ctx.assume("witnesses (quotients, Bezout cofactors, square-and-multiply links, Jacobi reduction quotients) come from Python integers and are untrusted: "
               "a refused witness is a machinery failure, never a verdict")
    ctx.assume("primes are prime by construction (table from FIPS 186-4, SEC 2, RFC 7748/8032, RFC 3526, Mersenne exponents; trial division below 2^24); "
               "'probably prime' is certified only as one exact Miller-Rabin evaluation per drawn base and on the listed adversarial composites")
    ctx.assume("outside the documented domain the specification is silent: shift counts / bit indexes >= 65536, pow without modulus and exponent > 256, "
               "modular square root modulo a number that is not a certified prime, fail_if_divisible_by(<= 0), negative block size, negative terms of "
               "_mult_modulo_bytes, terms >= modulus in the C helpers")


def core_primes():
    return {"pr2", "pr3", "pr5", "pr7", "pr13", "pr17", "pr257", "pr65537", "pr8191", "M31", "M61", "M127", "P192", "P224", "P256", "N256", "P25519", "L25519",
            "K256", "P384", "M521"}
