------------------------------- MODULE ChaChaPoly -------------------------------
(* RFC 8439: ChaCha20 block function, Poly1305, AEAD_CHACHA20_POLY1305; XChaCha20 (draft-irtf-cfrg-xchacha-03). *)
EXTENDS Integers, Sequences, Bitwise, TLC
P2 == <<1,2,4,8,16,32,64,128,256,512,1024,2048,4096,8192,16384,32768,65536>>
\* 32-bit word = <<hi, lo>>
AddW(a, b) == LET lo == a[2] + b[2] IN <<(a[1] + b[1] + (lo \div 65536)) % 65536, lo % 65536>>
XorW(a, b) == <<a[1] ^^ b[1], a[2] ^^ b[2]>>
RotW(a, n) == IF n = 16 THEN <<a[2], a[1]>> ELSE LET p == P2[n + 1]  q == P2[17 - n] IN
              <<((a[1] * p) % 65536) + (a[2] \div q), ((a[2] * p) % 65536) + (a[1] \div q)>>
QR(a, b, c, d) == LET a1 == AddW(a, b)   d1 == RotW(XorW(d, a1), 16)
                      c1 == AddW(c, d1)  b1 == RotW(XorW(b, c1), 12)
                      a2 == AddW(a1, b1) d2 == RotW(XorW(d1, a2), 8)
                      c2 == AddW(c1, d2) b2 == RotW(XorW(b1, c2), 7)
                  IN <<a2, b2, c2, d2>>
DoubleRound(s) == LET q0 == QR(s[1], s[5], s[9],  s[13])  q1 == QR(s[2], s[6], s[10], s[14])
                      q2 == QR(s[3], s[7], s[11], s[15])  q3 == QR(s[4], s[8], s[12], s[16])
                      t == <<q0[1], q1[1], q2[1], q3[1], q0[2], q1[2], q2[2], q3[2], q0[3], q1[3], q2[3], q3[3], q0[4], q1[4], q2[4], q3[4]>>
                      r0 == QR(t[1], t[6], t[11], t[16])  r1 == QR(t[2], t[7], t[12], t[13])
                      r2 == QR(t[3], t[8], t[9],  t[14])  r3 == QR(t[4], t[5], t[10], t[15])
                  IN <<r0[1], r1[1], r2[1], r3[1], r3[2], r0[2], r1[2], r2[2], r2[3], r3[3], r0[3], r1[3], r1[4], r2[4], r3[4], r0[4]>>
RECURSIVE Rounds(_,_)
Rounds(s, n) == IF n = 0 THEN s ELSE Rounds(DoubleRound(s), n - 1)
WordLE(b, i) == <<b[i + 3] * 256 + b[i + 2], b[i + 1] * 256 + b[i]>>       \* 4 bytes little-endian at index i
WordBytes(w) == <<w[2] % 256, w[2] \div 256, w[1] % 256, w[1] \div 256>>
Sigma == << <<24944, 30821>>, <<13088, 25710>>, <<31074, 11570>>, <<27424, 25972>> >>   \* "expand 32-byte k"
KeyWords(key) == [j \in 1..8 |-> WordLE(key, 4 * j - 3)]
\* counter as <<hi32, lo32>> words for the 8-byte-nonce variant, single word for the 12-byte one
InitState(key, ctrLo, tail3) == LET k == KeyWords(key) IN
   <<Sigma[1], Sigma[2], Sigma[3], Sigma[4], k[1], k[2], k[3], k[4], k[5], k[6], k[7], k[8], ctrLo, tail3[1], tail3[2], tail3[3]>>
BlockBytes(st) == LET r == Rounds(st, 10) IN
   WordBytes(AddW(r[1], st[1])) \o WordBytes(AddW(r[2], st[2])) \o WordBytes(AddW(r[3], st[3])) \o WordBytes(AddW(r[4], st[4])) \o
   WordBytes(AddW(r[5], st[5])) \o WordBytes(AddW(r[6], st[6])) \o WordBytes(AddW(r[7], st[7])) \o WordBytes(AddW(r[8], st[8])) \o
   WordBytes(AddW(r[9], st[9])) \o WordBytes(AddW(r[10], st[10])) \o WordBytes(AddW(r[11], st[11])) \o WordBytes(AddW(r[12], st[12])) \o
   WordBytes(AddW(r[13], st[13])) \o WordBytes(AddW(r[14], st[14])) \o WordBytes(AddW(r[15], st[15])) \o WordBytes(AddW(r[16], st[16]))
CtrWord(n) == <<n \div 65536, n % 65536>>            \* block counters below 2^31 in this prototype
\* nonce of 12 bytes: one counter word; nonce of 8 bytes: 64-bit counter (high word 0 here)
NonceTail(nonce) == IF Len(nonce) = 12 THEN <<WordLE(nonce, 1), WordLE(nonce, 5), WordLE(nonce, 9)>>
               ELSE << <<0, 0>>, WordLE(nonce, 1), WordLE(nonce, 5)>>
Block(key, nonce, n) == BlockBytes(InitState(key, CtrWord(n), NonceTail(nonce)))
HChaCha(key, n16) == LET st == InitState(key, WordLE(n16, 1), <<WordLE(n16, 5), WordLE(n16, 9), WordLE(n16, 13)>>)
                         r == Rounds(st, 10)
                     IN WordBytes(r[1]) \o WordBytes(r[2]) \o WordBytes(r[3]) \o WordBytes(r[4]) \o WordBytes(r[13]) \o WordBytes(r[14]) \o WordBytes(r[15]) \o WordBytes(r[16])
EffKey(key, nonce) == IF Len(nonce) = 24 THEN HChaCha(key, SubSeq(nonce, 1, 16)) ELSE key
EffNonce(nonce) == IF Len(nonce) = 24 THEN <<0, 0, 0, 0>> \o SubSeq(nonce, 17, 24) ELSE nonce
RECURSIVE Stream(_,_,_,_,_,_)
Stream(key, nonce, n, data, i, acc) == IF i > Len(data) THEN acc ELSE
   LET k == Block(key, nonce, n)  m == IF Len(data) - i + 1 < 64 THEN Len(data) - i + 1 ELSE 64
   IN Stream(key, nonce, n + 1, data, i + 64, acc \o [j \in 1..m |-> data[i + j - 1] ^^ k[j]])
ChaCha20(key, nonce, firstBlock, data) == Stream(EffKey(key, nonce), EffNonce(nonce), firstBlock, data, 1, <<>>)
\* ---- Poly1305 over base-2^13 limbs (130 = 10 * 13), little-endian
B13 == 8192
Zeros(n) == [i \in 1..n |-> 0]
LimbOf(b, i) == LET bit == 13 * i  s == bit \div 8  o == bit % 8      \* b padded with zeros beyond its end
                    at(k) == IF k <= Len(b) THEN b[k] ELSE 0
                IN ((at(s + 1) + 256 * at(s + 2) + 65536 * at(s + 3)) \div P2[o + 1]) % B13
ToLimbs(b) == [i \in 1..10 |-> LimbOf(b, i - 1)]
Min(a, b) == IF a < b THEN a ELSE b
Max(a, b) == IF a > b THEN a ELSE b
RECURSIVE ColSum(_,_,_,_,_)
ColSum(a, b, k, i, hi) == IF i > hi THEN 0 ELSE a[i] * b[k - i + 1] + ColSum(a, b, k, i + 1, hi)
RECURSIVE CarryN(_,_,_,_)
CarryN(cols, i, c, acc) == IF i > Len(cols) THEN (IF c = 0 THEN acc ELSE CarryN(<<>>, 1, c \div B13, Append(acc, c % B13)))
                           ELSE LET s == cols[i] + c IN CarryN(cols, i + 1, s \div B13, Append(acc, s % B13))
Mul10(a, b) == CarryN(TLCEval([k \in 1..19 |-> ColSum(a, b, k, Max(1, k - 9), Min(k, 10))]), 1, 0, <<>>)
At(a, i) == IF i <= Len(a) THEN a[i] ELSE 0
\* fold: x = hi * 2^130 + lo  ==  lo + 5 * hi  (mod 2^130 - 5); repeated until 10 limbs with a small top
RECURSIVE Fold(_)
Fold(x) == IF Len(x) <= 10 THEN x \o Zeros(10 - Len(x)) ELSE
   LET lo == SubSeq(x, 1, 10)  hi == SubSeq(x, 11, Len(x))
   IN Fold(CarryN([k \in 1..10 |-> lo[k] + 5 * At(hi, k)], 1, 0, <<>>))
AddLimbs(a, b) == CarryN([k \in 1..10 |-> a[k] + At(b, k)], 1, 0, <<>>)
RECURSIVE GeP(_,_)
\* x >= p = 2^130 - 5 for a 10-limb x: all limbs 8191 except the lowest >= 8187
GeP(x, k) == IF k = 1 THEN x[1] >= 8187 ELSE x[k] = 8191 /\ GeP(x, k - 1)
Canon(x) == LET f == Fold(x) IN IF GeP(f, 10) THEN [k \in 1..10 |-> IF k = 1 THEN f[1] - 8187 ELSE 0] ELSE f
ByteOf(l, k) == LET bit == 8 * k  q == bit \div 13  o == bit % 13 IN ((At(l, q + 1) + B13 * At(l, q + 2)) \div P2[o + 1]) % 256
Clamp(r) == [r EXCEPT ![4] = r[4] % 16, ![8] = r[8] % 16, ![12] = r[12] % 16, ![16] = r[16] % 16,
                      ![5] = r[5] - (r[5] % 4), ![9] = r[9] - (r[9] % 4), ![13] = r[13] - (r[13] % 4)]
RECURSIVE PolyBlocks(_,_,_,_)
PolyBlocks(r, m, i, acc) == IF i > Len(m) THEN acc ELSE
   LET n == IF Len(m) - i + 1 < 16 THEN Len(m) - i + 1 ELSE 16
       blk == SubSeq(m, i, i + n - 1) \o <<1>>                    \* the 2^(8n) bit
   IN PolyBlocks(r, m, i + 16, Fold(Mul10(Fold(AddLimbs(acc, ToLimbs(blk))), r)))
RECURSIVE AddBytes(_,_,_,_)
AddBytes(a, b, k, c) == IF k > 16 THEN <<>> ELSE LET s == a[k] + b[k] + c IN <<s % 256>> \o AddBytes(a, b, k + 1, s \div 256)
Poly1305(r16, s16, m) == LET acc == Canon(PolyBlocks(ToLimbs(Clamp(r16)), m, 1, Zeros(10)))
                         IN AddBytes([k \in 1..16 |-> ByteOf(acc, k - 1)], s16, 1, 0)
Le8(n) == <<n % 256, (n \div 256) % 256, (n \div 65536) % 256, (n \div 16777216) % 256, 0, 0, 0, 0>>
Pad16(n) == Zeros((16 - (n % 16)) % 16)
AeadEncrypt(key, nonce, aad, pt) == LET k == EffKey(key, nonce)  n == EffNonce(nonce)
       otk == Block(k, n, 0)
       ct == Stream(k, n, 1, pt, 1, <<>>)
       mac == aad \o Pad16(Len(aad)) \o ct \o Pad16(Len(ct)) \o Le8(Len(aad)) \o Le8(Len(ct))
   IN <<ct, Poly1305(SubSeq(otk, 1, 16), SubSeq(otk, 17, 32), mac)>>
ChaChaOpen(key, nonce, aad, ct, tag) == LET k == EffKey(key, nonce)  n == EffNonce(nonce)
       otk == Block(k, n, 0)
       mac == aad \o Pad16(Len(aad)) \o ct \o Pad16(Len(ct)) \o Le8(Len(aad)) \o Le8(Len(ct))
   IN IF Len(tag) = 16 /\ tag = Poly1305(SubSeq(otk, 1, 16), SubSeq(otk, 17, 32), mac) THEN <<"ok", Stream(k, n, 1, ct, 1, <<>>)>> ELSE <<"reject", <<>>>>
\* RFC 8439 2.3.2 (block function, also reproduced with OpenSSL), 2.5.2 (Poly1305), 2.8.2 (AEAD tag)
ASSUME Block(<<0,1,2,3,4,5,6,7,8,9,10,11,12,13,14,15,16,17,18,19,20,21,22,23,24,25,26,27,28,29,30,31>>, <<0,0,0,9,0,0,0,74,0,0,0,0>>, 1) = <<16,241,231,228,209,59,89,21,80,15,221,31,163,32,113,196,199,209,244,199,51,192,104,3,4,34,170,154,195,212,108,78,210,130,100,70,7,159,170,9,20,194,215,5,217,139,2,162,181,18,156,209,222,22,78,185,203,208,131,232,162,80,60,78>>
ASSUME Poly1305(<<133,214,190,120,87,85,109,51,127,68,82,254,66,213,6,168>>, <<1,3,128,138,251,13,178,253,74,191,246,175,65,73,245,27>>, <<67,114,121,112,116,111,103,114,97,112,104,105,99,32,70,111,114,117,109,32,82,101,115,101,97,114,99,104,32,71,114,111,117,112>>) = <<168,6,29,193,48,81,54,198,194,43,139,175,12,1,39,169>>
ASSUME AeadEncrypt(<<128,129,130,131,132,133,134,135,136,137,138,139,140,141,142,143,144,145,146,147,148,149,150,151,152,153,154,155,156,157,158,159>>, <<7,0,0,0,64,65,66,67,68,69,70,71>>, <<80,81,82,83,192,193,194,195,196,197,198,199>>, <<76,97,100,105,101,115,32,97,110,100,32,71,101,110,116,108,101,109,101,110,32,111,102,32,116,104,101,32,99,108,97,115,115,32,111,102,32,39,57,57,58,32,73,102,32,73,32,99,111,117,108,100,32,111,102,102,101,114,32,121,111,117,32,111,110,108,121,32,111,110,101,32,116,105,112,32,102,111,114,32,116,104,101,32,102,117,116,117,114,101,44,32,115,117,110,115,99,114,101,101,110,32,119,111,117,108,100,32,98,101,32,105,116,46>>)[2] = <<26,225,11,89,79,9,226,106,126,144,46,203,208,96,6,145>>
=============================================================================
