------------------------------- MODULE ClassicMC -------------------------------
(* Every call sequence up to MaxDepth over encrypt / decrypt (symbolic lengths) and seal / unseal on obj/ClassicFsm. *)
EXTENDS ClassicFsm, Json
CONSTANTS Mode, BS, MaxDepth, SegLens, EmitHist
VARIABLES o, depth, hist
vars == <<o, depth, hist>>
Events == IF Mode \in WrapModes
          THEN [op : {"seal"}, n : SegLens] \cup [op : {"unseal"}, n : {n \in SegLens : n > 0}, shape : {"genuine", "forged", "short", "odd"}]
          ELSE [op : {"encrypt", "decrypt"}, n : SegLens] \cup (IF Mode = "chacha20" THEN [op : {"seek"}, n : SegLens] ELSE {})
Init == o = CInit(Mode, BS) /\ depth = 0 /\ hist = <<>>
Next == /\ depth < MaxDepth /\ depth' = depth + 1
        /\ \E e \in Events : o' = CStep(o, e) /\ hist' = IF EmitHist THEN Append(hist, e) ELSE hist
Spec == Init /\ [][Next]_vars
InvGuard == CGuardMatchesDiagram(o)
ForbiddenLeavesObjectUnchanged == [][o'.exc = "TypeError" => [o' EXCEPT !.exc = o.exc] = o]_vars
\* once a direction is chosen the other one stays closed (chained modes)
DirectionExclusive == [][(Mode \in Chained /\ o.phase # "init") => o'.phase = o.phase]_vars
\* the position only moves with an accepted call, by exactly the length supplied
PositionAccounted == [][o'.pos # o.pos => (o'.exc = "none" /\ (o'.pos > o.pos \/ Mode = "chacha20"))]_vars
\* KW: at most one successful call; a refused call never uses the object up
KwOnce == [][(Mode = "kw" /\ o.done) => (o'.exc = "ValueError" /\ o'.done)]_vars
KwRefusalKeepsObject == [][(Mode = "kw" /\ ~o.done /\ o'.exc = "ValueError") => ~o'.done]_vars
Emit == (EmitHist /\ depth = MaxDepth) => PrintT(<<"HIST", ToJson([cfg |-> [mode |-> Mode], events |-> hist])>>)
=============================================================================
