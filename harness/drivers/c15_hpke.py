"""C15 recorder: real HPKE sender/receiver contexts with an adversary in between, driven by histories that TLC generated from
sys/HpkeChannel; plus set-up attempts.  Records outcomes and projections only."""
import copy
import json
import os
import sys

sys.path.insert(0, os.path.dirname(os.path.abspath(__file__)))
from _util import exc_class, rb, rng  # noqa: E402

from Crypto.Protocol import HPKE
from Crypto.PublicKey import ECC

CURVES = {"p256": 0x10, "p384": 0x11, "p521": 0x12, "curve25519": 0x20, "curve448": 0x21}
AEADS = {1: HPKE.AEAD.AES128_GCM, 2: HPKE.AEAD.AES256_GCM, 3: HPKE.AEAD.CHACHA20_POLY1305}
M96 = (1 << 96) - 1
KEYS = {}


def key(curve, tag, r):
    k = (curve, tag)
    if k not in KEYS:
        KEYS[k] = ECC.generate(curve=curve, randfunc=lambda n: rb(r, n))
    return KEYS[k]


def pk_bytes(k):
    if k.curve in ("Curve25519", "Curve448"):
        return k.public_key().export_key(format="raw")
    return k.public_key().export_key(format="SEC1")


def lseq(v):
    return v if v < 500000 else 1000000 - (M96 - v)


def channel_trace(tid, hist, r, curve, aead, mode, mismatch, full, want=None):
    skR = key(curve, "R", r)
    skS = key(curve, "S", r)
    info = rb(r, r.choice([0, 1, 20]))
    psk = (rb(r, r.choice([1, 8])), rb(r, r.choice([32, 33, 64]))) if mode in (1, 3) else None
    if want == "nonce0" and psk:
        psk = (b"id", bytes(range(32)))
    auth = mode in (2, 3)
    captured = {}
    orig = HPKE._extract_and_expand

    def spy(dh, kem_context, kem_id, hashmod):
        captured["dh"] = dh
        captured["kemctx"] = kem_context
        return orig(dh, kem_context, kem_id, hashmod)
    HPKE._extract_and_expand = spy
    try:
        sender = HPKE.new(receiver_key=skR.public_key(), aead_id=AEADS[aead], sender_key=skS if auth else None, psk=psk, info=info)
        if want == "nonce0":
            # a session whose derived base nonce begins with a zero octet (one in 256): set-up is repeated (fresh ephemeral key, other info)
            # until one comes up - input generation; the key schedule of the session found is recomputed by the specification like any other
            try:
                n = 0
                while sender._base_nonce[0] != 0:
                    n += 1
                    if n > 6000:
                        return None
                    info = b"session-%d" % n
                    sender = HPKE.new(receiver_key=skR.public_key(), aead_id=AEADS[aead], sender_key=skS if auth else None, psk=psk, info=info)
            except AttributeError:
                return None
    finally:
        HPKE._extract_and_expand = orig
    # receiver, possibly set up differently
    rinfo, rpsk, raead, rsender = info, psk, aead, (skS.public_key() if auth else None)
    if mismatch == "info":
        rinfo = info + b"x"
    elif mismatch == "psk" and psk:
        rpsk = (psk[0], bytes([psk[1][0] ^ 1]) + psk[1][1:])
    elif mismatch == "pskid" and psk:
        rpsk = (psk[0] + b"y", psk[1])
    elif mismatch == "aead":
        raead = {1: 2, 2: 3, 3: 1}[aead]
    elif mismatch == "sender" and auth:
        rsender = key(curve, "S2", r).public_key()
    elif mismatch == "mode":
        if auth:
            rsender = None
        else:
            rsender = skS.public_key()
    elif mismatch == "receiver":
        skR = key(curve, "R2", r)
    elif mismatch == "enc":
        pass                      # handled below: the receiver is given a different encoding of the same ephemeral key
    elif mismatch != "none":
        mismatch = "info"
        rinfo = info + b"x"
    renc = sender.enc
    if mismatch == "enc":
        # a different byte string that decodes to the same ephemeral public key: it is not the enc that was sent
        if curve == "curve25519":
            renc = renc[:-1] + bytes([renc[-1] ^ 0x80])
        elif curve in ("p256", "p384", "p521"):
            renc = ECC.import_key(renc, curve_name=curve).export_key(format="SEC1", compress=True)
        else:
            mismatch = "info"
            rinfo = info + b"x"
    rcap = {}

    def rspy(dh, kem_context, kem_id, hashmod):
        rcap["kemctx"] = kem_context
        return orig(dh, kem_context, kem_id, hashmod)
    HPKE._extract_and_expand = rspy
    try:
        receiver = HPKE.new(receiver_key=skR, aead_id=AEADS[raead], enc=renc, sender_key=rsender, psk=rpsk, info=rinfo)
    except ValueError:
        if mismatch != "enc":
            raise
        # the re-encoded enc is refused at set-up: equally fine; continue with a plain mismatch so that the history is still used
        HPKE._extract_and_expand = orig
        mismatch, renc, rinfo = "info", sender.enc, info + b"x"
        HPKE._extract_and_expand = rspy
        receiver = HPKE.new(receiver_key=skR, aead_id=AEADS[raead], enc=renc, sender_key=rsender, psk=rpsk, info=rinfo)
    finally:
        HPKE._extract_and_expand = orig
    cfg = dict(kem=CURVES[curve], aead=aead, mode=mode, mismatch=mismatch, full=bool(full), info=list(info),
               psk=list(psk[1]) if psk else [], pskid=list(psk[0]) if psk else [],
               dh=list(captured.get("dh", b"")), kemctx=list(captured.get("kemctx", b"")), enc=list(sender.enc),
               pkR=list(pk_bytes(key(curve, "R", r))), pkS=list(pk_bytes(skS)) if auth else [],
               hasrctx="kemctx" in rcap, rkemctx=list(rcap.get("kemctx", b"")), renc=list(renc), rpkR=list(pk_bytes(skR)),
               rpkS=list(pk_bytes(rsender)) if rsender is not None else [])
    try:
        cfg.update(haskey=True, key=list(sender._key), basenonce=list(sender._base_nonce), expsecret=list(sender._export_secret))
    except AttributeError:
        cfg.update(haskey=False, key=[], basenonce=[], expsecret=[])
    sent = []
    events = []
    if tid % 3 == 0 and hist:
        # every third history: one or two calls in the wrong role at seeded positions (the model refuses them and changes nothing)
        hist = list(hist)
        for _ in range(r.choice([1, 2])):
            hist.insert(r.randrange(len(hist) + 1), {"op": "wrongrole", "who": r.choice(["sender.unseal", "receiver.seal"])})
    for e in hist:
        ev = dict(e)
        if e["op"] == "wrongrole":
            try:
                if e["who"] == "sender.unseal":
                    # a message that WOULD open if the call were not refused: sealed by a twin of the sender's context at the sender's
                    # present sequence number (the context holds only immutable values: a shallow copy is an independent twin)
                    try:
                        ct = copy.copy(sender).seal(b"to myself", None)
                    except Exception:
                        ct = rb(r, 40)
                    sender.unseal(ct, None)
                else:
                    receiver.seal(rb(r, 8), None)
                ev["exc"] = "none"
            except Exception as x:
                ev["exc"] = exc_class(x)
            try:
                ev.update(hasproj=True, sseq=lseq(sender._sequence), rseq=lseq(receiver._sequence))
            except AttributeError:
                ev.update(hasproj=False, sseq=0, rseq=0)
            events.append(ev)
            continue
        if e["op"] == "preset":
            v = M96 - (1000000 - e["v"])
            if sender._sequence == 0 and receiver._sequence == 0 and not events:
                sender._sequence = v
                receiver._sequence = v
            events.append(ev)
            continue
        if e["op"] == "seal":
            aad = rb(r, r.choice([0, 0, 5, 16]))
            pt = rb(r, r.choice([0, 1, 16, 31]))
            ev.update(aad=list(aad), pt=list(pt))
            try:
                ct = sender.seal(pt, aad if aad else None)
                ev.update(exc="none", ct=list(ct))
                sent.append((aad, pt, ct))
            except Exception as x:
                ev.update(exc=exc_class(x), ct=[])
            try:
                ev.update(hasproj=True, seq=lseq(sender._sequence))
            except AttributeError:
                ev.update(hasproj=False, seq=0)
        else:
            if e["src"] > len(sent):
                continue
            aad, pt, ct = sent[e["src"] - 1]
            mut = e["mut"]
            if mut == "flip":
                i = r.randrange(len(ct))
                ct = ct[:i] + bytes([ct[i] ^ (1 << r.randrange(8))]) + ct[i + 1:]
            elif mut == "trunc":
                ct = ct[:-1] if len(ct) > 16 else ct[1:] + b"\0"
            elif mut == "short":
                ct = ct[:r.choice([0, 1, 15])]
            elif mut == "extend":
                ct = ct + b"\0"
            elif mut == "otheraad":
                aad = aad + b"!" if r.random() < 0.5 or not aad else b""
            ev.update(aad=list(aad), ct=list(ct))
            try:
                out = receiver.unseal(ct, aad if aad else None)
                ev.update(exc="none", pt=list(out))
            except Exception as x:
                ev.update(exc=exc_class(x), pt=[])
            try:
                ev.update(hasproj=True, seq=lseq(receiver._sequence))
            except AttributeError:
                ev.update(hasproj=False, seq=0)
        events.append(ev)
    return dict(tid=tid, family="hpke", cfg=cfg, events=events)


def setup_traces(tid0, r):
    out = []
    tid = tid0
    curves = ["p256", "p384", "p521", "curve25519", "curve448"]
    for curve in curves:
        skR = key(curve, "R", r)
        skS = key(curve, "S", r)
        other = key("p256" if curve != "p256" else "p384", "S", r)
        good_enc = HPKE.new(receiver_key=skR.public_key(), aead_id=HPKE.AEAD.AES128_GCM).enc
        for receiver_private in (False, True):
            for enc_kind in ("none", "valid", "short", "long", "empty"):
                for psk_len, pskid_len in ((0, 0), (32, 4), (31, 4), (32, 0), (0, 4), (64, 1), (-1, -1)):       # (-1, -1): the explicit empty pair (b"", b"")
                    for sender in ("none", "priv", "pub", "othercurve"):
                        if r.random() > 0.35 and not (enc_kind in ("none", "valid") and psk_len in (0, 32, -1) and sender in ("none", "priv", "pub")):
                            continue
                        enc = {"none": None, "valid": good_enc, "short": good_enc[:-1], "long": good_enc + b"\0", "empty": b""}[enc_kind]
                        if sender == "none":
                            sk = None
                        elif sender == "priv":
                            sk = skS
                        elif sender == "pub":
                            sk = skS.public_key()
                        else:
                            sk = other if receiver_private is False else other.public_key()
                        psk = None if psk_len == 0 and pskid_len == 0 else (bytes(max(pskid_len, 0)), bytes(range(max(psk_len, 0))))
                        psk_given = psk is not None
                        desc = dict(receiver_private=receiver_private, enc=enc_kind, psk_len=max(psk_len, 0), pskid_len=max(pskid_len, 0), psk_given=psk_given,
                                    has_sender=sk is not None, sender_private=bool(sk is not None and sk.has_private()),
                                    same_curve=sender != "othercurve", curve_supported=True)
                        tid += 1
                        try:
                            HPKE.new(receiver_key=skR if receiver_private else skR.public_key(), aead_id=HPKE.AEAD.AES128_GCM,
                                     enc=enc, sender_key=sk, psk=psk)
                            exc = "none"
                        except Exception as x:
                            exc = exc_class(x)
                        out.append(dict(tid=tid, family="hpke-setup", cfg=dict(curve=curve), events=[dict(op="setup", desc=desc, exc=exc)]))
    # unsupported curves
    for curve in ("ed25519", "p224"):
        k = ECC.generate(curve=curve, randfunc=lambda n: rb(r, n))
        desc = dict(receiver_private=False, enc="none", psk_len=0, pskid_len=0, psk_given=False, has_sender=False, sender_private=False,
                    same_curve=True, curve_supported=False)
        tid += 1
        try:
            HPKE.new(receiver_key=k.public_key(), aead_id=HPKE.AEAD.AES128_GCM)
            exc = "none"
        except Exception as x:
            exc = exc_class(x)
        out.append(dict(tid=tid, family="hpke-setup", cfg=dict(curve=curve), events=[dict(op="setup", desc=desc, exc=exc)]))
    return out


def main():
    job = json.load(sys.stdin)
    r = rng("c15")
    traces = []
    tid = 0
    curves = ["p256", "curve25519", "p384", "p521", "curve448"]
    nfull = job["nfull"]
    nfull_big = dict((c, job.get("nfull_big", 2)) for c in ("p384", "p521", "curve448"))
    for i, h in enumerate(job["hists"]):
        tid += 1
        curve = curves[i % 5]
        aead = 1 + (i // 5) % 3
        mode = (i // 15) % 4
        mismatch = "none" if r.random() < 0.72 else r.choice(["info", "psk", "pskid", "aead", "sender", "mode", "receiver", "enc", "enc"])
        # full RFC 9180 evaluation: HKDF-SHA256 suites are cheap (~2 s of TLC), SHA-384/512 suites cost 3-4 times as much
        if curve in ("p256", "curve25519"):
            full = nfull > 0
            nfull -= 1 if full else 0
        else:
            full = nfull_big.get(curve, 0) > 0
            if full:
                nfull_big[curve] -= 1
        traces.append(channel_trace(tid, h, r, curve, aead, mode, mismatch, full))
    # sessions whose base nonce begins with a zero octet, fully evaluated (the nonce of every message must still be 12 octets)
    seals = [h for h in job["hists"] if sum(1 for e in h if e["op"] == "seal") >= 2 and not any(e["op"] == "preset" for e in h)]
    for j in range(job.get("nonce0", 0)):
        if not seals:
            break
        tid += 1
        t = channel_trace(tid, seals[j % len(seals)], r, ["curve25519", "p256"][j % 2], [1, 3, 2][j % 3], [0, 1, 2, 3][j % 4], "none", True, want="nonce0")
        if t is not None:
            t["cfg"]["nonce0"] = True
            traces.append(t)
    traces += setup_traces(tid, r)
    json.dump(traces, sys.stdout)


if __name__ == "__main__":
    main()
