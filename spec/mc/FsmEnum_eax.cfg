CONSTANTS Mode = "eax"
MaxDepth = 2
SegLens = {0, 1, 16, 33}
EmitHist = TRUE
INIT Init
NEXT Next
INVARIANT Emit
CHECK_DEADLOCK FALSE
