\* GF(2^3), both variants, k = 2..3, every set of k-1 indexes out of 1..4, every view, every secret, every tape
CONSTANTS MaxN = 4
MaxK = 3
BrokenSource = FALSE
INIT Init
NEXT Next
CHECK_DEADLOCK FALSE
INVARIANTS SecrecyByCounting KSharesDetermineSecret
