"""pytest plugin (loaded with -p suite_hash_plugin): runs the repository's own hash / MAC / XOF tests with recording proxies around every
hash object created through the modules' new() functions, so that each digest any existing test computes becomes a record
(algorithm, everything absorbed so far, output) that the specification judges against the transcribed standard (DESIGN.md section 9,
item 5).  HMAC and PBKDF2 build their inner hashes through the same new() functions, so their inner computations are recorded as
plain hash records too.  Records are written to $VERIF_SUITE_TRACES at session end; the proxies forward everything else."""
import json
import os

MAXMSG = int(os.environ.get("VERIF_SUITE_MAXMSG", "700"))
MAXOUT = 400
LIMIT = int(os.environ.get("VERIF_SUITE_LIMIT", "200000"))
RECS = {}            # (alg, hash, n, key, msg) -> record
PER_SHAPE = {}       # (alg, kind, message length, output length, key length) -> records kept (diversity over volume: PBKDF chains repeat one shape)
SHAPE_CAP = int(os.environ.get("VERIF_SUITE_SHAPE_CAP", "4"))


def is_buf(x):
    return isinstance(x, (bytes, bytearray, memoryview))


class HRec(object):
    def __init__(self, obj, alg, msg, hashname="", key=b"", n=0, dead=False):
        d = object.__getattribute__(self, "__dict__")
        d["_o"], d["_alg"], d["_msg"], d["_hash"], d["_key"], d["_n"], d["_dead"], d["_read"] = obj, alg, msg, hashname, key, n, dead, b""

    def __getattr__(self, name):
        d = object.__getattribute__(self, "__dict__")
        a = getattr(d["_o"], name)
        if name in ("update", "digest", "hexdigest", "copy", "read") and callable(a):
            return object.__getattribute__(self, "_wrap")(name, a)
        return a

    def __setattr__(self, name, value):
        setattr(object.__getattribute__(self, "__dict__")["_o"], name, value)

    def _emit(self, out, kind):
        d = object.__getattribute__(self, "__dict__")
        if d["_dead"] or len(RECS) >= LIMIT or len(out) > MAXOUT:
            return
        n = d["_n"] if kind != "xof" else len(out)
        k = (d["_alg"], d["_hash"], n, d["_key"], d["_msg"], kind)
        shape = (d["_alg"], kind, len(d["_msg"]), n, len(d["_key"]))
        if k not in RECS:
            if PER_SHAPE.get(shape, 0) >= SHAPE_CAP:
                return
            PER_SHAPE[shape] = PER_SHAPE.get(shape, 0) + 1
        if k in RECS and RECS[k]["out"] != list(out):
            k = k + (bytes(out),)              # two different answers for one question: keep both, the judge rejects at least one
        RECS.setdefault(k, dict(alg=d["_alg"], kind=kind, hash=d["_hash"], n=n, dom=0, key=list(d["_key"]), msg=list(d["_msg"]), custom=[], nonce=[],
                                items=[], out=list(out), out_exc="none", offers=[], hist=[], via_data=False, proj=[], variant="",
                                cost=1 + len(d["_msg"]) // 32, note="repo-test"))

    def _wrap(self, op, fn):
        d = object.__getattribute__(self, "__dict__")

        def call(*args, **kw):
            if op == "update":
                data = args[0] if args else kw.get("data", kw.get("msg"))
                snap = bytes(data) if is_buf(data) else None
                res = fn(*args, **kw)
                if snap is None or len(d["_msg"]) + len(snap) > MAXMSG:
                    d["_dead"] = True
                else:
                    d["_msg"] = d["_msg"] + snap
                return self if res is d["_o"] else res
            if op == "copy":
                c = fn(*args, **kw)
                r = HRec(c, d["_alg"], d["_msg"], d["_hash"], d["_key"], d["_n"], d["_dead"])
                object.__getattribute__(r, "__dict__")["_read"] = d["_read"]
                return r
            res = fn(*args, **kw)
            try:
                if op == "digest":
                    self._emit(bytes(res), d.get("_kind", "hash"))
                elif op == "hexdigest":
                    self._emit(bytes.fromhex(res), d.get("_kind", "hash"))
                elif op == "read":
                    d["_read"] = d["_read"] + bytes(res)
                    self._emit(d["_read"], "xof")
            except Exception:        # noqa: BLE001  (recording must never disturb the test)
                d["_dead"] = True
            return res
        return call


FIXED = {"MD2": "MD2", "MD4": "MD4", "MD5": "MD5", "RIPEMD160": "RIPEMD160", "SHA1": "SHA1", "SHA224": "SHA224", "SHA256": "SHA256", "SHA384": "SHA384",
         "SHA3_224": "SHA3_224", "SHA3_256": "SHA3_256", "SHA3_384": "SHA3_384", "SHA3_512": "SHA3_512"}


def initial(args, kwargs, names=("data",)):
    data = args[0] if args else None
    for nm in names:
        if data is None:
            data = kwargs.get(nm)
    if data is None:
        return b"", False
    if not is_buf(data) or len(data) > MAXMSG:
        return b"", True
    return bytes(data), False


def patch_fixed(modname, alg):
    import importlib
    mod = importlib.import_module("Crypto.Hash." + modname)
    orig = mod.new

    def new(*args, **kwargs):
        obj = orig(*args, **kwargs)
        msg, dead = initial(args, kwargs)
        a = alg
        if modname == "SHA512":
            tr = kwargs.get("truncate", args[1] if len(args) > 1 else None)
            a = "SHA512" if tr is None else "SHA512_" + str(tr)
        return HRec(obj, a, msg, dead=dead)
    mod.new = new


def patch_shake(modname, alg):
    import importlib
    mod = importlib.import_module("Crypto.Hash." + modname)
    orig = mod.new

    def new(*args, **kwargs):
        obj = orig(*args, **kwargs)
        msg, dead = initial(args, kwargs)
        return HRec(obj, alg, msg, dead=dead)
    mod.new = new


def patch_blake(modname, alg):
    import importlib
    mod = importlib.import_module("Crypto.Hash." + modname)
    orig = mod.new

    def new(**kwargs):
        obj = orig(**kwargs)
        msg, dead = initial((), kwargs)
        key = kwargs.get("key", b"")
        dead = dead or not is_buf(key)
        r = HRec(obj, alg, msg, key=bytes(key) if is_buf(key) else b"", n=obj.digest_size, dead=dead)
        object.__getattribute__(r, "__dict__")["_kind"] = "mac" if key else "hash"
        return r
    mod.new = new


def pytest_configure(config):
    for m, a in FIXED.items():
        patch_fixed(m, a)
    patch_fixed("SHA512", "SHA512")
    patch_shake("SHAKE128", "SHAKE128")
    patch_shake("SHAKE256", "SHAKE256")
    patch_blake("BLAKE2b", "BLAKE2b")
    patch_blake("BLAKE2s", "BLAKE2s")


def pytest_sessionfinish(session, exitstatus):
    path = os.environ.get("VERIF_SUITE_TRACES")
    if not path:
        return
    out = []
    for i, k in enumerate(sorted(RECS, key=lambda k: (k[0], len(k[4]), k[4], k[2], k[3], k[5], k[6:]))):
        r = RECS[k]
        r["tid"] = i + 1
        out.append(r)
    with open(path, "w") as f:
        json.dump(out, f)
