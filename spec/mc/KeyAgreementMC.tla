------------------------------- MODULE KeyAgreementMC -------------------------------
(* Exhaustive exploration of sys/KeyAgreement: every equipment of the two parties with static/ephemeral key pairs on up to
   two curves, every delivery (withheld, genuine, replaced by a low-order point) of every public key, every caller mistake,
   every interleaving of deliveries and calls.  The invariants are the design-level content of C06's ECDH clause; each
   finished configuration is printed (HIST) and replayed on the real library by drivers/c06_ec.py. *)
EXTENDS KeyAgreement, Json
CONSTANTS EmitHist, Mutant
VARIABLES keys, got, mis, res
vars == <<keys, got, mis, res>>
Pending == [done |-> FALSE, cls |-> {}, z |-> <<{}, {}>>]
KeyOrder == <<"Us", "Ue", "Vs", "Ve">>
\* curve tags up to renaming: the first key pair that exists lives on curve 1
Canonical(k) == LET ex == {i \in 1..4 : k[KeyOrder[i]] # 0} IN ex = {} \/ k[KeyOrder[CHOOSE i \in ex : \A j \in ex : i <= j]] = 1
Init == /\ keys \in {k \in [KeyIds -> 0..2] : Canonical(k)}
        /\ got = [k \in KeyIds |-> "none"]
        /\ mis \in {m \in [Parties -> Misuses] : \A x \in Parties : /\ (m[x] = "pubstatic" => keys[Static(x)] # 0)
                                                                    /\ (m[x] = "pubeph" => keys[Eph(x)] # 0)}
        /\ res = [x \in Parties |-> Pending]
\* the channel hands the public half of key pair k to the owner's peer (before the peer's call), genuine or replaced
Deliver(k, how) == /\ keys[k] # 0 /\ got[k] = "none" /\ ~res[Peer(Owner(k))].done
                   /\ got' = [got EXCEPT ![k] = how] /\ UNCHANGED <<keys, mis, res>>
\* Mutant = TRUE: the responder of C(1e,2s) mixes up its primitives (Ze from its static key and the peer's STATIC key); used only to
\* show that the invariant Agreement separates a wrong table from the right one
MOutcome(v) == LET o == Outcome(v) IN IF Mutant /\ Scheme(v) = "C(1e,2s)V" THEN [o EXCEPT !.ze = <<"sp", "sP">>] ELSE o
Call(x) == /\ ~res[x].done
           /\ res' = [res EXCEPT ![x] = LET o == MOutcome(View(keys, got, mis, x))
                                        IN [done |-> TRUE, cls |-> o.cls, z |-> IF o.cls = {"Z"} THEN SecretTerm(x, o) ELSE <<{}, {}>>]]
           /\ UNCHANGED <<keys, got, mis>>
Next == \/ \E k \in KeyIds, how \in {"genuine", "low"} : Deliver(k, how)
        \/ \E x \in Parties : Call(x)
Spec == Init /\ [][Next]_vars

Finished == res["U"].done /\ res["V"].done
Equip == <<keys["Us"] # 0, keys["Ue"] # 0, keys["Vs"] # 0, keys["Ve"] # 0>>
Faithful == \A k \in KeyIds : keys[k] # 0 => got[k] = "genuine"
Clean == Faithful /\ (\A x \in Parties : mis[x] = "none") /\ Cardinality({keys[k] : k \in KeyIds} \ {0}) <= 1
Secret(x) == res[x].done /\ res[x].cls = {"Z"}
\* the shared secrets are identical for both parties in every static/ephemeral combination
Agreement == (Secret("U") /\ Secret("V") /\ Faithful) => res["U"].z = res["V"].z
\* exactly the seven equipments of SP 800-56A chapter 6 let the parties derive a secret; with any other, neither party does
SchemesExact == (Finished /\ Clean) => IF Equip \in SchemeEquipments THEN Secret("U") /\ Secret("V") ELSE ~Secret("U") /\ ~Secret("V")
\* no secret is derived from a substituted low-order point, from keys on different curves or from a misused argument
NoSecretFromBadInput == \A x \in Parties : Secret(x) =>
   LET v == View(keys, got, mis, x) IN mis[x] = "none" /\ ~NeutralResult(v) /\ Cardinality({v.sp, v.sP, v.ep, v.eP} \ {0}) = 1
\* every ephemeral key that takes part contributes to Ze; every primitive pairs an own key with a key of the peer
Contributions == \A x \in Parties : Secret(x) =>
   LET v == View(keys, got, mis, x) IN
   /\ (v.ep # 0 => Eph(x) \in res[x].z[1]) /\ (v.eP # 0 => Eph(Peer(x)) \in res[x].z[1])
   /\ \A i \in 1..2 : res[x].z[i] = {} \/ (Cardinality(res[x].z[i]) = 2 /\ \E a, b \in res[x].z[i] : Owner(a) = x /\ Owner(b) = Peer(x))
\* every call has an outcome class, and a refusal is never ambiguous unless two independent faults coincide
Total == \A x \in Parties : res[x].done => (res[x].cls # {} /\ (Cardinality(res[x].cls) > 1 => res[x].cls = {"TypeError", "ValueError"}))
\* hint for the replayer (which primitives to supply witnesses for); the trace specification recomputes the outcome itself
Hint(x) == LET v == View(keys, got, mis, x)  o == Outcome(v) IN [eval |-> ~TypeFault(v) /\ ~ArgFault(v), ze |-> o.ze, zs |-> o.zs, cls |-> o.cls]
Emit == (EmitHist /\ Finished) => PrintT(<<"HIST", ToJson([keys |-> keys, got |-> got, mis |-> mis, hint |-> [x \in Parties |-> Hint(x)]])>>)
=============================================================================
