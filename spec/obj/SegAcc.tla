------------------------------- MODULE SegAcc -------------------------------
(* C09, object layer: the "block accumulators" of hashes and MACs, shaped like the code, against the abstract object whose
   state is the concatenation supplied so far.  Bytes are symbolic: byte i of the concatenation is <<"M", i>>, so a
   misplaced, dropped or duplicated byte is visible.  The abstract object is determined by `total` alone (the
   concatenation is ASym("M", 0, total)); the implementation-shaped object gets, at each update(n), the bytes
   ASym("M", total, n) and distributes them over its partial buffer and the block function.

   kind   code                                                             partial buffer
   "md"     src/hash_SHA2_template.c, SHA1/MD5/MD4/MD2/RIPEMD160 (same loop)   buf[curlen], flushed as soon as full
   "sponge" src/keccak.c keccak_absorb / keccak_finish                        buf[valid_bytes], flushed as soon as full
   "poly"   src/poly1305.c poly1305_update / poly1305_digest                  buffer[buffer_used], flushed as soon as full
   "blake"  src/blake2.c blake2_update                                        buf[buf_occ], flushed only when full AND more
                                                                              data follows (the last block carries a flag)
   "cmac"   lib/Crypto/Hash/CMAC.py update/_update/digest/copy                _cache[:_cache_n], _last_ct, _last_pt, _data_size
   An object is [cache, fed, total, lastCt, lastPt, chain]: fed = the bytes handed to the block function so far (always whole
   blocks), and for CMAC lastCt/lastPt/chain as explained at CmacUpd.  Block size bs and kind are arguments, so one
   module serves the model checker (bs = 4) and the trace specification (real sizes). *)
EXTENDS Integers, Sequences, TLC
AMin(a, b) == IF a < b THEN a ELSE b
ASym(s, from, n) == [i \in 1..n |-> <<s, from + i>>]
AZeros(n) == [i \in 1..n |-> <<"Z", 0>>]
ADrop(s, k) == SubSeq(s, k + 1, Len(s))
ATake(s, k) == SubSeq(s, 1, k)
NoBlock == << <<"none", 0>> >>
AccNew == [cache |-> <<>>, fed |-> <<>>, total |-> 0, lastCt |-> 0, lastPt |-> NoBlock, chain |-> 0]
-----------------------------------------------------------------------------
\* the while loop of sha_update / keccak_absorb / poly1305_update: copy min(len, left) bytes, flush when the buffer is full
RECURSIVE EagerLoop(_,_,_,_)
EagerLoop(bs, cache, fed, data) ==
   IF Len(data) = 0 THEN <<cache, fed>>
   ELSE LET tc == AMin(Len(data), bs - Len(cache))
            c1 == cache \o ATake(data, tc)
        IN IF Len(c1) = bs THEN EagerLoop(bs, <<>>, fed \o c1, ADrop(data, tc)) ELSE EagerLoop(bs, c1, fed, ADrop(data, tc))
\* blake2_update: the buffer is flushed only if it is full and input remains (len > 0 after the copy)
RECURSIVE LazyLoop(_,_,_,_)
LazyLoop(bs, cache, fed, data) ==
   IF Len(data) = 0 THEN <<cache, fed>>
   ELSE LET tc == AMin(Len(data), bs - Len(cache))
            c1 == cache \o ATake(data, tc)
            rest == ADrop(data, tc)
        IN IF Len(c1) = bs /\ Len(rest) > 0 THEN LazyLoop(bs, <<>>, fed \o c1, rest) ELSE LazyLoop(bs, c1, fed, rest)
(* CMAC.update / CMAC._update.  The CBC object self._cbc is modelled by `chain` = the number of blocks it has encrypted
   (its IV register holds ciphertext block number `chain`; block 0 is the zero IV).  _update(blocks) encrypts whole blocks:
   lastCt = index of the last ciphertext block, lastPt = <<"CT", index of the ciphertext block that was XORed in>> followed by the last
   plaintext block (strxor(second_last, data_block[-bs:])): for a one-block call second_last is self._last_ct, for a longer
   call it is taken from the ciphertext just produced. *)
CmacUpdBlocks(bs, o, blocks) ==
   IF Len(blocks) = 0 THEN o
   ELSE LET k == Len(blocks) \div bs
            second == IF k = 1 THEN o.lastCt ELSE o.chain + k - 1
        IN [o EXCEPT !.fed = o.fed \o blocks, !.chain = o.chain + k, !.lastCt = o.chain + k,
                     !.lastPt = << <<"CT", second>> >> \o SubSeq(blocks, Len(blocks) - bs + 1, Len(blocks))]
CmacUpd(bs, o, data) ==
   IF Len(o.cache) > 0 THEN
        LET filler == AMin(bs - Len(o.cache), Len(data))
            c1 == o.cache \o ATake(data, filler)
        IN IF Len(c1) < bs THEN [o EXCEPT !.cache = c1]
           ELSE LET o1 == CmacUpdBlocks(bs, [o EXCEPT !.cache = <<>>], c1)
                    msg == ADrop(data, filler)
                    remain == Len(msg) % bs
                IN [CmacUpdBlocks(bs, o1, ATake(msg, Len(msg) - remain)) EXCEPT !.cache = ADrop(msg, Len(msg) - remain)]
   ELSE LET remain == Len(data) % bs
        IN [CmacUpdBlocks(bs, o, ATake(data, Len(data) - remain)) EXCEPT !.cache = ADrop(data, Len(data) - remain)]
\* copy(): a new CBC object whose IV is _last_ct; everything else is copied
CmacCopy(o) == [o EXCEPT !.chain = o.lastCt]
AccAbsorb(kind, bs, o, n) ==
   LET data == ASym("M", o.total, n)
       o1 == [o EXCEPT !.total = o.total + n]
   IN CASE kind \in {"md", "sponge", "poly"} -> LET r == EagerLoop(bs, o.cache, o.fed, data) IN [o1 EXCEPT !.cache = r[1], !.fed = r[2]]
        [] kind = "blake" -> LET r == LazyLoop(bs, o.cache, o.fed, data) IN [o1 EXCEPT !.cache = r[1], !.fed = r[2]]
        [] kind = "cmac" -> CmacUpd(bs, o1, data)
-----------------------------------------------------------------------------
(* What the finalisation hands to the block function after `fed`, as a sequence of calls <<function, bytes...>>.
   md:     sha_finalize - 0x80, then zeros; if fewer than lw bytes are left for the length, an extra block
   sponge: keccak_finish - padding byte at buf[valid_bytes], 0x80 OR-ed into buf[rate-1] (one byte "PE" if they coincide)
   poly:   poly1305_digest - the partial buffer, if any, processed with its own length
   blake:  the buffer, zero-filled, as the final block (also for the empty message)
   cmac:   digest() - last block complete: E(lastPt xor K1); else E(lastCt xor pad(cache) xor K2) *)
Blocks(s, bs) == [j \in 1..(Len(s) \div bs) |-> SubSeq(s, (j - 1) * bs + 1, j * bs)]
Tagged(f, blocks) == [j \in 1..Len(blocks) |-> << <<f, 0>> >> \o blocks[j]]
LenField(lw, total) == [i \in 1..lw |-> <<"LEN", total>>]
AccFinal(kind, bs, lw, o) ==
   CASE kind = "md" ->
          LET c1 == Append(o.cache, <<"80", 0>>)
              tail == IF bs - Len(c1) < lw THEN c1 \o AZeros(bs - Len(c1)) \o AZeros(bs - lw) \o LenField(lw, o.total)
                      ELSE c1 \o AZeros(bs - Len(c1) - lw) \o LenField(lw, o.total)
          IN Tagged("f", Blocks(o.fed \o tail, bs))
     [] kind = "sponge" ->
          LET tail == IF Len(o.cache) = bs - 1 THEN Append(o.cache, <<"PE", 0>>)
                      ELSE Append(Append(o.cache, <<"P", 0>>) \o AZeros(bs - Len(o.cache) - 2), <<"E", 0>>)
          IN Tagged("f", Blocks(o.fed \o tail, bs))
     [] kind = "poly" -> Tagged("full", Blocks(o.fed, bs)) \o (IF Len(o.cache) > 0 THEN << << <<"part", 0>> >> \o o.cache >> ELSE <<>>)
     [] kind = "blake" -> Tagged("nonfinal", Blocks(o.fed, bs)) \o << << <<"final", o.total>> >> \o o.cache \o AZeros(bs - Len(o.cache)) >>
     [] kind = "cmac" ->
          IF Len(o.cache) = 0 /\ o.total > 0 THEN << << <<"K1", 0>> >> \o o.lastPt >>
          ELSE << << <<"K2", o.lastCt>> >> \o o.cache \o << <<"80", 0>> >> \o AZeros(bs - Len(o.cache) - 1) >>
\* the same thing defined from the concatenation alone (FIPS 180-4 5.1, FIPS 202 5.1/B.2, RFC 8439 2.5, RFC 7693 3.3, SP 800-38B 6.2)
Msg(total) == ASym("M", 0, total)
CeilDiv(a, b) == (a + b - 1) \div b
AccDef(kind, bs, lw, total) ==
   CASE kind = "md" -> LET k == (bs - ((total + 1 + lw) % bs)) % bs
                       IN Tagged("f", Blocks(Msg(total) \o << <<"80", 0>> >> \o AZeros(k) \o LenField(lw, total), bs))
     [] kind = "sponge" -> LET r == total % bs
                               pad == IF r = bs - 1 THEN << <<"PE", 0>> >> ELSE << <<"P", 0>> >> \o AZeros(bs - r - 2) \o << <<"E", 0>> >>
                           IN Tagged("f", Blocks(Msg(total) \o pad, bs))
     [] kind = "poly" -> LET q == total \div bs
                         IN Tagged("full", Blocks(ATake(Msg(total), q * bs), bs))
                            \o (IF total % bs > 0 THEN << << <<"part", 0>> >> \o ADrop(Msg(total), q * bs) >> ELSE <<>>)
     [] kind = "blake" -> LET nb == IF total = 0 THEN 1 ELSE CeilDiv(total, bs)
                              head == (nb - 1) * bs
                          IN Tagged("nonfinal", Blocks(ATake(Msg(total), head), bs))
                             \o << << <<"final", total>> >> \o ADrop(Msg(total), head) \o AZeros(nb * bs - total) >>
     [] kind = "cmac" -> LET nb == IF total = 0 THEN 1 ELSE CeilDiv(total, bs)
                             head == (nb - 1) * bs
                         IN IF total > 0 /\ total % bs = 0 THEN << << <<"K1", 0>>, <<"CT", nb - 1>> >> \o ADrop(Msg(total), head) >>
                            ELSE << << <<"K2", nb - 1>> >> \o ADrop(Msg(total), head) \o << <<"80", 0>> >> \o AZeros(nb * bs - total - 1) >>
-----------------------------------------------------------------------------
\* invariants
AccCacheBound(kind, bs, o) == IF kind = "blake" THEN Len(o.cache) <= bs /\ (o.total > 0 => Len(o.cache) > 0) ELSE Len(o.cache) < bs
AccPrefix(kind, bs, o) == o.fed \o o.cache = Msg(o.total) /\ Len(o.fed) % bs = 0
\* CMAC: the CBC object continues where _last_ct says (so that copy(), which restarts it from _last_ct, is a faithful clone)
AccChain(kind, bs, o) == kind = "cmac" => (o.chain = o.lastCt /\ o.chain = Len(o.fed) \div bs)
AccRefines(kind, bs, lw, o) == AccFinal(kind, bs, lw, o) = AccDef(kind, bs, lw, o.total)
=============================================================================
