\* separation: x^4 + x^2 + 1 = (x^2 + x + 1)^2 is not irreducible; the same invariants must fail (zero divisors, no inverses)
CONSTANTS M = 4
LowN = 5
INIT Init
NEXT Next
INVARIANTS Closed Commutative Associative Distributive Neutral NoZeroDivisor
