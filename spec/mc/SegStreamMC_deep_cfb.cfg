CONSTANTS Kind = "cfb"
BL = 8
NB = 1
SEG = 3
MaxTotal = 40
SPECIFICATION Spec
INVARIANT InvOutput
INVARIANT InvUsedBound
INVARIANT InvRegs
INVARIANT InvPos
CHECK_DEADLOCK FALSE
