CONSTANTS BS = 16
HL = 2
MaxDepth = 6
SegLens = {0,1,13,14,15,16,17,30,33}
DeclMsg = {99999, 0, 16, 33}
DeclAssoc = {99999, 0, 14, 15, 30}
EmitHist = TRUE
INIT Init
NEXT Next
INVARIANT Emit
CHECK_DEADLOCK FALSE
