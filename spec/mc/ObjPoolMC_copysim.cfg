\* copy-heavy interleavings (no new objects, no deletions): clones diverging from their parents, deeper than the exhaustive enumeration; used with -simulate
CONSTANTS MaxObjs = 3
MaxDepth = 9
NOps = 3
AllowedOps = {"copy", "use"}
EmitHist = TRUE
INIT Init
NEXT Next
INVARIANT Emit
CHECK_DEADLOCK FALSE
