"""Runs a selection of the repository's own test modules (from the out-of-tree build of the current working tree) under the
recording plugin suite_plugin and prints the recorded traces (JSON) on stdout.  argv: test files relative to lib/Crypto/SelfTest."""
import json
import os
import subprocess
import sys
import tempfile

here = os.path.dirname(os.path.abspath(__file__))
lib = [p for p in os.environ["PYTHONPATH"].split(os.pathsep) if p.endswith("/lib")][0]
root = os.path.dirname(lib)
fd, path = tempfile.mkstemp(suffix=".json", dir=os.environ.get("VERIF_WORK", "/var/tmp"))
os.close(fd)
env = dict(os.environ)
env["PYTHONPATH"] = lib + os.pathsep + here
env["VERIF_SUITE_TRACES"] = path
plugin = "suite_plugin"
argv = sys.argv[1:]
if argv and argv[0].startswith("--plugin="):
    plugin = argv.pop(0).split("=", 1)[1]
native = None
if argv and argv[0].startswith("--native="):
    # the library's own runner (python -m Crypto.SelfTest style): it also runs the known-answer tests that get_tests() builds from
    # the vector files, which pytest does not collect.  argv: sub-package names (Hash, Protocol, ...) or dotted test modules
    native = argv.pop(0).split("=", 1)[1].split(",")
if native:
    boot = ("import sys, unittest, importlib\n"
            "import %s as plug\n"
            "plug.pytest_configure(None)\n"
            "suite = unittest.TestSuite()\n"
            "for name in %r:\n"
            "    m = importlib.import_module('Crypto.SelfTest.' + name)\n"
            "    suite.addTests(m.get_tests(config={}))\n"
            "r = unittest.TextTestRunner(verbosity=0, stream=sys.stdout).run(suite)\n"
            "plug.pytest_sessionfinish(None, 0)\n"
            "print('native: ran %%d, failures %%d, errors %%d' %% (r.testsRun, len(r.failures), len(r.errors)))\n") % (plugin, native)
    p = subprocess.run([sys.executable, "-W", "ignore", "-c", boot], cwd=root, env=env, stdout=subprocess.PIPE, stderr=subprocess.STDOUT, text=True)
    try:
        with open(path) as f:
            traces = json.load(f)
    finally:
        os.unlink(path)
    tail = p.stdout.strip().splitlines()[-1] if p.stdout.strip() else ""
    json.dump({"traces": traces, "pytest_summary": tail, "returncode": p.returncode}, sys.stdout)
    sys.exit(0)
files = [os.path.join("lib/Crypto/SelfTest", f) for f in argv]
p = subprocess.run([sys.executable, "-m", "pytest", "-q", "-p", "no:cacheprovider", "-p", plugin, "--continue-on-collection-errors",
                    "-x" if False else "-q"] + files, cwd=root, env=env, stdout=subprocess.PIPE, stderr=subprocess.STDOUT, text=True)
try:
    with open(path) as f:
        traces = json.load(f)
finally:
    os.unlink(path)
tail = p.stdout.strip().splitlines()[-1] if p.stdout.strip() else ""
json.dump({"traces": traces, "pytest_summary": tail, "returncode": p.returncode}, sys.stdout)
