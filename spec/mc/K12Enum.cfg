CONSTANTS B = 4
Repaired = FALSE
MaxMsg = 14
CustomSuffixLens = {1, 2, 3, 4, 5, 9}
SegLens = {0, 1, 2, 3, 4, 5, 7, 8, 9}
MaxUpdates = 3
EmitHist = TRUE
SPECIFICATION Spec
INVARIANT Emit
INVARIANT InvStateAssert
CHECK_DEADLOCK FALSE
