\* GF(2^4), x^4 + x + 1: every element as first operand; second and third operand quantified over all 16 elements
CONSTANTS M = 4
LowN = 3
ASel = 0
ASeed = 0
INIT Init
NEXT Next
CHECK_DEADLOCK FALSE
INVARIANTS TablesClosed Commutative Associative Distributive Neutral Inverses NoZeroDivisor ZeroHasNoInverse PowIsRepeatedProduct
