---------------------------- MODULE CtrCarryApa ----------------------------
(* The byte-wise carry loop of src/raw_ctr.c (increment_be / increment_le) at the REAL byte base 256, for a counter of W bytes, as a
   transition system, with an inductive invariant that Apalache discharges for every byte vector (unbounded in the byte values; W is a
   constant of the instance):

       for (i = 0; i < W; i++) { if (++ctr[pos(i)] != 0) break; }          pos(i) = W - i (big endian) or i + 1 (little endian)

   Inductive invariant: the value of the counter plus the carry still to be propagated equals the initial value plus one, modulo 256^W.
   Consequence at termination (done or all bytes visited): Val(ctr) = (Val(ctr0) + 1) mod 256^W  -- the refinement the scaled-down TLC model
   (obj/CtrCounter, byte base 4) checks exhaustively, here for base 256. *)
EXTENDS Integers, Sequences, Apalache

CONSTANTS
  \* @type: Int;
  W,
  \* @type: Bool;
  LittleEndian

VARIABLES
  \* @type: Int -> Int;
  ctr,
  \* @type: Int -> Int;
  ctr0,
  \* @type: Int;
  k,         \* bytes visited so far
  \* @type: Bool;
  done

\* weight of byte position p (1..W): 256^(W-p) big endian, 256^(p-1) little endian
\* @type: (Int) => Int;
Pow256(n) == IF n = 0 THEN 1 ELSE IF n = 1 THEN 256 ELSE IF n = 2 THEN 65536 ELSE IF n = 3 THEN 16777216 ELSE IF n = 4 THEN 4294967296 ELSE IF n = 5 THEN 1099511627776 ELSE IF n = 6 THEN 281474976710656 ELSE IF n = 7 THEN 72057594037927936 ELSE IF n = 8 THEN 18446744073709551616 ELSE IF n = 9 THEN 4722366482869645213696 ELSE IF n = 10 THEN 1208925819614629174706176 ELSE IF n = 11 THEN 309485009821345068724781056 ELSE IF n = 12 THEN 79228162514264337593543950336 ELSE IF n = 13 THEN 20282409603651670423947251286016 ELSE IF n = 14 THEN 5192296858534827628530496329220096 ELSE IF n = 15 THEN 1329227995784915872903807060280344576 ELSE 340282366920938463463374607431768211456
Weight(p) == IF LittleEndian THEN Pow256(p - 1) ELSE Pow256(W - p)
Pos(i) == IF LittleEndian THEN i + 1 ELSE W - i            \* the byte the loop touches in iteration i = 0..W-1
\* @type: (Int -> Int) => Int;
Val(c) == ApaFoldSet(LAMBDA acc, p : acc + c[p] * Weight(p), 0, 1..W)
Bytes == [1..W -> 0..255]

Init == /\ ctr0 \in Bytes /\ ctr = ctr0 /\ k = 0 /\ done = FALSE
Next == \/ /\ ~done /\ k < W
           /\ LET p == Pos(k)  v == (ctr[p] + 1) % 256 IN
              /\ ctr' = [ctr EXCEPT ![p] = v]
              /\ done' = (v # 0)
           /\ k' = k + 1 /\ UNCHANGED ctr0
        \/ /\ (done \/ k = W) /\ UNCHANGED <<ctr, ctr0, k, done>>

\* the carry still to be propagated: 256^k (in weight units) while the loop has not broken out
Pending == IF done THEN 0 ELSE Pow256(k)
TypeOK == ctr \in Bytes /\ ctr0 \in Bytes /\ k \in 0..W /\ done \in BOOLEAN
IndInv == TypeOK /\ Val(ctr) + Pending = Val(ctr0) + 1
IndInit == IndInv
\* at termination the counter is the initial value plus one modulo 256^W
Terminated == done \/ k = W
Result == Terminated => (Val(ctr) = (Val(ctr0) + 1) % Pow256(W))
=============================================================================
