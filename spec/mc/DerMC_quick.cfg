\* C13 (i), quick tier: all 54 241 strings of length <= 4 over 15 octets chosen to hit every identifier octet the classes
\* use (01..06, 30, 31, 80, a0), the length-form boundaries (7f, 80, 81, 82, ff) and the INTEGER sign boundaries (00, 7f, 80, ff)
CONSTANTS Alphabet = {0, 1, 2, 3, 4, 5, 6, 48, 49, 127, 128, 129, 130, 160, 255}
MaxLen = 4
SPECIFICATION Spec
CHECK_DEADLOCK FALSE
INVARIANTS AcceptedOnlyIfWellFramed ObjectAcceptsExactlyWellFramed AcceptedIsCanonical ReencodingDecodesBack StrictRefinesLenient StrictIntegerHasNoLeadingZero
