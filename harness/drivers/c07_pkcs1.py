"""C07 recorder: offers encoded messages (enumerated by TLC from mc/Pkcs1MC) to the real PKCS1_v1_5 / PKCS1_OAEP decrypt
methods and records what they return; runs encrypt -> decrypt round trips; offers ciphertexts of the wrong length and
ciphertexts not below the modulus.  No verdict is computed here.

Two ways of getting an encoded message EM into the real decoders:
  stub key   PKCS1_v1_5.new(key) / PKCS1_OAEP.new(key, ...) only use key.size_in_bytes(), key.n, key._encrypt(int) and
             key._decrypt_to_bytes(int): a stub whose _decrypt_to_bytes returns the chosen EM drives the real Python wrapper and
             the branch-free C decoder with any octet pattern at any k, without RSA arithmetic;
  real RSA   fixed keys (512, 513, 768, 1023, 1024-bit moduli) built with RSA.construct; c = EM^e mod n is offered to the real
             decrypt; the key object is wrapped so that the block the real _decrypt_to_bytes returned is logged (the judge decodes
             THAT block); for e = 3 the quotient witnesses of EM^3 = c (mod n) are logged for TLC to check the link.
stdin: {"cases": [...], "v15_small_keep": [p02, pother], "v15_real_keep": [p02, pother], "oaep_keep": float, "rsa_per_key": int};
stdout: list of records."""
import hashlib
import json
import os
import sys

sys.path.insert(0, os.path.dirname(os.path.abspath(__file__)))
from _util import exc_class, limbs, rng  # noqa: E402

from Crypto.Cipher import PKCS1_OAEP, PKCS1_v1_5  # noqa: E402
from Crypto.Hash import SHA1, SHA256, SHA384, SHA512  # noqa: E402
from Crypto.PublicKey import RSA  # noqa: E402

# primes produced at authoring time (seeded search, primality confirmed with `openssl prime`)
PRIMES = [
    ("rsa512e3", 3, 0xe5defdefb1b8bb72f53ee023f4300e04440b8fe845bf588cd45c844212afb175,
     0xef6976086ae2b737db28f85b0a77cca46231af0293375d6c46fe2d38fb09205f),
    ("rsa513e3", 3, 0x1da9242cd507659964821b7de4931ce559495a1ad1d2466a8109a232ceac2559d,
     0xfb980fe88ef27515bc26a829d02f08da1dee8437cbada23e1e52be83ead33dcd),
    ("rsa768", 65537, 0xdadc26c5f7fd8b98be56d4e8bd2000c45a3bbc7f37e127558ac9e153959f8fdf7a4b91ee2b73f664284cc9b6b6f2babd,
     0xddde42a988852d93ffd0098e57318e9d4fcf2986f3726f15d3ce31801013f2577bd92af7b8a4b65ac6e4aaf752bb4875),
    ("rsa1023", 65537, 0x95ec0a02bcec5f50ad9b75a028d3f9fa1a1f31e002f46de13a0585fec25d27fe27a617094e5440461e5b895eee6706cd0d073f4405d6eec66746b1db1910c7b7,
     0x773fa50bac5b9bc324b21b9888307dd199b0e585ff1b5a0289d8bbb4491b5d28ac0d117709eeff5836ee9be5f4959a9a45ff052552dd581ae7ac4552b41643c7),
    ("rsa1024e3", 3, 0xe9e33ec9683df62ef72f96ce661b379f7a20d8575226b6fa11f437c7d9b1bcf053dd4ed827b77b51a245c51cf2e2a1a58351c3a6305facb2a88dd5a596184977,
     0xd12d2dd59538021741a087c6b7f604fbdcd186b2202d6a8cef69f4c67734a7e323dc5814b70b1695bc3bec40d7d92feaa24e4afd3ff6e963fb5db691bc4ba877),
]


def real_keys():
    out = []
    for name, e, p, q in PRIMES:
        n = p * q
        d = pow(e, -1, (p - 1) * (q - 1))
        out.append((name, RSA.construct((n, e, d, p, q), consistency_check=True)))
    return out


# ------------------------------------------------------------------ key objects handed to the ciphers
class StubKey:
    """_decrypt_to_bytes returns the chosen block; _encrypt / _decrypt_to_bytes without a chosen block are the identity."""

    def __init__(self, k, em=None):
        self.k = k
        self.n = int.from_bytes(b"\xc3" + b"\x55" * (k - 2) + b"\x57", "big") if k >= 2 else 0xc3
        self.em = em
        self.enc_in = []
        self.dec_out = []

    def size_in_bytes(self):
        return self.k

    def can_encrypt(self):
        return True

    def can_decrypt(self):
        return True

    def has_private(self):
        return True

    def _encrypt(self, m):
        self.enc_in.append(m)
        return m

    def _decrypt_to_bytes(self, c):
        r = self.em if self.em is not None else c.to_bytes(self.k, "big")
        self.dec_out.append(r)
        return r


class WrapKey:
    """a real RSA key; logs the integer handed to _encrypt and the block returned by _decrypt_to_bytes"""

    def __init__(self, key):
        self._key = key
        self.n = key.n
        self.enc_in = []
        self.dec_out = []

    def size_in_bytes(self):
        return self._key.size_in_bytes()

    def can_encrypt(self):
        return True

    def can_decrypt(self):
        return True

    def has_private(self):
        return True

    def _encrypt(self, m):
        self.enc_in.append(m)
        return self._key._encrypt(m)

    def _decrypt_to_bytes(self, c):
        r = self._key._decrypt_to_bytes(c)
        self.dec_out.append(r)
        return r


# ------------------------------------------------------------------ toy hash / MGF (definitions of spec/data/PKCS1.tla)
class ToyHash:
    def __init__(self, hl, data=b""):
        self.digest_size = hl
        self._d = bytearray(data)

    def new(self, data=None):
        return ToyHash(self.digest_size, data or b"")

    def update(self, data):
        self._d += bytes(data)
        return self

    def digest(self):
        a = sum(self._d)
        b = sum((i + 1) * x for i, x in enumerate(self._d))
        return bytes((a * (2 * j - 1) + b * j + 17 * j) % 256 for j in range(1, self.digest_size + 1))


def toy_mgf(seed, n):
    seed = bytes(seed)
    a = sum(seed)
    b = sum((i + 1) * x for i, x in enumerate(seed))
    return bytes((a * 3 + b * 5 + 7 * j + 11) % 256 for j in range(1, n + 1))


def hash_digest(name, data):
    """independent of the library under test (hashlib) for the real hashes"""
    if name.startswith("toy"):
        return ToyHash(int(name[3:]), data).digest()
    return hashlib.new(name.lower(), data).digest()


def hlen_of(name):
    return int(name[3:]) if name.startswith("toy") else {"SHA1": 20, "SHA256": 32, "SHA384": 48, "SHA512": 64}[name]


def mgf1(seed, n, name):
    t = b""
    c = 0
    while len(t) < n:
        t += hash_digest(name, bytes(seed) + c.to_bytes(4, "big"))
        c += 1
    return t[:n]


def mgf_apply(mgf, seed, n):
    return toy_mgf(seed, n) if mgf["kind"] == "toy" else mgf1(seed, n, mgf["hash"])


def hash_arg(name):
    return ToyHash(int(name[3:])) if name.startswith("toy") else {"SHA1": SHA1, "SHA256": SHA256, "SHA384": SHA384, "SHA512": SHA512}[name]


def oaep_new(key, hname, mgf, label, randfunc=None):
    """mgf = {"kind": "mgf1", "hash": hname} is requested by leaving mgfunc out (the documented default)"""
    kw = {"hashAlgo": hash_arg(hname), "label": label}
    if mgf["kind"] == "toy":
        kw["mgfunc"] = toy_mgf
    elif mgf["hash"] != hname:
        kw["mgfunc"] = lambda s, n, h=mgf["hash"]: mgf1(s, n, h)
    if randfunc is not None:
        kw["randfunc"] = randfunc
    if label and len(label) % 2 == 1:
        # the label arrives in a buffer the caller reuses as soon as new() has returned: the cipher must go on using the label it was given
        buf = bytearray(label)
        kw["label"] = buf
        o = PKCS1_OAEP.new(key, **kw)
        for i in range(len(buf)):
            buf[i] ^= 0xA5
        return o
    return PKCS1_OAEP.new(key, **kw)


def xor(a, b):
    return bytes(x ^ y for x, y in zip(a, b))


def oaep_mask(y, seed, db, mgf):
    mdb = xor(db, mgf_apply(mgf, seed, len(db)))
    ms = xor(seed, mgf_apply(mgf, mdb, len(seed)))
    return bytes([y]) + ms + mdb


# ------------------------------------------------------------------ recording
TRACES = []
NOWIT = {"has_wit": False, "q1": [], "r1": [], "q2": []}


def nbytes_of(n):
    return list(n.to_bytes((n.bit_length() + 7) // 8, "big"))


def witness(em, ct, key):
    """quotients of EM^3 = c (mod n), e = 3 (untrusted: TLC multiplies and compares)"""
    if key is None or key._key.e != 3 or em is None or len(ct) == 0:
        return dict(NOWIT)
    n = key.n
    x = int.from_bytes(em, "big")
    q1, r1 = divmod(x * x, n)
    q2, r2 = divmod(r1 * x, n)
    return {"has_wit": True, "q1": limbs(q1), "r1": limbs(r1), "q2": limbs(q2)}


def sentinel_of(kind, k, tid):
    if kind == "len0":
        return b""
    if kind == "len1":
        return b"S"
    if kind == "lenk":
        return b"S" * k
    if kind == "lenk1":
        return b"S" * (k + 1)
    return None if tid % 2 == 0 else object()


def rec_v15dec(key, ct, skind, expected, src, intended, desc):
    tid = len(TRACES) + 1
    k = key.size_in_bytes()
    sentinel = sentinel_of(skind, k, tid)
    del key.dec_out[:]
    out = None
    try:
        c = PKCS1_v1_5.new(key)
        if expected == 0 and tid % 3 == 0:
            out = c.decrypt(ct, sentinel)
        else:
            out = c.decrypt(ct, sentinel, expected_pt_len=expected)
        exc = "none"
    except Exception as e:  # the class is the observation
        exc = exc_class(e)
    reached = len(key.dec_out) == 1
    em = bytes(key.dec_out[0]) if reached else None
    if exc != "none":
        okind, outb = "exc", b""
    elif not isinstance(sentinel, (bytes, bytearray)) and out is sentinel:
        okind, outb = "sentinel_object", b""
    elif isinstance(out, (bytes, bytearray)):
        okind, outb = "bytes", bytes(out)
    else:
        okind, outb = "other", b""
    t = {"tid": tid, "fam": "v15dec", "src": src, "nbytes": nbytes_of(key.n), "ct": list(ct), "reached": reached,
         "em": list(em) if reached else [], "skind": "bytes" if isinstance(sentinel, bytes) else "object",
         "sentinel": list(sentinel) if isinstance(sentinel, bytes) else [], "expected": expected, "exc": exc, "okind": okind,
         "out": list(outb), "intended": intended, "desc": desc}
    t.update(witness(em, ct, key if isinstance(key, WrapKey) else None))
    TRACES.append(t)


def rec_oaepdec(key, ct, hname, mgf, label, src, intended, desc):
    tid = len(TRACES) + 1
    del key.dec_out[:]
    out = b""
    try:
        out = oaep_new(key, hname, mgf, label).decrypt(ct)
        exc = "none"
    except Exception as e:
        exc = exc_class(e)
    reached = len(key.dec_out) == 1
    em = bytes(key.dec_out[0]) if reached else None
    t = {"tid": tid, "fam": "oaepdec", "src": src, "nbytes": nbytes_of(key.n), "ct": list(ct), "reached": reached,
         "em": list(em) if reached else [], "hash": hname, "mgf": mgf, "label": list(label), "exc": exc,
         "okind": "bytes" if isinstance(out, (bytes, bytearray)) else "other", "out": list(out) if isinstance(out, (bytes, bytearray)) else [],
         "intended": intended, "desc": desc}
    t.update(witness(em, ct, key if isinstance(key, WrapKey) else None))
    TRACES.append(t)


class Tape:
    """randfunc for encryption: deterministic, with zero bytes among the single-byte draws (the v1.5 encoder must skip them)"""

    def __init__(self, tag, seed=None):
        self.r = rng("tape/" + tag)
        self.seed = seed
        self.drawn = []

    def __call__(self, n):
        if self.seed is not None and n == len(self.seed):
            b = bytes(self.seed)
        elif n == 1:
            b = bytes([self.r.choice([0, 0, 1, 2, 255, self.r.getrandbits(8)])])
        else:
            b = bytes(self.r.getrandbits(8) for _ in range(n))
        self.drawn.append(b)
        return b


def rec_rt(scheme, key, msg, src, hname="", mgf=None, label=b"", seed=None, expected_mode=0):
    """encrypt(msg) with the real method, then decrypt the result with a fresh cipher object on the same key"""
    tid = len(TRACES) + 1
    k = (key.n.bit_length() + 7) // 8
    mgf = mgf or {"kind": "toy", "hash": ""}
    del key.enc_in[:]
    del key.dec_out[:]
    tape = Tape("%d" % tid, seed)
    ct = b""
    try:
        if scheme == "v15":
            ct = PKCS1_v1_5.new(key, randfunc=tape).encrypt(msg)
        else:
            ct = oaep_new(key, hname, mgf, label, randfunc=tape).encrypt(msg)
        enc_exc = "none"
    except Exception as e:
        enc_exc = exc_class(e)
    enc_called = len(key.enc_in) == 1
    em_enc = key.enc_in[0].to_bytes(max(k, (key.enc_in[0].bit_length() + 7) // 8), "big") if enc_called else b""
    dec_done = enc_exc == "none"
    dec_exc, out, okind, em_dec = "none", b"", "bytes", b""
    expected = 0
    if dec_done:
        try:
            if scheme == "v15":
                expected = [0, len(msg)][expected_mode]
                out = PKCS1_v1_5.new(key).decrypt(ct, b"S" * (len(msg) + 1), expected_pt_len=expected)
            else:
                out = oaep_new(key, hname, mgf, label).decrypt(ct)
        except Exception as e:
            dec_exc = exc_class(e)
        if not isinstance(out, (bytes, bytearray)):
            okind, out = "other", b""
        em_dec = bytes(key.dec_out[0]) if len(key.dec_out) == 1 else b""
    t = {"tid": tid, "fam": "rt15" if scheme == "v15" else "rtoaep", "src": src, "nbytes": nbytes_of(key.n), "msg": list(msg),
         "hash": hname, "mgf": mgf, "label": list(label), "seed": list(seed or b""), "seed_used": seed is not None and bytes(seed) in tape.drawn,
         "enc_exc": enc_exc, "enc_called": enc_called, "em_enc": list(em_enc), "ct": list(ct), "dec_done": dec_done, "dec_exc": dec_exc,
         "em_dec": list(em_dec), "expected": expected, "okind": okind, "out": list(out)}
    t.update(witness(em_enc if enc_called else None, ct, key if isinstance(key, WrapKey) and dec_done else None))
    TRACES.append(t)


# ------------------------------------------------------------------ turning the model's cases into calls
def main():
    inp = json.load(sys.stdin)
    cases = inp["cases"]
    # fraction of the (sentinel, expected length) combinations replayed: [blocks that begin 00 02, other blocks] (the others are
    # all refused because of their first two octets; the blocks that begin 00 02 exercise every other rule)
    v15_small_keep = inp.get("v15_small_keep", [1.0, 1.0])   # k <= 32
    v15_real_keep = inp.get("v15_real_keep", [1.0, 1.0])     # real sizes
    oaep_keep = inp.get("oaep_keep", 1.0)      # fraction of the real-hash DB patterns kept
    rsa_per_key = inp.get("rsa_per_key", 40)   # enumerated blocks per real key and scheme offered as real ciphertexts
    r = rng("c07")
    keys = [(name, WrapKey(key)) for name, key in real_keys()]
    by_k = {}
    for name, wk in keys:
        by_k.setdefault(wk.size_in_bytes(), []).append((name, wk))
    rsa_pool = {name: {"v15": [], "oaep": []} for name, _ in keys}
    labels = [b"", b"lab", bytes(range(70))]

    for c in cases:
        fam = c["fam"]
        k = c["k"]
        if fam == "v15":
            em = bytes(c["em"])
            combos = c["combos"]
            keep = (v15_real_keep if k > 32 else v15_small_keep)[0 if (c["b1"], c["b2"]) == (0, 2) else 1]
            if keep < 1.0:
                combos = [cb for cb in combos if r.random() < keep]
            desc = "b1=%02x b2=%02x first zero at %d second zero at tail+%d" % (c["b1"], c["b2"], c["z"], c["tz"])
            for sk, exp, cls in combos:
                rec_v15dec(StubKey(k, em), bytes(k), sk, exp, "stub", cls, desc)
            for name, wk in by_k.get(k, []):
                if int.from_bytes(em, "big") < wk.n:
                    rsa_pool[name]["v15"].append((em, c["combos"], desc))
        elif fam == "oaep":
            em = bytes(c["em"])
            desc = "Y=%02x lHash' flip %d first non-zero DB octet %02x at %d tail %s/%d" % (c["y"], c["flip"], c["v"], c["p"], c["tk"], c["ti"])
            rec_oaepdec(StubKey(k, em), bytes(k), c["hash"], c["mgf"], bytes(c["label"]), "stub", c["cls"], desc)
            for name, wk in by_k.get(k, []):
                if int.from_bytes(em, "big") < wk.n:
                    rsa_pool[name]["oaep"].append((em, c["hash"], c["mgf"], bytes(c["label"]), c["cls"], desc))
        elif fam == "oaepdb":
            if r.random() >= oaep_keep:
                continue
            hname = c["hash"]
            hl = hlen_of(hname)
            label = r.choice(labels)
            mgf = {"kind": "mgf1", "hash": hname}
            x = r.random()
            if x < 0.12:
                mgf = {"kind": "mgf1", "hash": "SHA1" if hname == "SHA256" else "SHA256"}
            elif x < 0.2:
                mgf = {"kind": "toy", "hash": ""}
            lh = bytearray(hash_digest(hname, label))
            if c["flip"]:
                lh[c["flip"] - 1] ^= 1 if c["flip"] % 2 == 1 else 128
            seed = bytes(r.getrandbits(8) for _ in range(hl))
            em = oaep_mask(c["y"], seed, bytes(lh) + bytes(c["body"]), mgf)
            desc = "Y=%02x lHash' flip %d first non-zero DB octet %02x at %d tail %s/%d" % (c["y"], c["flip"], c["v"], c["p"], c["tk"], c["ti"])
            rec_oaepdec(StubKey(k, em), bytes(k), hname, mgf, label, "stub", c["cls"], desc)
            for name, wk in by_k.get(k, []):
                if int.from_bytes(em, "big") < wk.n:
                    rsa_pool[name]["oaep"].append((em, hname, mgf, label, c["cls"], desc))
        elif fam == "short":
            # k < 2 hLen + 2: decryption error whatever the block; nothing can be encrypted
            em = bytes(i % 2 for i in range(1, k + 1))
            mgf = {"kind": "mgf1", "hash": c["hash"]}
            rec_oaepdec(StubKey(k, em), bytes(k), c["hash"], mgf, b"", "stub", "error", "k < 2 hLen + 2")
            rec_rt("oaep", StubKey(k), b"", "stub", c["hash"], mgf, b"", bytes(hlen_of(c["hash"])))
            for name, wk in by_k.get(k, []):
                rec_oaepdec(wk, (1).to_bytes(k, "big"), c["hash"], mgf, b"", name, "error", "k < 2 hLen + 2")
                rec_rt("oaep", wk, b"", name, c["hash"], mgf, b"", bytes(hlen_of(c["hash"])))
        elif fam == "rt15":
            msg = bytes(c["msg"])
            targets = [("stub", StubKey(k))] + by_k.get(k, [])
            for j, (name, key) in enumerate(targets):
                rec_rt("v15", key, msg, name, expected_mode=(len(msg) + j) % 2)
        elif fam == "rtoaep":
            msg = bytes(c["msg"])
            targets = [("stub", StubKey(k))] + by_k.get(k, [])
            if k > 32 and not c["hash"].startswith("toy") and by_k.get(k):
                targets = by_k[k]       # the real hashes are costly for the judge: the stub adds nothing where a real key of that size exists
            for name, key in targets:
                rec_rt("oaep", key, msg, name, c["hash"], c["mgf"], bytes(c["label"]), bytes(c["seed"]))
        else:
            raise ValueError(fam)

    # enumerated blocks as real ciphertexts c = EM^e mod n
    for name, wk in keys:
        k = wk.size_in_bytes()
        e = wk._key.e
        pool = rsa_pool[name]["v15"]
        r.shuffle(pool)
        for em, combos, desc in pool[:rsa_per_key]:
            ct = pow(int.from_bytes(em, "big"), e, wk.n).to_bytes(k, "big")
            for sk, exp, cls in r.sample(combos, min(3, len(combos))):
                rec_v15dec(wk, ct, sk, exp, name, cls, desc)
        pool = rsa_pool[name]["oaep"]
        r.shuffle(pool)
        # accepted blocks are rare among the patterns: keep a third of the sample for them
        acc = [x for x in pool if x[4] == "ok"][:max(1, rsa_per_key // 3)]
        rej = [x for x in pool if x[4] != "ok"][:rsa_per_key - len(acc)]
        for em, hname, mgf, label, cls, desc in acc + rej:
            ct = pow(int.from_bytes(em, "big"), e, wk.n).to_bytes(k, "big")
            rec_oaepdec(wk, ct, hname, mgf, label, name, cls, desc)

    # ciphertexts of the wrong length and ciphertexts not below the modulus (and the largest one below it)
    for name, wk in keys + [("stub", StubKey(16)), ("stub", StubKey(64))]:
        k = wk.size_in_bytes()
        n = wk.n
        good = pow(int.from_bytes(b"\x00\x02" + b"\xaa" * (k - 6) + b"\x00abc", "big"), 3, n).to_bytes(k, "big") if name != "stub" else bytes(k)
        cts = [b"", good[:1], good[:-1], good[1:], b"\x00" + good, good + b"\x00", good + good]
        if name != "stub":
            cts += [n.to_bytes(k, "big"), (n - 1).to_bytes(k, "big"), bytes(k), (1).to_bytes(k, "big"), b"\xff" * k]
            if n + 1 < 1 << (8 * k):
                cts.append((n + 1).to_bytes(k, "big"))
        for ct in cts:
            key = wk if name != "stub" else StubKey(k, b"\x00\x02" + b"\xaa" * (k - 6) + b"\x00abc")
            rec_v15dec(key, ct, r.choice(["len1", "lenk", "object"]), r.choice([0, 3]), name, "any", "ciphertext length/range")
            for hname in ("SHA1", "toy2"):
                if name == "stub":
                    key = StubKey(k, oaep_mask(0, bytes(hlen_of(hname)), hash_digest(hname, b"") + bytes(k - 2 * hlen_of(hname) - 5) + b"\x01abc",
                                               {"kind": "mgf1", "hash": hname})) if k >= 2 * hlen_of(hname) + 5 else StubKey(k, bytes(k))
                rec_oaepdec(key, ct, hname, {"kind": "mgf1", "hash": hname}, b"", name, "any", "ciphertext length/range")
    sys.stdout.write(json.dumps(TRACES, separators=(",", ":")))


if __name__ == "__main__":
    main()
