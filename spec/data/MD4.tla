------------------------------- MODULE MD4 -------------------------------
(* RFC 1320 transcribed. *)
EXTENDS Words32
IV == << <<26437, 8961>>, <<61389, 43913>>, <<39098, 56574>>, <<4146, 21622>> >>
F(x, y, z) == OrW(AndW(x, y), AndW(NotW(x), z))
G(x, y, z) == OrW(OrW(AndW(x, y), AndW(x, z)), AndW(y, z))
H(x, y, z) == Xor3W(x, y, z)
K2 == <<23170, 31129>>      \* 5A827999
K3 == <<28377, 60321>>      \* 6ED9EBA1
Ord2 == <<0,4,8,12,1,5,9,13,2,6,10,14,3,7,11,15>>
Ord3 == <<0,8,4,12,2,10,6,14,1,9,5,13,3,11,7,15>>
SS == <<3,7,11,19,3,7,11,19,3,7,11,19,3,7,11,19, 3,5,9,13,3,5,9,13,3,5,9,13,3,5,9,13, 3,9,11,15,3,9,11,15,3,9,11,15,3,9,11,15>>
RECURSIVE Steps(_,_,_)
\* [abcd k s]: a = (a + f(b,c,d) + X[k] + const) <<< s, then the roles rotate (a,b,c,d) -> (d,a,b,c)
Steps(st, x, i) == IF i = 48 THEN st ELSE
   LET a == st[1] b == st[2] c == st[3] d == st[4]
       v == CASE i < 16 -> Add3W(a, F(b, c, d), x[i + 1])
              [] i >= 16 /\ i < 32 -> Add4W(a, G(b, c, d), x[Ord2[i - 15] + 1], K2)
              [] i >= 32 -> Add4W(a, H(b, c, d), x[Ord3[i - 31] + 1], K3)
   IN Steps(<<d, RotlW(v, SS[i + 1]), b, c>>, x, i + 1)
Compress(h, blk) == LET s == Steps(h, LeWords16(blk), 0) IN <<AddW(h[1], s[1]), AddW(h[2], s[2]), AddW(h[3], s[3]), AddW(h[4], s[4])>>
RECURSIVE HashBlocks(_,_,_)
HashBlocks(h, p, i) == IF i > Len(p) THEN h ELSE HashBlocks(Compress(h, SubSeq(p, i, i + 63)), p, i + 64)
Md4(m) == LET h == HashBlocks(IV, PadLE(m), 1) IN LeBytes(h[1]) \o LeBytes(h[2]) \o LeBytes(h[3]) \o LeBytes(h[4])
\* RFC 1320 A.5 test suite ("", "a", "abc", "message digest") and two longer values from the OpenSSL 3.5 legacy provider
ASSUME Md4(<<>>) = <<49,214,207,224,209,106,233,49,183,60,89,215,224,192,137,192>>
ASSUME Md4(<<97>>) = <<189,229,44,179,29,227,62,70,36,94,5,251,219,214,251,36>>
ASSUME Md4(<<97,98,99>>) = <<164,72,1,122,175,33,216,82,95,193,10,232,122,166,114,157>>
ASSUME Md4(<<109,101,115,115,97,103,101,32,100,105,103,101,115,116>>) = <<217,19,10,129,100,84,159,232,24,135,72,6,225,199,1,75>>
ASSUME Md4([i \in 1..56 |-> i - 1]) = <<184,233,75,100,8,187,250,110,201,128,91,242,27,192,92,189>>
ASSUME Md4([i \in 1..119 |-> i - 1]) = <<156,16,103,23,9,64,206,143,142,71,69,211,98,103,95,171>>
=============================================================================
