"""Regenerates MANIFEST.json from the table below (one source of truth for what is claimed)."""
import json
import os

VERIF = os.path.dirname(os.path.dirname(os.path.abspath(__file__)))

HOOK_COMMITS = ["477417ba"]

CHECKS = {
    "C01": dict(
        category="model_checking",
        text="TLC enumerates the adversary's operator sequences over sealed messages (sys/AeadChannel, ideal MAC, exhaustive to depth 2, "
             "simulated deeper; operators: flip, truncate, extend, prepend, empty, splice, reorder, boundary shift, other key, other tag length, and Craft - a "
             "key-holding peer that wraps non-conforming inner blocks for KW/KWP); each sequence is replayed on the real GCM/CCM/EAX/SIV/OCB/ChaCha20-Poly1305/KW/KWP objects and the "
             "receiver's outcome is judged by TLC against the verdict computed from the transcribed standards (spec/data/AesAead, "
             "ChaChaPoly): accept iff the offered tag is the defined one at the configured length, plaintext as defined, ValueError otherwise.",
        design_ref="DESIGN.md section 6, C01",
        note="Trusted: the TLA+ transcriptions of FIPS 197, SP 800-38B/C/D/F, RFC 5297, RFC 7253, RFC 8439 (pinned by the standards' "
             "vectors as ASSUMEs, checked at setup and on every run of the trace spec); TLC. Inputs explored are mutations of sealed messages (and crafted wraps), not "
             "arbitrary forgeries. Receiver APIs: decrypt_and_verify, decrypt+verify, hexverify, a second verify on the same object, output=, aliased output, "
             "pieces with empty pieces, update+verify without any decrypt() call; senders also update+digest without any encrypt() call.",
        technique="TLA+ system model (adversary operator algebra) checked by TLC; spec->code replay; code->spec trace validation with the standards transcribed in TLA+ as oracle",
    ),
    "C10": dict(
        category="model_checking",
        text="Object-layer models shaped like the code (GcmObj, CcmObj with declared/undeclared lengths, AeadFsm for EAX/SIV/OCB/ChaCha20-Poly1305, "
             "ClassicFsm for CBC/CFB/OFB/CTR/OpenPGP/ECB over seven block-cipher configurations, ChaCha20 with seek, Salsa20, ARC4, KW and KWP, "
             "HashFsm with copy for 40 hash/XOF/MAC configurations) are model-checked exhaustively over every call sequence to a depth bound with "
             "symbolic data (guards equal the documented diagram, TypeError leaves the object unchanged, terminal calls idempotent, MAC input equals "
             "the standard's formatting); TLC-generated sequences are replayed on the real objects and every recorded step is judged by TLC "
             "against the model (exception class, projected private state, outputs and tags equal to the one-shot computation). Every third AEAD history writes its results over the input.",
        design_ref="DESIGN.md section 6, C10",
        note="Trusted: TLC; the recorder's reading of private attributes; one-shot references computed by the library itself (their conformance to "
             "the standards is decided by C01/C02/C03). Depth-bounded: all sequences up to depth 2-3 are replayed, deeper ones are sampled.",
        technique="TLA+ object-layer state machines model-checked by TLC; spec->code replay of TLC behaviours; code->spec trace validation in TLC",
    ),
    "C11": dict(
        category="model_checking",
        text="Models shaped like raw_ctr.c (byte-wise increment_be/le, 8-block look-ahead, length vs length_max) and chacha20.c (counter, buffered "
             "block, usedKeyStream, seek) are model-checked exhaustively on scaled-down constants for every initial value and call sequence: the carry "
             "loop is addition mod Base^W, consumed counter values never repeat (wrap through zero included), the error is raised exactly by the request "
             "that would reuse a block and by every later one; the wrapping ChaCha20 variant is shown to violate the same properties. TLC-generated "
             "request/seek sequences are scaled to real MODE_CTR (AES, 3DES; counter_len 1-3; prefix/suffix; both endiannesses), ChaCha20/XChaCha20 "
             "and CCM objects (CTR key stream drawn through encrypt() and through decrypt()); TLC judges every call's exception class against the limit and sampled key stream "
             "against E(counter block) / the RFC 8439 block function. HPKE: the channel model (nonce distinctness, in-order-once, the message limit) is model-checked and a sample "
             "of its histories (every one with a refused input first; contexts preset just below the last sequence number) is replayed on real contexts, TLC stepping the model "
             "along the projected sequence numbers.",
        design_ref="DESIGN.md section 6, C11",
        note="Trusted: TLC; AES.tla and ChaChaPoly.tla transcriptions (pinned by FIPS 197 / RFC 8439 vectors); 3DES key stream is checked against the library's own "
             "ECB of the specified counter block. Limits of counter_len >= 4, GCM's 2^39-256 bytes are not reached by volume; the RFC 9180 values of HPKE keys and nonces are under C15.",
        technique="TLA+ implementation-shaped counter models checked exhaustively by TLC; spec->code replay across the real limits; code->spec trace validation in TLC",
    ),
    "C15": dict(
        category="model_checking",
        text="sys/HpkeChannel (sender, receiver, adversary; ideal AEAD) is model-checked exhaustively: the receiver outputs the genuine plaintexts in order "
             "and once, a rejected message leaves the sequence number unchanged so the next genuine one opens, nonces are pairwise distinct, nothing is sealed "
             "at the limit, nothing opens under a different set-up; the increment-before-result variant is shown to violate it. TLC-generated histories "
             "(replay, reorder, corrupt, truncate, extend, other AAD) are replayed on real contexts of 5 KEMs x 3 AEADs x 4 modes with matching and "
             "mismatching receivers; TLC judges every call (exception class, plaintext, projected sequence number) and, for a sample of contexts of every suite (HKDF-SHA256/384/512), recomputes "
             "kem_context, key schedule, per-message nonces and ciphertexts from RFC 9180 transcribed in TLA+ and uses the exact AEAD verdict. Set-up refusals are judged by rule. Calls in the wrong role (unseal on the sender's context with a message that would open, seal on the receiver's) must be refused and change nothing.",
        design_ref="DESIGN.md section 6, C15",
        note="Trusted: TLC; HpkeData/HpkeSha256/AesAead/ChaChaPoly transcriptions (pinned by RFC 9180 A.1.1, FIPS 180-4, RFC 4231 and the AEAD vectors). The DH output is "
             "taken from the trace (C06). The key schedule and every ciphertext are recomputed for a sample of contexts (HKDF-SHA256 suites: 45 per quick run; "
             "HKDF-SHA384/512 suites: 4); for the others the channel behaviour is judged under the ideal-AEAD assumption.",
        technique="TLA+ channel model checked exhaustively by TLC; spec->code replay of adversarial histories; code->spec trace validation with RFC 9180 transcribed in TLA+",
    ),
    "C19": dict(
        category="model_checking",
        text="sys/CurveRegistry (shaped like _Curves.__getitem__: re-entrant lock with owner/depth, absent->loaded->has_g->ready, the re-entrant call made by the "
             "generator's constructor) is model-checked exhaustively for 3 threads x 2 curves x 2 calls: mutual exclusion, loaded once, no caller other than the "
             "loader observes a partially initialised curve, stuck-freedom, and every call returns under weak fairness; the plain-lock and lock-free variants are "
             "shown to violate it. Schedules TLC generates from the lock-free variant are forced step by step on the real registry through guarded hooks (a "
             "controller parks threads at linearization points), free-running first-use races of 2-16 threads are recorded with the same hooks, and TLC validates "
             "every event sequence against the model. sys/ObjPool (lineages under new/use/copy/delete) is model-checked and its interleavings are replayed on pools "
             "of real objects of 34 families, sequentially and with one thread per object; TLC checks every result against the solo replay of the target's lineage "
             "and that caller-owned inputs are unchanged. Three fixed interleavings per family are always present (objects holding unfinished work alternately); families include KangarooTwelve in tree mode and x-only Montgomery points (set(), in-place ladder).",
        design_ref="DESIGN.md section 6, C19",
        note="Trusted: TLC; the hooks (add-only, guarded by PYCRYPTODOME_VERIF, commit 477417ba) are at the linearization points; blocked threads are detected by a timeout "
             "(a slow thread is only advanced later). Races inside native code are sampled by threaded runs, not enumerated.",
        technique="TLA+ models of the lazily initialised registry and of object lineages checked exhaustively by TLC (safety and liveness); TLC-generated thread schedules "
                  "forced on the code through hooks; code->spec trace validation in TLC",
    ),
    "C04": dict(
        category="model_checking",
        text="sys/SignChannel (signer, adversary who may hold the private key, verifier; symbolic structured signatures) is explored exhaustively by TLC to "
             "depth 2 (deeper by simulation): replay accepted, (r, n - s) the only accepted twin and only for (EC)DSA, out-of-range and non-canonical components, "
             "lax DER, wrong lengths rejected. Every operator sequence is concretised and replayed on the real schemes (RSASSA-PKCS1-v1_5, RSASSA-PSS, DSA and ECDSA in "
             "FIPS 186 and RFC 6979 modes with binary and DER encodings, Ed25519/Ed448 with context and prehash), together with sign() histories (sign; sign, the hash "
             "object's digest before and after, bytes drawn from the random source) and raw _sign/_verify calls on scaled-down curves. TLC judges every record with "
             "trace/SignTrace over data/Signatures: structural rules without arithmetic, RSA by the certified relation s^e mod n = EM (EMSA-PKCS1-v1_5 and EMSA-PSS "
             "transcribed), (EC)DSA/EdDSA by certified relations where the record carries witnesses and by consistency with the genuine tuple elsewhere; deterministic "
             "schemes byte for byte (PKCS#1 v1.5 through the RSA permutation, RFC 6979 through the nonce derivation, EdDSA through r, k, S).",
        design_ref="DESIGN.md section 6, C04",
        note="Trusted: TLC; data/Signatures and its foundations (pinned by RFC 8017/6979/8032 and OpenSSL-produced vectors as ASSUMEs checked at setup). Witnesses "
             "(quotients, chain points) are untrusted. Forgeries unrelated to a genuine signature are not explored; full-size EC relations are certified for a sample only.",
        technique="TLA+ system model (signature adversary operator algebra) checked by TLC; spec->code replay; code->spec trace validation with the signature standards "
                  "transcribed in TLA+ and witnessed big-number relations",
    ),
    "C05": dict(
        category="model_checking",
        text="sys/KeyPipeline is explored exhaustively by TLC (mc/KeyPipelineMC): every toy key of six key types (RSA, DSA, ElGamal, short-Weierstrass, "
             "twisted-Edwards, Montgomery x-only; toy curves found by exhaustive search and ASSUMEd against the group law) in every construct() form and import "
             "format with no, one or two ordered component corruptions (30 038 submitted cases). Invariants Sound/Complete: the documented validation relations "
             "accept exactly the tuples that satisfy what the key is for (RSA decryption inverts encryption for every message, g has order q by brute force, the "
             "public point is the d-th multiple in the table, a Montgomery u is none of the small-order values found by enumerating curve and twist); a pipeline that "
             "forgets the coordinate range check is shown to violate Sound. The cases are concretised on real keys (512/768-bit fixed and a per-run 1024-bit RSA key, "
             "DSA domains of 24..2048 bits, ElGamal safe primes, the nine curves; DER and PEM; PKCS#1, PKCS#8, SPKI incl. compressed, SEC 1, OpenSSH) and offered to "
             "the real construct()/import_key(), each call in a forked child under a deadline; generate() of all four types is driven with deterministic randfunc "
             "tapes, including entropy scripted so that the first prime candidates give d < 2^(nlen/2). TLC judges every record with trace/KeyTrace: validity of the "
             "offered components is computed in data/KeyInvariants (n = p q, e d = 1 mod lcm with a certified gcd, CRT values, q | p-1, g^q = 1 and g^x = y by "
             "certified square-and-multiply chains, curve equation with reduction witnesses, Q = d G link by link, RFC 8032 / RFC 7748 clamping with SHA-512 / "
             "SHAKE256 in TLA+, small order by three projective doublings) and compared with the outcome class; a returned key is judged on its own components; "
             "generated keys additionally on exact size and FIPS 186-4 sizes and margins.",
        design_ref="DESIGN.md section 6, C05",
        note="Trusted: TLC; data/KeyInvariants, ECGroup, BigNat, SHA512, Sponges (pinned by OpenSSL-generated RSA/DSA keys, RFC 8032 / RFC 7748 key pairs and toy "
             "vectors as ASSUMEs checked at setup). Witnesses are untrusted. 'Probable prime' is decided only up to: exact trial division below 2^24, no prime "
             "factor below 100, no factorisation exhibited by the recorder, and for sampled records one certified Miller-Rabin round to base 2 - weaker than the "
             "statement. Permissive where the statement is silent (named operators): d >= n, modulus offered without recoverable factors, public key with "
             "gcd(n, e) > 1, CRT fields of an RSAPrivateKey that the importer recomputes, public DSA/ElGamal value outside the subgroup, small-order Edwards public "
             "points, non-canonical X25519/X448 u, non-canonical Ed encodings, refusals of ElGamal.generate, IndexError/TypeError from RSA.import_key (documented). "
             "Encrypted containers, X.509 and OpenSSH private keys are C08/C13's subject.",
        technique="TLA+ system model of the validation pipeline checked exhaustively by TLC; spec->code replay of the enumerated cases on real keys; code->spec trace "
                  "validation with the key invariants transcribed in TLA+ as witnessed big-number relations",
    ),
    "C06": dict(
        category="model_checking",
        text="sys/KeyAgreement is explored exhaustively by TLC: every equipment of two parties with static/ephemeral key pairs on up to two curves, every delivery of "
             "every public key (withheld, genuine, replaced by a low-order point), every caller mistake; invariants: both parties derive the same term, exactly the "
             "SP 800-56A equipments yield a secret, no secret from bad input (a mutated responder table is shown to violate Agreement). A seed-dependent sample of the "
             "configurations is replayed on the real DH.key_agreement for both parties. The real EccPoint/EccXPoint arithmetic is recorded on the nine curves and on "
             "scaled-down SEC 2 curves run through the generic C code (every operand class: P+Q, P+P, P+(-P), P+O, O+O, low-order operands; scalars 0, 1, n-1, n, n+1, "
             "beyond the order, random). TLC judges every record with trace/EcTrace: Weierstrass, twisted-Edwards and Montgomery laws of data/ECGroup as relations "
             "certified link by link with untrusted witnesses, the RFC 7748 ladder, SEC1/RFC 7748 encodings of the shared secret, and the outcome table of the model.",
        design_ref="DESIGN.md section 6, C06",
        note="Trusted: TLC; data/ECGroup (curve parameters pinned by ASSUMEs: generators on their curves, n*G neutral certified link by link, RFC 7748 vectors); "
             "primality of the field primes. Witnesses are untrusted. Full-length scalars on full-size curves are sampled (quick: structured scalars; thorough: random full length).",
        technique="TLA+ model of the key-agreement role matrix checked exhaustively by TLC; spec->code replay; code->spec trace validation with the group laws transcribed "
                  "in TLA+ as witnessed relations",
    ),
    "C12": dict(
        category="exploration",
        text="RFC 8018 PBKDF1/PBKDF2, RFC 5869 HKDF, SP 800-108r1 counter mode, RFC 5297 S2V, RFC 7914 scrypt and bcrypt ($2a$, EksBlowfish) are transcribed in TLA+ "
             "(data/KDF) with their domain predicates; TLC computes the expected bytes (or the refusal) for every call recorded from the real library: toy PRF/hash "
             "passed through prf=/hashAlgo=/hashmod= for the structure (block counter, XOR chain, partial last block, multi-key slicing) over thousands of parameter "
             "points, real HMAC/SHA paths incl. the C helper with small counts, scrypt with small (N, r, p), bcrypt at cost 4 cut into witnessed EksBlowfish links, "
             "bcrypt_check on genuine / flipped / 72- vs 73-byte / NUL passwords, out-of-domain parameters. TLC is a reference evaluator here: inputs are sampled at "
             "boundary values, not enumerated.",
        design_ref="DESIGN.md section 6, C12",
        note="Trusted: TLC; data/KDF and its foundations (pinned by RFC 6070/5869/7914/5297, SP 800-108 and OpenSSL/bcrypt reference vectors as ASSUMEs checked at setup). "
             "Large cost parameters (PBKDF2 counts above about 1000 with a real PRF, scrypt N above 16, bcrypt cost above 4) are out of TLC's reach.",
        technique="standards transcribed as a TLA+ data layer evaluated by TLC on recorded calls (code->spec trace validation)",
    ),
    "C03": dict(
        category="model_checking",
        text="The standards are transcribed in TLA+ (FIPS 180-4 SHA-1/SHA-2 incl. truncated variants, RFC 1319/1320/1321 MD2/MD4/MD5, RIPEMD-160, FIPS 202 / SP 800-185 / "
             "RFC 9861 Keccak-p, SHA-3, SHAKE, cSHAKE, KMAC, TupleHash, TurboSHAKE, KangarooTwelve, RFC 7693 BLAKE2b/s, RFC 2104 HMAC over 15 hashes, SP 800-38B CMAC over "
             "AES/DES/3DES/RC2/Blowfish/CAST-128, Poly1305) and TLC computes from them the expected digest, XOF output or tag for every recorded call of the real library and the expected "
             "verdict for every tag offered to verify()/hexverify() (genuine, bit flips, truncated, extended, empty, other message). The chunk automaton of KangarooTwelve.py "
             "is an object-layer model that TLC checks exhaustively against RFC 9861's definition with symbolic bytes (it found F9) and whose histories are replayed on the real object. Constructors are called in every documented spelling (default sizes, digest_bits, key containers, the instance method new() of a used object); half of the two-piece histories finish on a copy().",
        design_ref="DESIGN.md section 6, C03",
        note="Trusted: TLC; the TLA+ transcriptions, each pinned by its standard's vectors (and hashlib/OpenSSL-produced vectors) as ASSUMEs checked at setup. TLC is a reference "
             "evaluator for the values (inputs are sampled at boundary lengths), a model checker for the K12 automaton.",
        technique="standards transcribed as a TLA+ data layer evaluated by TLC on recorded calls (trace validation); TLA+ model of the K12 chunk automaton checked exhaustively and replayed",
    ),
    "C07": dict(
        category="model_checking",
        text="RFC 8017 7.1.2/7.2.2 decoding rules (and the encoders) are transcribed in TLA+ (data/PKCS1); mc/Pkcs1MC makes TLC enumerate the encoded-message pattern "
             "classes (first two octets, position of the first zero, zeros inside PS, sentinel kinds, expected lengths; OAEP: Y, lHash' flips, PS bytes, missing/late 01, "
             "toy and real hashes/MGFs) with the invariant that each pattern's constructed class equals the decoder's verdict and that accepted blocks are exactly the "
             "encoder's image; every pattern is offered to the real PKCS1_v1_5/PKCS1_OAEP decrypt through a stub key (Python wrapper + branch-free C decoder) and through "
             "real RSA keys of 512-1024 bits (incl. bit lengths = 1 mod 8), with round trips for message lengths 0..max+1 and wrong-length / >= n ciphertexts; TLC judges every outcome.",
        design_ref="DESIGN.md section 6, C07",
        note="Trusted: TLC; PKCS1.tla (pinned by OpenSSL-produced blocks and Decode(Encode(M)) = M loops), SHA-1/SHA-256 transcriptions; the block logged from _decrypt_to_bytes is "
             "taken as the decrypted block (RSA arithmetic itself is C05/C14's subject; for e = 3 keys the cube relation is checked with witnesses). Timing is out of scope.",
        technique="RFC 8017 decoding rules transcribed in TLA+, pattern classes enumerated by TLC (model checking), replayed on the real decoders; code->spec trace validation in TLC",
    ),
    "C09": dict(
        category="model_checking",
        text="Implementation-shaped buffering models (block accumulators of the Merkle-Damgaard hashes, sponge valid_bytes, Poly1305, BLAKE2 lazy flush, CMAC cache/last blocks with copy, "
             "CTR look-ahead, OFB/CFB shift register for any segment size, ChaCha20/Salsa20 key-stream offsets, XOF squeezing, OCB caches, S2V deferral, and GcmObj/CcmObj/K12Obj by INSTANCE) "
             "are model-checked against the definition over the concatenation for every composition of segment lengths (block size 4, symbolic bytes); TLC-generated segmentations are scaled to "
             "the real block sizes and replayed on 87 object families crossed with five input buffer kinds, four result modes (returned, output=, output= memoryview, aliased) and caller "
             "mutation after return; TLC judges every piece against the one-shot slice at its stream position, final tags/digests, unchanged inputs, output= equivalence and projected cache lengths. Growth: Crypto.Util.strxor/strxor_c (container kinds, output modes incl. an input as output, guard bytes, refusals) judged by spec/trace/XorTrace.",
        design_ref="DESIGN.md section 6, C09",
        note="Trusted: TLC; one-shot references are the library's own over plain bytes (their conformance is C02/C03's subject); buffers inside native code are bound through delivered bytes only. "
             "TupleHash is checked metamorphically only.",
        technique="TLA+ refinement models of the buffering logic checked exhaustively by TLC; spec->code replay of all segmentations; code->spec trace validation in TLC",
    ),
    "C13": dict(
        category="model_checking",
        text="obj/DerDecoder is an X.690 DER reader with decoder/encoder pairs for all nine Der* classes (strict on/off, implicit/explicit tags, nr_elements, only_ints_expected), plus PKCS#8 "
             "containers, padding (three styles), integer conversion and PEM; TLC classifies every byte string up to length 4-5 over a 15-byte alphabet for 28 decoder configurations with the "
             "invariants 'accepted iff definite, minimal, non-truncated, non-trailing' and 'strict acceptance implies re-encoding gives the same bytes', and round trips over a finite value "
             "universe; the same universes are run through the real decoders and re-judged by TLC; grammar-aware mutations of real exported RSA/DSA/ECC keys (about 45 mutations per element, "
             "PBES parameter mutants, OpenSSH containers, PEM text mutations) are offered to import_key/PKCS8.unwrap/PEM.decode and judged for totality (documented exception set), strictness "
             "(the defect is confirmed from the bytes by ReadTlv) and absence of password-based derivation without a passphrase. OpenSSL-encrypted PEM blocks of all five documented cipher names are opened by the specification itself (EVP_BytesToKey/MD5, DES/3DES/AES-CBC from the data layer) and compared with PEM.decode / RSA.import_key.",
        design_ref="DESIGN.md section 6, C13",
        note="Trusted: TLC; the DER/PEM/padding transcriptions (pinned by X.690, RFC 4648 and OpenSSL-produced vectors). Named tolerances where X.690 refuses but C13 is silent are listed in "
             "DESIGN.md 11.4. 'Time bounded by the input size' is observed only as the absence of a KDF call on the no-passphrase path.",
        technique="TLA+ DER/PEM/padding decoders model-checked exhaustively over all short strings by TLC; replay on the real decoders and mutation sweep of key files; code->spec trace validation in TLC",
    ),
    "C02": dict(
        category="exploration",
        text="Every cipher of the statement (AES, DES, 3DES, Blowfish, CAST-128, RC2, RC4, Salsa20, ChaCha20/XChaCha20) and every mode (ECB, CBC, CFB with any segment size, OFB, CTR with every "
             "Counter layout, OpenPGP, EAX over all six block ciphers, GCM, CCM incl. the 6-byte AAD header, SIV, OCB, KW, KWP, ChaCha20-Poly1305) is transcribed in TLA+; for generated (cipher, mode, key, "
             "IV/nonce/counter parameters, message) points TLC computes the expected ciphertext and tag from the iv/nonce attribute the object exposes (also when the library chose it) and judges the real "
             "output, the decryption with a fresh object, and decrypt-direction calls on arbitrary data. TLC is a reference evaluator here: the inputs are sampled at boundary lengths, not enumerated. The receiver takes the plaintext in four ways (returned, own output buffer, written over the ciphertext, decrypt then verify).",
        design_ref="DESIGN.md section 6, C02",
        note="Trusted: TLC; the TLA+ transcriptions, each pinned by its standard's vectors and by OpenSSL/GnuPG-produced values as ASSUMEs checked at setup. The library's entropy source is replaced in the "
             "recorder by a seeded generator (the code that chooses, uses and exposes the nonce is untouched). Messages above 5 KiB and the 10-byte CCM length header are not covered.",
        technique="standards transcribed as a TLA+ data layer evaluated by TLC on recorded calls (code->spec trace validation)",
    ),
    "C08": dict(
        category="model_checking",
        text="sys/KeyExport models the export/import option space (7 key classes x private/public x format x pkcs x protection x prot_params x compress x passphrase = 7 128 combinations) with the "
             "documented legality matrix and the expected container kind, plus an equality pool of keys that differ in exactly one attribute; TLC checks the model's invariants and emits every "
             "combination; each is replayed on 70 real keys (RSA 512-1024 with unusual exponents and short/high-bit CRT members, DSA, nine curves with leading-zero coordinates). The exported bytes are "
             "read by TLC itself with the strict DER reader and transcribed structure definitions (PKCS#1, SPKI, PKCS#8, RFC 5915/8410, Dss-Parms, SEC1 with witnessed curve equation, RFC 8032/7748 raw, "
             "OpenSSH, PEM labels); legacy PEM encryption and PBES2 containers (PBKDF2 over 11 hashes or scrypt x 3DES/AES-CBC/AES-GCM) are opened in TLC when the KDF costs <= 40 PRF calls; import "
             "with the right, a wrong and no passphrase and the == table are judged.",
        design_ref="DESIGN.md section 6, C08",
        note="Trusted: TLC; KeyFormats.tla and its foundations, pinned by about 50 files produced with the openssl CLI and ssh-keygen as ASSUMEs. With default iteration counts the container is judged "
             "by structure and the decryption by the round trip. Regions the documentation leaves unspecified are named operators (any refusal accepted, any bytes still judged).",
        technique="TLA+ model of the export option space and key equality checked by TLC; spec->code replay of every combination; code->spec trace validation with an independent reader of the formats transcribed in TLA+",
    ),
    "C14": dict(
        category="exploration",
        text="Signed big integers are transcribed in TLA+ over base-2^12 limbs (data/BigNat, BigInt: + - x, comparison, shifts, bit operations, byte conversion defined directly; division, modulo, "
             "pow, inverse, gcd, lcm, sqrt, modular sqrt and Jacobi symbol as relations certified by untrusted witnesses the recorder supplies; exceptions are part of the relation). Every operation "
             "of the Integer classes is recorded on all three back-ends over operand shape classes (signs, word-boundary sizes, 1 bit to 4096 bits, int/Integer operands, in-place forms) and judged "
             "by TLC; primality verdicts are judged against ground truth by construction (table primes; Carmichael numbers, strong and Lucas pseudoprimes, squares, close primes with factor witnesses), "
             "Miller-Rabin rounds against exact certified rounds, generated primes for exact bit size (and, when an independent test finds one composite, a Miller-Rabin round certified by TLC). "
             "Crypto.Util.number (GCD, inverse, size, isPrime, getPrime from 2 bits on, getStrongPrime with p-1 coprime to e) is judged by the same relations. TLC is a reference evaluator here.",
        design_ref="DESIGN.md section 6, C14",
        note="Trusted: TLC; BigNat/BigInt (small identities and Python-int-produced products as ASSUMEs; a wrong witness can only make TLC refuse). Regions where the documentation is silent are named "
             "in BigInt.tla (shift counts >= 65536, pow without modulus with exponent > 256, modulus 1 for the raw C helpers: mont.c documents modulus >= 3).",
        technique="big-integer relations transcribed in TLA+ and certified with untrusted witnesses, evaluated by TLC on recorded calls (code->spec trace validation)",
    ),
    "C16": dict(
        category="model_checking",
        text="sys/Backends models the configuration lattice (the Numbers.py selection chain for 8 environments; use_aesni x use_clmul x CPU) and generates every job; TLC checks the model against its closed "
             "form. Each job is run under every configuration (integer back-ends in their own processes with PYCRYPTODOME_DISABLE_GMP / forced native) and one record carries (value, value type, exception "
             "class) per configuration: TLC requires them identical, equal to the BigInt/AES/GCM specification where it defines the value, and the selected back-end equal to the model's. AES over 12 modes "
             "x key sizes x lengths 0..257 x unaligned memoryview offsets, GHASH 0..9 blocks with odd nonce lengths, 19 RSA/DSA/ECC/primality operations on seeded tapes, single-precondition violations.",
        design_ref="DESIGN.md section 6, C16",
        note="Trusted: TLC; BigInt, AES, AesAead transcriptions. CPUs without AES-NI/CLMUL cannot be emulated: only the software switch is exercised. Agreement on the exception class is not required when two "
             "preconditions are violated at once.",
        technique="TLA+ configuration model checked by TLC and used as the job generator; differential records judged by TLC against each other and against the TLA+ data layer (trace validation)",
    ),
    "C18": dict(
        category="model_checking",
        text="obj/Sampler models the samplers as byte-level step machines over an entropy tape (read k bytes, mask, compare, accept or retry) in the three shapes the code has (Integer.random, "
             "getrandbits, getRandomInteger) plus randrange/randint/choice/shuffle/sample; TLC explores every draw of an attempt (base 256 for attempts of <= 2 bytes, base 16 beyond) for every range "
             "bound 0..40 and bit size 0..12 and checks range, uniformity by counting per attempt (equal pre-image counts, no dead range), memorylessness after a rejected attempt and that the bytes "
             "consumed are a function of the path; shuffle/sample have equal fibres over all tapes for n <= 4; a modulo-reduction sampler and the naive shuffle are shown to violate it. TLC-generated tapes "
             "(exhaustive first bytes, boundary tapes for cryptographic sizes) are fed to the real functions through randfunc= (and a replaced Crypto.Random.new for internal consumers) on three back-ends; "
             "TLC requires value and bytes drawn to equal the model's; ECC/DSA/RSA consumers (private scalars, nonces, blinding factors, seeds) must be deterministic functions of the tape within their consumer's bounds.",
        design_ref="DESIGN.md section 6, C18",
        note="Trusted: TLC. getPrime and RSA.generate are judged on size, parity and determinism only (the prime search is not modelled).",
        technique="TLA+ step-machine model of the rejection samplers checked exhaustively by TLC (uniformity by counting); spec->code replay of TLC-generated entropy tapes; code->spec trace validation in TLC",
    ),
    "C20": dict(
        category="model_checking",
        text="data/GF2m is GF(2^m) generic in degree and polynomial with Shamir's scheme (Horner shares, the ssss +x^k tweak, Lagrange at zero, duplicate detection); TLC checks the field axioms for all "
             "elements of GF(2^3), GF(2^4), GF(2^8) (all 16.7M triples in the thorough tier), and on a small field every secret x every coefficient tape x both variants x 2 <= k <= n <= 4: every ordered "
             "k-subset reconstructs the secret, duplicates are refused, and secrecy by counting (for every k-1 shares the number of consistent (secret, tape) pairs is the same for every secret); a reducible "
             "polynomial, a variant flip and a broken coefficient source are rejected. At m = 128 (irreducibility of the documented polynomial by Rabin's test as an ASSUME) the same operators judge the real "
             "_Element operations on boundary and random elements and split/combine with the random source replaced by a logged tape, for every k-subset in every order with n <= 5.",
        design_ref="DESIGN.md section 6, C20",
        note="Trusted: TLC; GF2m.tla (pinned by FIPS 197 products, a GHASH vector, ssss vectors). _Element ** 0 (unreachable through split/combine) is left open by name.",
        technique="TLA+ finite-field and secret-sharing model checked exhaustively by TLC on small fields (incl. secrecy by counting); spec->code replay with coefficient tapes; code->spec trace validation in TLC at m = 128",
    ),
}

NOT_APPLICABLE = {
    "C17": "memory safety of native code is invisible to a TLA+ specification of API behaviour; only a sanitizer could bind such a "
           "model to the compiled code, which would be a different technique (DESIGN.md section 8)",
}

NOT_YET = {}


def main():
    props = [json.loads(l)["id"] for l in open(os.path.join(VERIF, "properties.jsonl"))]
    checks = []
    for pid in props:
        if pid not in CHECKS:
            continue
        c = CHECKS[pid]
        checks.append({
            "property_id": pid,
            "quick_cmd": "./check %s --tier quick" % pid,
            "thorough_cmd": "./check %s --tier thorough" % pid,
            "evidence_file": "/verif/evidence/%s.json" % pid,
            "replay_cmd_template": "./check replay {path}",
            "engine": "tlc",
            "level_claimed": {"category": c["category"], "text": c["text"], "design_ref": c["design_ref"]},
            "level_note": c["note"],
            "technique": c["technique"],
        })
    na = []
    for pid in props:
        if pid in CHECKS:
            continue
        reason = NOT_APPLICABLE.get(pid) or NOT_YET.get(pid) or "check not built yet in this round; not claimed"
        na.append({"property_id": pid, "reason": reason})
    m = {
        "version": 1,
        "setup_cmd": "./check setup",
        "hooks": {
            "guard": "PYCRYPTODOME_VERIF",
            "enable": "checks build /repo's working tree out of tree (harness/build.py -> /var/tmp/pcd-verif/<tree hash>) and run the "
                      "drivers with PYCRYPTODOME_VERIF=1 in the environment; hooks are Python-level and inert without it",
            "baseline_off_cmd": "cd /repo && env -u PYCRYPTODOME_VERIF /venv/bin/python -m pytest -ra -q -p no:cacheprovider --timeout=900 --continue-on-collection-errors",
            "source_commits": HOOK_COMMITS,
            "add_only": True,
        },
        "engines": [
            {"name": "tlc", "path": "/verif/harness/tlc.py", "serves_properties": sorted(CHECKS),
             "kind_free_text": "TLC 1.8.0 model checker on the TLA+ specification under /verif/spec (data, obj, sys layers; mc configs; trace specifications), "
                               "driven by /verif/check; Python drivers under /verif/harness/drivers replay TLC behaviours into the real library and record traces"},
        ],
        "checks": checks,
        "not_applicable": na,
        "notes": "See DESIGN.md. exit 0 = held (KNOWN-FINDING lines possible), 1 = VIOLATION, 2 = machinery failure.",
    }
    with open(os.path.join(VERIF, "MANIFEST.json"), "w") as f:
        json.dump(m, f, indent=1)
    print("MANIFEST.json: %d checks, %d not claimed" % (len(checks), len(na)))


if __name__ == "__main__":
    main()
