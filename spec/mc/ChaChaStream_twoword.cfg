\* two counter words (8-byte nonce): 3 values of h[12] x 2 values of h[13]
CONSTANTS CMAX = 6
WLO = 3
KS = 2
MaxCalls = 5
Sticky = TRUE
EmitHist = FALSE
SPECIFICATION Spec
INVARIANT CarryIsIncrement
INVARIANT PositionCorrect
INVARIANT WithinLimit
PROPERTY StaysExhausted
INVARIANT ErrorReturnsNothing
CHECK_DEADLOCK FALSE
