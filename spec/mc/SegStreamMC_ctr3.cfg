CONSTANTS Kind = "ctr"
BL = 3
NB = 3
SEG = 1
MaxTotal = 28
SPECIFICATION Spec
INVARIANT InvOutput
INVARIANT InvUsedBound
INVARIANT InvRegs
INVARIANT InvPos
CHECK_DEADLOCK FALSE
