------------------------------- MODULE PKCS1Kat -------------------------------
(* Known-answer tests of data/PKCS1 that evaluate SHA-1 / SHA-256 (kept out of PKCS1 itself so that every start of a trace
   validation does not pay for them): MGF1 values produced with Python hashlib, and OAEP encoded messages produced by OpenSSL 3.5
   at authoring time (pkeyutl -encrypt -pkeyopt rsa_padding_mode:oaep [rsa_oaep_md, rsa_mgf1_md, rsa_oaep_label], then
   pkeyutl -decrypt -pkeyopt rsa_padding_mode:none to expose EM; the seeds were recovered from EM with hashlib). *)
EXTENDS PKCS1
\* MGF1 values from Python hashlib
ASSUME Mgf1Sha1(<<1,2,3>>, 45) = <<235,51,118,97,139,247,141,236,124,53,34,73,98,36,40,249,13,198,146,230,61,181,224,198,86,5,31,143,122,176,135,223,120,157,168,239,15,248,89,198,106,196,68,171,42>>
ASSUME Mgf1Sha256([i \in 1..40 |-> i - 1], 70) = <<109,0,114,19,16,143,114,104,31,206,38,106,152,125,77,81,178,168,247,37,193,201,182,70,65,24,202,117,33,215,108,34,132,247,54,170,183,134,70,23,148,75,60,98,196,189,146,101,64,251,185,240,6,123,244,149,183,69,231,55,206,188,109,69,25,19,5,183,240,149>>
ASSUME Mgf1Sha1(<<>>, 1) = <<144>> /\ Mgf1Sha1(<<>>, 0) = <<>>
\* OAEP, SHA-1, MGF1-SHA-1, empty label, 512-bit key; the seed was recovered from EM with hashlib
AE1 == <<0,155,252,143,120,236,121,128,148,74,53,86,115,66,222,223,191,64,44,189,87,183,90,93,150,93,47,2,60,53,225,74,211,250,99,15,117,78,213,244,71,250,12,185,56,166,59,151,135,184,67,47,173,67,88,165,218,94,176,168,11,11,210,102>>
AE1seed == <<114,102,141,126,43,174,244,26,59,99,204,197,204,213,131,144,22,50,144,145>>
ASSUME OaepDecode(AE1, Sha1H(<<>>), 20, Mgf1Sha1) = <<"ok", AMsg>>
ASSUME OaepEncode(AMsg, Sha1H(<<>>), AE1seed, 64, Mgf1Sha1) = AE1
ASSUME OaepDecodeNamed(AE1, "SHA1", [kind |-> "mgf1", hash |-> "SHA1"], <<>>) = <<"ok", AMsg>>
ASSUME OaepDecodeNamed(AE1, "SHA1", [kind |-> "mgf1", hash |-> "SHA1"], <<0>>) = OaepErr          \* another label
ASSUME OaepDecodeNamed(AE1, "SHA256", [kind |-> "mgf1", hash |-> "SHA256"], <<>>) = OaepErr         \* k = 64 < 2*32 + 2
\* OAEP, SHA-256, MGF1-SHA-256, label 01 02 03 7f, 1024-bit key
AE3 == <<0,126,252,171,164,5,82,188,227,169,103,211,131,11,141,51,107,119,209,30,162,7,110,86,139,74,14,131,176,15,253,74,230,100,128,121,90,99,108,104,142,177,138,208,209,90,5,89,234,142,189,84,222,223,201,40,148,180,90,219,115,31,61,230,94,81,40,88,174,142,153,93,122,215,254,155,156,240,8,118,250,102,250,186,227,191,159,169,71,219,125,99,183,163,230,185,211,5,147,12,226,178,38,8,132,111,142,214,38,66,248,26,80,203,51,38,190,225,140,81,19,212,178,152,25,101,211,56>>
AE3seed == <<64,210,156,228,171,62,109,255,140,135,172,13,35,204,197,252,236,117,175,202,41,188,109,229,214,40,195,245,1,59,200,143>>
ASSUME OaepDecodeNamed(AE3, "SHA256", [kind |-> "mgf1", hash |-> "SHA256"], <<1,2,3,127>>) = <<"ok", AMsg>>
ASSUME OaepEncodeNamed(AMsg, "SHA256", [kind |-> "mgf1", hash |-> "SHA256"], <<1,2,3,127>>, AE3seed, 128) = AE3
ASSUME OaepDecodeNamed(AE3, "SHA256", [kind |-> "mgf1", hash |-> "SHA256"], <<>>) = OaepErr
\* OAEP, SHA-256 for the label, MGF1-SHA-1, empty label, 1024-bit key
AE4 == <<0,134,105,209,1,88,195,166,91,38,15,74,20,93,251,71,168,239,200,0,251,109,217,128,9,8,197,42,193,43,131,156,213,118,148,133,182,89,204,133,118,19,28,230,230,69,32,220,90,24,74,1,173,101,202,114,222,143,145,146,148,233,61,176,215,203,244,134,216,214,122,2,10,148,182,88,128,218,156,196,101,200,2,7,230,98,159,176,36,28,80,89,22,51,73,162,126,188,25,246,241,67,108,216,173,92,33,109,70,225,47,90,166,97,145,226,161,202,59,196,248,21,158,182,155,168,10,212>>
ASSUME OaepDecodeNamed(AE4, "SHA256", [kind |-> "mgf1", hash |-> "SHA1"], <<>>) = <<"ok", AMsg>>
ASSUME OaepDecodeNamed([AE4 EXCEPT ![1] = 1], "SHA256", [kind |-> "mgf1", hash |-> "SHA1"], <<>>) = OaepErr      \* Y # 0
=============================================================================
