------------------------------- MODULE Keccak -------------------------------
(* FIPS 202 sections 3-4 transcribed: Keccak-p[1600, 24] (= Keccak-f[1600]) and Keccak-p[1600, 12] (RFC 9861), and the sponge
   construction with byte-aligned multi-rate padding (domain/suffix byte d: 0x06 SHA-3, 0x1F SHAKE, 0x04 cSHAKE, 0x01 Keccak,
   any 0x01..0x7F TurboSHAKE).  A lane is <<l0,l1,l2,l3>>, four 16-bit limbs, l0 least significant; the state is the 25-tuple of
   lanes with index x + 5y + 1. *)
EXTENDS Bytes
RCs == <<<<1,0,0,0>>,<<32898,0,0,0>>,<<32906,0,0,32768>>,<<32768,32768,0,32768>>,<<32907,0,0,0>>,<<1,32768,0,0>>,<<32897,32768,0,32768>>,<<32777,0,0,32768>>,<<138,0,0,0>>,<<136,0,0,0>>,<<32777,32768,0,0>>,<<10,32768,0,0>>,<<32907,32768,0,0>>,<<139,0,0,32768>>,<<32905,0,0,32768>>,<<32771,0,0,32768>>,<<32770,0,0,32768>>,<<128,0,0,32768>>,<<32778,0,0,0>>,<<10,32768,0,32768>>,<<32897,32768,0,32768>>,<<32896,0,0,32768>>,<<1,32768,0,0>>,<<32776,32768,0,32768>>>>
XL(a,b) == <<a[1] ^^ b[1], a[2] ^^ b[2], a[3] ^^ b[3], a[4] ^^ b[4]>>
X5(a,b,c,d,e) == XL(XL(XL(a,b),XL(c,d)),e)
ANDN(a,b) == <<(65535 - a[1]) & b[1], (65535 - a[2]) & b[2], (65535 - a[3]) & b[3], (65535 - a[4]) & b[4]>>
P2 == <<1,2,4,8,16,32,64,128,256,512,1024,2048,4096,8192,16384,32768,65536>>
RotBits(m, r) == IF r = 0 THEN m ELSE LET p == P2[r+1]  q == P2[17-r] IN
   <<((m[1] * p) % 65536) + (m[4] \div q), ((m[2] * p) % 65536) + (m[1] \div q), ((m[3] * p) % 65536) + (m[2] \div q), ((m[4] * p) % 65536) + (m[3] \div q)>>
RotL(a, n) == LET k == n \div 16 IN RotBits(CASE k = 0 -> a [] k = 1 -> <<a[4],a[1],a[2],a[3]>> [] k = 2 -> <<a[3],a[4],a[1],a[2]>> [] k = 3 -> <<a[2],a[3],a[4],a[1]>>, n % 16)
Round(A, rc) ==
  LET C0 == X5(A[1],A[6],A[11],A[16],A[21])
      C1 == X5(A[2],A[7],A[12],A[17],A[22])
      C2 == X5(A[3],A[8],A[13],A[18],A[23])
      C3 == X5(A[4],A[9],A[14],A[19],A[24])
      C4 == X5(A[5],A[10],A[15],A[20],A[25])
      D0 == XL(C4, RotL(C1, 1))
      D1 == XL(C0, RotL(C2, 1))
      D2 == XL(C1, RotL(C3, 1))
      D3 == XL(C2, RotL(C4, 1))
      D4 == XL(C3, RotL(C0, 1))
      B0_0 == RotL(XL(A[1], D0), 0)
      B1_0 == RotL(XL(A[7], D1), 44)
      B2_0 == RotL(XL(A[13], D2), 43)
      B3_0 == RotL(XL(A[19], D3), 21)
      B4_0 == RotL(XL(A[25], D4), 14)
      B0_1 == RotL(XL(A[4], D3), 28)
      B1_1 == RotL(XL(A[10], D4), 20)
      B2_1 == RotL(XL(A[11], D0), 3)
      B3_1 == RotL(XL(A[17], D1), 45)
      B4_1 == RotL(XL(A[23], D2), 61)
      B0_2 == RotL(XL(A[2], D1), 1)
      B1_2 == RotL(XL(A[8], D2), 6)
      B2_2 == RotL(XL(A[14], D3), 25)
      B3_2 == RotL(XL(A[20], D4), 8)
      B4_2 == RotL(XL(A[21], D0), 18)
      B0_3 == RotL(XL(A[5], D4), 27)
      B1_3 == RotL(XL(A[6], D0), 36)
      B2_3 == RotL(XL(A[12], D1), 10)
      B3_3 == RotL(XL(A[18], D2), 15)
      B4_3 == RotL(XL(A[24], D3), 56)
      B0_4 == RotL(XL(A[3], D2), 62)
      B1_4 == RotL(XL(A[9], D3), 55)
      B2_4 == RotL(XL(A[15], D4), 39)
      B3_4 == RotL(XL(A[16], D0), 41)
      B4_4 == RotL(XL(A[22], D1), 2)
  IN <<XL(XL(B0_0, ANDN(B1_0, B2_0)), rc),
       XL(B1_0, ANDN(B2_0, B3_0)),
       XL(B2_0, ANDN(B3_0, B4_0)),
       XL(B3_0, ANDN(B4_0, B0_0)),
       XL(B4_0, ANDN(B0_0, B1_0)),
       XL(B0_1, ANDN(B1_1, B2_1)),
       XL(B1_1, ANDN(B2_1, B3_1)),
       XL(B2_1, ANDN(B3_1, B4_1)),
       XL(B3_1, ANDN(B4_1, B0_1)),
       XL(B4_1, ANDN(B0_1, B1_1)),
       XL(B0_2, ANDN(B1_2, B2_2)),
       XL(B1_2, ANDN(B2_2, B3_2)),
       XL(B2_2, ANDN(B3_2, B4_2)),
       XL(B3_2, ANDN(B4_2, B0_2)),
       XL(B4_2, ANDN(B0_2, B1_2)),
       XL(B0_3, ANDN(B1_3, B2_3)),
       XL(B1_3, ANDN(B2_3, B3_3)),
       XL(B2_3, ANDN(B3_3, B4_3)),
       XL(B3_3, ANDN(B4_3, B0_3)),
       XL(B4_3, ANDN(B0_3, B1_3)),
       XL(B0_4, ANDN(B1_4, B2_4)),
       XL(B1_4, ANDN(B2_4, B3_4)),
       XL(B2_4, ANDN(B3_4, B4_4)),
       XL(B3_4, ANDN(B4_4, B0_4)),
       XL(B4_4, ANDN(B0_4, B1_4))>>
RECURSIVE Perm(_,_,_)
Perm(A, i, last) == IF i > last THEN A ELSE Perm(Round(A, RCs[i]), i + 1, last)
KeccakF(A) == Perm(A, 1, 24)
KeccakP12(A) == Perm(A, 13, 24)
ZeroLane == <<0,0,0,0>>
ZeroState == [i \in 1..25 |-> ZeroLane]
\* sponge: xor a rate-sized block (bytes) into the state, little-endian lanes
LaneOf(blk, j) == LET o == 8 * j IN <<blk[o+1] + 256 * blk[o+2], blk[o+3] + 256 * blk[o+4], blk[o+5] + 256 * blk[o+6], blk[o+7] + 256 * blk[o+8]>>
AbsorbBlock(A, blk, rateLanes) == TLCEval([i \in 1..25 |-> IF i <= rateLanes THEN XL(A[i], LaneOf(blk, i - 1)) ELSE A[i]])
LaneBytes(l) == <<l[1] % 256, l[1] \div 256, l[2] % 256, l[2] \div 256, l[3] % 256, l[3] \div 256, l[4] % 256, l[4] \div 256>>

\* generic sponge: pad with domain byte d, absorb, squeeze outlen bytes; rounds 24 or 12
PermR(A, rounds) == IF rounds = 24 THEN KeccakF(A) ELSE KeccakP12(A)
PadMsg(m, rate, d) == LET q == rate - (Len(m) % rate) IN IF q = 1 THEN m \o <<d + 128>> ELSE m \o <<d>> \o Zeros(q - 2) \o <<128>>
RECURSIVE AbsorbR(_,_,_,_,_)
AbsorbR(A, p, i, rate, rounds) == IF i > Len(p) THEN A ELSE AbsorbR(PermR(AbsorbBlock(A, SubSeq(p, i, i + rate - 1), rate \div 8), rounds), p, i + rate, rate, rounds)
RECURSIVE LanesBytes(_,_,_)
LanesBytes(A, j, n) == IF j > n THEN <<>> ELSE LaneBytes(A[j]) \o LanesBytes(A, j + 1, n)
RECURSIVE Squeeze(_,_,_,_,_)
Squeeze(A, rate, rounds, need, acc) == LET blk == LanesBytes(A, 1, rate \div 8) IN
   IF need <= rate THEN acc \o SubSeq(blk, 1, need) ELSE Squeeze(PermR(A, rounds), rate, rounds, need - rate, acc \o blk)
Sponge(m, rate, d, rounds, outlen) == Squeeze(AbsorbR(ZeroState, PadMsg(m, rate, d), 1, rate, rounds), rate, rounds, outlen, <<>>)
\* FIPS 202 / NIST example values: SHA3-256 of the empty message; SHA3-256 of 200 bytes 00..C7 (value from Python hashlib);
\* SHAKE128 of the empty message, 32 bytes; RFC 9861 section 5: TurboSHAKE128(M = empty, D = 1F, 32 bytes)
ASSUME Sponge(<<>>, 136, 6, 24, 32) = <<167,255,198,248,191,30,215,102,81,193,71,86,160,97,214,98,245,128,255,77,228,59,73,250,130,216,10,75,128,248,67,74>>
ASSUME Sponge([i \in 1..200 |-> i - 1], 136, 6, 24, 32) = <<95,114,143,99,191,94,228,140,119,244,83,192,73,3,152,250,100,91,141,76,78,86,190,154,65,207,236,52,77,108,168,153>>
ASSUME Sponge(<<>>, 168, 31, 24, 32) = <<127,156,43,164,232,143,130,125,97,96,69,80,118,5,133,62,215,59,128,147,246,239,188,136,235,26,110,172,250,102,239,38>>
ASSUME Sponge(<<>>, 168, 31, 12, 32) = <<30,65,95,28,89,131,175,242,22,146,23,39,125,23,187,83,140,217,69,163,151,221,236,84,31,28,228,26,242,193,183,76>>
=============================================================================
