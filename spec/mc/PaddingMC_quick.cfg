\* all 19 608 strings of length <= 5 over {00,01,02,03,04,80,ff}, block sizes 1..5, three styles
CONSTANTS Alphabet = {0, 1, 2, 3, 4, 128, 255}
MaxLen = 5
BlockSizes = {1, 2, 3, 4, 5}
SPECIFICATION Spec
CHECK_DEADLOCK FALSE
INVARIANTS RoundTrip AcceptsExactlyTheImage FastAgrees
