"""C16 - interchangeable implementations agree exactly.

sys/Backends (TLC) enumerates the configuration lattice - environment variable x library availability for the integer back-end,
use_aesni x use_clmul x CPU for AES/GHASH - checks the selection chain of Crypto/Math/Numbers.py against its closed form, and
generates the jobs (operations x input shape classes x single precondition violations).  Every environment is realised in its
own process (drivers/c16_backends.py), every AES job runs under the four use_aesni x use_clmul switches; one trace record then
carries the outcome of one operation under every configuration and spec/trace/BackendsTrace.tla judges agreement and, where the
data layer defines the value (integer API, AES modes, GCM), equality with the specification.
"""
import copy
import json
import os
import random
from concurrent.futures import ThreadPoolExecutor

from .. import core, tlc
from . import c14

LEVEL = "model_checking"
NOT_IN_C16 = ("monty_pow", "monty_multiply")          # direct calls of the C helpers do not depend on the configuration (C14 covers them)


def strip_env(who):
    """'IntegerGMP[e3]/int/ip' -> ('IntegerGMP', 'int/ip')"""
    head, _, var = who.partition("/")
    return head.split("[")[0], var


def env_label(env):
    return "%s%s%s" % ("D" if env["disable_gmp"] else "d", "G" if env["gmp_lib"] else "g", "C" if env["custom_lib"] else "c")


def pick(jobs, n, rnd):
    jobs = sorted(jobs, key=lambda j: json.dumps(j, sort_keys=True))
    must = [j for j in jobs if j["must"]]
    rest = [j for j in jobs if not j["must"]]
    rnd.shuffle(rest)
    return must + rest[:n]


def run(ctx):
    quick = ctx.tier == "quick"
    rnd = random.Random(ctx.seed * 7919 + 16)
    with ThreadPoolExecutor(max_workers=2) as ex:
        list(ex.map(lambda m: c14.selftest([m]), ["BigInt", "AesAead"]))
    # ---- 1. the model: selection chain for all 8 environments and 16 AES switch/CPU combinations, and the jobs
    r = ctx.mc("Backends", "Backends_quick.cfg" if quick else "Backends_thorough.cfg", workers=4, timeout=900)
    envs = {p: json.loads(tlc.tla_string_to_py(p)) for p in set(r.prints("ENV"))}
    envs = sorted(envs.values(), key=lambda e: env_label(e["env"]))
    aescfgs = [json.loads(tlc.tla_string_to_py(p)) for p in set(r.prints("AESCFG"))]
    jobs = [json.loads(tlc.tla_string_to_py(p)) for p in r.prints("JOB")]
    if len(envs) != 8 or len(aescfgs) != 16 or len(jobs) < 40000:
        raise core.Machinery("Backends emitted %d environments, %d AES configurations, %d jobs" % (len(envs), len(aescfgs), len(jobs)))
    by_fam = {}
    for j in jobs:
        by_fam.setdefault(j["fam"], []).append(j)
    # ---- 2. selection of jobs (every `must` job, plus a seeded sample)
    int_by_op = {}
    for j in by_fam["int"]:
        if j["op"] not in NOT_IN_C16:
            int_by_op.setdefault(j["op"], []).append(j)
    int_jobs = []
    for op in sorted(int_by_op):
        n = (6, 200) if op in c14.HEAVY else (10, 500)
        chosen = pick(int_by_op[op], n[0 if quick else 1], rnd)
        if op == "from_bytes":
            # every (byte order, container) combination at least once: the back-ends treat the caller's buffer differently per combination
            for bo in ("little", "big", "default"):
                for cont in ("bytearray", "memoryview", "bytes"):
                    want = "%s,%s" % (bo, cont)
                    # ... with enough bytes for a reordering or overwriting of the caller's buffer to show (0, 1 or 2 bytes can hide it)
                    fits = lambda j: j.get("flag", "").endswith(want) and j["sh"][0]["b"] >= 7       # noqa: E731
                    if not any(fits(j) for j in chosen):
                        cand = sorted((j for j in int_by_op[op] if fits(j)), key=lambda j: json.dumps(j, sort_keys=True))
                        if cand:
                            chosen.append(cand[rnd.randrange(len(cand))])
        int_jobs += chosen
    pk_jobs = sorted(by_fam["pk"] + by_fam["pkviol"], key=lambda j: (j["fam"], j["op"], j["idx"]))
    aes_jobs = []
    by_mode = {}
    for j in by_fam["aes"]:
        by_mode.setdefault(j["mode"], []).append(j)
    for m in sorted(by_mode):
        aes_jobs += pick(by_mode[m], 50 if quick else 480, rnd)
    aes_jobs += pick(by_fam["ghash"], 200 if quick else 1956, rnd) + by_fam["aesviol"]
    for k, j in enumerate(int_jobs + pk_jobs + aes_jobs):
        j["k"] = k
    # ---- 3. spec -> code: every environment in its own process; the AES switches in one process
    ctx.lib

    def one_env(e):
        return ctx.drive("c16_backends", ["env"], inp={"env": e["env"], "label": env_label(e["env"]), "int": int_jobs, "pk": pk_jobs}, timeout=3000)
    with ThreadPoolExecutor(max_workers=8) as ex:
        outs = list(ex.map(one_env, envs))
    real_cfgs = sorted([c["cfg"] for c in aescfgs if c["cfg"]["cpu_aesni"] and c["cfg"]["cpu_clmul"]], key=lambda c: (not c["use_aesni"], not c["use_clmul"]))
    aes_out = ctx.drive("c16_backends", ["aes"], inp={"cfgs": real_cfgs, "jobs": aes_jobs}, timeout=3000)
    if not (aes_out["have"]["cpu_aesni"] and aes_out["have"]["cpu_clmul"]):
        raise core.Machinery("AES-NI / CLMUL not available: %r" % aes_out["have"])
    # ---- 4. one record per operation with the outcomes of every configuration
    traces = []
    for e, o in zip(envs, outs):
        traces.append({"fam": "sel", "op": "select", "env": e["env"], "label": o["label"], "model": e["sel"], "real": o["selected"]})
    merged = {}
    for o in outs:
        for rec in o["int"]:
            for ob in rec["obs"]:
                ob["cfg"], ob["var"] = ob["who"].partition("/")[0], ob["who"].partition("/")[2]
            if rec["k"] not in merged:
                merged[rec["k"]] = rec
            else:
                base = merged[rec["k"]]
                if (base["a"], base["b"], base["c"], base["by"]) != (rec["a"], rec["b"], rec["c"], rec["by"]):
                    raise core.Machinery("environments concretised job %r differently" % rec["sh"])
                base["obs"] += rec["obs"]
        for rec in o["pk"]:
            if ("pk", rec["k"]) not in merged:
                merged[("pk", rec["k"])] = rec
            else:
                merged[("pk", rec["k"])]["obs"] += rec["obs"]
    traces += list(merged.values())
    n_deep = 0
    deep_cap = 150 if quick else 4000
    order = list(range(len(aes_out["recs"])))
    rnd.shuffle(order)
    for i in order:
        rec = aes_out["recs"][i]
        for ob in rec["obs"]:
            ob["use_aesni"], ob["use_clmul"] = ob["who"].startswith("aesni"), ob["who"].endswith("clmul")
        rec.setdefault("tag", [])
        rec.setdefault("maclen", 16)
        cost = len(rec["data"]) * (16 if rec.get("mode") == "cfb8" else 1)
        rec["deep"] = 0
        if rec["fam"] in ("aes", "ghash") and n_deep < deep_cap and cost <= (600 if quick else 4200) and rec.get("mode", "gcm") in ("ecb", "cbc", "cfb8", "cfb128", "ofb", "ctr", "gcm"):
            rec["deep"] = 1
            n_deep += 1
    traces += aes_out["recs"]
    for tid, t in enumerate(traces):
        t["tid"] = tid + 1
    traces.sort(key=lambda t: c14.est_cost(t) if t["fam"] == "int" else (len(t.get("data", [])) * 40 * t.get("deep", 0) * (16 if t.get("mode") == "cfb8" else 1)), reverse=True)
    # ---- 5. code -> spec
    os.environ["JAVA_TOOL_OPTIONS"] = "-Xmx3g"          # 16 JVMs run side by side: keep their heaps bounded
    verdicts = {}
    nb = max(1, (len(traces) + 4999) // 5000)
    for b in range(nb):
        verdicts.update(ctx.validate("BackendsTrace", traces[b::nb], family="backends", timeout=2400))
    seen = {}
    notes = {}
    silent = {}
    per_fam = {}
    for t in traces:
        pos, clause = verdicts[t["tid"]]
        fam = t["fam"]
        per_fam[fam] = per_fam.get(fam, 0) + 1
        ctx.count(max(1, len(t.get("obs", []))))
        label = t.get("op") or t.get("mode") or t.get("what") or fam
        if "harness:" in clause:
            raise core.Machinery("recorder/model problem in %s %s: %s" % (fam, label, clause))
        if clause.startswith("silent:"):
            silent[clause] = silent.get(clause, 0) + 1
            continue
        if clause.startswith("note:"):
            k = "%s: %s" % (label, " ".join(strip_env(w)[0] if "[" in w else w for w in clause.split(" ")))
            notes[k] = notes.get(k, 0) + 1
            continue
        if fam == "int":
            ctx.nontriv([t["op"], t["a"], t["b"], t["c"], t["by"], t["bo"]])
        elif fam in ("aes", "ghash", "aesviol"):
            ctx.nontriv([fam, t.get("mode"), t.get("what"), t["key"], t["iv"], t["aad"], t["data"], t.get("off")])
        elif fam != "sel":
            ctx.nontriv([fam, t["op"], t["idx"]])
        if clause == "ok":
            continue
        parts = c14.split_verdict(clause)
        spec_parts = [(w, c) for w, c in parts if w != "*"]
        keys = []
        if fam == "int":
            if spec_parts:
                keys = [(c14.key_of(t, strip_env(w)[0], c), w, c) for w, c in spec_parts]
            else:
                for w, c in parts:
                    c2 = " ".join(strip_env(x)[0] if "[" in x else x for x in c.split(" ")).split(" (")[0]
                    keys.append(("%s%s: %s" % (c14.OPLABEL.get(t["op"], t["op"]), c14.qualifier(t), c2), w, c))
        elif fam in ("pk", "pkviol"):
            for w, c in parts:
                c2 = " ".join(strip_env(x)[0] if "[" in x else x for x in c.split(" "))
                keys.append(("%s: %s" % (t["op"], c2), w, c))
        else:
            for w, c in parts:
                keys.append(("aes %s: %s" % (label, c), w, c))
        for key, w, c in keys:
            if key in seen:
                seen[key] += 1
                continue
            seen[key] = 1
            if fam == "int":
                detail = {"op": t["op"], "shapes": t["sh"], "a": str(c14.val(t["a"])), "b": str(c14.val(t["b"])), "c": str(c14.val(t["c"])), "clause": c, "who": w,
                          "outcomes": sorted(set("%s: %s %s %s" % (o["cfg"].split("[")[0], o["tn"], o["ex"], str(c14.val(o["v"]))[:40]) for o in t["obs"]))[:6]}
            elif fam in ("pk", "pkviol"):
                detail = {"op": t["op"], "idx": t["idx"], "clause": c, "outcomes": sorted(set("%s: %s %s %d bytes" % (o["who"], o["tn"], o["ex"], len(o["by"])) for o in t["obs"]))}
            else:
                detail = {"family": fam, "mode": t.get("mode"), "what": t.get("what"), "len": len(t["data"]), "offset": t.get("off"), "clause": c,
                          "outcomes": ["%s: %s %s %d bytes" % (o["who"], o["tn"], o["ex"], len(o["by"])) for o in t["obs"]]}
            ctx.violation(key, detail, replay=t)
    ctx.extra["violating_cases_per_key"] = seen
    ctx.extra["records_per_family"] = per_fam
    ctx.extra["outside_documented_domain"] = silent
    ctx.extra["disagreements_outside_the_property"] = notes
    ctx.extra["aes_records_compared_with_the_data_layer"] = n_deep
    ctx.extra["environments"] = [{"env": e["env"], "selected_by_model_and_code": e["sel"]} for e in envs]
    ok = [t for t in traces if verdicts[t["tid"]][1] == "ok"]
    for fam, pred in (("int", lambda x: x["op"] == "powm"), ("pk", lambda x: x["op"] == "rsa-generate-1024"), ("pk", lambda x: x["op"] == "ecdsa-sign-rfc6979"),
                      ("aes", lambda x: x["deep"] == 1 and x["mode"] == "gcm"), ("ghash", lambda x: x["deep"] == 1), ("aesviol", lambda x: True), ("pkviol", lambda x: True)):
        t = next((x for x in ok if x["fam"] == fam and pred(x)), None)
        if t is not None:
            ctx.sample({"family": fam, "what": t.get("op") or t.get("mode") or t.get("what"), "input": t.get("sh") or {k: t.get(k) for k in ("len", "off", "klen", "idx") if k in t},
                        "configurations": [o.get("cfg") or o["who"] for o in t["obs"]][:8], "outcome_of_all": "%s %s" % (t["obs"][0]["tn"], t["obs"][0]["ex"]),
                        "compared_with_data_layer": bool(t.get("deep")) or fam == "int", "tlc_verdict": "ok"})
    # ---- 6. binding self-checks
    def first(pred):
        t = next((x for x in reversed(ok) if pred(x)), None)
        if t is None:
            raise core.Machinery("no accepted trace for a binding self-check")
        return copy.deepcopy(t)

    def one_backend_limb(t):
        t["obs"][-1]["v"]["m"][0] ^= 1
        return t

    def all_backends_limb(t):          # a fault shared by every configuration
        for o in t["obs"]:
            o["v"]["m"][0] ^= 1
        return t

    def one_cfg_byte(t):
        t["obs"][-1]["by"][0] ^= 1
        return t

    def all_cfg_byte(t):
        for o in t["obs"]:
            o["by"][0] ^= 1
        return t

    def one_cfg_exc(t):
        t["obs"][-1]["ex"] = "TypeError" if t["obs"][-1]["ex"] != "TypeError" else "ValueError"
        return t

    ctx.binding_selfcheck("BackendsTrace", first(lambda x: x["fam"] == "int" and x["op"] == "mul" and all(len(o["v"]["m"]) > 5 for o in x["obs"])), one_backend_limb,
                          "backends: one limb under one back-end")
    ctx.binding_selfcheck("BackendsTrace", first(lambda x: x["fam"] == "int" and x["op"] == "mul" and all(len(o["v"]["m"]) > 5 for o in x["obs"])), all_backends_limb,
                          "backends: the same wrong limb under every back-end")
    ctx.binding_selfcheck("BackendsTrace", first(lambda x: x["fam"] == "pk" and x["obs"][0]["by"]), one_cfg_byte, "backends: one byte of a signature/key under one environment")
    ctx.binding_selfcheck("BackendsTrace", first(lambda x: x["fam"] == "aes" and x["obs"][0]["by"] and x["deep"] == 0), one_cfg_byte, "backends: one ciphertext byte under one AES configuration")
    ctx.binding_selfcheck("BackendsTrace", first(lambda x: x["fam"] == "aes" and x["obs"][0]["by"] and x["deep"] == 1), all_cfg_byte,
                          "backends: the same wrong ciphertext byte under every AES configuration")
    ctx.binding_selfcheck("BackendsTrace", first(lambda x: x["fam"] == "aesviol" and x["obs"][0]["ex"] != "none"), one_cfg_exc, "backends: exception class under one AES configuration")
    if not quick:
        ctx.binding_selfcheck("BackendsTrace", first(lambda x: x["fam"] == "pkviol" and x["obs"][0]["ex"] != "none"), one_cfg_exc, "backends: exception class under one environment")
        ctx.binding_selfcheck("BackendsTrace", first(lambda x: x["fam"] == "ghash" and x["deep"] == 1 and x["obs"][0]["tag"]),
                              lambda t: [o["tag"].__setitem__(0, o["tag"][0] ^ 1) for o in t["obs"]] and t, "backends: the same wrong tag byte under every GHASH configuration")
        ctx.binding_selfcheck("BackendsTrace", first(lambda x: x["fam"] == "sel"), lambda t: dict(t, real="IntegerNative" if t["real"] != "IntegerNative" else "IntegerGMP"),
                              "backends: another back-end selected than the model says")
    ctx.rule = ("configurations: the 8 environments (PYCRYPTODOME_DISABLE_GMP x libgmp available x _modexp available; an unavailable library is emulated by "
                "refusing the import of its wrapper) each in its own process, and the 4 use_aesni x use_clmul switches (CPU features present); jobs enumerated by TLC "
                "from sys/Backends: integer operations x operand shape classes (as C14, all variants), RSA/DSA/ECC/primality operations on seeded material and entropy "
                "tapes, AES modes x key sizes x lengths {0..257%s} x buffer offsets 0..15, GHASH 0..9 blocks x nonce/tag lengths, single precondition violations; every "
                "`must` job plus a seeded sample; one evaluation = one outcome of one configuration compared by TLC; %d AES/GCM records also recomputed by the data layer"
                % ("" if quick else ", 1023..1025, 2048", n_deep))
    ctx.assume("CPUs without AES-NI/CLMUL cannot be emulated; only the software switches are exercised (sys/Backends covers the CPU dimension at model level)")
    ctx.assume("an unavailable libgmp / _modexp extension is emulated by making the import of Crypto.Math._IntegerGMP / _IntegerCustom fail with ImportError")
    ctx.assume("values of RSA/DSA/ECC operations are compared across configurations only; that they are the standard's values is the subject of C04-C07")
    ctx.assume("where BigInt.tla is silent (shift counts >= 65536, pow without modulus and exponent > 256, ...) or two preconditions are violated at once, "
               "a disagreement is recorded as a note in the evidence, not as a violation")
