------------------------------- MODULE ShamirFieldMC -------------------------------
(* C20, algebra: GF(2^M) with reduction polynomial x^M + LowN, as computed by the generic operators of data/GF2m, satisfies
   the field axioms for ALL elements.  The generic product, sum and both inverses (extended Euclid, Fermat) are tabulated
   once, in the initial state, over the naturals 0..2^M-1: the tables ARE the generic operators evaluated on every pair.
   They live in the state variable tab (TLC re-evaluates constant definitions that are built with RECURSIVE operators on
   every reference under a quantifier; a state variable is looked up in constant time).  One leaf state per element a
   (reached through a two-level tree so that the leaves are checked by different workers); the other one or two operands
   of each law are quantified inside the invariant: every pair for the binary laws, every triple for the ternary ones.
   ASel restricts the first operand in the quick tier (0 = all elements; otherwise a = 0, 1, 2, 2^M-1 and the elements
   congruent to ASeed modulo ASel).
   For m = 128 the elements cannot be enumerated; there the same operators decide Rabin's irreducibility test for the
   documented polynomial (ASSUMEs at the end): the quotient of GF(2)[x] by an irreducible polynomial is a field. *)
EXTENDS GF2m
CONSTANTS M, LowN, ASel, ASeed
VARIABLES lvl, a, tab
vars == <<lvl, a, tab>>
F == [m |-> M, low |-> GfOfNat(LowN)]
N == GfPow2[M + 1]
R1 == GfPow2[(M \div 2) + 1]
R2 == N \div R1
E == 0..(N - 1)
Tables == [mul |-> TLCEval([i \in E |-> TLCEval([j \in E |-> GfToNat(GfMul(GfOfNat(i), GfOfNat(j), F))])]),
           add |-> TLCEval([i \in E |-> TLCEval([j \in E |-> GfToNat(GfAdd(GfOfNat(i), GfOfNat(j)))])]),
           inv |-> TLCEval([i \in 1..(N - 1) |-> GfToNat(GfInv(GfOfNat(i), F))]),
           invf |-> TLCEval([i \in 1..(N - 1) |-> GfToNat(GfInvFermat(GfOfNat(i), F))])]
Selected(x) == ASel = 0 \/ x \in {0, 1, 2, N - 1} \/ (x % ASel) = (ASeed % ASel)
Init == tab = Tables /\ lvl = 0 /\ a = 0
Next == /\ lvl < 2 /\ lvl' = lvl + 1 /\ UNCHANGED tab
        /\ \E d \in 0..((IF lvl = 0 THEN R1 ELSE R2) - 1) : a' = (a * (IF lvl = 0 THEN 1 ELSE R2)) + d
Leaf == lvl = 2 /\ Selected(a)
mul == tab.mul
add == tab.add
TablesClosed == lvl = 0 => \A i, j \in E : mul[i][j] \in E /\ add[i][j] \in E
Commutative == Leaf => LET ra == mul[a]  sa == add[a] IN \A b \in E : ra[b] = mul[b][a] /\ sa[b] = add[b][a]
Associative == Leaf => LET ra == mul[a]  sa == add[a] IN
                       \A b \in E : LET rab == mul[ra[b]]  rb == mul[b]  sab == add[sa[b]]  sb == add[b]
                                    IN \A c \in E : rab[c] = ra[rb[c]] /\ sab[c] = sa[sb[c]]
Distributive == Leaf => LET ra == mul[a] IN
                        \A b \in E : LET sb == add[b]  sab == add[ra[b]] IN \A c \in E : ra[sb[c]] = sab[ra[c]]
Neutral == Leaf => mul[a][1] = a /\ add[a][0] = a /\ mul[a][0] = 0 /\ add[a][a] = 0
Inverses == (Leaf /\ a # 0) => /\ tab.inv[a] \in 1..(N - 1) /\ mul[a][tab.inv[a]] = 1
                               /\ tab.invf[a] = tab.inv[a]
                               /\ \A b \in E : mul[a][b] = 1 => b = tab.inv[a]
                               /\ GfIsInv(GfOfNat(a), GfOfNat(tab.inv[a]), F)
NoZeroDivisor == Leaf => \A b \in E : mul[a][b] = 0 => (a = 0 \/ b = 0)
ZeroHasNoInverse == lvl = 0 => GfInv(GfZero, F) = <<>>
PowIsRepeatedProduct == Leaf => /\ GfToNat(GfPow(GfOfNat(a), 3, F)) = mul[mul[a][a]][a]
                                /\ GfPow(GfOfNat(a), 0, F) = GfOne /\ GfPow(GfOfNat(a), 1, F) = GfOfNat(a)
-----------------------------------------------------------------------------
(* Rabin's test for P of degree n = 128 (only prime divisor of n: 2):  x^(2^128) = x (mod P)  and  gcd(x^(2^64) + x, P) = 1. *)
RECURSIVE SqN(_,_,_)
SqN(s, i, G) == IF i = 0 THEN s ELSE SqN(GfMul(s, s, G), i - 1, G)
X64 == SqN(<<2>>, 64, GfF128)
ASSUME SqN(X64, 64, GfF128) = <<2>>
ASSUME GfEuclid(GfPoly(GfF128), GfXor(X64, <<2>>), GfOne, GfZero)[1] = GfOne
\* Fermat's inverse a^(2^128 - 2) agrees with the extended Euclid inverse (value from plain Python integers at authoring time)
ASSUME GfInvFermat(<<135>>, GfF128) = <<54391, 16248, 51945, 45089, 36165, 37879, 7342, 23298>> /\ GfInv(<<135>>, GfF128) = GfInvFermat(<<135>>, GfF128)
\* the test itself is validated on a reducible polynomial of the same shape: x^128 + x^7 + x^2 + 1 is divisible by x + 1
ASSUME LET G == [m |-> 128, low |-> <<133>>] IN SqN(<<2>>, 128, G) # <<2>>
=============================================================================
