"""C09 - results do not depend on segmentation, buffer type or in-place output.

1. MC: per family a refinement between the abstract object (state = the concatenation supplied so far; SIV: the component
   vector) and the implementation-shaped object with the buffering the code has, over ALL sequences of segment lengths
   (0 included) summing to <= 3 blocks + 1 at block size 4, bytes symbolic (spec/obj/Seg*.tla, spec/mc/Seg*).
2. spec -> code: the segmentations TLC enumerates (all compositions; longer ones by -simulate) are scaled to the real block
   sizes and replayed on the real objects crossed with input buffer types and result modes (drivers/c09_seg.py).
3. code -> spec: TLC steps the implementation-shaped model along every recorded execution and judges it (spec/trace/SegTrace)."""
import collections
import copy
import json
import random
from concurrent.futures import ThreadPoolExecutor

from .. import tlc
from ..core import Machinery

LEVEL = "model_checking"

# (module, cfg, n): n > 0 = exact number of distinct states expected, n < 0 = at least -n (guard against a vacuous model).
# For the accumulators and key-stream models the state after any segmentation must be a function of the length of the
# concatenation alone: MaxTotal + 1 reachable states, no more.
MC_QUICK = [("SegAccMC", "SegAccMC_md.cfg", 14), ("SegAccMC", "SegAccMC_sponge.cfg", 14), ("SegAccMC", "SegAccMC_poly.cfg", 14),
            ("SegAccMC", "SegAccMC_blake.cfg", 14), ("SegAccMC", "SegAccMC_cmac.cfg", 14), ("SegAccMC", "SegAccMC_md3.cfg", 22),
            ("SegStreamMC", "SegStreamMC_ctr.cfg", 26), ("SegStreamMC", "SegStreamMC_ctr3.cfg", 29), ("SegStreamMC", "SegStreamMC_ofb.cfg", 14),
            ("SegStreamMC", "SegStreamMC_chacha.cfg", 14), ("SegStreamMC", "SegStreamMC_squeeze.cfg", 14),
            ("SegStreamMC", "SegStreamMC_cfb1.cfg", 14), ("SegStreamMC", "SegStreamMC_cfb2.cfg", 14), ("SegStreamMC", "SegStreamMC_cfb3.cfg", 20),
            ("SegStreamMC", "SegStreamMC_cfb4.cfg", 14), ("SegStreamMC", "SegStreamMC_cbc.cfg", 8), ("SegStreamMC", "SegStreamMC_byte.cfg", 14),
            ("SegOcbMC", "SegOcbMC.cfg", -600), ("SegAeadMC", "SegAeadMC_gcm.cfg", -400), ("SegAeadMC", "SegAeadMC_ccm.cfg", -30000),
            ("SegSivMC", "SegSivMC.cfg", -9000), ("K12MC", "SegK12MC.cfg", -250)]
MC_THOROUGH = [("SegAccMC", "SegAccMC_deep_%s.cfg" % k, 32) for k in ("md", "sponge", "poly", "blake", "cmac")] + \
              [("SegStreamMC", "SegStreamMC_deep_ctr.cfg", 82), ("SegStreamMC", "SegStreamMC_deep_cfb.cfg", 41),
               ("SegOcbMC", "SegOcbMC_deep.cfg", -1200), ("SegAeadMC", "SegAeadMC_deep_gcm.cfg", -700), ("SegAeadMC", "SegAeadMC_deep_ccm.cfg", -70000),
               ("K12MC", "SegK12MC_deep.cfg", -1000)]
SAMPLE_FAMS = ("gcm", "ccm", "sha256", "ctr-aes", "ocb", "shake128", "cmac-aes", "siv")
DEGENERATE = [[], [0], [0, 0], [1], [4], [13], [0, 13], [13, 0], [1] * 13, [3, 1], [4, 4, 4, 1], [5, 8], [4, 0, 4]]


def segs_of(r):
    out, seen = [], set()
    for h in r.prints("SEG"):
        s = tlc.tla_string_to_py(h)
        if s not in seen:
            seen.add(s)
            out.append(json.loads(s))
    return out


def run(ctx):
    quick = ctx.tier == "quick"
    rnd = random.Random(ctx.seed)
    # ---------------------------------------------------------------- 1. refinement by exhaustive model checking
    mcs = MC_QUICK + ([] if quick else MC_THOROUGH)

    def one_mc(x):
        r = ctx.mc(x[0], x[1], workers=2, timeout=1500)
        if x[2] < 0 and r.distinct < -x[2]:
            raise Machinery("%s/%s explored only %d states (at least %d expected): vacuous model" % (x[0], x[1], r.distinct, -x[2]))
        if x[2] > 0 and r.distinct != x[2]:
            raise Machinery("%s/%s: %d reachable states, expected %d: the state of the implementation-shaped object is not a function "
                            "of the concatenation alone" % (x[0], x[1], r.distinct, x[2]))
        return r
    with ThreadPoolExecutor(max_workers=6) as ex:
        list(ex.map(one_mc, mcs))
    # ---------------------------------------------------------------- 2. the segmentations, from TLC
    r_enum = ctx.mc("SegAccMC", "SegEnum.cfg", workers=1)                    # all compositions of every total <= 13
    r_enz = ctx.mc("SegAccMC", "SegEnumZ.cfg" if quick else "SegEnumZ_deep.cfg", workers=1)       # ... with empty segments interspersed
    r_sim = ctx.mc("SegAccMC", "SegSim.cfg", workers=1, simulate="num=%d" % (300 if quick else 4000), depth=12, seed=ctx.seed + 9,
                   must_hold=False)
    if r_sim.violated or r_sim.errors:
        raise Machinery("simulation SegSim failed: %s" % r_sim.errors[:2])
    enum, enz, sim = segs_of(r_enum), segs_of(r_enz), segs_of(r_sim)
    if len(enum) != 8192:
        raise Machinery("TLC enumerated %d compositions of the totals 0..13, expected 8192" % len(enum))
    short_pool = enum + enz                      # total <= 13 (3 blocks + 1)
    long_pool = [s for s in sim if sum(s) > 13]
    ctx.extra["segmentations_from_tlc"] = {"all_compositions_total_le_13": len(enum), "with_empty_segments": len(enz),
                                           "simulated_longer_distinct": len(long_pool)}
    # ---------------------------------------------------------------- 3. replay on the real objects, judged by TLC
    fams = ctx.drive("c09_seg", ["list"])
    names = sorted(n for n, f in fams.items() if quick is False or f["tier"] == "quick")
    per_fam = 64 if quick else 1700
    per_fam_big = 5 if quick else 60
    jobs_by_fam = {}
    tid = 0
    for n in names:
        f = fams[n]
        fr = random.Random("%d/%s" % (ctx.seed, n))
        k = per_fam_big if f["big"] else per_fam

        def draw(allow_long=True):
            x = fr.random()
            if x < 0.08:
                return list(fr.choice(DEGENERATE))
            if x < 0.22 and allow_long and long_pool and not f["big"]:
                return list(fr.choice(long_pool))
            return list(fr.choice(short_pool))
        jobs = []
        for i in range(k):
            tid += 1
            j = {"fam": n, "tid": tid, "a": [], "m": draw(), "r": []}
            if f["cat"] == "aead":
                j["a"] = draw(allow_long=False)
                if sum(j["m"]) > 13 and fr.random() < 0.5:
                    j["a"], j["m"] = j["m"], list(fr.choice(short_pool))
            if f["final"] == "read":
                j["r"] = draw(allow_long=fr.random() < 0.3)
            if i < len(DEGENERATE):                     # every family sees every degenerate segmentation of its main stream
                j["m"] = list(DEGENERATE[i])
            jobs.append(j)
        # pinned variants: every input a read-only view of memory that the caller overwrites after the call (both
        # directions), and the all-bytes baseline
        for comp_a, comp_m in (([1], [3]), ([4, 1], [5, 8]), ([3, 5, 5], [2, 2]), ([], [4, 4]), ([13], [])):
            for force, d in (("ro", "enc"), ("ro", "dec"), ("plain", "enc")):
                if f["big"] and sum(comp_m) > 5:
                    continue
                tid += 1
                jobs.append({"fam": n, "tid": tid, "a": comp_a if f["cat"] == "aead" else [], "m": comp_m if f["cat"] == "aead" else comp_a + comp_m,
                             "r": [3, 1] if f["final"] == "read" else [], "force": force, "dir": d})
        jobs_by_fam[n] = jobs
    # batches of families: drive, then validate
    batches, cur, size = [], [], 0
    for n in names:
        w = len(jobs_by_fam[n]) * (60 if fams[n]["big"] else 1)
        if cur and size + w > (6000 if quick else 9000):
            batches.append(cur)
            cur, size = [], 0
        cur.append(n)
        size += w
    if cur:
        batches.append(cur)
    total = collections.Counter()
    matrix = collections.Counter()
    samples = {}
    projected = collections.Counter()

    def do_batch(bnames):
        """drive + validate one batch of families; returns only the small summary (the traces are dropped at once)"""
        jobs = [j for n in bnames for j in jobs_by_fam[n]]
        traces = ctx.drive("c09_seg", [], inp={"jobs": jobs}, timeout=3000)
        verdicts = ctx.validate("SegTrace", traces, shards=4 if quick else 6, family="+".join(bnames)[:80], timeout=3000)
        res = {"n": 0, "nontriv": [], "total": collections.Counter(), "matrix": collections.Counter(), "projected": collections.Counter(),
               "violations": [], "harness": None, "samples": {}}
        for t in traces:
            res["n"] += 1
            pos, clause = verdicts[t["tid"]]
            shape = [[e["op"], e["n"], e["kind"], e["mode"]] for e in t["events"]]
            if any(e["n"] > 0 for e in t["events"]):
                res["nontriv"].append([t["fam"], t["P"], t["scrib"], shape])
            res["total"][t["fam"]] += 1
            for e in t["events"]:
                if e["op"] in ("update", "new", "update_items", "encrypt", "decrypt", "encrypt_and_digest", "decrypt_and_verify"):
                    res["matrix"]["%s/%s" % (e["kind"], e["mode"])] += 1
                if e["proj"]["has"]:
                    res["projected"][t["model"]] += 1
            if clause != "ok":
                if clause.startswith("harness:"):
                    res["harness"] = res["harness"] or "harness inconsistency in trace %d (%s, %s) at call %d: %s" % (t["tid"], t["fam"], shape, pos, clause)
                elif len(res["violations"]) < 200:
                    res["violations"].append(("%s: %s" % (t["keyfam"], clause),
                                              {"family": t["fam"], "parameters": t["P"], "buffers_overwritten_after_the_call": t["scrib"],
                                               "position": pos, "calls_up_to_failure": shape[:pos], "segmentation_from_tlc": t["comp"]}, slim(t)))
            elif t["fam"] in SAMPLE_FAMS and len(res["samples"].setdefault(t["fam"], [])) < 40 and len(t["events"]) >= 3 and not t["force"]:
                res["samples"][t["fam"]].append(t)
        return res
    with ThreadPoolExecutor(max_workers=2 if quick else 3) as ex:
        results = list(ex.map(do_batch, batches))
    for res in results:                                   # merged in batch order: deterministic
        if res["harness"]:
            raise Machinery(res["harness"])
        ctx.count(res["n"])
        for x in res["nontriv"]:
            ctx.nontriv(x)
        total.update(res["total"])
        matrix.update(res["matrix"])
        projected.update(res["projected"])
        for key, detail, rep in res["violations"]:
            ctx.violation(key, detail, replay=rep)
        for n, ts in res["samples"].items():
            samples.setdefault(n, []).extend(ts)
    for n in SAMPLE_FAMS:
        if samples.get(n):
            t = next((x for x in samples[n] if any(len(e["out"]) > 2 for e in x["events"]) and any(e["op"] == "update" and e["n"] > 0 for e in x["events"])),
                     next((x for x in samples[n] if any(len(e["out"]) > 2 for e in x["events"])), samples[n][0]))
            ctx.sample({"family": n, "segmentation_from_tlc": t["comp"], "calls": [[e["op"], e["n"], e["kind"], e["mode"]] for e in t["events"]],
                        "tlc_verdict": "ok"}, cap=8)
    # ---------------------------------------------------------------- 4. binding self-checks
    def need(n, pred):
        for t in samples.get(n, []):
            if pred(t):
                return t
        if ctx.violations:
            ctx.notes.append("binding self-check on %s skipped: no accepted trace of that shape in a run with violations" % n)
            return None
        raise Machinery("no accepted %s trace for the binding self-check" % n)

    def flip_piece(t):
        e = next(e for e in t["events"] if len(e["out"]) > 2)
        e["out"][1] ^= 0x10
        e["twin"][1] ^= 0x10
        return t

    def flip_piece_only(t):
        e = next(e for e in t["events"] if len(e["out"]) > 2)
        e["out"][-1] ^= 0x01
        return t

    def bump_proj(t):
        e = next(e for e in t["events"] if e["proj"]["has"])
        e["proj"]["v"][0] += 1
        return t

    def flip_tag(t):
        e = next(e for e in t["events"] if e["hastag"])
        e["tag"][0] ^= 0x80
        e["twintag"][0] ^= 0x80
        return t

    def touch_input(t):
        e = next(e for e in t["events"] if e["n"] > 0 and e["mode"] != "alias" and e["after"])
        e["after"][0] ^= 0xFF
        return t
    has_piece = lambda t: any(len(e["out"]) > 2 for e in t["events"])                       # noqa: E731
    has_proj = lambda t: any(e["proj"]["has"] for e in t["events"])                         # noqa: E731
    has_tag = lambda t: any(e["hastag"] for e in t["events"])                               # noqa: E731
    has_input = lambda t: any(e["n"] > 0 and e["mode"] != "alias" and e["after"] for e in t["events"])      # noqa: E731
    checks = []
    for n, fn, pred, what in (("gcm", flip_piece, has_piece, "one byte of a returned piece (and of the twin's)"),
                              ("ctr-aes", flip_piece_only, has_piece, "one byte of a delivered piece"),
                              ("gcm", bump_proj, has_proj, "projected cache length"), ("ocb", bump_proj, has_proj, "projected _cache_A length"),
                              ("cmac-aes", bump_proj, has_proj, "projected _cache_n"), ("sha256", flip_tag, has_tag, "one bit of a digest"),
                              ("ccm", flip_tag, has_tag, "one bit of a tag"), ("sha256", touch_input, has_input, "input buffer content after the call"),
                              ("shake128", flip_piece, has_piece, "one byte of a read() piece")):
        t = need(n, pred)
        if t is not None:
            good, badt = copy.deepcopy(t), fn(copy.deepcopy(t))
            good["tid"], badt["tid"] = 2 * len(checks) + 1, 2 * len(checks) + 2
            checks.append(("%s: %s" % (n, what), good, badt))
    if checks:
        v, _ = tlc.validate_traces("SegTrace", [x for c in checks for x in c[1:]], shards=2)
        for what, good, badt in checks:
            ok = v[good["tid"]][1] == "ok" and v[badt["tid"]][1] != "ok"
            ctx.binding_checks.append({"family": what, "original": v[good["tid"]][1], "corrupted": v[badt["tid"]][1], "ok": ok})
            if not ok:
                raise Machinery("binding self-check failed for %s: original=%r corrupted=%r" % (what, v[good["tid"]], v[badt["tid"]]))
    # ---------------------------------------------------------------- 5. growth: Crypto.Util.strxor (the XOR helper under EAX, SIV, CCM, OpenPGP, KW, HMAC, PBKDF2)
    xt = ctx.drive("c09_xor", [], inp={"per_trace": 40, "tid0": 500000})["traces"]
    xv = ctx.validate("XorTrace", xt, shards=2 if quick else 4, family="strxor")
    xgood = None
    xcalls = collections.Counter()
    for t in xt:
        pos, clause = xv[t["tid"]]
        for e in t["events"]:
            ctx.count()
            xcalls["%s/%s" % (e["fn"], e["out"])] += 1
            if e["a"]:
                ctx.nontriv(["strxor", e["fn"], len(e["a"]), len(e["b"]), e["ka"], e["kb"], e["out"], e["c"]])
        if clause == "ok":
            if xgood is None and any(e["exc"] == "none" and len(e["res"]) > 2 for e in t["events"]):
                xgood = t
            continue
        if clause.startswith("harness:"):
            raise Machinery("harness inconsistency in strxor trace %d at %d: %s" % (t["tid"], pos, clause))
        e = t["events"][pos - 1]
        ctx.violation("strxor/%s: %s" % (e["fn"], clause),
                      {"function": e["fn"], "term1": bytes(e["a"]).hex(), "term2": bytes(e["b"]).hex(), "c": e["c"], "containers": [e["ka"], e["kb"]], "output": e["out"],
                       "output_length": e["outlen"], "raised": e["exc"], "returned": e["ret"], "result": bytes(e["res"]).hex()}, replay=dict(t, events=[e]))
    ctx.extra["strxor_calls"] = dict(sorted(xcalls.items()))
    if xgood is None:
        if not ctx.violations:
            raise Machinery("no accepted strxor trace for the binding self-check")
    else:
        def flip_xor(t):
            e = next(e for e in t["events"] if e["exc"] == "none" and len(e["res"]) > 2)
            e["res"][1] ^= 0x04
            return t
        ctx.binding_selfcheck("XorTrace", xgood, flip_xor, "strxor: one bit of a result")
    ctx.extra["traces_per_family"] = dict(sorted(total.items()))
    ctx.extra["data_calls_by_buffer_type_and_result_mode"] = dict(sorted(matrix.items()))
    ctx.extra["calls_with_projected_private_state"] = dict(sorted(projected.items()))
    ctx.extra["families"] = {"implementation_shaped_model": sorted(n for n in names if fams[n]["model"] != "none"),
                             "metamorphic_only": sorted(n for n in names if fams[n]["model"] == "none")}
    ctx.rule = ("segmentations generated by TLC (all 8192 compositions of the totals 0..13 at block size 4, those with empty segments "
                "interspersed, and longer ones up to 8 blocks + 1 by -simulate; seed-dependent sample per family plus every degenerate "
                "one), scaled so that every cut keeps its offset relative to the real block/cache boundary (16, 64, 128, 136, 168, "
                "8192 ... bytes), replayed on %d object families x input buffer type {bytes, bytearray, memoryview, memoryview at an odd "
                "offset, read-only view of a bytearray overwritten after the call} x result mode {returned, output= bytearray, "
                "output= memoryview, output= the input buffer}, both directions; distinct_nontrivial = distinct (family, parameters, "
                "calls with lengths, buffer types and result modes) that carry data" % len(names))
    ctx.rule += ("; growth: strxor / strxor_c for lengths 0..257 around word sizes x input container kinds x output {returned, bytearray, memoryview "
                 "window with guard bytes, an input itself, read-only, too short, too long}, terms of different length, c outside 0..255 (spec/trace/XorTrace)")
    ctx.assume("the one-shot reference values are the library's own on a fresh object fed plain bytes once (that they equal the "
               "standards is the subject of C02/C03)")
    ctx.assume("projection of private attributes (_cache, _cache_A/_cache_P, _cache_n, _data_size, _kdf._n_updates, K12 _state/_length*) "
               "degrades to API-only observation if an attribute disappears; buffers inside native code (curlen, valid_bytes, "
               "used_ks, usedKeyStream, buffer_used) are not projected - their model is bound through the delivered bytes only")
    ctx.assume("histories follow the documented call order (update* ; encrypt*|decrypt* ; digest|verify): the call-order state "
               "machine itself is C10's subject; CBC/ECB are cut at whole blocks only, as documented")


def slim(t, keep=False):
    """a trace without bulky fields that the replay file does not need (the replay command re-runs the check)"""
    t = copy.deepcopy(t)
    if not keep and sum(len(e["data"]) for e in t["events"]) > 4000:
        for e in t["events"]:
            for k in ("data", "after", "out", "twin"):
                e[k] = e[k][:64]
        t["oneshot"] = {"out": t["oneshot"]["out"][:64]}
        t["truncated_for_the_replay_file"] = True
    return t
