------------------------------- MODULE Pkcs1MC -------------------------------
(* C07: TLC enumerates the pattern classes of encoded messages and states the verdict class of each.

   The quantifier of the property is over encoded messages, so the state space is the set of encoded-message patterns
   (a two-level graph: one initial state per group, one successor per pattern; the groups only spread the work over the
   workers).  For every pattern the class it was BUILT to have (a constructive description: which octets were placed
   where) is compared with what the decoding rules of data/PKCS1 (a scan of the octets) say, in both directions
   ("accepts exactly the image of the encoder"), and every pattern is printed for replay on the real decrypt methods.

   "v15"     EM = b1 b2 PS 00 tail for k in V15Ks: b1, b2 over {00,01,02,ff}, the first zero octet at every index 3..k or
             absent (an index below 11 is a zero inside PS), the tail all 07 or with a second zero at every position;
             with each block go the sentinel kinds (0, 1, k, k+1 octets, not a byte string) and the expected lengths
             {none, |tail|-1, |tail|, |tail|+1, k-11, k-10, k+5}
   "oaep"    toy hash of hl octets, toy MGF or MGF1 over the toy hash: Y in {00,01,ff}, lHash' intact or differing in one
             octet at each position, DB body = zeros, then 01 / 02 / ff at every position p (or no non-zero octet at all),
             then a tail that is all 07 or all zero with a 01 at each position (so that a 02 precedes a later 01: "PS with a
             non-zero octet"); two seeds, two labels; EM is computed here by masking
   "oaepdb"  the same DB patterns at real sizes for SHA-1 / SHA-256, at representative positions; the recorder masks them
             (input generation only: the trace specification recovers DB from EM with its own SHA and MGF1)
   "short"   OAEP with k < 2 hLen + 2: every block is a decryption error
   "rt15" / "rtoaep"   a message of every length 0..max+1 for the round trip through the real encrypt and decrypt

   Above FullBelow octets the positions are representative ones (both ends, around index 11, the middle). *)
EXTENDS PKCS1, Json, FiniteSets
CONSTANTS V15Ks, FullBelow, OaepKHs, DbKHs, ShortKHs, Rt15Ks, RtOaepKHs, RtAll, Emit
VARIABLES c

FirstBytes == {0, 1, 2, 255}
PSByte(i) == <<255, 1, 2, 128>>[(i % 4) + 1]                           \* non-zero filler with 01 and 02 among it
\* wide blocks (k > 256 + 11): lengths and positions on both sides of 256, where length arithmetic kept in one octet would wrap
Wide(lo, hi) == {x \in {hi - 257, hi - 256, hi - 255, hi - 254, lo + 254, lo + 255, lo + 256} : lo <= x /\ x <= hi}
Pos(lo, hi) == IF hi - lo < FullBelow THEN lo..hi
               ELSE {lo, lo + 1, lo + 6, lo + 7, lo + 8, lo + 9, lo + 10, (lo + hi) \div 2, hi - 2, hi - 1, hi} \cup Wide(lo, hi)
TailPos(L) == IF L <= FullBelow THEN 0..L ELSE {0, 1, 2, L \div 2, L - 1, L} \cup {x \in {255, 256, 257} : x <= L}
SKinds == {"len0", "len1", "lenk", "lenk1", "object"}
SentinelOf(sk, k) == CASE sk = "len0" -> <<>> [] sk = "len1" -> <<83>> [] sk = "lenk" -> Rep(83, k) [] sk = "lenk1" -> Rep(83, k + 1) [] sk = "object" -> <<>>

\* ------------------------------------------------------------------ v1.5 blocks
V15Tail(L, tz) == [i \in 1..L |-> IF i = tz THEN 0 ELSE 7]
V15EM(d) == TLCEval(IF d.z = 0 THEN <<d.b1, d.b2>> \o [i \in 1..(d.k - 2) |-> PSByte(i)]
                    ELSE <<d.b1, d.b2>> \o [i \in 1..(d.z - 3) |-> PSByte(i)] \o <<0>> \o V15Tail(d.k - d.z, d.tz))
V15Leaves(g) == UNION {{[fam |-> "v15", k |-> g.k, b1 |-> g.b1, b2 |-> g.b2, z |-> z, tz |-> tz] : tz \in (IF z = 0 THEN {0} ELSE TailPos(g.k - z))} : z \in Pos(3, g.k) \cup {0}}
V15Exps(d) == LET L == d.k - d.z IN
   {x \in {0, d.k - 11, d.k - 10, d.k + 5} \cup (IF d.z = 0 THEN {1} ELSE {L - 1, L, L + 1, L + 256, L - 256}) : x >= 0}
\* b"\x00" as the candidate message together with an expected length that no block can have is left out: an observed
\* b"\x00" could then not be told apart from that candidate (the recorder's observations must name one clause)
Distinguishable(d, x) == ~(x > d.k - 11 /\ d.z # 0 /\ d.k - d.z = 1 /\ d.tz = 1)
V15Combos(d) == {<<sk, x>> : sk \in SKinds, x \in {y \in V15Exps(d) : Distinguishable(d, y)}}
V15Class(d, x) == IF d.b1 = 0 /\ d.b2 = 2 /\ d.z >= 11 /\ (x = 0 \/ x = d.k - d.z) THEN "msg" ELSE "sentinel"     \* by construction
V15Ok(d) == LET em == V15EM(d) IN
   /\ Len(em) = d.k
   /\ \A cb \in V15Combos(d) : LET r == V15Decode(em, SentinelOf(cb[1], d.k), cb[2]) IN
        /\ r[1] = V15Class(d, cb[2])
        /\ r[1] = "msg" => r[2] = V15Tail(d.k - d.z, d.tz) /\ V15IsEncodingOf(em, r[2], d.k)
        /\ r[1] = "sentinel" => r[2] = SentinelOf(cb[1], d.k)
   \* a block that is refused without an expected length is the encoding of no message at all
   /\ V15Class(d, 0) = "sentinel" => \A j \in 0..d.k : ~V15IsEncodingOf(em, SubSeq(em, j + 1, d.k), d.k)
V15Json(d) == [fam |-> "v15", k |-> d.k, em |-> V15EM(d), b1 |-> d.b1, b2 |-> d.b2, z |-> d.z, tz |-> d.tz,
               combos |-> {<<cb[1], cb[2], V15Class(d, cb[2])>> : cb \in V15Combos(d)}]

\* ------------------------------------------------------------------ OAEP blocks
ToyName(hl) == <<"toy1", "toy2", "toy3">>[hl]
MgfOf(gk, h) == IF gk = "toy" THEN [kind |-> "toy", hash |-> ""] ELSE [kind |-> "mgf1", hash |-> h]
Labels == <<<<>>, <<108, 97, 98>>>>
SeedOf(si, hl) == IF si = 1 THEN Zeros(hl) ELSE [i \in 1..hl |-> ((i * 89) + si) % 256]
OTail(L, tk, ti) == IF tk = "f" THEN Rep(7, L) ELSE [i \in 1..L |-> IF i = ti THEN 1 ELSE 0]
Body(bl, p, v, tk, ti) == TLCEval(IF p = 0 THEN Zeros(bl) ELSE Zeros(p - 1) \o <<v>> \o OTail(bl - p, tk, ti))
BodyDescs(bl) == {[p |-> 0, v |-> 0, tk |-> "f", ti |-> 0]} \cup
   UNION {{[p |-> p, v |-> v, tk |-> "f", ti |-> 0] : v \in {1, 2, 255}} \cup
          {[p |-> p, v |-> v, tk |-> "z", ti |-> ti] : v \in {1, 2, 255}, ti \in TailPos(bl - p)} : p \in Pos(1, bl)}
FlipHash(lh, f) == IF f = 0 THEN lh ELSE [lh EXCEPT ![f] = lh[f] ^^ (IF f % 2 = 1 THEN 1 ELSE 128)]
Big(k) == k > 2 * FullBelow            \* at real sizes the cross product with seeds, labels, MGFs and flip positions is cut down
OaepLeaves(g) == LET bl == g.k - (2 * g.hl) - 1 IN
   {[fam |-> "oaep", k |-> g.k, hl |-> g.hl, gk |-> g.gk, y |-> g.y, flip |-> g.flip, b |-> b, si |-> si, li |-> li] :
        b \in BodyDescs(bl), si \in (IF Big(g.k) THEN {2} ELSE {1, 2}), li \in (IF Big(g.k) THEN {2} ELSE {1, 2})}
OaepClass(d) == IF d.y = 0 /\ d.flip = 0 /\ d.b.p # 0 /\ d.b.v = 1 THEN "ok" ELSE "error"                          \* by construction
OaepDBOf(d, lh) == LET bl == d.k - (2 * d.hl) - 1 IN FlipHash(lh, d.flip) \o Body(bl, d.b.p, d.b.v, d.b.tk, d.b.ti)
OaepEM(d) == LET h == ToyName(d.hl)  g == MgfOf(d.gk, h) IN
   OaepMask(d.y, SeedOf(d.si, d.hl), OaepDBOf(d, HashByName(h, Labels[d.li])), LAMBDA s, n : MgfByName(g, s, n))
OaepOk(d) == LET h == ToyName(d.hl)  g == MgfOf(d.gk, h)  lab == Labels[d.li]  em == OaepEM(d)
                 bl == d.k - (2 * d.hl) - 1
                 r == OaepDecodeNamed(em, h, g, lab)
                 u == OaepUnmask(em, d.hl, LAMBDA s, n : MgfByName(g, s, n)) IN
   /\ Len(em) = d.k
   /\ u.db = OaepDBOf(d, HashByName(h, lab)) /\ u.seed = SeedOf(d.si, d.hl) /\ u.y = d.y                           \* unmasking inverts masking
   /\ r[1] = OaepClass(d)
   /\ r[1] = "ok" => /\ r[2] = OTail(bl - d.b.p, d.b.tk, d.b.ti)
                     /\ OaepCanEncode(d.k, d.hl, Len(r[2]))
                     /\ OaepEncodeNamed(r[2], h, g, lab, u.seed, d.k) = em                                         \* accepted => image of the encoder
OaepJson(d) == LET h == ToyName(d.hl) IN
   [fam |-> "oaep", k |-> d.k, hash |-> h, mgf |-> MgfOf(d.gk, h), label |-> Labels[d.li], em |-> OaepEM(d), y |-> d.y, flip |-> d.flip,
    p |-> d.b.p, v |-> d.b.v, tk |-> d.b.tk, ti |-> d.b.ti, cls |-> OaepClass(d)]
\* DB patterns for the real hashes (no hashing here)
DbLeaves(g) == LET hl == HLenOf(g.hash)  bl == g.k - (2 * hl) - 1 IN
   {[fam |-> "oaepdb", k |-> g.k, hash |-> g.hash, y |-> y, flip |-> 0, b |-> b] : y \in {0, 1, 255}, b \in BodyDescs(bl)} \cup
   {[fam |-> "oaepdb", k |-> g.k, hash |-> g.hash, y |-> 0, flip |-> f, b |-> b] : f \in {1, 2, hl \div 2, hl - 1, hl},
        b \in {x \in BodyDescs(bl) : x.tk = "f" /\ x.v = 1}}
DbOk(d) == LET hl == HLenOf(d.hash)  bl == d.k - (2 * hl) - 1  body == Body(bl, d.b.p, d.b.v, d.b.tk, d.b.ti)
               r == OaepDBVerdict(d.y, Zeros(hl) \o body, FlipHash(Zeros(hl), d.flip), hl) IN                      \* lHash' = 0^hl stands for the hash
   /\ Len(body) = bl
   /\ r[1] = OaepClass(d)
   /\ r[1] = "ok" => r[2] = OTail(bl - d.b.p, d.b.tk, d.b.ti) /\ OaepDB(Zeros(hl), r[2], d.k) = Zeros(hl) \o body
DbJson(d) == LET hl == HLenOf(d.hash)  bl == d.k - (2 * hl) - 1 IN
   [fam |-> "oaepdb", k |-> d.k, hash |-> d.hash, y |-> d.y, flip |-> d.flip, body |-> Body(bl, d.b.p, d.b.v, d.b.tk, d.b.ti),
    p |-> d.b.p, v |-> d.b.v, tk |-> d.b.tk, ti |-> d.b.ti, cls |-> OaepClass(d)]

\* ------------------------------------------------------------------ round trips, length limit
MsgPat(n, a) == TLCEval([i \in 1..n |-> IF i % 5 = 2 THEN 0 ELSE ((a * i) + 1) % 256])                               \* zero octets inside (and b"\x00\x.." prefixes)
RtLens(mx) == IF RtAll \/ mx <= FullBelow THEN 0..(mx + 1) ELSE {x \in {0, 1, 2, mx \div 2, mx - 1, mx, mx + 1, mx + 2, mx + 12} : x >= 0} \cup {x \in {255, 256, 257} : x <= mx + 1}
Rt15Leaves(g) == {[fam |-> "rt15", k |-> g.k, ml |-> ml] : ml \in RtLens(V15MaxLen(g.k))}
Rt15Ok(d) == LET M == MsgPat(d.ml, 3) IN
   /\ V15CanEncode(d.k, d.ml) <=> d.ml <= d.k - 11
   /\ V15CanEncode(d.k, d.ml) => LET em == V15Encode(M, [i \in 1..(d.k - d.ml - 3) |-> PSByte(i)]) IN
         /\ Len(em) = d.k /\ V15IsEncodingOf(em, M, d.k)
         /\ V15Decode(em, <<83>>, 0) = <<"msg", M>> /\ V15Decode(em, <<83>>, d.ml) = <<"msg", M>>
         /\ d.ml < d.k - 11 => V15Decode(em, <<83>>, d.ml + 1) = <<"sentinel", <<83>>>>
RtOaepLeaves(g) == LET mx == OaepMaxLen(g.k, HLenOf(g.hash)) IN
   {[fam |-> "rtoaep", k |-> g.k, hash |-> g.hash, gk |-> g.gk, ml |-> ml, li |-> li] : ml \in RtLens(IF mx < 0 THEN 0 - 1 ELSE mx), li \in {1, 2}}
RtOaepLeavesOf(g) == IF Big(g.k) THEN {d \in RtOaepLeaves(g) : d.li = 1 + (d.ml % 2)} ELSE RtOaepLeaves(g)         \* at real sizes the labels alternate
IsToy(h) == h \in {"toy1", "toy2", "toy3"}
RtOaepOk(d) == LET hl == HLenOf(d.hash)  M == MsgPat(d.ml, 5)  g == MgfOf(d.gk, d.hash)  lab == Labels[d.li] IN
   /\ OaepCanEncode(d.k, hl, d.ml) <=> d.ml <= d.k - (2 * hl) - 2
   /\ (OaepCanEncode(d.k, hl, d.ml) /\ IsToy(d.hash)) =>                                                            \* the real hashes are evaluated by the trace specification
         LET em == OaepEncodeNamed(M, d.hash, g, lab, SeedOf(2, hl), d.k) IN
         /\ Len(em) = d.k /\ em[1] = 0
         /\ OaepDecodeNamed(em, d.hash, g, lab) = <<"ok", M>>
         /\ OaepDecodeNamed(em, d.hash, g, <<1>> \o lab) = OaepErr                                                      \* another label
ShortOk(d) == /\ d.k < (2 * HLenOf(d.hash)) + 2
              /\ OaepDecodeNamed([i \in 1..d.k |-> i % 2], d.hash, MgfOf("mgf1", d.hash), <<>>) = OaepErr /\ ~OaepCanEncode(d.k, HLenOf(d.hash), 0)

\* ------------------------------------------------------------------ configurations (cfg files cannot write tuples: they substitute these)
None == {}
\* small: every position; toy hashes of 1..3 octets from the shortest possible k upwards
SmallOaepKHs == {<<4, 1>>, <<5, 1>>, <<8, 1>>, <<6, 2>>, <<7, 2>>, <<9, 2>>, <<12, 2>>, <<8, 3>>, <<9, 3>>, <<12, 3>>}
QuickOaepKHs == {<<4, 1>>, <<6, 2>>, <<7, 2>>, <<12, 2>>, <<9, 3>>}
SmallShortKHs == {<<2, "toy1">>, <<3, "toy1">>, <<3, "toy2">>, <<4, "toy2">>, <<5, "toy2">>, <<4, "toy3">>, <<7, "toy3">>}     \* k < hLen + 2 and hLen + 2 <= k < 2 hLen + 2
SmallRtOaepKHs == {<<4, "toy1", "toy">>, <<9, "toy1", "mgf1">>, <<6, "toy2", "toy">>, <<12, "toy2", "mgf1">>, <<16, "toy2", "toy">>, <<8, "toy3", "mgf1">>, <<14, "toy3", "toy">>}
\* real sizes: k = 64 (512 bits), 65 (513 bits), 96, 128 (1024 bits)
RealDbKHs == {<<42, "SHA1">>, <<64, "SHA1">>, <<65, "SHA1">>, <<96, "SHA1">>, <<128, "SHA1">>, <<96, "SHA256">>, <<128, "SHA256">>, <<66, "SHA256">>}
RealOaepKHs == {<<64, 3>>, <<128, 2>>}                      \* toy hashes at real sizes (masking is cheap)
RealShortKHs == {<<64, "SHA256">>, <<65, "SHA256">>, <<40, "SHA1">>, <<41, "SHA1">>, <<21, "SHA1">>, <<64, "SHA512">>, <<65, "SHA512">>, <<96, "SHA512">>,
                 <<128, "SHA512">>, <<96, "SHA384">>}
RealRtOaepKHs == {<<42, "SHA1", "mgf1">>, <<66, "SHA256", "mgf1">>, <<64, "SHA1", "mgf1">>, <<65, "SHA1", "mgf1">>, <<96, "SHA1", "mgf1">>, <<128, "SHA1", "mgf1">>, <<96, "SHA256", "mgf1">>, <<128, "SHA256", "mgf1">>,
                  <<64, "SHA256", "mgf1">>, <<64, "toy3", "toy">>, <<65, "toy2", "mgf1">>, <<128, "toy3", "mgf1">>, <<128, "SHA1", "toy">>}
\* wide: k = 300 octets (a 2400-bit modulus), where message lengths and positions pass 256
WideOaepKHs == {<<300, 2>>}
WideDbKHs == {<<300, "SHA1">>}
WideRtOaepKHs == {<<300, "toy2", "mgf1">>, <<300, "SHA1", "mgf1">>, <<300, "toy3", "toy">>}
\* ------------------------------------------------------------------ the graph
Groups ==
   {[fam |-> "g15", k |-> k, b1 |-> b1, b2 |-> b2] : k \in V15Ks, b1 \in FirstBytes, b2 \in FirstBytes} \cup
   UNION {{[fam |-> "goaep", k |-> kh[1], hl |-> kh[2], gk |-> gk, y |-> y, flip |-> f] :
               gk \in (IF Big(kh[1]) THEN {"mgf1"} ELSE {"toy", "mgf1"}), y \in {0, 1, 255}, f \in (IF Big(kh[1]) THEN {0, kh[2]} ELSE 0..kh[2])} : kh \in OaepKHs} \cup
   {[fam |-> "gdb", k |-> kh[1], hash |-> kh[2]] : kh \in DbKHs} \cup
   {[fam |-> "grt15", k |-> k] : k \in Rt15Ks} \cup
   {[fam |-> "grtoaep", k |-> kh[1], hash |-> kh[2], gk |-> kh[3]] : kh \in RtOaepKHs} \cup
   {[fam |-> "short", k |-> kh[1], hash |-> kh[2]] : kh \in ShortKHs}
Init == c \in Groups
Next == \/ c.fam = "g15" /\ c' \in V15Leaves(c)
        \/ c.fam = "goaep" /\ c' \in OaepLeaves(c)
        \/ c.fam = "gdb" /\ c' \in DbLeaves(c)
        \/ c.fam = "grt15" /\ c' \in Rt15Leaves(c)
        \/ c.fam = "grtoaep" /\ c' \in RtOaepLeavesOf(c)
Sound == CASE c.fam = "v15" -> V15Ok(c) [] c.fam = "oaep" -> OaepOk(c) [] c.fam = "oaepdb" -> DbOk(c) [] c.fam = "rt15" -> Rt15Ok(c)
           [] c.fam = "rtoaep" -> RtOaepOk(c) [] c.fam = "short" -> ShortOk(c) [] OTHER -> TRUE
EmitInv == Emit => CASE c.fam = "v15" -> PrintT(<<"CASE", ToJson(V15Json(c))>>)
                     [] c.fam = "oaep" -> PrintT(<<"CASE", ToJson(OaepJson(c))>>)
                     [] c.fam = "oaepdb" -> PrintT(<<"CASE", ToJson(DbJson(c))>>)
                     [] c.fam = "rt15" -> PrintT(<<"CASE", ToJson([fam |-> "rt15", k |-> c.k, msg |-> MsgPat(c.ml, 3), can |-> V15CanEncode(c.k, c.ml)])>>)
                     [] c.fam = "rtoaep" -> PrintT(<<"CASE", ToJson([fam |-> "rtoaep", k |-> c.k, hash |-> c.hash, mgf |-> MgfOf(c.gk, c.hash), label |-> Labels[c.li],
                                                        seed |-> SeedOf(2 + c.ml, HLenOf(c.hash)), msg |-> MsgPat(c.ml, 5), can |-> OaepCanEncode(c.k, HLenOf(c.hash), c.ml)])>>)
                     [] c.fam = "short" -> PrintT(<<"CASE", ToJson([fam |-> "short", k |-> c.k, hash |-> c.hash])>>)
                     [] OTHER -> TRUE
=============================================================================
