"""C13 - encoding layers are bijective on valid data, total and strict on arbitrary bytes."""
import copy
import json
import random
from concurrent.futures import ThreadPoolExecutor

from .. import tlc
from ..core import Machinery

LEVEL = "model_checking"
ALPHABET = [0, 1, 2, 3, 4, 5, 6, 48, 49, 127, 128, 129, 130, 160, 255]


def _hex(b):
    return bytes(b).hex()


def _judge(ctx, module, traces, family, on_clause):
    """Validate `traces`; on_clause(trace, clause) is called for every trace that is not accepted."""
    verdicts = ctx.validate(module, traces, family=family)
    for t in traces:
        pos, clause = verdicts[t["tid"]]
        if clause != "ok":
            on_clause(t, clause)
    return verdicts


def _selfcheck(ctx, module, good_trace, corrupt, family):
    good = copy.deepcopy(good_trace)
    bad = corrupt(copy.deepcopy(good_trace))
    good["tid"] = 1
    bad["tid"] = 2
    v, st = tlc.validate_traces(module, [good, bad], shards=1)
    ok = v[1][1] == "ok" and v[2][1] != "ok"
    ctx.binding_checks.append({"family": family, "original": v[1][1][:80], "corrupted": v[2][1][:160], "ok": ok})
    if not ok:
        raise Machinery("binding self-check failed for %s: original=%r corrupted=%r" % (family, v[1], v[2]))


def run(ctx):
    quick = ctx.tier == "quick"
    rnd = random.Random(ctx.seed)
    # ---------------------------------------------------------------------------------------------------------
    # 1. the specification checks itself: every string up to the bound, every value of the universe
    mcs = [("DerMC", "DerMC_quick.cfg" if quick else "DerMC_thorough.cfg", 16),
           ("DerValueMC", "DerValueMC_ints_quick.cfg" if quick else "DerValueMC_ints.cfg", 16)]
    res = {}
    for m, cfg, w in mcs:
        res[cfg] = ctx.mc(m, cfg, workers=w, timeout=1500)
    rv = ctx.mc("DerValueMC", "DerValueMC_values.cfg" if quick else "DerValueMC_values_big.cfg", workers=1, timeout=1500)
    decoders = json.loads(tlc.tla_string_to_py(res[mcs[0][1]].prints("DECODERS")[0]))
    cases = [json.loads(tlc.tla_string_to_py(c)) for c in rv.prints("CASE")]
    if len(decoders) < 20 or len(cases) < 5000:
        raise Machinery("the models emitted %d decoder configurations and %d cases" % (len(decoders), len(cases)))
    maxlen = 4 if quick else 5
    ctx.exhaustive = True

    # ---------------------------------------------------------------------------------------------------------
    # 2. low-level decoders and encoders against the specification
    def der_clause(entry):
        def f(t, clause):
            if clause.startswith("harness:"):
                raise Machinery("recorder inconsistency (%s): %s in %r" % (entry(t), clause, {k: t[k] for k in t if k not in ("acc", "oth", "encs", "backs")}))
            ctx.violation("%s: %s" % (entry(t), clause),
                          {"entry": entry(t), "config": t.get("d"), "input_hex": _hex(t["s"]) if "s" in t else None,
                           "recorded": t.get("out"), "raised_in": t.get("fn")}, replay={k: t[k] for k in t if k not in ("acc", "oth")})
        return f

    # 2a. exhaustive sweep: the recorder enumerates the universe of DerMC, TLC judges every string
    sw = ctx.drive("c13_codec", ["sweep"], inp={"decoders": decoders, "alphabet": ALPHABET, "maxlen": maxlen, "tid0": 0})
    nstr = sum(t["n"] for t in sw)
    ctx.count(nstr)
    verdicts = ctx.validate("CodecTrace", sw, family="der-sweep")
    sweep_accepted = 0
    for t in sw:
        sweep_accepted += len(t["acc"])
        for a in t["acc"]:
            ctx.nontriv([t["d"], a["s"]])
        pos, clause = verdicts[t["tid"]]
        if clause == "ok":
            continue
        for m in json.loads(clause):
            if m["clause"].startswith("harness:"):
                raise Machinery("recorder inconsistency in the sweep of %r: %s (%s)" % (t["d"], m["clause"], _hex(m["s"])))
            ctx.violation("%s.decode: %s" % (t["d"]["cls"], m["clause"]),
                          {"entry": t["d"]["cls"] + ".decode", "config": t["d"], "input_hex": _hex(m["s"]),
                           "strings_in_this_class": m["n"], "universe": {"alphabet": ALPHABET, "maxlen": t["maxlen"], "prefix": t["prefix"]}},
                          replay={"kind": "dec", "d": t["d"], "s": m["s"]})
    ctx.extra["sweep"] = {"strings_per_decoder": nstr // len(decoders), "decoder_configurations": len(decoders),
                          "decoder_calls": nstr, "accepted": sweep_accepted, "alphabet": ALPHABET, "maxlen": maxlen}
    # a small universe without the octet 0x80 (F1) for the sample and the binding self-check
    sc = ctx.drive("c13_codec", ["sweep"], inp={"decoders": [d for d in decoders if d["cls"] == "DerBoolean" and d["exp"] < 0],
                                                 "alphabet": [0, 1, 2, 127, 129, 255], "maxlen": 4, "tid0": 900000})
    vsc = ctx.validate("CodecTrace", sc, family="der-sweep")
    ok_sweep = next(t for t in sc if vsc[t["tid"]][1] == "ok" and len(t["acc"]) >= 2)
    ctx.sample({"family": "der-sweep", "decoder": ok_sweep["d"], "prefix": ok_sweep["prefix"], "strings": ok_sweep["n"],
                "accepted": [_hex(a["s"]) for a in ok_sweep["acc"][:6]], "tlc_verdict": "ok"})

    # 2b. encoders on the value universe TLC enumerated; the library's decoding of its own encodings
    rnd.shuffle(cases)
    ncases = 2500 if quick else len(cases)
    en = ctx.drive("c13_codec", ["enc"], inp={"cases": cases[:ncases], "tid0": 1000000})
    lo, hi = (-9000, 9000) if quick else (-70000, 70000)
    en += ctx.drive("c13_codec", ["encints"], inp={"lo": lo, "hi": hi, "chunk": 1000, "tid0": 2000000})
    _judge(ctx, "CodecTrace", en, "der-encode", der_clause(lambda t: t["d"]["cls"] + ".encode" if "d" in t else "DerInteger.encode"))
    for t in en:
        if t["kind"] == "enc":
            ctx.count()
            ctx.nontriv(["enc", t["d"], t["v"]])
        else:
            ctx.count(t["hi"] - t["lo"] + 1)
            ctx.nontriv(["encints", t["lo"], t["hi"]])
    ctx.extra["encoder_cases"] = {"composite_values": sum(1 for t in en if t["kind"] == "enc"), "integers": [lo, hi]}
    e0 = next(t for t in en if t["kind"] == "enc" and t["d"]["cls"] == "DerSequence" and len(t["v"]["m"]) == 3)
    ctx.sample({"family": "der-encode", "decoder": e0["d"], "value": e0["v"], "encoding": _hex(e0["enc"]), "tlc_verdict": "ok"})

    # ---------------------------------------------------------------------------------------------------------
    # binding self-checks: a falsified outcome must be rejected by the judge
    def drop_accepted(t):
        del t["acc"][0]
        return t
    _selfcheck(ctx, "CodecTrace", ok_sweep, drop_accepted, "der-sweep: an accepted string reported as ValueError")

    def flip_value(t):
        t["acc"][0]["v"]["b"] = not t["acc"][0]["v"]["b"]
        return t
    _selfcheck(ctx, "CodecTrace", ok_sweep, flip_value, "der-sweep: decoded value")

    def flip_enc(t):
        t["enc"][-1] ^= 1
        return t
    _selfcheck(ctx, "CodecTrace", e0, flip_enc, "der-encode: one bit of the encoding")
    ctx.rule = ("every byte string of length <= %d over the 15-octet alphabet into %d decoder configurations" % (maxlen, len(decoders)))
    ctx.assume("the transcription of X.690 in spec/obj/DerDecoder.tla is right; it is pinned by X.690 8.19.5 and OpenSSL-produced encodings as ASSUMEs")
