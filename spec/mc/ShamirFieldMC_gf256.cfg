\* GF(2^8), AES polynomial x^8 + x^4 + x^3 + x + 1: all 256 elements as first operand, all 65536 pairs of second and third
\* operand: every one of the 16.7 million triples
CONSTANTS M = 8
LowN = 27
ASel = 0
ASeed = 0
INIT Init
NEXT Next
CHECK_DEADLOCK FALSE
INVARIANTS TablesClosed Commutative Associative Distributive Neutral Inverses NoZeroDivisor ZeroHasNoInverse PowIsRepeatedProduct
