---- MODULE MC_CtrCarry_2_FALSE ----
W == 2
LittleEndian == FALSE
VARIABLES
  \* @type: Int -> Int;
  ctr,
  \* @type: Int -> Int;
  ctr0,
  \* @type: Int;
  k,
  \* @type: Bool;
  done
INSTANCE CtrCarryApa
====
