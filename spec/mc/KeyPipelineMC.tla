------------------------------- MODULE KeyPipelineMC -------------------------------
(* Exhaustive exploration of sys/KeyPipeline: every toy key of every type in every form / format, with no, one or two (ordered)
   component corruptions, offered to the pipeline.  Invariants: the documented validation relations decide exactly what the key is
   for (Sound, Complete), a permissive class is only given where validation passes, every submitted case has a class.  Every
   submitted case is printed (CASE) with its verdict class; props/c05.py concretises the cases on real keys. *)
EXTENDS KeyPipeline, Json
CONSTANTS EmitCases, MaxCorr, Weakened
VARIABLES ty, base, form, corr, t, res
vars == <<ty, base, form, corr, t, res>>
NoRes == [cls |-> "", why |-> "", inv |-> FALSE, val |-> ""]
Init == /\ ty \in Types /\ base \in 1..3 /\ base <= NBases(ty) /\ form \in Forms(ty)
        /\ corr = <<>> /\ t = Base(ty, base) /\ res = NoRes
CorruptStep(c) == /\ res = NoRes /\ Len(corr) < MaxCorr
                  /\ corr' = Append(corr, c) /\ t' = Corrupt(ty, c, t) /\ UNCHANGED <<ty, base, form, res>>
\* Weakened = TRUE: a pipeline that forgets the range check of EC coordinates / of u (the shape of F19); only used to show that Sound separates it
WVerdict == LET v == Verdict(ty, form, t) IN
            IF Weakened /\ v.val \in {"coordinates < p"} THEN [v EXCEPT !.cls = "key", !.val = "key"] ELSE v
Submit == /\ res = NoRes /\ res' = WVerdict /\ UNCHANGED <<ty, base, form, corr, t>>
Next == (\E c \in Corruptions(ty) : CorruptStep(c)) \/ Submit
Done == res # NoRes
\* the documented validation accepts only what satisfies the invariants of the type, and refuses nothing that does
Sound == (Done /\ res.val = "key") => res.inv
Complete == (Done /\ res.inv) => res.val = "key"
\* a permissive class is given only where validation passes; every case has exactly one class
Classes == Done => /\ res.cls \in {"key", "ValueError", "either", "n/a"}
                   /\ (res.cls = "key" => res.val = "key")
                   /\ (res.cls = "either" => (res.val = "key" \/ res.val = "decode"))
                   /\ (res.cls = "ValueError" => res.val # "key")
\* the unmodified keys are keys in every form
BasesAreKeys == (Done /\ corr = <<>>) => res.cls = "key"
Emit == (EmitCases /\ Done) => PrintT(<<"CASE", ToJson([ty |-> ty, base |-> base, form |-> form, corr |-> corr, cls |-> res.cls, why |-> res.why])>>)
=============================================================================
