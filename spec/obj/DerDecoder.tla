------------------------------- MODULE DerDecoder -------------------------------
(* X.690 DER, as far as lib/Crypto/Util/asn1.py offers it: the definite-length TLV reader and one decoder/encoder pair
   per class (DerObject, DerInteger, DerBoolean, DerSequence, DerOctetString, DerBitString, DerNull, DerObjectId,
   DerSetOf) with IMPLICIT/EXPLICIT context tags.  Pure operators over byte strings (sequences over 0..255); no
   variables, no constants.

   Results:  <<"ok", value, tol>>  or  <<"ValueError", reason>>.
   `reason` names the class of the defect (it becomes the "input class" of a finding); `tol` is TRUE when the string
   was accepted only through one of the NAMED TOLERANCES below: places where X.690 refuses the string, the library
   accepts it, and property C13 is silent (its strictness clause lists trailing bytes, indefinite and non-minimal
   lengths, truncated content, undefined padding - not the content rules of the individual types).  There the judge
   accepts either ValueError or the value computed here; everywhere else the outcome is fully determined.

   Values (shape shared with the recorder's JSON):
     integer          [neg |-> BOOLEAN, mag |-> minimal big-endian octets of |n|]      (0 is [neg FALSE, mag <<>>])
     DerObject        [tag |-> octet, payload |-> octets]
     DerBoolean       [b |-> BOOLEAN]
     DerOctetString, DerNull   [payload |-> octets]
     DerBitString     [bits |-> octets]
     DerObjectId      [arcs |-> sequence of minimal big-endian octet strings]           (arc 0 is <<>>)
     DerSequence, DerSetOf     [m |-> sequence of members [int |-> BOOLEAN, neg |-> BOOLEAN, b |-> octets]]
                      (int TRUE: an INTEGER member, b its magnitude; int FALSE: any other member, b its complete TLV)
   Decoder configuration d:
     [cls, strict |-> BOOLEAN, imp |-> -1 | 0..30, exp |-> -1 | 0..30, nr |-> sequence of allowed member counts
      (<<>> = any), ints |-> BOOLEAN (only_ints_expected)] *)
EXTENDS Integers, Sequences, FiniteSets, TLC

Err(r) == <<"ValueError", r>>
IsOk(r) == r[1] = "ok"
DMin(a, b) == IF a < b THEN a ELSE b

(* ------------------------------------------------------------------ octet-string numerals *)
RECURSIVE Nat256(_)
Nat256(b) == IF Len(b) = 0 THEN 0 ELSE Nat256(SubSeq(b, 1, Len(b) - 1)) * 256 + b[Len(b)]       \* Len(b) <= 3
RECURSIVE StripZeros(_)
StripZeros(b) == IF Len(b) > 0 /\ b[1] = 0 THEN StripZeros(Tail(b)) ELSE b
\* minimal big-endian octets of a natural number below 2^31
RECURSIVE BeMin(_)
BeMin(n) == IF n = 0 THEN <<>> ELSE BeMin(n \div 256) \o <<n % 256>>
\* 2^(8 Len(b)) - b on Len(b) octets (two's complement negation): octets right of the last non-zero one stay zero
LastNonZero(b) == CHOOSE j \in 0..Len(b) : (j = 0 \/ b[j] # 0) /\ \A i \in (j + 1)..Len(b) : b[i] = 0
Neg2c(b) == LET j == LastNonZero(b) IN
            TLCEval([i \in 1..Len(b) |-> IF i < j THEN 255 - b[i] ELSE IF i = j THEN 256 - b[i] ELSE 0])
\* b + k and b - k on big-endian octet strings, 0 <= k < 256 (b >= k for SubSmall); result may carry leading zeros
RECURSIVE AddSmall(_,_)
AddSmall(b, k) == IF k = 0 THEN b ELSE IF Len(b) = 0 THEN <<k>>
                  ELSE LET n == Len(b)  t == b[n] + k IN
                       IF t < 256 THEN SubSeq(b, 1, n - 1) \o <<t>> ELSE AddSmall(SubSeq(b, 1, n - 1), 1) \o <<t - 256>>
RECURSIVE SubSmall(_,_)
SubSmall(b, k) == IF k = 0 THEN b
                  ELSE LET n == Len(b) IN
                       IF b[n] >= k THEN SubSeq(b, 1, n - 1) \o <<b[n] - k>>
                       ELSE SubSmall(SubSeq(b, 1, n - 1), 1) \o <<b[n] + 256 - k>>
\* regrouping of digit strings: w-bit digits (big-endian) -> v-bit digits, left-padded with zero bits, leading zero digits kept
Pow2(k) == CASE k = 0 -> 1 [] k = 1 -> 2 [] k = 2 -> 4 [] k = 3 -> 8 [] k = 4 -> 16 [] k = 5 -> 32 [] k = 6 -> 64 [] k = 7 -> 128
Regroup(ds, w, v) ==
   LET nb == w * Len(ds)
       pad == (v - (nb % v)) % v
       Bit(j) == IF j <= pad THEN 0 ELSE LET q == j - pad - 1 IN (ds[(q \div w) + 1] \div Pow2((w - 1) - (q % w))) % 2
       Digit(i) == LET o == v * (i - 1) IN
                   (IF v = 8 THEN Bit(o + 1) * 128 ELSE 0) +
                   Bit(o + v - 6) * 64 + Bit(o + v - 5) * 32 + Bit(o + v - 4) * 16 + Bit(o + v - 3) * 8 +
                   Bit(o + v - 2) * 4 + Bit(o + v - 1) * 2 + Bit(o + v)
   IN TLCEval([i \in 1..((nb + pad) \div v) |-> Digit(i)])

(* ------------------------------------------------------------------ length octets and the TLV reader *)
\* definite form with the minimum number of octets (X.690 8.1.3.3-8.1.3.5, 10.1), content length below 2^24
LenOctets(n) == IF n < 128 THEN <<n>> ELSE IF n < 256 THEN <<129, n>>
                ELSE IF n < 65536 THEN <<130, n \div 256, n % 256>>
                ELSE <<131, n \div 65536, (n \div 256) % 256, n % 256>>
\* one TLV at the start of s:  <<"ok", identifier octet, content, rest>>  or an error.  Strings are shorter than 2^24.
ReadTlv(s) ==
  IF Len(s) < 1 THEN Err("empty input") ELSE IF Len(s) < 2 THEN Err("no length octet") ELSE
  LET l0 == s[2] IN
  IF l0 < 128 THEN (IF Len(s) - 2 < l0 THEN Err("truncated content")
                    ELSE <<"ok", s[1], SubSeq(s, 3, 2 + l0), SubSeq(s, 3 + l0, Len(s))>>)
  ELSE LET k == l0 - 128 IN
       IF k = 0 THEN Err("length octet 0x80")                                  \* indefinite form: not DER (10.1)
       ELSE IF Len(s) < 2 + k THEN Err("truncated length octets")
       ELSE IF s[3] = 0 THEN Err("length with leading zero octet")             \* not the minimum number of octets
       ELSE IF k > 3 THEN Err("truncated content")                             \* announces >= 2^24 octets (k = 127: reserved, 8.1.3.5c)
       ELSE LET L == Nat256(SubSeq(s, 3, 2 + k)) IN
            IF L <= 127 THEN Err("long-form length below 128")
            ELSE IF Len(s) - 2 - k < L THEN Err("truncated content")
            ELSE <<"ok", s[1], SubSeq(s, 3 + k, 2 + k + L), SubSeq(s, 3 + k + L, Len(s))>>
\* the same language, stated as a grammar instead of a parser: identifier octet, minimal definite length, exactly that much content
WellFramed(s) == /\ Len(s) >= 2
                 /\ \E n \in 0..(Len(s) - 2) : LET lo == LenOctets(n) IN
                        Len(s) = 1 + Len(lo) + n /\ SubSeq(s, 2, 1 + Len(lo)) = lo
Tlv(tag, content) == <<tag>> \o LenOctets(Len(content)) \o content

(* ------------------------------------------------------------------ NAMED TOLERANCES (see the header) *)
\* the library knows single-octet identifiers only; X.690 8.1.2.4 reads 11111 in the low five bits as "more identifier octets follow"
SingleOctetTag(tag) == tag % 32 = 31
\* X.690 8.3.1: an INTEGER has one or more content octets; the non-strict decoder reads none as 0 (observation O6)
IntegerEmptyContent(p, strict) == ~strict /\ Len(p) = 0
\* X.690 8.3.2: the first nine bits are neither all zero nor all one
IntegerLeadingZero(p) == Len(p) >= 2 /\ p[1] = 0 /\ p[2] < 128
IntegerLeadingOnes(p) == Len(p) >= 2 /\ p[1] = 255 /\ p[2] >= 128
\* ... the non-strict decoder accepts both (DESIGN section 5); the strict one refuses the first but accepts redundant 0xff octets
IntegerNonMinimalTolerated(p, strict) == (~strict /\ IntegerLeadingZero(p)) \/ IntegerLeadingOnes(p)
\* X.690 8.8.2: NULL has no content octets; DerNull keeps whatever is there
NullWithContent(p) == Len(p) > 0
\* X.690 8.6.2: a BIT STRING has at least the initial octet; DerBitString reads no content as the empty string
BitStringNoInitialOctet(p) == Len(p) = 0
\* X.690 8.19.2: every subidentifier ends with an octet below 0x80 and does not start with 0x80 (observation O6)
OidDanglingContinuation(p) == Len(p) > 0 /\ p[Len(p)] >= 128
OidPaddedArc(p) == \E i \in 1..Len(p) : p[i] = 128 /\ (i = 1 \/ p[i - 1] < 128)
\* X.690 11.6: the members of a SET OF appear in ascending order of their encodings; DerSetOf.decode does not look
LexLt(a, b) == \E i \in 1..(DMin(Len(a), Len(b)) + 1) :
                  /\ \A j \in 1..(i - 1) : a[j] = b[j]
                  /\ \/ (i > Len(a) /\ i <= Len(b))
                     \/ (i <= Len(a) /\ i <= Len(b) /\ a[i] < b[i])
SetOfNotAscending(encs) == \E i \in 1..(Len(encs) - 1) : ~LexLt(encs[i], encs[i + 1])

(* ------------------------------------------------------------------ INTEGER *)
Zero == [neg |-> FALSE, mag |-> <<>>]
IntOfContent(p) == IF Len(p) = 0 THEN Zero
                   ELSE IF p[1] < 128 THEN [neg |-> FALSE, mag |-> StripZeros(p)]
                   ELSE [neg |-> TRUE, mag |-> StripZeros(Neg2c(p))]
ContentOfInt(v) == IF ~v.neg THEN (IF Len(v.mag) = 0 THEN <<0>> ELSE IF v.mag[1] >= 128 THEN <<0>> \o v.mag ELSE v.mag)
                   ELSE LET t == Neg2c(v.mag) IN IF t[1] >= 128 THEN t ELSE <<255>> \o t
IntOfNat(n) == [neg |-> FALSE, mag |-> BeMin(n)]
IntOfInt(n) == IF n < 0 THEN [neg |-> TRUE, mag |-> BeMin(0 - n)] ELSE IntOfNat(n)
IsIntVal(v) == /\ (Len(v.mag) > 0 => v.mag[1] # 0) /\ (v.neg => Len(v.mag) > 0)
\* content octets -> <<"ok", integer, tol>>
IntContent(p, strict) ==
   IF strict /\ Len(p) = 0 THEN Err("INTEGER without content")
   ELSE IF strict /\ IntegerLeadingZero(p) THEN Err("INTEGER with a redundant leading zero octet")
   ELSE <<"ok", IntOfContent(p), IntegerEmptyContent(p, strict) \/ IntegerNonMinimalTolerated(p, strict)>>

(* ------------------------------------------------------------------ OBJECT IDENTIFIER *)
\* content octets -> sequence of subidentifiers, each a sequence of base-128 digits; a trailing unfinished group is dropped
RECURSIVE OidGroups(_,_,_,_)
OidGroups(p, i, cur, acc) == IF i > Len(p) THEN acc
                             ELSE IF p[i] >= 128 THEN OidGroups(p, i + 1, Append(cur, p[i] - 128), acc)
                             ELSE OidGroups(p, i + 1, <<>>, Append(acc, Append(cur, p[i])))
ArcOfDigits(ds) == StripZeros(Regroup(ds, 7, 8))
DigitsOfArc(a) == LET ds == StripZeros(Regroup(a, 8, 7)) IN IF Len(ds) = 0 THEN <<0>> ELSE ds
SubIdOctets(a) == LET ds == DigitsOfArc(a) IN [i \in 1..Len(ds) |-> IF i < Len(ds) THEN ds[i] + 128 ELSE ds[i]]
SmallArc(a) == IF Len(a) = 0 THEN 0 ELSE IF Len(a) = 1 THEN a[1] ELSE 256              \* exact below 256
OidContent(p) ==
   LET gs == OidGroups(p, 1, <<>>, <<>>) IN
   IF Len(gs) = 0 THEN Err("OBJECT IDENTIFIER without a complete subidentifier")
   ELSE LET subs == [i \in 1..Len(gs) |-> ArcOfDigits(gs[i])]
            x == subs[1]
            first == IF SmallArc(x) < 40 THEN <<<<>>, x>>
                     ELSE IF SmallArc(x) < 80 THEN <<<<1>>, StripZeros(SubSmall(x, 40))>>
                     ELSE <<<<2>>, StripZeros(SubSmall(x, 80))>>
        IN <<"ok", [arcs |-> first \o SubSeq(subs, 2, Len(subs))], OidDanglingContinuation(p) \/ OidPaddedArc(p)>>
\* the encoder's domain: at least two arcs, the first 0..2, the second at most 39 under 0 and 1
OidEncodable(v) == /\ Len(v.arcs) >= 2 /\ SmallArc(v.arcs[1]) <= 2
                   /\ (SmallArc(v.arcs[1]) < 2 => SmallArc(v.arcs[2]) <= 39)
                   /\ \A i \in 1..Len(v.arcs) : Len(v.arcs[i]) > 0 => v.arcs[i][1] # 0
RECURSIVE Flatten(_)
Flatten(ss) == IF Len(ss) = 0 THEN <<>> ELSE ss[1] \o Flatten(Tail(ss))
ContentOfOid(v) == LET first == StripZeros(AddSmall(v.arcs[2], 40 * SmallArc(v.arcs[1])))
                       subs == <<first>> \o SubSeq(v.arcs, 3, Len(v.arcs))
                   IN Flatten([i \in 1..Len(subs) |-> SubIdOctets(subs[i])])

(* ------------------------------------------------------------------ SEQUENCE and SET OF members *)
IntMember(v) == [int |-> TRUE, neg |-> v.neg, b |-> v.mag]
RawMember(tlv) == [int |-> FALSE, neg |-> FALSE, b |-> tlv]
MemberInt(m) == [neg |-> m.neg, mag |-> m.b]
\* content octets -> <<"ok", members, tol, identifier octets of the members>>: every member must be a complete TLV;
\* INTEGER members (identifier octet 0x02) are decoded, all others are kept as they are ("its validity is not checked")
RECURSIVE Members(_,_,_,_,_)
Members(p, strict, acc, tol, tags) ==
   IF Len(p) = 0 THEN <<"ok", acc, tol, tags>> ELSE
   LET r == ReadTlv(p) IN IF ~IsOk(r) THEN r ELSE
   LET raw == SubSeq(p, 1, Len(p) - Len(r[4])) IN
   IF r[2] = 2 THEN LET i == IntContent(r[3], strict) IN
                    IF ~IsOk(i) THEN i ELSE Members(r[4], strict, Append(acc, IntMember(i[2])), tol \/ i[3], Append(tags, 2))
   ELSE Members(r[4], strict, Append(acc, RawMember(raw)), tol \/ SingleOctetTag(r[2]), Append(tags, r[2]))
MemberOctets(m) == IF m.int THEN Tlv(2, ContentOfInt(MemberInt(m))) ELSE m.b
\* hasOnlyInts(): "False if the sequence is empty or at least one member is not a non-negative integer"
OnlyNonNegativeInts(ms) == Len(ms) > 0 /\ \A i \in 1..Len(ms) : ms[i].int /\ ~ms[i].neg
RECURSIVE InsertSorted(_,_)
InsertSorted(x, srt) == IF Len(srt) = 0 THEN <<x>> ELSE IF LexLt(srt[1], x) THEN <<srt[1]>> \o InsertSorted(x, Tail(srt)) ELSE <<x>> \o srt
RECURSIVE SortOctetStrings(_)
SortOctetStrings(ss) == IF Len(ss) = 0 THEN <<>> ELSE InsertSorted(ss[1], SortOctetStrings(Tail(ss)))

(* ------------------------------------------------------------------ identifier octets *)
Classes == {"DerObject", "DerInteger", "DerBoolean", "DerSequence", "DerOctetString", "DerNull", "DerObjectId", "DerBitString", "DerSetOf"}
UniversalTag(cls) == CASE cls = "DerInteger" -> 2 [] cls = "DerBoolean" -> 1 [] cls = "DerSequence" -> 48
                       [] cls = "DerOctetString" -> 4 [] cls = "DerNull" -> 5 [] cls = "DerObjectId" -> 6
                       [] cls = "DerBitString" -> 3 [] cls = "DerSetOf" -> 49
ConstructedBit(cls) == IF cls \in {"DerSequence", "DerSetOf"} THEN 32 ELSE 0
\* IMPLICIT n replaces the identifier octet by context class | constructed bit | n; EXPLICIT n wraps the element in [n] constructed
OuterTag(d) == IF d.imp >= 0 THEN 128 + ConstructedBit(d.cls) + d.imp ELSE IF d.exp >= 0 THEN 160 + d.exp ELSE UniversalTag(d.cls)
Dec(cls, strict) == [cls |-> cls, strict |-> strict, imp |-> -1, exp |-> -1, nr |-> <<>>, ints |-> FALSE]

\* content octets of the element announced by d:  <<"ok", content, bytes follow the element>>  or an error
\* (the order of the checks is the library's, so that a string with several defects is named after the one met first)
TaggedContent(d, s) ==
   LET r == ReadTlv(s) IN
   IF ~IsOk(r) THEN r
   ELSE IF r[2] # OuterTag(d) THEN Err("unexpected identifier octet")
   ELSE IF d.exp < 0 THEN <<"ok", r[3], Len(r[4]) > 0>>
   ELSE LET q == ReadTlv(r[3]) IN
        IF ~IsOk(q) THEN q
        ELSE IF q[2] # UniversalTag(d.cls) THEN Err("unexpected inner identifier octet")
        ELSE IF Len(q[4]) > 0 THEN Err("trailing bytes") ELSE <<"ok", q[3], Len(r[4]) > 0>>

(* ------------------------------------------------------------------ the decoders *)
ContentDecode(d, p) ==
   CASE d.cls = "DerInteger" -> IntContent(p, d.strict)
     [] d.cls = "DerBoolean" -> IF Len(p) # 1 THEN Err("BOOLEAN content is not one octet")
                                ELSE IF p[1] = 0 THEN <<"ok", [b |-> FALSE], FALSE>>
                                ELSE IF p[1] = 255 THEN <<"ok", [b |-> TRUE], FALSE>>
                                ELSE Err("BOOLEAN content is neither 0x00 nor 0xff")
     [] d.cls = "DerOctetString" -> <<"ok", [payload |-> p], FALSE>>
     [] d.cls = "DerNull" -> <<"ok", [payload |-> p], NullWithContent(p)>>
     [] d.cls = "DerBitString" -> IF Len(p) = 0 THEN <<"ok", [bits |-> <<>>], BitStringNoInitialOctet(p)>>
                                  ELSE IF p[1] # 0 THEN Err("BIT STRING with unused bits")     \* only octet-aligned strings are offered
                                  ELSE <<"ok", [bits |-> Tail(p)], FALSE>>
     [] d.cls = "DerObjectId" -> OidContent(p)
     [] d.cls = "DerSequence" ->
          LET m == Members(p, d.strict, <<>>, FALSE, <<>>) IN
          IF ~IsOk(m) THEN m
          ELSE IF Len(d.nr) > 0 /\ ~(\E i \in 1..Len(d.nr) : d.nr[i] = Len(m[2])) THEN Err("unexpected number of members")
          ELSE IF d.ints /\ ~OnlyNonNegativeInts(m[2]) THEN Err("members are not all non-negative INTEGERs")
          ELSE <<"ok", [m |-> m[2]], m[3]>>
     [] d.cls = "DerSetOf" ->
          LET m == Members(p, d.strict, <<>>, FALSE, <<>>) IN
          IF ~IsOk(m) THEN m
          ELSE IF \E i \in 1..Len(m[4]) : m[4][i] # m[4][1] THEN Err("SET OF members of different types")
          ELSE <<"ok", [m |-> m[2]], m[3] \/ SetOfNotAscending([i \in 1..Len(m[2]) |-> MemberOctets(m[2][i])])>>

Decode(d, s) ==
   IF d.cls = "DerObject"
   THEN LET r == ReadTlv(s) IN
        IF ~IsOk(r) THEN r ELSE IF Len(r[4]) > 0 THEN Err("trailing bytes")
        ELSE <<"ok", [tag |-> r[2], payload |-> r[3]], SingleOctetTag(r[2])>>
   ELSE LET c == TaggedContent(d, s) IN
        IF ~IsOk(c) THEN c
        ELSE LET v == ContentDecode(d, c[2]) IN
             IF ~IsOk(v) THEN v ELSE IF c[3] THEN Err("trailing bytes") ELSE v

(* ------------------------------------------------------------------ the encoders *)
ContentEncode(d, v) ==
   CASE d.cls = "DerInteger" -> ContentOfInt(v)
     [] d.cls = "DerBoolean" -> IF v.b THEN <<255>> ELSE <<0>>
     [] d.cls = "DerOctetString" -> v.payload
     [] d.cls = "DerNull" -> v.payload
     [] d.cls = "DerBitString" -> <<0>> \o v.bits
     [] d.cls = "DerObjectId" -> ContentOfOid(v)
     [] d.cls = "DerSequence" -> Flatten([i \in 1..Len(v.m) |-> MemberOctets(v.m[i])])
     [] d.cls = "DerSetOf" -> Flatten(SortOctetStrings([i \in 1..Len(v.m) |-> MemberOctets(v.m[i])]))
Encode(d, v) ==
   IF d.cls = "DerObject" THEN Tlv(v.tag, v.payload)
   ELSE LET c == ContentEncode(d, v) IN
        IF d.exp >= 0 THEN Tlv(OuterTag(d), Tlv(UniversalTag(d.cls), c)) ELSE Tlv(OuterTag(d), c)
\* two SET OF values are the same when they hold the same members (the encoder orders them)
SameValue(d, v, w) == IF d.cls = "DerSetOf"
                      THEN SortOctetStrings([i \in 1..Len(v.m) |-> MemberOctets(v.m[i])]) = SortOctetStrings([i \in 1..Len(w.m) |-> MemberOctets(w.m[i])])
                      ELSE v = w

(* ------------------------------------------------------------------ known answers
   X.690 8.19.5 ({2 100 3} -> 06 03 81 34 03) and encodings produced at authoring time with OpenSSL 3.5
   (openssl asn1parse -genstr / -genconf), never with the library under test. *)
I(d, s) == Decode(Dec(d, TRUE), s)
ASSUME ReadTlv(<<48, 128>>) = Err("length octet 0x80")
ASSUME ReadTlv(<<4, 129, 127>>) = Err("long-form length below 128")
ASSUME ReadTlv(<<4, 130, 0, 200>>) = Err("length with leading zero octet")
ASSUME ReadTlv(<<4, 2, 1>>) = Err("truncated content")
ASSUME ReadTlv(<<5, 0, 9>>) = <<"ok", 5, <<>>, <<9>>>>
ASSUME LenOctets(200) = <<129, 200>> /\ LenOctets(130) = <<129, 130>> /\ LenOctets(65536) = <<131, 1, 0, 0>>
ASSUME I("DerInteger", <<2, 2, 255, 127>>) = <<"ok", IntOfInt(-129), FALSE>>
ASSUME I("DerInteger", <<2, 3, 1, 0, 1>>) = <<"ok", IntOfInt(65537), FALSE>>
ASSUME I("DerInteger", <<2, 2, 128, 0>>) = <<"ok", IntOfInt(-32768), FALSE>>
ASSUME I("DerInteger", <<2, 2, 0, 255>>) = <<"ok", IntOfInt(255), FALSE>>
ASSUME I("DerInteger", <<2, 2, 255, 0>>) = <<"ok", IntOfInt(-256), FALSE>>
ASSUME I("DerInteger", <<2, 1, 0>>) = <<"ok", Zero, FALSE>>
ASSUME \A n \in {-129, 65537, -32768, 255, -256, 0, 127, 128, -128, -1, 70000, -70000} :
          LET e == Encode(Dec("DerInteger", TRUE), IntOfInt(n)) IN I("DerInteger", e) = <<"ok", IntOfInt(n), FALSE>>
ASSUME Encode(Dec("DerInteger", TRUE), IntOfInt(-70000)) = <<2, 3, 254, 238, 144>>
ASSUME I("DerObjectId", <<6, 3, 129, 52, 3>>) = <<"ok", [arcs |-> <<<<2>>, <<100>>, <<3>>>>], FALSE>>
ASSUME I("DerObjectId", <<6, 3, 136, 55, 3>>) = <<"ok", [arcs |-> <<<<2>>, <<3, 231>>, <<3>>>>], FALSE>>
ASSUME I("DerObjectId", <<6, 9, 42, 134, 72, 134, 247, 13, 1, 1, 1>>)
          = <<"ok", [arcs |-> <<<<1>>, <<2>>, <<3, 72>>, <<1, 187, 141>>, <<1>>, <<1>>, <<1>>>>], FALSE>>
ASSUME I("DerObjectId", <<6, 7, 85, 4, 136, 128, 128, 128, 0>>) = <<"ok", [arcs |-> <<<<2>>, <<5>>, <<4>>, <<128, 0, 0, 0>>>>], FALSE>>
ASSUME Encode(Dec("DerObjectId", TRUE), [arcs |-> <<<<1>>, <<3>>, <<6>>, <<1>>, <<4>>, <<1>>, <<1, 0, 0, 0, 0, 0, 0, 0, 0>>>>])
          = <<6, 15, 43, 6, 1, 4, 1, 130, 128, 128, 128, 128, 128, 128, 128, 128, 0>>
ASSUME Encode(Dec("DerObjectId", TRUE), [arcs |-> <<<<2>>, <<3, 231>>, <<3>>>>]) = <<6, 3, 136, 55, 3>>
ASSUME I("DerBoolean", <<1, 1, 255>>) = <<"ok", [b |-> TRUE], FALSE>> /\ ~IsOk(I("DerBoolean", <<1, 1, 1>>))
ASSUME I("DerNull", <<5, 0>>) = <<"ok", [payload |-> <<>>], FALSE>>
ASSUME I("DerOctetString", <<4, 2, 170, 187>>) = <<"ok", [payload |-> <<170, 187>>], FALSE>>
ASSUME I("DerBitString", <<3, 3, 0, 170, 187>>) = <<"ok", [bits |-> <<170, 187>>], FALSE>>
ASSUME Decode([Dec("DerInteger", TRUE) EXCEPT !.exp = 0], <<160, 3, 2, 1, 5>>) = <<"ok", IntOfInt(5), FALSE>>
ASSUME Decode([Dec("DerInteger", TRUE) EXCEPT !.imp = 3], <<131, 1, 255>>) = <<"ok", IntOfInt(-1), FALSE>>
ASSUME Encode([Dec("DerInteger", TRUE) EXCEPT !.exp = 0], IntOfInt(5)) = <<160, 3, 2, 1, 5>>
\* SEQUENCE { 1, -70000, OCTET STRING { INTEGER 300 }, SEQUENCE { NULL, OID 1.2.3 } }
SeqVec == <<48, 22, 2, 1, 1, 2, 3, 254, 238, 144, 4, 4, 2, 2, 1, 44, 48, 6, 5, 0, 6, 2, 42, 3>>
SeqVal == [m |-> <<IntMember(IntOfInt(1)), IntMember(IntOfInt(-70000)), RawMember(<<4, 4, 2, 2, 1, 44>>), RawMember(<<48, 6, 5, 0, 6, 2, 42, 3>>)>>]
ASSUME I("DerSequence", SeqVec) = <<"ok", SeqVal, FALSE>> /\ Encode(Dec("DerSequence", TRUE), SeqVal) = SeqVec
\* SET OF { 300, 5, -1 } is written 5, -1, 300
SetVal == [m |-> <<IntMember(IntOfInt(300)), IntMember(IntOfInt(5)), IntMember(IntOfInt(-1))>>]
ASSUME Encode(Dec("DerSetOf", TRUE), SetVal) = <<49, 10, 2, 1, 5, 2, 1, 255, 2, 2, 1, 44>>
ASSUME LET r == I("DerSetOf", <<49, 10, 2, 1, 5, 2, 1, 255, 2, 2, 1, 44>>) IN IsOk(r) /\ ~r[3] /\ SameValue(Dec("DerSetOf", TRUE), r[2], SetVal)
ASSUME Len(Encode(Dec("DerOctetString", TRUE), [payload |-> [i \in 1..200 |-> 171]])) = 203
ASSUME SubSeq(Encode(Dec("DerOctetString", TRUE), [payload |-> [i \in 1..200 |-> 171]]), 1, 4) = <<4, 129, 200, 171>>
ASSUME \A s \in {<<48, 128>>, <<2, 129, 1, 5>>, <<2, 1, 5, 0>>, <<2, 2, 5>>, <<2>>, <<>>} : ~WellFramed(s) /\ ~IsOk(Decode(Dec("DerObject", FALSE), s))
=============================================================================
