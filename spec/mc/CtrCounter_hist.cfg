CONSTANTS Base = 4
NB = 2
BL = 2
W = 1
LittleEndian = FALSE
MaxCalls = 4
EmitHist = TRUE
INIT Init
NEXT Next
INVARIANT Emit
CHECK_DEADLOCK FALSE
