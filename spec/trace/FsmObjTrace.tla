------------------------------- MODULE FsmObjTrace -------------------------------
(* Code -> spec for EAX, SIV, OCB and ChaCha20-Poly1305 objects: exception class and projected _next after every call
   against obj/AeadFsm; outputs and tags against the one-shot computation over the accepted data. *)
EXTENDS AeadFsm, Json, IOUtils
Traces == JsonDeserialize(IOEnv.TRACE_FILE)
VARIABLES t, l, o, bad, accA, accIn, accOut
Ok == <<0, "ok">>
ToSet(s) == {s[i] : i \in 1..Len(s)}
InitOf(tr) == FsmInit(tr.family)
TInit == t = 1 /\ l = 1 /\ o = InitOf(Traces[1]) /\ bad = Ok /\ accA = <<>> /\ accIn = <<>> /\ accOut = <<>>
IsTagOp(op) == op \in {"digest", "hexdigest", "encrypt_and_digest"}
IsDataOp(op) == op \in {"encrypt", "decrypt", "encrypt_and_digest", "decrypt_and_verify", "encrypt_final", "decrypt_final"}
StepVerdict(e, o2, tr) ==
   IF e.exc # o2.exc THEN "exception class: model " \o o2.exc \o ", implementation " \o e.exc
   ELSE IF e.proj.has /\ ToSet(e.proj.nxt) # o2.next THEN "_next differs from the documented state"
   ELSE IF e.exc = "none" /\ IsDataOp(e.op) /\ tr.family # "ocb" /\ Len(e.out) # Len(e.data) THEN "output length"
   ELSE IF e.exc = "none" /\ IsTagOp(e.op) /\ tr.oneshot.has /\ e.tag # tr.oneshot.tag THEN "tag differs from the one-shot computation"
   ELSE "ok"
Flat(ss) == IF Len(ss) = 0 THEN <<>> ELSE LET F[i \in 1..Len(ss)] == IF i = 1 THEN ss[1] ELSE F[i - 1] \o ss[i] IN F[Len(ss)]
EndVerdict(tr) == IF ~tr.oneshot.has THEN "ok"
                  ELSE IF accA # tr.oneshot.comps \/ accIn # tr.oneshot.inp THEN "harness: accumulated input differs"
                  ELSE IF Len(accOut) > Len(tr.oneshot.out) \/ accOut # SubSeq(tr.oneshot.out, 1, Len(accOut)) THEN "output differs from the one-shot computation"
                  ELSE IF o.phase \in {"digested", "verified", "encdone", "decdone"} /\ Len(accOut) # Len(tr.oneshot.out)
                          /\ ~\E i \in 1..Len(tr.events) : tr.events[i].op = "decrypt_and_verify" /\ tr.events[i].exc = "ValueError" THEN "output shorter than the one-shot computation"
                  ELSE "ok"
TNext == /\ t <= Len(Traces)
         /\ LET tr == Traces[t] IN
            IF l > Len(tr.events) THEN
               /\ PrintT(<<"VERDICT", tr.tid, IF bad = Ok /\ EndVerdict(tr) # "ok" THEN l ELSE bad[1],
                                              IF bad = Ok THEN EndVerdict(tr) ELSE bad[2]>>)
               /\ t' = t + 1 /\ l' = 1 /\ bad' = Ok /\ accA' = <<>> /\ accIn' = <<>> /\ accOut' = <<>>
               /\ o' = IF t + 1 <= Len(Traces) THEN InitOf(Traces[t + 1]) ELSE o
            ELSE LET e == tr.events[l]
                     \* free: the recorder could not tell whether the offered tag is genuine (SIV verify after a failed
                     \* decrypt_and_verify); the model then takes the observed verdict as the value of `good`
                     e2 == IF "free" \in DOMAIN e THEN [e EXCEPT !.good = (e.exc = "none")] ELSE e
                     o2 == FsmStep(o, e2)
                     v == StepVerdict(e, o2, tr)
                     okc == e.exc = "none"
                 IN /\ o' = o2 /\ l' = l + 1 /\ t' = t
                    /\ bad' = IF bad = Ok /\ v # "ok" THEN <<l, v>> ELSE bad
                    /\ accA' = IF okc /\ e.op = "update" THEN Append(accA, e.data) ELSE accA
                    /\ accIn' = IF (okc /\ IsDataOp(e.op)) \/ (e.op = "decrypt_and_verify" /\ e.exc = "ValueError") THEN accIn \o e.data ELSE accIn
                    /\ accOut' = IF okc /\ IsDataOp(e.op) THEN accOut \o e.out ELSE accOut
=============================================================================
