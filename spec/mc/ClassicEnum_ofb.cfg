CONSTANTS Mode = "ofb"
BS = 16
MaxDepth = 3
SegLens = {0, 1, 15, 16, 17, 32, 48}
EmitHist = TRUE
INIT Init
NEXT Next
INVARIANT Emit
CHECK_DEADLOCK FALSE
