"""Check context: accumulates coverage, violations and evidence for one property run."""
import hashlib
import json
import os
import re
import subprocess
import sys
import time

from . import build, tlc

VERIF = os.path.dirname(os.path.dirname(os.path.abspath(__file__)))
# (VERIF_EVIDENCE_DIR / VERIF_REPLAY_DIR redirect the outputs of runs against changed trees, e.g. seeded/evaluate.py, so that the
#  committed evidence is only ever written by runs against /repo itself)
EVID = os.environ.get("VERIF_EVIDENCE_DIR", os.path.join(VERIF, "evidence"))
REPLAYS = os.environ.get("VERIF_REPLAY_DIR", os.path.join(VERIF, "replays"))
FINDINGS = os.path.join(VERIF, "known_findings.json")


class Machinery(Exception):
    """exit code 2: the machinery failed; no statement about the property is made."""


class DriverCrash(Machinery):
    """a recorder process was killed by a fatal signal raised in native code"""

    def __init__(self, driver, sig, stderr):
        Machinery.__init__(self, "driver %s died with signal %d:\n%s" % (driver, sig, stderr))
        self.driver, self.sig, self.stderr = driver, sig, stderr



def b2l(b):
    """bytes -> list of ints (trace format)."""
    return list(bytes(b))


def limbs(n, base_bits=12):
    """non-negative int -> little-endian base-2^base_bits limbs (TLC integers are 32-bit)."""
    assert n >= 0
    out = []
    mask = (1 << base_bits) - 1
    while n:
        out.append(n & mask)
        n >>= base_bits
    return out


class Ctx:
    def __init__(self, pid, tier, seed, level):
        self.pid = pid
        self.tier = tier
        self.seed = seed
        self.level = level
        self.t0 = time.time()
        self.states = 0
        self.transitions = 0
        self.traces_validated = 0
        self.evaluations = 0
        self.nontrivial = set()
        self.samples = []
        self.configs = []
        self.violations = []       # (key, detail, replay_obj)
        self.notes = []
        self.assumptions = []
        self.rule = ""
        self.exhaustive = None
        self.extra = {}
        self._lib = None
        self.binding_checks = []   # (family, rejected_corrupted: bool)

    # ------------------------------------------------------------------ build / drivers
    @property
    def lib(self):
        if self._lib is None:
            self._lib = build.ensure_build()
        return self._lib

    def drive(self, driver, args=(), inp=None, timeout=1800, extra_env=None):
        """Run harness/drivers/<driver>.py against the build of the current tree; returns parsed JSON from stdout."""
        cmd = [build.PY, os.path.join(VERIF, "harness", "drivers", driver + ".py")] + [str(a) for a in args]
        env = build.driver_env(self.lib, extra_env)
        if os.environ.get("VERIF_COVERAGE"):
            # development aid (harness/coverage_report.py): which lines of the library do the recorders reach at all
            cov = os.environ["VERIF_COVERAGE"]
            os.makedirs(cov, exist_ok=True)
            env["COVERAGE_CORE"] = "sysmon"
            rc = os.path.join(cov, "coveragerc")
            if not os.path.exists(rc):
                with open(rc, "w") as f:
                    f.write("[run]\nparallel = true\n")
            cmd = [build.PY, "-m", "coverage", "run", "--rcfile=" + rc, "-p", "--data-file=" + os.path.join(cov, "cov." + self.pid.lower()),
                   "--include=" + os.path.join(self.lib, "Crypto", "*")] + cmd[1:]
            timeout *= 4
        env["VERIF_SEED"] = str(self.seed)
        env["VERIF_TIER"] = self.tier
        p = subprocess.run(cmd, input=json.dumps(inp) if inp is not None else None, stdout=subprocess.PIPE,
                           stderr=subprocess.PIPE, text=True, timeout=timeout, env=env, cwd=VERIF)
        if p.returncode in (-4, -6, -7, -8, -11):
            # SIGILL / SIGABRT / SIGBUS / SIGFPE / SIGSEGV: the drivers are plain Python around the library, so the process died inside the
            # library's native code (PYTHONFAULTHANDLER puts the Python stack of the fatal call on stderr)
            raise DriverCrash(driver, -p.returncode, p.stderr[-3000:])
        if p.returncode != 0:
            raise Machinery("driver %s failed (rc=%d):\n%s" % (driver, p.returncode, p.stderr[-4000:]))
        try:
            return json.loads(p.stdout)
        except ValueError:
            raise Machinery("driver %s printed no JSON:\n%s\n%s" % (driver, p.stdout[-1000:], p.stderr[-2000:]))

    # ------------------------------------------------------------------ model checking
    def mc(self, module, cfg=None, must_hold=True, workers=16, timeout=900, label=None, **kw):
        """Exhaustive (or simulated) TLC run of a model; its own invariants must hold (else: machinery failure, since
        a model that violates its own property says nothing about the code -- unless the caller wants the verdict)."""
        r = tlc.run(module, cfg=cfg, workers=workers, timeout=timeout, **kw)
        self.states += r.distinct
        self.transitions += r.generated
        self.configs.append({"module": module, "cfg": cfg if cfg else module + ".cfg", "distinct_states": r.distinct,
                             "states_generated": r.generated, "wall_s": round(r.wall, 1),
                             "result": "ok" if r.ok else ("violated:" + ",".join(r.violated) if r.violated else "error")})
        if must_hold and not r.ok:
            raise Machinery("model %s/%s does not satisfy its own properties:\n%s" % (module, cfg, r.out[-3000:]))
        return r

    # ------------------------------------------------------------------ trace validation
    def validate(self, module, traces, shards=16, timeout=1200, family=None, cfg_text=None, weight=None):
        verdicts, st = tlc.validate_traces(module, traces, shards=shards, timeout=timeout, cfg_text=cfg_text, weight=weight)
        self.states += st["distinct"]
        self.transitions += st["generated"]
        self.traces_validated += len(verdicts)
        self.configs.append({"module": module, "traces": len(traces), "distinct_states": st["distinct"],
                             "states_generated": st["generated"], "wall_s": round(st["wall"], 1), "kind": "trace-validation",
                             "family": family})
        return verdicts

    def binding_selfcheck(self, module, good_trace, corrupt, family):
        """§4.4: the corrupted copy of an accepted trace must be rejected, the original accepted."""
        import copy
        bad = corrupt(copy.deepcopy(good_trace))
        good = copy.deepcopy(good_trace)
        good["tid"] = 1
        bad["tid"] = 2
        v, st = tlc.validate_traces(module, [good, bad], shards=1)
        ok = v[1][1] == "ok" and v[2][1] != "ok"
        self.binding_checks.append({"family": family, "original": v[1][1], "corrupted": v[2][1], "ok": ok})
        if not ok:
            raise Machinery("binding self-check failed for %s: original=%r corrupted=%r" % (family, v[1], v[2]))

    def pick(self, items, pred, what):
        """an accepted trace to corrupt in a binding self-check; None (skip the self-check) only when violations were found"""
        for x in items:
            if pred(x):
                return x
        if self.violations:
            self.notes.append("binding self-check '%s' skipped: no accepted trace of that shape in a run with violations" % what)
            return None
        raise Machinery("no trace available for the binding self-check '%s'" % what)

    # ------------------------------------------------------------------ bookkeeping
    def count(self, n=1):
        self.evaluations += n

    def nontriv(self, obj):
        self.nontrivial.add(hashlib.sha1(json.dumps(obj, sort_keys=True, default=str).encode()).digest()[:10])

    def sample(self, obj, cap=8):
        if len(self.samples) < cap:
            self.samples.append(obj)

    def violation(self, key, detail, replay=None):
        self.violations.append((key, detail, replay))

    def assume(self, text):
        if text not in self.assumptions:
            self.assumptions.append(text)

    # ------------------------------------------------------------------ finish
    def finish(self):
        with open(FINDINGS) as f:
            kf = json.load(f)
        known = [e for e in kf["entries"] if e["property"] == self.pid and e["status"] == "finding"]
        new = []
        seen_known = {}
        for key, detail, replay in self.violations:
            hit = None
            for e in known:
                if re.fullmatch(e["key"], key):
                    hit = e
                    break
            if hit is not None:
                seen_known.setdefault(hit["id"], (hit, 0))
                seen_known[hit["id"]] = (hit, seen_known[hit["id"]][1] + 1)
            else:
                new.append((key, detail, replay))
        for fid, (e, n) in sorted(seen_known.items()):
            print("KNOWN-FINDING: property=%s %s (%s; %d failing cases in this run)" % (self.pid, e["what"], fid, n))
        rc = 0
        reported = set()
        for key, detail, replay in new:
            if key in reported:
                continue
            reported.add(key)
            os.makedirs(REPLAYS, exist_ok=True)
            h = hashlib.sha1((key + json.dumps(detail, sort_keys=True, default=str)).encode()).hexdigest()[:12]
            path = os.path.join(REPLAYS, "%s-%s.json" % (self.pid, h))
            with open(path, "w") as f:
                json.dump({"property": self.pid, "key": key, "detail": detail, "replay": replay, "seed": self.seed,
                           "tier": self.tier}, f, indent=1, default=str)
            print("VIOLATION property=%s replay=%s" % (self.pid, path))
            print("  clause: %s" % key)
            print("  detail: %s" % json.dumps(detail, default=str)[:600])
            rc = 1
        self.write_evidence(len(new))
        return rc

    def write_evidence(self, nviol):
        cov = {
            "evaluations": self.evaluations,
            "distinct_nontrivial": len(self.nontrivial),
            "rule": self.rule,
            "samples": self.samples[:8],
            "configs": self.configs,
            "binding_selfchecks": self.binding_checks,
        }
        if self.level == "model_checking":
            cov["states"] = self.states
            cov["transitions"] = self.transitions
            cov["traces_validated_against_impl"] = self.traces_validated
        if self.exhaustive is not None:
            cov["exhaustive"] = self.exhaustive
        if self.notes:
            cov["notes"] = self.notes
        cov.update(self.extra)
        ev = {
            "property_id": self.pid, "tier": self.tier, "seed": self.seed, "level": self.level,
            "coverage": cov, "assumptions": self.assumptions, "wall_s": round(time.time() - self.t0, 1),
            "violations": nviol,
        }
        os.makedirs(EVID, exist_ok=True)
        tmp = os.path.join(EVID, self.pid + ".json.tmp")
        with open(tmp, "w") as f:
            json.dump(ev, f, indent=1, default=str)
        os.replace(tmp, os.path.join(EVID, self.pid + ".json"))
