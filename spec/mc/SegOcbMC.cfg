CONSTANTS BS = 4
MaxTotal = 13
SPECIFICATION Spec
INVARIANT InvCacheBound
INVARIANT InvPrefixA
INVARIANT InvPrefixP
INVARIANT InvOutput
INVARIANT InvRefines
PROPERTY PieceAtPosition
CHECK_DEADLOCK FALSE
