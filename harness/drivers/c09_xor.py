"""C09 (growth) recorder: Crypto.Util.strxor.strxor / strxor_c over input container kinds, output modes (returned, bytearray, memoryview,
an input itself, read-only, too short, too long) and lengths around the word sizes a native loop might use.  The output buffer is a
window of a larger buffer whose margins (`guard`) are recorded before and after.  Computes no verdicts."""
import json
import os
import sys

sys.path.insert(0, os.path.dirname(os.path.abspath(__file__)))
from _util import TIER, exc_class, rb, rng  # noqa: E402

from Crypto.Util.strxor import strxor, strxor_c  # noqa: E402

KINDS = ("bytes", "bytearray", "memoryview", "memoryview_ro", "memoryview_off")
OUTS = ("none", "bytearray", "memoryview", "alias_a", "alias_b", "readonly", "short", "long")
G = 8


def container(kind, data):
    """(object handed to the library, function returning its current content)"""
    if kind == "bytes":
        o = bytes(data)
        return o, lambda: bytes(o)
    if kind == "bytearray":
        o = bytearray(data)
        return o, lambda: bytes(o)
    if kind == "memoryview":
        o = memoryview(bytearray(data))
        return o, lambda: bytes(o)
    if kind == "memoryview_ro":
        o = memoryview(bytes(data))
        return o, lambda: bytes(o)
    base = bytearray(b"\xa5" * 3 + bytes(data) + b"\x5a" * 2)      # unaligned window
    o = memoryview(base)[3:3 + len(data)]
    return o, lambda: bytes(o)


def one(fn, a, b, c, ka, kb, out):
    e = dict(fn=fn, a=list(a), b=list(b), c=c, ka=ka, kb=kb, out=out, outlen=0, exc="none", ret="none", res=[], a2=[], b2=[], guard=[], guard0=[])
    if out in ("alias_a", "alias_b") and (ka if out == "alias_a" else kb) in ("bytes", "memoryview_ro"):
        ka, kb = ("bytearray", kb) if out == "alias_a" else (ka, "bytearray")
        e["ka"], e["kb"] = ka, kb
    A, geta = container(ka, a)
    B, getb = container(kb, b)
    n = len(a)
    big = None
    if out == "none":
        O = None
    elif out == "alias_a":
        O = A
    elif out == "alias_b":
        O = B
    elif out == "readonly":
        O = bytes(n)
    else:
        olen = {"bytearray": n, "memoryview": n, "short": max(0, n - 1), "long": n + 1}[out]
        if out == "short" and n == 0:
            olen = 1
            e["out"] = "long"
        big = bytearray(b"\xc3" * (G + olen + G))
        O = memoryview(big)[G:G + olen]
        if out == "bytearray":
            # a bytearray cannot be a window: its margins are those of a twin call below
            O = bytearray(b"\x00" * olen)
            big = None
    e["outlen"] = len(O) if O is not None else 0
    if big is not None:
        e["guard0"] = list(big[:G] + big[-G:])
    try:
        r = strxor(A, B, output=O) if fn == "strxor" and O is not None else strxor(A, B) if fn == "strxor" else \
            strxor_c(A, c, output=O) if O is not None else strxor_c(A, c)
        e["ret"] = "none" if r is None else type(r).__name__
        if r is not None:
            e["res"] = list(bytes(r)) if isinstance(r, (bytes, bytearray, memoryview)) else []
        elif O is not None:
            e["res"] = list(bytes(O))
    except Exception as ex:
        e["exc"] = exc_class(ex)
    e["a2"], e["b2"] = list(geta()), list(getb())
    if big is not None:
        e["guard"] = list(big[:G] + big[-G:])
    return e


def main():
    job = json.load(sys.stdin)
    r = rng("c09/xor")
    quick = TIER == "quick"
    lens = [0, 1, 2, 3, 4, 7, 8, 9, 15, 16, 17, 31, 32, 33, 63, 64, 65, 255, 256, 257] + ([] if quick else [127, 128, 129, 1023, 1024, 1025, 4096, 65537])
    events = []
    for n in lens:
        for out in OUTS:
            for fn in ("strxor", "strxor_c"):
                combos = [(ka, kb) for ka in KINDS for kb in KINDS] if (not quick or n in (0, 1, 16, 33)) else [(r.choice(KINDS), r.choice(KINDS)) for _ in range(3)]
                if fn == "strxor_c":
                    combos = sorted({(ka, "bytes") for ka, _ in combos})
                for ka, kb in combos:
                    if out == "alias_b" and fn == "strxor_c":
                        continue
                    a, b = rb(r, n), rb(r, n)
                    if r.randrange(4) == 0:
                        b = a                                              # equal terms: the result is all zeros
                    c = r.choice([0, 1, 0x80, 0xFF, r.randrange(256)])
                    events.append(one(fn, a, b if fn == "strxor" else b"", c, ka, kb, out))
    # outside the contract: terms of different length (also with outputs fitting either), c outside 0..255
    for n, m in [(0, 1), (1, 0), (15, 16), (16, 15), (16, 17), (33, 32), (8, 64)]:
        for out in ("none", "bytearray", "memoryview"):
            for ka, kb in [("bytes", "bytes"), ("bytearray", "memoryview")]:
                events.append(one("strxor", rb(r, n), rb(r, m), 0, ka, kb, out))
    for c in (-1, 256, 257, -256, 1 << 31, 1 << 64, -(1 << 63)):
        for out in ("none", "memoryview"):
            events.append(one("strxor_c", rb(r, 16), b"", c, "bytes", "bytes", out))
    for e in events:
        if not (-(1 << 31) < e["c"] < (1 << 31)):
            e["c"] = 1 << 30 if e["c"] > 0 else -(1 << 30)               # TLC integers are 32-bit; any value outside 0..255 is the same case
    per = job.get("per_trace", 40)
    traces = [dict(tid=job.get("tid0", 0) + i // per + 1, family="strxor", events=events[i:i + per]) for i in range(0, len(events), per)]
    json.dump({"traces": traces}, sys.stdout)


if __name__ == "__main__":
    main()
