----------------------------- MODULE HpkeChannel -----------------------------
(* System layer for C15: a sender and a receiver HPKE context (lib/Crypto/Protocol/HPKE.py) with an adversary on the channel,
   functional style.  Ideal AEAD: a sealed message is [seq, id, aadv]; it opens iff it is unmodified, the receiver's set-up
   matches the sender's and the receiver's sequence number is the one it was sealed under (RFC 9180 section 5.2:
   the sequence number advances only after a successful open; the context refuses to seal/open at seq = MaxSeq).
   IncrementBeforeResult = TRUE is the code as pinned at 819d462b (defect F5), kept to show that the model separates it. *)
EXTENDS Integers, Sequences, FiniteSets, TLC
CONSTANTS MaxSeq, IncrementBeforeResult
HInit(matching) == [sseq |-> 0, sent |-> <<>>, rseq |-> 0, out |-> <<>>, matching |-> matching, exc |-> "none", fresh |-> TRUE]
Muts == {"none", "flip", "trunc", "short", "otheraad", "extend"}
HSeal(s) == IF s.sseq >= MaxSeq THEN [s EXCEPT !.exc = "ValueError", !.fresh = FALSE]        \* MessageLimitReachedError
            ELSE [s EXCEPT !.sent = Append(@, [seq |-> s.sseq, id |-> Len(s.sent) + 1]), !.sseq = @ + 1, !.exc = "none", !.fresh = FALSE]
Opens(s, i, mut) == s.matching /\ mut = "none" /\ i \in 1..Len(s.sent) /\ s.sent[i].seq = s.rseq
HUnseal(s, i, mut) ==
   IF mut = "short" THEN [s EXCEPT !.exc = "ValueError", !.fresh = FALSE]                     \* shorter than a tag: refused before anything
   ELSE IF s.rseq >= MaxSeq THEN [s EXCEPT !.exc = "ValueError", !.fresh = FALSE]             \* MessageLimitReachedError
   ELSE IF Opens(s, i, mut) THEN [s EXCEPT !.out = Append(@, s.sent[i].id), !.rseq = @ + 1, !.exc = "none", !.fresh = FALSE]
   ELSE [s EXCEPT !.exc = "ValueError", !.rseq = IF IncrementBeforeResult THEN @ + 1 ELSE @, !.fresh = FALSE]
\* test harness action: put both sequence numbers near the limit (only on fresh contexts)
HPreset(s, v) == IF s.fresh THEN [s EXCEPT !.sseq = v, !.rseq = v, !.exc = "none"] ELSE [s EXCEPT !.exc = "none"]
\* a call in the wrong role - unseal() on the sender's context, seal() on the receiver's - is refused and changes nothing ("This cipher can only
\* be used to seal / unseal"): if it went through, the two directions would draw from the same nonce sequence under the same key
HWrongRole(s) == [s EXCEPT !.exc = "ValueError", !.fresh = FALSE]
HStep(s, e) == CASE e.op = "seal" -> HSeal(s)
                 [] e.op = "wrongrole" -> HWrongRole(s)
                 [] e.op = "unseal" -> HUnseal(s, e.src, e.mut)
                 [] e.op = "preset" -> HPreset(s, e.v)
=============================================================================
