CONSTANTS Kind = "cfb"
BL = 6
NB = 1
SEG = 3
MaxTotal = 19
SPECIFICATION Spec
INVARIANT InvOutput
INVARIANT InvUsedBound
INVARIANT InvRegs
INVARIANT InvPos
CHECK_DEADLOCK FALSE
