------------------------------- MODULE HashFsm -------------------------------
(* Life cycle of hash, XOF and MAC objects (package Crypto.Hash): a pool of objects so that copy() is a first-class
   action.  Each object is [data, fin, squeezed]: data = the sequence of accepted update() calls as symbolic tokens,
   fin = digest()/read()/verify() has been called, squeezed = bytes of XOF output already returned.
   A kind is a record with fields final, uad, hasVerify, hasCopy, where final is digest or read and uad means that
   update() is still allowed after the first digest() (always for the Merkle-Damgaard hashes and HMAC, on request
   for SHA-3, Keccak, BLAKE2 and CMAC). *)
EXTENDS Integers, Sequences, FiniteSets, TLC
\* loose: the object is a clone taken from a finalized object.  The documentation does not say whether such a clone may
\* still absorb (the code creates a fresh handle around a copy of the native state, so SHA-3 clones accept update() and
\* SHAKE clones refuse it from native code with ValueError).  Named deviation CloneOfFinalized: for a loose object the
\* observed outcome `obs` of update() decides, and both continuations are then checked against the one-shot value.
HNew == [data |-> <<>>, fin |-> FALSE, squeezed |-> 0, loose |-> FALSE]
HInit == [objs |-> <<HNew>>, exc |-> "none"]
HTypeErr(s) == [s EXCEPT !.exc = "TypeError"]
HUpdate(kind, s, i, tok, obs) ==
   IF s.objs[i].fin /\ ~kind.uad THEN
        IF s.objs[i].loose /\ obs = "none" /\ kind.final = "digest"
        THEN [s EXCEPT !.objs[i].data = Append(@, tok), !.objs[i].fin = FALSE, !.objs[i].loose = FALSE, !.exc = "none"]   \* CloneOfFinalized
        ELSE IF s.objs[i].loose /\ obs = "ValueError" THEN [s EXCEPT !.exc = "ValueError"]                                 \* CloneOfFinalized
        ELSE HTypeErr(s)
   ELSE [s EXCEPT !.objs[i].data = Append(@, tok), !.exc = "none"]
HDigest(kind, s, i) == [s EXCEPT !.objs[i].fin = TRUE, !.exc = "none"]
HVerify(kind, s, i, good) == [s EXCEPT !.objs[i].fin = TRUE, !.exc = IF good THEN "none" ELSE "ValueError"]
HRead(kind, s, i, n) == [s EXCEPT !.objs[i].fin = TRUE, !.objs[i].squeezed = @ + n, !.exc = "none"]
HCopy(kind, s, i) == [s EXCEPT !.objs = Append(@, [s.objs[i] EXCEPT !.loose = s.objs[i].fin]), !.exc = "none"]
HStep(kind, s, e, tok, obs) ==
   CASE e.op = "update" -> HUpdate(kind, s, e.obj, tok, obs)
     [] e.op \in {"digest", "hexdigest"} -> HDigest(kind, s, e.obj)
     [] e.op \in {"verify", "hexverify"} -> HVerify(kind, s, e.obj, e.good)
     [] e.op = "read" -> HRead(kind, s, e.obj, e.n)
     [] e.op = "copy" -> HCopy(kind, s, e.obj)
=============================================================================
