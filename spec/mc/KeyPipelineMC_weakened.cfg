CONSTANTS EmitCases = FALSE
MaxCorr = 1
Weakened = TRUE
INIT Init
NEXT Next
INVARIANT Sound
CHECK_DEADLOCK FALSE
