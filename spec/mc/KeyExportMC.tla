------------------------------- MODULE KeyExportMC -------------------------------
(* Model-checking wrapper of sys/KeyExport.  Two configurations:
     KeyExportMC_opts.cfg   every option combination is an initial state; the consistency invariants of the legality matrix
                            are evaluated in each, and each combination is printed (OPT) for replay on the real keys
     KeyExportMC_eq.cfg     every ordered pair of the small-scope key pool is an initial state; KeyEq is checked to be an
                            equivalence that separates exactly the keys differing in an attribute; each pair is printed (PAIR) *)
EXTENDS KeyExport, Json
CONSTANT Mode            \* "opts" | "eq"
VARIABLES st
NoOpt == [type |-> "none"]
Init == IF Mode = "opts" THEN st \in [kind : {"opt"}, o : Options]
        ELSE st \in [kind : {"pair"}, a : PoolIds, b : PoolIds]
Next == UNCHANGED st
\* ---- option matrix
IsOpt == st.kind = "opt"
InvLegalTotal == IsOpt => LegalIsTotal(st.o)
InvContainer == IsOpt => ContainerWellFormed(st.o)
InvPassphrase == IsOpt => PassphraseMeansEncrypted(st.o)
InvRoundTrip == IsOpt => RoundTripPossible(st.o)
InvIgnored == IsOpt => IgnoredArgumentsAreIgnored(st.o)
\* an unspecified region never swallows a combination the documentation spells out as refused for an unknown format
InvUnknownFormatRefused == IsOpt /\ st.o.format = "bogus" => Legal(st.o) = "ValueError"
EmitOpt == IsOpt => PrintT(<<"OPT", ToJson([o |-> st.o, legal |-> Legal(st.o), why |-> UnspecifiedName(st.o),
                                              box |-> IF Legal(st.o) = "bytes" THEN Container(st.o) ELSE [armor |-> "", inner |-> "", label |-> ""]])>>)
\* ---- equality table
IsPair == st.kind = "pair"
A == AbstractKey(st.a)
B == AbstractKey(st.b)
InvEqReflexive == IsPair => KeyEq(A, A)
InvEqSymmetric == IsPair => (KeyEq(A, B) <=> KeyEq(B, A))
InvEqTransitive == IsPair => \A k \in PoolIds : KeyEq(A, B) /\ KeyEq(B, AbstractKey(k)) => KeyEq(A, AbstractKey(k))
\* equal exactly when nothing differs; a copy equals its original; a variant differs from its base in exactly the varied attribute
InvEqIsNoDifference == IsPair => (KeyEq(A, B) <=> DiffSet(A, B) = {})
InvVariantsDifferInOne == IsPair /\ st.a.type = st.b.type /\ st.a.var = "base" =>
    CASE st.b.var \in {"base", "copy"} -> DiffSet(A, B) = {}
      [] st.b.var \in {"public", "publiccopy"} -> DiffSet(A, B) = {"privacy"}
      [] st.b.var = "comp" -> DiffSet(A, B) = {st.b.comp}
      [] st.b.var = "pubcomp" -> DiffSet(A, B) = {"privacy", st.b.comp}
InvCrossTypeNeverEqual == IsPair /\ st.a.type # st.b.type => ~KeyEq(A, B) /\ EqExpected(A, B) = "NotTrue"
EmitPair == IsPair => PrintT(<<"PAIR", ToJson([a |-> st.a, b |-> st.b, expect |-> EqExpected(A, B), diff |-> DiffSet(A, B)])>>)
\* ---- vacuity: every documented container is produced, every unspecified region is inhabited, all three outcomes occur
ASSUME Mode = "opts" => \A t \in Types : DocumentedContainers(t) \subseteq Produced(t)
ASSUME Mode = "opts" => \A w \in {"EmptyPassphrase", "PrivateOnlyOptionOnPublicKey", "OpenSshOfPrivateKey", "PublicFormatOfPrivateKey", "ProtectionWithoutPkcs8",
                          "ProtParamsWithoutProtection", "ProtectionWithoutPassphrase", "NoOpenSshKeyType"} : \E o \in Options : UnspecifiedName(o) = w
ASSUME Mode = "opts" => \A t \in Types : \A r \in {"bytes", "ValueError", "unspecified"} : \E o \in Options : o.type = t /\ Legal(o) = r
=============================================================================
