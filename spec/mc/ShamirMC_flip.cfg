\* separation: shares combined with the other variant (native <-> ssss) must NOT reconstruct the secret
CONSTANTS FieldM = 3
MaxN = 3
MaxK = 3
FlipVariant = TRUE
INIT Init
NEXT Next
CHECK_DEADLOCK FALSE
INVARIANTS Reconstructs
