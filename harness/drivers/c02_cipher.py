"""C02 recorder: drives every cipher x mode of the real library on generated (key, iv/nonce/counter parameters, message) points and
records what comes back: ciphertext, tag, the iv/nonce attribute the object exposes (also when the library chose it), the ciphertext of
a second object that is handed the exposed attribute explicitly, and the result of decrypting with a fresh object built from the exposed
attribute.  No expected value is computed here; TLC judges every record (spec/trace/CipherValueTrace.tla).

argv: <families, comma separated or "all"> <scale>      stdout: JSON list of records (grouped by key)"""
import inspect
import json
import os
import random
import sys

sys.path.insert(0, os.path.dirname(os.path.abspath(__file__)))
from _util import exc_class  # noqa: E402

import Crypto.Cipher as _cc  # noqa: E402
from Crypto.Cipher import AES, ARC2, ARC4, CAST, DES, DES3, Blowfish, ChaCha20, ChaCha20_Poly1305, Salsa20  # noqa: E402
from Crypto.Util import Counter  # noqa: E402

SEED = int(os.environ.get("VERIF_SEED", "0"))
TIER = os.environ.get("VERIF_TIER", "quick")
QUICK = TIER != "thorough"
MODS = {"aes": AES, "des": DES, "des3": DES3, "blowfish": Blowfish, "cast": CAST, "arc2": ARC2}
BS = {"aes": 16, "des": 8, "des3": 8, "blowfish": 8, "cast": 8, "arc2": 8}
BLOCK_MODES = ["ecb", "cbc", "cfb", "ofb", "ctr", "openpgp", "eax"]
AES_ONLY = ["gcm", "ccm", "ocb", "siv", "kw", "kwp"]


def rb(r, n):
    return bytes(r.getrandbits(8) for _ in range(n))


# ----------------------------------------------------------------------------------------------- determinism
# The library draws its own IVs/nonces from Crypto.Random.get_random_bytes.  The recorder replaces that name inside the mode
# modules by a generator seeded from VERIF_SEED so that a run is reproducible; the code path that chooses, uses and exposes
# the value is the library's own.
_lib_rng = random.Random("%d/library-entropy" % SEED)


def _seeded_random_bytes(n):
    return bytes(_lib_rng.getrandbits(8) for _ in range(n))


def patch_entropy():
    import importlib
    n = 0
    for name in ("_mode_cbc", "_mode_cfb", "_mode_ofb", "_mode_ctr", "_mode_openpgp", "_mode_eax", "_mode_gcm", "_mode_ccm",
                 "_mode_ocb", "_mode_siv", "ChaCha20", "ChaCha20_Poly1305", "Salsa20"):
        m = importlib.import_module("Crypto.Cipher." + name)
        if hasattr(m, "get_random_bytes"):
            m.get_random_bytes = _seeded_random_bytes
            n += 1
    return n


# ----------------------------------------------------------------------------------------------- object construction
def new_obj(case, iv):
    """a fresh object of the case's cipher and mode; iv = the iv/nonce/counter prefix to pass, None = let the library choose"""
    ci, mode, key = case["cipher"], case["mode"], case["key"]
    if ci == "chacha20":
        if mode == "poly1305":
            return ChaCha20_Poly1305.new(key=key) if iv is None else ChaCha20_Poly1305.new(key=key, nonce=iv)
        o = ChaCha20.new(key=key) if iv is None else ChaCha20.new(key=key, nonce=iv)
        if case["seek"] >= 0:
            o.seek(case["seek"])
        return o
    if ci == "salsa20":
        return Salsa20.new(key=key) if iv is None else Salsa20.new(key=key, nonce=iv)
    if ci == "arc4":
        if case["drop_api"] == "kw":
            return ARC4.new(key, drop=case["drop"])
        if case["drop_api"] == "pos":
            return ARC4.new(key, case["drop"])
        return ARC4.new(key)
    mod = MODS[ci]
    kw = {}
    if ci == "arc2" and case["ekb_api"]:
        kw["effective_keylen"] = case["ekb"]
    ivname = case.get("ivname", "iv")
    if mode == "ecb":
        return mod.new(key, mod.MODE_ECB, **kw)
    if mode in ("cbc", "ofb", "openpgp"):
        if iv is not None:
            kw[ivname] = iv
        return mod.new(key, {"cbc": mod.MODE_CBC, "ofb": mod.MODE_OFB, "openpgp": mod.MODE_OPENPGP}[mode], **kw)
    if mode == "cfb":
        if iv is not None:
            kw[ivname] = iv
        if case["seg_api"]:
            kw["segment_size"] = case["seg"] * 8
        return mod.new(key, mod.MODE_CFB, **kw)
    if mode == "ctr":
        api = case["ctr_api"]
        init = int.from_bytes(case["ctr_init"], "big")
        if api == "counter":
            prefix = case["ctr_prefix"] if iv is None else iv
            ckw = dict(prefix=prefix, suffix=case["ctr_suffix"], little_endian=case["ctr_le"])
            if not case["ctr_default_init"]:
                ckw["initial_value"] = init
            return mod.new(key, mod.MODE_CTR, counter=Counter.new(8 * len(case["ctr_init"]), **ckw), **kw)
        if iv is not None:
            kw["nonce"] = iv
        if api == "nonce_int":
            kw["initial_value"] = init
        elif api == "nonce_bytes":
            kw["initial_value"] = case["ctr_init"]
        return mod.new(key, mod.MODE_CTR, **kw)          # api == "nonce_default": initial_value omitted (0)
    if mode in ("eax", "gcm", "ocb"):
        if iv is not None:
            kw["nonce"] = iv
        if case["maclen_api"]:
            kw["mac_len"] = case["maclen"]
        return mod.new(key, {"eax": mod.MODE_EAX, "gcm": getattr(mod, "MODE_GCM", None), "ocb": getattr(mod, "MODE_OCB", None)}[mode], **kw)
    if mode == "ccm":
        if iv is not None:
            kw["nonce"] = iv
        if case["maclen_api"]:
            kw["mac_len"] = case["maclen"]
        if case["declare"]:
            kw["msg_len"] = len(case["msg"])
            kw["assoc_len"] = sum(len(a) for a in case["aads"])
        return mod.new(key, mod.MODE_CCM, **kw)
    if mode == "siv":
        if iv is not None:
            kw["nonce"] = iv
        return mod.new(key, mod.MODE_SIV, **kw)
    if mode == "kw":
        return mod.new(key, mod.MODE_KW)
    if mode == "kwp":
        return mod.new(key, mod.MODE_KWP)
    raise ValueError(mode)


AEAD = ("eax", "gcm", "ccm", "ocb", "siv", "poly1305")


def exposed(o, case):
    """(has attribute, value) of the iv/nonce attribute a peer would read"""
    mode = case["mode"]
    if mode in ("cbc", "cfb", "ofb", "openpgp"):
        name = case.get("attr", "iv")
    elif mode in ("ecb", "kw", "kwp") or case["cipher"] == "arc4":
        return False, b""
    else:
        name = "nonce"
    if not hasattr(o, name):
        return False, b""
    return True, bytes(getattr(o, name))


def encrypt_with(o, case):
    """drive the encrypting object; returns (ciphertext, tag)"""
    mode, msg = case["mode"], case["msg"]
    if mode in ("kw", "kwp"):
        return o.seal(msg), b""
    if mode in AEAD:
        for a in case["aads"]:
            o.update(a)
        if not msg and mode not in ("siv", "ocb") and sum(len(a) for a in case["aads"]) % 3 == 1:
            # a message without plaintext, produced with no encrypt() call at all: update(); digest()
            return b"", (o.digest() if case.get("digest_api", "digest") == "digest" else bytes.fromhex(o.hexdigest()))
        if mode == "siv" or not case["split"]:
            return o.encrypt_and_digest(msg)
        ct = b""
        pos = 0
        for n in case["split"] + [len(msg)]:
            ct += o.encrypt(msg[pos:n])
            pos = n
        if mode == "ocb":
            ct += o.encrypt()
        tag = o.digest() if case["digest_api"] == "digest" else bytes.fromhex(o.hexdigest())
        return ct, tag
    ct = b""
    pos = 0
    for n in case["split"] + [len(msg)]:
        ct += o.encrypt(msg[pos:n])
        pos = n
    return ct, b""


def decrypt_with(o, case, ct, tag):
    mode = case["mode"]
    if mode in ("kw", "kwp"):
        return o.unseal(ct)
    if mode in AEAD:
        for a in case["aads"]:
            o.update(a)
        if not ct and mode not in ("siv", "ocb") and sum(len(a) for a in case["aads"]) % 3 == 2:
            o.verify(tag)                   # nothing to decrypt: update(); verify() - no decrypt() call at all
            return b""
        # how the receiver takes the plaintext varies with the case (the value must not): returned, written into a buffer of its own,
        # written over the ciphertext, or decrypt() and verify() as two calls
        how = (len(ct) + 2 * len(case["aads"]) + len(case["key"])) % 4
        if how in (1, 2) and ct and "output" in inspect.signature(o.decrypt_and_verify).parameters:
            src = bytearray(ct)
            dst = src if how == 2 else bytearray(len(ct))
            o.decrypt_and_verify(src, tag, output=dst)
            return bytes(dst)
        if how == 3 and mode != "siv":
            if ct and "output" in inspect.signature(o.decrypt).parameters:
                buf = bytearray(ct)
                o.decrypt(buf, output=buf)
                pt = bytes(buf)
            else:
                pt = o.decrypt(ct)
            if mode == "ocb":
                pt += o.decrypt()               # OCB: the documented final call without data
            o.verify(tag)
            return pt
        return o.decrypt_and_verify(ct, tag)
    # the receiver gets the ciphertext in the same pieces the sender produced it in (block modes: the cuts are on block boundaries already)
    pt = b""
    pos = 0
    inplace = (len(ct) + len(case["key"])) % 3 == 1 and "output" in inspect.signature(o.decrypt).parameters
    for n in case.get("split", []) + [len(ct)]:
        n = min(n, len(ct))
        if inplace and n > pos:
            buf = bytearray(ct[pos:n])             # every third case: the plaintext is written over the ciphertext
            o.decrypt(buf, output=buf)
            pt += bytes(buf)
        else:
            pt += o.decrypt(ct[pos:n])
        pos = max(pos, n)
    return pt


def record(case, tid):
    bs = BS.get(case["cipher"], 1)
    rec = dict(tid=tid, cipher=case["cipher"], mode=case["mode"], op=case["op"], key=list(case["key"]), ekb=case.get("ekb", 0),
               drop=max(case.get("drop", 0), 0), seg=case.get("seg", 0), maclen=case.get("maclen", 0),
               ctr_init=list(case.get("ctr_init", b"")), ctr_suffix=list(case.get("ctr_suffix", b"")), ctr_le=bool(case.get("ctr_le", False)),
               seek_block=[0, 0, 0, 0], seek_off=0, aads=[list(a) for a in case.get("aads", [])],
               iv_given=case["iv"] is not None, iv_arg=list(case["iv"] or b""), has_iv=False, iv=[], msg=list(case["msg"]),
               out="ok", ct=[], tag=[], ct_again=[], again_exc="none", dec_out="ok", dec_pt=[], dec_iv=[],
               api=json.dumps({k: case[k] for k in ("ctr_api", "ivname", "attr", "split", "declare", "seg_api", "maclen_api", "ekb_api", "drop_api",
                                                    "digest_api", "seek", "ctr_default_init") if k in case}, sort_keys=True))
    if case.get("seek", -1) >= 0:
        blk, off = divmod(case["seek"], 64)
        rec["seek_block"] = [(blk >> (16 * i)) & 0xFFFF for i in range(4)]
        rec["seek_off"] = off
    if case["mode"] == "ctr" and case["iv"] is None:
        rec["iv_arg"] = list(case.get("ctr_prefix", b""))          # counter-style layouts: the prefix is what a nonce would be
        rec["iv_given"] = case["ctr_api"] == "counter"
    if case["op"] == "dec":
        # decryption of arbitrary data: msg := what the library returned, ct := the input
        try:
            o = new_obj(case, case["iv"])
            rec["has_iv"], iv = exposed(o, case)
            rec["iv"] = list(iv)
            pt = o.decrypt(case["msg"])
            rec["ct"] = list(case["msg"])
            rec["msg"] = list(pt)
        except Exception as e:  # noqa: BLE001  (the class is the observation)
            rec["out"] = exc_class(e)
        return rec
    try:
        o = new_obj(case, None if case["mode"] == "ctr" and case["ctr_api"] == "counter" else case["iv"])
        ct, tag = encrypt_with(o, case)
        has, iv = exposed(o, case)
    except Exception as e:  # noqa: BLE001
        rec["out"] = exc_class(e)
        return rec
    rec.update(ct=list(ct), tag=list(tag), has_iv=has, iv=list(iv))
    # what a peer does: a fresh object from the exposed attribute (or, when nothing is exposed, from the caller's parameters)
    peer_iv = iv if has else case["iv"]
    if case["mode"] == "ctr" and not has:
        peer_iv = None                                  # counter with a suffix: the layout itself is the only parameter
    if not rec["iv_given"] and has:
        try:
            o2 = new_obj(case, peer_iv)
            rec["ct_again"] = list(encrypt_with(o2, case)[0])
        except Exception as e:  # noqa: BLE001
            rec["ct_again"] = []
            rec["again_exc"] = exc_class(e)
    try:
        if case["mode"] == "openpgp":
            d = new_obj(case, ct[:bs + 2])              # the peer reads the encrypted IV in front of the ciphertext
            pt = d.decrypt(ct[bs + 2:])
        else:
            d = new_obj(case, peer_iv)
            pt = decrypt_with(d, case, ct, tag)
        rec["dec_pt"] = list(pt)
        rec["dec_iv"] = list(exposed(d, case)[1])
    except Exception as e:  # noqa: BLE001
        rec["dec_out"] = exc_class(e)
    return rec


# ----------------------------------------------------------------------------------------------- generators
def msg_lens(bs, r, big):
    base = [0, 1, bs - 1, bs, bs + 1, 8 * bs - 1, 8 * bs, 8 * bs + 1, 300]
    return base + ([2048, 5120] if big else [])


def block_lens(bs, big):
    """message lengths that ECB/CBC accept (multiples of the block size) around the same boundaries"""
    return [0, bs, 2 * bs, 7 * bs, 8 * bs, 9 * bs, 304] + ([2048, 5120] if big else [])


def des3_key(r, n):
    while True:
        k = rb(r, n)
        adj = bytes((b & 0xFE) for b in k)
        if adj[:8] != adj[8:16] and (n == 16 or adj[8:16] != adj[16:24]):
            return k


def keys_for(cipher, r, scale):
    """list of (key, ekb).  Quick: the extreme key lengths and a seeded sample; thorough: every legal length."""
    out = []
    if cipher == "aes":
        for n in (16, 24, 32):
            out += [(rb(r, n), 0) for _ in range(max(1, scale // 2))]
    elif cipher == "des":
        out = [(rb(r, 8), 0) for _ in range(max(2, scale))] + [(bytes([0xFF] * 8), 0), (bytes(8), 0)][:1 if QUICK else 2]
    elif cipher == "des3":
        for n in (16, 24):
            out += [(des3_key(r, n), 0) for _ in range(max(1, scale // 2))]
    elif cipher == "blowfish":
        lens = list(range(4, 57))
        pick = [4, 56] + r.sample(lens[1:-1], 4) if QUICK else lens
        out = [(rb(r, n), 0) for n in pick]
    elif cipher == "cast":
        lens = list(range(5, 17))
        pick = [5, 10, 11, 16] + r.sample([6, 7, 8, 9, 12, 13, 14, 15], 2) if QUICK else lens
        out = [(rb(r, n), 0) for n in pick]
    elif cipher == "arc2":
        lens = list(range(5, 129))
        pick = [5, 8, 16, 128] + r.sample(lens, 3) if QUICK else lens
        ekbs = [40, 41, 63, 64, 65, 127, 128, 129, 255, 256, 1023, 1024]
        for i, n in enumerate(pick):
            out.append((rb(r, n), ekbs[(i + r.randrange(12)) % 12] if i % 4 != 3 else 1024))
        if not QUICK:
            out += [(rb(r, r.choice([5, 16, 32])), e) for e in range(40, 1025, 37)]
    return out


def ctr_layouts(bs, r):
    """counter layouts: dicts(ctr_api, ctr_prefix?, ctr_init (big-endian bytes of the initial value), ctr_suffix, ctr_le, iv)"""
    outs = []
    # nonce= / initial_value= interface: prefix = nonce, big-endian counter in the rest of the block
    for nl in sorted(set([0, 1, bs // 2, bs - 4, bs - 1])):
        cl = bs - nl
        for val in (0, 1, (1 << (8 * cl)) - 2, (1 << (8 * cl)) - 1, r.getrandbits(8 * cl)):
            api = r.choice(["nonce_int", "nonce_bytes"]) if val else r.choice(["nonce_int", "nonce_bytes", "nonce_default"])
            outs.append(dict(ctr_api=api, ctr_init=val.to_bytes(cl, "big"), ctr_suffix=b"", ctr_le=False, iv=rb(r, nl)))
    if bs == 16:
        # library-chosen nonce (8 bytes), counter of 8 bytes
        for val in (0, 5, (1 << 64) - 1):
            outs.append(dict(ctr_api="nonce_int" if val else "nonce_default", ctr_init=val.to_bytes(8, "big"), ctr_suffix=b"", ctr_le=False, iv=None))
    # Crypto.Util.Counter interface: prefix | counter of nbits | suffix, big or little endian
    for cl in sorted(set([1, 2, 4, bs // 2, bs - 1, bs])):
        for le in (False, True):
            rest = bs - cl
            for pl in sorted(set([0, rest // 2, rest])):
                mx = (1 << (8 * cl)) - 1
                for val in (1, mx - 1, mx, r.getrandbits(8 * cl)):
                    outs.append(dict(ctr_api="counter", ctr_prefix=rb(r, pl), ctr_init=val.to_bytes(cl, "big"), ctr_suffix=rb(r, rest - pl),
                                     ctr_le=le, ctr_default_init=(val == 1 and r.random() < 0.5), iv=None))
    return outs


def splits(r, n, unit):
    """cut positions (multiples of unit) for segmented calls; empty = one-shot"""
    if n < 2 * unit or r.random() < 0.5:
        return []
    k = r.choice([1, 1, 2])
    pts = sorted(set(unit * r.randrange(0, n // unit + 1) for _ in range(k)))
    return [p for p in pts if p <= n]


def gen_block(cipher, mode, r, scale, big):
    """cases of one (cipher, mode) family, keys cycled so that every key meets every mode"""
    bs = BS[cipher]
    keys = keys_for(cipher, random.Random("%d/keys/%s" % (SEED, cipher)), scale)
    cases = []

    def base(i):
        key, ekb = keys[i % len(keys)]
        c = dict(cipher=cipher, mode=mode, op="enc", key=key, kidx=i % len(keys), aads=[], split=[])
        if cipher == "arc2":
            c["ekb"] = ekb
            c["ekb_api"] = not (ekb == 1024 and r.random() < 0.5)      # 1024 is the documented default
        return c

    i = r.randrange(len(keys))
    if mode in ("ecb", "cbc"):
        for rep in range(scale):
            for n in block_lens(bs, big and rep == 0):
                c = base(i); i += 1
                c["msg"] = rb(r, n)
                c["iv"] = None if mode == "ecb" or (rep % 3 == 1) else rb(r, bs)
                c["ivname"], c["attr"] = r.choice(["iv", "IV"]), r.choice(["iv", "IV"])
                c["split"] = splits(r, n, bs)
                cases.append(c)
                if n and rep % 2 == 0:                                # the decrypt direction on arbitrary data
                    d = base(i - 1)
                    d.update(op="dec", msg=rb(r, n), iv=None if mode == "ecb" else rb(r, bs))
                    cases.append(d)
    elif mode == "cfb":
        segs = list(range(1, bs + 1))
        chosen = segs if not QUICK else sorted(set([1, 2, bs - 1, bs] + r.sample(segs, 3)))
        for rep in range(max(1, scale // 2)):
            for s in chosen:
                lens = msg_lens(bs, r, False) + [s, 3 * s + 1, 8 * s]
                for n in (lens if not QUICK or s in (1, bs) else r.sample(lens, 5)):
                    if s <= 2 and n > 300:
                        continue
                    c = base(i); i += 1
                    c.update(msg=rb(r, n), seg=s, seg_api=not (s == 1 and r.random() < 0.5), iv=None if r.random() < 0.2 else rb(r, bs))
                    c["ivname"], c["attr"] = r.choice(["iv", "IV"]), r.choice(["iv", "IV"])
                    c["split"] = splits(r, n, 1)
                    cases.append(c)
                d = base(i - 1)
                d.update(op="dec", msg=rb(r, r.choice([1, s, 3 * s + 1, 4 * bs + 3])), seg=s, seg_api=True, iv=rb(r, bs))
                cases.append(d)
        if big:
            for n in (2048, 5120):
                c = base(i); i += 1
                c.update(msg=rb(r, n), seg=r.choice([bs // 2, bs]), seg_api=True, iv=rb(r, bs), ivname="iv", attr="iv", split=splits(r, n, 1))
                cases.append(c)
            c = base(i); i += 1
            c.update(msg=rb(r, 2048), seg=1, seg_api=True, iv=rb(r, bs), ivname="iv", attr="iv")
            cases.append(c)
    elif mode in ("ofb", "openpgp"):
        for rep in range(scale):
            for n in msg_lens(bs, r, big and rep == 0):
                c = base(i); i += 1
                c.update(msg=rb(r, n), iv=None if rep % 3 == 1 else rb(r, bs), split=splits(r, n, 1))
                c["ivname"], c["attr"] = r.choice(["iv", "IV"]), r.choice(["iv", "IV"])
                cases.append(c)
    elif mode == "ctr":
        lays = ctr_layouts(bs, r)
        r.shuffle(lays)
        lens = msg_lens(bs, r, False)
        take = lays if not QUICK else lays[:max(24, 12 * scale)]
        for k, lay in enumerate(take):
            for n in ([lens[k % len(lens)], 8 * bs + 1] if QUICK else r.sample(lens, 3) + [8 * bs + 1]):
                c = base(i); i += 1
                c.update(lay)
                c.update(msg=rb(r, n), split=splits(r, n, 1))
                cases.append(c)
        if big:
            for lay in [x for x in lays if len(x["ctr_init"]) >= 2][:3]:
                for n in (2048, 5120):
                    c = base(i); i += 1
                    c.update(lay)
                    c.update(msg=rb(r, n), split=splits(r, n, 1))
                    cases.append(c)
    elif mode == "eax":
        nls = [1, 8, 16, 17, 32]
        for rep in range(scale):
            for k, n in enumerate(msg_lens(bs, r, False)):
                c = base(i); i += 1
                nl = nls[(k + rep) % len(nls)]
                c.update(msg=rb(r, n), iv=None if (k + rep) % 5 == 4 else rb(r, nl), maclen=r.randrange(2, bs + 1), maclen_api=True,
                         aads=[rb(r, a) for a in r.choice([[], [0], [1], [bs], [bs + 1], [3, bs], [8 * bs + 1]])],
                         split=splits(r, n, 1), digest_api=r.choice(["digest", "hexdigest"]))
                if r.random() < 0.15:
                    c.update(maclen=bs, maclen_api=False)
                cases.append(c)
    else:
        raise ValueError(mode)
    return cases


def gen_aes_aead(mode, r, scale, big):
    keys = keys_for("aes", random.Random("%d/keys/aes" % SEED), scale)
    cases = []
    lens = msg_lens(16, r, False)
    aad_opts = [[], [0], [1], [15], [16], [17], [5, 20], [129], [300]]
    i = r.randrange(len(keys))

    def base():
        nonlocal i
        key, _ = keys[i % len(keys)]
        c = dict(cipher="aes", mode=mode, op="enc", key=key, kidx=i % len(keys), aads=[], split=[], iv=None, digest_api=r.choice(["digest", "hexdigest"]))
        if mode == "siv":
            c["key"] = key + rb(random.Random("%d/siv2/%d" % (SEED, i % len(keys))), len(key))
        i += 1
        return c

    if mode in ("gcm", "ccm", "ocb"):
        nls = {"gcm": [1, 8, 12, 12, 13, 16, 17], "ccm": [7, 8, 9, 10, 11, 12, 13], "ocb": list(range(1, 16))}[mode]
        tls = {"gcm": list(range(4, 17)), "ccm": [4, 6, 8, 10, 12, 14, 16], "ocb": list(range(8, 17))}[mode]
        for rep in range(scale):
            for k, n in enumerate(lens + ([2048] if big and rep == 0 else [])):
                for nl in (nls + [None] if (k % 3 == 0 or not QUICK) else [nls[(k + rep) % len(nls)], None]):
                    c = base()
                    c.update(msg=rb(r, n), iv=None if nl is None else rb(r, nl), maclen=r.choice(tls), maclen_api=True,
                             aads=[rb(r, a) for a in r.choice(aad_opts)], split=splits(r, n, 1))
                    if mode == "ccm":
                        c["declare"] = r.random() < 0.5
                        if not c["declare"]:
                            c["split"] = []            # undeclared lengths: one update and one encrypt only (documented)
                            c["aads"] = c["aads"][:1]
                        if n >= 65536:
                            continue
                    if r.random() < 0.1:
                        c.update(maclen=16, maclen_api=False)
                    cases.append(c)
        if mode == "ccm":
            # the two sides of the boundary between the 2-byte and the 6-byte associated-data length header (SP 800-38C A.2.2: the 2-byte form
            # ends at 2^16 - 2^8 - 1); quick tier: the first length that needs the long form (about 4 100 AES blocks for the judge)
            for al, decl in (((65279, True), (65280, False), (65535, True), (65536, False)) if big else ((65280, r.random() < 0.5),)):
                c = base()
                c.update(msg=rb(r, 33), iv=rb(r, r.choice([7, 12, 13])), maclen=r.choice(tls), maclen_api=True, aads=[rb(r, al)], declare=decl)
                cases.append(c)
    elif mode == "siv":
        for rep in range(scale):
            for k, n in enumerate(lens):
                for nl in (None, 1, 12, 16, 20)[rep % 2::2] if QUICK else (None, 1, 12, 16, 20):
                    c = base()
                    aads = [rb(r, a) for a in r.choice([[], [0], [1], [16], [17], [5, 20], [0, 0], [16, 1, 40], [300]])]
                    if n == 0 and nl is None and not aads:
                        aads = [rb(r, 3)]      # S2V of the empty vector is finding F10 (owned by C12): not generated here
                    c.update(msg=rb(r, n), iv=None if nl is None else rb(r, nl), maclen=16, aads=aads)
                    c["iv_is_absent_by_design"] = nl is None
                    cases.append(c)
    elif mode == "kw":
        for rep in range(scale):
            for n in [16, 24, 32, 40, 64, 128, 136] + ([304] if rep == 0 else []):
                c = base()
                c.update(msg=rb(r, n))
                cases.append(c)
    elif mode == "kwp":
        for rep in range(scale):
            for n in [1, 7, 8, 9, 15, 16, 17, 24, 31, 40, 127, 128, 129] + ([300] if rep == 0 else []):
                c = base()
                c.update(msg=rb(r, n))
                cases.append(c)
    return cases


def gen_stream(family, r, scale, big):
    cases = []
    if family == "chacha20":
        keys = [rb(r, 32) for _ in range(max(2, scale))]
        seeks = [-1, 0, 1, 63, 64, 65, 130, 64 * 70000 + 37]
        for rep in range(scale):
            for k, n in enumerate(msg_lens(64, r, big and rep == 0)):
                for nl in (8, 12, 24, None):
                    c = dict(cipher="chacha20", mode="stream", op="enc", key=keys[(k + rep) % len(keys)], kidx=(k + rep) % len(keys), aads=[],
                             msg=rb(r, n), iv=None if nl is None else rb(r, nl), seek=seeks[(k + rep + (nl or 0)) % len(seeks)], split=splits(r, n, 1))
                    cases.append(c)
        # positions next to the counter limits: 32-bit counter (12- and 24-byte nonces) just below 2^32 - 1 blocks; 64-bit counter across 2^32
        for nl, pos, n in ((12, 64 * (2 ** 32 - 3) + 5, 100), (24, 64 * (2 ** 32 - 4), 150), (8, 64 * (2 ** 32 - 1) + 10, 200),
                           (8, 64 * (2 ** 32) - 1, 65), (8, 64 * (2 ** 48 + 2 ** 33 + 7) + 63, 70)):
            cases.append(dict(cipher="chacha20", mode="stream", op="enc", key=keys[0], kidx=0, aads=[], msg=rb(r, n), iv=rb(r, nl), seek=pos, split=[]))
    elif family == "poly1305":
        keys = [rb(r, 32) for _ in range(max(2, scale))]
        aad_opts = [[], [0], [1], [15], [16], [17], [5, 20], [129], [300]]
        for rep in range(scale):
            for k, n in enumerate(msg_lens(64, r, False) + [15, 16, 17] + ([2048] if big and rep == 0 else [])):
                for nl in (8, 12, 24, None):
                    cases.append(dict(cipher="chacha20", mode="poly1305", op="enc", key=keys[(k + rep) % len(keys)], kidx=(k + rep) % len(keys),
                                      aads=[rb(r, a) for a in r.choice(aad_opts)], msg=rb(r, n), iv=None if nl is None else rb(r, nl), seek=-1,
                                      split=splits(r, n, 1), digest_api=r.choice(["digest", "hexdigest"])))
    elif family == "salsa20":
        keys = [rb(r, 16) for _ in range(max(1, scale))] + [rb(r, 32) for _ in range(max(1, scale))]
        for rep in range(scale):
            for k, n in enumerate(msg_lens(64, r, big and rep == 0)):
                for ki in range(len(keys)):
                    cases.append(dict(cipher="salsa20", mode="stream", op="enc", key=keys[ki], kidx=ki, aads=[], msg=rb(r, n),
                                      iv=None if (k + ki + rep) % 4 == 3 else rb(r, 8), split=splits(r, n, 1)))
    elif family == "arc4":
        klens = [1, 5, 16, 32, 256] + r.sample(range(2, 256), 3) if QUICK else list(range(1, 257))
        drops = [-1, 0, 1, 255, 256, 768, 3072]
        for rep in range(scale if QUICK else 1):
            for k, kl in enumerate(klens):
                key = rb(r, kl)
                for n in (msg_lens(16, r, False) if QUICK or kl in (1, 5, 16, 256) else r.sample(msg_lens(16, r, False), 2)):
                    d = drops[(k + n + rep) % len(drops)]
                    cases.append(dict(cipher="arc4", mode="stream", op="enc", key=key, kidx=k, aads=[], msg=rb(r, n), iv=None, drop=d,
                                      drop_api="none" if d < 0 else r.choice(["kw", "pos"]), split=splits(r, n, 1)))
    return cases


def invalid_observations(r):
    """The impossible element of each argument domain.  The property is silent about invalid parameters, so these calls are not
    judged: the recorder only tabulates the outcome class (an exception class, or "accepted") as an observation."""
    k16, k8, k24 = rb(r, 16), rb(r, 8), des3_key(r, 24)
    tries = [
        ("AES-ECB, 15-byte message", lambda: AES.new(k16, AES.MODE_ECB).encrypt(bytes(15))),
        ("AES-CBC, 17-byte message", lambda: AES.new(k16, AES.MODE_CBC, iv=bytes(16)).encrypt(bytes(17))),
        ("AES-CBC, 15-byte iv", lambda: AES.new(k16, AES.MODE_CBC, iv=bytes(15))),
        ("AES-CFB, segment_size 0", lambda: AES.new(k16, AES.MODE_CFB, iv=bytes(16), segment_size=0)),
        ("AES-CFB, segment_size 12", lambda: AES.new(k16, AES.MODE_CFB, iv=bytes(16), segment_size=12)),
        ("AES-CFB, segment_size 136", lambda: AES.new(k16, AES.MODE_CFB, iv=bytes(16), segment_size=136)),
        ("AES-OFB, 17-byte iv", lambda: AES.new(k16, AES.MODE_OFB, iv=bytes(17))),
        ("AES-CTR, 16-byte nonce", lambda: AES.new(k16, AES.MODE_CTR, nonce=bytes(16))),
        ("AES-CTR, initial_value 2^64 with 8-byte nonce", lambda: AES.new(k16, AES.MODE_CTR, nonce=bytes(8), initial_value=1 << 64)),
        ("AES-CTR, counter block of 15 bytes", lambda: AES.new(k16, AES.MODE_CTR, counter=Counter.new(64, prefix=bytes(7)))),
        ("AES-CTR, 8-bit counter, 257 blocks", lambda: AES.new(k16, AES.MODE_CTR, nonce=bytes(15)).encrypt(bytes(16 * 257))),
        ("DES-CTR, no nonce", lambda: DES.new(k8, DES.MODE_CTR)),
        ("AES-OPENPGP, 17-byte iv", lambda: AES.new(k16, AES.MODE_OPENPGP, iv=bytes(17))),
        ("AES-GCM, empty nonce", lambda: AES.new(k16, AES.MODE_GCM, nonce=b"")),
        ("AES-GCM, mac_len 3", lambda: AES.new(k16, AES.MODE_GCM, nonce=bytes(12), mac_len=3)),
        ("AES-GCM, mac_len 17", lambda: AES.new(k16, AES.MODE_GCM, nonce=bytes(12), mac_len=17)),
        ("AES-CCM, 6-byte nonce", lambda: AES.new(k16, AES.MODE_CCM, nonce=bytes(6))),
        ("AES-CCM, 14-byte nonce", lambda: AES.new(k16, AES.MODE_CCM, nonce=bytes(14))),
        ("AES-CCM, mac_len 5", lambda: AES.new(k16, AES.MODE_CCM, nonce=bytes(11), mac_len=5)),
        ("AES-OCB, empty nonce", lambda: AES.new(k16, AES.MODE_OCB, nonce=b"")),
        ("AES-OCB, 16-byte nonce", lambda: AES.new(k16, AES.MODE_OCB, nonce=bytes(16))),
        ("AES-OCB, mac_len 7", lambda: AES.new(k16, AES.MODE_OCB, nonce=bytes(12), mac_len=7)),
        ("AES-EAX, empty nonce", lambda: AES.new(k16, AES.MODE_EAX, nonce=b"")),
        ("AES-EAX, mac_len 1", lambda: AES.new(k16, AES.MODE_EAX, nonce=bytes(8), mac_len=1)),
        ("AES-SIV, 16-byte key", lambda: AES.new(k16, AES.MODE_SIV)),
        ("AES-SIV, empty nonce", lambda: AES.new(k16 + k16, AES.MODE_SIV, nonce=b"")),
        ("AES-KW, 8-byte message", lambda: AES.new(k16, AES.MODE_KW).seal(bytes(8))),
        ("AES-KW, 20-byte message", lambda: AES.new(k16, AES.MODE_KW).seal(bytes(20))),
        ("AES-KWP, empty message", lambda: AES.new(k16, AES.MODE_KWP).seal(b"")),
        ("AES, 17-byte key", lambda: AES.new(bytes(17), AES.MODE_ECB)),
        ("DES, 7-byte key", lambda: DES.new(bytes(7), DES.MODE_ECB)),
        ("3DES, K1 = K2", lambda: DES3.new(k8 + k8 + rb(r, 8), DES3.MODE_ECB)),
        ("3DES, K1 = K2 up to parity bits", lambda: DES3.new(k8 + bytes(b ^ 1 for b in k8) + rb(r, 8), DES3.MODE_ECB)),
        ("3DES, K2 = K3", lambda: DES3.new(k24[:16] + k24[8:16], DES3.MODE_ECB)),
        ("3DES, 8-byte key", lambda: DES3.new(k8, DES3.MODE_ECB)),
        ("Blowfish, 3-byte key", lambda: Blowfish.new(bytes(3), Blowfish.MODE_ECB)),
        ("Blowfish, 57-byte key", lambda: Blowfish.new(bytes(57), Blowfish.MODE_ECB)),
        ("CAST, 4-byte key", lambda: CAST.new(bytes(4), CAST.MODE_ECB)),
        ("CAST, 17-byte key", lambda: CAST.new(bytes(17), CAST.MODE_ECB)),
        ("ARC2, 4-byte key", lambda: ARC2.new(bytes(4), ARC2.MODE_ECB)),
        ("ARC2, effective_keylen 39", lambda: ARC2.new(k16, ARC2.MODE_ECB, effective_keylen=39)),
        ("ARC2, effective_keylen 1025", lambda: ARC2.new(k16, ARC2.MODE_ECB, effective_keylen=1025)),
        ("ARC4, empty key", lambda: ARC4.new(b"")),
        ("ARC4, 257-byte key", lambda: ARC4.new(bytes(257))),
        ("Salsa20, 24-byte key", lambda: Salsa20.new(key=bytes(24))),
        ("Salsa20, 12-byte nonce", lambda: Salsa20.new(key=bytes(32), nonce=bytes(12))),
        ("ChaCha20, 16-byte key", lambda: ChaCha20.new(key=k16)),
        ("ChaCha20, 16-byte nonce", lambda: ChaCha20.new(key=k16 + k16, nonce=bytes(16))),
        ("ChaCha20-Poly1305, 16-byte nonce", lambda: ChaCha20_Poly1305.new(key=k16 + k16, nonce=bytes(16))),
    ]
    out = []
    for what, f in tries:
        try:
            f()
            res = "accepted"
        except Exception as e:  # noqa: BLE001
            res = exc_class(e)
        out.append({"what": what, "outcome": res})
    return out


def families():
    fams = []
    for ci in ("aes", "des", "des3", "blowfish", "cast", "arc2"):
        for m in BLOCK_MODES:
            fams.append("%s/%s" % (ci, m))
    for m in AES_ONLY:
        fams.append("aes/" + m)
    fams += ["chacha20/stream", "chacha20/poly1305", "salsa20/stream", "arc4/stream"]
    return fams


def main():
    want = sys.argv[1]
    scale = int(sys.argv[2])
    fams = families() if want == "all" else want.split(",")
    patched = patch_entropy()
    big = not QUICK
    cases = []
    for fam in fams:
        ci, mode = fam.split("/")
        r = random.Random("%d/%s" % (SEED, fam))
        if ci in BS and mode in BLOCK_MODES:
            cs = gen_block(ci, mode, r, scale, big)
        elif ci == "aes":
            cs = gen_aes_aead(mode, r, scale, big)
        else:
            cs = gen_stream(ci if mode == "stream" else mode, r, scale, big)
        cases += cs
    # group by (cipher, key) so that the judge can reuse an expanded key for consecutive records
    order = {}
    for c in cases:
        order.setdefault((c["cipher"], bytes(c["key"]), c.get("ekb", 0)), []).append(c)
    recs = []
    tid = 0
    for k in order:
        for c in order[k]:
            tid += 1
            recs.append(record(c, tid))
    json.dump({"records": recs, "entropy_patched_modules": patched, "families": fams,
               "invalid_observations": invalid_observations(random.Random("%d/invalid" % SEED)) if want == "all" else []}, sys.stdout)


if __name__ == "__main__":
    main()
