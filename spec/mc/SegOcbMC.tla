------------------------------- MODULE SegOcbMC -------------------------------
(* C09, refinement check of OCB's two Python-level caches (obj/SegOcb): every sequence update(n)* ; encrypt(n)* ; encrypt() ;
   digest() with lengths 0..Max and |A| + |P| <= MaxTotal at block size BS.  decrypt has the same shape as encrypt. *)
EXTENDS SegOcb
CONSTANTS BS, MaxTotal
VARIABLES o, phase
vars == <<o, phase>>
Init == o = OcbNew /\ phase = "aad"
Update(n) == phase = "aad" /\ o.a + o.p + n <= MaxTotal /\ o' = OcbUpdate(BS, o, n) /\ UNCHANGED phase
Crypt(n) == phase \in {"aad", "msg"} /\ o.a + o.p + n <= MaxTotal /\ o' = OcbCrypt(BS, o, n) /\ phase' = "msg"
Final == phase \in {"aad", "msg"} /\ o' = OcbCryptFinal(BS, o) /\ phase' = "final"
\* digest() straight after update() is permitted by the code as well (no message)
Mac == phase \in {"aad", "final"} /\ o' = OcbMac(BS, o) /\ phase' = "done"
Next == (\E n \in 0..MaxTotal : Update(n) \/ Crypt(n)) \/ Final \/ Mac
Spec == Init /\ [][Next]_vars
InvCacheBound == OcbCacheBound(BS, o)
InvPrefixA == OcbPrefixA(BS, o)
InvPrefixP == OcbPrefixP(BS, o)
InvOutput == OcbOutput(BS, o)
InvRefines == OcbRefines(BS, o)
\* what a call returns is the transform of the next bytes of the stream, in order
PieceAtPosition == [][o'.out = o.out \o o'.last \/ (o'.out = o.out)]_vars
=============================================================================
