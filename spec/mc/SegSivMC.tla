------------------------------- MODULE SegSivMC -------------------------------
(* C09: every vector of at most MaxComps components with lengths in Lens: the value _S2V.derive() computes is the one RFC 5297
   defines for that vector (the component boundaries matter: the abstract state is the sequence, not the concatenation). *)
EXTENDS SegSiv
CONSTANTS BS, Lens, MaxComps
VARIABLES o
Init == o = S2vNew
Next == Len(o.lens) < MaxComps /\ \E n \in Lens : o' = S2vUpdate(o, n)
Spec == Init /\ [][Next]_o
InvRefines == S2vRefines(BS, o)
InvLast == o.last = Len(o.lens)
=============================================================================
