\* all 137 257 strings of length <= 6 over {00,01,02,03,04,80,ff}, block sizes 1..6, three styles
CONSTANTS Alphabet = {0, 1, 2, 3, 4, 128, 255}
MaxLen = 6
BlockSizes = {1, 2, 3, 4, 5, 6}
SPECIFICATION Spec
CHECK_DEADLOCK FALSE
INVARIANTS RoundTrip AcceptsExactlyTheImage FastAgrees
