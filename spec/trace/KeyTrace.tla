------------------------------- MODULE KeyTrace -------------------------------
(* C05 trace specification.  Every record is one observation of the real library (drivers/c05_keys.py): a tuple of key components --
   a case TLC enumerated from sys/KeyPipeline, concretised on a real key -- offered to construct() or, encoded, to import_key(); or a
   call of generate() with a deterministic entropy tape.  TLC is the judge:

     key returned  =>  the invariants of its type hold for the RETURNED components in the data layer (data/KeyInvariants), and the
                       returned components are the offered ones                              ("returned key's <component> ...")
     the offered components violate an invariant  =>  ValueError                            ("<api> accepted ...", "raised X instead of ValueError")
     the offered components satisfy every invariant  =>  a key                              ("refused a valid key ...")
     generate(): size and FIPS 186-4 margins                                                 ("generated key violates ...")

   Validity of the offered tuple is COMPUTED here from the recorded numbers with certified relations (untrusted witnesses, DESIGN.md
   4.5); the verdict class the model stated for the case (field cls) is only cross-checked (position field of the VERDICT line): key needs
   ok / soft, ValueError needs no / soft, either is compatible with everything.  Permissive spots are the named operators of
   KeyInvariants (KiRsaLargeD, KiEdSmallOrderPublic, KiMtNonCanonicalU, KiEdNonCanonicalAccepted) and, here, RsaUnfactoredModulus,
   RsaExponentSharesFactorWithModulus, ImportIgnoresCrtFields, PublicValueNotInSubgroup, GenElGamalRefusal.  Clauses starting with
   "harness:" are recorder inconsistencies (machinery).  An outcome that is neither a key nor an exception ("Timeout": the call did not
   return within the recorder's deadline; "Crash": it killed the interpreter) is judged like an exception of another class than ValueError. *)
EXTENDS Integers, Sequences, FiniteSets, TLC, Json, IOUtils
KI == INSTANCE KeyInvariants
Traces == JsonDeserialize(IOEnv.TRACE_FILE)

Ok == KI!KiOk
IsNat(x) == x.s = 0 /\ KI!BnIsNat(x.m)
Neg(x) == x.s = 1
\* outcome against the validity v = [st, why] of what was offered; retv = the verdict on the returned key (evaluated only for a key)
Against(api, v, exc, retv) ==
   IF v.st = "witness" THEN "harness: witness refused (" \o v.why \o ")"
   ELSE IF exc \notin {"none", "ValueError"} THEN
        (IF v.st = "ok" THEN "refused a valid key with " \o exc ELSE "raised " \o exc \o " instead of ValueError (" \o v.why \o ")")
   ELSE IF v.st = "ok" THEN (IF exc = "none" THEN retv ELSE "refused a valid key")
   ELSE IF v.st = "no" THEN (IF exc = "ValueError" THEN "ok" ELSE api \o " accepted components violating: " \o v.why)
   ELSE (IF exc = "none" THEN retv ELSE "ok")                                                            \* soft
\* The class the model stated for the case (field cls; "" = not stated) against the validity computed here.  A verdict is a pair
\* <<clause, the model's class transfers>>: the clause never depends on cls.  The toy numbers of sys/KeyPipeline have coincidences the real
\* ones do not have (19 = 2 * 10 - 1 makes "-Q" then "y+1" the identity on ws19; half of all ordinates belong to an Edwards point), so a
\* disagreement is not a recorder inconsistency: it is reported in the position field of the VERDICT line (1 = agrees, 2 = differs) and
\* props/c05.py requires exact agreement on the cases with at most one corruption and bounds the rate on the double ones.
ModelAgrees(cls, v) == cls \in {"", "either"} \/ v.st = "soft" \/ v.st = "witness" \/ (cls = "key" /\ v.st = "ok") \/ (cls = "ValueError" /\ v.st = "no")
WithModel(e, v, verdict) == <<verdict, ModelAgrees(e.cls, v)>>

\* ------------------------------------------------------------------ RSA
\* (n, e, d) without factors: decided with the recorder's factorisation of n where it has one (wp wq = n; unique if they are prime), else nothing
\* but a refusal or a consistent key can be checked
RsaUnfactoredModulus(e) == ~(KI!KiGt1(e.w.wp) /\ KI!KiGt1(e.w.wq) /\ KI!BnMul(e.w.wp, e.w.wq) = e.off.n.m)
\* a PKCS#1 structure whose exponent1 / exponent2 / coefficient are not those of (d, p, q): the importer ignores them and recomputes
ImportIgnoresCrtFields(e) == e.has.crt /\ (Neg(e.off.dp) \/ Neg(e.off.dq) \/ Neg(e.off.qi)
                                           \/ KI!KiRsaCrt(e.off.d.m, e.off.p.m, e.off.q.m, e.off.dp.m, e.off.dq.m, e.off.qi.m, e.w).st # "ok")
\* a public key (n, e) whose exponent shares a factor with the modulus (certified gcd > 1): the statement is silent (nothing relates e and n but
\* 1 < e < n without the factors); the library refuses it ("RSA public exponent is not coprime to modulus")
RsaExponentSharesFactorWithModulus(e) == KI!KiGcdIs(e.off.n.m, e.off.e.m, e.w.gne) /\ e.w.gne.g # <<1>>
RsaOffered(e) ==
   LET o == e.off IN
   IF Neg(o.n) \/ Neg(o.e) THEN KI!KiNo("a negative component")
   ELSE IF ~e.has.d THEN (LET v == KI!KiRsaPublic(o.n.m, o.e.m) IN
                          IF v.st = "ok" /\ RsaExponentSharesFactorWithModulus(e) THEN KI!KiSoft("gcd(n, e) > 1") ELSE v)
   ELSE IF Neg(o.d) \/ (e.has.pq /\ (Neg(o.p) \/ Neg(o.q))) \/ (e.has.u /\ Neg(o.u)) THEN KI!KiNo("a negative component")
   ELSE IF ~e.has.pq THEN
        (IF KI!KiRsaPublic(o.n.m, o.e.m).st # "ok" THEN KI!KiRsaPublic(o.n.m, o.e.m)
         ELSE IF RsaUnfactoredModulus(e) THEN KI!KiSoft("(n, e, d) with a modulus the recorder cannot factor")
         ELSE KI!KiRsaPrivate(o.n.m, o.e.m, o.d.m, e.w.wp, e.w.wq, <<>>, FALSE, e.w, FALSE))
   ELSE LET v == KI!KiRsaPrivate(o.n.m, o.e.m, o.d.m, o.p.m, o.q.m, o.u.m, e.has.u, e.w, FALSE) IN
        IF v.st = "ok" /\ ImportIgnoresCrtFields(e) THEN KI!KiSoft("CRT fields of the encoding") ELSE v
Same(name, got, want) == IF got = want THEN "ok" ELSE "returned key's " \o name \o " differs from the offered one"
FirstBad(vs) == LET bad == {i \in 1..Len(vs) : vs[i] # "ok"} IN IF bad = {} THEN "ok" ELSE vs[CHOOSE i \in bad : \A j \in bad : i <= j]
Named(v, what) == IF v.st = "ok" \/ v.st = "soft" THEN "ok" ELSE IF v.st = "witness" THEN "harness: witness refused for the returned key (" \o v.why \o ")"
                  ELSE what \o v.why
RsaReturned(e) ==
   LET k == e.key  o == e.off IN
   IF k.priv # e.has.d THEN "returned key's kind (public / private) differs from the offered one"
   ELSE IF ~k.priv THEN FirstBad(<<Same("n", k.n, o.n.m), Same("e", k.e, o.e.m), Named(KI!KiRsaPublic(k.n, k.e), "returned key's components inconsistent: ")>>)
   ELSE FirstBad(<<Same("n", k.n, o.n.m), Same("e", k.e, o.e.m), Same("d", k.d, o.d.m),
                   IF e.has.pq THEN Same("p", k.p, o.p.m) ELSE "ok", IF e.has.pq THEN Same("q", k.q, o.q.m) ELSE "ok", IF e.has.u THEN Same("u", k.u, o.u.m) ELSE "ok",
                   Named(KI!KiRsaPrivate(k.n, k.e, k.d, k.p, k.q, k.u, TRUE, e.kw, e.deep), "returned key's components inconsistent: "),
                   Named(KI!KiRsaCrt(k.d, k.p, k.q, k.dp, k.dq, k.invq, e.kw), "returned key's CRT values inconsistent: ")>>)
\* RsaImportDocumentedClasses: RSA.import_key documents ValueError, IndexError and TypeError for input it cannot make a key of; a refusal of
\* an invalid offer with one of the other two counts as the documented refusal (a valid key refused is still reported with the class seen)
RsaExc(e, v) == IF e.api = "import_key" /\ e.exc \in {"IndexError", "TypeError"} /\ v.st # "ok" THEN "ValueError" ELSE e.exc
RsaVerdict(e) == LET v == RsaOffered(e) IN WithModel(e, v, Against(e.api, v, RsaExc(e, v), RsaReturned(e)))

\* ------------------------------------------------------------------ DSA, ElGamal
\* O8: a public-only key whose y is in range: that y is a power of g (y^q = 1 mod p) is not required by the statement and not checked here:
\* such a key is judged on p, q, g and the range of y only (PublicValueNotInSubgroup is therefore never decided, never a refusal demanded)
AnyNeg(o, names) == \E nm \in names : Neg(o[nm])
DsaOffered(e) ==
   LET o == e.off IN
   IF AnyNeg(o, {"p", "q", "g", "y"}) \/ (e.hasx /\ Neg(o.x)) THEN KI!KiNo("a negative component")
   ELSE KI!KiDsa(o.p.m, o.q.m, o.g.m, o.y.m, o.x.m, e.hasx, e.w, FALSE)
DsaReturned(e) ==
   LET k == e.key  o == e.off IN
   IF k.priv # e.hasx THEN "returned key's kind (public / private) differs from the offered one"
   ELSE FirstBad(<<Same("p", k.p, o.p.m), Same("q", k.q, o.q.m), Same("g", k.g, o.g.m), Same("y", k.y, o.y.m), IF e.hasx THEN Same("x", k.x, o.x.m) ELSE "ok",
                   \* the returned components are the offered ones, whose relations are certified by DsaOffered; primality is looked at more closely
                   IF e.deep THEN Named(KI!KiPrimeVerdict(k.p, e.kw.fp, e.kw.mrp, TRUE, "p"), "returned key's components inconsistent: ") ELSE "ok",
                   IF e.deep THEN Named(KI!KiPrimeVerdict(k.q, e.kw.fq, e.kw.mrq, TRUE, "q"), "returned key's components inconsistent: ") ELSE "ok">>)
DsaVerdict(e) == LET v == DsaOffered(e) IN WithModel(e, v, Against(e.api, v, e.exc, DsaReturned(e)))
EgOffered(e) ==
   LET o == e.off IN
   IF AnyNeg(o, {"p", "g", "y"}) \/ (e.hasx /\ Neg(o.x)) THEN KI!KiNo("a negative component")
   ELSE KI!KiElGamal(o.p.m, o.g.m, o.y.m, o.x.m, e.hasx, e.w, FALSE)
EgReturned(e) ==
   LET k == e.key  o == e.off IN
   IF k.priv # e.hasx THEN "returned key's kind (public / private) differs from the offered one"
   ELSE FirstBad(<<Same("p", k.p, o.p.m), Same("g", k.g, o.g.m), Same("y", k.y, o.y.m), IF e.hasx THEN Same("x", k.x, o.x.m) ELSE "ok",
                   IF e.deep THEN Named(KI!KiPrimeVerdict(k.p, e.kw.fp, e.kw.mrp, TRUE, "p"), "returned key's components inconsistent: ") ELSE "ok">>)
EgVerdict(e) == LET v == EgOffered(e) IN WithModel(e, v, Against(e.api, v, e.exc, EgReturned(e)))

\* ------------------------------------------------------------------ elliptic curves
\* pub = the certified public point of the private part (a lazily evaluated chain / ladder: computed once per record, only where needed)
ChainClause(r) == IF r.st = "ok" THEN "ok" ELSE "harness: chain of the scalar multiple refused (" \o r.st \o ")"
V(v, Q) == [v |-> v, Q |-> Q]
NoPt == [x |-> <<>>, y |-> <<>>]
\* the public point validation sees: integers (construct, uncompressed encodings) or half a point (compressed SEC 1, RFC 8032 encodings)
WsPoint(e, C) ==
   IF Neg(e.off.x) \/ (e.enc = "xy" /\ Neg(e.off.y)) THEN V(KI!KiNo("a negative coordinate"), NoPt)
   ELSE IF e.enc = "xy" THEN V(Ok, [x |-> e.off.x.m, y |-> e.off.y.m])
   ELSE LET r == KI!KiWsDecompress(C, e.off.x.m, e.par, e.root) IN
        CASE r.st = "ok" -> V(Ok, [x |-> e.off.x.m, y |-> r.y])
          [] r.st = "range" -> V(KI!KiNo("coordinates < p"), NoPt)
          [] r.st = "none" -> V(KI!KiNo("the abscissa belongs to no point of the curve"), NoPt)
          [] OTHER -> V(KI!KiBadWitness("square root / Jacobi quotients"), NoPt)
EdPoint(e, C) ==
   IF Neg(e.off.y) \/ (e.enc = "xy" /\ Neg(e.off.x)) THEN V(KI!KiNo("a negative coordinate"), NoPt)
   ELSE IF e.enc = "xy" THEN V(Ok, [x |-> e.off.x.m, y |-> e.off.y.m])
   ELSE LET r == KI!KiEdDecode(C, e.off.y.m, e.par, e.root) IN
        CASE r.st = "ok" -> V(IF KI!KiEdNonCanonicalAccepted(C, e.off.y.m, e.par, e.junk) THEN KI!KiSoft("unused bits of the encoding are set (O5)") ELSE Ok, [x |-> r.x, y |-> e.off.y.m])
          [] r.st = "range" -> V(KI!KiNo("y < p in the encoding"), NoPt)
          [] r.st = "none" -> V(KI!KiNo("the ordinate belongs to no point of the curve"), NoPt)
          [] r.st = "zero-sign" -> V(IF KI!KiEdNonCanonicalAccepted(C, e.off.y.m, e.par, e.junk) THEN KI!KiSoft("x = 0 encoded with the sign bit set (O5)")
                                     ELSE KI!KiNo("x = 0 encoded with the sign bit set"), [x |-> <<>>, y |-> e.off.y.m])
          [] OTHER -> V(KI!KiBadWitness("square root / Jacobi quotients"), NoPt)
SeedVerdict(e, C) == IF ~e.hasseed THEN Ok ELSE IF Len(e.seed) # KI!KiSeedLen(C) THEN KI!KiNo("the seed has the length the curve defines") ELSE Ok
Scalar(e, C) == IF C.kind = "ws" THEN e.off.d.m ELSE IF C.kind = "ed" THEN KI!KiEdScalar(C, e.seed) ELSE KI!KiMtScalar(C, e.seed)
HasPriv(e) == e.hasd \/ e.hasseed
\* [st, why] of the offered components; pq = the decoded public point, pub = the public point of the private part
WsEdOffered(e, C, pq, pub) ==
   IF C.kind = "ws" /\ e.api = "import_key" /\ e.elen # C.bytes THEN KI!KiNo("the field lengths of the encoding belong to the named curve")
   ELSE IF (C.kind = "ws" /\ e.hasseed) \/ (C.kind = "ed" /\ e.hasd) THEN KI!KiNo("d for Weierstrass curves, a seed for the others")
   ELSE LET vq == IF ~e.hasq THEN Ok ELSE IF pq.v.st \in {"no", "witness"} THEN pq.v
                  ELSE LET v == KI!KiEcPoint(C, pq.Q, e.wq) IN
                       IF v.st # "ok" THEN v ELSE IF pq.v.st = "soft" THEN pq.v
                       ELSE IF ~HasPriv(e) /\ KI!KiEdSmallOrderPublic(C, pq.Q) THEN KI!KiSoft("public point of small order") ELSE Ok
            vd == IF C.kind = "ed" THEN SeedVerdict(e, C)
                  ELSE IF ~e.hasd THEN Ok ELSE IF Neg(e.off.d) \/ ~KI!KiEcScalarOk(C, e.off.d.m) THEN KI!KiNo("1 <= d <= order-1") ELSE Ok
            vm == IF ~(HasPriv(e) /\ e.hasq) \/ vq.st \in {"no", "witness"} \/ vd.st # "ok" THEN Ok
                  ELSE IF pub.st # "ok" THEN KI!KiBadWitness("chain of the scalar multiple: " \o pub.st)
                  ELSE IF pub.pt # pq.Q THEN KI!KiNo("the public point is the private scalar times G") ELSE Ok
        IN KI!KiFirst(<<vq, vd, vm>>)
WsEdReturned(e, C, pq, pub) ==
   LET k == e.key IN
   IF k.priv # HasPriv(e) THEN "returned key's kind (public / private) differs from the offered one"
   ELSE FirstBad(<<IF e.hasd THEN Same("d", k.d, e.off.d.m) ELSE "ok",
                   IF e.hasseed THEN Same("seed", k.seed, e.seed) ELSE "ok",
                   IF e.hasseed /\ k.d # Scalar(e, C) THEN "returned key's d is not the clamped hash of the seed (RFC 8032 5.1.5 / 5.2.5)" ELSE "ok",
                   IF e.hasq THEN (IF [x |-> k.x, y |-> k.y] = pq.Q THEN "ok" ELSE "returned key's public point differs from the offered one")
                   ELSE IF pub.st # "ok" THEN ChainClause(pub)
                   ELSE IF [x |-> k.x, y |-> k.y] = pub.pt THEN "ok" ELSE "returned key's public point is not the private scalar times G",
                   Named(KI!KiEcPoint(C, [x |-> k.x, y |-> k.y], e.kwq), "returned key's public point invalid: ")>>)
MtOffered(e, C, pubm) ==
   IF e.hasd THEN KI!KiNo("d for Weierstrass curves, a seed for the others")
   ELSE LET u == e.off.x
            vu == IF ~e.hasq THEN Ok ELSE IF Neg(u) THEN KI!KiNo("a negative coordinate") ELSE IF ~KI!KiMtFits(C, u.m) THEN KI!KiNo("u fits the encoded length")
                  ELSE IF KI!KiMtLowOrder(C, u.m) THEN KI!KiNo("the public value is not a point of small order (1, 2, 4, 8; curve or twist)") ELSE Ok
            vs == SeedVerdict(e, C)
            vm == IF ~(e.hasseed /\ e.hasq) \/ vu.st # "ok" \/ vs.st # "ok" THEN Ok
                  ELSE IF KI!EcMontIsX(C, pubm, KI!EcRed(C, u.m)) THEN Ok ELSE KI!KiNo("the public value is the private scalar times G")
            vn == IF e.hasq /\ vu.st = "ok" /\ KI!KiMtNonCanonicalU(C, u.m) THEN KI!KiSoft("non-canonical u (RFC 7748: taken modulo p)") ELSE Ok
        IN KI!KiFirst(<<vu, vs, vm, vn>>)
MtReturned(e, C, pubm) ==
   LET k == e.key IN
   IF k.priv # e.hasseed THEN "returned key's kind (public / private) differs from the offered one"
   ELSE FirstBad(<<IF e.hasseed THEN Same("seed", k.seed, e.seed) ELSE "ok",
                   IF e.hasseed /\ k.d # Scalar(e, C) THEN "returned key's d is not the RFC 7748 decoding of the seed" ELSE "ok",
                   IF ~KI!EcIsElem(k.x, C.p) THEN "returned key's coordinate out of range"
                   ELSE IF e.hasq THEN (IF k.x = KI!EcRed(C, e.off.x.m) THEN "ok" ELSE "returned key's public value differs from the offered one")
                   ELSE IF KI!EcMontIsX(C, pubm, k.x) THEN "ok" ELSE "returned key's public value is not the private scalar times G",
                   IF KI!KiMtLowOrder(C, k.x) THEN "returned key's public value is a point of small order" ELSE "ok">>)
EcVerdict(e) ==
   LET C == KI!EcCurve(e.curve) IN
   IF C.kind = "mt" THEN (LET pubm == KI!KiMtPublicOf(C, Scalar(e, C))
                              v == MtOffered(e, C, pubm)
                          IN WithModel(e, v, Against(e.api, v, e.exc, MtReturned(e, C, pubm))))
   ELSE LET pq == IF ~e.hasq THEN V(Ok, NoPt) ELSE IF C.kind = "ws" THEN WsPoint(e, C) ELSE EdPoint(e, C)
            pub == KI!KiEcPublicOf(C, Scalar(e, C), e.links)
            v == WsEdOffered(e, C, pq, pub)
        IN WithModel(e, v, Against(e.api, v, e.exc, WsEdReturned(e, C, pq, pub)))

\* ------------------------------------------------------------------ generate()
\* A generated key is judged on its RETURNED components alone: the invariants of its type, the requested size, the FIPS 186-4 sizes and margins.
\* GenRefusal: the statement of C05 speaks of the keys the library hands out; whether generate() may refuse a request is only decided for the
\* requests its documentation admits (RSA: bits >= 1024, e odd >= 3; DSA: bits in {1024, 2048, 3072}, a valid domain of a FIPS 186-4 size pair;
\* ECC: every supported curve).  ElGamal.generate documents no domain: a ValueError is never a verdict there (GenElGamalRefusal).
GenBad(v) == IF v.st = "ok" \/ v.st = "soft" THEN "ok" ELSE IF v.st = "witness" THEN "harness: witness refused for the generated key (" \o v.why \o ")"
             ELSE "generated key violates: " \o v.why
GenOutcome(e, documented, keyverdict) ==
   IF e.exc \notin {"none", "ValueError"} THEN "generate() raised " \o e.exc
   ELSE IF e.exc = "ValueError" THEN (IF documented THEN "generate() refused a request its documentation admits" ELSE "ok")
   ELSE keyverdict
GenRsaVerdict(e) ==
   LET k == e.key
       documented == e.bits >= 1024 /\ IsNat(e.e) /\ KI!BnIsOdd(e.e.m) /\ KI!BnCmp(e.e.m, <<2>>) > 0
   IN GenOutcome(e, documented,
         IF ~k.priv THEN "generated key violates: it has a private part"
         ELSE FirstBad(<<IF IsNat(e.e) /\ k.e = e.e.m THEN "ok" ELSE "generated key violates: the public exponent is the requested one",
                         GenBad(KI!KiRsaPrivate(k.n, k.e, k.d, k.p, k.q, k.u, TRUE, e.kw, e.deep)),
                         GenBad(KI!KiRsaCrt(k.d, k.p, k.q, k.dp, k.dq, k.invq, e.kw)),
                         GenBad(KI!KiRsaMargins(e.bits, k.n, k.p, k.q, k.d))>>))
GenDsaSizes == {<<1024, 160>>, <<2048, 224>>, <<2048, 256>>, <<3072, 256>>}            \* FIPS 186-4 4.2
GenDsaVerdict(e) ==
   LET k == e.key  o == e.dom
       dom == IF ~e.hasdomain THEN Ok ELSE IF AnyNeg(o, {"p", "q", "g"}) THEN KI!KiNo("a negative component")
              ELSE KI!KiDsa(o.p.m, o.q.m, o.g.m, <<1>>, <<>>, FALSE, e.w, FALSE)           \* the domain alone: y = 1 stands for "any public value"
       sized(p, q) == KI!BnBitLen(p) = e.bits /\ <<KI!BnBitLen(p), KI!BnBitLen(q)>> \in GenDsaSizes
       documented == e.bits \in {1024, 2048, 3072} /\ dom.st = "ok" /\ (e.hasdomain => sized(o.p.m, o.q.m))
   IN IF dom.st = "witness" THEN "harness: witness refused (" \o dom.why \o ")"
      ELSE GenOutcome(e, documented,
         IF dom.st = "no" THEN "generate accepted domain parameters violating: " \o dom.why
         ELSE IF ~k.priv THEN "generated key violates: it has a private part"
         ELSE FirstBad(<<IF e.hasdomain THEN FirstBad(<<Same("p", k.p, o.p.m), Same("q", k.q, o.q.m), Same("g", k.g, o.g.m)>>) ELSE "ok",
                         GenBad(KI!KiDsa(k.p, k.q, k.g, k.y, k.x, TRUE, e.kw, e.deep)),
                         IF KI!BnBitLen(k.p) # e.bits THEN "generated key violates: the modulus has exactly the requested size"
                         ELSE IF ~sized(k.p, k.q) THEN "generated key violates: the sizes of p and q are a pair of FIPS 186-4" ELSE "ok">>))
GenElGamalRefusal == FALSE
GenEgVerdict(e) ==
   LET k == e.key IN
   GenOutcome(e, GenElGamalRefusal,
      IF ~k.priv THEN "generated key violates: it has a private part"
      ELSE FirstBad(<<GenBad(KI!KiElGamal(k.p, k.g, k.y, k.x, TRUE, e.kw, e.deep)),
                      IF KI!BnBitLen(k.p) # e.bits THEN "generated key violates: the modulus has exactly the requested size" ELSE "ok">>))
GenEcVerdict(e) ==
   LET C == KI!EcCurve(e.curve)  k == e.key  Q == [x |-> k.x, y |-> k.y] IN
   GenOutcome(e, TRUE,
      IF ~k.priv THEN "generated key violates: it has a private part"
      ELSE IF C.kind = "ws" THEN
           (IF ~KI!BnIsNat(k.d) \/ ~KI!KiEcScalarOk(C, k.d) THEN "generated key violates: 1 <= d <= order-1"
            ELSE LET pub == KI!KiEcPublicOf(C, k.d, e.links) IN
                 IF pub.st # "ok" THEN ChainClause(pub) ELSE IF pub.pt # Q THEN "generated key violates: the public point is the private scalar times G"
                 ELSE GenBad(KI!KiEcPoint(C, Q, e.kwq)))
      ELSE IF Len(k.seed) # KI!KiSeedLen(C) THEN "generated key violates: the seed has the length the curve defines"
      ELSE IF C.kind = "ed" THEN
           (IF k.d # KI!KiEdScalar(C, k.seed) THEN "generated key violates: d is the clamped hash of the seed (RFC 8032 5.1.5 / 5.2.5)"
            ELSE LET pub == KI!KiEcPublicOf(C, k.d, e.links) IN
                 IF pub.st # "ok" THEN ChainClause(pub) ELSE IF pub.pt # Q THEN "generated key violates: the public point is the private scalar times G"
                 ELSE GenBad(KI!KiEcPoint(C, Q, e.kwq)))
      ELSE (IF k.d # KI!KiMtScalar(C, k.seed) THEN "generated key violates: d is the RFC 7748 decoding of the seed"
            ELSE IF ~KI!EcIsElem(k.x, C.p) THEN "generated key violates: coordinate in range"
            ELSE IF ~KI!EcMontIsX(C, KI!KiMtPublicOf(C, k.d), k.x) THEN "generated key violates: the public value is the private scalar times G"
            ELSE IF KI!KiMtLowOrder(C, k.x) THEN "generated key violates: the public value is not a point of small order" ELSE "ok"))
GenVerdict(e) ==
   CASE e.what = "rsa" -> GenRsaVerdict(e)
     [] e.what = "dsa" -> GenDsaVerdict(e)
     [] e.what = "elgamal" -> GenEgVerdict(e)
     [] e.what = "ecc" -> GenEcVerdict(e)
     [] OTHER -> "harness: unknown kind of generate record"

\* ------------------------------------------------------------------ one verdict per record
Judge(e) ==
   CASE e.fam = "rsa" -> RsaVerdict(e)
     [] e.fam = "dsa" -> DsaVerdict(e)
     [] e.fam = "elgamal" -> EgVerdict(e)
     [] e.fam = "ec" -> EcVerdict(e)
     [] e.fam = "gen" -> <<GenVerdict(e), TRUE>>
     [] OTHER -> <<"harness: unknown family", TRUE>>
VARIABLES t
TInit == t = 1
TNext == /\ t <= Len(Traces)
         /\ LET j == Judge(Traces[t]) IN PrintT(<<"VERDICT", Traces[t].tid, IF j[2] THEN 1 ELSE 2, j[1]>>)
         /\ t' = t + 1
=============================================================================
