------------------------------- MODULE PKCS1 -------------------------------
(* RFC 8017 (PKCS #1 v2.2) encryption schemes, data layer, no variables.

   RSAES-PKCS1-v1_5  section 7.2:  EM = 00 || 02 || PS || 00 || M,  PS at least eight NON-ZERO octets,  |M| <= k - 11
     V15CanEncode(k, mLen)  V15Encode(M, PS)  V15ValidPS(PS)  V15IsEncodingOf(EM, M, k)
     V15WellFormed(EM)  V15Msg(EM)  V15Decode(EM, sentinel, expected)  = <<"msg", M>> or <<"sentinel", sentinel>>
       7.2.2 step 3 plus the documented semantics of Crypto.Cipher.PKCS1_v1_5.decrypt(ct, sentinel, expected_pt_len):
       the message when the block is well formed (and, when expected # 0, has exactly `expected` octets), the caller's
       sentinel in every other case; expected = 0 means "length not known".
   RSAES-OAEP  section 7.1:  EM = Y || maskedSeed || maskedDB,  DB = lHash || PS || 01 || M,  PS zero octets, |M| <= k - 2hLen - 2
     OaepCanEncode(k, hLen, mLen)  OaepEncode(M, lHash, seed, k, MGF)  OaepMask(Y, seed, DB, MGF)  OaepUnmask(EM, hLen, MGF)
     OaepDecode(EM, lHash, hLen, MGF) = <<"ok", M>> or <<"error", <<>>>>     (7.1.2 steps 1c and 3; MGF is an operator (seed, n))
   MGF1  appendix B.2.1:  Mgf1(H, hLen, seed, n),  Mgf1Sha1, Mgf1Sha256
   Hash and mask generation functions by name (what a trace record carries):
     HashByName(h, m)  HLenOf(h)   h in "SHA1" "SHA256" "toy1" "toy2" "toy3"  (HLenOf also knows "SHA384" "SHA512")
     MgfByName(g, seed, n)         g = [kind |-> "mgf1", hash |-> h]  or  [kind |-> "toy"]
     OaepDecodeNamed(EM, h, g, label)   OaepEncodeNamed(M, h, g, label, seed, k)
   The toy hash (1..3 octet digest) and the toy mask generation function are not cryptographic; the real API accepts
   caller-supplied ones through hashAlgo= / mgfunc=, and the recorder passes Python functions with these definitions,
   which makes an exhaustive sweep over small encoded messages affordable.

   The module ends with ASSUMEs: a v1.5 encoded message produced by OpenSSL 3.5 at authoring time (pkeyutl -encrypt, then
   pkeyutl -decrypt with rsa_padding_mode:none to expose EM) and Decode(Encode(M)) = M over small instances.  The anchors
   that evaluate SHA-1 / SHA-256 (MGF1 values from Python hashlib, OAEP encoded messages from OpenSSL) are in data/PKCS1Kat. *)
EXTENDS Bytes
S1 == INSTANCE SHA1
S256 == INSTANCE SHA256

RECURSIVE FirstZeroFrom(_,_)
FirstZeroFrom(s, i) == IF i > Len(s) THEN 0 ELSE IF s[i] = 0 THEN i ELSE FirstZeroFrom(s, i + 1)        \* 0: there is none
RECURSIVE FirstNonZeroFrom(_,_)
FirstNonZeroFrom(s, i) == IF i > Len(s) THEN 0 ELSE IF s[i] # 0 THEN i ELSE FirstNonZeroFrom(s, i + 1)
AllNonZero(s) == \A i \in 1..Len(s) : s[i] # 0

\* ------------------------------------------------------------------ RSAES-PKCS1-v1_5 (7.2)
V15MaxLen(k) == k - 11
V15CanEncode(k, mLen) == mLen <= k - 11                               \* 7.2.1 step 1: otherwise "message too long"
V15ValidPS(PS) == Len(PS) >= 8 /\ AllNonZero(PS)
V15Encode(M, PS) == <<0, 2>> \o PS \o <<0>> \o M                      \* 7.2.1 step 2b, for Len(PS) = k - Len(M) - 3
V15IsEncodingOf(EM, M, k) ==                                          \* EM is V15Encode(M, PS) for some legal PS
   LET pl == k - Len(M) - 3 IN
   /\ Len(EM) = k /\ pl >= 8
   /\ V15ValidPS(SubSeq(EM, 3, 2 + pl))
   /\ EM = V15Encode(M, SubSeq(EM, 3, 2 + pl))
V15Sep(EM) == FirstZeroFrom(EM, 3)                                    \* index of the octet that separates PS from M (0: none)
V15HasSep(EM) == V15Sep(EM) # 0
V15WellFormed(EM) == /\ Len(EM) >= 11 /\ EM[1] = 0 /\ EM[2] = 2       \* 7.2.2 step 3
                     /\ V15Sep(EM) >= 11                              \* |PS| = V15Sep - 3 >= 8
V15Msg(EM) == SubSeq(EM, V15Sep(EM) + 1, Len(EM))                     \* meaningful when V15HasSep(EM)
V15Decode(EM, sentinel, expected) ==
   IF V15WellFormed(EM) /\ (expected = 0 \/ Len(V15Msg(EM)) = expected) THEN <<"msg", V15Msg(EM)>> ELSE <<"sentinel", sentinel>>

\* ------------------------------------------------------------------ MGF1 (B.2.1) and the functions by name
CeilDiv(a, b) == (a + b - 1) \div b
Mgf1(H(_), hLen, seed, n) == IF n = 0 THEN <<>> ELSE
   SubSeq(FlattenSeq([c \in 1..CeilDiv(n, hLen) |-> H(seed \o BeN(c - 1, 4))]), 1, n)
RECURSIVE ByteSum(_,_)
ByteSum(s, i) == IF i > Len(s) THEN 0 ELSE s[i] + ByteSum(s, i + 1)
RECURSIVE ByteWSum(_,_)
ByteWSum(s, i) == IF i > Len(s) THEN 0 ELSE (i * s[i]) + ByteWSum(s, i + 1)
ToyHash(s, hl) == LET a == ByteSum(s, 1)  b == ByteWSum(s, 1) IN TLCEval([j \in 1..hl |-> ((a * ((2 * j) - 1)) + (b * j) + (17 * j)) % 256])
ToyMgf(seed, n) == LET a == ByteSum(seed, 1)  b == ByteWSum(seed, 1) IN TLCEval([j \in 1..n |-> ((a * 3) + (b * 5) + (7 * j) + 11) % 256])
Sha1H(m) == S1!Sha1(m)
Sha256H(m) == S256!Sha256(m)
Toy1H(m) == ToyHash(m, 1)
Toy2H(m) == ToyHash(m, 2)
Toy3H(m) == ToyHash(m, 3)
Mgf1Sha1(seed, n) == Mgf1(Sha1H, 20, seed, n)
Mgf1Sha256(seed, n) == Mgf1(Sha256H, 32, seed, n)
HashNames == {"SHA1", "SHA256", "toy1", "toy2", "toy3"}
HLenOf(h) == CASE h = "SHA1" -> 20 [] h = "SHA256" -> 32 [] h = "toy1" -> 1 [] h = "toy2" -> 2 [] h = "toy3" -> 3
               [] h = "SHA384" -> 48 [] h = "SHA512" -> 64               \* lengths only (k < 2 hLen + 2): these two are not evaluated here
HashByName(h, m) == CASE h = "SHA1" -> Sha1H(m) [] h = "SHA256" -> Sha256H(m) [] h = "toy1" -> Toy1H(m) [] h = "toy2" -> Toy2H(m) [] h = "toy3" -> Toy3H(m)
MgfByName(g, seed, n) ==
   IF g.kind = "toy" THEN ToyMgf(seed, n)
   ELSE CASE g.hash = "SHA1" -> Mgf1Sha1(seed, n) [] g.hash = "SHA256" -> Mgf1Sha256(seed, n)
          [] g.hash = "toy1" -> Mgf1(Toy1H, 1, seed, n) [] g.hash = "toy2" -> Mgf1(Toy2H, 2, seed, n) [] g.hash = "toy3" -> Mgf1(Toy3H, 3, seed, n)

\* ------------------------------------------------------------------ RSAES-OAEP (7.1)
OaepMaxLen(k, hLen) == k - (2 * hLen) - 2
OaepCanEncode(k, hLen, mLen) == mLen <= k - (2 * hLen) - 2            \* 7.1.1 step 1b: otherwise "message too long"
OaepDB(lHash, M, k) == lHash \o Zeros(k - Len(M) - (2 * Len(lHash)) - 2) \o <<1>> \o M                 \* 7.1.1 steps 2b, 2c
OaepMask(Y, seed, DB, MGF(_,_)) ==                                    \* 7.1.1 steps 2e..2i with an arbitrary first octet and DB
   LET maskedDB == TLCEval(XorSeqN(DB, MGF(seed, Len(DB))))
       maskedSeed == TLCEval(XorSeqN(seed, MGF(maskedDB, Len(seed))))
   IN <<Y>> \o maskedSeed \o maskedDB
OaepEncode(M, lHash, seed, k, MGF(_,_)) == OaepMask(0, seed, OaepDB(lHash, M, k), MGF)                 \* Len(seed) = Len(lHash) = hLen
OaepUnmask(EM, hLen, MGF(_,_)) ==                                     \* 7.1.2 steps 3b..3f
   LET k == Len(EM)
       maskedSeed == SubSeq(EM, 2, hLen + 1)
       maskedDB == SubSeq(EM, hLen + 2, k)
       seed == TLCEval(XorSeqN(maskedSeed, MGF(maskedDB, hLen)))
       db == TLCEval(XorSeqN(maskedDB, MGF(seed, k - hLen - 1)))
   IN [y |-> EM[1], seed |-> seed, db |-> db]
OaepErr == <<"error", <<>>>>
OaepDBVerdict(y, db, lHash, hLen) ==                                  \* 7.1.2 step 3g
   LET one == FirstNonZeroFrom(db, hLen + 1) IN
   IF y = 0 /\ SubSeq(db, 1, hLen) = lHash /\ one # 0 /\ db[one] = 1 THEN <<"ok", SubSeq(db, one + 1, Len(db))>> ELSE OaepErr
OaepDecode(EM, lHash, hLen, MGF(_,_)) ==
   IF Len(EM) < (2 * hLen) + 2 THEN OaepErr                            \* 7.1.2 step 1c
   ELSE LET u == OaepUnmask(EM, hLen, MGF) IN OaepDBVerdict(u.y, u.db, lHash, hLen)
OaepDecodeNamed(EM, h, g, label) ==
   IF Len(EM) < (2 * HLenOf(h)) + 2 THEN OaepErr
   ELSE OaepDecode(EM, HashByName(h, label), HLenOf(h), LAMBDA s, n : MgfByName(g, s, n))
OaepEncodeNamed(M, h, g, label, seed, k) == OaepEncode(M, HashByName(h, label), seed, k, LAMBDA s, n : MgfByName(g, s, n))

\* ------------------------------------------------------------------ anchors (the ones that need SHA-1 / SHA-256 are in data/PKCS1Kat: this
\* module is EXTENDed by the trace specification, whose every start evaluates the ASSUMEs below)
\* encoded messages produced by OpenSSL 3.5 for the message "hello OAEP"
AMsg == <<104,101,108,108,111,32,79,65,69,80>>
\* PKCS#1 v1.5, 512-bit key
AV1 == <<0,2,200,169,31,197,245,242,92,218,74,78,206,220,45,130,252,228,145,116,241,52,193,130,172,40,58,176,231,160,164,213,247,174,169,143,110,154,214,196,111,145,8,228,208,250,144,249,113,69,243,229,168,0,104,101,108,108,111,32,79,65,69,80>>
ASSUME V15WellFormed(AV1) /\ V15Msg(AV1) = AMsg /\ V15IsEncodingOf(AV1, AMsg, 64)
ASSUME V15Decode(AV1, <<83>>, 0) = <<"msg", AMsg>> /\ V15Decode(AV1, <<83>>, 10) = <<"msg", AMsg>>
ASSUME V15Decode(AV1, <<83>>, 9) = <<"sentinel", <<83>>>> /\ V15Decode(AV1, <<83>>, 54) = <<"sentinel", <<83>>>>
ASSUME V15Decode([AV1 EXCEPT ![2] = 1], <<83>>, 0) = <<"sentinel", <<83>>>> /\ V15Decode([AV1 EXCEPT ![10] = 0], <<>>, 0) = <<"sentinel", <<>>>>
ASSUME V15Decode([AV1 EXCEPT ![11] = 0], <<83>>, 0) = <<"msg", SubSeq(AV1, 12, 64)>>                 \* exactly eight padding octets
\* Decode(Encode(M)) = M for every message length up to the maximum; one octet more cannot be encoded
APat(n, a) == [i \in 1..n |-> IF i % 3 = 0 THEN 0 ELSE (a + i) % 256]                                  \* messages with zero octets inside
ASSUME \A k \in 11..20 : /\ ~V15CanEncode(k, k - 10)
                         /\ \A ml \in 0..(k - 11) : LET M == APat(ml, 6)  EM == V15Encode(M, [i \in 1..(k - ml - 3) |-> 1 + ((i * 37) % 255)]) IN
                               /\ V15CanEncode(k, ml) /\ V15IsEncodingOf(EM, M, k)
                               /\ V15Decode(EM, <<83>>, 0) = <<"msg", M>> /\ V15Decode(EM, <<83>>, ml) = <<"msg", M>>
                               /\ V15Decode(EM, <<83>>, ml + 1) = <<"sentinel", <<83>>>>
ASSUME \A hl \in 1..3 : \A k \in ((2 * hl) + 2)..((2 * hl) + 6) :
          LET h == <<"toy1", "toy2", "toy3">>[hl]  seed == [i \in 1..hl |-> (40 * i) + k] IN
          /\ ~OaepCanEncode(k, hl, k - (2 * hl) - 1)
          /\ \A g \in {[kind |-> "toy"], [kind |-> "mgf1", hash |-> h]} : \A ml \in 0..OaepMaxLen(k, hl) :
                LET M == APat(ml, 1) IN OaepDecodeNamed(OaepEncodeNamed(M, h, g, <<9, 9>>, seed, k), h, g, <<9, 9>>) = <<"ok", M>>
=============================================================================
