------------------------------- MODULE SHA1 -------------------------------
(* FIPS 180-4 transcribed: SHA-1 (sections 4.1.1, 4.2.1, 5.1.1, 5.3.1, 6.1). *)
EXTENDS Words32
IV == << <<26437, 8961>>, <<61389, 43913>>, <<39098, 56574>>, <<4146, 21622>>, <<50130, 57840>> >>   \* 67452301 efcdab89 98badcfe 10325476 c3d2e1f0
KT == << <<23170, 31129>>, <<28377, 60321>>, <<36635, 48348>>, <<51810, 49622>> >>                  \* 5a827999 6ed9eba1 8f1bbcdc ca62c1d6
Ch(x, y, z) == XorW(AndW(x, y), AndW(NotW(x), z))
Parity(x, y, z) == Xor3W(x, y, z)
Maj(x, y, z) == Xor3W(AndW(x, y), AndW(x, z), AndW(y, z))
RECURSIVE Sched(_)
Sched(w) == IF Len(w) = 80 THEN w ELSE LET t == Len(w) + 1 IN Sched(Append(w, RotlW(XorW(XorW(w[t - 3], w[t - 8]), XorW(w[t - 14], w[t - 16])), 1)))
RECURSIVE Rnd(_,_,_)
Rnd(st, w, t) == IF t = 80 THEN st ELSE
   LET a == st[1] b == st[2] c == st[3] d == st[4] e == st[5]
       f == CASE t < 20 -> Ch(b, c, d) [] t >= 20 /\ t < 40 -> Parity(b, c, d) [] t >= 40 /\ t < 60 -> Maj(b, c, d) [] t >= 60 -> Parity(b, c, d)
   IN Rnd(<<Add5W(RotlW(a, 5), f, e, KT[(t \div 20) + 1], w[t + 1]), a, RotlW(b, 30), c, d>>, w, t + 1)
Compress(h, blk) == LET s == Rnd(h, Sched(BeWords16(blk)), 0) IN <<AddW(h[1], s[1]), AddW(h[2], s[2]), AddW(h[3], s[3]), AddW(h[4], s[4]), AddW(h[5], s[5])>>
RECURSIVE HashBlocks(_,_,_)
HashBlocks(h, p, i) == IF i > Len(p) THEN h ELSE HashBlocks(Compress(h, SubSeq(p, i, i + 63)), p, i + 64)
Sha1(m) == LET h == HashBlocks(IV, PadBE(m), 1) IN BeBytes(h[1]) \o BeBytes(h[2]) \o BeBytes(h[3]) \o BeBytes(h[4]) \o BeBytes(h[5])
\* FIPS 180 example "abc" (a9993e36...) and further values from Python hashlib
ASSUME Sha1(<<>>) = <<218,57,163,238,94,107,75,13,50,85,191,239,149,96,24,144,175,216,7,9>>
ASSUME Sha1(<<97>>) = <<134,247,228,55,250,165,167,252,225,93,29,220,185,234,234,234,55,118,103,184>>
ASSUME Sha1(<<97,98,99>>) = <<169,153,62,54,71,6,129,106,186,62,37,113,120,80,194,108,156,208,216,157>>
ASSUME Sha1(<<109,101,115,115,97,103,101,32,100,105,103,101,115,116>>) = <<193,34,82,206,218,139,232,153,77,95,160,41,10,71,35,28,29,22,170,227>>
ASSUME Sha1([i \in 1..56 |-> i - 1]) = <<99,110,46,198,152,218,201,3,73,142,100,139,210,243,175,100,29,60,136,203>>
ASSUME Sha1([i \in 1..119 |-> i - 1]) = <<65,200,157,6,0,27,171,74,183,135,54,180,78,254,124,225,140,230,174,8>>
=============================================================================
