------------------------------- MODULE Sponges -------------------------------
(* FIPS 202 (SHA-3, SHAKE), the original Keccak submission's hash (suffix 0x01), SP 800-185 (cSHAKE, KMAC, TupleHash with
   left_encode / right_encode / encode_string / bytepad) and RFC 9861 (TurboSHAKE, KangarooTwelve) on the Keccak module.
   All lengths are in bytes; rate = 200 - 2 * (security strength in bytes). *)
EXTENDS Keccak
Sha3(bits, m) == Sponge(m, 200 - (bits \div 4), 6, 24, bits \div 8)                \* SHA3-224/256/384/512
KeccakHash(bits, m) == Sponge(m, 200 - (bits \div 4), 1, 24, bits \div 8)          \* Keccak[c = 2*bits], pre-standard padding
ShakeRate(sec) == 200 - (sec \div 4)                                               \* 128 -> 168, 256 -> 136
Shake(sec, m, outlen) == Sponge(m, ShakeRate(sec), 31, 24, outlen)
\* SP 800-185 section 2.3: encodings (x < 2^31 here)
RECURSIVE BeMin(_)
BeMin(x) == IF x < 256 THEN <<x>> ELSE BeMin(x \div 256) \o <<x % 256>>
LeftEncode(x) == LET b == BeMin(x) IN <<Len(b)>> \o b
RightEncode(x) == LET b == BeMin(x) IN b \o <<Len(b)>>
EncodeString(s) == LeftEncode(8 * Len(s)) \o s
BytePad(x, w) == LET z == LeftEncode(w) \o x IN z \o Zeros((w - (Len(z) % w)) % w)
\* SP 800-185 section 3: cSHAKE(X, L, N, S); N and S both empty -> SHAKE
CShake(x, outlen, rate, fn, custom) == IF Len(fn) = 0 /\ Len(custom) = 0 THEN Sponge(x, rate, 31, 24, outlen)
                                       ELSE Sponge(BytePad(EncodeString(fn) \o EncodeString(custom), rate) \o x, rate, 4, 24, outlen)
KMACfn == <<75, 77, 65, 67>>                                      \* "KMAC"
TupleHashFn == <<84, 117, 112, 108, 101, 72, 97, 115, 104>>       \* "TupleHash"
\* section 4: KMAC(K, X, L, S)
Kmac(key, x, outlen, rate, custom) == CShake(BytePad(EncodeString(key), rate) \o x \o RightEncode(8 * outlen), outlen, rate, KMACfn, custom)
\* section 5: TupleHash(X, L, S)
RECURSIVE EncodeAll(_,_)
EncodeAll(items, i) == IF i > Len(items) THEN <<>> ELSE EncodeString(items[i]) \o EncodeAll(items, i + 1)
TupleHash(items, outlen, rate, custom) == CShake(EncodeAll(items, 1) \o RightEncode(8 * outlen), outlen, rate, TupleHashFn, custom)
\* RFC 9861 section 2: TurboSHAKE128 (rate 168) / TurboSHAKE256 (rate 136), domain byte d in 0x01..0x7F, 12 rounds
TurboShake(m, rate, d, outlen) == Sponge(m, rate, d, 12, outlen)
\* RFC 9861 section 3: KangarooTwelve = KT128(M, C, L)
LengthEncode(x) == IF x = 0 THEN <<0>> ELSE LET b == BeMin(x) IN b \o <<Len(b)>>
K12Chunk == 8192
RECURSIVE K12CVs(_,_)
K12CVs(s, i) == IF K12Chunk * i >= Len(s) THEN <<>> ELSE
    TurboShake(SubSeq(s, K12Chunk * i + 1, IF K12Chunk * (i + 1) < Len(s) THEN K12Chunk * (i + 1) ELSE Len(s)), 168, 11, 32) \o K12CVs(s, i + 1)
K12(m, custom, outlen) == LET s == m \o custom \o LengthEncode(Len(custom)) IN
   IF Len(s) <= K12Chunk THEN TurboShake(s, 168, 7, outlen)
   ELSE LET n == (Len(s) + K12Chunk - 1) \div K12Chunk IN
        TurboShake(SubSeq(s, 1, K12Chunk) \o <<3,0,0,0,0,0,0,0>> \o K12CVs(s, 1) \o LengthEncode(n - 1) \o <<255, 255>>, 168, 6, outlen)
\* the single-node form applied regardless of |S| (what an implementation computes when it never leaves the short path)
K12SingleNode(m, custom, outlen) == TurboShake(m \o custom \o LengthEncode(Len(custom)), 168, 7, outlen)
Ptn(n) == [i \in 1..n |-> (i - 1) % 251]                          \* RFC 9861 section 5 pattern
\* Known answers: FIPS 202 "abc" values and SHAKE256("") (as in Python hashlib), Keccak-256(""), SP 800-185 samples (cSHAKE128 #1,
\* cSHAKE256 #4, KMAC128 #1 and #2, KMAC256 #4, TupleHash128 #1 and #2), RFC 9861 section 5 (TurboSHAKE, KT128); the vectors that are
\* not printed in the standards were produced at authoring time by an independent pure-Python transcription that reproduces them.
\* The tree-hashing vectors (more than one chunk) are in module SpongesLongKat.
EmailSignature == <<69,109,97,105,108,32,83,105,103,110,97,116,117,114,101>>
MyTaggedApplication == <<77,121,32,84,97,103,103,101,100,32,65,112,112,108,105,99,97,116,105,111,110>>
Key4060 == [i \in 1..32 |-> 63 + i]
ASSUME LeftEncode(0) = <<1, 0>> /\ RightEncode(0) = <<0, 1>> /\ LeftEncode(256) = <<2, 1, 0>> /\ RightEncode(65536) = <<1, 0, 0, 3>>
ASSUME Len(BytePad(EncodeString(<<1, 2, 3>>), 168)) = 168 /\ Len(BytePad(Zeros(166), 168)) = 168 /\ Len(BytePad(Zeros(167), 168)) = 336 /\ Len(BytePad(Zeros(134), 136)) = 136
ASSUME LengthEncode(0) = <<0>> /\ LengthEncode(12) = <<12, 1>> /\ LengthEncode(65538) = <<1, 0, 2, 3>>
ASSUME Sha3(224, <<97,98,99>>) = <<230,66,130,76,63,140,242,74,208,146,52,238,125,60,118,111,201,163,165,22,141,12,148,173,115,180,111,223>>
ASSUME Sha3(384, <<97,98,99>>) = <<236,1,73,130,136,81,111,201,38,69,159,88,226,198,173,141,249,180,115,203,15,192,140,37,150,218,124,240,228,155,228,178,152,216,140,234,146,122,199,245,57,241,237,242,40,55,109,37>>
ASSUME Sha3(512, <<97,98,99>>) = <<183,81,133,11,26,87,22,138,86,147,205,146,75,107,9,110,8,246,33,130,116,68,247,13,136,79,93,2,64,210,113,46,16,225,22,233,25,42,243,201,26,126,197,118,71,227,147,64,87,52,11,76,244,8,213,165,101,146,248,39,78,236,83,240>>
ASSUME KeccakHash(256, <<>>) = <<197,210,70,1,134,247,35,60,146,126,125,178,220,199,3,192,229,0,182,83,202,130,39,59,123,250,216,4,93,133,164,112>>
ASSUME Shake(256, <<>>, 32) = <<70,185,221,43,11,168,141,19,35,59,63,235,116,62,235,36,63,205,82,234,98,184,27,130,181,12,39,100,110,213,118,47>>
ASSUME CShake(<<0,1,2,3>>, 32, 168, <<>>, EmailSignature) = <<193,195,105,37,182,64,154,4,241,181,4,252,188,169,216,43,64,23,39,124,181,237,43,32,101,252,29,56,20,213,170,245>>
ASSUME CShake([i \in 1..200 |-> i - 1], 64, 136, <<>>, EmailSignature) = <<7,220,39,177,30,81,251,172,117,188,123,60,29,152,62,139,75,133,251,29,239,175,33,137,18,172,134,67,2,115,9,23,39,244,43,23,237,29,246,62,142,193,24,240,75,35,99,60,29,251,21,116,200,251,85,203,69,218,142,37,175,176,146,187>>
ASSUME Kmac(Key4060, <<0,1,2,3>>, 32, 168, <<>>) = <<229,120,11,13,62,166,247,211,164,41,197,112,106,164,58,0,250,219,215,212,150,40,131,158,49,135,36,63,69,110,225,78>>
ASSUME Kmac(Key4060, <<0,1,2,3>>, 32, 168, MyTaggedApplication) = <<59,31,186,150,60,216,176,181,158,140,26,109,113,136,139,113,67,101,26,248,186,10,112,112,192,151,158,40,17,50,74,165>>
ASSUME Kmac(Key4060, <<0,1,2,3>>, 64, 136, MyTaggedApplication) = <<32,197,112,195,19,70,247,3,201,172,54,198,28,3,203,100,195,151,13,12,252,120,126,155,121,89,157,39,58,104,210,247,246,157,76,195,222,157,16,74,53,22,137,242,124,246,245,149,31,1,3,243,63,79,36,135,16,36,217,194,119,115,168,221>>
ASSUME TupleHash(<< <<0,1,2>>, <<16,17,18,19,20,21>> >>, 32, 168, <<>>) = <<197,216,120,108,26,251,155,130,17,26,179,75,101,178,192,4,143,166,78,109,72,226,99,38,76,225,112,125,63,252,142,209>>
ASSUME TupleHash(<< <<0,1,2>>, <<16,17,18,19,20,21>> >>, 32, 168, <<77,121,32,84,117,112,108,101,32,65,112,112>>) = <<117,205,178,15,244,219,17,84,232,65,215,88,226,65,96,197,75,174,134,235,140,19,231,245,244,14,179,85,136,233,109,251>>
ASSUME TurboShake(<<>>, 136, 31, 64) = <<54,122,50,157,175,234,135,28,120,2,236,103,249,5,174,19,197,118,149,220,44,102,99,198,16,53,245,154,24,248,231,219,17,237,192,225,46,145,234,96,235,107,50,223,6,221,127,0,47,186,250,187,110,19,236,28,194,13,153,85,71,96,13,176>>
ASSUME TurboShake(Ptn(17), 168, 31, 32) = <<156,151,208,54,163,186,200,25,219,112,237,224,202,85,78,198,228,194,161,164,255,191,217,236,38,156,166,161,17,22,18,51>>
ASSUME TurboShake(<<255,255,255>>, 168, 1, 32) = <<191,50,63,148,4,148,232,142,225,197,64,254,102,11,232,160,201,63,67,209,94,192,6,153,132,98,250,153,78,237,93,171>>
ASSUME K12(<<>>, <<>>, 32) = <<26,194,212,80,252,59,66,5,209,157,167,191,202,27,55,81,60,8,3,87,122,199,22,127,6,254,44,225,240,239,57,229>>
ASSUME K12(Ptn(17), <<>>, 32) = <<107,247,95,162,35,145,152,219,71,114,227,100,120,248,225,155,15,55,18,5,246,169,169,58,39,63,81,223,55,18,40,136>>
ASSUME K12(<<>>, Ptn(1), 32) = <<250,182,88,219,99,233,74,36,97,136,191,122,246,154,19,48,69,244,110,233,132,197,110,60,51,40,202,175,26,161,165,131>>
ASSUME K12(<<255>>, Ptn(41), 32) = <<216,72,197,6,140,237,115,111,68,98,21,155,152,103,253,76,32,184,8,172,195,213,188,72,224,176,107,160,163,118,46,196>>
=============================================================================
